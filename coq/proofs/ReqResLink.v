(* C11 -- lemmas about model/ReqRes.v, part 4: the slot link.  If no client ever takes over a
   dynamic-config slot that another client had before, no response is sent into a connection of
   another client (the hypothesis of the routing theorem of part 3), hence routing is exact. *)
From V Require Import model.Base model.ReqRes proofs.ReqResProofs proofs.ReqResInv proofs.ReqResRoute.
From Coq Require Import ZifyBool ZifyNat ZifyN.
Open Scope N_scope.

(* ---- generic frame: a projection of the state that ignores connections, client records and
   the id counter is untouched by everything the client side does, by polls and by reclaims ---- *)
Section Frame.
  Variable X : Type.
  Variable pi : state -> X.
  Hypothesis Hconns : forall s c, pi (st_conns s c) = pi s.
  Hypothesis Hclients : forall s c, pi (st_clients s c) = pi s.
  Hypothesis Hnext : forall s n, pi (st_next s n) = pi s.
  Hypothesis Hsrc : forall s i f, (forall c, sv_conns (f c) = sv_conns c) -> pi (upd_server s i f) = pi s.

  Lemma fr_upd_client : forall s i f, pi (upd_client s i f) = pi s. Proof. intros. apply Hclients. Qed.
  Lemma fr_upd_conn : forall s a b f, pi (upd_conn s a b f) = pi s. Proof. intros. apply Hconns. Qed.
  Lemma fr_ensure_conn : forall g s a b, pi (ensure_conn g s a b) = pi s.
  Proof. intros. unfold ensure_conn. destruct (get_conn s a b); [reflexivity|apply Hconns]. Qed.
  Lemma fr_client_sync : forall g s cl, pi (client_sync g s cl) = pi s.
  Proof.
    intros. unfold client_sync. rewrite fold_left_proj.
    - rewrite Hconns. apply fr_upd_client.
    - intros a b. rewrite fr_upd_conn. apply fr_ensure_conn.
  Qed.
  Lemma fr_client_reclaim : forall s cl, pi (client_reclaim s cl) = pi s.
  Proof. intros. unfold client_reclaim. rewrite Hconns. apply fr_upd_client. Qed.
  Lemma fr_server_reclaim : forall s sv, pi (server_reclaim s sv) = pi s.
  Proof. intros. unfold server_reclaim. rewrite Hconns. apply Hsrc. intros; reflexivity. Qed.
  Lemma fr_request_release : forall s m b, pi (request_release s m b) = pi s.
  Proof. intros. unfold request_release. apply fr_upd_client. Qed.
  Lemma fr_response_release : forall s a b c m, pi (response_release s a b c m) = pi s.
  Proof. intros. unfold response_release. apply fr_upd_conn. Qed.
  Lemma fr_client_loan : forall g s cl hid, pi (fst (client_loan g s cl hid)) = pi s.
  Proof.
    intros. unfold client_loan.
    destruct (get_client s cl); [|reflexivity].
    destruct (N.eqb (ML g) (cl_loans c)); [reflexivity|].
    destruct (get_client (client_reclaim s cl) cl); [|apply fr_client_reclaim].
    destruct (N.leb _ _); [apply fr_client_reclaim|].
    destruct (N.leb _ _); [apply fr_client_reclaim|].
    destruct (cl_avail c0); [apply fr_client_reclaim|].
    unfold fresh. cbn [fst snd]. rewrite fr_upd_client, Hnext. apply fr_client_reclaim.
  Qed.
  Lemma fr_deliver_request : forall g cl m acc k, pi (fst (deliver_request g cl m acc k)) = pi (fst acc).
  Proof.
    intros g cl m [s n] k. unfold deliver_request. cbn [fst].
    destruct (get_conn s cl (k_sv k)); [|reflexivity].
    destruct (try_send _ _ _ _) as [[q ev]|]; [|reflexivity].
    cbn [fst]. destruct ev; repeat rewrite fr_upd_client; rewrite fr_upd_conn; reflexivity.
  Qed.
  Lemma fr_client_send : forall g s m, pi (fst (client_send g s m)) = pi s.
  Proof.
    intros. unfold client_send.
    destruct (get_client s (q_cl m)); [|reflexivity].
    destruct (N.leb _ _); [apply fr_request_release|].
    unfold fresh. cbv zeta. cbn [fst snd].
    match goal with |- context [fold_left ?f ?l ?a0] =>
      pose proof (fold_left_proj _ _ _ (fun x => pi (fst x)) f l a0 (fun x y => fr_deliver_request g (q_cl m) _ x y)) as HF;
      destruct (fold_left f l a0) as [s2 n2] end.
    cbn [fst] in *. rewrite fr_upd_client. rewrite HF.
    rewrite Hnext, fr_client_reclaim, fr_upd_client, Hconns. apply fr_client_sync.
  Qed.
  Lemma fr_pend_drop : forall s p, pi (pend_drop s p) = pi s.
  Proof. intros. unfold pend_drop. rewrite fr_request_release, Hconns, fr_upd_client. reflexivity. Qed.
  Lemma fr_pend_hint : forall s p, pi (pend_hint s p) = pi s. Proof. intros. unfold pend_hint. apply Hconns. Qed.
  Lemma fr_poll_retained : forall g cl ch l s, pi (fst (poll_retained g s cl ch l)) = pi s.
  Proof.
    induction l as [|k t IH]; intros s; cbn [poll_retained]; [reflexivity|].
    destruct (N.eqb _ _); [apply IH|].
    destruct (c_sub (k_chan k ch)); [|cbn [fst]; apply fr_upd_conn].
    rewrite IH. destruct (existsb _ _); [reflexivity|apply fr_upd_conn].
  Qed.
  Lemma fr_poll_all : forall g cl ch l s a b, pi (fst (poll_all g s cl ch l a b)) = pi s.
  Proof.
    induction l as [|k t IH]; intros s a b; cbn [poll_all]; [reflexivity|].
    destruct (c_sub (k_chan k ch)); [apply IH|].
    destruct (N.leb _ _); [apply IH|cbn [fst]; apply fr_upd_conn].
  Qed.
  Lemma fr_client_rcv1 : forall g s cl ch ord, pi (fst (client_rcv1 g s cl ch ord)) = pi s.
  Proof.
    intros. unfold client_rcv1.
    pose proof (fr_poll_retained g cl ch (conns_in_order s cl ord (fun k => view_retained (k_cv k))) s) as H.
    destruct (poll_retained _ _ _ _ _) as [s1 r]. cbn [fst] in H.
    destruct r; try exact H. rewrite fr_poll_all. exact H.
  Qed.
  Lemma fr_pend_receive : forall fuel g s p ord, pi (fst (pend_receive fuel g s p ord)) = pi s.
  Proof.
    induction fuel as [|f IH]; intros; cbn [pend_receive]; [reflexivity|].
    pose proof (fr_client_rcv1 g (client_sync g s (pn_cl p)) (pn_cl p) (q_ch (pn_msg p)) ord) as H.
    destruct (client_rcv1 _ _ _ _ _) as [s1 r]. cbn [fst] in H. rewrite fr_client_sync in H.
    destruct r; try exact H.
    destruct (N.eqb _ _); [exact H|]. rewrite IH, fr_response_release. exact H.
  Qed.
  Lemma fr_act_drop : forall s a, pi (act_drop s a) = pi s.
  Proof. intros. unfold act_drop. destruct (act_conn _ _ _); [rewrite fr_upd_conn|]; apply fr_upd_conn. Qed.
  Lemma fr_spoll_retained : forall g sv l s, pi (fst (spoll_retained g s sv l)) = pi s.
  Proof.
    induction l as [|k t IH]; intros s; cbn [spoll_retained]; [reflexivity|].
    destruct (N.eqb _ _); [apply IH|].
    destruct (k_rsub k); [|cbn [fst]; apply fr_upd_conn].
    rewrite IH. destruct (nonempty _); [reflexivity|apply fr_upd_conn].
  Qed.
  Lemma fr_spoll_all : forall g sv l s a b, pi (fst (spoll_all g s sv l a b)) = pi s.
  Proof.
    induction l as [|k t IH]; intros s a b; cbn [spoll_all]; [reflexivity|].
    destruct (k_rsub k); [apply IH|].
    destruct (N.leb _ _); [apply IH|cbn [fst]; apply fr_upd_conn].
  Qed.
  Lemma fr_server_rcv1 : forall g s sv ord, pi (fst (server_rcv1 g s sv ord)) = pi s.
  Proof.
    intros. unfold server_rcv1.
    pose proof (fr_spoll_retained g sv (sconns_in_order s sv ord (fun k => view_retained (k_svw k))) s) as H.
    destruct (spoll_retained _ _ _ _) as [s1 r]. cbn [fst] in H.
    destruct r; try exact H. rewrite fr_spoll_all. exact H.
  Qed.
End Frame.

(* ---- the references to dynamic-config slots ----------------------------------------------- *)
Definition akey (a : actrec) : option N * N := (ac_idx a, q_cl (ac_msg a)).
Definition rkey (r : rloanrec) : option N * N := (rl_idx r, p_ocl (rl_msg r)).
Definition kp (s : state) :=
  (s_creg s, s_idxlog s, map sv_conns (s_servers s), map akey (s_acts s), map rkey (s_rloans s)).

Lemma map_map_if : forall A B (g : A -> B) (p : A -> bool) (f : A -> A) l,
  (forall c, g (f c) = g c) -> map g (map (fun c => if p c then f c else c) l) = map g l.
Proof. intros. rewrite map_map. apply map_ext. intro c. destruct (p c); [apply H|reflexivity]. Qed.

Lemma kp_conns : forall s c, kp (st_conns s c) = kp s. Proof. reflexivity. Qed.
Lemma kp_clients : forall s c, kp (st_clients s c) = kp s. Proof. reflexivity. Qed.
Lemma kp_next : forall s n, kp (st_next s n) = kp s. Proof. reflexivity. Qed.
Lemma kp_src : forall s i f, (forall c, sv_conns (f c) = sv_conns c) -> kp (upd_server s i f) = kp s.
Proof.
  intros s i f H. unfold kp, upd_server. cbn [s_creg s_idxlog s_servers s_acts s_rloans st_servers].
  rewrite (map_map_if _ _ sv_conns (fun c => N.eqb (sv_inst c) i) f _ H). reflexivity.
Qed.
Lemma kp_hid : forall s n, kp (st_hid s n) = kp s. Proof. reflexivity. Qed.
Lemma kp_loans : forall s x, kp (st_loans s x) = kp s. Proof. reflexivity. Qed.
Lemma kp_pends : forall s x, kp (st_pends s x) = kp s. Proof. reflexivity. Qed.
Lemma kp_resps : forall s x, kp (st_resps s x) = kp s. Proof. reflexivity. Qed.
Lemma kp_logs : forall s a b, kp (st_logs s a b) = kp s. Proof. reflexivity. Qed.

Definition refs_ok (s : state) : Prop :=
  (forall i c, nthN (s_creg s) i None = Some c -> In (c, i) (s_idxlog s)) /\
  (forall l, In l (map sv_conns (s_servers s)) -> forall i c, nthN l i None = Some c -> In (c, i) (s_idxlog s)) /\
  (forall i c, In (Some i, c) (map akey (s_acts s)) -> In (c, i) (s_idxlog s)) /\
  (forall i c, In (Some i, c) (map rkey (s_rloans s)) -> In (c, i) (s_idxlog s)).

Lemma refs_kp : forall s s', kp s' = kp s -> refs_ok s -> refs_ok s'.
Proof.
  intros s s' E H. unfold kp in E. injection E as E1 E2 E3 E4 E5. unfold refs_ok in *.
  rewrite E1, E2, E3, E4, E5. exact H.
Qed.
Lemma kp_idxlog : forall s s', kp s' = kp s -> s_idxlog s' = s_idxlog s.
Proof. intros s s' E. unfold kp in E. injection E as E1 E2 E3 E4 E5. exact E2. Qed.

(* list facts *)
Lemma nth_upd_cases : forall A (l : list A) i j x d y,
  nth j (upd l i x) d = y -> (j = i /\ y = x) \/ y = nth j l d.
Proof.
  induction l as [|h t IH]; intros i j x d y H; cbn [upd] in *; [right; symmetry; exact H|].
  destruct i, j; cbn [nth] in *.
  - left; split; [reflexivity|symmetry; exact H].
  - right; symmetry; exact H.
  - right; symmetry; exact H.
  - destruct (IH i j x d y H) as [[-> ->] | ->]; [left; split; reflexivity|right; reflexivity].
Qed.
Lemma nthN_updN_cases : forall A (l : list A) i j x d y,
  nthN (updN l i x) j d = y -> (j = i /\ y = x) \/ y = nthN l j d.
Proof.
  intros A l i j x d y H. unfold nthN, updN in *.
  destruct (nth_upd_cases _ _ _ _ _ _ _ H) as [[E ->] | ->]; [left; split; [apply N2Nat.inj; exact E|reflexivity]|right; reflexivity].
Qed.
Lemma in_enum_from : forall A (l : list A) a i x d,
  In (i, x) (combine (map N.of_nat (seq a (length l))) l) -> (a <= N.to_nat i)%nat /\ nth (N.to_nat i - a) l d = x.
Proof.
  induction l as [|h t IH]; intros a i x d H; cbn [length seq map combine] in H; [destruct H|].
  destruct H as [E | H].
  - inversion E; subst. rewrite Nat2N.id. split; [lia|]. replace (a - a)%nat with 0%nat by lia. reflexivity.
  - destruct (IH (S a) i x d H) as [H1 H2]. split; [lia|].
    replace (N.to_nat i - a)%nat with (S (N.to_nat i - S a)) by lia. exact H2.
Qed.
Lemma in_enum : forall A (l : list A) i x d, In (i, x) (enum l) -> nthN l i d = x.
Proof.
  intros A l i x d H. unfold enum in H. destruct (in_enum_from _ l 0%nat i x d H) as [_ H2].
  unfold nthN. rewrite Nat.sub_0_r in H2. exact H2.
Qed.
Lemma index_of_nth : forall x l a i, index_of x l a = Some i -> a <= i /\ nth (N.to_nat (i - a)) l None = Some x.
Proof.
  induction l as [|h t IH]; intros a i H; cbn [index_of] in H; [discriminate|].
  destruct h as [y|].
  - destruct (N.eqb_spec x y) as [->|Hne].
    + inversion H; subst. split; [lia|]. replace (i - i) with 0 by lia. reflexivity.
    + destruct (IH (a + 1) i H) as [H1 H2]. split; [lia|].
      replace (N.to_nat (i - a)) with (S (N.to_nat (i - (a + 1)))) by lia. exact H2.
  - destruct (IH (a + 1) i H) as [H1 H2]. split; [lia|].
    replace (N.to_nat (i - a)) with (S (N.to_nat (i - (a + 1)))) by lia. exact H2.
Qed.
Lemma index_of_nthN : forall x l i, index_of x l 0 = Some i -> nthN l i None = Some x.
Proof. intros x l i H. destruct (index_of_nth x l 0 i H) as [_ H2]. unfold nthN. rewrite N.sub_0_r in H2. exact H2. Qed.
Lemma nth_repeat_none : forall A n i, nth i (repeat (@None A) n) None = None.
Proof. induction n as [|n IH]; intros [|i]; cbn [repeat nth]; auto. Qed.
Lemma fold_left_inv_in : forall A B (P : A -> Prop) (f : A -> B -> A) l a,
  (forall a b, In b l -> P a -> P (f a b)) -> P a -> P (fold_left f l a).
Proof.
  induction l as [|x l IH]; intros a Hf Ha; cbn [fold_left]; [exact Ha|].
  apply IH; [intros a0 b Hb; apply Hf; right; exact Hb|apply Hf; [left; reflexivity|exact Ha]].
Qed.
Lemma get_server_in : forall s sv srv, get_server s sv = Some srv -> In (sv_conns srv) (map sv_conns (s_servers s)).
Proof. intros s sv srv H. unfold get_server in H. apply find_some in H. apply in_map. exact (proj1 H). Qed.
Lemma in_remove_nth : forall A n (l : list A) x, In x (remove_nth n l) -> In x l.
Proof.
  induction n as [|n IH]; intros [|h t] x H; cbn [remove_nth] in H; try destruct H.
  - right; exact H.
  - left; exact H.
  - right; apply IH; exact H.
Qed.

(* ---- the server side ------------------------------------------------------------------------ *)
Lemma refs_server_sync_idx : forall g sv s i reg, refs_ok s ->
  (forall c, reg = Some c -> In (c, i) (s_idxlog s)) ->
  refs_ok (server_sync_idx g sv s (i, reg)) /\ s_idxlog (server_sync_idx g sv s (i, reg)) = s_idxlog s /\
  s_creg (server_sync_idx g sv s (i, reg)) = s_creg s.
Proof.
  intros g sv s i reg H Hreg. unfold server_sync_idx.
  destruct (get_server s sv) as [srv|]; [|auto].
  match goal with |- context [if ?b then _ else _] => destruct b end; [auto|].
  match goal with |- context [upd_server (match reg with Some c => _ | None => ?x end) _ _] => set (s1 := x) end.
  assert (K1 : kp s1 = kp s).
  { unfold s1. destruct (nthN (sv_conns srv) i None); [|reflexivity]. destruct (get_conn s n sv); [|reflexivity].
    unfold upd_conn. rewrite kp_conns. apply kp_src. intros; reflexivity. }
  match goal with |- context [upd_server ?x _ _] => set (s2 := x) end.
  assert (K2 : kp s2 = kp s).
  { unfold s2. destruct reg; [|exact K1]. unfold upd_conn. rewrite kp_conns. unfold ensure_conn.
    destruct (get_conn s1 n sv); [exact K1|]. rewrite kp_conns. exact K1. }
  pose proof (refs_kp _ _ K2 H) as [A [B [C D]]].
  assert (EI : s_idxlog s2 = s_idxlog s) by (apply kp_idxlog; exact K2).
  assert (EC : s_creg s2 = s_creg s) by (unfold kp in K2; injection K2; auto).
  split; [|split; [exact EI|exact EC]].
  unfold refs_ok, upd_server. cbn [s_creg s_idxlog s_servers s_acts s_rloans st_servers].
  split; [exact A|]. split; [|split; [exact C|exact D]].
  intros l Hl j c Hn. rewrite map_map in Hl. apply in_map_iff in Hl. destruct Hl as [c0 [El Hc0]].
  destruct (N.eqb (sv_inst c0) sv).
  - cbn [sv_conns mk_server] in El. subst l.
    destruct (nthN_updN_cases _ _ _ _ _ _ _ Hn) as [[-> E] | E].
    + rewrite EI. apply Hreg. symmetry. exact E.
    + apply (B (sv_conns c0)); [apply in_map; exact Hc0|symmetry; exact E].
  - subst l. apply (B (sv_conns c0)); [apply in_map; exact Hc0|exact Hn].
Qed.
Lemma refs_server_sync : forall g s sv, refs_ok s ->
  refs_ok (server_sync g s sv) /\ s_idxlog (server_sync g s sv) = s_idxlog s /\ s_creg (server_sync g s sv) = s_creg s.
Proof.
  intros g s sv H. unfold server_sync.
  apply (fold_left_inv_in _ _ (fun a => refs_ok a /\ s_idxlog a = s_idxlog s /\ s_creg a = s_creg s)); [|auto].
  intros a [i reg] Hin [Ha [Ei Ec]].
  destruct (refs_server_sync_idx g sv a i reg Ha) as [R1 [R2 R3]].
  - intros c ->. rewrite Ei. apply (proj1 H). apply (in_enum _ _ _ _ None Hin).
  - split; [exact R1|]. split; congruence.
Qed.

(* a polled request belongs to the client of the connection it was queued in *)
Lemma spoll_retained_src : forall g sv l s, Forall conn_rt l ->
  forall cl m, snd (spoll_retained g s sv l) = S1Some cl m -> q_cl m = cl.
Proof.
  induction l as [|k t IH]; intros s Hl cl m; cbn [spoll_retained]; [discriminate|].
  inversion Hl as [|? ? [Hk _] Ht]; subst.
  destruct (N.eqb _ _); [apply IH; exact Ht|].
  destruct (k_rsub k) as [|m0 q] eqn:Es; [apply IH; exact Ht|].
  cbn [snd]. intro E. inversion E; subst. apply Hk. left; reflexivity.
Qed.
Lemma spoll_all_src : forall g sv l s a b, Forall conn_rt l ->
  forall cl m, snd (spoll_all g s sv l a b) = S1Some cl m -> q_cl m = cl.
Proof.
  induction l as [|k t IH]; intros s a b Hl cl m; cbn [spoll_all].
  { destruct (b && a); discriminate. }
  inversion Hl as [|? ? [Hk _] Ht]; subst.
  destruct (k_rsub k) as [|m0 q] eqn:Es; [apply IH; exact Ht|].
  destruct (N.leb _ _); [apply IH; exact Ht|].
  cbn [snd]. intro E. inversion E; subst. apply Hk. left; reflexivity.
Qed.
Lemma server_rcv1_src : forall g s sv ord, rt_ok s ->
  forall cl m, snd (server_rcv1 g s sv ord) = S1Some cl m -> q_cl m = cl.
Proof.
  intros g s sv ord H cl m. unfold server_rcv1.
  pose proof (spoll_retained_src g sv (sconns_in_order s sv ord (fun k => view_retained (k_svw k))) s (sconns_in_order_rt _ _ _ _ H)) as H1.
  pose proof (rt_spoll_retained g sv (sconns_in_order s sv ord (fun k => view_retained (k_svw k))) s H (sconns_in_order_rt _ _ _ _ H)) as H2.
  destruct (spoll_retained _ _ _ _) as [s1 r]. cbn [fst snd] in *.
  destruct r as [| |cl0 m0].
  - apply spoll_all_src. apply sconns_in_order_rt. exact H2.
  - discriminate.
  - intro E. apply H1. exact E.
Qed.

Lemma refs_server_receive : forall fuel g s sv slot ord, refs_ok s -> rt_ok s ->
  refs_ok (fst (server_receive fuel g s sv slot ord)) /\
  s_idxlog (fst (server_receive fuel g s sv slot ord)) = s_idxlog s /\
  (forall a, snd (server_receive fuel g s sv slot ord) = SRSome a ->
     forall i, ac_idx a = Some i -> In (q_cl (ac_msg a), i) (s_idxlog s)).
Proof.
  induction fuel as [|f IH]; intros g s sv slot ord H Hrt; cbn [server_receive].
  { split; [exact H|]. split; [reflexivity|intros; discriminate]. }
  destruct (refs_server_sync g s sv H) as [H0 [E0 _]].
  pose proof (rt_server_sync g s sv Hrt) as Hrt0.
  pose proof (fr_server_rcv1 _ kp kp_conns g (server_sync g s sv) sv ord) as K1.
  pose proof (rt_server_rcv1 g (server_sync g s sv) sv ord Hrt0) as Hrt1.
  pose proof (server_rcv1_src g (server_sync g s sv) sv ord Hrt0) as Hsrc.
  destruct (server_rcv1 _ _ _ _) as [s1 r]. cbn [fst snd] in *.
  pose proof (refs_kp _ _ K1 H0) as H1.
  assert (E1 : s_idxlog s1 = s_idxlog s) by (rewrite (kp_idxlog _ _ K1); exact E0).
  destruct r as [| |cl m]; try (split; [exact H1|split; [exact E1|intros; discriminate]]).
  pose proof (Hsrc cl m eq_refl) as Hm.
  destruct (get_server s1 sv) as [srv|] eqn:Eg.
  - destruct (index_of cl (sv_conns srv) 0) as [i|] eqn:Ei.
    + unfold fresh. cbn [fst snd].
      match goal with |- context [if ?b then _ else _] => destruct b end.
      * match goal with |- context [server_receive f g ?x sv slot ord] =>
          assert (Kx : kp x = kp s1) by (rewrite (fr_act_drop _ kp kp_conns); reflexivity);
          destruct (IH g x sv slot ord (refs_kp _ _ Kx H1)) as [R1 [R2 R3]]; [apply rt_act_drop; exact Hrt1|] end.
        split; [exact R1|]. split; [rewrite R2, (kp_idxlog _ _ Kx); exact E1|].
        intros a Ha j Hj. rewrite <- E1, <- (kp_idxlog _ _ Kx). exact (R3 a Ha j Hj).
      * cbn [fst snd]. split; [exact (refs_kp _ (st_next s1 (s_next s1 + 1)) eq_refl H1)|]. split; [exact E1|].
        intros a Ha j Hj. inversion Ha; subst a. cbn [ac_idx ac_msg] in *. inversion Hj; subst j.
        rewrite Hm, <- E1. apply (proj1 (proj2 H1) (sv_conns srv)); [eapply get_server_in; exact Eg|apply index_of_nthN; exact Ei].
    + destruct (faf g).
      * unfold fresh. cbn [fst snd]. split; [exact (refs_kp _ (st_next s1 (s_next s1 + 1)) eq_refl H1)|]. split; [exact E1|].
        intros a Ha j Hj. inversion Ha; subst a. cbn [ac_idx] in Hj. discriminate.
      * match goal with |- context [server_receive f g ?x sv slot ord] =>
          assert (Kx : kp x = kp s1) by reflexivity;
          destruct (IH g x sv slot ord (refs_kp _ _ Kx H1)) as [R1 [R2 R3]] end.
        { apply rt_upd_conn; [exact Hrt1|]. intros k _ Hk. destruct (view_on (k_svw k)); [|exact Hk]. apply conn_rt_req_same; exact Hk. }
        split; [exact R1|]. split; [rewrite R2; exact E1|].
        intros a Ha j Hj. rewrite <- E1. exact (R3 a Ha j Hj).
  - destruct (faf g).
    + unfold fresh. cbn [fst snd]. split; [exact (refs_kp _ (st_next s1 (s_next s1 + 1)) eq_refl H1)|]. split; [exact E1|].
      intros a Ha j Hj. inversion Ha; subst a. cbn [ac_idx] in Hj. discriminate.
    + match goal with |- context [server_receive f g ?x sv slot ord] =>
        assert (Kx : kp x = kp s1) by reflexivity;
        destruct (IH g x sv slot ord (refs_kp _ _ Kx H1)) as [R1 [R2 R3]] end.
      { apply rt_upd_conn; [exact Hrt1|]. intros k _ Hk. destruct (view_on (k_svw k)); [|exact Hk]. apply conn_rt_req_same; exact Hk. }
      split; [exact R1|]. split; [rewrite R2; exact E1|].
      intros a Ha j Hj. rewrite <- E1. exact (R3 a Ha j Hj).
Qed.

Lemma kp_set_act_loans : forall s u f, kp (set_act_loans s u f) = kp s.
Proof.
  intros. unfold kp, set_act_loans. cbn [s_creg s_idxlog s_servers s_acts s_rloans st_acts st_objs].
  rewrite (map_map_if _ _ akey (fun a => N.eqb (ac_uid a) u) _ (s_acts s)); [reflexivity|]. intros; reflexivity.
Qed.
Lemma kp_bump_act_seq : forall s u, kp (bump_act_seq s u) = kp s.
Proof.
  intros. unfold kp, bump_act_seq. cbn [s_creg s_idxlog s_servers s_acts s_rloans st_acts st_objs].
  rewrite (map_map_if _ _ akey (fun a => N.eqb (ac_uid a) u) _ (s_acts s)); [reflexivity|]. intros; reflexivity.
Qed.
Lemma kp_act_loan : forall g s a v, kp (fst (act_loan g s a v)) = kp s /\
  (forall r, snd (act_loan g s a v) = inr r -> rkey r = akey a).
Proof.
  intros. unfold act_loan.
  destruct (N.leb _ _); [split; [reflexivity|intros; discriminate]|].
  assert (K0 : kp (server_reclaim (set_act_loans s (ac_uid a) (fun n => n + 1)) (ac_sv a)) = kp s).
  { rewrite (fr_server_reclaim _ kp kp_conns kp_src). apply kp_set_act_loans. }
  destruct (get_server _ _); [|split; [exact K0|intros; discriminate]].
  destruct (N.leb _ _); [cbn [fst snd]; split; [rewrite kp_set_act_loans; exact K0|intros; discriminate]|].
  destruct (N.leb _ _); [cbn [fst snd]; split; [rewrite kp_set_act_loans; exact K0|intros; discriminate]|].
  unfold fresh. cbn [fst snd]. split.
  - rewrite kp_src by (intros; reflexivity). rewrite kp_next. exact K0.
  - intros r E. inversion E; subst r. reflexivity.
Qed.
Lemma kp_rloan_release : forall s r, kp (rloan_release s r) = kp s.
Proof. intros. unfold rloan_release. rewrite kp_src by (intros; reflexivity). apply kp_set_act_loans. Qed.
Lemma refs_rloan_send : forall g s r, refs_ok s -> refs_ok (rloan_send g s r) /\ s_idxlog (rloan_send g s r) = s_idxlog s.
Proof.
  intros g s r H. unfold rloan_send.
  destruct (refs_server_sync g s (rl_sv r) H) as [H0 [E0 _]].
  match goal with |- context [rloan_release ?x r] => assert (Kx : kp x = kp (server_sync g s (rl_sv r))) end.
  { destruct (rl_idx r); [|reflexivity].
    destruct (act_conn _ _ _); [|apply (fr_server_reclaim _ kp kp_conns kp_src)].
    unfold fresh. cbn [fst snd].
    destruct (try_send _ _ _ _) as [[q ev]|].
    - destruct ev; repeat (rewrite kp_src by (intros; reflexivity)); unfold upd_conn; rewrite kp_conns, kp_next; apply (fr_server_reclaim _ kp kp_conns kp_src).
    - rewrite kp_next. apply (fr_server_reclaim _ kp kp_conns kp_src). }
  split.
  - eapply refs_kp; [|exact H0]. rewrite kp_rloan_release. exact Kx.
  - rewrite (kp_idxlog _ _ (kp_rloan_release _ r)), (kp_idxlog _ _ Kx). exact E0.
Qed.

Lemma refs_gc : forall s, refs_ok s -> refs_ok (gc s) /\ s_idxlog (gc s) = s_idxlog s.
Proof.
  intros s H. unfold gc. cbv zeta.
  match goal with |- refs_ok (st_conns ?x _) /\ _ => assert (HX : refs_ok x /\ s_idxlog x = s_idxlog s) end.
  2:{ destruct HX as [A B]. split; [exact (refs_kp _ _ (kp_conns _ _) A)|exact B]. }
  apply (fold_left_inv _ _ (fun a => refs_ok a /\ s_idxlog a = s_idxlog s)).
  - intros a c [Ha Ea]. unfold gc_server. destruct (sv_obj c || server_refs a (sv_inst c)); [auto|].
    split; [|exact Ea]. destruct Ha as [A [B [C D]]].
    unfold refs_ok. cbn [s_creg s_idxlog s_servers s_acts s_rloans st_reg st_conns st_servers].
    split; [exact A|]. split; [|split; [exact C|exact D]].
    intros l Hl. apply B. apply in_map_iff in Hl. destruct Hl as [c0 [<- Hc0]]. apply in_map. apply filter_In in Hc0. exact (proj1 Hc0).
  - apply (fold_left_inv _ _ (fun a => refs_ok a /\ s_idxlog a = s_idxlog s)); [|auto].
    intros a c [Ha Ea]. unfold gc_client. destruct (cl_obj c || client_refs a (cl_inst c)); [auto|].
    match goal with |- context [index_of ?x ?l ?i] => destruct (index_of x l i) as [j|] end.
    + split; [|exact Ea]. destruct Ha as [A [B [C D]]].
      unfold refs_ok. cbn [s_creg s_idxlog s_servers s_acts s_rloans st_reg st_conns st_clients upd_conns_of_client].
      split; [|split; [exact B|split; [exact C|exact D]]].
      intros i c0 Hn. destruct (nthN_updN_cases _ _ _ _ _ _ _ Hn) as [[_ E] | E]; [discriminate|]. apply A. symmetry; exact E.
    + split; [exact Ha|exact Ea].
Qed.

Lemma refs_client_create : forall g s i, refs_ok s ->
  refs_ok (fst (client_create g s i)) /\ exists ext, s_idxlog (fst (client_create g s i)) = s_idxlog s ++ ext.
Proof.
  intros g s i H. unfold client_create.
  destruct (nthN _ _ _); [split; [exact H|exists []; rewrite app_nil_r; reflexivity]|].
  destruct (first_free _ _) as [j|]; [|split; [exact H|exists []; rewrite app_nil_r; reflexivity]].
  unfold fresh. cbn [fst snd].
  match goal with |- context [client_sync g ?x ?c] =>
    pose proof (fr_client_sync _ kp kp_conns kp_clients g x c) as K end.
  set (s1 := client_sync g _ _) in *.
  assert (K1 : kp s1 = kp s) by (rewrite K; reflexivity).
  pose proof (refs_kp _ _ K1 H) as [A [B [C D]]].
  pose proof (kp_idxlog _ _ K1) as EI.
  split; [|exists [(s_next s, j)]; cbn [s_idxlog st_reg]; rewrite EI; reflexivity].
  unfold refs_ok. cbn [s_creg s_idxlog s_servers s_acts s_rloans st_reg].
  split; [|split; [|split]].
  - intros i0 c Hn. apply in_or_app. destruct (nthN_updN_cases _ _ _ _ _ _ _ Hn) as [[-> E] | E].
    + right. inversion E; subst. left; reflexivity.
    + left. apply A. symmetry; exact E.
  - intros l Hl i0 c Hn. apply in_or_app. left. exact (B l Hl i0 c Hn).
  - intros i0 c Hin. apply in_or_app. left. exact (C i0 c Hin).
  - intros i0 c Hin. apply in_or_app. left. exact (D i0 c Hin).
Qed.
Lemma refs_server_create : forall g s i, refs_ok s ->
  refs_ok (fst (server_create g s i)) /\ s_idxlog (fst (server_create g s i)) = s_idxlog s.
Proof.
  intros g s i H. unfold server_create.
  destruct (nthN _ _ _); [auto|]. destruct (N.leb _ _); [auto|].
  unfold fresh. cbn [fst snd].
  match goal with |- context [server_sync g ?x ?c] => assert (Hx : refs_ok x) end.
  { destruct H as [A [B [C D]]]. unfold refs_ok. cbn [s_creg s_idxlog s_servers s_acts s_rloans st_servers st_next].
    split; [exact A|]. split; [|split; [exact C|exact D]].
    intros l Hl j c Hn. rewrite map_app in Hl. apply in_app_or in Hl. destruct Hl as [Hl | [<- | []]]; [exact (B l Hl j c Hn)|].
    cbn [sv_conns mk_server] in Hn. unfold nthN in Hn. rewrite nth_repeat_none in Hn. discriminate. }
  match goal with |- context [server_sync g ?x ?c] => destruct (refs_server_sync g x c Hx) as [R1 [R2 _]] end.
  split; [exact R1|exact R2].
Qed.

Lemma kp_do_q : forall g s i b, kp (fst (do_q g s i b)) = kp s.
Proof.
  intros. unfold do_q. destruct (slot_inst _ _); [|reflexivity].
  pose proof (fr_client_loan _ kp kp_conns kp_clients kp_next g (st_hid s (s_hid s + 1)) n (s_hid s)) as H1.
  destruct (client_loan _ _ _ _) as [s1 r]. cbn [fst] in H1. rewrite kp_hid in H1.
  destruct r as [[e|m]|]; try exact H1.
  pose proof (fr_client_send _ kp kp_conns kp_clients kp_next g s1 m) as H2.
  destruct (client_send g s1 m) as [s2 [e|p]]; cbn [fst] in *; [congruence|].
  destruct b; cbn [fst]; [rewrite (fr_pend_drop _ kp kp_conns kp_clients); congruence|rewrite kp_pends; congruence].
Qed.

Definition refs_post (s s' : state) : Prop := refs_ok s' /\ exists ext, s_idxlog s' = s_idxlog s ++ ext.
Lemma refs_post_kp : forall s s', kp s' = kp s -> refs_ok s -> refs_post s s'.
Proof. intros s s' K H. split; [exact (refs_kp _ _ K H)|exists []; rewrite app_nil_r; apply kp_idxlog; exact K]. Qed.
Lemma refs_post_same : forall s s', refs_ok s' -> s_idxlog s' = s_idxlog s -> refs_post s s'.
Proof. intros s s' H E. split; [exact H|exists []; rewrite app_nil_r; exact E]. Qed.

Lemma step_refs : forall g ord s o, refs_ok s -> rt_ok s -> refs_post s (fst (step g ord s o)).
Proof.
  intros g ord s o H Hrt. unfold step.
  match goal with |- context [let '(a, b) := ?e in _] => destruct e as [s1 ob] eqn:E end.
  cbn [fst].
  assert (H1 : refs_post s s1).
  { destruct o.
    - pose proof (refs_client_create g s i H) as R. rewrite E in R. exact R.
    - unfold client_drop in E. destruct (nthN _ _ _); inversion E; subst; apply refs_post_kp; auto.
    - destruct (refs_server_create g s i H) as [R1 R2]. rewrite E in R1, R2. apply refs_post_same; assumption.
    - unfold server_drop in E. destruct (nthN _ _ _) as [inst|]; inversion E; subst; apply refs_post_kp; auto.
      unfold kp. cbn [s_creg s_idxlog s_servers s_acts s_rloans st_reg upd_server st_servers].
      rewrite (map_map_if _ _ sv_conns (fun c => N.eqb (sv_inst c) inst) _ (s_servers s)); [reflexivity|intros; reflexivity].
    - destruct (slot_inst _ _); [|inversion E; subst; apply refs_post_kp; auto].
      pose proof (fr_client_loan _ kp kp_conns kp_clients kp_next g (st_hid s (s_hid s + 1)) n (s_hid s)) as K.
      destruct (client_loan _ _ _ _) as [s2 r]. cbn [fst] in K.
      destruct r as [[e|m1]|]; inversion E; subst; apply refs_post_kp; auto. all: try (rewrite kp_loans; exact K).
    - destruct (s_loans s) as [|l t]; [inversion E; subst; apply refs_post_kp; auto|].
      pose proof (fr_client_send _ kp kp_conns kp_clients kp_next g (st_loans s t) (ln_msg l)) as K.
      destruct (client_send _ _ _) as [s2 [e|p1]]; cbn [fst] in K; inversion E; subst; apply refs_post_kp; auto.
      all: try (rewrite kp_pends; exact K).
    - destruct (s_loans s) as [|l t]; inversion E; subst; apply refs_post_kp; auto.
      all: try apply (fr_request_release _ kp kp_clients).
    - pose proof (kp_do_q g s i false) as K. rewrite E in K. apply refs_post_kp; auto.
    - pose proof (kp_do_q g s i true) as K. rewrite E in K. apply refs_post_kp; auto.
    - destruct (nth_opt (s_pends s) k) as [p0|]; [|inversion E; subst; apply refs_post_kp; auto].
      pose proof (fr_pend_receive _ kp kp_conns kp_clients (rcv_fuel s) g s p0 ord) as K.
      destruct (pend_receive _ _ _ _ _) as [s2 r]. cbn [fst] in K.
      destruct r; inversion E; subst; apply refs_post_kp; auto.
    - destruct (nth_opt _ _); inversion E; subst; apply refs_post_kp; auto.
      all: try (rewrite (fr_pend_drop _ kp kp_conns kp_clients); reflexivity).
    - destruct (nth_opt _ _); inversion E; subst; apply refs_post_kp; auto.
    - destruct (nth_opt _ _); inversion E; subst; apply refs_post_kp; auto.
    - destruct (slot_inst _ _); [|inversion E; subst; apply refs_post_kp; auto].
      destruct (refs_server_receive (srv_fuel s) g s n j ord H Hrt) as [R1 [R2 R3]].
      destruct (server_receive _ _ _ _ _ _) as [s2 r]. cbn [fst snd] in *.
      destruct r as [| |a|]; inversion E; subst; try (apply refs_post_same; assumption).
      apply refs_post_same; [|exact R2].
      destruct R1 as [A [B [C D]]]. unfold refs_ok. cbn [s_creg s_idxlog s_servers s_acts s_rloans st_logs st_acts st_objs].
      split; [exact A|]. split; [exact B|]. split; [|exact D].
      intros i c Hin. rewrite map_app in Hin. apply in_app_or in Hin. destruct Hin as [Hin | [Ek | []]]; [exact (C i c Hin)|].
      unfold akey in Ek. inversion Ek. rewrite R2. subst c. apply (R3 a eq_refl i). assumption.
    - destruct (slot_inst _ _); [|inversion E; subst; apply refs_post_kp; auto].
      unfold server_has_requests in E. inversion E; subst.
      destruct (refs_server_sync g s n H) as [R1 [R2 _]]. apply refs_post_same; assumption.
    - destruct (nth_opt (s_acts s) a) as [ar|] eqn:En; [|inversion E; subst; apply refs_post_kp; auto].
      match type of E with context [act_loan g ?x ar ?v] =>
        destruct (kp_act_loan g x ar v) as [K Kr]; destruct (act_loan g x ar v) as [s2 [e|r]] end;
        cbn [fst snd] in *; rewrite kp_bump_act_seq in K; inversion E; subst; [apply refs_post_kp; auto|].
      destruct (refs_rloan_send g s2 r (refs_kp _ _ K H)) as [R1 R2]. apply refs_post_same; [exact R1|].
      rewrite R2. apply kp_idxlog; exact K.
    - destruct (nth_opt (s_acts s) a) as [ar|] eqn:En; [|inversion E; subst; apply refs_post_kp; auto].
      match type of E with context [act_loan g ?x ar ?v] =>
        destruct (kp_act_loan g x ar v) as [K Kr]; destruct (act_loan g x ar v) as [s2 [e|r]] end;
        cbn [fst snd] in *; rewrite kp_bump_act_seq in K; inversion E; subst; [apply refs_post_kp; auto|].
      apply refs_post_same; [|cbn [s_idxlog st_rloans st_objs]; apply kp_idxlog; exact K].
      pose proof (refs_kp _ _ K H) as [A [B [C D]]].
      unfold refs_ok. cbn [s_creg s_idxlog s_servers s_acts s_rloans st_rloans st_objs].
      split; [exact A|]. split; [exact B|]. split; [exact C|].
      intros i c Hin. rewrite map_app in Hin. apply in_app_or in Hin. destruct Hin as [Hin | [Ek | []]]; [exact (D i c Hin)|].
      rewrite (Kr r eq_refl) in Ek. rewrite (kp_idxlog _ _ K).
      apply (proj1 (proj2 (proj2 H)) i c). rewrite <- Ek. apply in_map.
      unfold nth_opt in En. apply nth_error_In in En. exact En.
    - destruct (s_rloans s) as [|r t] eqn:Er; inversion E; subst; [apply refs_post_kp; auto|].
      assert (Hx : refs_ok (st_rloans s t)).
      { destruct H as [A [B [C D]]]. unfold refs_ok. cbn [s_creg s_idxlog s_servers s_acts s_rloans st_rloans st_objs].
        split; [exact A|]. split; [exact B|]. split; [exact C|]. intros i c Hin. apply D. rewrite Er. right; exact Hin. }
      destruct (refs_rloan_send g (st_rloans s t) r Hx) as [R1 R2]. apply refs_post_same; assumption.
    - destruct (s_rloans s) as [|r t] eqn:Er; inversion E; subst; [apply refs_post_kp; auto|].
      apply refs_post_same; [|rewrite (kp_idxlog _ _ (kp_rloan_release _ r)); reflexivity].
      eapply refs_kp; [apply kp_rloan_release|].
      destruct H as [A [B [C D]]]. unfold refs_ok. cbn [s_creg s_idxlog s_servers s_acts s_rloans st_rloans st_objs].
      split; [exact A|]. split; [exact B|]. split; [exact C|]. intros i c Hin. apply D. rewrite Er. right; exact Hin.
    - destruct (nth_opt _ _); inversion E; subst; [|apply refs_post_kp; auto].
      apply refs_post_same; [|rewrite (kp_idxlog _ _ (fr_act_drop _ kp kp_conns _ _)); reflexivity].
      eapply refs_kp; [apply (fr_act_drop _ kp kp_conns)|].
      destruct H as [A [B [C D]]]. unfold refs_ok. cbn [s_creg s_idxlog s_servers s_acts s_rloans st_acts st_objs].
      split; [exact A|]. split; [exact B|]. split; [|exact D]. intros i c Hin. apply C.
      apply in_map_iff in Hin. destruct Hin as [x [Ex Hx]]. apply in_map_iff. exists x. split; [exact Ex|eapply in_remove_nth; exact Hx]. }
  destruct H1 as [R [ext Eext]]. destruct (refs_gc s1 R) as [G1 G2].
  split; [exact G1|exists ext; rewrite G2; exact Eext].
Qed.

(* ---- a projection that only client_create / the logs can change: untouched by every other op ---- *)
Section Frame2.
  Variable X : Type.
  Variable pi : state -> X.
  Hypothesis Hconns : forall s c, pi (st_conns s c) = pi s.
  Hypothesis Hclients : forall s c, pi (st_clients s c) = pi s.
  Hypothesis Hservers : forall s c, pi (st_servers s c) = pi s.
  Hypothesis Hnext : forall s n, pi (st_next s n) = pi s.
  Hypothesis Hhid : forall s n, pi (st_hid s n) = pi s.
  Hypothesis Hacts : forall s x, pi (st_acts s x) = pi s.
  Hypothesis Hpends : forall s x, pi (st_pends s x) = pi s.
  Hypothesis Hreg : forall s a b c d, pi (st_reg s a b c d (s_idxlog s)) = pi s.

  Lemma f2_src : forall s i f, (forall c, sv_conns (f c) = sv_conns c) -> pi (upd_server s i f) = pi s.
  Proof. intros. apply Hservers. Qed.
  Lemma f2_upd_server : forall s i f, pi (upd_server s i f) = pi s. Proof. intros. apply Hservers. Qed.
  Lemma f2_server_sync_idx : forall g sv s ir, pi (server_sync_idx g sv s ir) = pi s.
  Proof.
    intros g sv s [i reg]. unfold server_sync_idx.
    destruct (get_server s sv) as [srv|]; [|reflexivity].
    match goal with |- context [if ?b then _ else _] => destruct b end; [reflexivity|].
    rewrite f2_upd_server.
    match goal with |- pi (match reg with Some c => _ | None => ?x end) = _ => assert (H1 : pi x = pi s) end.
    { destruct (nthN (sv_conns srv) i None); [|reflexivity]. destruct (get_conn s n sv); [|reflexivity].
      unfold upd_conn. rewrite Hconns. apply f2_upd_server. }
    destruct reg as [c|]; [|exact H1].
    unfold upd_conn. rewrite Hconns. rewrite (fr_ensure_conn _ pi Hconns). exact H1.
  Qed.
  Lemma f2_server_sync : forall g s sv, pi (server_sync g s sv) = pi s.
  Proof. intros. unfold server_sync. apply fold_left_proj. intros; apply f2_server_sync_idx. Qed.
  Lemma f2_gc : forall s, pi (gc s) = pi s.
  Proof.
    intros. unfold gc. cbv zeta. rewrite Hconns. rewrite fold_left_proj.
    - apply fold_left_proj. intros a c. unfold gc_client.
      destruct (cl_obj c || client_refs a (cl_inst c)); [reflexivity|].
      match goal with |- context [index_of ?x ?l ?i] => destruct (index_of x l i) end.
      + match goal with |- pi (st_reg ?x _ _ _ _ _) = _ => rewrite (Hreg x) end.
        unfold upd_conns_of_client. rewrite Hconns. apply Hclients.
      + unfold upd_conns_of_client. rewrite Hconns. apply Hclients.
    - intros a c. unfold gc_server. destruct (sv_obj c || server_refs a (sv_inst c)); [reflexivity|].
      match goal with |- pi (st_reg ?x _ _ _ _ _) = _ => rewrite (Hreg x) end.
      rewrite Hconns. apply Hservers.
  Qed.
  Lemma f2_server_receive : forall fuel g s sv slot ord, pi (fst (server_receive fuel g s sv slot ord)) = pi s.
  Proof.
    induction fuel as [|f IH]; intros; cbn [server_receive]; [reflexivity|].
    pose proof (fr_server_rcv1 _ pi Hconns g (server_sync g s sv) sv ord) as H.
    destruct (server_rcv1 _ _ _ _) as [s1 r]. cbn [fst] in H. rewrite f2_server_sync in H.
    destruct r as [| |cl m]; try exact H.
    destruct (match get_server s1 sv with Some srv => index_of cl (sv_conns srv) 0 | None => None end).
    - unfold fresh. cbn [fst snd].
      match goal with |- context [if ?b then _ else _] => destruct b end.
      + rewrite IH, (fr_act_drop _ pi Hconns), Hnext. exact H.
      + cbn [fst]. rewrite Hnext. exact H.
    - destruct (faf g).
      + unfold fresh. cbn [fst snd]. rewrite Hnext. exact H.
      + rewrite IH. unfold upd_conn. rewrite Hconns. exact H.
  Qed.
  Lemma f2_set_act_loans : forall s u f, pi (set_act_loans s u f) = pi s.
  Proof. intros. unfold set_act_loans. apply Hacts. Qed.
  Lemma f2_bump_act_seq : forall s u, pi (bump_act_seq s u) = pi s.
  Proof. intros. unfold bump_act_seq. apply Hacts. Qed.
  Lemma f2_act_loan : forall g s a v, pi (fst (act_loan g s a v)) = pi s.
  Proof.
    intros. unfold act_loan.
    destruct (N.leb _ _); [reflexivity|].
    assert (K0 : pi (server_reclaim (set_act_loans s (ac_uid a) (fun n => n + 1)) (ac_sv a)) = pi s).
    { rewrite (fr_server_reclaim _ pi Hconns f2_src). apply f2_set_act_loans. }
    destruct (get_server _ _); [|exact K0].
    destruct (N.leb _ _); [cbn [fst]; rewrite f2_set_act_loans; exact K0|].
    destruct (N.leb _ _); [cbn [fst]; rewrite f2_set_act_loans; exact K0|].
    unfold fresh. cbn [fst snd]. rewrite f2_upd_server, Hnext. exact K0.
  Qed.
  Lemma f2_rloan_release : forall s r, pi (rloan_release s r) = pi s.
  Proof. intros. unfold rloan_release. rewrite f2_upd_server. apply f2_set_act_loans. Qed.
  Lemma f2_rloan_send : forall g s r, pi (rloan_send g s r) = pi s.
  Proof.
    intros. unfold rloan_send. rewrite f2_rloan_release.
    destruct (rl_idx r); [|apply f2_server_sync].
    destruct (act_conn _ _ _); [|rewrite (fr_server_reclaim _ pi Hconns f2_src); apply f2_server_sync].
    unfold fresh. cbn [fst snd].
    destruct (try_send _ _ _ _) as [[q ev]|].
    - destruct ev; repeat rewrite f2_upd_server; unfold upd_conn; rewrite Hconns, Hnext, (fr_server_reclaim _ pi Hconns f2_src); apply f2_server_sync.
    - rewrite Hnext, (fr_server_reclaim _ pi Hconns f2_src). apply f2_server_sync.
  Qed.
  Lemma f2_server_create : forall g s i, pi (fst (server_create g s i)) = pi s.
  Proof.
    intros. unfold server_create. destruct (nthN _ _ _); [reflexivity|]. destruct (N.leb _ _); [reflexivity|].
    unfold fresh. cbn [fst snd].
    match goal with |- pi (st_reg ?x ?a ?b ?c ?d _) = _ =>
      change (pi (st_reg x a b c d (s_idxlog x)) = pi s); rewrite (Hreg x) end.
    rewrite f2_server_sync, Hservers, Hnext. reflexivity.
  Qed.
  Lemma f2_do_q : forall g s i b, pi (fst (do_q g s i b)) = pi s.
  Proof.
    intros. unfold do_q. destruct (slot_inst _ _); [|reflexivity].
    pose proof (fr_client_loan _ pi Hconns Hclients Hnext g (st_hid s (s_hid s + 1)) n (s_hid s)) as H1.
    destruct (client_loan _ _ _ _) as [s1 r]. cbn [fst] in H1. rewrite Hhid in H1.
    destruct r as [[e|m]|]; try exact H1.
    pose proof (fr_client_send _ pi Hconns Hclients Hnext g s1 m) as H2.
    destruct (client_send g s1 m) as [s2 [e|p]]; cbn [fst] in *; [congruence|].
    destruct b; cbn [fst]; [rewrite (fr_pend_drop _ pi Hconns Hclients); congruence|rewrite Hpends; congruence].
  Qed.
End Frame2.

Section Frame3.
  Variable X : Type.
  Variable pi : state -> X.
  Hypothesis Hconns : forall s c, pi (st_conns s c) = pi s.
  Hypothesis Hclients : forall s c, pi (st_clients s c) = pi s.
  Hypothesis Hservers : forall s c, pi (st_servers s c) = pi s.
  Hypothesis Hnext : forall s n, pi (st_next s n) = pi s.
  Hypothesis Hhid : forall s n, pi (st_hid s n) = pi s.
  Hypothesis Hobjs : forall s a b c d e, pi (st_objs s a b c d e) = pi s.
  Hypothesis Hreg : forall s a b c d, pi (st_reg s a b c d (s_idxlog s)) = pi s.
  Hypothesis Hlogs : forall s a b, pi (st_logs s a b) = pi s.

  Let Hacts : forall s x, pi (st_acts s x) = pi s. Proof. intros. unfold st_acts. apply Hobjs. Qed.
  Let Hpends : forall s x, pi (st_pends s x) = pi s. Proof. intros. unfold st_pends. apply Hobjs. Qed.
  Lemma f3_step : forall g ord s o, (forall i, o <> Cc i) -> pi (fst (step g ord s o)) = pi s.
  Proof.
    intros g ord s o Hcc. unfold step.
    match goal with |- context [let '(a, b) := ?e in _] => destruct e as [s1 ob] eqn:E end.
    cbn [fst]. rewrite (f2_gc _ pi Hconns Hclients Hservers Hreg).
    destruct o.
    - exfalso. apply (Hcc i). reflexivity.
    - unfold client_drop in E. destruct (nthN _ _ _); inversion E; subst; [|reflexivity].
      match goal with |- pi (st_reg ?x ?a ?b ?c ?d _) = _ => change (pi (st_reg x a b c d (s_idxlog x)) = pi s); rewrite (Hreg x) end.
      apply Hclients.
    - pose proof (f2_server_create _ pi Hconns Hservers Hnext Hreg g s i) as H. rewrite E in H. exact H.
    - unfold server_drop in E. destruct (nthN _ _ _); inversion E; subst; [|reflexivity].
      match goal with |- pi (st_reg ?x ?a ?b ?c ?d _) = _ => change (pi (st_reg x a b c d (s_idxlog x)) = pi s); rewrite (Hreg x) end.
      apply Hservers.
    - destruct (slot_inst _ _); [|inversion E; subst; reflexivity].
      pose proof (fr_client_loan _ pi Hconns Hclients Hnext g (st_hid s (s_hid s + 1)) n (s_hid s)) as K.
      destruct (client_loan _ _ _ _) as [s2 r]. cbn [fst] in K. rewrite Hhid in K.
      destruct r as [[e|m1]|]; inversion E; subst; try exact K. unfold st_loans. rewrite Hobjs. exact K.
    - destruct (s_loans s) as [|l t]; [inversion E; subst; reflexivity|].
      pose proof (fr_client_send _ pi Hconns Hclients Hnext g (st_loans s t) (ln_msg l)) as K.
      unfold st_loans in K at 2. rewrite Hobjs in K.
      destruct (client_send _ _ _) as [s2 [e|p1]]; cbn [fst] in K; inversion E; subst; [exact K|].
      unfold st_pends. rewrite Hobjs. exact K.
    - destruct (s_loans s) as [|l t]; inversion E; subst; [reflexivity|].
      rewrite (fr_request_release _ pi Hclients). unfold st_loans. apply Hobjs.
    - pose proof (f2_do_q _ pi Hconns Hclients Hnext Hhid Hpends g s i false) as K. rewrite E in K. exact K.
    - pose proof (f2_do_q _ pi Hconns Hclients Hnext Hhid Hpends g s i true) as K. rewrite E in K. exact K.
    - destruct (nth_opt (s_pends s) k) as [p0|]; [|inversion E; subst; reflexivity].
      pose proof (fr_pend_receive _ pi Hconns Hclients (rcv_fuel s) g s p0 ord) as K.
      destruct (pend_receive _ _ _ _ _) as [s2 r]. cbn [fst] in K.
      destruct r; inversion E; subst; try exact K. rewrite Hlogs. unfold st_resps. rewrite Hobjs. exact K.
    - destruct (nth_opt _ _); inversion E; subst; [|reflexivity].
      rewrite (fr_pend_drop _ pi Hconns Hclients). unfold st_pends. apply Hobjs.
    - destruct (nth_opt _ _); inversion E; subst; [|reflexivity]. apply (fr_pend_hint _ pi Hconns).
    - destruct (nth_opt _ _); inversion E; subst; [|reflexivity].
      rewrite (fr_response_release _ pi Hconns). unfold st_resps. apply Hobjs.
    - destruct (slot_inst _ _); [|inversion E; subst; reflexivity].
      pose proof (f2_server_receive _ pi Hconns Hservers Hnext (srv_fuel s) g s n j ord) as K.
      destruct (server_receive _ _ _ _ _ _) as [s2 r]. cbn [fst] in K.
      destruct r; inversion E; subst; try exact K. rewrite Hlogs. unfold st_acts. rewrite Hobjs. exact K.
    - destruct (slot_inst _ _); [|inversion E; subst; reflexivity].
      unfold server_has_requests in E. inversion E; subst. apply (f2_server_sync _ pi Hconns Hservers).
    - destruct (nth_opt _ _) as [ar|]; [|inversion E; subst; reflexivity].
      match type of E with context [act_loan g ?x ar ?v] =>
        pose proof (f2_act_loan _ pi Hconns Hservers Hnext Hacts g x ar v) as K; destruct (act_loan g x ar v) as [s2 [e|r]] end;
        cbn [fst] in K; rewrite (f2_bump_act_seq _ pi Hacts) in K; inversion E; subst; [exact K|].
      rewrite (f2_rloan_send _ pi Hconns Hservers Hnext Hacts). exact K.
    - destruct (nth_opt _ _) as [ar|]; [|inversion E; subst; reflexivity].
      match type of E with context [act_loan g ?x ar ?v] =>
        pose proof (f2_act_loan _ pi Hconns Hservers Hnext Hacts g x ar v) as K; destruct (act_loan g x ar v) as [s2 [e|r]] end;
        cbn [fst] in K; rewrite (f2_bump_act_seq _ pi Hacts) in K; inversion E; subst; [exact K|].
      unfold st_rloans. rewrite Hobjs. exact K.
    - destruct (s_rloans s) as [|r t]; inversion E; subst; [reflexivity|].
      rewrite (f2_rloan_send _ pi Hconns Hservers Hnext Hacts). unfold st_rloans. apply Hobjs.
    - destruct (s_rloans s) as [|r t]; inversion E; subst; [reflexivity|].
      rewrite (f2_rloan_release _ pi Hservers Hacts). unfold st_rloans. apply Hobjs.
    - destruct (nth_opt _ _); inversion E; subst; [|reflexivity].
      rewrite (fr_act_drop _ pi Hconns). unfold st_acts. apply Hobjs.
  Qed.
End Frame3.

Lemma step_idxlog_prefix : forall g ord s o, exists ext, s_idxlog (fst (step g ord s o)) = s_idxlog s ++ ext.
Proof.
  intros g ord s o.
  assert (Hgc : forall x, s_idxlog (gc x) = s_idxlog x).
  { intro x. apply (f2_gc _ s_idxlog); intros; reflexivity. }
  destruct o; try (exists []; rewrite app_nil_r; apply (f3_step _ s_idxlog); try (intros; reflexivity); let jj := fresh in let Hj := fresh in intros jj Hj; discriminate).
  unfold step. destruct (client_create g s i) as [s1 ob] eqn:E. cbn [fst]. rewrite Hgc.
  unfold client_create in E. destruct (nthN _ _ _); [inversion E; subst; exists []; rewrite app_nil_r; reflexivity|].
  destruct (first_free _ _) as [j|]; [|inversion E; subst; exists []; rewrite app_nil_r; reflexivity].
  unfold fresh in E. cbn [fst snd] in E. inversion E; subst. cbn [s_idxlog st_reg].
  match goal with |- context [client_sync g ?x ?c] => rewrite (fr_client_sync _ s_idxlog (fun _ _ => eq_refl) (fun _ _ => eq_refl) g x c) end.
  exists [(s_next s, j)]. reflexivity.
Qed.

(* ---- from the slot references to the hypothesis of the routing theorem ------------------------ *)
Definition no_slot_reuse (s : state) : Prop := NoDup (map snd (s_idxlog s)).

Lemma NoDup_snd_inj : forall (l : list (N * N)) a b i, NoDup (map snd l) -> In (a, i) l -> In (b, i) l -> a = b.
Proof.
  induction l as [|[x y] t IH]; intros a b i Hn Ha Hb; [destruct Ha|].
  cbn [map snd] in Hn. inversion Hn as [|? ? Hnot Hn']; subst.
  destruct Ha as [Ea | Ha], Hb as [Eb | Hb].
  - congruence.
  - inversion Ea; subst. exfalso. apply Hnot. apply in_map_iff. exists (b, i). split; [reflexivity|exact Hb].
  - inversion Eb; subst. exfalso. apply Hnot. apply in_map_iff. exists (a, i). split; [reflexivity|exact Ha].
  - eapply IH; eassumption.
Qed.
Lemma NoDup_prefix : forall A (l ext : list A), NoDup (l ++ ext) -> NoDup l.
Proof.
  induction l as [|h t IH]; intros ext H; [constructor|]. cbn [app] in H. inversion H as [|? ? Hnot Hn]; subst.
  constructor; [intro Hin; apply Hnot; apply in_or_app; left; exact Hin|eapply IH; exact Hn].
Qed.

Lemma refs_send_okb : forall g s r, refs_ok s -> no_slot_reuse s ->
  (forall i, rl_idx r = Some i -> In (p_ocl (rl_msg r), i) (s_idxlog s)) -> send_okb g s r = true.
Proof.
  intros g s r H Hn Hr. unfold send_okb.
  destruct (refs_server_sync g s (rl_sv r) H) as [H0 [E0 _]].
  assert (K : kp (server_reclaim (server_sync g s (rl_sv r)) (rl_sv r)) = kp (server_sync g s (rl_sv r)))
    by apply (fr_server_reclaim _ kp kp_conns kp_src).
  pose proof (refs_kp _ _ K H0) as H1. pose proof (kp_idxlog _ _ K) as E1.
  set (s2 := server_reclaim _ _) in *.
  destruct (act_conn s2 (rl_sv r) (rl_idx r)) as [k|] eqn:Ea; [|reflexivity].
  unfold act_conn in Ea. destruct (rl_idx r) as [i|] eqn:Ei; [|discriminate].
  destruct (get_server s2 (rl_sv r)) as [srv|] eqn:Eg; [|discriminate].
  destruct (nthN (sv_conns srv) i None) as [c|] eqn:En; [|discriminate].
  unfold get_conn in Ea. apply find_some in Ea. destruct Ea as [_ Ek]. unfold is_key in Ek. apply andb_prop in Ek.
  destruct Ek as [Ek _]. apply N.eqb_eq in Ek. apply N.eqb_eq. rewrite Ek.
  apply (NoDup_snd_inj (s_idxlog s) c (p_ocl (rl_msg r)) i Hn).
  - rewrite <- E0, <- E1. apply (proj1 (proj2 H1) (sv_conns srv)); [eapply get_server_in; exact Eg|exact En].
  - apply Hr. reflexivity.
Qed.

Lemma refs_step_send_ok : forall g s o, refs_ok s -> no_slot_reuse s -> step_send_ok g s o.
Proof.
  intros g s o H Hn. unfold step_send_ok, step_send_okb. destruct o; try reflexivity.
  - destruct (nth_opt (s_acts s) a) as [ar|] eqn:En; [|reflexivity].
    match goal with |- context [act_loan g ?x ar ?v] =>
      destruct (kp_act_loan g x ar v) as [K Kr]; destruct (act_loan g x ar v) as [s2 [e|r]] end; [reflexivity|].
    cbn [fst snd] in *. rewrite kp_bump_act_seq in K.
    apply refs_send_okb; [exact (refs_kp _ _ K H)|unfold no_slot_reuse; rewrite (kp_idxlog _ _ K); exact Hn|].
    intros i Hi. rewrite (kp_idxlog _ _ K). apply (proj1 (proj2 (proj2 H)) i).
    pose proof (Kr r eq_refl) as Ek. unfold rkey in Ek. rewrite Hi in Ek. rewrite Ek. apply in_map.
    unfold nth_opt in En. apply nth_error_In in En. exact En.
  - destruct (s_rloans s) as [|r t] eqn:Er; [reflexivity|].
    apply refs_send_okb.
    + destruct H as [A [B [C D]]]. unfold refs_ok. cbn [s_creg s_idxlog s_servers s_acts s_rloans st_rloans st_objs].
      split; [exact A|]. split; [exact B|]. split; [exact C|]. intros i c Hin. apply D. rewrite Er. right; exact Hin.
    + exact Hn.
    + intros i Hi. apply (proj2 (proj2 (proj2 H)) i). rewrite Er. left. unfold rkey. rewrite Hi. reflexivity.
Qed.

Lemma reach_ok_rt : forall g s, reach_ok g s -> rt_ok s.
Proof. intros g s H. induction H as [|s ord o Hr IH Hso]; [constructor|apply step_rt; assumption]. Qed.

Theorem slot_link : forall g s, reach g s -> no_slot_reuse s -> reach_ok g s /\ refs_ok s.
Proof.
  intros g s H. induction H as [|s ord o Hr IH]; intro Hn.
  - split; [constructor|]. unfold refs_ok, init. cbn [s_creg s_idxlog s_servers s_acts s_rloans].
    split; [|split; [|split]].
    + intros i c Hc. unfold nthN in Hc. rewrite nth_repeat_none in Hc. discriminate.
    + intros l [].
    + intros i c [].
    + intros i c [].
  - destruct (step_idxlog_prefix g ord s o) as [ext Eext].
    assert (Hn0 : no_slot_reuse s).
    { unfold no_slot_reuse in *. rewrite Eext, map_app in Hn. exact (NoDup_prefix _ _ _ Hn). }
    destruct (IH Hn0) as [Hok Hrefs].
    split.
    + apply reach_okS; [exact Hok|apply refs_step_send_ok; assumption].
    + exact (proj1 (step_refs g ord s o Hrefs (reach_ok_rt g s Hok))).
Qed.

Theorem routing_slot_link : forall g s, reach g s -> no_slot_reuse s ->
  forall p m, In (p, m) (s_rlog s) -> p_rid m = q_rid (pn_msg p) /\ p_ocl m = pn_cl p.
Proof. intros g s H Hn. apply (routing_reach_ok g s). exact (proj1 (slot_link g s H Hn)). Qed.

(* non-vacuity: the channel-reuse history never reuses a slot and hands out a response; the
   known-defect history reuses slot 0 *)
Lemma w_reuse_no_slot_reuse : no_slot_reuse (run cfg3 (w_reuse ++ [Pr 0])) /\ length (s_rlog (run cfg3 (w_reuse ++ [Pr 0]))) = 1%nat.
Proof. split; [unfold no_slot_reuse; vm_compute; repeat constructor; intros []|vm_compute; reflexivity]. Qed.
Lemma w_routing_slot_reuse : map snd (s_idxlog (run cfg1 w_routing)) = [0; 0].
Proof. vm_compute. reflexivity. Qed.
