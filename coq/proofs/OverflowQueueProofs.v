From V Require Import model.Base model.Conc model.Events model.OverflowQueue proofs.ModArith proofs.ListLemmas.
From Coq Require Import ZifyBool ZifyNat ZifyN.
Open Scope N_scope.

Definition LInv (g : ogst) (t : nat) (l : olst) : Prop :=
  (holdsP l = true <-> ownerP g = Some t) /\
  (holdsC l = true <-> ownerC g = Some t) /\
  (holdsP l = true -> match at_pc l with PushCas _ _ => ovf g = true | _ => ovf g = false end) /\
  match at_pc l with
  | Idle => True
  | PushLoadRp v w => holdsP l = true /\ w = wp g
  | PushWrite v w r => holdsP l = true /\ w = wp g /\ r <= rp g /\ w <= r + cap g
  | PushStore v w r => holdsP l = true /\ w = wp g /\ r <= rp g /\ w <= r + cap g /\
                       nthN (slots g) (w mod m_of g) 0 = v
  | PushCas w r => holdsP l = true /\ wp g = w + 1 /\ w = r + cap g /\ r <= rp g
  | PushReadOld r x => holdsP l = true /\ nthN (slots g) (r mod m_of g) 0 = x
  | PopLoadWp r => holdsC l = true /\ r <= rp g
  | PopRead r => holdsC l = true /\ r <= rp g /\ (r = rp g -> rp g < wp g)
  | PopCas r v => holdsC l = true /\ r <= rp g /\
                  (r = rp g -> rp g < wp g /\ nthN (slots g) (r mod m_of g) 0 = v)
  | PopRecheck r => holdsC l = true /\ r <= rp g
  end.

Definition GInv (g : ogst) : Prop :=
  rp g <= wp g /\ wp g <= rp g + cap g + (if ovf g then 1 else 0) /\ lenN (slots g) = cap g + 1 /\
  (hasP g = true <-> ownerP g = None) /\ (hasC g = true <-> ownerC g = None) /\
  (ownerP g = None -> ovf g = false) /\
  pushed g = map fst (removed g) ++ content g.

Definition Inv (c : cfg ogst olst) : Prop := GInv (fst c) /\ forall t, LInv (fst c) t (snd c t).

Lemma content_from_snoc sl c pos n :
  content_from sl c pos (S n) = content_from sl c pos n ++ [nthN sl ((pos + N.of_nat n) mod c) 0].
Proof.
  revert pos; induction n as [|n IH]; intros pos.
  - cbn. now rewrite N.add_0_r.
  - change (content_from sl c pos (S (S n))) with (nthN sl (pos mod c) 0 :: content_from sl c (pos + 1) (S n)).
    rewrite IH. cbn [content_from app].
    replace (pos + 1 + N.of_nat n) with (pos + N.of_nat (S n)) by lia. reflexivity.
Qed.

Lemma content_from_upd_other sl c pos n i v :
  (forall k, (k < n)%nat -> (pos + N.of_nat k) mod c <> i) ->
  content_from (updN sl i v) c pos n = content_from sl c pos n.
Proof.
  revert pos; induction n as [|n IH]; intros pos H; cbn [content_from]; auto.
  f_equal.
  - apply nthN_updN_other. specialize (H O). rewrite N.add_0_r in H. intro E; apply H; [lia|auto].
  - apply IH. intros k Hk. specialize (H (S k)).
    replace (pos + 1 + N.of_nat k) with (pos + N.of_nat (S k)) by lia. apply H; lia.
Qed.

Lemma content_length g : length (content g) = N.to_nat (wp g - rp g).
Proof.
  unfold content. generalize (rp g) at 1. generalize (N.to_nat (wp g - rp g)).
  induction n as [|n IH]; intros; cbn; auto.
Qed.

Lemma inv_init c progs : Inv (init c progs).
Proof.
  split.
  - unfold GInv, init, g_init, content; cbn. rewrite lenN_repeat. repeat split; try lia; auto.
  - intros t. unfold LInv, init, l_init; cbn. repeat split; intros; congruence.
Qed.

Lemma excl_P g ls t t' :
  (forall u, LInv g u (ls u)) -> holdsP (ls t) = true -> t' <> t -> holdsP (ls t') = false.
Proof.
  intros HL H Hne. destruct (HL t) as (A & _), (HL t') as (B & _).
  destruct (holdsP (ls t')) eqn:E; auto.
  assert (ownerP g = Some t) by (apply A; auto). assert (ownerP g = Some t') by (apply B; auto). congruence.
Qed.

Lemma excl_C g ls t t' :
  (forall u, LInv g u (ls u)) -> holdsC (ls t) = true -> t' <> t -> holdsC (ls t') = false.
Proof.
  intros HL H Hne. destruct (HL t) as (_ & A & _), (HL t') as (_ & B & _).
  destruct (holdsC (ls t')) eqn:E; auto.
  assert (ownerC g = Some t) by (apply A; auto). assert (ownerC g = Some t') by (apply B; auto). congruence.
Qed.

(* what another thread's local invariant needs from a step of somebody else *)
Lemma linv_frame g g' t' l :
  LInv g t' l -> cap g' = cap g -> ownerP g' = ownerP g -> ownerC g' = ownerC g ->
  (holdsP l = true -> wp g' = wp g /\ rp g <= rp g' /\ slots g' = slots g /\ ovf g' = ovf g) ->
  (holdsC l = true -> rp g <= rp g' /\ wp g <= wp g' /\
       (rp g' = rp g -> rp g < wp g ->
        nthN (slots g') (rp g mod m_of g) 0 = nthN (slots g) (rp g mod m_of g) 0)) ->
  LInv g' t' l.
Proof.
  intros (HP & HC & Hov & Hpc) Ecap EoP EoC FP FC. unfold LInv, m_of in *. rewrite EoP, EoC, Ecap.
  split; [exact HP|]. split; [exact HC|]. split.
  { intros h. destruct (FP h) as (_ & _ & _ & E). rewrite E. exact (Hov h). }
  destruct (at_pc l) as [|v w|v w r|v w r|w r|r x|r|r|r v|r].
  - exact I.
  - destruct Hpc as (h & ->). destruct (FP h) as (A & B & C & D). repeat split; auto.
  - destruct Hpc as (h & -> & H1 & H2). destruct (FP h) as (A & B & C & D). repeat split; auto; lia.
  - destruct Hpc as (h & -> & H1 & H2 & H3). destruct (FP h) as (A & B & C & D). rewrite C. repeat split; auto; lia.
  - destruct Hpc as (h & H0 & -> & H1). destruct (FP h) as (A & B & C & D). repeat split; auto; lia.
  - destruct Hpc as (h & H1). destruct (FP h) as (A & B & C & D). rewrite C. repeat split; auto.
  - destruct Hpc as (h & H1). destruct (FC h) as (A & B & C). repeat split; auto; lia.
  - destruct Hpc as (h & H1 & H2). destruct (FC h) as (A & B & C). split; [exact h|]. split; [lia|].
    intros E. assert (E' : rp g' = rp g) by lia. assert (rp g < wp g) by (apply H2; lia). lia.
  - destruct Hpc as (h & H1 & H2). destruct (FC h) as (A & B & C). split; [exact h|]. split; [lia|].
    intros E. assert (E' : rp g' = rp g) by lia. assert (Er : r = rp g) by lia. destruct (H2 Er) as (H3 & H4).
    split; [lia|]. rewrite Er. rewrite (C E' H3). rewrite <- Er. exact H4.
  - destruct Hpc as (h & H1). destruct (FC h) as (A & B & C). repeat split; auto; lia.
Qed.

Lemma linv_frame_owner g g' t' l :
  LInv g t' l -> cap g' = cap g -> wp g' = wp g -> rp g' = rp g -> slots g' = slots g -> ovf g' = ovf g ->
  (ownerP g' = Some t' <-> ownerP g = Some t') -> (ownerC g' = Some t' <-> ownerC g = Some t') ->
  LInv g' t' l.
Proof.
  intros (HP & HC & Hov & Hpc) Ecap Ewp Erp Esl Eov EP EC. unfold LInv, m_of in *. rewrite Ecap, Ewp, Erp, Esl, Eov.
  split; [rewrite EP; exact HP|]. split; [rewrite EC; exact HC|]. split; [exact Hov|exact Hpc].
Qed.

Lemma content_push g v :
  rp g <= wp g -> wp g <= rp g + cap g -> lenN (slots g) = cap g + 1 ->
  content_from (updN (slots g) (wp g mod m_of g) v) (m_of g) (rp g) (N.to_nat (wp g - rp g)) = content g.
Proof.
  intros H1 H2 Hl. unfold content. apply content_from_upd_other. intros k Hk.
  replace (wp g) with ((rp g + N.of_nat k) + (wp g - rp g - N.of_nat k)) at 1 by lia.
  intro Heq. symmetry in Heq. revert Heq. unfold m_of. apply mod_add_neq; lia.
Qed.

Ltac ginv := unfold GInv, content, m_of in *; cbn [cap wp rp slots hasP hasC ownerP ownerC ovf pushed removed upd_g] in *;
  intuition (try congruence; try discriminate; try lia).

Ltac self_linv := unfold LInv, set_l, upd_g, m_of in *; cbn [prog at_pc holdsP holdsC cap wp rp slots hasP hasC ownerP ownerC ovf pushed removed] in *.

Theorem step_inv t c c' e : Inv c -> step1 step t c = Some (c', e) -> Inv c'.
Proof.
  destruct c as [g ls]. intros [HG HL] Hs. unfold step1 in Hs. cbn [fst snd] in *.
  destruct (step t g (ls t)) as [[[g' l'] e']|] eqn:Est; [|discriminate].
  inversion Hs; subst c' e; clear Hs.
  pose proof (HL t) as Ht. destruct Ht as (HtP & HtC & Htov & Htpc).
  pose proof HG as (Hrw & Hwr & Hlen & HhP & HhC & Hnov & Hcons).
  assert (Hother : forall t', t' <> t -> upd_l ls t l' t' = ls t') by (intros; apply upd_l_other; auto).
  unfold step in Est.
  destruct (at_pc (ls t)) as [|v w|v w r|v w r|w r|r x|r|r|r v|r] eqn:Epc.
  - (* Idle *)
    destruct (prog (ls t)) as [|o p] eqn:Eprog; [discriminate|].
    destruct o as [| | | |v|].
    + (* AcqP *) destruct (hasP g) eqn:EhP; inversion Est; subst; clear Est; split; cbn [fst snd].
      * ginv.
      * assert (EN : ownerP g = None) by (apply HhP; auto).
        intros t'. destruct (Nat.eq_dec t' t) as [->|Hne].
        -- rewrite upd_l_same. self_linv. repeat split; auto; intros; try congruence; try (apply HtC; auto).
        -- rewrite Hother by auto. apply (linv_frame_owner g); auto; cbn; split; intros; try congruence.
      * exact HG.
      * intros t'. destruct (Nat.eq_dec t' t) as [->|Hne]; [|rewrite Hother by auto; apply HL].
        rewrite upd_l_same. self_linv. repeat split; auto; try apply HtP; try apply HtC.
    + (* RelP *) destruct (holdsP (ls t)) eqn:EhP; inversion Est; subst; clear Est; split; cbn [fst snd].
      * ginv.
      * assert (EN : ownerP g = Some t) by (apply HtP; auto).
        intros t'. destruct (Nat.eq_dec t' t) as [->|Hne].
        -- rewrite upd_l_same. self_linv. repeat split; auto; intros; try congruence; try (apply HtC; auto).
        -- rewrite Hother by auto. apply (linv_frame_owner g); auto; cbn; split; intros; try congruence.
      * exact HG.
      * intros t'. destruct (Nat.eq_dec t' t) as [->|Hne]; [|rewrite Hother by auto; apply HL].
        rewrite upd_l_same. self_linv. rewrite EhP. repeat split; auto; try apply HtP; try apply HtC; intros; try congruence.
    + (* AcqC *) destruct (hasC g) eqn:EhC; inversion Est; subst; clear Est; split; cbn [fst snd].
      * ginv.
      * assert (EN : ownerC g = None) by (apply HhC; auto).
        intros t'. destruct (Nat.eq_dec t' t) as [->|Hne].
        -- rewrite upd_l_same. self_linv. repeat split; auto; intros; try congruence; try (apply HtP; auto).
        -- rewrite Hother by auto. apply (linv_frame_owner g); auto; cbn; split; intros; try congruence.
      * exact HG.
      * intros t'. destruct (Nat.eq_dec t' t) as [->|Hne]; [|rewrite Hother by auto; apply HL].
        rewrite upd_l_same. self_linv. repeat split; auto; try apply HtP; try apply HtC.
    + (* RelC *) destruct (holdsC (ls t)) eqn:EhC; inversion Est; subst; clear Est; split; cbn [fst snd].
      * ginv.
      * assert (EN : ownerC g = Some t) by (apply HtC; auto).
        intros t'. destruct (Nat.eq_dec t' t) as [->|Hne].
        -- rewrite upd_l_same. self_linv. repeat split; auto; intros; try congruence; try (apply HtP; auto).
        -- rewrite Hother by auto. apply (linv_frame_owner g); auto; cbn; split; intros; try congruence.
      * exact HG.
      * intros t'. destruct (Nat.eq_dec t' t) as [->|Hne]; [|rewrite Hother by auto; apply HL].
        rewrite upd_l_same. self_linv. rewrite EhC. repeat split; auto; try apply HtP; try apply HtC; intros; try congruence.
    + (* Push start *) destruct (holdsP (ls t)) eqn:EhP; inversion Est; subst; clear Est; split; cbn [fst snd]; try exact HG.
      * intros t'. destruct (Nat.eq_dec t' t) as [->|Hne]; [|rewrite Hother by auto; apply HL].
        rewrite upd_l_same. self_linv. rewrite EhP. repeat split; auto; try apply HtP; try apply HtC.
      * intros t'. destruct (Nat.eq_dec t' t) as [->|Hne]; [|rewrite Hother by auto; apply HL].
        rewrite upd_l_same. self_linv. rewrite EhP. repeat split; auto; try apply HtP; try apply HtC; intros; try congruence.
    + (* Pop start *) destruct (holdsC (ls t)) eqn:EhC; inversion Est; subst; clear Est; split; cbn [fst snd]; try exact HG.
      * intros t'. destruct (Nat.eq_dec t' t) as [->|Hne]; [|rewrite Hother by auto; apply HL].
        rewrite upd_l_same. self_linv. rewrite EhC. repeat split; auto; try apply HtP; try apply HtC; lia.
      * intros t'. destruct (Nat.eq_dec t' t) as [->|Hne]; [|rewrite Hother by auto; apply HL].
        rewrite upd_l_same. self_linv. rewrite EhC. repeat split; auto; try apply HtP; try apply HtC; intros; try congruence.
  - (* PushLoadRp *)
    destruct Htpc as (HhP' & ->). inversion Est; subst; clear Est; split; cbn [fst snd]; try exact HG.
    intros t'. destruct (Nat.eq_dec t' t) as [->|Hne]; [|rewrite Hother by auto; apply HL].
    rewrite upd_l_same. self_linv. pose proof (Htov HhP') as Eov. rewrite Eov in Hwr.
    repeat split; auto; try apply HtP; try apply HtC; lia.
  - (* PushWrite *)
    destruct Htpc as (HhP' & -> & Hr & Hw). inversion Est; subst; clear Est.
    pose proof (Htov HhP') as Eov. rewrite Eov in Hwr.
    split; cbn [fst snd].
    + unfold GInv, upd_g; cbn [cap wp rp slots hasP hasC ownerP ownerC ovf pushed removed]. rewrite lenN_updN, Eov.
      repeat split; auto; try lia; try apply HhP; try apply HhC.
      rewrite Hcons. f_equal. unfold content at 2; cbn [slots wp rp]. unfold m_of at 2 3; cbn [cap]. fold (m_of g).
      symmetry. apply content_push; auto; lia.
    + intros t'. destruct (Nat.eq_dec t' t) as [->|Hne].
      * rewrite upd_l_same. self_linv. repeat split; auto; try apply HtP; try apply HtC.
        apply nthN_updN_same. rewrite Hlen. apply mod_lt'; lia.
      * rewrite Hother by auto. apply (linv_frame g); auto.
        -- intros h. rewrite (excl_P g ls t t' HL HhP' Hne) in h. discriminate.
        -- intros h. cbn. repeat split; auto; try lia. intros _ Hrw'.
           apply nthN_updN_other. unfold m_of.
           replace (wp g) with (rp g + (wp g - rp g)) by lia. apply mod_add_neq; lia.
  - (* PushStore *)
    destruct Htpc as (HhP' & -> & Hr & Hw & Hv).
    pose proof (Htov HhP') as Eov. rewrite Eov in Hwr.
    assert (Hcont : forall ov, content (upd_g g (wp g + 1) (rp g) (slots g) ov (pushed g ++ [v]) (removed g)) = content g ++ [v]).
    { intros ov. unfold content, m_of, upd_g; cbn [cap wp rp slots].
      replace (N.to_nat (wp g + 1 - rp g)) with (S (N.to_nat (wp g - rp g))) by lia.
      rewrite content_from_snoc. f_equal. f_equal. unfold m_of in Hv. rewrite <- Hv. f_equal. f_equal. lia. }
    destruct (N.eqb_spec (wp g) (r + cap g)) as [Efull|Enf]; inversion Est; subst; clear Est; split; cbn [fst snd].
    + unfold GInv. rewrite Hcont. cbn [upd_g cap wp rp slots hasP hasC ownerP ownerC ovf pushed removed].
      repeat split; auto; try lia; try apply HhP; try apply HhC.
      * intros E. assert (ownerP g = Some t) by (apply HtP; auto). congruence.
      * rewrite Hcons, <- app_assoc. reflexivity.
    + intros t'. destruct (Nat.eq_dec t' t) as [->|Hne].
      * rewrite upd_l_same. self_linv. repeat split; auto; try apply HtP; try apply HtC; lia.
      * rewrite Hother by auto.
        pose proof (HL t') as Ht'. destruct Ht' as (HP' & HC' & Hov' & Hpc').
        assert (Hnp : holdsP (ls t') = false) by (apply (excl_P g ls t t' HL HhP' Hne)).
        unfold LInv, upd_g, m_of in *. cbn [cap wp rp slots hasP hasC ownerP ownerC ovf pushed removed].
        split; [exact HP'|]. split; [exact HC'|]. split; [intros h; congruence|].
        destruct (at_pc (ls t')) as [|v0 w0|v0 w0 r0|v0 w0 r0|w0 r0|r0 x0|r0|r0|r0 v0|r0]; auto;
          try (destruct Hpc' as (h & _); congruence); intuition lia.
    + unfold GInv. rewrite Hcont. cbn [upd_g cap wp rp slots hasP hasC ownerP ownerC ovf pushed removed].
      rewrite Eov. repeat split; auto; try lia; try apply HhP; try apply HhC.
      rewrite Hcons, <- app_assoc. reflexivity.
    + intros t'. destruct (Nat.eq_dec t' t) as [->|Hne].
      * rewrite upd_l_same. self_linv. repeat split; auto; try apply HtP; try apply HtC.
      * rewrite Hother by auto. apply (linv_frame g); auto.
        -- intros h. rewrite (excl_P g ls t t' HL HhP' Hne) in h. discriminate.
        -- intros h. cbn. repeat split; auto; lia.
  - (* PushCas *)
    destruct Htpc as (HhP' & Hwp & -> & Hr).
    pose proof (Htov HhP') as Eov. rewrite Eov in Hwr.
    destruct (N.eqb_spec (rp g) r) as [Eeq|Ene]; inversion Est; subst; clear Est; split; cbn [fst snd].
    + unfold GInv, upd_g. cbn [cap wp rp slots hasP hasC ownerP ownerC ovf pushed removed].
      repeat split; auto; try lia; try apply HhP; try apply HhC.
      rewrite Hcons, map_app, <- app_assoc. f_equal. cbn [map fst app].
      unfold content, m_of; cbn [cap wp rp slots].
      replace (N.to_nat (wp g - rp g)) with (S (N.to_nat (wp g - (rp g + 1)))) by lia.
      cbn [content_from]. reflexivity.
    + intros t'. destruct (Nat.eq_dec t' t) as [->|Hne].
      * rewrite upd_l_same. self_linv. repeat split; auto; try apply HtP; try apply HtC.
      * rewrite Hother by auto.
        pose proof (HL t') as Ht'. destruct Ht' as (HP' & HC' & Hov' & Hpc').
        assert (Hnp : holdsP (ls t') = false) by (apply (excl_P g ls t t' HL HhP' Hne)).
        unfold LInv, upd_g, m_of in *. cbn [cap wp rp slots hasP hasC ownerP ownerC ovf pushed removed].
        split; [exact HP'|]. split; [exact HC'|]. split; [intros h; congruence|].
        destruct (at_pc (ls t')) as [|v0 w0|v0 w0 r0|v0 w0 r0|w0 r0|r0 x0|r0|r0|r0 v0|r0]; auto;
          try (destruct Hpc' as (h & _); congruence); intuition lia.
    + unfold GInv, upd_g, content, m_of in *. cbn [cap wp rp slots hasP hasC ownerP ownerC ovf pushed removed].
      repeat split; auto; try lia; try apply HhP; try apply HhC.
    + intros t'. destruct (Nat.eq_dec t' t) as [->|Hne].
      * rewrite upd_l_same. self_linv. repeat split; auto; try apply HtP; try apply HtC.
      * rewrite Hother by auto.
        pose proof (HL t') as Ht'. destruct Ht' as (HP' & HC' & Hov' & Hpc').
        assert (Hnp : holdsP (ls t') = false) by (apply (excl_P g ls t t' HL HhP' Hne)).
        unfold LInv, upd_g, m_of in *. cbn [cap wp rp slots hasP hasC ownerP ownerC ovf pushed removed].
        split; [exact HP'|]. split; [exact HC'|]. split; [intros h; congruence|].
        destruct (at_pc (ls t')) as [|v0 w0|v0 w0 r0|v0 w0 r0|w0 r0|r0 x0|r0|r0|r0 v0|r0]; auto;
          try (destruct Hpc' as (h & _); congruence); intuition lia.
  - (* PushReadOld *)
    destruct Htpc as (HhP' & Hx). inversion Est; subst; clear Est; split; cbn [fst snd]; try exact HG.
    intros t'. destruct (Nat.eq_dec t' t) as [->|Hne]; [|rewrite Hother by auto; apply HL].
    rewrite upd_l_same. self_linv. repeat split; auto; try apply HtP; try apply HtC.
  - (* PopLoadWp *)
    destruct Htpc as (HhC' & Hr).
    destruct (N.eqb_spec r (wp g)) as [Eempty|Ene]; inversion Est; subst; clear Est; split; cbn [fst snd]; try exact HG.
    + intros t'. destruct (Nat.eq_dec t' t) as [->|Hne]; [|rewrite Hother by auto; apply HL].
      rewrite upd_l_same. self_linv. repeat split; auto; try apply HtP; try apply HtC.
    + intros t'. destruct (Nat.eq_dec t' t) as [->|Hne]; [|rewrite Hother by auto; apply HL].
      rewrite upd_l_same. self_linv. repeat split; auto; try apply HtP; try apply HtC; lia.
  - (* PopRead *)
    destruct Htpc as (HhC' & Hr & Hne'). inversion Est; subst; clear Est; split; cbn [fst snd]; try exact HG.
    intros t'. destruct (Nat.eq_dec t' t) as [->|Hne]; [|rewrite Hother by auto; apply HL].
    rewrite upd_l_same. self_linv. repeat split; auto; try apply HtP; try apply HtC; try (intros E; subst r; reflexivity).
  - (* PopCas *)
    destruct Htpc as (HhC' & Hr & Hv).
    destruct (N.eqb_spec (rp g) r) as [Eeq|Ene]; inversion Est; subst; clear Est; split; cbn [fst snd]; try exact HG.
    + destruct (Hv eq_refl) as (Hlt & Hval).
      unfold GInv, upd_g. cbn [cap wp rp slots hasP hasC ownerP ownerC ovf pushed removed].
      repeat split; auto; try lia; try apply HhP; try apply HhC.
      rewrite Hcons, map_app, <- app_assoc. f_equal. cbn [map fst app].
      unfold content, m_of in *; cbn [cap wp rp slots].
      replace (N.to_nat (wp g - rp g)) with (S (N.to_nat (wp g - (rp g + 1)))) by lia.
      cbn [content_from]. rewrite Hval. reflexivity.
    + intros t'. destruct (Nat.eq_dec t' t) as [->|Hne].
      * rewrite upd_l_same. self_linv. repeat split; auto; try apply HtP; try apply HtC.
      * rewrite Hother by auto. apply (linv_frame g); auto.
        -- intros h. cbn. repeat split; auto; lia.
        -- intros h. rewrite (excl_C g ls t t' HL HhC' Hne) in h. discriminate.
    + intros t'. destruct (Nat.eq_dec t' t) as [->|Hne]; [|rewrite Hother by auto; apply HL].
      rewrite upd_l_same. self_linv. repeat split; auto; try apply HtP; try apply HtC; lia.
  - (* PopRecheck *)
    destruct Htpc as (HhC' & Hr).
    destruct (N.eqb_spec r (wp g)) as [Eempty|Ene]; inversion Est; subst; clear Est; split; cbn [fst snd]; try exact HG.
    + intros t'. destruct (Nat.eq_dec t' t) as [->|Hne]; [|rewrite Hother by auto; apply HL].
      rewrite upd_l_same. self_linv. repeat split; auto; try apply HtP; try apply HtC.
    + intros t'. destruct (Nat.eq_dec t' t) as [->|Hne]; [|rewrite Hother by auto; apply HL].
      rewrite upd_l_same. self_linv. repeat split; auto; try apply HtP; try apply HtC; lia.
Qed.

(* ---------------- consequences for every reachable state ---------------- *)
Theorem oq_inv_reachable c progs cfg0 : reachable step (init c progs) cfg0 -> Inv cfg0.
Proof.
  apply (inv_reachable ogst olst ev step Inv).
  - apply inv_init.
  - intros t c0 c' e HI Hs. eapply step_inv; eauto.
Qed.

Lemma step_cap t g l g' l' e : step t g l = Some (g', l', e) -> cap g' = cap g.
Proof.
  unfold step. intros H.
  repeat match type of H with
  | context [match ?x with _ => _ end] => destruct x
  end; inversion H; subst; reflexivity.
Qed.

Lemma reachable_cap c progs cfg0 : reachable step (init c progs) cfg0 -> cap (fst cfg0) = c.
Proof.
  apply (inv_reachable ogst olst ev step (fun c0 => cap (fst c0) = c)); [reflexivity|].
  intros t [g ls] c' e Hcc Hs. unfold step1 in Hs. cbn [fst snd] in *.
  destruct (step t g (ls t)) as [[[g' l'] e']|] eqn:Est; [|discriminate].
  inversion Hs; subst c' e. cbn [fst]. rewrite (step_cap _ _ _ _ _ _ Est). exact Hcc.
Qed.

(* every pushed value is, at every instant, exactly once either among the removed ones (each
   tagged with who obtained it: consumer or evicting producer) or still queued; the order of
   removal is the push order; the queue holds at most capacity values, capacity + 1 only in
   the window between a push's publication and its eviction attempt *)
Theorem oq_conservation c progs g ls :
  reachable step (init c progs) (g, ls) ->
  pushed g = map fst (removed g) ++ content g /\
  (length (content g) <= N.to_nat c + (if ovf g then 1 else 0))%nat.
Proof.
  intros Hr. pose proof (oq_inv_reachable c progs (g, ls) Hr) as [HG _].
  pose proof (reachable_cap c progs (g, ls) Hr) as Ecap.
  cbn [fst] in *. destruct HG as (Hrw & Hwr & Hlen & HhP & HhC & Hnov & Hcons).
  split; [exact Hcons|]. rewrite content_length. destruct (ovf g); lia.
Qed.

(* outside the eviction window (in particular whenever the producer is between two pushes) the
   bound is the capacity *)
Theorem oq_bounded_when_producer_idle c progs g ls t :
  reachable step (init c progs) (g, ls) ->
  holdsP (ls t) = true -> at_pc (ls t) = Idle -> (length (content g) <= N.to_nat c)%nat.
Proof.
  intros Hr Hh Hpc. pose proof (oq_conservation c progs g ls Hr) as [_ Hb].
  pose proof (oq_inv_reachable c progs (g, ls) Hr) as [_ HL]. cbn [fst snd] in HL.
  destruct (HL t) as (_ & _ & Hov & _). rewrite Hpc in Hov. rewrite (Hov Hh) in Hb. lia.
Qed.

Theorem oq_roles_exclusive c progs g ls t t' :
  reachable step (init c progs) (g, ls) ->
  (holdsP (ls t) = true -> holdsP (ls t') = true -> t = t') /\
  (holdsC (ls t) = true -> holdsC (ls t') = true -> t = t').
Proof.
  intros Hr. pose proof (oq_inv_reachable c progs (g, ls) Hr) as [_ HL]. cbn [fst snd] in HL.
  split; intros H1 H2; destruct (Nat.eq_dec t' t) as [E|E]; auto.
  - rewrite (excl_P g ls t t' HL H1 E) in H2. discriminate.
  - rewrite (excl_C g ls t t' HL H1 E) in H2. discriminate.
Qed.

(* a consumer CAS that is about to succeed returns the head of the queue (no ABA on the read
   cursor: it only grows), whatever the producer did in between *)
Theorem oq_pop_returns_head c progs g ls t r v :
  reachable step (init c progs) (g, ls) ->
  at_pc (ls t) = PopCas r v -> rp g = r -> hd_error (content g) = Some v.
Proof.
  intros Hr E1 E2. pose proof (oq_inv_reachable c progs (g, ls) Hr) as [HG HL]. cbn [fst snd] in *.
  destruct (HL t) as (_ & _ & _ & A). rewrite E1 in A. destruct A as (_ & _ & A).
  destruct (A (eq_sym E2)) as (Hlt & Hv).
  unfold content. replace (N.to_nat (wp g - rp g)) with (S (N.to_nat (wp g - rp g - 1))) by lia.
  cbn [content_from hd_error]. rewrite E2. now rewrite Hv.
Qed.

(* the value the producer reads back after a successful eviction is the one recorded as
   evicted (nobody overwrites that slot before it is read) *)
Theorem oq_evicted_value_stable c progs g ls t r x :
  reachable step (init c progs) (g, ls) ->
  at_pc (ls t) = PushReadOld r x -> nthN (slots g) (r mod m_of g) 0 = x.
Proof.
  intros Hr E1. pose proof (oq_inv_reachable c progs (g, ls) Hr) as [HG HL]. cbn [fst snd] in *.
  destruct (HL t) as (_ & _ & _ & A). rewrite E1 in A. destruct A as (_ & A). exact A.
Qed.

(* the producer never writes a slot that holds an unread value *)
Theorem oq_write_slot_free c progs g ls t v w r k :
  reachable step (init c progs) (g, ls) ->
  at_pc (ls t) = PushWrite v w r -> rp g <= k -> k < wp g -> w mod m_of g <> k mod m_of g.
Proof.
  intros Hr E1 H1 H2. pose proof (oq_inv_reachable c progs (g, ls) Hr) as [HG HL]. cbn [fst snd] in *.
  destruct HG as (Hrw & Hwr & _).
  destruct (HL t) as (_ & _ & Hov & A). rewrite E1 in A, Hov. destruct A as (h & -> & A1 & A2).
  rewrite (Hov h) in Hwr. unfold m_of.
  replace (wp g) with (k + (wp g - k)) by lia. apply mod_add_neq; lia.
Qed.

(* The statement "a pending slot write and a pending slot read never address the same slot"
   (true of the index queue and the spsc queue, c03_spsc_no_slot_conflict) is FALSE of the
   overflowing queue: the consumer's speculative read of a position that is being evicted and
   the producer's re-use of that slot are enabled in the same state, in a sequentially
   consistent execution -- by definition a data race on the plain slot cell.  The value read
   is discarded (the consumer's compare-exchange fails). *)
Definition spec_progs (t : nat) : list oop :=
  match t with
  | O => [OAcqP; OPush 7; OPush 8; OPush 9]
  | S O => [OAcqC; OPop]
  | _ => []
  end.
Definition spec_sched : list nat := [0;0;0;0;0; 1;1;1; 0;0;0;0;0;0; 0;0]%nat.
Example oq_no_slot_conflict_refuted :
  let c := fst (run step spec_sched (init 1 spec_progs)) in
  reachable step (init 1 spec_progs) c /\
  at_pc (snd c 0%nat) = PushWrite 9 2 1 /\ at_pc (snd c 1%nat) = PopRead 0 /\
  2 mod m_of (fst c) = 0 mod m_of (fst c).
Proof. cbv zeta. split; [exists spec_sched; reflexivity|]. vm_compute. auto. Qed.
