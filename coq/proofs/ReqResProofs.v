(* C11 -- lemmas about model/ReqRes.v, part 1: the channel-state word, queues, reference
   counts, and the function-level facts about PendingResponse::receive (request-id filter,
   release of the discarded responses) and about rejected calls. *)
From V Require Import model.Base model.ReqRes.
From Coq Require Import ZifyBool ZifyNat ZifyN Permutation.
Open Scope N_scope.

(* ---------------------------------------------------------------------------------------- *)
(* the channel-state word (zero_copy_connection/mod.rs)                                      *)
Lemma cas_spec : forall cur e n, cas cur e n = if N.eqb cur e then (n, true) else (cur, false).
Proof. reflexivity. Qed.

Lemma bit63_small : forall r, r < 2 ^ 63 -> N.testbit r 63 = false.
Proof.
  intros r Hlt. destruct (N.eq_dec r 0) as [-> | Hr0]; [reflexivity|].
  apply N.bits_above_log2. apply N.log2_lt_pow2; [lia|exact Hlt].
Qed.
Lemma land_hint_small : forall r, r < 2 ^ 63 -> N.land r HINT_BIT = 0.
Proof.
  intros r Hlt. change HINT_BIT with (2 ^ 63). apply N.bits_inj_0; intro n. rewrite N.land_spec.
  destruct (N.eq_dec n 63) as [-> | Hn].
  - rewrite bit63_small by exact Hlt. reflexivity.
  - rewrite N.pow2_bits_false by (intro; apply Hn; congruence). apply Bool.andb_false_r.
Qed.
Lemma rid_lt63 : forall r, r < RID_MAX + 1 -> r < 2 ^ 63.
Proof. intros r Hr. unfold RID_MAX in Hr. change (2 ^ 63) with 9223372036854775808. lia. Qed.

Lemma lor_hint_small : forall r, r < RID_MAX + 1 -> N.lor r HINT_BIT = r + HINT_BIT.
Proof.
  intros r Hr. pose proof (land_hint_small r (rid_lt63 r Hr)) as H0.
  rewrite (N.add_nocarry_lxor _ _ H0). symmetry. apply N.lxor_lor. exact H0.
Qed.

Lemma ldiff_hint_small : forall r, r < RID_MAX + 1 -> N.ldiff r HINT_BIT = r.
Proof.
  intros r Hr. pose proof (rid_lt63 r Hr) as Hlt.
  change HINT_BIT with (2 ^ 63).
  apply N.bits_inj; intro n. rewrite N.ldiff_spec.
  destruct (N.eq_dec n 63) as [-> | Hn].
  - rewrite N.pow2_bits_true. rewrite bit63_small by exact Hlt. reflexivity.
  - rewrite N.pow2_bits_false by (intro; apply Hn; congruence). cbn [negb]. apply Bool.andb_true_r.
Qed.

Lemma ldiff_hint_hinted : forall r, r < RID_MAX + 1 -> N.ldiff (r + HINT_BIT) HINT_BIT = r.
Proof.
  intros r Hr.
  rewrite <- (lor_hint_small r Hr).
  apply N.bits_inj; intro n. rewrite N.ldiff_spec, N.lor_spec.
  rewrite <- (ldiff_hint_small r Hr) at 2. rewrite N.ldiff_spec.
  destruct (N.testbit r n), (N.testbit HINT_BIT n); reflexivity.
Qed.

(* the four kinds of values a response channel can hold *)
Definition rid_ok (r : N) : Prop := r < RID_MAX.

Lemma closed_not_rid : forall r, rid_ok r -> ch_has_state CH_CLOSED r = false.
Proof.
  intros r Hr. unfold ch_has_state.
  assert (H : N.ldiff CH_CLOSED HINT_BIT = 9223372036854775807) by (vm_compute; reflexivity).
  rewrite H. unfold rid_ok, RID_MAX in Hr. apply N.eqb_neq. lia.
Qed.

Lemma has_state_plain : forall r e, rid_ok r -> ch_has_state r e = N.eqb e r.
Proof. intros r e Hr. unfold ch_has_state. rewrite ldiff_hint_small by (unfold rid_ok in Hr; lia). reflexivity. Qed.

Lemma has_state_hinted : forall r e, rid_ok r -> ch_has_state (N.lor r HINT_BIT) e = N.eqb e r.
Proof.
  intros r e Hr. unfold ch_has_state.
  rewrite lor_hint_small by (unfold rid_ok in Hr; lia).
  rewrite ldiff_hint_hinted by (unfold rid_ok in Hr; lia). reflexivity.
Qed.

(* a well-formed channel word: CLOSED, or a request id with or without the disconnect hint *)
Inductive chw : N -> Prop :=
| chw_closed : chw CH_CLOSED
| chw_rid : forall r, rid_ok r -> chw r
| chw_hint : forall r, rid_ok r -> chw (N.lor r HINT_BIT).

Lemma rid_ne_closed : forall r, rid_ok r -> r <> CH_CLOSED.
Proof. intros r Hr. unfold rid_ok, RID_MAX in Hr. unfold CH_CLOSED, TWO64. lia. Qed.
Lemma hint_ne_closed : forall r, rid_ok r -> N.lor r HINT_BIT <> CH_CLOSED.
Proof.
  intros r Hr. rewrite lor_hint_small by (unfold rid_ok in Hr; lia).
  unfold rid_ok, RID_MAX in Hr. unfold CH_CLOSED, TWO64, HINT_BIT. lia.
Qed.
Lemma hint_ne_rid : forall r r', rid_ok r -> rid_ok r' -> N.lor r HINT_BIT <> r'.
Proof.
  intros r r' Hr Hr'. rewrite lor_hint_small by (unfold rid_ok in Hr; lia).
  unfold rid_ok, RID_MAX in *. unfold HINT_BIT. lia.
Qed.
Lemma hint_inj : forall r r', rid_ok r -> rid_ok r' -> N.lor r HINT_BIT = N.lor r' HINT_BIT -> r = r'.
Proof.
  intros r r' Hr Hr'. rewrite !lor_hint_small by (unfold rid_ok in *; lia). lia.
Qed.

(* close_channel(expected) leaves a word that does not have state `expected` any more *)
Lemma close_not_state : forall w r, chw w -> rid_ok r -> ch_has_state (ch_close w r) r = false.
Proof.
  intros w r Hw Hr. unfold ch_close, cas.
  destruct (N.eqb_spec w r) as [-> | Hne].
  - cbn [fst snd]. apply closed_not_rid; exact Hr.
  - destruct (N.eqb_spec w (N.lor r HINT_BIT)) as [-> | Hne2].
    + try rewrite N.eqb_refl. cbn [fst]. apply closed_not_rid; exact Hr.
    + destruct Hw as [| r0 Hr0 | r0 Hr0].
      * apply closed_not_rid; exact Hr.
      * rewrite has_state_plain by exact Hr0. apply N.eqb_neq. congruence.
      * rewrite has_state_hinted by exact Hr0. apply N.eqb_neq. intro; subst. apply Hne2; reflexivity.
Qed.

(* close_channel(expected) does not touch a channel that was re-opened for another request *)
Lemma close_other : forall w r r', chw w -> rid_ok r -> rid_ok r' -> r <> r' ->
  ch_has_state w r' = true -> ch_close w r = w.
Proof.
  intros w r r' Hw Hr Hr' Hne Hs. unfold ch_close, cas.
  destruct Hw as [| r0 Hr0 | r0 Hr0].
  - rewrite closed_not_rid in Hs by exact Hr'. discriminate.
  - rewrite has_state_plain in Hs by exact Hr0. apply N.eqb_eq in Hs. subst r0.
    destruct (N.eqb_spec r' r); [congruence|].
    destruct (N.eqb_spec r' (N.lor r HINT_BIT)) as [E|]; [|reflexivity].
    exfalso. symmetry in E. revert E. apply hint_ne_rid; assumption.
  - rewrite has_state_hinted in Hs by exact Hr0. apply N.eqb_eq in Hs. subst r0.
    destruct (N.eqb_spec (N.lor r' HINT_BIT) r) as [E|].
    { exfalso. revert E. apply hint_ne_rid; assumption. }
    destruct (N.eqb_spec (N.lor r' HINT_BIT) (N.lor r HINT_BIT)) as [E|]; [|reflexivity].
    exfalso. apply Hne. symmetry. apply hint_inj; assumption.
Qed.

Lemma chw_close : forall w r, chw w -> chw (ch_close w r).
Proof.
  intros w r Hw. unfold ch_close, cas.
  destruct (N.eqb w r); cbn [fst snd]; [constructor|].
  destruct (N.eqb w (N.lor r HINT_BIT)); [|exact Hw].
  cbn [fst]. constructor.
Qed.
Lemma chw_set_state : forall w r, chw w -> rid_ok r -> chw (fst (ch_set_state w r)).
Proof.
  intros w r Hw Hr. unfold ch_set_state, cas. destruct (N.eqb w CH_CLOSED); cbn [fst]; [constructor; exact Hr|exact Hw].
Qed.
Lemma chw_set_hint : forall w r, chw w -> rid_ok r -> chw (ch_set_hint w r).
Proof.
  intros w r Hw Hr. unfold ch_set_hint, cas. destruct (N.eqb w r); cbn [fst]; [apply chw_hint; exact Hr|exact Hw].
Qed.
(* set_channel_state only opens a CLOSED channel: a channel open for r stays open for r *)
Lemma set_state_keeps : forall w r r', chw w -> rid_ok r -> ch_has_state w r = true -> fst (ch_set_state w r') = w.
Proof.
  intros w r r' Hw Hr Hs. unfold ch_set_state, cas.
  destruct (N.eqb_spec w CH_CLOSED) as [-> |]; [|reflexivity].
  rewrite closed_not_rid in Hs by exact Hr. discriminate.
Qed.
Lemma set_state_opens : forall r, rid_ok r -> ch_has_state (fst (ch_set_state CH_CLOSED r)) r = true.
Proof. intros r Hr. unfold ch_set_state, cas. rewrite N.eqb_refl. cbn [fst]. rewrite has_state_plain by exact Hr. apply N.eqb_refl. Qed.

(* ---------------------------------------------------------------------------------------- *)
(* queues: try_send keeps the bound                                                          *)
Lemma try_send_bound : forall A ovf cap (q : list A) m q' ev,
  1 <= cap -> lenN q <= cap -> try_send ovf cap q m = Some (q', ev) -> lenN q' <= cap.
Proof.
  intros A ovf cap q m q' ev Hc Hq. unfold try_send.
  destruct (negb ovf && N.leb cap (lenN q)); [discriminate|].
  destruct (N.leb_spec cap (lenN q)) as [Hfull | Hfree].
  - destruct q as [|old t]; intro E; inversion E; subst; unfold lenN in *; cbn [length] in *.
    + lia.
    + rewrite app_length. cbn [length]. lia.
  - intro E; inversion E; subst. unfold lenN in *. rewrite app_length. cbn [length]. lia.
Qed.
Lemma try_send_full_no_overflow : forall A cap (q : list A) m, cap <= lenN q -> try_send false cap q m = None.
Proof. intros A cap q m H. unfold try_send. cbn [negb andb]. destruct (N.leb_spec cap (lenN q)); [reflexivity|lia]. Qed.
Lemma try_send_evicts_oldest : forall A cap (q : list A) m q' old,
  try_send true cap q m = Some (q', Some old) -> exists t, q = old :: t /\ q' = t ++ [m].
Proof.
  intros A cap q m q' old. unfold try_send. cbn [negb andb].
  destruct (N.leb cap (lenN q)); [|intro E; inversion E].
  destruct q as [|o t]; intro E; inversion E; subst. exists t; split; reflexivity.
Qed.

(* ---------------------------------------------------------------------------------------- *)
(* reference counts                                                                          *)
Lemma rc_dec_inc_fresh : forall t id, ~ In id (map fst t) -> rc_dec (rc_inc t id) id = t.
Proof.
  induction t as [|[i n] r IH]; intros id Hf; cbn [rc_inc rc_dec map fst In] in *.
  - rewrite N.eqb_refl. reflexivity.
  - destruct (N.eqb_spec i id) as [E|E]; [exfalso; apply Hf; left; exact E|].
    cbn [rc_dec]. destruct (N.eqb_spec i id); [congruence|]. f_equal. apply IH. tauto.
Qed.

(* ---------------------------------------------------------------------------------------- *)
(* PendingResponse::receive: the request-id filter                                           *)
Lemma pend_receive_filter : forall fuel g s p ord s' sv m,
  pend_receive fuel g s p ord = (s', PRSome sv m) -> p_rid m = q_rid (pn_msg p).
Proof.
  induction fuel as [|f IH]; intros g s p ord s' sv m H; cbn [pend_receive] in H; [discriminate|].
  destruct (client_rcv1 g (client_sync g s (pn_cl p)) (pn_cl p) (q_ch (pn_msg p)) ord) as [s1 r] eqn:E.
  destruct r as [| | sv1 m1]; try discriminate.
  destruct (N.eqb_spec (p_rid m1) (q_rid (pn_msg p))) as [Heq | Hne].
  - inversion H; subst. exact Heq.
  - eapply IH; exact H.
Qed.

(* Receiver::release_offset puts the response into the completion queue of its channel and
   takes it out of the borrowed set -- the sender reclaims it at its next allocate / deliver *)
Lemma response_release_spec : forall s cl sv ch m k,
  get_conn s cl sv = Some k -> view_on (k_cv k) = true ->
  exists k', get_conn (response_release s cl sv ch m) cl sv = Some k' /\
             c_comp (k_chan k' ch) = (if N.ltb ch (lenN (k_ch k)) then c_comp (k_chan k ch) ++ [m] else c_comp (k_chan k' ch)) /\
             (N.ltb ch (lenN (k_ch k)) = true -> ~ In (p_id m) (map p_id (c_bor (k_chan k' ch)))).
Proof.
  intros s cl sv ch m k Hg Hv.
  unfold response_release, upd_conn, get_conn in *. cbn [s_conns st_conns].
  induction (s_conns s) as [|k0 l IH]; cbn [find map] in *; [discriminate|].
  destruct (is_key k0 cl sv) eqn:Ek.
  - inversion Hg; subst k0. rewrite Hv.
    set (k' := k_set_chan k ch _).
    assert (Ek' : is_key k' cl sv = true) by exact Ek.
    rewrite Ek'. exists k'. split; [reflexivity|].
    unfold k', k_set_chan, k_chan, k_with_ch, nthN, updN, lenN. cbn [k_ch mk_conn].
    destruct (N.ltb_spec ch (N.of_nat (length (k_ch k)))) as [Hlt | Hge].
    + assert (Hn : (N.to_nat ch < length (k_ch k))%nat) by lia.
      assert (Hnth : forall (l : list chan) n x d, (n < length l)%nat -> nth n (upd l n x) d = x).
      { induction l0 as [|h t IHl]; intros [|n] x d Hl; cbn [upd nth length] in *; try lia; [reflexivity|apply IHl; lia]. }
      rewrite Hnth by exact Hn. cbn [c_comp c_bor mk_chan]. split; [reflexivity|].
      intros _ Hin. apply in_map_iff in Hin. destruct Hin as [y [Hy Hin]]. apply filter_In in Hin.
      destruct Hin as [_ Hf]. rewrite Hy in Hf. rewrite N.eqb_refl in Hf. discriminate.
    + split; [reflexivity|discriminate].
  - destruct (IH Hg) as [k' [H1 H2]]. rewrite Ek. exists k'. split; [exact H1|exact H2].
Qed.

(* a rejected send (ExceedsMaxActiveRequests) gives everything back: counters and reference
   counts as before the loan; the channel id returns to the END of the queue *)
Lemma client_send_rejected : forall g s m p, client_send g s m = (p, inl EMaxActive) ->
  get_client s (q_cl m) <> None -> p = request_release s m false.
Proof.
  intros g s m p H Hc. unfold client_send in H.
  destruct (get_client s (q_cl m)) as [c|]; [|congruence].
  destruct (N.leb (MA g) (cl_active c)).
  - inversion H; reflexivity.
  - exfalso. unfold fresh in H. cbv zeta in H. cbn [fst snd] in H.
    match type of H with context [fold_left ?f ?l ?a] => destruct (fold_left f l a) end.
    discriminate.
Qed.
