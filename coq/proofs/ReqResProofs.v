(* C11 -- invariants and lemmas about model/ReqRes.v *)
From V Require Import model.Base model.ReqRes.
From Coq Require Import ZifyBool ZifyNat ZifyN.
Open Scope N_scope.

(* ---- the channel-state word (zero_copy_connection/mod.rs) ---- *)
Lemma cas_spec : forall cur e n, cas cur e n = if N.eqb cur e then (n, true) else (cur, false).
Proof. reflexivity. Qed.
