From V Require Import model.Base model.Conc model.Events model.SpscQueue proofs.ModArith proofs.ListLemmas.
From Coq Require Import ZifyBool ZifyNat ZifyN.
Open Scope N_scope.

Definition LInv (g : gst) (t : nat) (l : lst) : Prop :=
  (holdsP l = true <-> ownerP g = Some t) /\
  (holdsC l = true <-> ownerC g = Some t) /\
  match at_pc l with
  | Idle => True
  | PushLoadRp v w => holdsP l = true /\ w = wp g
  | PushWrite v w => holdsP l = true /\ w = wp g /\ wp g < rp g + cap g
  | PushStore v w => holdsP l = true /\ w = wp g /\ wp g < rp g + cap g /\ nthN (slots g) (w mod cap g) 0 = v
  | PopLoadWp r => holdsC l = true /\ r = rp g
  | PopRead r => holdsC l = true /\ r = rp g /\ rp g < wp g
  | PopStore r v => holdsC l = true /\ r = rp g /\ rp g < wp g /\ nthN (slots g) (r mod cap g) 0 = v
  end.

Definition GInv (g : gst) : Prop :=
  0 < cap g /\ rp g <= wp g /\ wp g <= rp g + cap g /\ lenN (slots g) = cap g /\
  (hasP g = true <-> ownerP g = None) /\ (hasC g = true <-> ownerC g = None) /\
  pushed g = popped g ++ content g.

Definition Inv (c : cfg gst lst) : Prop := GInv (fst c) /\ forall t, LInv (fst c) t (snd c t).

Lemma content_from_snoc sl c pos n :
  content_from sl c pos (S n) = content_from sl c pos n ++ [nthN sl ((pos + N.of_nat n) mod c) 0].
Proof.
  revert pos; induction n as [|n IH]; intros pos.
  - cbn. now rewrite N.add_0_r.
  - change (content_from sl c pos (S (S n))) with (nthN sl (pos mod c) 0 :: content_from sl c (pos + 1) (S n)).
    rewrite IH. cbn [content_from app].
    replace (pos + 1 + N.of_nat n) with (pos + N.of_nat (S n)) by lia. reflexivity.
Qed.

Lemma content_from_upd_other sl c pos n i v :
  (forall k, (k < n)%nat -> (pos + N.of_nat k) mod c <> i) ->
  content_from (updN sl i v) c pos n = content_from sl c pos n.
Proof.
  revert pos; induction n as [|n IH]; intros pos H; cbn [content_from]; auto.
  f_equal.
  - apply nthN_updN_other. specialize (H O). rewrite N.add_0_r in H. intro E; apply H; [lia|auto].
  - apply IH. intros k Hk. specialize (H (S k)).
    replace (pos + 1 + N.of_nat k) with (pos + N.of_nat (S k)) by lia. apply H; lia.
Qed.

Lemma content_length g : length (content g) = N.to_nat (wp g - rp g).
Proof.
  unfold content. generalize (rp g) at 1. generalize (N.to_nat (wp g - rp g)).
  induction n as [|n IH]; intros; cbn; auto.
Qed.

Lemma inv_init c progs : 0 < c -> Inv (init c progs).
Proof.
  intros Hc. split.
  - unfold GInv, init, g_init, content; cbn. rewrite lenN_repeat. repeat split; try lia; auto.
  - intros t. unfold LInv, init, l_init; cbn. repeat split; intros; congruence.
Qed.


Lemma excl_P g ls t t' :
  (forall u, LInv g u (ls u)) -> holdsP (ls t) = true -> t' <> t -> holdsP (ls t') = false.
Proof.
  intros HL H Hne. destruct (HL t) as (A & _), (HL t') as (B & _).
  destruct (holdsP (ls t')) eqn:E; auto.
  assert (ownerP g = Some t) by (apply A; auto). assert (ownerP g = Some t') by (apply B; auto). congruence.
Qed.

Lemma excl_C g ls t t' :
  (forall u, LInv g u (ls u)) -> holdsC (ls t) = true -> t' <> t -> holdsC (ls t') = false.
Proof.
  intros HL H Hne. destruct (HL t) as (_ & A & _), (HL t') as (_ & B & _).
  destruct (holdsC (ls t')) eqn:E; auto.
  assert (ownerC g = Some t) by (apply A; auto). assert (ownerC g = Some t') by (apply B; auto). congruence.
Qed.

(* what another thread's local invariant needs from a step of somebody else *)
Lemma linv_frame g g' t' l :
  LInv g t' l -> cap g' = cap g -> ownerP g' = ownerP g -> ownerC g' = ownerC g ->
  (holdsP l = true -> wp g' = wp g /\ rp g <= rp g' /\
       nthN (slots g') (wp g mod cap g) 0 = nthN (slots g) (wp g mod cap g) 0) ->
  (holdsC l = true -> rp g' = rp g /\ wp g <= wp g' /\
       (rp g < wp g -> nthN (slots g') (rp g mod cap g) 0 = nthN (slots g) (rp g mod cap g) 0)) ->
  LInv g' t' l.
Proof.
  intros (HP & HC & Hpc) Ecap EoP EoC FP FC. unfold LInv. rewrite EoP, EoC, Ecap.
  split; [exact HP|]. split; [exact HC|].
  destruct (at_pc l) as [|v w|v w|v w|r|r|r v].
  - exact I.
  - destruct Hpc as (h & ->). destruct (FP h) as (A & B & C). repeat split; auto.
  - destruct Hpc as (h & -> & Hlt). destruct (FP h) as (A & B & C). repeat split; auto; lia.
  - destruct Hpc as (h & -> & Hlt & Hv). destruct (FP h) as (A & B & C). repeat split; auto; try lia; try congruence.
  - destruct Hpc as (h & ->). destruct (FC h) as (A & B & C). repeat split; auto.
  - destruct Hpc as (h & -> & Hlt). destruct (FC h) as (A & B & C). repeat split; auto; lia.
  - destruct Hpc as (h & -> & Hlt & Hv). destruct (FC h) as (A & B & C). repeat split; auto; try lia.
    all: try (rewrite C; auto).
Qed.

(* steps that only change who owns a handle *)
Lemma linv_frame_owner g g' t' l :
  LInv g t' l -> cap g' = cap g -> wp g' = wp g -> rp g' = rp g -> slots g' = slots g ->
  (ownerP g' = Some t' <-> ownerP g = Some t') -> (ownerC g' = Some t' <-> ownerC g = Some t') ->
  LInv g' t' l.
Proof.
  intros (HP & HC & Hpc) Ecap Ewp Erp Esl EP EC. unfold LInv. rewrite Ecap, Ewp, Erp, Esl.
  split; [rewrite EP; exact HP|]. split; [rewrite EC; exact HC|]. exact Hpc.
Qed.

Lemma content_push g v :
  0 < cap g -> rp g <= wp g -> wp g < rp g + cap g -> lenN (slots g) = cap g ->
  content_from (updN (slots g) (wp g mod cap g) v) (cap g) (rp g) (N.to_nat (wp g - rp g)) = content g.
Proof.
  intros Hc H1 H2 Hl. unfold content. apply content_from_upd_other. intros k Hk.
  replace (wp g) with ((rp g + N.of_nat k) + (wp g - rp g - N.of_nat k)) at 1 by lia.
  intro Heq. symmetry in Heq. revert Heq. apply mod_add_neq; lia.
Qed.

Ltac ginv := unfold GInv, content in *; cbn [cap wp rp slots hasP hasC ownerP ownerC pushed popped] in *;
  intuition (try congruence; try discriminate; try lia).

Theorem step_inv t c c' e : Inv c -> step1 step t c = Some (c', e) -> Inv c'.
Proof.
  destruct c as [g ls]. intros [HG HL] Hs. unfold step1 in Hs. cbn [fst snd] in *.
  destruct (step t g (ls t)) as [[[g' l'] e']|] eqn:Est; [|discriminate].
  inversion Hs; subst c' e; clear Hs.
  pose proof (HL t) as Ht. destruct Ht as (HtP & HtC & Htpc).
  pose proof HG as (Hcap & Hrw & Hwr & Hlen & HhP & HhC & Hcons).
  assert (Hother : forall t', t' <> t -> upd_l ls t l' t' = ls t') by (intros; apply upd_l_other; auto).
  unfold step in Est.
  destruct (at_pc (ls t)) as [|v w|v w|v w|r|r|r v] eqn:Epc.
  - (* Idle *)
    destruct (prog (ls t)) as [|o p] eqn:Eprog; [discriminate|].
    destruct o as [| | | |v|].
    + (* AcqP *) destruct (hasP g) eqn:EhP; inversion Est; subst; clear Est; split; cbn [fst snd].
      * ginv.
      * assert (EN : ownerP g = None) by (apply HhP; auto).
        intros t'. destruct (Nat.eq_dec t' t) as [->|Hne].
        -- rewrite upd_l_same. unfold LInv; cbn. repeat split; auto; intros; try congruence; apply HtC; auto.
        -- rewrite Hother by auto. apply (linv_frame_owner g); auto; cbn; split; intros; try congruence.
      * exact HG.
      * intros t'. destruct (Nat.eq_dec t' t) as [->|Hne]; [|rewrite Hother by auto; apply HL].
        rewrite upd_l_same. unfold LInv, set_lst; cbn. repeat split; auto; try apply HtP; try apply HtC.
    + (* RelP *) destruct (holdsP (ls t)) eqn:EhP; inversion Est; subst; clear Est; split; cbn [fst snd].
      * ginv.
      * assert (EN : ownerP g = Some t) by (apply HtP; auto).
        intros t'. destruct (Nat.eq_dec t' t) as [->|Hne].
        -- rewrite upd_l_same. unfold LInv; cbn. repeat split; auto; intros; try congruence; apply HtC; auto.
        -- rewrite Hother by auto. apply (linv_frame_owner g); auto; cbn; split; intros; try congruence.
      * exact HG.
      * intros t'. destruct (Nat.eq_dec t' t) as [->|Hne]; [|rewrite Hother by auto; apply HL].
        rewrite upd_l_same. unfold LInv, set_lst; cbn. rewrite EhP. repeat split; auto; try apply HtP; try apply HtC; intros; try congruence.
    + (* AcqC *) destruct (hasC g) eqn:EhC; inversion Est; subst; clear Est; split; cbn [fst snd].
      * ginv.
      * assert (EN : ownerC g = None) by (apply HhC; auto).
        intros t'. destruct (Nat.eq_dec t' t) as [->|Hne].
        -- rewrite upd_l_same. unfold LInv; cbn. repeat split; auto; intros; try congruence; apply HtP; auto.
        -- rewrite Hother by auto. apply (linv_frame_owner g); auto; cbn; split; intros; try congruence.
      * exact HG.
      * intros t'. destruct (Nat.eq_dec t' t) as [->|Hne]; [|rewrite Hother by auto; apply HL].
        rewrite upd_l_same. unfold LInv, set_lst; cbn. repeat split; auto; try apply HtP; try apply HtC.
    + (* RelC *) destruct (holdsC (ls t)) eqn:EhC; inversion Est; subst; clear Est; split; cbn [fst snd].
      * ginv.
      * assert (EN : ownerC g = Some t) by (apply HtC; auto).
        intros t'. destruct (Nat.eq_dec t' t) as [->|Hne].
        -- rewrite upd_l_same. unfold LInv; cbn. repeat split; auto; intros; try congruence; apply HtP; auto.
        -- rewrite Hother by auto. apply (linv_frame_owner g); auto; cbn; split; intros; try congruence.
      * exact HG.
      * intros t'. destruct (Nat.eq_dec t' t) as [->|Hne]; [|rewrite Hother by auto; apply HL].
        rewrite upd_l_same. unfold LInv, set_lst; cbn. rewrite EhC. repeat split; auto; try apply HtP; try apply HtC; intros; try congruence.
    + (* Push start *) destruct (holdsP (ls t)) eqn:EhP; inversion Est; subst; clear Est; split; cbn [fst snd]; try exact HG.
      * intros t'. destruct (Nat.eq_dec t' t) as [->|Hne]; [|rewrite Hother by auto; apply HL].
        rewrite upd_l_same. unfold LInv, set_lst; cbn. rewrite EhP. repeat split; auto; try apply HtP; try apply HtC.
      * intros t'. destruct (Nat.eq_dec t' t) as [->|Hne]; [|rewrite Hother by auto; apply HL].
        rewrite upd_l_same. unfold LInv, set_lst; cbn. rewrite EhP. repeat split; auto; try apply HtP; try apply HtC; intros; try congruence.
    + (* Pop start *) destruct (holdsC (ls t)) eqn:EhC; inversion Est; subst; clear Est; split; cbn [fst snd]; try exact HG.
      * intros t'. destruct (Nat.eq_dec t' t) as [->|Hne]; [|rewrite Hother by auto; apply HL].
        rewrite upd_l_same. unfold LInv, set_lst; cbn. rewrite EhC. repeat split; auto; try apply HtP; try apply HtC.
      * intros t'. destruct (Nat.eq_dec t' t) as [->|Hne]; [|rewrite Hother by auto; apply HL].
        rewrite upd_l_same. unfold LInv, set_lst; cbn. rewrite EhC. repeat split; auto; try apply HtP; try apply HtC; intros; try congruence.
  - (* PushLoadRp *)
    destruct Htpc as (HhP' & ->).
    destruct (N.eqb_spec (wp g) (rp g + cap g)) as [Efull|Enf]; inversion Est; subst; clear Est; split; cbn [fst snd]; try exact HG.
    + intros t'. destruct (Nat.eq_dec t' t) as [->|Hne]; [|rewrite Hother by auto; apply HL].
      rewrite upd_l_same. unfold LInv, set_lst; cbn. repeat split; auto; try apply HtP; try apply HtC.
    + intros t'. destruct (Nat.eq_dec t' t) as [->|Hne]; [|rewrite Hother by auto; apply HL].
      rewrite upd_l_same. unfold LInv, set_lst; cbn. repeat split; auto; try apply HtP; try apply HtC. lia.
  - (* PushWrite *)
    destruct Htpc as (HhP' & -> & Hlt). inversion Est; subst; clear Est; split; cbn [fst snd].
    + unfold GInv; cbn. rewrite lenN_updN. repeat split; auto; try apply HhP; try apply HhC.
      rewrite Hcons. f_equal. unfold content at 2; cbn. symmetry. apply content_push; auto.
    + intros t'. destruct (Nat.eq_dec t' t) as [->|Hne].
      * rewrite upd_l_same. unfold LInv, set_lst; cbn. repeat split; auto; try apply HtP; try apply HtC.
        apply nthN_updN_same. rewrite Hlen. apply mod_lt'; auto.
      * rewrite Hother by auto. apply (linv_frame g); auto.
        -- intros h. rewrite (excl_P g ls t t' HL HhP' Hne) in h. discriminate.
        -- intros h. cbn. repeat split; auto; try lia. intros Hrw'.
           apply nthN_updN_other.
           replace (wp g) with (rp g + (wp g - rp g)) by lia. apply mod_add_neq; lia.
  - (* PushStore *)
    destruct Htpc as (HhP' & -> & Hlt & Hv). inversion Est; subst; clear Est; split; cbn [fst snd].
    + unfold GInv; cbn. repeat split; auto; try lia; try apply HhP; try apply HhC.
      rewrite Hcons, <- app_assoc. f_equal. unfold content; cbn.
      replace (N.to_nat (wp g + 1 - rp g)) with (S (N.to_nat (wp g - rp g))) by lia.
      rewrite content_from_snoc. f_equal. f_equal. f_equal. f_equal. lia.
    + intros t'. destruct (Nat.eq_dec t' t) as [->|Hne].
      * rewrite upd_l_same. unfold LInv, set_lst; cbn. repeat split; auto; try apply HtP; try apply HtC.
      * rewrite Hother by auto. apply (linv_frame g); auto.
        -- intros h. rewrite (excl_P g ls t t' HL HhP' Hne) in h. discriminate.
        -- intros h. cbn. repeat split; auto; lia.
  - (* PopLoadWp *)
    destruct Htpc as (HhC' & ->).
    destruct (N.eqb_spec (rp g) (wp g)) as [Eempty|Ene]; inversion Est; subst; clear Est; split; cbn [fst snd]; try exact HG.
    + intros t'. destruct (Nat.eq_dec t' t) as [->|Hne]; [|rewrite Hother by auto; apply HL].
      rewrite upd_l_same. unfold LInv, set_lst; cbn. repeat split; auto; try apply HtP; try apply HtC.
    + intros t'. destruct (Nat.eq_dec t' t) as [->|Hne]; [|rewrite Hother by auto; apply HL].
      rewrite upd_l_same. unfold LInv, set_lst; cbn. repeat split; auto; try apply HtP; try apply HtC. lia.
  - (* PopRead *)
    destruct Htpc as (HhC' & -> & Hlt). inversion Est; subst; clear Est; split; cbn [fst snd]; try exact HG.
    intros t'. destruct (Nat.eq_dec t' t) as [->|Hne]; [|rewrite Hother by auto; apply HL].
    rewrite upd_l_same. unfold LInv, set_lst; cbn. repeat split; auto; try apply HtP; try apply HtC.
  - (* PopStore *)
    destruct Htpc as (HhC' & -> & Hlt & Hv). inversion Est; subst; clear Est; split; cbn [fst snd].
    + unfold GInv; cbn. repeat split; auto; try lia; try apply HhP; try apply HhC.
      rewrite Hcons, <- app_assoc. f_equal. unfold content; cbn.
      replace (N.to_nat (wp g - rp g)) with (S (N.to_nat (wp g - (rp g + 1)))) by lia.
      cbn [content_from app]. reflexivity.
    + intros t'. destruct (Nat.eq_dec t' t) as [->|Hne].
      * rewrite upd_l_same. unfold LInv, set_lst; cbn. repeat split; auto; try apply HtP; try apply HtC.
      * rewrite Hother by auto. apply (linv_frame g); auto.
        -- intros h. cbn. repeat split; auto; lia.
        -- intros h. rewrite (excl_C g ls t t' HL HhC' Hne) in h. discriminate.
Qed.

(* ---------------- consequences for every reachable state ---------------- *)
Theorem spsc_inv_reachable c progs cfg0 :
  0 < c -> reachable step (init c progs) cfg0 -> Inv cfg0.
Proof.
  intros Hc. apply (inv_reachable gst lst ev step Inv).
  - apply inv_init; auto.
  - intros t c0 c' e HI Hs. eapply step_inv; eauto.
Qed.

Lemma step_cap t g l g' l' e : step t g l = Some (g', l', e) -> cap g' = cap g.
Proof.
  unfold step. intros H.
  repeat match type of H with
  | context [match ?x with _ => _ end] => destruct x
  end; inversion H; subst; reflexivity.
Qed.

Lemma reachable_cap c progs cfg0 : reachable step (init c progs) cfg0 -> cap (fst cfg0) = c.
Proof.
  apply (inv_reachable gst lst ev step (fun c0 => cap (fst c0) = c)); [reflexivity|].
  intros t [g ls] c' e Hcc Hs. unfold step1 in Hs. cbn [fst snd] in *.
  destruct (step t g (ls t)) as [[[g' l'] e']|] eqn:Est; [|discriminate].
  inversion Hs; subst c' e. cbn [fst]. rewrite (step_cap _ _ _ _ _ _ Est). exact Hcc.
Qed.

(* FIFO conservation: at every instant of every execution, for every capacity >= 1 and
   any number of threads: (values popped so far, in order) ++ (queue content) = (values
   pushed so far, in order); the content never exceeds the capacity. *)
Theorem spsc_conservation c progs g ls :
  0 < c -> reachable step (init c progs) (g, ls) ->
  pushed g = popped g ++ content g /\ (length (content g) <= N.to_nat c)%nat.
Proof.
  intros Hc Hr. pose proof (spsc_inv_reachable c progs (g, ls) Hc Hr) as [HG _].
  pose proof (reachable_cap c progs (g, ls) Hr) as Ecap.
  cbn [fst] in *. destruct HG as (Hcap & Hrw & Hwr & Hlen & HhP & HhC & Hcons).
  split; [exact Hcons|]. rewrite content_length. lia.
Qed.

(* single producer / single consumer handle *)
Theorem spsc_roles_exclusive c progs g ls t t' :
  0 < c -> reachable step (init c progs) (g, ls) ->
  (holdsP (ls t) = true -> holdsP (ls t') = true -> t = t') /\
  (holdsC (ls t) = true -> holdsC (ls t') = true -> t = t').
Proof.
  intros Hc Hr. pose proof (spsc_inv_reachable c progs (g, ls) Hc Hr) as [_ HL]. cbn [fst snd] in HL.
  split; intros H1 H2; destruct (Nat.eq_dec t' t) as [E|E]; auto.
  - rewrite (excl_P g ls t t' HL H1 E) in H2. discriminate.
  - rewrite (excl_C g ls t t' HL H1 E) in H2. discriminate.
Qed.

(* the non-atomic slot accesses never conflict: a pending slot write and a pending slot read
   (or two pending writes) of different threads never target the same slot *)
Theorem spsc_no_slot_conflict c progs g ls t t' v w r :
  0 < c -> reachable step (init c progs) (g, ls) ->
  at_pc (ls t) = PushWrite v w -> at_pc (ls t') = PopRead r ->
  w mod cap g <> r mod cap g.
Proof.
  intros Hc Hr E1 E2. pose proof (spsc_inv_reachable c progs (g, ls) Hc Hr) as [HG HL]. cbn [fst snd] in *.
  destruct HG as (Hcap & _).
  destruct (HL t) as (_ & _ & A). rewrite E1 in A. destruct A as (_ & -> & Hlt).
  destruct (HL t') as (_ & _ & B). rewrite E2 in B. destruct B as (_ & -> & Hlt').
  replace (wp g) with (rp g + (wp g - rp g)) by lia. apply mod_add_neq; lia.
Qed.

Theorem spsc_single_writer c progs g ls t t' v w v' w' :
  0 < c -> reachable step (init c progs) (g, ls) ->
  at_pc (ls t) = PushWrite v w -> at_pc (ls t') = PushWrite v' w' -> t = t'.
Proof.
  intros Hc Hr E1 E2. pose proof (spsc_inv_reachable c progs (g, ls) Hc Hr) as [HG HL]. cbn [fst snd] in *.
  destruct (HL t) as (_ & _ & A). rewrite E1 in A. destruct A as (A & _).
  destruct (HL t') as (_ & _ & B). rewrite E2 in B. destruct B as (B & _).
  destruct (Nat.eq_dec t' t) as [E|E]; auto. rewrite (excl_P g ls t t' HL A E) in B. discriminate.
Qed.

(* the value a pop is about to return is the head of the abstract queue, whatever the
   other threads do in between (no ABA, no overwrite of an unread slot) *)
Theorem spsc_pop_returns_head c progs g ls t r v :
  0 < c -> reachable step (init c progs) (g, ls) ->
  at_pc (ls t) = PopStore r v -> hd_error (content g) = Some v.
Proof.
  intros Hc Hr E1. pose proof (spsc_inv_reachable c progs (g, ls) Hc Hr) as [HG HL]. cbn [fst snd] in *.
  destruct (HL t) as (_ & _ & A). rewrite E1 in A. destruct A as (_ & -> & Hlt & Hv).
  unfold content. replace (N.to_nat (wp g - rp g)) with (S (N.to_nat (wp g - rp g - 1))) by lia.
  cbn [content_from hd_error]. now rewrite Hv.
Qed.
