(* C06, protocol part: invariants of the step model of model/Service.v over ALL interleavings
   (any number of threads, any programs, any schedule, any timeout budget). *)
From V Require Import model.Base model.Conc model.Service.
From Coq Require Import ZifyBool ZifyNat ZifyN.

(* ------------------------------------------------------------------------------------------ *)
(* 1. Monotonicity: instances are never forgotten, their settings and owner never change, their *)
(*    static / dynamic phases only advance; the result log only grows.                          *)
(* ------------------------------------------------------------------------------------------ *)
Definition st_rank (s : sphase) : nat := match s with SLocked => 0 | SWritten => 1 | SFinal => 2 end.
Definition dy_rank (d : dphase) : nat := match d with DAbsent => 0 | DCreated => 1 | DSized => 2 | DFinal => 3 end.

Definition inst_le (x x' : inst) : Prop :=
  i_cfg x' = i_cfg x /\ i_owner x' = i_owner x /\
  (st_rank (i_st x) <= st_rank (i_st x'))%nat /\ (dy_rank (i_dy x) <= dy_rank (i_dy x'))%nat.

Definition g_le (g g' : gst) : Prop :=
  (forall i x, get_inst g i = Some x -> exists x', get_inst g' i = Some x' /\ inst_le x x') /\
  (exists l, glog g' = glog g ++ l) /\
  (length (insts g) <= length (insts g'))%nat.

Lemma inst_le_refl x : inst_le x x.
Proof. unfold inst_le; repeat split; auto. Qed.

Lemma inst_le_trans x y z : inst_le x y -> inst_le y z -> inst_le x z.
Proof. unfold inst_le. intros (A & B & C & D) (A' & B' & C' & D'). repeat split; try congruence; lia. Qed.

Lemma g_le_refl g : g_le g g.
Proof.
  split; [|split].
  - intros i x H. exists x. split; auto. apply inst_le_refl.
  - exists []. now rewrite app_nil_r.
  - lia.
Qed.

Lemma g_le_trans g1 g2 g3 : g_le g1 g2 -> g_le g2 g3 -> g_le g1 g3.
Proof.
  intros (A & (l1 & B) & C) (A' & (l2 & B') & C'). split; [|split].
  - intros i x H. destruct (A _ _ H) as (y & Hy & L1). destruct (A' _ _ Hy) as (z & Hz & L2).
    exists z. split; auto. eapply inst_le_trans; eauto.
  - exists (l1 ++ l2). rewrite B', B. now rewrite app_assoc.
  - lia.
Qed.

Lemma nth_error_upd_same {A} (l : list A) i x y : nth_error l i = Some y -> nth_error (upd l i x) i = Some x.
Proof.
  revert i; induction l as [|h t IH]; intros [|i] H; cbn in *; try discriminate; auto.
Qed.

Lemma nth_error_upd_other {A} (l : list A) i j x : i <> j -> nth_error (upd l i x) j = nth_error l j.
Proof.
  revert i j; induction l as [|h t IH]; intros [|i] [|j] H; cbn; auto; try congruence.
Qed.

Lemma upd_len {A} (l : list A) i x : length (upd l i x) = length l.
Proof. revert i; induction l as [|h t IH]; intros [|i]; cbn; auto. Qed.

Lemma g_le_set_inst g i x x' : get_inst g i = Some x -> inst_le x x' -> g_le g (set_inst g i x').
Proof.
  intros H L. split; [|split].
  - intros j y Hj. unfold get_inst, set_inst in *; cbn [insts].
    destruct (Nat.eq_dec i j) as [->|Hne].
    + exists x'. split; [eapply nth_error_upd_same; eauto|]. congruence.
    + exists y. split; [rewrite nth_error_upd_other; auto|apply inst_le_refl].
  - exists []. cbn. now rewrite app_nil_r.
  - unfold set_inst; cbn [insts]. rewrite upd_len. lia.
Qed.

Lemma g_le_set_cur g c : g_le g (set_cur g c).
Proof.
  split; [|split]; cbn; [|exists []; now rewrite app_nil_r|lia].
  intros i x H. exists x. split; auto. apply inst_le_refl.
Qed.

Lemma g_le_set_tags g ts : g_le g (set_tags g ts).
Proof.
  split; [|split]; cbn; [|exists []; now rewrite app_nil_r|lia].
  intros i x H. exists x. split; auto. apply inst_le_refl.
Qed.

Lemma g_le_rm_tag g t : g_le g (rm_tag g t).
Proof. apply g_le_set_tags. Qed.

Lemma g_le_add_log g t k r : g_le g (add_log g t k r).
Proof.
  split; [|split]; cbn; [|eexists; reflexivity|lia].
  intros i x H. exists x. split; auto. apply inst_le_refl.
Qed.

Lemma g_le_add_inst g x : g_le g (add_inst g x).
Proof.
  split; [|split]; cbn; [|exists []; now rewrite app_nil_r|rewrite app_length; lia].
  intros i y H. exists y. split; [|apply inst_le_refl].
  unfold get_inst, add_inst in *; cbn [insts]. rewrite nth_error_app1; auto.
  apply nth_error_Some. congruence.
Qed.

#[global] Hint Resolve g_le_refl g_le_set_cur g_le_set_tags g_le_rm_tag g_le_add_log g_le_add_inst : gle.

(* the helpers only append to the log *)
Lemma op_done_le t g l r hs nr es g' l' es' : op_done t g l r hs nr es = Some (g', l', es') -> g_le g g'.
Proof. unfold op_done. intros H; inversion H; subst. auto with gle. Qed.

Lemma ooc_tail_le P t g l o es g' l' es' : ooc_tail P t g l o es = Some (g', l', es') -> g_le g g'.
Proof.
  unfold ooc_tail. destruct (Nat.leb _ _); intros H.
  - eapply op_done_le; eauto.
  - inversion H; subst; auto with gle.
Qed.

Lemma call_fails_le P t g l k e es g' l' es' : call_fails P t g l k e es = Some (g', l', es') -> g_le g g'.
Proof.
  unfold call_fails. destruct (in_ooc l) as [o|]; [|apply op_done_le].
  destruct k; destruct e; intros H;
    try (eapply op_done_le; eassumption); try (eapply ooc_tail_le; eassumption).
  destruct (create_precheck _ _) in H; [eapply op_done_le; eauto|inversion H; subst; auto with gle].
Qed.

Lemma call_succeeds_le t g l i c nr es g' l' es' : call_succeeds t g l i c nr es = Some (g', l', es') -> g_le g g'.
Proof. apply op_done_le. Qed.

Lemma wait_retry_le P t g l es g' l' es' : wait_retry P t g l es = Some (g', l', es') -> g_le g g'.
Proof.
  unfold wait_retry. destruct (Nat.leb _ _); intros H; [eapply call_fails_le; eauto|inversion H; subst; auto with gle].
Qed.

Lemma run_cont_le P t g l c es g' l' es' : run_cont P t g l c es = Some (g', l', es') -> g_le g g'.
Proof.
  unfold run_cont. destruct c; intros H; [eapply call_fails_le|eapply op_done_le|eapply wait_retry_le]; eauto.
Qed.

Lemma fail_with_tag_le P t g l own c es g' l' es' : fail_with_tag P t g l own c es = Some (g', l', es') -> g_le g g'.
Proof.
  unfold fail_with_tag. destruct own; intros H; [inversion H; subst; auto with gle|eapply run_cont_le; eauto].
Qed.

Lemma avail_hangs_le P t g l es g' l' es' : avail_hangs P t g l es = Some (g', l', es') -> g_le g g'.
Proof.
  unfold avail_hangs. destruct (cur_kind l); intros H; try (eapply wait_retry_le; eassumption); eapply call_fails_le; eauto.
Qed.

Lemma avail_none_le P t g l es g' l' es' : avail_none P t g l es = Some (g', l', es') -> g_le g g'.
Proof.
  unfold avail_none. destruct (cur_kind l); intros H; try (eapply call_fails_le; eassumption); inversion H; subst; auto with gle.
Qed.

Lemma start_call_le P t g l r k o g' l' es' : start_call P t g l r k o = Some (g', l', es') -> g_le g g'.
Proof.
  unfold start_call. destruct k; intros H; try (inversion H; subst; auto with gle; fail).
  destruct (create_precheck _ _) in H; [eapply op_done_le; eauto|inversion H; subst; auto with gle].
Qed.

Ltac le_inst :=
  match goal with
  | E : get_inst ?g ?i = Some ?x |- g_le ?g (set_inst ?g ?i _) =>
    apply (g_le_set_inst g i x); [exact E|unfold inst_le, upd_st, upd_dy, upd_res, upd_reg; cbn;
                                          repeat match goal with Ed : i_dy _ = _ |- _ => rewrite Ed | Es : i_st _ = _ |- _ => rewrite Es end;
                                          cbn; repeat split; auto; try lia;
                                           try (destruct (i_st x); cbn; lia); try (destruct (i_dy x); cbn; lia)]
  end.

Ltac le_helper H :=
  first [ eapply op_done_le in H | eapply call_fails_le in H | eapply call_succeeds_le in H | eapply wait_retry_le in H
        | eapply run_cont_le in H | eapply fail_with_tag_le in H | eapply avail_hangs_le in H | eapply avail_none_le in H
        | eapply start_call_le in H | eapply ooc_tail_le in H ].

Ltac le_finish H :=
  first [ solve [inversion H; subst; auto with gle]
        | solve [inversion H; subst; le_inst]
        | solve [inversion H; subst; eapply g_le_trans; [|apply g_le_set_cur]; auto with gle]
        | solve [le_helper H; exact H]
        | solve [le_helper H; eapply g_le_trans; [|exact H]; first [le_inst | auto with gle]] ].

Lemma step_mono P t g l g' l' es : step P t g l = Some (g', l', es) -> g_le g g'.
Proof.
  unfold step, with_inst. intros H.
  destruct (at_pc l) eqn:Epc.
  all: repeat match type of H with
       | context [match prog ?l with _ => _ end] => destruct (prog l)
       | context [match ?o with OCreate _ => _ | _ => _ end] => destruct o
       | context [match nth_error (handles ?l) ?k with _ => _ end] => destruct (nth_error (handles l) k) as [[? ?]|]
       | context [match cur ?g with _ => _ end] => destruct (cur g)
       | context [match get_inst ?g ?i with _ => _ end] => let E := fresh "E" in destruct (get_inst g i) eqn:E
       | context [if ?b then _ else _] => destruct b
       | context [match cur_kind ?l with _ => _ end] => destruct (cur_kind l)
       | context [match open_check ?a ?b ?c with _ => _ end] => destruct (open_check a b c)
       | context [match i_dy ?x with _ => _ end] => let E := fresh "Edy" in destruct (i_dy x) eqn:E
       | context [match i_st ?x with _ => _ end] => let E := fresh "Est" in destruct (i_st x) eqn:E
       | context [match filter ?f ?l with _ => _ end] => destruct (filter f l)
       end; try discriminate.
  all: try (le_finish H).
Qed.
