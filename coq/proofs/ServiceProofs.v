(* C06, protocol part: invariants of the step model of model/Service.v over ALL interleavings
   (any number of threads, any programs, any schedule, any timeout budget). *)
From V Require Import model.Base model.Conc model.Service.
From Coq Require Import ZifyBool ZifyNat ZifyN.

(* ------------------------------------------------------------------------------------------ *)
(* 1. Monotonicity: instances are never forgotten, their settings and owner never change, their *)
(*    static / dynamic phases only advance; the result log only grows.                          *)
(* ------------------------------------------------------------------------------------------ *)
Definition st_rank (s : sphase) : nat := match s with SLocked => 0 | SWritten => 1 | SFinal => 2 end.
Definition dy_rank (d : dphase) : nat := match d with DAbsent => 0 | DCreated => 1 | DSized => 2 | DFinal => 3 end.

Definition inst_le (x x' : inst) : Prop :=
  i_cfg x' = i_cfg x /\ i_owner x' = i_owner x /\
  (st_rank (i_st x) <= st_rank (i_st x'))%nat /\ (dy_rank (i_dy x) <= dy_rank (i_dy x'))%nat.

Definition g_le (g g' : gst) : Prop :=
  (forall i x, get_inst g i = Some x -> exists x', get_inst g' i = Some x' /\ inst_le x x') /\
  (exists l, glog g' = glog g ++ l) /\
  (length (insts g) <= length (insts g'))%nat.

Lemma inst_le_refl x : inst_le x x.
Proof. unfold inst_le; repeat split; auto. Qed.

Lemma inst_le_trans x y z : inst_le x y -> inst_le y z -> inst_le x z.
Proof. unfold inst_le. intros (A & B & C & D) (A' & B' & C' & D'). repeat split; try congruence; lia. Qed.

Lemma g_le_refl g : g_le g g.
Proof.
  split; [|split].
  - intros i x H. exists x. split; auto. apply inst_le_refl.
  - exists []. now rewrite app_nil_r.
  - lia.
Qed.

Lemma g_le_trans g1 g2 g3 : g_le g1 g2 -> g_le g2 g3 -> g_le g1 g3.
Proof.
  intros (A & (l1 & B) & C) (A' & (l2 & B') & C'). split; [|split].
  - intros i x H. destruct (A _ _ H) as (y & Hy & L1). destruct (A' _ _ Hy) as (z & Hz & L2).
    exists z. split; auto. eapply inst_le_trans; eauto.
  - exists (l1 ++ l2). rewrite B', B. now rewrite app_assoc.
  - lia.
Qed.

Lemma nth_error_upd_same {A} (l : list A) i x y : nth_error l i = Some y -> nth_error (upd l i x) i = Some x.
Proof.
  revert i; induction l as [|h t IH]; intros [|i] H; cbn in *; try discriminate; auto.
Qed.

Lemma nth_error_upd_other {A} (l : list A) i j x : i <> j -> nth_error (upd l i x) j = nth_error l j.
Proof.
  revert i j; induction l as [|h t IH]; intros [|i] [|j] H; cbn; auto; try congruence.
Qed.

Lemma upd_len {A} (l : list A) i x : length (upd l i x) = length l.
Proof. revert i; induction l as [|h t IH]; intros [|i]; cbn; auto. Qed.

Lemma g_le_set_inst g i x x' : get_inst g i = Some x -> inst_le x x' -> g_le g (set_inst g i x').
Proof.
  intros H L. split; [|split].
  - intros j y Hj. unfold get_inst, set_inst in *; cbn [insts].
    destruct (Nat.eq_dec i j) as [->|Hne].
    + exists x'. split; [eapply nth_error_upd_same; eauto|]. congruence.
    + exists y. split; [rewrite nth_error_upd_other; auto|apply inst_le_refl].
  - exists []. cbn. now rewrite app_nil_r.
  - unfold set_inst; cbn [insts]. rewrite upd_len. lia.
Qed.

Lemma g_le_set_cur g c : g_le g (set_cur g c).
Proof.
  split; [|split]; cbn; [|exists []; now rewrite app_nil_r|lia].
  intros i x H. exists x. split; auto. apply inst_le_refl.
Qed.

Lemma g_le_set_tags g ts : g_le g (set_tags g ts).
Proof.
  split; [|split]; cbn; [|exists []; now rewrite app_nil_r|lia].
  intros i x H. exists x. split; auto. apply inst_le_refl.
Qed.

Lemma g_le_rm_tag g t : g_le g (rm_tag g t).
Proof. apply g_le_set_tags. Qed.

Lemma g_le_add_log g t k r : g_le g (add_log g t k r).
Proof.
  split; [|split]; cbn; [|eexists; reflexivity|lia].
  intros i x H. exists x. split; auto. apply inst_le_refl.
Qed.

Lemma g_le_add_inst g x : g_le g (add_inst g x).
Proof.
  split; [|split]; cbn; [|exists []; now rewrite app_nil_r|rewrite app_length; lia].
  intros i y H. exists y. split; [|apply inst_le_refl].
  unfold get_inst, add_inst in *; cbn [insts]. rewrite nth_error_app1; auto.
  apply nth_error_Some. congruence.
Qed.

#[global] Hint Resolve g_le_refl g_le_set_cur g_le_set_tags g_le_rm_tag g_le_add_log g_le_add_inst : gle.

(* the helpers only append to the log *)
Lemma op_done_k_le k t g l r hs nr es g' l' es' : op_done_k k t g l r hs nr es = Some (g', l', es') -> g_le g g'.
Proof. unfold op_done_k. intros H; inversion H; subst. auto with gle. Qed.

Lemma op_done_le t g l r hs nr es g' l' es' : op_done t g l r hs nr es = Some (g', l', es') -> g_le g g'.
Proof. apply op_done_k_le. Qed.

Lemma ooc_tail_le P t g l o es g' l' es' : ooc_tail P t g l o es = Some (g', l', es') -> g_le g g'.
Proof.
  unfold ooc_tail. destruct (Nat.leb _ _); intros H.
  - eapply op_done_le; eauto.
  - inversion H; subst; auto with gle.
Qed.

Lemma call_fails_le P t g l k e es g' l' es' : call_fails P t g l k e es = Some (g', l', es') -> g_le g g'.
Proof.
  unfold call_fails. destruct (in_ooc l) as [o|]; [|apply op_done_le].
  destruct k; destruct e; intros H;
    try (eapply op_done_le; eassumption); try (eapply ooc_tail_le; eassumption).
  destruct (create_precheck _ _) in H; [eapply op_done_le; eauto|inversion H; subst; auto with gle].
Qed.

Lemma call_succeeds_le k t g l i c nr es g' l' es' : call_succeeds k t g l i c nr es = Some (g', l', es') -> g_le g g'.
Proof. apply op_done_k_le. Qed.

Lemma wait_retry_le P t g l es g' l' es' : wait_retry P t g l es = Some (g', l', es') -> g_le g g'.
Proof.
  unfold wait_retry. destruct (Nat.leb _ _); intros H; [eapply call_fails_le; eauto|inversion H; subst; auto with gle].
Qed.

Lemma run_cont_le P t g l c es g' l' es' : run_cont P t g l c es = Some (g', l', es') -> g_le g g'.
Proof.
  unfold run_cont. destruct c; intros H; [eapply call_fails_le|eapply op_done_le|eapply wait_retry_le]; eauto.
Qed.

Lemma fail_with_tag_le P t g l own c es g' l' es' : fail_with_tag P t g l own c es = Some (g', l', es') -> g_le g g'.
Proof.
  unfold fail_with_tag. destruct own; intros H; [inversion H; subst; auto with gle|eapply run_cont_le; eauto].
Qed.

Lemma avail_hangs_le P t g l es g' l' es' : avail_hangs P t g l es = Some (g', l', es') -> g_le g g'.
Proof.
  unfold avail_hangs. destruct (cur_kind l); intros H; try (eapply wait_retry_le; eassumption); eapply call_fails_le; eauto.
Qed.

Lemma avail_none_le P t g l es g' l' es' : avail_none P t g l es = Some (g', l', es') -> g_le g g'.
Proof.
  unfold avail_none. destruct (cur_kind l); intros H; try (eapply call_fails_le; eassumption); inversion H; subst; auto with gle.
Qed.

Lemma start_call_le P t g l r k o g' l' es' : start_call P t g l r k o = Some (g', l', es') -> g_le g g'.
Proof.
  unfold start_call. destruct k; intros H; try (inversion H; subst; auto with gle; fail).
  destruct (create_precheck _ _) in H; [eapply op_done_le; eauto|inversion H; subst; auto with gle].
Qed.

Ltac le_inst :=
  match goal with
  | E : get_inst ?g ?i = Some ?x |- g_le ?g (set_inst ?g ?i _) =>
    apply (g_le_set_inst g i x); [exact E|unfold inst_le, upd_st, upd_dy, upd_res, upd_reg; cbn;
                                          repeat match goal with Ed : i_dy _ = _ |- _ => rewrite Ed | Es : i_st _ = _ |- _ => rewrite Es end;
                                          cbn; repeat split; auto; try lia;
                                           try (destruct (i_st x); cbn; lia); try (destruct (i_dy x); cbn; lia)]
  end.

Ltac le_helper H :=
  first [ eapply op_done_le in H | eapply call_fails_le in H | eapply call_succeeds_le in H | eapply wait_retry_le in H
        | eapply run_cont_le in H | eapply fail_with_tag_le in H | eapply avail_hangs_le in H | eapply avail_none_le in H
        | eapply start_call_le in H | eapply ooc_tail_le in H ].

Ltac le_finish H :=
  first [ solve [inversion H; subst; auto with gle]
        | solve [inversion H; subst; le_inst]
        | solve [inversion H; subst; eapply g_le_trans; [|apply g_le_set_cur]; auto with gle]
        | solve [le_helper H; exact H]
        | solve [le_helper H; eapply g_le_trans; [|exact H]; first [le_inst | auto with gle]] ].

Lemma step_mono P t g l g' l' es : step P t g l = Some (g', l', es) -> g_le g g'.
Proof.
  unfold step, with_inst. intros H.
  destruct (at_pc l) eqn:Epc.
  all: repeat match type of H with
       | context [match prog ?l with _ => _ end] => destruct (prog l)
       | context [match ?o with OCreate _ => _ | _ => _ end] => destruct o
       | context [match nth_error (handles ?l) ?k with _ => _ end] => destruct (nth_error (handles l) k) as [[? ?]|]
       | context [match cur ?g with _ => _ end] => destruct (cur g)
       | context [match get_inst ?g ?i with _ => _ end] => let E := fresh "E" in destruct (get_inst g i) eqn:E
       | context [if ?b then _ else _] => destruct b
       | context [match cur_kind ?l with _ => _ end] => destruct (cur_kind l)
       | context [match open_check ?a ?b ?c with _ => _ end] => destruct (open_check a b c)
       | context [match i_dy ?x with _ => _ end] => let E := fresh "Edy" in destruct (i_dy x) eqn:E
       | context [match i_st ?x with _ => _ end] => let E := fresh "Est" in destruct (i_st x) eqn:E
       | context [match filter ?f ?l with _ => _ end] => destruct (filter f l)
       end; try discriminate.
  all: try (le_finish H).
Qed.

(* ------------------------------------------------------------------------------------------ *)
(* 2. Who obtains a service: every successful call refers to a completely initialised instance  *)
(*    and carries the creator's settings; every instance has at most one successful creator.    *)
(* ------------------------------------------------------------------------------------------ *)
Definition final (g : gst) (j : nat) : Prop :=
  exists x, get_inst g j = Some x /\ i_dy x = DFinal.

(* a creator between create_locked and the final permission of the dynamic config *)
Definition creating (p : pc) : option nat :=
  match p with
  | CStChmod1 _ i | CStWrite _ i | CStChmod2 _ i | CRes _ i | CDyOpen _ i | CDyTrunc _ i | CDyFstat _ i
  | CDyInit _ i | CDyChmod _ i => Some i
  | _ => None
  end.

Definition LInv (g : gst) (t : nat) (l : lst) : Prop :=
  match at_pc l with
  | OReg j _ => final g j
  | p => match creating p with
         | Some i => exists x, get_inst g i = Some x /\ i_owner x = t /\ i_dy x <> DFinal
         | None => True
         end
  end.

Definition plain_pc (p : pc) : Prop :=
  match p with OReg _ _ => False | p => creating p = None end.

Lemma plain_LInv g t l : plain_pc (at_pc l) -> LInv g t l.
Proof. unfold plain_pc, LInv. destruct (at_pc l); cbn; intros H; try discriminate; auto; contradiction. Qed.

Definition ok_entry (e : nat * opkind * result) : Prop := match e with (_, _, ROk _ _) => True | _ => False end.

(* the helper results: no successful entry is logged, the instance table is untouched, the new pc is plain *)
Definition quiet (g g' : gst) (l' : lst) : Prop :=
  insts g' = insts g /\
  (forall e, In e (glog g') -> ok_entry e -> In e (glog g)) /\
  plain_pc (at_pc l').

Lemma in_snoc_ok g e0 e : In e (glog g ++ [e0]) -> ok_entry e -> ~ ok_entry e0 -> In e (glog g).
Proof. intros H O N. apply in_app_or in H. destruct H as [H|[H|[]]]; auto. subst. contradiction. Qed.

Lemma op_done_quiet t g l r hs nr es g' l' es' :
  op_done t g l r hs nr es = Some (g', l', es') -> ~ ok_entry (t, cur_kind l, r) -> quiet g g' l'.
Proof.
  unfold op_done, op_done_k. intros H N; inversion H; subst. split; [reflexivity|]. split; [|cbn; auto].
  intros e Hin O. cbn [glog add_log] in Hin. eapply in_snoc_ok; eauto.
Qed.

Ltac quiet_plain := split; [reflexivity|split; [auto|cbn; auto]].

Lemma ooc_tail_quiet P t g l o es g' l' es' : ooc_tail P t g l o es = Some (g', l', es') -> quiet g g' l'.
Proof.
  unfold ooc_tail. destruct (Nat.leb _ _); intros H.
  - eapply op_done_quiet; eauto. destruct (Nat.ltb _ _); cbn; auto. destruct (last _ _) as [[? ?]|]; cbn; auto.
  - inversion H; subst. quiet_plain.
Qed.

Lemma call_fails_quiet P t g l k e es g' l' es' : call_fails P t g l k e es = Some (g', l', es') -> quiet g g' l'.
Proof.
  unfold call_fails. destruct (in_ooc l) as [o|]; [|intros H; eapply op_done_quiet; eauto; cbn; auto].
  destruct k; destruct e; intros H;
    try (eapply op_done_quiet; [eassumption|cbn; auto]; fail); try (eapply ooc_tail_quiet; eassumption).
  destruct (create_precheck _ _) in H; [eapply op_done_quiet; eauto; cbn; auto|inversion H; subst; quiet_plain].
Qed.

Lemma wait_retry_quiet P t g l es g' l' es' : wait_retry P t g l es = Some (g', l', es') -> quiet g g' l'.
Proof.
  unfold wait_retry. destruct (Nat.leb _ _); intros H; [eapply call_fails_quiet; eauto|inversion H; subst; quiet_plain].
Qed.

Lemma run_cont_quiet P t g l c es g' l' es' : run_cont P t g l c es = Some (g', l', es') -> quiet g g' l'.
Proof.
  unfold run_cont. destruct c; intros H; [eapply call_fails_quiet|eapply op_done_quiet|eapply wait_retry_quiet]; eauto.
Qed.

Lemma fail_with_tag_quiet P t g l own c es g' l' es' : fail_with_tag P t g l own c es = Some (g', l', es') -> quiet g g' l'.
Proof.
  unfold fail_with_tag. destruct own; intros H; [inversion H; subst; quiet_plain|eapply run_cont_quiet; eauto].
Qed.

Lemma avail_hangs_quiet P t g l es g' l' es' : avail_hangs P t g l es = Some (g', l', es') -> quiet g g' l'.
Proof.
  unfold avail_hangs. destruct (cur_kind l); intros H; try (eapply wait_retry_quiet; eassumption); eapply call_fails_quiet; eauto.
Qed.

Lemma avail_none_quiet P t g l es g' l' es' : avail_none P t g l es = Some (g', l', es') -> quiet g g' l'.
Proof.
  unfold avail_none. destruct (cur_kind l); intros H; try (eapply call_fails_quiet; eassumption); inversion H; subst; quiet_plain.
Qed.

Lemma start_call_quiet P t g l r k o g' l' es' : start_call P t g l r k o = Some (g', l', es') -> quiet g g' l'.
Proof.
  unfold start_call. destruct k; intros H; try (inversion H; subst; quiet_plain; fail).
  destruct (create_precheck _ _) in H; [eapply op_done_quiet; eauto; cbn; auto|inversion H; subst; quiet_plain].
Qed.

Lemma get_set_inst_same g j y x0 : get_inst g j = Some x0 -> get_inst (set_inst g j y) j = Some y.
Proof. unfold get_inst, set_inst; cbn [insts]. apply nth_error_upd_same. Qed.

Lemma get_set_inst_other g j y i : i <> j -> get_inst (set_inst g j y) i = get_inst g i.
Proof. intros H. unfold get_inst, set_inst; cbn [insts]. apply nth_error_upd_other. auto. Qed.

Lemma get_add_inst_old g y i x : get_inst g i = Some x -> get_inst (add_inst g y) i = Some x.
Proof.
  unfold get_inst, add_inst; cbn [insts]. intros H. rewrite nth_error_app1; auto. apply nth_error_Some. congruence.
Qed.

Lemma get_add_inst_new g y : get_inst (add_inst g y) (length (insts g)) = Some y.
Proof. unfold get_inst, add_inst; cbn [insts]. rewrite nth_error_app2; [|lia]. now rewrite Nat.sub_diag. Qed.

Lemma quiet_get g g' l' i : quiet g g' l' -> get_inst g' i = get_inst g i.
Proof. intros (E & _). unfold get_inst. now rewrite E. Qed.

(* what a step may do to an instance that is not final: only the creator's last step finalises it *)
Definition keeps_unfinal (g g' : gst) (l : lst) : Prop :=
  forall i x, get_inst g i = Some x -> i_dy x <> DFinal ->
    (exists own, at_pc l = CDyChmod own i) \/ (exists x', get_inst g' i = Some x' /\ i_owner x' = i_owner x /\ i_dy x' <> DFinal).

Lemma keeps_same g g' l : (forall i, get_inst g' i = get_inst g i) -> keeps_unfinal g g' l.
Proof. intros E i x H N. right. exists x. rewrite E. auto. Qed.

Lemma keeps_set_inst g j y x0 l :
  get_inst g j = Some x0 -> i_owner y = i_owner x0 -> (i_dy x0 <> DFinal -> i_dy y <> DFinal) ->
  keeps_unfinal g (set_inst g j y) l.
Proof.
  intros H O D i x Hi N. right. destruct (Nat.eq_dec i j) as [->|Hne].
  - exists y. rewrite (get_set_inst_same _ _ _ _ H). assert (x = x0) by congruence. subst. auto.
  - exists x. rewrite get_set_inst_other; auto.
Qed.

Lemma keeps_trans_quiet g g0 g' l l' : keeps_unfinal g g0 l -> quiet g0 g' l' -> keeps_unfinal g g' l.
Proof.
  intros K Q i x H N. destruct (K i x H N) as [L|(x' & A & B)]; [left; auto|right].
  exists x'. rewrite (quiet_get _ _ _ _ Q). auto.
Qed.

Ltac quiet_of H :=
  first [ eapply call_fails_quiet in H | eapply wait_retry_quiet in H
        | eapply run_cont_quiet in H | eapply fail_with_tag_quiet in H | eapply avail_hangs_quiet in H | eapply avail_none_quiet in H
        | eapply start_call_quiet in H | eapply ooc_tail_quiet in H
        | (eapply op_done_quiet in H; [|cbn; tauto]) ].

Ltac step_cases H :=
  repeat match type of H with
       | context [match prog ?l with _ => _ end] => destruct (prog l)
       | context [match ?o with OCreate _ => _ | _ => _ end] => destruct o
       | context [match nth_error (handles ?l) ?k with _ => _ end] => destruct (nth_error (handles l) k) as [[? ?]|]
       | context [match cur ?g with _ => _ end] => destruct (cur g)
       | context [match get_inst ?g ?i with _ => _ end] => let E := fresh "E" in destruct (get_inst g i) eqn:E
       | context [if ?b then _ else _] => let Eb := fresh "Eb" in destruct b eqn:Eb
       | context [match cur_kind ?l with _ => _ end] => destruct (cur_kind l)
       | context [match open_check ?a ?b ?c with _ => _ end] => destruct (open_check a b c)
       | context [match i_dy ?x with _ => _ end] => let E := fresh "Edy" in destruct (i_dy x) eqn:E
       | context [match i_st ?x with _ => _ end] => let E := fresh "Est" in destruct (i_st x) eqn:E
       | context [match filter ?f ?l with _ => _ end] => destruct (filter f l)
       end; try discriminate.

Ltac keeps_inst :=
  match goal with
  | E : get_inst ?g ?j = Some ?x0 |- keeps_unfinal ?g (set_inst ?g ?j _) _ =>
    apply (keeps_set_inst g j _ x0); [exact E|reflexivity|
      unfold upd_st, upd_dy, upd_res, upd_reg; cbn;
      repeat match goal with Ed : i_dy _ = _ |- _ => rewrite Ed end; cbn; congruence]
  end.

Ltac keeps_basic :=
  first [ solve [apply keeps_same; intros; reflexivity]
        | solve [keeps_inst]
        | solve [apply keeps_same; intros; unfold get_inst; reflexivity] ].

Lemma step_keeps_unfinal P t g l g' l' es : step P t g l = Some (g', l', es) -> keeps_unfinal g g' l.
Proof.
  unfold step, with_inst. intros H.
  destruct (at_pc l) eqn:Epc.
  all: step_cases H.
  all: try (inversion H; subst; keeps_basic).
  all: try (quiet_of H; eapply keeps_trans_quiet; [|exact H]; keeps_basic).
  all: try (unfold call_succeeds, op_done_k in H; inversion H; subst; clear H).
  - (* OReg registers *)
    intros i0 x Hi N. right. destruct (Nat.eq_dec i0 j) as [->|Hne].
    + eexists. split; [unfold get_inst, add_log; cbn [insts]; apply (get_set_inst_same g j _ i E)|].
      assert (x = i) by congruence. subst. cbn. auto.
    + exists x. split; auto. unfold get_inst, add_log; cbn [insts]. fold (get_inst (set_inst g j (upd_reg i false (i_members i ++ [t]))) i0).
      rewrite get_set_inst_other; auto.
  - (* CStOpen allocates a fresh instance *)
    intros i0 x Hi N. right. exists x. split; auto. unfold set_cur, get_inst; cbn [insts].
    apply (get_add_inst_old g _ i0 x Hi).
  - (* CDyChmod finalises its own instance *)
    intros i1 x Hi N. destruct (Nat.eq_dec i1 i) as [->|Hne]; [left; eauto|right].
    exists x. split; auto. unfold get_inst, add_log; cbn [insts]. fold (get_inst (set_inst g i (upd_dy i0 DFinal true)) i1).
    rewrite get_set_inst_other; auto.
Qed.
