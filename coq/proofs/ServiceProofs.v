(* C06, protocol part: invariants of the step model of model/Service.v over ALL interleavings
   (any number of threads, any programs, any schedule, any timeout budget). *)
From V Require Import model.Base model.Conc model.Service.
From Coq Require Import ZifyBool ZifyNat ZifyN.

(* ------------------------------------------------------------------------------------------ *)
(* 1. Monotonicity: instances are never forgotten, their settings and owner never change, their *)
(*    static / dynamic phases only advance; the result log only grows.                          *)
(* ------------------------------------------------------------------------------------------ *)
Definition st_rank (s : sphase) : nat := match s with SLocked => 0 | SWritten => 1 | SFinal => 2 end.
Definition dy_rank (d : dphase) : nat := match d with DAbsent => 0 | DCreated => 1 | DSized => 2 | DFinal => 3 end.

Definition inst_le (x x' : inst) : Prop :=
  i_cfg x' = i_cfg x /\ i_owner x' = i_owner x /\
  (st_rank (i_st x) <= st_rank (i_st x'))%nat /\ (dy_rank (i_dy x) <= dy_rank (i_dy x'))%nat.

Definition g_le (g g' : gst) : Prop :=
  (forall i x, get_inst g i = Some x -> exists x', get_inst g' i = Some x' /\ inst_le x x') /\
  (exists l, glog g' = glog g ++ l) /\
  (length (insts g) <= length (insts g'))%nat.

Lemma inst_le_refl x : inst_le x x.
Proof. unfold inst_le; repeat split; auto. Qed.

Lemma inst_le_trans x y z : inst_le x y -> inst_le y z -> inst_le x z.
Proof. unfold inst_le. intros (A & B & C & D) (A' & B' & C' & D'). repeat split; try congruence; lia. Qed.

Lemma g_le_refl g : g_le g g.
Proof.
  split; [|split].
  - intros i x H. exists x. split; auto. apply inst_le_refl.
  - exists []. now rewrite app_nil_r.
  - lia.
Qed.

Lemma g_le_trans g1 g2 g3 : g_le g1 g2 -> g_le g2 g3 -> g_le g1 g3.
Proof.
  intros (A & (l1 & B) & C) (A' & (l2 & B') & C'). split; [|split].
  - intros i x H. destruct (A _ _ H) as (y & Hy & L1). destruct (A' _ _ Hy) as (z & Hz & L2).
    exists z. split; auto. eapply inst_le_trans; eauto.
  - exists (l1 ++ l2). rewrite B', B. now rewrite app_assoc.
  - lia.
Qed.

Lemma nth_error_upd_same {A} (l : list A) i x y : nth_error l i = Some y -> nth_error (upd l i x) i = Some x.
Proof.
  revert i; induction l as [|h t IH]; intros [|i] H; cbn in *; try discriminate; auto.
Qed.

Lemma nth_error_upd_other {A} (l : list A) i j x : i <> j -> nth_error (upd l i x) j = nth_error l j.
Proof.
  revert i j; induction l as [|h t IH]; intros [|i] [|j] H; cbn; auto; try congruence.
Qed.

Lemma upd_len {A} (l : list A) i x : length (upd l i x) = length l.
Proof. revert i; induction l as [|h t IH]; intros [|i]; cbn; auto. Qed.

Lemma g_le_set_inst g i x x' : get_inst g i = Some x -> inst_le x x' -> g_le g (set_inst g i x').
Proof.
  intros H L. split; [|split].
  - intros j y Hj. unfold get_inst, set_inst in *; cbn [insts].
    destruct (Nat.eq_dec i j) as [->|Hne].
    + exists x'. split; [eapply nth_error_upd_same; eauto|]. congruence.
    + exists y. split; [rewrite nth_error_upd_other; auto|apply inst_le_refl].
  - exists []. cbn. now rewrite app_nil_r.
  - unfold set_inst; cbn [insts]. rewrite upd_len. lia.
Qed.

Lemma g_le_set_cur g c : g_le g (set_cur g c).
Proof.
  split; [|split]; cbn; [|exists []; now rewrite app_nil_r|lia].
  intros i x H. exists x. split; auto. apply inst_le_refl.
Qed.

Lemma g_le_set_tags g ts : g_le g (set_tags g ts).
Proof.
  split; [|split]; cbn; [|exists []; now rewrite app_nil_r|lia].
  intros i x H. exists x. split; auto. apply inst_le_refl.
Qed.

Lemma g_le_rm_tag g t : g_le g (rm_tag g t).
Proof. apply g_le_set_tags. Qed.

Lemma g_le_add_log g t k r : g_le g (add_log g t k r).
Proof.
  split; [|split]; cbn; [|eexists; reflexivity|lia].
  intros i x H. exists x. split; auto. apply inst_le_refl.
Qed.

Lemma g_le_add_inst g x : g_le g (add_inst g x).
Proof.
  split; [|split]; cbn; [|exists []; now rewrite app_nil_r|rewrite app_length; lia].
  intros i y H. exists y. split; [|apply inst_le_refl].
  unfold get_inst, add_inst in *; cbn [insts]. rewrite nth_error_app1; auto.
  apply nth_error_Some. congruence.
Qed.

Lemma g_le_set_multi g : g_le g (set_multi g).
Proof.
  split; [|split]; cbn; [|exists []; now rewrite app_nil_r|lia].
  intros i x H. exists x. split; auto. apply inst_le_refl.
Qed.

#[global] Hint Resolve g_le_refl g_le_set_cur g_le_set_tags g_le_rm_tag g_le_add_log g_le_add_inst g_le_set_multi : gle.

(* the helpers only append to the log *)
Lemma op_done_k_le k t g l r hs nr ri es g' l' es' : op_done_k k t g l r hs nr ri es = Some (g', l', es') -> g_le g g'.
Proof. unfold op_done_k. intros H; inversion H; subst. auto with gle. Qed.

Lemma op_done_le t g l r hs nr es g' l' es' : op_done t g l r hs nr es = Some (g', l', es') -> g_le g g'.
Proof. apply op_done_k_le. Qed.

Lemma ooc_tail_le P t g l o es g' l' es' : ooc_tail P t g l o es = Some (g', l', es') -> g_le g g'.
Proof.
  unfold ooc_tail. destruct (Nat.leb _ _); intros H.
  - eapply op_done_le; eauto.
  - inversion H; subst; auto with gle.
Qed.

Lemma call_fails_le P t g l k e es g' l' es' : call_fails P t g l k e es = Some (g', l', es') -> g_le g g'.
Proof.
  unfold call_fails. destruct (in_ooc l) as [o|]; [|apply op_done_le].
  destruct k; destruct e; intros H;
    try (eapply op_done_le; eassumption); try (eapply ooc_tail_le; eassumption).
  destruct (create_precheck _ _) in H; [eapply op_done_le; eauto|inversion H; subst; auto with gle].
Qed.

Lemma call_succeeds_le k t g l i c nr es g' l' es' : call_succeeds k t g l i c nr es = Some (g', l', es') -> g_le g g'.
Proof. apply op_done_k_le. Qed.

Lemma wait_retry_le P t g l es g' l' es' : wait_retry P t g l es = Some (g', l', es') -> g_le g g'.
Proof.
  unfold wait_retry. destruct (Nat.leb _ _); intros H; [eapply call_fails_le; eauto|inversion H; subst; auto with gle].
Qed.

Lemma run_cont_le P t g l c es g' l' es' : run_cont P t g l c es = Some (g', l', es') -> g_le g g'.
Proof.
  unfold run_cont. destruct c; intros H; [eapply call_fails_le|eapply op_done_le|eapply wait_retry_le]; eauto.
Qed.

Lemma fail_with_tag_le P t g l own c es g' l' es' : fail_with_tag P t g l own c es = Some (g', l', es') -> g_le g g'.
Proof.
  unfold fail_with_tag. destruct own; intros H; [inversion H; subst; auto with gle|eapply run_cont_le; eauto].
Qed.

Lemma avail_hangs_le P t g l es g' l' es' : avail_hangs P t g l es = Some (g', l', es') -> g_le g g'.
Proof.
  unfold avail_hangs. destruct (cur_kind l); intros H; try (eapply wait_retry_le; eassumption); eapply call_fails_le; eauto.
Qed.

Lemma avail_none_le P t g l es g' l' es' : avail_none P t g l es = Some (g', l', es') -> g_le g g'.
Proof.
  unfold avail_none. destruct (cur_kind l); intros H; try (eapply call_fails_le; eassumption); inversion H; subst; auto with gle.
Qed.

Lemma start_call_le P t g l r k o g' l' es' : start_call P t g l r k o = Some (g', l', es') -> g_le g g'.
Proof.
  unfold start_call. destruct k; intros H; try (inversion H; subst; auto with gle; fail).
  destruct (create_precheck _ _) in H; [eapply op_done_le; eauto|inversion H; subst; auto with gle].
Qed.

Ltac le_inst :=
  match goal with
  | E : get_inst ?g ?i = Some ?x |- g_le ?g (set_inst ?g ?i _) =>
    apply (g_le_set_inst g i x); [exact E|unfold inst_le, upd_st, upd_dy, upd_res, upd_reg; cbn;
                                          repeat match goal with Ed : i_dy _ = _ |- _ => rewrite Ed | Es : i_st _ = _ |- _ => rewrite Es end;
                                          cbn; repeat split; auto; try lia;
                                           try (destruct (i_st x); cbn; lia); try (destruct (i_dy x); cbn; lia)]
  end.

Ltac le_helper H :=
  first [ eapply op_done_le in H | eapply call_fails_le in H | eapply call_succeeds_le in H | eapply wait_retry_le in H
        | eapply run_cont_le in H | eapply fail_with_tag_le in H | eapply avail_hangs_le in H | eapply avail_none_le in H
        | eapply start_call_le in H | eapply ooc_tail_le in H ].

Ltac le_finish H :=
  first [ solve [inversion H; subst; auto with gle]
        | solve [inversion H; subst; le_inst]
        | solve [inversion H; subst; eapply g_le_trans; [|apply g_le_set_cur]; auto with gle]
        | solve [le_helper H; exact H]
        | solve [le_helper H; eapply g_le_trans; [|exact H]; first [le_inst | auto with gle]] ].

Lemma step_mono P t g l g' l' es : step P t g l = Some (g', l', es) -> g_le g g'.
Proof.
  unfold step, with_inst. intros H.
  destruct (at_pc l) eqn:Epc.
  all: repeat match type of H with
       | context [match prog ?l with _ => _ end] => destruct (prog l)
       | context [match ?o with OCreate _ => _ | _ => _ end] => destruct o
       | context [match nth_error (handles ?l) ?k with _ => _ end] => destruct (nth_error (handles l) k) as [[? ?]|]
       | context [match cur ?g with _ => _ end] => destruct (cur g)
       | context [match get_inst ?g ?i with _ => _ end] => let E := fresh "E" in destruct (get_inst g i) eqn:E
       | context [if ?b then _ else _] => destruct b
       | context [match cur_kind ?l with _ => _ end] => destruct (cur_kind l)
       | context [match open_check ?a ?b ?c with _ => _ end] => destruct (open_check a b c)
       | context [match i_dy ?x with _ => _ end] => let E := fresh "Edy" in destruct (i_dy x) eqn:E
       | context [match i_st ?x with _ => _ end] => let E := fresh "Est" in destruct (i_st x) eqn:E
       | context [match filter ?f ?l with _ => _ end] => destruct (filter f l)
       | context [match r_resfail ?r with _ => _ end] => destruct (r_resfail r)
       end; try discriminate.
  all: try (le_finish H).
Qed.

(* ------------------------------------------------------------------------------------------ *)
(* 2. Who obtains a service: every successful call refers to a completely initialised instance  *)
(*    and carries the creator's settings; every instance has at most one successful creator.    *)
(* ------------------------------------------------------------------------------------------ *)
Definition final (g : gst) (j : nat) : Prop :=
  exists x, get_inst g j = Some x /\ i_dy x = DFinal.

(* a creator between create_locked and the final permission of the dynamic config *)
Definition creating (p : pc) : option nat :=
  match p with
  | CStChmod1 _ i | CStWrite _ i | CStChmod2 _ i | CRes _ i | CDyOpen _ i | CDyTrunc _ i | CDyFstat _ i
  | CDyInit _ i | CDyChmod _ i | CPanicRmStatic _ i | CFailRmStatic _ i _ => Some i
  | _ => None
  end.

Definition LInv (g : gst) (t : nat) (l : lst) : Prop :=
  match at_pc l with
  | OReg j _ | RIncr j _ => final g j
  | p => match creating p with
         | Some i => exists x, get_inst g i = Some x /\ i_owner x = t /\ i_dy x <> DFinal
         | None => True
         end
  end.

Definition plain_pc (p : pc) : Prop :=
  match p with OReg _ _ | RIncr _ _ => False | p => creating p = None end.

Lemma plain_LInv g t l : plain_pc (at_pc l) -> LInv g t l.
Proof. unfold plain_pc, LInv. destruct (at_pc l); cbn; intros H; try discriminate; auto; contradiction. Qed.

Definition ok_entry (e : nat * opkind * result) : Prop := match e with (_, _, ROk _ _) => True | _ => False end.

(* the helper results: no successful entry is logged, the instance table is untouched, the new pc is plain *)
Definition quiet (g g' : gst) (l' : lst) : Prop :=
  insts g' = insts g /\
  (exists lnew, glog g' = glog g ++ lnew /\ (length lnew <= 1)%nat /\ forall e, In e lnew -> ~ ok_entry e) /\
  plain_pc (at_pc l').

Lemma op_done_quiet t g l r hs nr es g' l' es' :
  op_done t g l r hs nr es = Some (g', l', es') -> ~ ok_entry (t, cur_kind l, r) -> quiet g g' l'.
Proof.
  unfold op_done, op_done_k. intros H N; inversion H; subst. split; [reflexivity|]. split; [|cbn; auto].
  eexists. split; [reflexivity|]. split; [cbn; lia|]. intros e [<-|[]]. exact N.
Qed.

Ltac quiet_plain := split; [reflexivity|split; [exists []; split; [cbn; now rewrite app_nil_r|split; [cbn; lia|intros ? []]]|cbn; auto]].

Lemma ooc_tail_quiet P t g l o es g' l' es' : ooc_tail P t g l o es = Some (g', l', es') -> quiet g g' l'.
Proof.
  unfold ooc_tail. destruct (Nat.leb _ _); intros H.
  - eapply op_done_quiet; eauto. destruct (Nat.ltb _ _); cbn; auto. destruct (last _ _) as [[? ?]|]; cbn; auto.
  - inversion H; subst. quiet_plain.
Qed.

Lemma call_fails_quiet P t g l k e es g' l' es' : call_fails P t g l k e es = Some (g', l', es') -> quiet g g' l'.
Proof.
  unfold call_fails. destruct (in_ooc l) as [o|]; [|intros H; eapply op_done_quiet; eauto; cbn; auto].
  destruct k; destruct e; intros H;
    try (eapply op_done_quiet; [eassumption|cbn; auto]; fail); try (eapply ooc_tail_quiet; eassumption).
  destruct (create_precheck _ _) in H; [eapply op_done_quiet; eauto; cbn; auto|inversion H; subst; quiet_plain].
Qed.

Lemma wait_retry_quiet P t g l es g' l' es' : wait_retry P t g l es = Some (g', l', es') -> quiet g g' l'.
Proof.
  unfold wait_retry. destruct (Nat.leb _ _); intros H; [eapply call_fails_quiet; eauto|inversion H; subst; quiet_plain].
Qed.

Lemma run_cont_quiet P t g l c es g' l' es' : run_cont P t g l c es = Some (g', l', es') -> quiet g g' l'.
Proof.
  unfold run_cont. destruct c; intros H; [eapply call_fails_quiet|eapply op_done_quiet|eapply wait_retry_quiet]; eauto.
Qed.

Lemma fail_with_tag_quiet P t g l own c es g' l' es' : fail_with_tag P t g l own c es = Some (g', l', es') -> quiet g g' l'.
Proof.
  unfold fail_with_tag. destruct own; intros H; [inversion H; subst; quiet_plain|eapply run_cont_quiet; eauto].
Qed.

Lemma avail_hangs_quiet P t g l es g' l' es' : avail_hangs P t g l es = Some (g', l', es') -> quiet g g' l'.
Proof.
  unfold avail_hangs. destruct (cur_kind l); intros H; try (eapply wait_retry_quiet; eassumption); eapply call_fails_quiet; eauto.
Qed.

Lemma avail_none_quiet P t g l es g' l' es' : avail_none P t g l es = Some (g', l', es') -> quiet g g' l'.
Proof.
  unfold avail_none. destruct (cur_kind l); intros H; try (eapply call_fails_quiet; eassumption); inversion H; subst; quiet_plain.
Qed.

Lemma start_call_quiet P t g l r k o g' l' es' : start_call P t g l r k o = Some (g', l', es') -> quiet g g' l'.
Proof.
  unfold start_call. destruct k; intros H; try (inversion H; subst; quiet_plain; fail).
  destruct (create_precheck _ _) in H; [eapply op_done_quiet; eauto; cbn; auto|inversion H; subst; quiet_plain].
Qed.

Lemma get_set_inst_same g j y x0 : get_inst g j = Some x0 -> get_inst (set_inst g j y) j = Some y.
Proof. unfold get_inst, set_inst; cbn [insts]. apply nth_error_upd_same. Qed.

Lemma get_set_inst_other g j y i : i <> j -> get_inst (set_inst g j y) i = get_inst g i.
Proof. intros H. unfold get_inst, set_inst; cbn [insts]. apply nth_error_upd_other. auto. Qed.

Lemma get_add_inst_old g y i x : get_inst g i = Some x -> get_inst (add_inst g y) i = Some x.
Proof.
  unfold get_inst, add_inst; cbn [insts]. intros H. rewrite nth_error_app1; auto. apply nth_error_Some. congruence.
Qed.

Lemma get_add_inst_new g y : get_inst (add_inst g y) (length (insts g)) = Some y.
Proof. unfold get_inst, add_inst; cbn [insts]. rewrite nth_error_app2; [|lia]. now rewrite Nat.sub_diag. Qed.

Lemma quiet_get g g' l' i : quiet g g' l' -> get_inst g' i = get_inst g i.
Proof. intros (E & _). unfold get_inst. now rewrite E. Qed.

(* what a step may do to an instance that is not final: only the creator's last step finalises it *)
Definition keeps_unfinal (g g' : gst) (l : lst) : Prop :=
  forall i x, get_inst g i = Some x -> i_dy x <> DFinal ->
    (exists own, at_pc l = CDyChmod own i) \/ (exists x', get_inst g' i = Some x' /\ i_owner x' = i_owner x /\ i_dy x' <> DFinal).

Lemma keeps_same g g' l : (forall i, get_inst g' i = get_inst g i) -> keeps_unfinal g g' l.
Proof. intros E i x H N. right. exists x. rewrite E. auto. Qed.

Lemma keeps_set_inst g j y x0 l :
  get_inst g j = Some x0 -> i_owner y = i_owner x0 -> (i_dy x0 <> DFinal -> i_dy y <> DFinal) ->
  keeps_unfinal g (set_inst g j y) l.
Proof.
  intros H O D i x Hi N. right. destruct (Nat.eq_dec i j) as [->|Hne].
  - exists y. rewrite (get_set_inst_same _ _ _ _ H). assert (x = x0) by congruence. subst. auto.
  - exists x. rewrite get_set_inst_other; auto.
Qed.

Lemma keeps_finalise g i y x0 l own :
  at_pc l = CDyChmod own i -> get_inst g i = Some x0 -> keeps_unfinal g (set_inst g i y) l.
Proof.
  intros Epc E i1 x Hi N. destruct (Nat.eq_dec i1 i) as [->|Hne]; [left; eauto|right].
  exists x. rewrite get_set_inst_other; auto.
Qed.

Lemma keeps_add_log g g0 l t k r : keeps_unfinal g g0 l -> keeps_unfinal g (add_log g0 t k r) l.
Proof. intros K i x H N. destruct (K i x H N) as [L|R]; [left; auto|right; exact R]. Qed.

Lemma keeps_trans_quiet g g0 g' l l' : keeps_unfinal g g0 l -> quiet g0 g' l' -> keeps_unfinal g g' l.
Proof.
  intros K Q i x H N. destruct (K i x H N) as [L|(x' & A & B)]; [left; auto|right].
  exists x'. rewrite (quiet_get _ _ _ _ Q). auto.
Qed.

Ltac quiet_of H :=
  first [ eapply call_fails_quiet in H | eapply wait_retry_quiet in H
        | eapply run_cont_quiet in H | eapply fail_with_tag_quiet in H | eapply avail_hangs_quiet in H | eapply avail_none_quiet in H
        | eapply start_call_quiet in H | eapply ooc_tail_quiet in H
        | (eapply op_done_quiet in H; [|cbn; tauto]) ].

Ltac step_cases H :=
  repeat match type of H with
       | context [match prog ?l with _ => _ end] => destruct (prog l)
       | context [match ?o with OCreate _ => _ | _ => _ end] => destruct o
       | context [match nth_error (handles ?l) ?k with _ => _ end] => destruct (nth_error (handles l) k) as [[? ?]|]
       | context [match cur ?g with _ => _ end] => destruct (cur g)
       | context [match get_inst ?g ?i with _ => _ end] => let E := fresh "E" in destruct (get_inst g i) eqn:E
       | context [if ?b then _ else _] => let Eb := fresh "Eb" in destruct b eqn:Eb
       | context [match cur_kind ?l with _ => _ end] => destruct (cur_kind l)
       | context [match open_check ?a ?b ?c with _ => _ end] => destruct (open_check a b c)
       | context [match i_dy ?x with _ => _ end] => let E := fresh "Edy" in destruct (i_dy x) eqn:E
       | context [match i_st ?x with _ => _ end] => let E := fresh "Est" in destruct (i_st x) eqn:E
       | context [match filter ?f ?l with _ => _ end] => destruct (filter f l)
       | context [match r_resfail ?r with _ => _ end] => destruct (r_resfail r)
       end; try discriminate.

Ltac keeps_inst :=
  match goal with
  | E : get_inst ?g ?j = Some ?x0 |- keeps_unfinal ?g (set_inst ?g ?j _) _ =>
    apply (keeps_set_inst g j _ x0); [exact E|reflexivity|
      unfold upd_st, upd_dy, upd_res, upd_reg; cbn;
      repeat match goal with Ed : i_dy _ = _ |- _ => rewrite Ed end; cbn; congruence]
  end.

Ltac keeps_basic :=
  first [ solve [apply keeps_same; intros; reflexivity]
        | solve [keeps_inst]
        | solve [apply keeps_same; intros; unfold get_inst; reflexivity] ].

Lemma step_keeps_unfinal P t g l g' l' es : step P t g l = Some (g', l', es) -> keeps_unfinal g g' l.
Proof.
  unfold step, with_inst. intros H.
  destruct (at_pc l) eqn:Epc.
  all: step_cases H.
  all: try (inversion H; subst; keeps_basic).
  all: try (quiet_of H; eapply keeps_trans_quiet; [|exact H]; keeps_basic).
  all: try (unfold call_succeeds, op_done_k in H; inversion H; subst; clear H).
  all: try (apply keeps_add_log; keeps_basic).
  (* CStOpen allocates a fresh instance *)
  all: try (intros i0 x Hi N; right; exists x; split; auto; unfold set_cur, get_inst; cbn [insts];
            apply (get_add_inst_old g _ i0 x Hi); fail).
  (* CDyChmod finalises its own instance *)
  all: try (apply keeps_add_log); eapply keeps_finalise; eauto.
Qed.

(* what a new successful entry looks like *)
Definition new_ok (g' : gst) (t : nat) (l : lst) (e : nat * opkind * result) : Prop :=
  (exists j c x', e = (t, KOpen, ROk j c) /\ get_inst g' j = Some x' /\ i_cfg x' = c /\ i_dy x' = DFinal) \/
  (exists i own c x', e = (t, KCreate, ROk i c) /\ at_pc l = CDyChmod own i /\ get_inst g' i = Some x' /\ i_cfg x' = c /\ i_dy x' = DFinal).

Definition new_entries (g g' : gst) (t : nat) (l : lst) : Prop :=
  exists lnew, glog g' = glog g ++ lnew /\ (length lnew <= 1)%nat /\ forall e, In e lnew -> ok_entry e -> new_ok g' t l e.

Lemma new_entries_none g g' t l : glog g' = glog g -> new_entries g g' t l.
Proof. intros E. exists []. rewrite app_nil_r. split; auto. split; [cbn; lia|intros ? []]. Qed.

Lemma new_entries_quiet g g0 g' t l l' : glog g0 = glog g -> quiet g0 g' l' -> new_entries g g' t l.
Proof.
  intros E (_ & (lnew & A & B & C) & _). exists lnew. rewrite <- E. split; auto. split; auto.
  intros e Hin Hok. exfalso. exact (C e Hin Hok).
Qed.

Lemma step_new_entries P t g l g' l' es :
  step P t g l = Some (g', l', es) -> LInv g t l -> new_entries g g' t l.
Proof.
  unfold step, with_inst. intros H HL.
  destruct (at_pc l) eqn:Epc.
  all: step_cases H.
  all: try (inversion H; subst; apply new_entries_none; reflexivity).
  all: try (quiet_of H; eapply new_entries_quiet; [|exact H]; reflexivity).
  all: unfold call_succeeds, op_done_k in H; inversion H; subst; clear H;
       eexists; (split; [cbn [glog add_log set_inst]; reflexivity|]); (split; [cbn; lia|]); intros e [<-|[]] _.
  (* open-side successes (OReg with a registered node, RIncr): the instance is final by LInv *)
  all: try (left; unfold LInv in HL; rewrite Epc in HL; destruct HL as (x & Hx & Hd);
            match goal with E : get_inst _ ?j = Some ?i |- _ => assert (x = i) by congruence; subst;
              eexists j, (i_cfg i), _; split; [reflexivity|]; split;
              [first [exact E | unfold get_inst, add_log; cbn [insts]; apply (get_set_inst_same _ j _ i E)]|cbn; auto] end; fail).
  (* CDyChmod *)
  all: right; match goal with E : get_inst _ ?i = Some ?i0, Epc : at_pc _ = CDyChmod ?own ?i |- _ =>
         eexists i, own, (i_cfg i0), _; split; [reflexivity|]; split; [exact Epc|];
         split; [unfold get_inst, add_log; cbn [insts]; apply (get_set_inst_same _ i _ i0 E)|]; cbn; auto end.
Qed.

Lemma step_LInv_own P t g l g' l' es :
  step P t g l = Some (g', l', es) -> LInv g t l -> LInv g' t l'.
Proof.
  unfold step, with_inst. intros H HL.
  destruct (at_pc l) eqn:Epc.
  all: step_cases H.
  all: try (quiet_of H; destruct H as (_ & _ & Hp); apply plain_LInv; exact Hp).
  all: try (unfold call_succeeds, op_done_k in H; inversion H; subst; apply plain_LInv; cbn; auto; fail).
  all: try (inversion H; subst; apply plain_LInv; cbn; auto; fail).
  all: inversion H; subst; clear H; unfold LInv in *; rewrite Epc in HL; cbn [at_pc set_pc creating] in *.
  all: try (destruct HL as (x & Hx & Ho & Hd); assert (x = i0) by congruence; subst;
            eexists; split; [eapply get_set_inst_same; eauto|]; unfold upd_st, upd_dy, upd_res, upd_reg; cbn;
            repeat match goal with Ed : i_dy _ = _ |- _ => rewrite Ed end; split; auto; congruence).
  all: try (destruct HL as (x & Hx & Ho & Hd); exists x; auto; fail).
  (* ODyFstatPerm saw the final permissions *)
  all: try (match goal with E : get_inst _ ?j = Some ?i |- final _ ?j => exists i; auto end; fail).
  (* OReg populated its cell: the instance stays final *)
  all: try (destruct HL as (x & Hx & Hd); rewrite E in Hx; inversion Hx; subst x;
            eexists; split; [eapply get_set_inst_same; exact E|cbn; exact Hd]; fail).
  (* CStOpen *)
  all: eexists; split; [unfold set_cur, get_inst; cbn [insts]; apply get_add_inst_new|]; cbn; split; auto; discriminate.
Qed.

Lemma final_mono g g' j : g_le g g' -> final g j -> final g' j.
Proof.
  intros (A & _) (x & Hx & Hd). destruct (A _ _ Hx) as (x' & Hx' & (_ & _ & _ & R)).
  exists x'. split; auto. rewrite Hd in R. destruct (i_dy x'); cbn in R; auto; lia.
Qed.

Lemma LInv_other P t g l g' l' es t' l0 :
  step P t g l = Some (g', l', es) -> LInv g t l -> t' <> t -> LInv g t' l0 -> LInv g' t' l0.
Proof.
  intros H HL Hne H0. pose proof (step_mono _ _ _ _ _ _ _ H) as Hle. pose proof (step_keeps_unfinal _ _ _ _ _ _ _ H) as Hk.
  unfold LInv in *. destruct (at_pc l0) eqn:E0; cbn [creating] in *; auto.
  all: try (eapply final_mono; eauto; fail).
  all: destruct H0 as (x & Hx & Ho & Hd);
       destruct (Hk _ _ Hx Hd) as [(own' & Ec)|(x' & A & B & C)];
       [rewrite Ec in HL; cbn [creating] in HL; destruct HL as (y & Hy & Hoy & _); exfalso; congruence
       |exists x'; repeat split; auto; congruence].
Qed.

(* ---- the invariant ---- *)
Definition is_create_of (j : nat) (e : nat * opkind * result) : bool :=
  match e with (_, KCreate, ROk i _) => Nat.eqb i j | _ => false end.
Definition ncreates (j : nat) (log : list (nat * opkind * result)) : nat := length (filter (is_create_of j) log).

Definition GInv (g : gst) : Prop :=
  (forall t k j c, In (t, k, ROk j c) (glog g) -> exists x, get_inst g j = Some x /\ i_cfg x = c /\ i_dy x = DFinal) /\
  (forall j, (ncreates j (glog g) <= 1)%nat).

Definition Inv (c : cfg gst lst) : Prop := GInv (fst c) /\ forall t, LInv (fst c) t (snd c t).

Lemma inv_init progs : Inv (init progs).
Proof.
  split; [split|].
  - intros t k j c [].
  - intros j. cbn. lia.
  - intros t. apply plain_LInv. cbn. auto.
Qed.

Lemma ncreates_in j log : (1 <= ncreates j log)%nat -> exists t c, In (t, KCreate, ROk j c) log.
Proof.
  unfold ncreates. induction log as [|e log IH]; cbn; [lia|].
  destruct (is_create_of j e) eqn:E.
  - intros _. destruct e as [[t k] r]. destruct k; try discriminate. destruct r; try discriminate.
    cbn in E. apply Nat.eqb_eq in E. subst. eauto.
  - intros H. destruct (IH H) as (t & c & Hin). eauto.
Qed.

Theorem step_inv P t c c' e : Inv c -> step1 (step P) t c = Some (c', e) -> Inv c'.
Proof.
  destruct c as [g ls]. intros [[HG1 HG2] HL] Hs. unfold step1 in Hs. cbn [fst snd] in *.
  destruct (step P t g (ls t)) as [[[g' l'] e']|] eqn:Est; [|discriminate].
  inversion Hs; subst c' e; clear Hs. unfold Inv. cbn [fst snd].
  pose proof (step_mono _ _ _ _ _ _ _ Est) as Hle.
  destruct (step_new_entries _ _ _ _ _ _ _ Est (HL t)) as (lnew & El & Hlen & Hnew).
  split; [split|].
  - intros t0 k j c Hin. rewrite El in Hin. apply in_app_or in Hin. destruct Hin as [Hold|Hin].
    + destruct (HG1 _ _ _ _ Hold) as (x & Hx & Hc & Hd). destruct Hle as (Hle & _).
      destruct (Hle _ _ Hx) as (x' & Hx' & (Ec & _ & _ & R)). exists x'. repeat split; auto; try congruence.
      rewrite Hd in R. destruct (i_dy x'); cbn in R; auto; lia.
    + destruct (Hnew _ Hin I) as [(j' & c' & x' & Ee & A & B & C)|(i & own & c' & x' & Ee & _ & A & B & C)];
        inversion Ee; subst; eauto.
  - intros j. rewrite El. unfold ncreates. rewrite filter_app, app_length. fold (ncreates j (glog g)).
    destruct lnew as [|e0 [|? ?]]; cbn [filter length]; [specialize (HG2 j); lia| |cbn in Hlen; lia].
    destruct (is_create_of j e0) eqn:Ec; cbn [length]; [|specialize (HG2 j); lia].
    (* the new entry is a successful create of j: j was not final before, hence never created before *)
    assert (Hoke : ok_entry e0) by (destruct e0 as [[? k] r]; destruct k; try discriminate; destruct r; try discriminate; exact I).
    destruct (Nat.eq_dec (ncreates j (glog g)) 0) as [Ez|Enz]; [lia|exfalso].
    destruct (ncreates_in j (glog g)) as (t1 & c1 & Hin1); [lia|].
    destruct (HG1 _ _ _ _ Hin1) as (x & Hx & _ & Hd).
    destruct (Hnew e0 (or_introl eq_refl) Hoke) as [(j' & c' & x' & Ee & _)|(i & own & c' & x' & Ee & Epc & _)].
    + subst e0. discriminate.
    + subst e0. cbn in Ec. apply Nat.eqb_eq in Ec. subst i.
      specialize (HL t). unfold LInv in HL. rewrite Epc in HL. cbn in HL. destruct HL as (y & Hy & _ & Hny). congruence.
  - intros t0. destruct (Nat.eq_dec t0 t) as [->|Hne].
    + rewrite upd_l_same. eapply step_LInv_own; eauto.
    + rewrite upd_l_other by auto. eapply LInv_other; eauto.
Qed.

Theorem inv_reachable_svc P progs c : reachable (step P) (init progs) c -> Inv c.
Proof.
  apply (inv_reachable gst lst ev (step P) Inv).
  - apply inv_init.
  - intros t c0 c' e HI Hs. eapply step_inv; eauto.
Qed.

(* ---- consequences for every reachable state ---- *)
Theorem open_complete P progs g ls t k j c :
  reachable (step P) (init progs) (g, ls) -> In (t, k, ROk j c) (glog g) ->
  exists x, get_inst g j = Some x /\ i_cfg x = c /\ i_dy x = DFinal.
Proof. intros Hr Hin. destruct (inv_reachable_svc _ _ _ Hr) as [[A _] _]. cbn [fst] in A. eauto. Qed.

Theorem ok_same_settings P progs g ls t1 k1 t2 k2 j c1 c2 :
  reachable (step P) (init progs) (g, ls) ->
  In (t1, k1, ROk j c1) (glog g) -> In (t2, k2, ROk j c2) (glog g) -> c1 = c2.
Proof.
  intros Hr H1 H2. destruct (open_complete _ _ _ _ _ _ _ _ Hr H1) as (x & Hx & <- & _).
  destruct (open_complete _ _ _ _ _ _ _ _ Hr H2) as (y & Hy & <- & _). congruence.
Qed.

Theorem single_creator P progs g ls j :
  reachable (step P) (init progs) (g, ls) -> (ncreates j (glog g) <= 1)%nat.
Proof. intros Hr. destruct (inv_reachable_svc _ _ _ Hr) as [[_ B] _]. cbn [fst] in B. auto. Qed.

(* a creator that is between create_locked and the final permissions owns an instance nobody has obtained *)
Theorem mid_creation_not_obtained P progs g ls t i t0 k c :
  reachable (step P) (init progs) (g, ls) -> creating (at_pc (ls t)) = Some i -> ~ In (t0, k, ROk i c) (glog g).
Proof.
  intros Hr Hc Hin. destruct (inv_reachable_svc _ _ _ Hr) as [[A _] B]. cbn [fst snd] in *.
  destruct (A _ _ _ _ Hin) as (x & Hx & _ & Hd). specialize (B t). unfold LInv in B.
  destruct (at_pc (ls t)); cbn [creating] in *; try discriminate; inversion Hc; subst;
    destruct B as (y & Hy & _ & Hn); congruence.
Qed.

(* ---- verification failure touches nothing (step level) ---- *)
Definition fs_part (g : gst) := (insts g, cur g, tags g).

Definition avail_pc (p : pc) : Prop :=
  match p with PAccess | POpen1 | PFstat1 _ | POpen2 | PFstat2 _ _ | PRead _ => True | _ => False end.

Lemma quiet_fs g g' l' : quiet g g' l' -> insts g' = insts g.
Proof. intros (A & _). exact A. Qed.

Lemma helper_fs_call_fails P t g l k e es g' l' es' : call_fails P t g l k e es = Some (g', l', es') -> fs_part g' = fs_part g.
Proof.
  unfold call_fails, ooc_tail, op_done, op_done_k, fs_part.
  destruct (in_ooc l); [|intros H; inversion H; subst; reflexivity].
  destruct k; destruct e; try destruct (create_precheck _ _); try destruct (Nat.leb _ _); intros H; inversion H; subst; reflexivity.
Qed.

Lemma helper_fs_wait_retry P t g l es g' l' es' : wait_retry P t g l es = Some (g', l', es') -> fs_part g' = fs_part g.
Proof.
  unfold wait_retry. destruct (Nat.leb _ _); intros H; [eapply helper_fs_call_fails; eauto|inversion H; subst; reflexivity].
Qed.

(* is_service_available and verify_service_configuration only look *)
Theorem avail_phase_reads_only P t g l g' l' es :
  step P t g l = Some (g', l', es) -> avail_pc (at_pc l) -> fs_part g' = fs_part g.
Proof.
  unfold step, with_inst, avail_hangs, avail_none. intros H Ha.
  destruct (at_pc l) eqn:Epc; cbn in Ha; try contradiction.
  all: step_cases H.
  all: try (inversion H; subst; reflexivity).
  all: try (eapply helper_fs_call_fails; eassumption).
  all: try (eapply helper_fs_wait_retry; eassumption).
Qed.

(* ... and an open whose requirements are not met returns the error of the first failing requirement there *)
Theorem incompatible_open_returns P t g l j x e :
  at_pc l = PRead j -> get_inst g j = Some x -> cur_kind l = KOpen -> in_ooc l = None ->
  open_check (i_cfg x) (the_req l) KOpen = Some e ->
  exists g' l', step P t g l = Some (g', l', [ECall CRead BStatic XOk; ERet (RErr SOpen e)]) /\
    fs_part g' = fs_part g /\ rets l' = rets l ++ [RErr SOpen e] /\ handles l' = handles l /\ at_pc l' = Idle.
Proof.
  intros Epc Ex Ek Eo Ec. unfold step, with_inst. rewrite Epc, Ex, Ek. unfold public_kind. rewrite Eo, Ek, Ec.
  unfold call_fails. rewrite Eo. unfold op_done, op_done_k. rewrite Ek. eexists _, _. split; [reflexivity|]. cbn. auto.
Qed.

(* ---- marked for destruction: a locked registry refuses every later registration ---- *)
Theorem locked_registry_refuses P t g l j own x :
  at_pc l = OReg j own -> get_inst g j = Some x -> nreg l = O -> i_locked x = true -> in_ooc l = None ->
  exists g' l' es, step P t g l = Some (g', l', es) /\ insts g' = insts g /\
    (own = false -> rets l' = rets l ++ [RErr SOpen IsMarkedForDestruction]) /\
    (own = true -> at_pc l' = PRmTag (KRet KOpen IsMarkedForDestruction)).
Proof.
  intros Epc Ex En El Eo. unfold step, with_inst. rewrite Epc, Ex, En, El. cbn [Nat.ltb Nat.leb].
  unfold fail_with_tag. destruct own.
  - eexists _, _, _. split; [reflexivity|]. cbn. split; auto. split; [discriminate|auto].
  - unfold run_cont, call_fails. rewrite Eo. unfold op_done, op_done_k. eexists _, _, _. split; [reflexivity|]. cbn. split; auto.
    split; auto. discriminate.
Qed.

(* a state produced by running a schedule is reachable (no computation involved) *)
Lemma reachable_run P (s : list nat) (c0 : cfg gst lst) : reachable (step P) c0 (fst (run (step P) s c0)).
Proof. exists s. reflexivity. Qed.

Lemma reachable_run_pair P (s : list nat) (c0 : cfg gst lst) :
  reachable (step P) c0 (fst (fst (run (step P) s c0)), snd (fst (run (step P) s c0))).
Proof. rewrite <- surjective_pairing. apply reachable_run. Qed.
