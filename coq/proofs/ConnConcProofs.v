(* Invariants of the concurrent connection model (model/ConnConc.v): capacity (release never
   fails for lack of space), conservation of offsets, FIFO order; witnesses. *)
From V Require Import model.Base model.Conc model.Events model.ConnConc proofs.ListLemmas.
From Coq Require Import ZifyBool ZifyNat ZifyN FinFun Permutation.
Open Scope N_scope.

(* ------------------------------------------------------------------------------------------
   Part A: capacity.  The inductive invariant behind "release never fails":
       |sub| + |held| + |comp| + [sender between "reclaim saw the completion queue empty" and
                                   the publication of its push]  <=  B + M + 1
   ------------------------------------------------------------------------------------------ *)
Definition b2n (b : bool) : N := if b then 1 else 0.

(* the sender has observed an empty completion queue and has not yet published the offset it
   is about to send *)
Definition phaseA (c : cpc) : bool :=
  match c with
  | SFullA _ | SFullB _ _ | SFullC _ _ _ | SFullD _ _ _ | SInsert _
  | SPushLoadWp _ | SPushLoadRp _ _ | SPushStore _ _ _ => true
  | _ => false
  end.
Definition in_cas (c : cpc) : bool := match c with SPushCas _ => true | _ => false end.
Definition is_incr (c : cpc) : bool := match c with RCtrIncr _ => true | _ => false end.
Definition is_decr (c : cpc) : bool := match c with RCtrDecr => true | _ => false end.
Definition popping (c : cpc) : bool :=
  match c with RPopLoadRp | RPopLoadWp _ | RPopCas _ | RPopRecheck _ => true | _ => false end.
Definition spc (c : cpc) : bool :=
  match c with
  | Idle | SRecLoadRp _ | SRecLoadWp _ _ | SRecStoreRp _ _ | SRecRemove _ _ | SFullA _ | SFullB _ _ | SFullC _ _ _
  | SFullD _ _ _ | SInsert _ | SPushLoadWp _ | SPushLoadRp _ _ | SPushStore _ _ _ | SPushCas _ | SEvictRemove _ => true
  | _ => false
  end.
Definition rpc (c : cpc) : bool :=
  match c with
  | Idle | RCtrCheck | RCtrExceeded | RPopLoadRp | RPopLoadWp _ | RPopCas _ | RPopRecheck _ | RCtrIncr _
  | RPushLoadWp _ _ | RPushLoadRp _ _ _ | RPushStore _ _ _ | RCtrDecr => true
  | _ => false
  end.

(* what the sender knows at each of its program points (stale cursor copies) *)
Definition SLoc (g : cgst) (c : cpc) : Prop :=
  match c with
  | SRecLoadWp _ r => r = comp_rp g
  | SRecStoreRp _ r => r = comp_rp g /\ 0 < lenN (comp g)
  | SFullB _ w | SFullC _ w _ | SFullD _ w _ | SPushLoadRp _ w => w = sub_wp g
  | SPushStore _ w r => w = sub_wp g /\ r <= sub_rp g /\ w <= r + cB g
  | SPushCas r => sub_wp g = r + cB g + 1 /\ r <= sub_rp g
  | _ => True
  end.

(* what the receiver knows *)
Definition RLoc (g : cgst) (l : clst) : Prop :=
  match pc l with
  | RPopLoadWp r | RPopRecheck r => r <= sub_wp g
  | RPopCas r => r < sub_wp g
  | RPushLoadWp v i => nth_error (held l) i = Some v
  | RPushLoadRp v i w => nth_error (held l) i = Some v /\ w = comp_wp g
  | RPushStore v i w => nth_error (held l) i = Some v /\ w = comp_wp g /\ lenN (comp g) < cCq g
  | _ => True
  end.

(* borrow counter = number of held offsets, lagging by the one access that updates it *)
Definition CtrInv (g : cgst) (l : clst) : Prop :=
  ctr g + b2n (is_incr (pc l)) = lenN (held l) + b2n (is_decr (pc l)) /\
  lenN (held l) + b2n (popping (pc l)) <= cM g.

Definition GI (g : cgst) (l0 l1 : clst) : Prop :=
  lenN (sub g) <= cB g + b2n (in_cas (pc l0)) /\
  lenN (sub g) + lenN (held l1) + lenN (comp g) + b2n (phaseA (pc l0)) <= cB g + cM g + 1 /\
  lenN (comp g) <= cCq g /\
  (cB g + cM g + 1 <= cCq g -> rel_failed g = false).

Definition InvA (g : cgst) (l0 l1 : clst) : Prop :=
  spc (pc l0) = true /\ rpc (pc l1) = true /\ SLoc g (pc l0) /\ RLoc g l1 /\ CtrInv g l1 /\ GI g l0 l1.

Lemma lenN_cons {A} (x : A) (l : list A) : lenN (x :: l) = lenN l + 1.
Proof. unfold lenN; cbn [length]; lia. Qed.
Lemma lenN_nil {A} : lenN (@nil A) = 0.
Proof. reflexivity. Qed.
Lemma lenN_snoc {A} (l : list A) (x : A) : lenN (l ++ [x]) = lenN l + 1.
Proof. rewrite lenN_app. reflexivity. Qed.

Lemma remove_nth_len {A} (l : list A) i v : nth_error l i = Some v -> lenN (remove_nth i l) + 1 = lenN l.
Proof.
  unfold remove_nth, lenN. revert i; induction l as [|h t IH]; intros [|i] H; cbn in *; try discriminate.
  - lia.
  - specialize (IH i H). rewrite app_length in *. cbn [length] in *. lia.
Qed.

Lemma nth_error_len {A} (l : list A) i v : nth_error l i = Some v -> 0 < lenN l.
Proof. unfold lenN. destruct l; destruct i; cbn; intros; try discriminate; lia. Qed.

(* frame: what a step of the receiver must leave alone for SLoc, and vice versa *)
Lemma SLoc_frame g g' c :
  SLoc g c -> comp_rp g' = comp_rp g -> lenN (comp g) <= lenN (comp g') ->
  sub_wp g' = sub_wp g -> sub_rp g <= sub_rp g' -> cB g' = cB g -> SLoc g' c.
Proof.
  intros H E1 E2 E3 E4 E5. destruct c; cbn [SLoc] in *; try exact I; rewrite ?E1, ?E3, ?E5; intuition lia.
Qed.

Lemma RLoc_frame g g' l :
  RLoc g l -> sub_wp g <= sub_wp g' -> comp_wp g' = comp_wp g -> lenN (comp g') <= lenN (comp g) ->
  cCq g' = cCq g -> RLoc g' l.
Proof.
  intros H E1 E2 E3 E4. unfold RLoc in *. destruct (pc l); try exact I; rewrite ?E2, ?E4; intuition lia.
Qed.

Ltac fields := cbn [cB cM cCq covf sub sub_rp comp comp_rp used ctr pool0 sent taken released reclaimed rel_failed corrupted
                    g_sub g_comp g_used g_ctr g_relfail prog pc free held set_l at_pc] in *.

Ltac lens := rewrite ?lenN_snoc, ?lenN_cons, ?lenN_nil in *.

Ltac split_inv := unfold InvA; fields; split; [|split; [|split; [|split; [|split]]]].

(* closes the six components of InvA after a step; HR / HC: the receiver-side (resp. sender-side)
   components of the other thread, transported by the frame lemmas *)
Ltac arith := unfold sub_wp, comp_wp in *; fields; lens; try lia.
Ltac fin_s HR HC :=
  split_inv;
  [ try reflexivity
  | assumption
  | cbn [SLoc]; try exact I; arith; try (intuition lia)
  | first [ exact HR | eapply RLoc_frame; [exact HR|..]; arith ]
  | unfold CtrInv in *; fields; exact HC
  | unfold GI; fields; cbn [in_cas phaseA b2n]; arith; repeat split; try assumption; try lia ].

Lemma sender_invA g l0 l1 g' l0' es :
  sender_step g l0 = Some (g', l0', es) -> InvA g l0 l1 -> InvA g' l0' l1.
Proof.
  intros Hs (Hs0 & Hr1 & HS & HR & HC & HG1 & HG2 & HG3 & HG4).
  unfold sender_step in Hs.
  destruct (pc l0) eqn:Epc; try discriminate; cbn [SLoc in_cas phaseA b2n] in *.
  - (* Idle *)
    destruct (prog l0) as [|[| | |i] p]; try discriminate; inversion Hs; subst; clear Hs; fin_s HR HC.
  - (* SRecLoadRp *) inversion Hs; subst; clear Hs; fin_s HR HC.
  - (* SRecLoadWp *)
    destruct (N.eqb r (comp_wp g)) eqn:E; inversion Hs; subst; clear Hs.
    + assert (Hc0 : lenN (comp g') = 0) by (unfold comp_wp in E; lia).
      pose proof HC as (HC1 & HC2).
      destruct m.
      * unfold start_send. destruct (free l0) as [|v f]; [|destruct (covf g')]; fin_s HR HC.
      * fin_s HR HC.
    + assert (Hc0 : lenN (comp g') <> 0) by (unfold comp_wp in E; lia). fin_s HR HC.
  - (* SRecStoreRp *)
    destruct (comp g) as [|v c'] eqn:Ec; try discriminate. inversion Hs; subst; clear Hs.
    destruct HS as (-> & Hpos). fin_s HR HC; rewrite ?Ec in *; lens; lia.
  - (* SRecRemove *)
    destruct (memN v (used g)); inversion Hs; subst; clear Hs; fin_s HR HC; destruct m; cbn [spc in_cas phaseA b2n]; auto; lia.
  - (* SFullA *) inversion Hs; subst; clear Hs; fin_s HR HC.
  - (* SFullB *) inversion Hs; subst; clear Hs; fin_s HR HC.
  - (* SFullC *)
    destruct (N.eqb w (sub_wp g)) eqn:E; inversion Hs; subst; clear Hs; fin_s HR HC.
  - (* SFullD *)
    destruct (N.eqb r (sub_rp g)); [destruct (N.eqb w (r + cB g))|]; inversion Hs; subst; clear Hs; fin_s HR HC.
  - (* SInsert *) inversion Hs; subst; clear Hs; fin_s HR HC.
  - (* SPushLoadWp *) inversion Hs; subst; clear Hs; fin_s HR HC.
  - (* SPushLoadRp *) inversion Hs; subst; clear Hs; fin_s HR HC.
  - (* SPushStore *)
    destruct HS as (Hw & Hr & Hwr).
    destruct (N.eqb w (r + cB g)) eqn:E; inversion Hs; subst; clear Hs; fin_s HR HC.
  - (* SPushCas *)
    destruct HS as (Hw & Hr).
    destruct (N.eqb (sub_rp g) r) eqn:E.
    + destruct (sub g) as [|x s'] eqn:Es; try discriminate. inversion Hs; subst; clear Hs.
      fin_s HR HC; rewrite ?Es in *; lens; lia.
    + inversion Hs; subst; clear Hs. fin_s HR HC.
  - (* SEvictRemove *)
    destruct (memN x (used g)); inversion Hs; subst; clear Hs; fin_s HR HC.
Qed.

Ltac fin_r HS :=
  split_inv;
  [ assumption
  | try reflexivity
  | first [ exact HS | eapply SLoc_frame; [exact HS|..]; arith ]
  | unfold RLoc; fields; try exact I; arith; try (intuition lia)
  | unfold CtrInv in *; fields; cbn [is_incr is_decr popping b2n] in *; arith
  | unfold GI; fields; cbn [in_cas phaseA b2n]; arith; repeat split; try assumption; try lia ].

Lemma receiver_invA g l0 l1 g' l1' es :
  receiver_step g l1 = Some (g', l1', es) -> InvA g l0 l1 -> InvA g' l0 l1'.
Proof.
  intros Hs (Hs0 & Hr1 & HS & HR & (HC1 & HC2) & HG1 & HG2 & HG3 & HG4).
  unfold receiver_step in Hs. unfold RLoc in HR.
  destruct (pc l1) eqn:Epc; try discriminate; cbn [is_incr is_decr popping b2n] in *.
  - (* Idle *)
    destruct (prog l1) as [|[| | |i] p]; try discriminate.
    + inversion Hs; subst; clear Hs; fin_r HS.
    + inversion Hs; subst; clear Hs; fin_r HS.
    + inversion Hs; subst; clear Hs; fin_r HS.
    + destruct (nth_error (held l1) i) as [v|] eqn:En; inversion Hs; subst; clear Hs; fin_r HS.
  - (* RCtrCheck *)
    destruct (N.leb (cM g) (ctr g)) eqn:E; inversion Hs; subst; clear Hs; fin_r HS.
  - (* RCtrExceeded *) inversion Hs; subst; clear Hs; fin_r HS.
  - (* RPopLoadRp *) inversion Hs; subst; clear Hs; fin_r HS.
  - (* RPopLoadWp *)
    destruct (N.eqb r (sub_wp g)) eqn:E; inversion Hs; subst; clear Hs; fin_r HS.
  - (* RPopCas *)
    destruct (N.eqb (sub_rp g) r) eqn:E.
    + destruct (sub g) as [|v s'] eqn:Es; try discriminate. inversion Hs; subst; clear Hs.
      fin_r HS; rewrite ?Es in *; lens; try lia.
    + inversion Hs; subst; clear Hs; fin_r HS.
  - (* RPopRecheck *)
    destruct (N.eqb r (sub_wp g)) eqn:E; inversion Hs; subst; clear Hs; fin_r HS.
  - (* RCtrIncr *) inversion Hs; subst; clear Hs; fin_r HS.
  - (* RPushLoadWp *) inversion Hs; subst; clear Hs; fin_r HS.
  - (* RPushLoadRp *)
    destruct HR as (Hn & Hw). pose proof (nth_error_len _ _ _ Hn) as Hpos.
    destruct (N.eqb w (comp_rp g + cCq g)) eqn:E; inversion Hs; subst; clear Hs; fin_r HS.
  - (* RPushStore *)
    destruct HR as (Hn & Hw & Hlt). pose proof (remove_nth_len _ _ _ Hn) as Hrm.
    inversion Hs; subst; clear Hs; fin_r HS.
  - (* RCtrDecr *)
    destruct (N.eqb (ctr g) 0) eqn:E; try discriminate. inversion Hs; subst; clear Hs; fin_r HS.
Qed.

Definition InvA_cfg (c : cfg cgst clst) : Prop := InvA (fst c) (snd c 0%nat) (snd c 1%nat).

Lemma invA_init b m cq ovf k ps pr : InvA_cfg (init b m cq ovf k ps pr).
Proof.
  unfold InvA_cfg, init, InvA, SLoc, RLoc, CtrInv, GI, g_init, l_init; cbn.
  repeat split; auto; lia.
Qed.

Lemma invA_step t c c' e : InvA_cfg c -> step1 step t c = Some (c', e) -> InvA_cfg c'.
Proof.
  destruct c as [g ls]. unfold InvA_cfg, step1. cbn [fst snd]. intros HI Hs.
  destruct (step t g (ls t)) as [[[g' l'] e']|] eqn:Est; [|discriminate].
  inversion Hs; subst; clear Hs. cbn [fst snd].
  destruct t as [|[|t]]; cbn [step] in Est.
  - rewrite upd_l_same, upd_l_other by discriminate. eapply sender_invA; eauto.
  - rewrite upd_l_same, upd_l_other by discriminate. eapply receiver_invA; eauto.
  - discriminate.
Qed.

Theorem invA_reachable b m cq ovf k ps pr c :
  reachable step (init b m cq ovf k ps pr) c -> InvA_cfg c.
Proof. apply inv_reachable; [apply invA_init | intros; eapply invA_step; eauto]. Qed.

(* the parameters never change *)
Definition params (g : cgst) := (cB g, cM g, cCq g, covf g, pool0 g).
Lemma params_step t g l g' l' e : step t g l = Some (g', l', e) -> params g' = params g.
Proof.
  destruct t as [|[|t]]; cbn [step]; [unfold sender_step|unfold receiver_step|discriminate];
    destruct (pc l); try discriminate; intros H;
    repeat match type of H with
           | context [match ?x with _ => _ end] => destruct x; try discriminate
           end; inversion H; subst; reflexivity.
Qed.
Lemma params_reachable b m cq ovf k ps pr c :
  reachable step (init b m cq ovf k ps pr) c -> params (fst c) = (b, m, cq, ovf, offsets k).
Proof.
  apply (inv_reachable _ _ _ step (fun c => params (fst c) = (b, m, cq, ovf, offsets k))); [reflexivity|].
  intros t [g ls] c' e H Hs. unfold step1 in Hs. cbn [fst snd] in *.
  destruct (step t g (ls t)) as [[[g' l'] e']|] eqn:Est; [|discriminate].
  inversion Hs; subst; cbn [fst]. rewrite (params_step _ _ _ _ _ _ Est). exact H.
Qed.

(* ---- the statements of props/C03conn.v about capacity ---- *)
Theorem conn_release_never_full b m cq ovf k ps pr g ls :
  b + m + 1 <= cq -> reachable step (init b m cq ovf k ps pr) (g, ls) -> rel_failed g = false.
Proof.
  intros Hcq Hr. pose proof (invA_reachable _ _ _ _ _ _ _ _ Hr) as (_ & _ & _ & _ & _ & _ & _ & _ & H).
  pose proof (params_reachable _ _ _ _ _ _ _ _ Hr) as Hp. cbn [fst snd] in *. unfold params in Hp. inversion Hp; subst.
  apply H. exact Hcq.
Qed.

Theorem conn_capacity b m cq ovf k ps pr g ls :
  reachable step (init b m cq ovf k ps pr) (g, ls) ->
  lenN (sub g) <= b + b2n (in_cas (pc (ls 0%nat))) /\
  lenN (held (ls 1%nat)) <= m /\
  lenN (comp g) <= cq /\
  lenN (sub g) + lenN (held (ls 1%nat)) + lenN (comp g) + b2n (phaseA (pc (ls 0%nat))) <= b + m + 1 /\
  ctr g + b2n (is_incr (pc (ls 1%nat))) = lenN (held (ls 1%nat)) + b2n (is_decr (pc (ls 1%nat))).
Proof.
  intros Hr. pose proof (invA_reachable _ _ _ _ _ _ _ _ Hr) as (_ & _ & _ & _ & (C1 & C2) & G1 & G2 & G3 & _).
  pose proof (params_reachable _ _ _ _ _ _ _ _ Hr) as Hp. cbn [fst snd] in *. unfold params in Hp. inversion Hp; subst.
  repeat split; auto. destruct (popping (pc (ls 1%nat))); cbn [b2n] in C2; lia.
Qed.

(* no thread ever stops inside an operation: the `None` branches of the model (pop of an empty
   list after the emptiness check, borrow-counter underflow) are unreachable *)
Theorem conn_progress b m cq ovf k ps pr g ls :
  reachable step (init b m cq ovf k ps pr) (g, ls) ->
  (pc (ls 0%nat) <> Idle -> step 0 g (ls 0%nat) <> None) /\
  (pc (ls 1%nat) <> Idle -> step 1 g (ls 1%nat) <> None).
Proof.
  intros Hr. pose proof (invA_reachable _ _ _ _ _ _ _ _ Hr) as (Hs & Hrp & HS & HR & (C1 & C2) & G1 & G2 & G3 & _).
  cbn [fst snd step] in *. unfold RLoc in HR. split; intros Hne.
  - unfold sender_step. destruct (pc (ls 0%nat)); try discriminate; try congruence; cbn [SLoc] in HS.
    + destruct (N.eqb r (comp_wp g)); discriminate.
    + destruct HS as (_ & Hpos). destruct (comp g); [unfold lenN in Hpos; cbn in Hpos; lia|discriminate].
    + destruct (memN v (used g)); discriminate.
    + destruct (N.eqb r (sub_rp g)); [destruct (N.eqb w (r + cB g))|]; discriminate.
    + destruct (N.eqb w (r + cB g)); discriminate.
    + destruct HS as (Hw & Hle). destruct (N.eqb (sub_rp g) r) eqn:E; [|discriminate].
      destruct (sub g) eqn:Es; [|discriminate]. unfold sub_wp in Hw. rewrite Es in Hw. unfold lenN in Hw; cbn in Hw. lia.
    + destruct (memN x (used g)); discriminate.
  - unfold receiver_step. destruct (pc (ls 1%nat)); try discriminate; try congruence; cbn [is_incr is_decr b2n] in *.
    + destruct (N.leb (cM g) (ctr g)); discriminate.
    + destruct (N.eqb r (sub_wp g)); discriminate.
    + destruct (N.eqb (sub_rp g) r) eqn:E; [|discriminate].
      destruct (sub g) eqn:Es; [|discriminate]. unfold sub_wp in HR. rewrite Es in HR. unfold lenN in HR; cbn in HR. lia.
    + destruct (N.eqb r (sub_wp g)); discriminate.
    + destruct (N.eqb w (comp_rp g + cCq g)); discriminate.
    + destruct (N.eqb (ctr g) 0) eqn:E; [lia|discriminate].
Qed.

(* ------------------------------------------------------------------------------------------
   Part B: conservation.  Every offset of the segment is at every instant in exactly one place:
   sender's free list, sender's hand (inside an operation), submission queue, held by the
   receiver, completion queue; the used-chunk list is exactly the set of offsets on the
   receiver's side.
   ------------------------------------------------------------------------------------------ *)
Definition cnt (x : N) (l : list N) : N := N.of_nat (count_occ N.eq_dec l x).

(* the offset in the sender's hand whose used-chunk-list flag is set *)
Definition handU (c : cpc) : list N :=
  match c with
  | SRecRemove _ v | SPushLoadWp v | SPushLoadRp v _ | SPushStore v _ _ | SEvictRemove v => [v]
  | _ => []
  end.

Lemma cnt_nil x : cnt x [] = 0.
Proof. reflexivity. Qed.
Lemma cnt_cons x y l : cnt x (y :: l) = (if N.eqb y x then 1 else 0) + cnt x l.
Proof. unfold cnt. cbn [count_occ]. destruct (N.eq_dec y x) as [->|Hn]; [rewrite N.eqb_refl|destruct (N.eqb_spec y x); [congruence|]]; lia. Qed.
Lemma cnt_app x l1 l2 : cnt x (l1 ++ l2) = cnt x l1 + cnt x l2.
Proof. unfold cnt. rewrite count_occ_app. lia. Qed.
Lemma cnt_snoc x l y : cnt x (l ++ [y]) = cnt x l + (if N.eqb y x then 1 else 0).
Proof. rewrite cnt_app, cnt_cons, cnt_nil. lia. Qed.

Lemma memN_cnt v l : memN v l = negb (N.eqb (cnt v l) 0).
Proof.
  unfold memN. induction l as [|h t IH]; [reflexivity|]. cbn [existsb]. rewrite cnt_cons, IH.
  rewrite (N.eqb_sym v h). destruct (N.eqb h v); destruct (N.eqb_spec (cnt v t) 0); cbn; try reflexivity; destruct (N.eqb_spec (1 + cnt v t) 0); try reflexivity; lia.
Qed.

Lemma cnt_remN x v l : cnt x (remN v l) = if N.eqb v x then 0 else cnt x l.
Proof.
  unfold remN. induction l as [|h t IH]; [destruct (N.eqb v x); reflexivity|].
  cbn [filter]. destruct (N.eqb_spec v h) as [->|Hn]; cbn [negb].
  - rewrite IH, cnt_cons. destruct (N.eqb h x); lia.
  - rewrite !cnt_cons, IH. destruct (N.eqb_spec v x) as [->|]; [destruct (N.eqb_spec h x); [congruence|lia]|lia].
Qed.

Lemma cnt_insN x v l : cnt x (insN v l) = if memN v l then cnt x l else (if N.eqb v x then 1 else 0) + cnt x l.
Proof. unfold insN. destruct (memN v l); [reflexivity|apply cnt_cons]. Qed.

Lemma cnt_remove_nth x (l : list N) i v :
  nth_error l i = Some v -> cnt x l = cnt x (remove_nth i l) + (if N.eqb v x then 1 else 0).
Proof.
  unfold remove_nth. revert i; induction l as [|h t IH]; intros [|i] H; cbn [nth_error firstn skipn app] in *; try discriminate.
  - inversion H; subst. rewrite cnt_cons. lia.
  - rewrite !cnt_cons, (IH i H). lia.
Qed.

Lemma NoDup_cnt l : NoDup l -> forall x, cnt x l <= 1.
Proof.
  intros H x. unfold cnt. rewrite (NoDup_count_occ N.eq_dec) in H. specialize (H x). lia.
Qed.

(* the receiver releases an offset it holds *)
Definition RHeld (l : clst) : Prop :=
  match pc l with
  | RPushLoadWp v i | RPushLoadRp v i _ | RPushStore v i _ => nth_error (held l) i = Some v
  | _ => True
  end.

Definition InvB (g : cgst) (l0 l1 : clst) : Prop :=
  RHeld l1 /\
  NoDup (pool0 g) /\
  (forall x, cnt x (pool0 g) = cnt x (free l0) + cnt x (hand (pc l0)) + cnt x (sub g) + cnt x (held l1) + cnt x (comp g)) /\
  (forall x, cnt x (used g) = cnt x (handU (pc l0)) + cnt x (sub g) + cnt x (held l1) + cnt x (comp g)) /\
  corrupted g = false.

Ltac cnts := rewrite ?cnt_snoc, ?cnt_app, ?cnt_cons, ?cnt_nil, ?cnt_remN, ?cnt_insN in *.

(* after a step: the four components, each count equation by instantiating the old ones at x *)
Ltac eqbs :=
  repeat match goal with
         | |- context [N.eqb ?a ?b] => destruct (N.eqb_spec a b); subst
         | H : context [N.eqb ?a ?b] |- _ => destruct (N.eqb_spec a b); subst
         end.

Ltac fin_b HN Hle H1 H2 HK :=
  unfold InvB; fields; cbn [hand handU] in *;
  split; [first [assumption | unfold RHeld; fields; try exact I; try assumption]|]; split; [exact HN|]; split; [|split];
  [ let x := fresh "x" in intro x; specialize (H1 x); specialize (H2 x); pose proof (Hle x); cnts; try lia; eqbs; try lia
  | let x := fresh "x" in intro x; specialize (H1 x); specialize (H2 x); pose proof (Hle x); cnts; try lia; eqbs; try lia
  | try exact HK; try (rewrite HK; reflexivity) ].

Lemma sender_invB g l0 l1 g' l0' es :
  sender_step g l0 = Some (g', l0', es) -> InvB g l0 l1 -> InvB g' l0' l1.
Proof.
  intros Hs (HRH & HN & H1 & H2 & HK).
  pose proof (NoDup_cnt _ HN) as Hle.
  unfold sender_step in Hs.
  destruct (pc l0) eqn:Epc; try discriminate; cbn [hand handU] in *.
  - destruct (prog l0) as [|[| | |i] p]; try discriminate; inversion Hs; subst; clear Hs; fin_b HN Hle H1 H2 HK.
  - inversion Hs; subst; clear Hs; fin_b HN Hle H1 H2 HK.
  - destruct (N.eqb r (comp_wp g)) eqn:E; inversion Hs; subst; clear Hs.
    + destruct m; [unfold start_send; destruct (free l0) as [|v f] eqn:Ef; [|destruct (covf g')]|]; fin_b HN Hle H1 H2 HK; rewrite ?Ef in *; cnts; lia.
    + fin_b HN Hle H1 H2 HK.
  - destruct (comp g) as [|v c'] eqn:Ec; try discriminate. inversion Hs; subst; clear Hs. fin_b HN Hle H1 H2 HK.
  - (* SRecRemove: the flag is set *)
    assert (Hm : memN v (used g) = true).
    { rewrite memN_cnt. specialize (H2 v). cnts. rewrite N.eqb_refl in H2. destruct (N.eqb_spec (cnt v (used g)) 0); [lia|reflexivity]. }
    rewrite Hm in Hs. inversion Hs; subst; clear Hs.
    destruct m; fin_b HN Hle H1 H2 HK.
  - inversion Hs; subst; clear Hs; fin_b HN Hle H1 H2 HK.
  - inversion Hs; subst; clear Hs; fin_b HN Hle H1 H2 HK.
  - destruct (N.eqb w (sub_wp g)) eqn:E; inversion Hs; subst; clear Hs; fin_b HN Hle H1 H2 HK.
  - destruct (N.eqb r (sub_rp g)); [destruct (N.eqb w (r + cB g))|]; inversion Hs; subst; clear Hs; fin_b HN Hle H1 H2 HK.
  - (* SInsert: the flag is clear *)
    assert (Hm : memN v (used g) = false).
    { rewrite memN_cnt. specialize (H2 v). specialize (H1 v). specialize (Hle v). cnts. rewrite N.eqb_refl in H1.
      destruct (N.eqb_spec (cnt v (used g)) 0); [reflexivity|lia]. }
    inversion Hs; subst; clear Hs. rewrite Hm.
    fin_b HN Hle H1 H2 HK; rewrite ?Hm; try lia; try (rewrite HK; reflexivity).
  - inversion Hs; subst; clear Hs; fin_b HN Hle H1 H2 HK.
  - inversion Hs; subst; clear Hs; fin_b HN Hle H1 H2 HK.
  - destruct (N.eqb w (r + cB g)) eqn:E; inversion Hs; subst; clear Hs; fin_b HN Hle H1 H2 HK.
  - destruct (N.eqb (sub_rp g) r) eqn:E.
    + destruct (sub g) as [|x s'] eqn:Es; try discriminate. inversion Hs; subst; clear Hs. fin_b HN Hle H1 H2 HK.
    + inversion Hs; subst; clear Hs. fin_b HN Hle H1 H2 HK.
  - (* SEvictRemove *)
    assert (Hm : memN x (used g) = true).
    { rewrite memN_cnt. specialize (H2 x). cnts. rewrite N.eqb_refl in H2. destruct (N.eqb_spec (cnt x (used g)) 0); [lia|reflexivity]. }
    rewrite Hm in Hs. inversion Hs; subst; clear Hs.
    fin_b HN Hle H1 H2 HK.
Qed.

Lemma receiver_invB g l0 l1 g' l1' es :
  receiver_step g l1 = Some (g', l1', es) -> InvB g l0 l1 -> InvB g' l0 l1'.
Proof.
  intros Hs (HRH & HN & H1 & H2 & HK).
  pose proof (NoDup_cnt _ HN) as Hle.
  unfold receiver_step in Hs. unfold RHeld in HRH.
  destruct (pc l1) eqn:Epc; try discriminate.
  - destruct (prog l1) as [|[| | |i] p]; try discriminate.
    + inversion Hs; subst; clear Hs; fin_b HN Hle H1 H2 HK.
    + inversion Hs; subst; clear Hs; fin_b HN Hle H1 H2 HK.
    + inversion Hs; subst; clear Hs; fin_b HN Hle H1 H2 HK.
    + destruct (nth_error (held l1) i) as [v|] eqn:En; inversion Hs; subst; clear Hs; fin_b HN Hle H1 H2 HK.
  - destruct (N.leb (cM g) (ctr g)) eqn:E; inversion Hs; subst; clear Hs; fin_b HN Hle H1 H2 HK.
  - inversion Hs; subst; clear Hs; fin_b HN Hle H1 H2 HK.
  - inversion Hs; subst; clear Hs; fin_b HN Hle H1 H2 HK.
  - destruct (N.eqb r (sub_wp g)) eqn:E; inversion Hs; subst; clear Hs; fin_b HN Hle H1 H2 HK.
  - destruct (N.eqb (sub_rp g) r) eqn:E.
    + destruct (sub g) as [|v s'] eqn:Es; try discriminate. inversion Hs; subst; clear Hs. fin_b HN Hle H1 H2 HK.
    + inversion Hs; subst; clear Hs; fin_b HN Hle H1 H2 HK.
  - destruct (N.eqb r (sub_wp g)) eqn:E; inversion Hs; subst; clear Hs; fin_b HN Hle H1 H2 HK.
  - inversion Hs; subst; clear Hs; fin_b HN Hle H1 H2 HK.
  - inversion Hs; subst; clear Hs; fin_b HN Hle H1 H2 HK.
  - destruct (N.eqb w (comp_rp g + cCq g)) eqn:E; inversion Hs; subst; clear Hs; fin_b HN Hle H1 H2 HK.
  - (* RPushStore: the i-th held offset moves to the completion queue *)
    inversion Hs; subst; clear Hs.
    unfold InvB; fields. split; [exact I|]. split; [exact HN|].
    split; [|split; [|exact HK]]; intro x; specialize (H1 x); specialize (H2 x); cnts;
      rewrite (cnt_remove_nth x _ _ _ HRH) in *; lia.
  - destruct (N.eqb (ctr g) 0) eqn:E; try discriminate. inversion Hs; subst; clear Hs; fin_b HN Hle H1 H2 HK.
Qed.

Definition InvB_cfg (c : cfg cgst clst) : Prop := InvB (fst c) (snd c 0%nat) (snd c 1%nat).

Lemma offsets_NoDup k : NoDup (offsets k).
Proof. unfold offsets. apply FinFun.Injective_map_NoDup; [intros a b H; lia | apply seq_NoDup]. Qed.

Lemma invB_init b m cq ovf k ps pr : InvB_cfg (init b m cq ovf k ps pr).
Proof.
  unfold InvB_cfg, init, InvB, RHeld, g_init, l_init; cbn [fst snd pc held free sub comp used pool0 corrupted hand handU].
  split; [exact I|]. split; [apply offsets_NoDup|]. repeat split; intros; rewrite ?cnt_nil; lia.
Qed.

Lemma invB_step t c c' e : InvB_cfg c -> step1 step t c = Some (c', e) -> InvB_cfg c'.
Proof.
  destruct c as [g ls]. unfold InvB_cfg, step1. cbn [fst snd]. intros HI Hs.
  destruct (step t g (ls t)) as [[[g' l'] e']|] eqn:Est; [|discriminate].
  inversion Hs; subst; clear Hs. cbn [fst snd].
  destruct t as [|[|t]]; cbn [step] in Est.
  - rewrite upd_l_same, upd_l_other by discriminate. eapply sender_invB; eauto.
  - rewrite upd_l_same, upd_l_other by discriminate. eapply receiver_invB; eauto.
  - discriminate.
Qed.

Theorem invB_reachable b m cq ovf k ps pr c :
  reachable step (init b m cq ovf k ps pr) c -> InvB_cfg c.
Proof. apply inv_reachable; [apply invB_init | intros; eapply invB_step; eauto]. Qed.

(* ------------------------------------------------------------------------------------------
   Part C: order.  Both queues are FIFOs of what was published into them.
   ------------------------------------------------------------------------------------------ *)
Definition InvC (g : cgst) : Prop :=
  sent g = map fst (taken g) ++ sub g /\ released g = reclaimed g ++ comp g.

Lemma invC_step_g t g l g' l' e : step t g l = Some (g', l', e) -> InvC g -> InvC g'.
Proof.
  intros Hs (HC1 & HC2).
  destruct t as [|[|t]]; cbn [step] in Hs; [unfold sender_step in Hs|unfold receiver_step in Hs|discriminate];
    destruct (pc l); try discriminate;
    repeat match type of Hs with
           | context [match ?x with _ => _ end] => let E := fresh "E" in destruct x eqn:E; try discriminate
           end; inversion Hs; subst; clear Hs; unfold InvC; fields; rewrite ?HC1, ?HC2;
    repeat match goal with E : sub _ = _ |- _ => rewrite E in * | E : comp _ = _ |- _ => rewrite E in * end;
    rewrite ?map_app; cbn [map fst]; rewrite <- ?app_assoc; cbn [app]; auto.
Qed.

Definition InvC_cfg (c : cfg cgst clst) : Prop := InvC (fst c).
Theorem invC_reachable b m cq ovf k ps pr c :
  reachable step (init b m cq ovf k ps pr) c -> InvC_cfg c.
Proof.
  apply inv_reachable; [split; reflexivity|].
  intros t [g ls] c' e H Hs. unfold step1 in Hs. cbn [fst snd] in *.
  destruct (step t g (ls t)) as [[[g' l'] e']|] eqn:Est; [|discriminate].
  inversion Hs; subst. unfold InvC_cfg in *; cbn [fst] in *. eapply invC_step_g; eauto.
Qed.

(* ---- the statements of props/C03conn.v about conservation ---- *)
Theorem conn_conservation b m cq ovf k ps pr g ls :
  reachable step (init b m cq ovf k ps pr) (g, ls) ->
  Permutation (offsets k) (free (ls 0%nat) ++ hand (pc (ls 0%nat)) ++ sub g ++ held (ls 1%nat) ++ comp g) /\
  Permutation (used g) (handU (pc (ls 0%nat)) ++ sub g ++ held (ls 1%nat) ++ comp g) /\
  corrupted g = false /\
  sent g = map fst (taken g) ++ sub g /\
  released g = reclaimed g ++ comp g.
Proof.
  intros Hr. pose proof (invB_reachable _ _ _ _ _ _ _ _ Hr) as (_ & HN & H1 & H2 & HK).
  pose proof (invC_reachable _ _ _ _ _ _ _ _ Hr) as (HC1 & HC2).
  pose proof (params_reachable _ _ _ _ _ _ _ _ Hr) as Hp. cbn [fst snd] in *. unfold params in Hp. inversion Hp as [[Eb Em Ecq Eo Epool]].
  rewrite Epool in *.
  split; [|split; [|auto]].
  - apply (Permutation_count_occ N.eq_dec). intro x. specialize (H1 x). unfold cnt in H1.
    rewrite !count_occ_app. lia.
  - apply (Permutation_count_occ N.eq_dec). intro x. specialize (H2 x). unfold cnt in H2.
    rewrite !count_occ_app. lia.
Qed.

(* ------------------------------------------------------------------------------------------
   Witnesses (B = 1, M = 1, three offsets).  Sender: three send macro-ops; receiver: three
   receive/release rounds.  Schedule: send a | receive a | send b, then the reclaim loop of the
   third send sees the completion queue EMPTY | release a, receive b, release b | try_send c |
   receive c, release c.  With a completion queue of capacity B + M = 2 the last release finds
   it full; with B + M + 1 = 3 it does not.
   ------------------------------------------------------------------------------------------ *)
Definition w_ps : list cop := [OSend; OSend; OSend].
Definition w_pr : list cop := [OReceive; ORelease 0; OReceive; ORelease 0; OReceive; ORelease 0].
Definition w_sched : list nat :=
  repeat 0%nat 11 ++ repeat 1%nat 6 ++ repeat 0%nat 14 ++ repeat 1%nat 16 ++ repeat 0%nat 8 ++ repeat 1%nat 9.
(* safe overflow enabled: try_send has no is_full() check (4 accesses less per send) *)
Definition w_sched_ovf : list nat :=
  repeat 0%nat 7 ++ repeat 1%nat 6 ++ repeat 0%nat 10 ++ repeat 1%nat 16 ++ repeat 0%nat 4 ++ repeat 1%nat 9.
Definition w_final (cq : N) (ovf : bool) (s : list nat) : cfg cgst clst := fst (run step s (init 1 1 cq ovf 3 w_ps w_pr)).

Lemma conn_needs_plus_one :
  rel_failed (fst (w_final (1 + 1) false w_sched)) = true /\
  rel_failed (fst (w_final (1 + 1) true w_sched_ovf)) = true /\
  existsb (fun p => match p with (1%nat, ERet c) => N.eqb c RET_RETRIEVE_FULL | _ => false end)
          (snd (run step w_sched (init 1 1 (1 + 1) false 3 w_ps w_pr))) = true /\
  rel_failed (fst (w_final (completion_queue_size 1 1) false w_sched)) = false /\
  rel_failed (fst (w_final (completion_queue_size 1 1) true w_sched_ovf)) = false.
Proof. vm_compute. repeat split. Qed.

(* the bound B + M + 1 of the invariant is attained: after the try_send of the witness schedule
   three offsets are on the receiver's side (one queued or borrowed, two in the completion queue) *)
Lemma conn_bound_tight :
  let c := fst (run step (repeat 0%nat 11 ++ repeat 1%nat 6 ++ repeat 0%nat 14 ++ repeat 1%nat 16 ++ repeat 0%nat 8)
                    (init 1 1 (completion_queue_size 1 1) false 3 w_ps w_pr)) in
  reachable step (init 1 1 (completion_queue_size 1 1) false 3 w_ps w_pr) c /\
  sub (fst c) = [2] /\ held (snd c 1%nat) = [] /\ comp (fst c) = [0; 1] /\
  lenN (sub (fst c)) + lenN (held (snd c 1%nat)) + lenN (comp (fst c)) = 1 + 1 + 1 /\
  sent (fst c) = [0; 1; 2] /\ received (fst c) = [0; 1] /\ released (fst c) = [0; 1] /\ reclaimed (fst c) = [].
Proof. cbv zeta. split; [eexists; reflexivity|]. vm_compute. repeat split. Qed.

(* safe overflow: an eviction races with a receive -- the receiver's compare-exchange loses,
   the evicted offset goes back to the sender, the receiver gets the next one *)
Definition e_ps : list cop := [OSend; OSend].
Definition e_pr : list cop := [OReceive].
Definition e_sched : list nat := repeat 0%nat 7 ++ repeat 1%nat 4 ++ repeat 0%nat 9 ++ repeat 1%nat 4.
Lemma conn_eviction_race :
  let c := fst (run step e_sched (init 1 1 (completion_queue_size 1 1) true 3 e_ps e_pr)) in
  reachable step (init 1 1 (completion_queue_size 1 1) true 3 e_ps e_pr) c /\
  taken (fst c) = [(0, false); (1, true)] /\ sent (fst c) = [0; 1] /\ sub (fst c) = [] /\
  held (snd c 1%nat) = [1] /\ free (snd c 0%nat) = [2; 0] /\ used (fst c) = [1].
Proof. cbv zeta. split; [eexists; reflexivity|]. vm_compute. repeat split. Qed.
