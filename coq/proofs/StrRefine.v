From V Require Import model.Base model.Obs model.Vec model.Str proofs.ListLemmas proofs.VecProofs proofs.StrProofs.
From Coq Require Import ZifyBool ZifyNat ZifyN.
Open Scope N_scope.

Definition sabs (m : str) : list N := firstn (N.to_nat (slen m)) (sbuf m).

(* len <= capacity; capacity+1 cells; data[len] = 0 (NUL terminator); for the inline flavour the
   separate terminator cell behind the array is 0 and the capacity is positive *)
Definition SInv (m : str) : Prop :=
  slen m <= scap m /\ lenN (sbuf m) = scap m + 1 /\ nthN (sbuf m) (slen m) 0 = 0 /\
  (sfl m = FStatic -> nthN (sbuf m) (scap m) 0 = 0 /\ 0 < scap m).

Lemma slimit_bounds m : scap m <= slimit m <= scap m + 1.
Proof. unfold slimit. destruct (sfl m); lia. Qed.

Lemma slimit_static m : slimit m <= scap m -> sfl m = FStatic.
Proof. unfold slimit. destruct (sfl m); auto; lia. Qed.

Lemma nth_app_skipn {A} (X G : list A) k j d :
  nth (length X + j) (X ++ skipn k G) d = nth (k + j) G d.
Proof.
  rewrite app_nth2 by lia. replace (length X + j - length X)%nat with j by lia.
  revert G. induction k as [|k IH]; intros G; [reflexivity|].
  destruct G as [|g G]; [cbn; destruct j; reflexivity|]. cbn [skipn]. rewrite IH. reflexivity.
Qed.

(* writing the terminator (or not, when the index is outside data()) re-establishes the invariant *)
Lemma finish m (A' G' : list N) nl :
  SInv m -> N.of_nat (length A') = nl -> nl <= scap m -> lenN (A' ++ G') = scap m + 1 ->
  (sfl m = FStatic -> nthN (A' ++ G') (scap m) 0 = 0) ->
  exists b', (N.ltb nl (slimit m) = true -> swr m (A' ++ G') nl 0 = Val b') /\
             (N.ltb nl (slimit m) = false -> b' = A' ++ G') /\
             SInv (sset m nl b') /\ sabs (sset m nl b') = A'.
Proof.
  intros (I1 & I2 & I3 & I4) HA Hnl HL Hst.
  pose proof (slimit_bounds m) as HB.
  assert (HG : (length G' = N.to_nat (scap m) + 1 - length A')%nat).
  { unfold lenN in HL. rewrite app_length in HL. lia. }
  destruct (N.ltb_spec nl (slimit m)) as [Hlt|Hge].
  - destruct G' as [|g G']; [cbn in HG; lia|].
    exists (updN (A' ++ g :: G') nl 0). split; [intros _; unfold swr; destruct (N.ltb_spec nl (slimit m)); [reflexivity|lia]|].
    split; [intros E; destruct (N.ltb_spec nl (slimit m)); [discriminate|lia]|].
    assert (EU : updN (A' ++ g :: G') nl 0 = A' ++ 0 :: G').
    { unfold updN. replace (N.to_nat nl) with (length A') by lia. apply upd_app_at. }
    rewrite EU. unfold SInv, sabs, sset; cbn [slen scap sbuf sfl].
    refine (conj (conj _ (conj _ (conj _ _))) _).
    + exact Hnl.
    + unfold lenN in *. rewrite app_length in *. cbn [length] in *. lia.
    + unfold nthN. replace (N.to_nat nl) with (length A' + 0)%nat by lia.
      rewrite app_nth2 by lia. replace (length A' + 0 - length A')%nat with 0%nat by lia. reflexivity.
    + intros Hs. split; [|apply I4; auto]. specialize (Hst Hs). unfold nthN in *.
      assert (nl < scap m) by (unfold slimit in Hlt; rewrite Hs in Hlt; lia).
      rewrite app_nth2 in * by lia.
      destruct (N.to_nat (scap m) - length A')%nat as [|j] eqn:E; [lia|]. exact Hst.
    + apply firstn_app_exact. lia.
  - exists (A' ++ G'). split; [intros E; destruct (N.ltb_spec nl (slimit m)); [lia|discriminate]|].
    split; [reflexivity|].
    assert (Hs : sfl m = FStatic) by (apply slimit_static; lia).
    assert (nl = scap m) by lia. subst nl.
    unfold SInv, sabs, sset; cbn [slen scap sbuf sfl].
    refine (conj (conj _ (conj _ (conj _ _))) _); auto.
    + rewrite H. auto.
    + intros _. split; [auto|apply I4; auto].
    + apply firstn_app_exact. lia.
Qed.

(* bounds-checked multi-write = blit, when the range is inside data() *)
Lemma swrite_from_blit m l : forall b pos, pos + lenN l <= slimit m ->
  swrite_from m b pos l = Val (blit l (N.to_nat pos) b).
Proof.
  induction l as [|x t IH]; intros b pos H; cbn [swrite_from blit]; [reflexivity|].
  unfold lenN in H. cbn [length] in H. unfold swr. destruct (N.ltb_spec pos (slimit m)); [|lia].
  rewrite IH by (unfold lenN; lia). unfold updN. replace (N.to_nat (pos + 1)) with (S (N.to_nat pos)) by lia. reflexivity.
Qed.

(* insert_bytes_unchecked on buf = A ++ G: shift the tail right by |l|, write l *)
Lemma insertk_buf (A G l : list N) i : (i <= length A)%nat -> (length l <= length G)%nat ->
  blit l i (blit (firstn (length A - i) (skipn i (A ++ G))) (i + length l) (A ++ G)) =
  (firstn i A ++ l ++ skipn i A) ++ skipn (length l) G.
Proof.
  intros Hi Hl. set (buf := A ++ G). set (k := length l).
  assert (Hsrc : firstn (length A - i) (skipn i buf) = skipn i A).
  { unfold buf. rewrite skipn_app. replace (i - length A)%nat with 0%nat by lia. rewrite skipn_O.
    apply firstn_app_exact. rewrite skipn_length. reflexivity. }
  rewrite Hsrc.
  assert (Hbl : length buf = (length A + length G)%nat) by (unfold buf; apply app_length).
  rewrite (blit_spec (skipn i A)) by (rewrite skipn_length; lia).
  rewrite skipn_length.
  set (b1 := firstn (i + k) buf ++ skipn i A ++ skipn (i + k + (length A - i)) buf).
  assert (Hb1 : length b1 = length buf).
  { unfold b1. rewrite !app_length, firstn_length, !skipn_length. lia. }
  rewrite (blit_spec l) by (fold k; lia). fold k.
  assert (F1 : firstn i b1 = firstn i A).
  { unfold b1. rewrite firstn_app, firstn_firstn, firstn_length.
    replace (Nat.min i (i + k)) with i by lia. replace (i - Nat.min (i + k) (length buf))%nat with 0%nat by lia.
    rewrite firstn_O, app_nil_r. unfold buf. rewrite firstn_app. replace (i - length A)%nat with 0%nat by lia.
    rewrite firstn_O, app_nil_r. reflexivity. }
  assert (F2 : skipn (i + k) b1 = skipn i A ++ skipn k G).
  { unfold b1. rewrite skipn_app_exact by (rewrite firstn_length; lia). f_equal.
    unfold buf. replace (i + k + (length A - i))%nat with (k + length A)%nat by lia.
    rewrite <- skipn_skipn. rewrite skipn_app_exact by reflexivity. reflexivity. }
  rewrite F1, F2. rewrite <- !app_assoc. reflexivity.
Qed.

(* remove_range on buf = A ++ G *)
Lemma removek_buf (A G : list N) i k : (i + k <= length A)%nat ->
  (if Nat.eqb (length A) (i + k) then A ++ G
   else blit (firstn (length A - (i + k)) (skipn (i + k) (A ++ G))) i (A ++ G)) =
  (firstn i A ++ skipn (i + k) A) ++ skipn (length A - k) (A ++ G).
Proof.
  intros H. set (buf := A ++ G).
  assert (Hbl : length buf = (length A + length G)%nat) by (unfold buf; apply app_length).
  destruct (Nat.eqb_spec (length A) (i + k)) as [E|E].
  - rewrite skipn_all2 by lia. rewrite app_nil_r. replace (length A - k)%nat with i by lia.
    rewrite <- (firstn_skipn i buf) at 1. f_equal. unfold buf. rewrite firstn_app.
    replace (i - length A)%nat with 0%nat by lia. rewrite firstn_O, app_nil_r. reflexivity.
  - assert (Hsrc : firstn (length A - (i + k)) (skipn (i + k) buf) = skipn (i + k) A).
    { unfold buf. rewrite skipn_app. replace (i + k - length A)%nat with 0%nat by lia. rewrite skipn_O.
      apply firstn_app_exact. rewrite skipn_length. reflexivity. }
    rewrite Hsrc, blit_spec by (rewrite skipn_length; lia). rewrite skipn_length.
    rewrite <- app_assoc. f_equal.
    + unfold buf. rewrite firstn_app. replace (i - length A)%nat with 0%nat by lia.
      rewrite firstn_O, app_nil_r. reflexivity.
    + f_equal. f_equal. lia.
Qed.

(* ---------- the common decomposition buf = A ++ G ---------- *)
Lemma sbuf_split m : SInv m ->
  sbuf m = sabs m ++ skipn (N.to_nat (slen m)) (sbuf m) /\
  length (sabs m) = N.to_nat (slen m) /\
  length (skipn (N.to_nat (slen m)) (sbuf m)) = (N.to_nat (scap m) + 1 - N.to_nat (slen m))%nat.
Proof.
  intros (I1 & I2 & _). unfold sabs, lenN in *. rewrite firstn_skipn, firstn_length, skipn_length.
  repeat split; lia.
Qed.

Lemma srd_in m i : SInv m -> i < slen m -> srd m i = Val (nth (N.to_nat i) (sabs m) 0).
Proof.
  intros HI Hi. pose proof HI as (I1 & I2 & _). pose proof (slimit_bounds m).
  unfold srd. destruct (N.ltb_spec i (slimit m)); [|lia]. f_equal. unfold nthN, sabs.
  rewrite <- (firstn_skipn (N.to_nat (slen m)) (sbuf m)) at 1. rewrite app_nth1; [reflexivity|].
  rewrite firstn_length. unfold lenN in I2. lia.
Qed.

Lemma ins_ok m idx l :
  SInv m -> idx <= slen m -> slen m + lenN l <= scap m -> existsb bad_byte l = false ->
  exists m', str_insert_bytes m idx l = Val (m', OUnit) /\ SInv m' /\
             sabs m' = firstn (N.to_nat idx) (sabs m) ++ l ++ skipn (N.to_nat idx) (sabs m) /\
             sfl m' = sfl m /\ scap m' = scap m.
Proof.
  intros HI Hidx Hfit Hbad. destruct (sbuf_split m HI) as (HS & HA & HG).
  pose proof HI as (I1 & I2 & I3 & I4). pose proof (slimit_bounds m) as HB.
  set (A := sabs m) in *. set (G := skipn (N.to_nat (slen m)) (sbuf m)) in *.
  unfold str_insert_bytes.
  destruct (N.ltb_spec (slen m) idx); [lia|]. destruct (N.ltb_spec (scap m) (slen m + lenN l)); [lia|].
  rewrite Hbad. rewrite swrite_from_blit by lia.
  unfold copy_within. rewrite HS.
  replace (N.to_nat (slen m - idx)) with (length A - N.to_nat idx)%nat by lia.
  replace (N.to_nat (idx + lenN l)) with (N.to_nat idx + length l)%nat by (unfold lenN; lia).
  rewrite insertk_buf by (unfold lenN in *; lia).
  set (A' := firstn (N.to_nat idx) A ++ l ++ skipn (N.to_nat idx) A).
  assert (HA' : length A' = (length A + length l)%nat).
  { unfold A'. rewrite !app_length, firstn_length, skipn_length. lia. }
  destruct (finish m A' (skipn (length l) G) (slen m + lenN l) HI) as (b' & F1 & F2 & F3 & F4).
  - unfold lenN. lia.
  - exact Hfit.
  - unfold lenN in *. rewrite app_length, skipn_length. lia.
  - intros Hs. destruct (I4 Hs) as (I5 & _). unfold nthN in *.
    replace (N.to_nat (scap m)) with (length A' + (N.to_nat (scap m) - length A'))%nat by (unfold lenN in *; lia).
    rewrite nth_app_skipn. rewrite HS in I5. rewrite app_nth2 in I5 by lia.
    replace (length l + (N.to_nat (scap m) - length A'))%nat with (N.to_nat (scap m) - length A)%nat by (unfold lenN in *; lia).
    exact I5.
  - destruct (N.ltb (slen m + lenN l) (slimit m)) eqn:E.
    + rewrite (F1 eq_refl). eexists; split; [reflexivity|]. auto.
    + rewrite <- (F2 eq_refl). eexists; split; [reflexivity|]. auto.
Qed.

Lemma rem_ok m idx k :
  SInv m -> idx + k <= slen m ->
  exists m', str_remove_range m idx k = Val (m', true) /\ SInv m' /\
             sabs m' = firstn (N.to_nat idx) (sabs m) ++ skipn (N.to_nat (idx + k)) (sabs m) /\
             sfl m' = sfl m /\ scap m' = scap m /\ slen m' = slen m - k.
Proof.
  intros HI Hr. destruct (sbuf_split m HI) as (HS & HA & HG).
  pose proof HI as (I1 & I2 & I3 & I4). pose proof (slimit_bounds m) as HB.
  set (A := sabs m) in *. set (G := skipn (N.to_nat (slen m)) (sbuf m)) in *.
  unfold str_remove_range. destruct (N.ltb_spec (slen m) (idx + k)); [lia|].
  assert (Eb : (if slen m =? idx + k then sbuf m else copy_within (sbuf m) (idx + k) idx (slen m - (idx + k))) =
               (firstn (N.to_nat idx) A ++ skipn (N.to_nat idx + N.to_nat k) A) ++ skipn (length A - N.to_nat k) (A ++ G)).
  { rewrite <- removek_buf by lia. rewrite <- HS.
    destruct (N.eqb_spec (slen m) (idx + k)); destruct (Nat.eqb_spec (length A) (N.to_nat idx + N.to_nat k)); try lia; auto.
    unfold copy_within.
    replace (N.to_nat (slen m - (idx + k))) with (length A - (N.to_nat idx + N.to_nat k))%nat by lia.
    replace (N.to_nat (idx + k)) with (N.to_nat idx + N.to_nat k)%nat by lia. reflexivity. }
  rewrite Eb. clear Eb.
  set (A' := firstn (N.to_nat idx) A ++ skipn (N.to_nat idx + N.to_nat k) A).
  assert (HA' : length A' = (length A - N.to_nat k)%nat).
  { unfold A'. rewrite !app_length, firstn_length, skipn_length. lia. }
  destruct (finish m A' (skipn (length A - N.to_nat k) (A ++ G)) (slen m - k) HI) as (b' & F1 & F2 & F3 & F4).
  - lia.
  - lia.
  - unfold lenN in *. rewrite app_length, skipn_length, app_length. lia.
  - intros Hs. destruct (I4 Hs) as (I5 & _). unfold nthN in *.
    replace (N.to_nat (scap m)) with (length A' + (N.to_nat (scap m) - length A'))%nat at 1 by (unfold lenN in *; lia).
    rewrite nth_app_skipn. rewrite HS in I5.
    replace (length A - N.to_nat k + (N.to_nat (scap m) - length A'))%nat with (N.to_nat (scap m)) by (unfold lenN in *; lia).
    exact I5.
  - replace (N.to_nat (idx + k)) with (N.to_nat idx + N.to_nat k)%nat by lia. fold A'.
    destruct (N.ltb (slen m - k) (slimit m)) eqn:E.
    + rewrite (F1 eq_refl). eexists; split; [reflexivity|]. cbn [sset sfl scap slen]. auto.
    + rewrite <- (F2 eq_refl). eexists; split; [reflexivity|]. cbn [sset sfl scap slen]. auto.
Qed.

(* ---------- find / rfind ---------- *)
Lemma match_at_ok m b : forall i, SInv m -> (N.to_nat i + length b <= N.to_nat (slen m))%nat ->
  match_at m i b = Val (prefixb b (skipn (N.to_nat i) (sabs m))).
Proof.
  induction b as [|x t IH]; intros i HI H; cbn [match_at prefixb]; [reflexivity|].
  cbn [length] in H. destruct (sbuf_split m HI) as (_ & HA & _).
  rewrite srd_in by (auto; lia).
  rewrite (skipn_nth_cons (sabs m) (N.to_nat i) 0) by lia.
  destruct (N.eqb (nth (N.to_nat i) (sabs m) 0) x); cbn [andb]; [|reflexivity].
  rewrite IH by (auto; lia). replace (N.to_nat (i + 1)) with (S (N.to_nat i)) by lia. reflexivity.
Qed.

Lemma prefixb_len b : forall l, prefixb b l = true -> (length b <= length l)%nat.
Proof.
  induction b as [|x t IH]; intros [|y u] H; cbn in *; try lia; try discriminate.
  apply andb_prop in H. destruct H as (_ & H). apply IH in H. lia.
Qed.

Lemma sfind_short l : forall b i, (length l < length b)%nat -> sfind_aux l b i = None.
Proof.
  induction l as [|y u IH]; intros b i H; cbn [sfind_aux].
  - destruct (prefixb b []) eqn:E; [apply prefixb_len in E; cbn in *; lia|reflexivity].
  - destruct (prefixb b (y :: u)) eqn:E; [apply prefixb_len in E; cbn in *; lia|].
    apply IH. cbn in H. lia.
Qed.

Lemma find_loop_ok m b : SInv m -> (length b <= N.to_nat (slen m))%nat ->
  forall k i, (N.to_nat i + k = N.to_nat (slen m) - length b + 1)%nat -> (k = 0%nat -> b <> []) ->
  find_loop m i k b = Val (sfind_aux (skipn (N.to_nat i) (sabs m)) b i).
Proof.
  intros HI Hb. destruct (sbuf_split m HI) as (_ & HA & _).
  induction k as [|k IH]; intros i H Hne; cbn [find_loop].
  - rewrite sfind_short; [reflexivity|]. rewrite skipn_length.
    destruct b; [exfalso; apply Hne; auto|cbn [length] in *; lia].
  - rewrite match_at_ok by (auto; lia).
    destruct (skipn (N.to_nat i) (sabs m)) as [|y u] eqn:ES.
    + cbn [sfind_aux]. destruct (prefixb b []) eqn:E; [reflexivity|].
      exfalso. assert (length (skipn (N.to_nat i) (sabs m)) = 0%nat) by now rewrite ES.
      rewrite skipn_length in H0. assert (length b = 0%nat) by lia. destruct b; [cbn in E; discriminate|cbn in *; lia].
    + cbn [sfind_aux]. destruct (prefixb b (y :: u)) eqn:E; [reflexivity|].
      rewrite IH by (try lia; intros _ ->; cbn in E; discriminate).
      replace (N.to_nat (i + 1)) with (1 + N.to_nat i)%nat by lia.
      rewrite <- skipn_skipn, ES. reflexivity.
Qed.

Lemma str_find_ok m b : SInv m -> str_find m b = Val (sfind_aux (sabs m) b 0).
Proof.
  intros HI. destruct (sbuf_split m HI) as (_ & HA & _). unfold str_find.
  destruct (N.ltb_spec (slen m) (lenN b)) as [H|H].
  - rewrite sfind_short; [reflexivity|]. unfold lenN in H. lia.
  - rewrite (find_loop_ok m b HI) by (unfold lenN in *; lia). reflexivity.
    
Qed.

Lemma rfind_loop_ok m b : SInv m -> (length b <= N.to_nat (slen m))%nat ->
  forall k, (k <= N.to_nat (slen m) - length b + 1)%nat ->
  rfind_loop m k b = Val (srfind_from (sabs m) b k).
Proof.
  intros HI Hb. induction k as [|k IH]; intros H; cbn [rfind_loop srfind_from]; [reflexivity|].
  rewrite match_at_ok by (auto; lia). rewrite Nat2N.id.
  destruct (prefixb b (skipn k (sabs m))); [reflexivity|]. apply IH. lia.
Qed.

Lemma str_rfind_ok m b : SInv m -> str_rfind m b = Val (srfind (sabs m) b).
Proof.
  intros HI. destruct (sbuf_split m HI) as (_ & HA & _). unfold str_rfind, srfind. rewrite HA.
  destruct (N.ltb_spec (slen m) (lenN b)) as [H|H]; destruct (Nat.ltb_spec (N.to_nat (slen m)) (length b)); unfold lenN in *; try lia; [reflexivity|].
  rewrite (rfind_loop_ok m b HI) by lia. f_equal. f_equal. lia.
Qed.

(* ---------- retain (as implemented: removes where the predicate holds) ---------- *)
Lemma retain_ok f : forall k m, SInv m -> (k <= N.to_nat (slen m))%nat ->
  exists m', retain_loop k m f = Val m' /\ SInv m' /\
             sabs m' = filter (fun c => negb (f c)) (firstn k (sabs m)) ++ skipn k (sabs m) /\
             sfl m' = sfl m /\ scap m' = scap m.
Proof.
  induction k as [|k IH]; intros m HI Hk; cbn [retain_loop].
  - exists m. cbn. auto.
  - destruct (sbuf_split m HI) as (_ & HA & _).
    rewrite srd_in by (auto; lia). rewrite Nat2N.id.
    set (c := nth k (sabs m) 0).
    assert (E1 : firstn (S k) (sabs m) = firstn k (sabs m) ++ [c]) by (apply firstn_S_nth; lia).
    assert (E2 : skipn k (sabs m) = c :: skipn (S k) (sabs m)) by (apply skipn_nth_cons; lia).
    destruct (f c) eqn:Ef.
    + unfold str_remove. destruct (N.leb_spec (slen m) (N.of_nat k)); [lia|].
      rewrite srd_in by (auto; lia).
      destruct (rem_ok m (N.of_nat k) 1 HI ltac:(lia)) as (m1 & Hr & HI1 & Ha1 & Hf1 & Hc1 & Hl1).
      rewrite Hr. destruct (IH m1 HI1 ltac:(lia)) as (m' & Hl & HI' & Ha' & Hf' & Hc').
      exists m'. split; [exact Hl|]. split; [exact HI'|]. split; [|split; congruence].
      rewrite Ha', Ha1. rewrite Nat2N.id. replace (N.to_nat (N.of_nat k + 1)) with (S k) by lia.
      rewrite firstn_app_exact by (rewrite firstn_length; lia).
      rewrite skipn_app_exact by (rewrite firstn_length; lia).
      rewrite E1, filter_app. cbn [filter]. rewrite Ef. cbn [negb]. now rewrite app_nil_r.
    + destruct (IH m HI ltac:(lia)) as (m' & Hl & HI' & Ha' & Hf' & Hc').
      exists m'. split; [exact Hl|]. split; [exact HI'|]. split; [|split; congruence].
      rewrite Ha', E1, E2, filter_app. cbn [filter]. rewrite Ef. cbn [negb]. rewrite <- app_assoc. reflexivity.
Qed.

(* ---------- one step ---------- *)
Definition SR (m : str) (s : sstr) : Prop :=
  SInv m /\ ssfl s = sfl m /\ sscap s = scap m /\ sbytes s = sabs m.

Lemma sfind_some_ge l b : forall i j, sfind_aux l b i = Some j -> i <= j /\ (j = i -> prefixb b l = true).
Proof.
  induction l as [|y u IH]; intros i j H; cbn [sfind_aux] in H.
  - destruct (prefixb b []) eqn:E; inversion H; subst. split; [lia|auto].
  - destruct (prefixb b (y :: u)) eqn:E.
    + inversion H; subst. split; [lia|auto].
    + apply IH in H. split; [lia|]. intros ->. lia.
Qed.

Lemma sfind_prefix l b i : prefixb b l = true -> sfind_aux l b i = Some i.
Proof. intros H. destruct l; cbn [sfind_aux]; rewrite H; reflexivity. Qed.

Lemma srfind_from_lt l b : forall k v, srfind_from l b k = Some v -> v < N.of_nat k.
Proof.
  induction k as [|k IH]; intros v H; cbn [srfind_from] in H; [discriminate|].
  destruct (prefixb b (skipn k l)); [inversion H; lia|]. apply IH in H. lia.
Qed.

Lemma ins_refines m s idx l : SR m s ->
  let '(m', ob) := match str_insert_bytes m idx l with Val r => r | Panic => (m, OP) end in
  let '(s', ob') := sins s idx l in
  ob = ob' /\ SR m' s'.
Proof.
  intros HR. pose proof HR as (HI & Hf & Hc & Hb). destruct (sbuf_split m HI) as (_ & HA & _).
  assert (HL : lenN (sbytes s) = slen m) by (rewrite Hb; unfold lenN; lia).
  unfold sins. rewrite HL, Hc.
  destruct (N.ltb_spec (slen m) idx) as [H1|H1].
  { unfold str_insert_bytes. destruct (N.ltb_spec (slen m) idx); [|lia]. split; [reflexivity|exact HR]. }
  destruct (N.ltb_spec (scap m) (slen m + lenN l)) as [H2|H2].
  { unfold str_insert_bytes. destruct (N.ltb_spec (slen m) idx); [lia|].
    destruct (N.ltb_spec (scap m) (slen m + lenN l)); [|lia]. split; [reflexivity|exact HR]. }
  destruct (existsb bad_byte l) eqn:H3.
  { unfold str_insert_bytes. destruct (N.ltb_spec (slen m) idx); [lia|].
    destruct (N.ltb_spec (scap m) (slen m + lenN l)); [lia|]. rewrite H3. split; [reflexivity|exact HR]. }
  destruct (ins_ok m idx l HI H1 H2 H3) as (m' & Hi & HI' & Ha' & Hf' & Hc').
  rewrite Hi. split; [reflexivity|]. unfold SR, ss; cbn [ssfl sscap sbytes].
  refine (conj HI' (conj _ (conj _ _))); congruence.
Qed.

Theorem str_step_refines m s o : SR m s ->
  let '(m', ob) := str_step m o in
  let '(s', ob') := sstr_step true s o in
  ob = ob' /\ SR m' s'.
Proof.
  intros HR. pose proof HR as (HI & Hf & Hc & Hb). destruct (sbuf_split m HI) as (_ & HA & _).
  pose proof HI as (I1 & I2 & I3 & I4). pose proof (slimit_bounds m) as HB.
  assert (HL : lenN (sbytes s) = slen m) by (rewrite Hb; unfold lenN; lia).
  assert (Same : forall ob : obs, ob = ob /\ SR m s) by (intros; split; auto).
  destruct o as [b|l|i b|i l| |i|i k|l|l|l|l|l|k| | | |]; cbn [str_step sstr_step].
  - rewrite HL. apply (ins_refines m s (slen m) [b] HR).
  - rewrite HL. apply (ins_refines m s (slen m) l HR).
  - apply (ins_refines m s i [b] HR).
  - apply (ins_refines m s i l HR).
  - (* pop *)
    unfold str_pop. rewrite Hb. destruct (N.eqb_spec (slen m) 0) as [E|E].
    + destruct (sabs m) as [|x t]; [cbn; auto|cbn in HA; lia].
    + unfold str_remove. destruct (N.leb_spec (slen m) (slen m - 1)); [lia|].
      rewrite srd_in by (auto; lia).
      destruct (rem_ok m (slen m - 1) 1 HI ltac:(lia)) as (m' & Hr & HI' & Ha' & Hf' & Hc' & Hl').
      rewrite Hr. destruct (rev (sabs m)) as [|x r] eqn:ER.
      { exfalso. assert (length (rev (sabs m)) = 0%nat) by now rewrite ER. rewrite rev_length in *. lia. }
      assert (EA : sabs m = rev r ++ [x]) by (rewrite <- (rev_involutive (sabs m)), ER; reflexivity).
      assert (Hr' : length (rev r) = N.to_nat (slen m - 1)) by (rewrite EA, app_length in HA; cbn in HA; lia).
      split.
      { f_equal. f_equal. rewrite EA, <- Hr'. rewrite app_nth2, Nat.sub_diag by lia. reflexivity. }
      unfold SR, ss; cbn [ssfl sscap sbytes]. refine (conj HI' (conj _ (conj _ _))); try congruence.
      rewrite Ha'. replace (N.to_nat (slen m - 1 + 1)) with (length (sabs m)) by lia.
      rewrite skipn_all, app_nil_r. rewrite EA, <- Hr'. now rewrite firstn_app_exact.
  - (* remove *)
    unfold str_remove. rewrite HL, Hb.
    destruct (N.leb_spec (slen m) i); destruct (N.ltb_spec i (slen m)); try lia; [auto|].
    rewrite srd_in by (auto; lia).
    destruct (rem_ok m i 1 HI ltac:(lia)) as (m' & Hr & HI' & Ha' & Hf' & Hc' & Hl').
    rewrite Hr. split; [reflexivity|].
    unfold SR, ss; cbn [ssfl sscap sbytes]. refine (conj HI' (conj _ (conj _ _))); try congruence.
    rewrite Ha'. replace (N.to_nat (i + 1)) with (S (N.to_nat i)) by lia. reflexivity.
  - (* remove_range *)
    rewrite HL, Hb. destruct (N.ltb_spec (slen m) (i + k)) as [H|H].
    + unfold str_remove_range. destruct (N.ltb_spec (slen m) (i + k)); [|lia]. auto.
    + destruct (rem_ok m i k HI H) as (m' & Hr & HI' & Ha' & Hf' & Hc' & Hl').
      rewrite Hr. split; [reflexivity|].
      unfold SR, ss; cbn [ssfl sscap sbytes]. refine (conj HI' (conj _ (conj _ _))); try congruence.
  - (* retain *)
    unfold str_retain. destruct (retain_ok (memb l) (N.to_nat (slen m)) m HI ltac:(lia)) as (m' & Hr & HI' & Ha' & Hf' & Hc').
    rewrite Hr. split; [reflexivity|].
    unfold SR, ss; cbn [ssfl sscap sbytes]. refine (conj HI' (conj _ (conj _ _))); try congruence.
    rewrite Ha', Hb. rewrite <- HA. rewrite firstn_all, skipn_all, app_nil_r. reflexivity.
  - (* find *)
    rewrite str_find_ok, Hb by auto. auto.
  - (* rfind *)
    rewrite str_rfind_ok, Hb by auto. auto.
  - (* strip_prefix *)
    unfold str_strip_prefix. rewrite str_find_ok, Hb by auto.
    destruct (prefixb l (sabs m)) eqn:EP.
    + rewrite (sfind_prefix _ _ 0 EP). pose proof (prefixb_len _ _ EP) as HLn.
      destruct (rem_ok m 0 (lenN l) HI ltac:(unfold lenN; lia)) as (m' & Hr & HI' & Ha' & Hf' & Hc' & Hl').
      rewrite Hr. split; [reflexivity|].
      unfold SR, ss; cbn [ssfl sscap sbytes]. refine (conj HI' (conj _ (conj _ _))); try congruence.
      rewrite Ha'. cbn [N.to_nat firstn app]. f_equal. unfold lenN. lia.
    + destruct (sfind_aux (sabs m) l 0) as [[|p]|] eqn:EF; auto.
      apply sfind_some_ge in EF. destruct EF as (_ & EF). rewrite EF in EP by reflexivity. discriminate.
  - (* strip_suffix *)
    unfold str_strip_suffix. rewrite HL, Hb.
    destruct (N.ltb_spec (slen m) (lenN l)) as [H|H]; destruct (N.leb_spec (lenN l) (slen m)); try lia; cbn [andb]; [auto|].
    rewrite str_rfind_ok by auto. unfold srfind. rewrite HA.
    destruct (Nat.ltb_spec (N.to_nat (slen m)) (length l)); [unfold lenN in *; lia|].
    cbn [srfind_from].
    destruct (prefixb l (skipn (N.to_nat (slen m) - length l) (sabs m))) eqn:EP.
    + replace (N.of_nat (N.to_nat (slen m) - length l)) with (slen m - lenN l) by (unfold lenN; lia).
      rewrite N.eqb_refl. cbn [negb].
      destruct (rem_ok m (slen m - lenN l) (lenN l) HI ltac:(lia)) as (m' & Hr & HI' & Ha' & Hf' & Hc' & Hl').
      rewrite Hr. split; [reflexivity|].
      unfold SR, ss; cbn [ssfl sscap sbytes]. refine (conj HI' (conj _ (conj _ _))); try congruence.
      rewrite Ha'. replace (N.to_nat (slen m - lenN l + lenN l)) with (length (sabs m)) by lia.
      rewrite skipn_all, app_nil_r. f_equal. unfold lenN. lia.
    + destruct (srfind_from (sabs m) l (N.to_nat (slen m) - length l)) as [v|] eqn:EV; [|auto].
      apply srfind_from_lt in EV.
      destruct (N.eqb_spec v (slen m - lenN l)); [unfold lenN in *; lia|]. cbn [negb]. auto.
  - (* truncate *)
    unfold str_truncate. rewrite Hb. destruct (N.ltb_spec (slen m) k) as [H|H].
    + split; [reflexivity|]. refine (conj HI (conj Hf (conj Hc _))). cbn [ss sbytes]. rewrite firstn_all2 by lia. reflexivity.
    + assert (ES : sbuf m = firstn (N.to_nat k) (sbuf m) ++ skipn (N.to_nat k) (sbuf m)) by (symmetry; apply firstn_skipn).
      assert (EF : firstn (N.to_nat k) (sabs m) = firstn (N.to_nat k) (sbuf m)).
      { unfold sabs. rewrite firstn_firstn. f_equal. lia. }
      destruct (N.ltb_spec k (scap m)) as [H2|H2].
      * destruct (finish m (firstn (N.to_nat k) (sbuf m)) (skipn (N.to_nat k) (sbuf m)) k HI) as (b' & F1 & F2 & F3 & F4).
        { rewrite firstn_length. unfold lenN in I2. lia. }
        { lia. }
        { rewrite <- ES. exact I2. }
        { intros Hs. rewrite <- ES. apply I4; auto. }
        rewrite <- ES in F1. rewrite F1 by (destruct (N.ltb_spec k (slimit m)); [reflexivity|lia]).
        split; [reflexivity|]. unfold SR, ss; cbn [ssfl sscap sbytes]. refine (conj F3 (conj Hf (conj Hc _))). congruence.
      * assert (k = slen m) by lia. subst k.
        split; [reflexivity|]. unfold SR, ss, SInv, sabs, sset; cbn [ssfl sscap sbytes slen scap sbuf sfl].
        refine (conj (conj I1 (conj I2 (conj I3 I4))) (conj Hf (conj Hc _))). rewrite firstn_firstn. f_equal. lia.
  - (* clear *)
    unfold str_clear.
    destruct (finish m [] (sbuf m) 0 HI) as (b' & F1 & F2 & F3 & F4); cbn [app length]; auto; try lia.
    assert (0 < slimit m) by (unfold slimit; destruct (sfl m) eqn:E; try lia; destruct (I4 eq_refl); lia).
    cbn [app] in F1. rewrite F1 by (destruct (N.ltb_spec 0 (slimit m)); [reflexivity|lia]).
    split; [reflexivity|]. unfold SR, ss; cbn [ssfl sscap sbytes]. refine (conj F3 (conj Hf (conj Hc _))). congruence.
  - (* as_bytes *)
    rewrite Hb. auto.
  - (* terminator *)
    rewrite I3. auto.
  - (* len *)
    rewrite HL. auto.
Qed.

(* ---------- initial states, runs ---------- *)
Lemma SR_new fl c : (fl = FStatic -> 0 < c) -> SR (str_new fl c) (sstr_new fl c).
Proof.
  intros Hs. unfold SR, SInv, sabs, str_new, sstr_new; cbn [slen scap sbuf sfl ssfl sscap sbytes].
  refine (conj (conj _ (conj _ (conj _ _))) (conj eq_refl (conj eq_refl eq_refl))).
  - lia.
  - destruct fl.
    + specialize (Hs eq_refl). destruct (N.to_nat c) as [|k] eqn:E; [lia|].
      unfold lenN. rewrite app_length. cbn [length]. rewrite repeat_length. lia.
    + unfold lenN. cbn [length]. rewrite repeat_length. lia.
    + unfold lenN. cbn [length]. rewrite repeat_length. lia.
  - destruct fl; [destruct (N.to_nat c)|..]; reflexivity.
  - intros ->. specialize (Hs eq_refl). split; [|exact Hs].
    destruct (N.to_nat c) as [|k] eqn:E; [lia|]. unfold nthN. rewrite E.
    change (0 :: repeat POISON k) with ([0] ++ repeat POISON k). rewrite <- app_assoc.
    cbn [app nth]. rewrite app_nth2; rewrite repeat_length; [|lia]. rewrite Nat.sub_diag. reflexivity.
Qed.

(* string/mod.rs refines the byte-list reference (with the retain deviation), for every capacity,
   all three storage flavours (StaticString needs a positive capacity: StaticString::<0>::new()
   panics) and every operation sequence, terminator observation included *)
Theorem str_refines_bytes : forall fl c ops, (fl = FStatic -> 0 < c) ->
  str_run (str_new fl c) ops = sstr_run true (sstr_new fl c) ops.
Proof.
  intros fl c ops Hs. generalize (SR_new fl c Hs). generalize (str_new fl c) (sstr_new fl c).
  induction ops as [|o t IH]; intros m s HR; cbn [str_run sstr_run]; auto.
  pose proof (str_step_refines m s o HR) as H.
  destruct (str_step m o) as [m' ob], (sstr_step true s o) as [s' ob'].
  destruct H as [-> HR']. f_equal. now apply IH.
Qed.

Inductive sreach (fl : sflav) (c : N) : str -> sstr -> Prop :=
| sreach0 : sreach fl c (str_new fl c) (sstr_new fl c)
| sreachS m s o : sreach fl c m s -> sreach fl c (fst (str_step m o)) (fst (sstr_step true s o)).

Lemma sreach_SR fl c m s : (fl = FStatic -> 0 < c) -> sreach fl c m s -> SR m s.
Proof.
  intros Hs. induction 1 as [|m s o H IH]; [apply SR_new; auto|].
  pose proof (str_step_refines m s o IH) as HS.
  destruct (str_step m o) as [m' ob], (sstr_step true s o) as [s' ob']. cbn [fst]. tauto.
Qed.

(* the NUL terminator: in every reachable state data[len] = 0, len <= capacity, and the content is
   the reference's byte list; no operation panics except insert beyond the end *)
Theorem str_terminator fl c m s : (fl = FStatic -> 0 < c) -> sreach fl c m s ->
  nthN (sbuf m) (slen m) 0 = 0 /\ slen m <= scap m /\ lenN (sbuf m) = scap m + 1 /\
  firstn (N.to_nat (slen m)) (sbuf m) = sbytes s.
Proof.
  intros Hs H. destruct (sreach_SR fl c m s Hs H) as ((I1 & I2 & I3 & _) & _ & _ & Hb).
  rewrite Hb. auto.
Qed.

(* the reference with the deviation is the reference of the property except on retain *)
Lemma sstr_dev_agree s o : (forall l, o <> SRetain l) -> sstr_step true s o = sstr_step false s o.
Proof. intros H. destruct o; try reflexivity. exfalso. eapply H. reflexivity. Qed.

(* documented errors and failed calls change nothing in the reference *)
Lemma sstr_error_unchanged dev s o s' e : sstr_step dev s o = (s', OErr e) -> s' = s.
Proof.
  destruct o; cbn [sstr_step]; unfold sins; intros H;
    repeat match type of H with context [match ?x with _ => _ end] => destruct x end; inversion H; reflexivity.
Qed.
