From V Require Import model.Base model.Conc model.Events model.OverflowQueueRA proofs.ModArith proofs.ListLemmas.
From Coq Require Import ZifyBool ZifyNat ZifyN.
Open Scope N_scope.

Definition GInv (g : qgst) : Prop :=
  qrp g <= qwp g /\ qwp g <= qrp g + qcap g + (if qovf g then 1 else 0) /\
  lenN (qslots g) = qcap g + 1 /\
  race_used g = false /\
  lenN (qremoved g) = qrp g /\ lenN (cum g) = qrp g /\
  (forall v, v <= qrp g -> pv g v <= qwp g) /\
  qpushed g = map fst (qremoved g) ++ qcontent g.

(* producer (thread 0) under oq_ords_sync *)
Definition PInv (g : qgst) (l : qlst) : Prop :=
  acqR l <= seenR l /\ seenR l <= qrp g /\
  match qat l with
  | QIdle => qovf g = false /\ qwp g <= seenR l + qcap g
  | QPushLoadRp v w => qovf g = false /\ w = qwp g /\ qwp g <= seenR l + qcap g
  | QPushWrite v w r => qovf g = false /\ w = qwp g /\ r = seenR l /\ acqR l = r /\ w <= r + qcap g
  | QPushStore v w r => qovf g = false /\ w = qwp g /\ r = seenR l /\ acqR l = r /\ w <= r + qcap g /\
                        nthN (qslots g) (w mod qm g) 0 = v
  | QPushCas w r => qovf g = true /\ qwp g = w + 1 /\ w = r + qcap g /\ r = seenR l /\ acqR l = r
  | QPushReadOld r => qovf g = false /\ qwp g <= seenR l + qcap g
  | _ => False
  end.

(* consumer (thread 1) under oq_ords_sync *)
Definition CInv (g : qgst) (l : qlst) : Prop :=
  acqW l = seenW l /\ seenW l <= qwp g /\ seenR l <= qrp g /\ seenR l <= acqW l /\
  (forall v, seenR l < v -> v <= qrp g -> v + qcap g <= pv g v) /\
  match qat l with
  | QIdle => True
  | QPopLoadWp r => r = seenR l
  | QPopRead r => r = seenR l /\ r < acqW l
  | QPopCas r v fresh => r = seenR l /\ fresh = true /\ r < acqW l /\
                         (r = qrp g -> nthN (qslots g) (r mod qm g) 0 = v)
  | QPopRecheck r => r = seenR l
  | _ => False
  end.

Definition Inv (c : cfg qgst qlst) : Prop :=
  GInv (fst c) /\ PInv (fst c) (snd c 0%nat) /\ CInv (fst c) (snd c 1%nat) /\
  (forall t, (2 <= t)%nat -> qat (snd c t) = QIdle /\ qprog (snd c t) = []).

(* ---------------- lists ---------------- *)
Lemma qcontent_from_snoc sl c pos n :
  qcontent_from sl c pos (S n) = qcontent_from sl c pos n ++ [nthN sl ((pos + N.of_nat n) mod c) 0].
Proof.
  revert pos; induction n as [|n IH]; intros pos.
  - cbn. now rewrite N.add_0_r.
  - change (qcontent_from sl c pos (S (S n))) with (nthN sl (pos mod c) 0 :: qcontent_from sl c (pos + 1) (S n)).
    rewrite IH. cbn [qcontent_from app].
    replace (pos + 1 + N.of_nat n) with (pos + N.of_nat (S n)) by lia. reflexivity.
Qed.

Lemma qcontent_from_upd_other sl c pos n i v :
  (forall k, (k < n)%nat -> (pos + N.of_nat k) mod c <> i) ->
  qcontent_from (updN sl i v) c pos n = qcontent_from sl c pos n.
Proof.
  revert pos; induction n as [|n IH]; intros pos H; cbn [qcontent_from]; auto.
  f_equal.
  - apply nthN_updN_other. specialize (H O). rewrite N.add_0_r in H. intro E; apply H; [lia|auto].
  - apply IH. intros k Hk. specialize (H (S k)).
    replace (pos + 1 + N.of_nat k) with (pos + N.of_nat (S k)) by lia. apply H; lia.
Qed.

Lemma qcontent_length g : length (qcontent g) = N.to_nat (qwp g - qrp g).
Proof.
  unfold qcontent. generalize (qrp g) at 1. generalize (N.to_nat (qwp g - qrp g)).
  induction n as [|n IH]; intros; cbn; auto.
Qed.

Lemma stale_bounds cur lo k : lo <= cur -> lo <= stale cur lo k /\ stale cur lo k <= cur.
Proof. unfold stale. intros. lia. Qed.

Lemma nthN_app_old {A} (l : list A) x i d : i < lenN l -> nthN (l ++ [x]) i d = nthN l i d.
Proof. unfold nthN, lenN. intros H. apply app_nth1. lia. Qed.

Lemma nthN_app_new {A} (l : list A) x d : nthN (l ++ [x]) (lenN l) d = x.
Proof.
  unfold nthN, lenN. rewrite Nat2N.id. rewrite app_nth2 by lia. rewrite Nat.sub_diag. reflexivity.
Qed.

Lemma pvl_app_old cm x v : v <= lenN cm -> pvl (cm ++ [x]) v = pvl cm v.
Proof.
  unfold pvl. intros H. destruct (N.eqb_spec v 0); auto. apply nthN_app_old. lia.
Qed.

Lemma pvl_app_new cm x : pvl (cm ++ [x]) (lenN cm + 1) = x.
Proof.
  unfold pvl. destruct (N.eqb_spec (lenN cm + 1) 0); [lia|].
  replace (lenN cm + 1 - 1) with (lenN cm) by lia. apply nthN_app_new.
Qed.

Lemma pvl_zero cm : pvl cm 0 = 0.
Proof. reflexivity. Qed.

Lemma nth_error_lenN {A} (l : list A) (p : N) : p < lenN l -> exists x, nth_error l (N.to_nat p) = Some x.
Proof.
  unfold lenN. intros H. destruct (nth_error l (N.to_nat p)) eqn:E; eauto.
  apply nth_error_None in E. lia.
Qed.

Lemma inv_init c orc pushes pops : Inv (qinit c orc pushes pops).
Proof.
  unfold Inv, qinit; cbn [fst snd]. split; [|split; [|split]].
  - unfold GInv, qg_init, qcontent, pv, qm; cbn. rewrite lenN_repeat.
    split; [lia|]. split; [lia|]. split; [lia|]. split; [reflexivity|]. split; [reflexivity|]. split; [reflexivity|].
    split; [|reflexivity]. intros v Hv. assert (E : v = 0) by lia. rewrite E. rewrite pvl_zero. lia.
  - unfold PInv, ql_init; cbn. repeat split; auto; lia.
  - unfold CInv, ql_init; cbn. repeat split; auto; try lia.
  - intros [|[|t]] Ht; try lia. cbn. auto.
Qed.

Ltac fld := cbn [qcap qwp qrp qslots qoracle race_used race_spec qovf cspec cum qpushed qremoved
                 qprog qat seenR seenW acqW acqR set_q upd_q set_oracle] in *.

Lemma pc_owner g ls t :
  PInv g (ls 0%nat) -> CInv g (ls 1%nat) ->
  (forall u, (2 <= u)%nat -> qat (ls u) = QIdle /\ qprog (ls u) = []) ->
  match qat (ls t) with
  | QIdle => True
  | QPushLoadRp _ _ | QPushWrite _ _ _ | QPushStore _ _ _ | QPushCas _ _ | QPushReadOld _ => t = 0%nat
  | _ => t = 1%nat
  end.
Proof.
  intros HP HC HO. destruct t as [|[|t]].
  - destruct HP as (_ & _ & D). destruct (qat (ls 0%nat)); auto; contradiction.
  - destruct HC as (_ & _ & _ & _ & _ & D). destruct (qat (ls 1%nat)); auto; contradiction.
  - destruct (HO (S (S t)) ltac:(lia)) as (E & _). rewrite E. exact I.
Qed.

Lemma others_kept (ls : nat -> qlst) t l' :
  (t < 2)%nat ->
  (forall u, (2 <= u)%nat -> qat (ls u) = QIdle /\ qprog (ls u) = []) ->
  forall u, (2 <= u)%nat -> qat (upd_l ls t l' u) = QIdle /\ qprog (upd_l ls t l' u) = [].
Proof. intros Ht H u Hu. rewrite upd_l_other by lia. auto. Qed.

(* the oracle is the only thing a load changes in the global state *)
Lemma ginv_set_oracle g orc : GInv g -> GInv (set_oracle g orc).
Proof. unfold GInv, set_oracle, upd_q, qcontent, pv, qm. fld. auto. Qed.

Lemma pinv_set_oracle g orc l : PInv g l -> PInv (set_oracle g orc) l.
Proof. unfold PInv, set_oracle, upd_q, qm. fld. auto. Qed.

Lemma cinv_set_oracle g orc l : CInv g l -> CInv (set_oracle g orc) l.
Proof. unfold CInv, set_oracle, upd_q, pv, qm. fld. auto. Qed.

(* consumer: load of write_position (sites 41 and 44), possibly stale; acquire *)
Lemma pop_load_wp_inv site g l lp r g' l' e :
  GInv g -> PInv g lp ->
  acqW l = seenW l -> seenW l <= qwp g -> seenR l <= qrp g -> seenR l <= acqW l ->
  (forall v, seenR l < v -> v <= qrp g -> v + qcap g <= pv g v) ->
  r = seenR l ->
  pop_load_wp oq_ords_sync site g l r = (g', l', e) ->
  GInv g' /\ PInv g' lp /\ CInv g' l'.
Proof.
  intros HG HP A B C D F -> Est. unfold pop_load_wp, next_choice in Est.
  set (kk := match qoracle g with [] => 0 | k :: _ => k end).
  pose proof (stale_bounds (qwp g) (seenW l) kk B) as (S1 & S2).
  set (w := stale (qwp g) (seenW l) kk) in *.
  assert (Est' : (if seenR l =? w
                  then (set_oracle g (tl (qoracle g)), set_q l (qprog l) QIdle (seenR l) w (N.max (acqW l) w) (acqR l),
                        [EAcc site B_WP 0 KLoad Acquire Acquire w 0 true; ERet 0])
                  else (upd_q g (qwp g) (qrp g) (qslots g) (tl (qoracle g)) (race_used g) (race_spec g) (qovf g) (Some (seenR l))
                              (cum g) (qpushed g) (qremoved g),
                        set_q l (qprog l) (QPopRead (seenR l)) (seenR l) w (N.max (acqW l) w) (acqR l),
                        [EAcc site B_WP 0 KLoad Acquire Acquire w 0 true])) = (g', l', e)).
  { subst kk w. destruct (qoracle g) as [|k orc]; cbn [tl] in *;
    cbn [q_pop_load_wp q_push_store_wp oq_ords_sync is_acq is_rel andb] in Est; exact Est. }
  clear Est.
  destruct (N.eqb_spec (seenR l) w) as [Ef|Enf]; inversion Est'; subst g' l' e; clear Est'.
  - split; [apply ginv_set_oracle; exact HG|]. split; [apply pinv_set_oracle; exact HP|].
    unfold CInv, set_oracle, upd_q, pv in *; fld. repeat split; auto; lia.
  - split; [|split].
    + unfold GInv, upd_q, qcontent, pv, qm in *; fld. exact HG.
    + unfold PInv, upd_q, qm in *; fld. exact HP.
    + unfold CInv, upd_q, pv in *; fld. repeat split; auto; lia.
Qed.

Ltac split_inv := refine (conj _ (conj _ (conj _ _))).

Theorem qstep_inv t c c' e :
  Inv c -> step1 (qstep oq_ords_sync) t c = Some (c', e) -> Inv c'.
Proof.
  destruct c as [g ls]. intros (HG & HP & HC & HO) Hs. unfold step1 in Hs. cbn [fst snd] in *.
  destruct (qstep oq_ords_sync t g (ls t)) as [[[g' l'] e']|] eqn:Est; [|discriminate].
  inversion Hs; subst c' e; clear Hs. unfold Inv; cbn [fst snd].
  pose proof HG as (Hrw & Hwr & Hlen & Hrace & Hlrem & Hlcum & Hpv & Hcons).
  pose proof (pc_owner g ls t HP HC HO) as Hown.
  unfold qstep in Est.
  destruct (qat (ls t)) as [|v w|v w r|v w r|w r|r|r|r|r v fresh|r] eqn:Epc.
  - (* Idle: start of an operation *)
    destruct (qprog (ls t)) as [|o p] eqn:Eprog; [discriminate|].
    destruct o as [v|]; destruct t as [|[|t]]; try discriminate.
    + (* push: load of the own cursor *)
      inversion Est; subst; clear Est.
      rewrite upd_l_same. rewrite upd_l_other by discriminate.
      split_inv; [exact HG| |exact HC|apply others_kept; auto].
      destruct HP as (A & B & D). rewrite Epc in D. destruct D as (D1 & D2).
      unfold PInv; fld. repeat split; auto.
    + (* pop: load of read_position, possibly stale; acquire *)
      destruct HC as (A & B & C & D & F & _).
      unfold next_choice in Est.
      set (kk := match qoracle g with [] => 0 | k :: _ => k end).
      pose proof (stale_bounds (qrp g) (seenR (ls 1%nat)) kk C) as (S1 & S2).
      set (r := stale (qrp g) (seenR (ls 1%nat)) kk) in *.
      assert (Est' : g' = set_oracle g (tl (qoracle g)) /\
                     l' = set_q (ls 1%nat) p (QPopLoadWp r) r (N.max (seenW (ls 1%nat)) (pv g r))
                                (N.max (acqW (ls 1%nat)) (pv g r)) (acqR (ls 1%nat))).
      { subst kk r. destruct (qoracle g) as [|k orc]; cbn [tl] in *;
        cbn [q_pop_load_rp q_push_cas oq_ords_sync is_acq is_rel andb] in Est;
        inversion Est; subst; split; reflexivity. }
      clear Est. destruct Est' as (-> & ->).
      rewrite upd_l_same. rewrite upd_l_other by discriminate.
      split_inv; [apply ginv_set_oracle; exact HG|apply pinv_set_oracle; exact HP| |apply others_kept; auto].
      assert (Hpvr : pv g r <= qwp g) by (apply Hpv; lia).
      unfold CInv, set_oracle, upd_q, pv in *; fld.
      split; [lia|]. split; [lia|]. split; [lia|]. split.
      { destruct (N.eq_dec r (seenR (ls 1%nat))) as [E|E]; [lia|].
        assert (r + qcap g <= pvl (cum g) r) by (apply F; lia). lia. }
      split; [|reflexivity]. intros v0 H1 H2. apply F; lia.
  - (* PushLoadRp: load of read_position, possibly stale; acquire *)
    subst t. destruct HP as (A & B & D). rewrite Epc in D. destruct D as (D1 & -> & D3).
    unfold next_choice in Est.
    set (kk := match qoracle g with [] => 0 | k :: _ => k end).
    pose proof (stale_bounds (qrp g) (seenR (ls 0%nat)) kk B) as (S1 & S2).
    set (r := stale (qrp g) (seenR (ls 0%nat)) kk) in *.
    assert (Est' : g' = set_oracle g (tl (qoracle g)) /\
                   l' = set_q (ls 0%nat) (qprog (ls 0%nat)) (QPushWrite v (qwp g) r) r (seenW (ls 0%nat))
                              (acqW (ls 0%nat)) (N.max (acqR (ls 0%nat)) r)).
    { subst kk r. destruct (qoracle g) as [|k orc]; cbn [tl] in *;
      cbn [q_push_load_rp oq_ords_sync is_acq] in Est; inversion Est; subst; split; reflexivity. }
    clear Est. destruct Est' as (-> & ->).
    rewrite upd_l_same. rewrite upd_l_other by discriminate.
    split_inv; [apply ginv_set_oracle; exact HG| |apply cinv_set_oracle; exact HC|apply others_kept; auto].
    unfold PInv, set_oracle, upd_q; fld. repeat split; auto; lia.
  - (* PushWrite: the slot write is ordered after the read of its previous user *)
    subst t. destruct HP as (A & B & D). rewrite Epc in D. destruct D as (D1 & -> & -> & D4 & D5).
    assert (Hnr : write_racy oq_ords_sync g (ls 0%nat) (qwp g) = false).
    { unfold write_racy. destruct (N.ltb_spec (qwp g) (qm g)) as [|Hge]; auto.
      unfold qm in *.
      destruct (nth_error_lenN (qremoved g) (qwp g - (qcap g + 1))) as ([x b] & E); [lia|].
      rewrite E. destruct b; auto.
      cbn [q_pop_cas oq_ords_sync is_rel andb].
      destruct (N.leb_spec (qwp g - (qcap g + 1) + 1) (acqR (ls 0%nat))); auto. lia. }
    rewrite Hnr, Hrace in Est. cbn [orb] in Est. inversion Est; subst g' l'; clear Est.
    rewrite upd_l_same. rewrite upd_l_other by discriminate.
    rewrite D1 in Hwr.
    assert (Hcont : qcontent_from (updN (qslots g) (qwp g mod qm g) v) (qm g) (qrp g) (N.to_nat (qwp g - qrp g)) = qcontent g).
    { unfold qcontent. apply qcontent_from_upd_other. intros k Hk.
      replace (qwp g) with ((qrp g + N.of_nat k) + (qwp g - qrp g - N.of_nat k)) at 1 by lia.
      intro Heq. symmetry in Heq. revert Heq. unfold qm. apply mod_add_neq; lia. }
    split_inv; [| | |apply others_kept; auto].
    + unfold GInv, upd_q, qcontent, pv, qm in *; fld. rewrite lenN_updN, D1.
      repeat split; auto; try lia. rewrite Hcont. exact Hcons.
    + unfold PInv, upd_q, qm in *; fld. repeat split; auto.
      apply nthN_updN_same. rewrite Hlen. apply mod_lt'; lia.
    + destruct HC as (A' & B' & C' & D' & F' & G'). unfold CInv, upd_q, pv, qm in *; fld.
      repeat split; auto.
      destruct (qat (ls 1%nat)) as [|v0 w0|v0 w0 r0|v0 w0 r0|w0 r0|r0|r0|r0|r0 v0 fresh0|r0]; auto.
      destruct G' as (-> & G2 & G3 & G4). repeat split; auto. intros E.
      rewrite nthN_updN_other; auto. rewrite E.
      replace (qwp g) with (qrp g + (qwp g - qrp g)) by lia. apply mod_add_neq; lia.
  - (* PushStore: publication *)
    subst t. destruct HP as (A & B & D). rewrite Epc in D. destruct D as (D1 & -> & -> & D4 & D5 & D6).
    rewrite D1 in Hwr.
    assert (Hc' : qpushed g ++ [v] = map fst (qremoved g) ++
              qcontent_from (qslots g) (qm g) (qrp g) (N.to_nat (qwp g + 1 - qrp g))).
    { rewrite Hcons, <- app_assoc. f_equal. unfold qcontent.
      replace (N.to_nat (qwp g + 1 - qrp g)) with (S (N.to_nat (qwp g - qrp g))) by lia.
      rewrite qcontent_from_snoc. f_equal. f_equal. rewrite <- D6. f_equal. f_equal. lia. }
    destruct (N.eqb_spec (qwp g) (seenR (ls 0%nat) + qcap g)) as [Ef|Enf];
      inversion Est; subst g' l'; clear Est;
      rewrite upd_l_same; rewrite upd_l_other by discriminate.
    + split_inv; [| | |apply others_kept; auto].
      * unfold GInv, upd_q, qcontent, pv, qm in *; fld. repeat split; auto; try lia.
        intros v0 Hv0. specialize (Hpv v0 Hv0). lia.
      * unfold PInv, upd_q, qm in *; fld. repeat split; auto.
      * destruct HC as (A' & B' & C' & D' & F' & G'). unfold CInv, upd_q, pv, qm in *; fld.
        repeat split; auto; try lia.
    + split_inv; [| | |apply others_kept; auto].
      * unfold GInv, upd_q, qcontent, pv, qm in *; fld. rewrite D1. repeat split; auto; try lia.
        intros v0 Hv0. specialize (Hpv v0 Hv0). lia.
      * unfold PInv, upd_q, qm in *; fld. repeat split; auto; lia.
      * destruct HC as (A' & B' & C' & D' & F' & G'). unfold CInv, upd_q, pv, qm in *; fld.
        repeat split; auto; try lia.
  - (* PushCas: eviction attempt *)
    subst t. destruct HP as (A & B & D). rewrite Epc in D. destruct D as (D1 & D2 & -> & -> & D5).
    rewrite D1 in Hwr.
    destruct (N.eqb_spec (qrp g) (seenR (ls 0%nat))) as [Ef|Enf].
    + (* success *)
      cbn [q_push_cas oq_ords_sync is_acq is_rel] in Est.
      inversion Est; subst g' l'; clear Est.
      rewrite upd_l_same; rewrite upd_l_other by discriminate.
      split_inv; [| | |apply others_kept; auto].
      * unfold GInv, upd_q, qcontent, pv, qm in *; fld. rewrite !lenN_app. cbn [lenN length N.of_nat].
        split; [lia|]. split; [lia|]. split; [exact Hlen|]. split; [exact Hrace|].
        split; [change (lenN (qremoved g) + 1 = seenR (ls 0%nat) + 1); lia|].
        split; [change (lenN (cum g) + 1 = seenR (ls 0%nat) + 1); lia|].
        split.
        { intros v0 Hv0. destruct (N.eq_dec v0 (seenR (ls 0%nat) + 1)) as [E|E].
          - rewrite E. replace (seenR (ls 0%nat) + 1) with (lenN (cum g) + 1) by lia.
            rewrite pvl_app_new. assert (pvl (cum g) (seenR (ls 0%nat)) <= qwp g) by (apply Hpv; lia). lia.
          - rewrite pvl_app_old by lia. apply Hpv. lia. }
        rewrite map_app, <- app_assoc. cbn [map fst app]. rewrite Hcons. f_equal.
        replace (N.to_nat (qwp g - qrp g)) with (S (N.to_nat (qwp g - (seenR (ls 0%nat) + 1)))) by lia.
        cbn [qcontent_from]. rewrite Ef. reflexivity.
      * unfold PInv, upd_q, qm in *; fld. repeat split; auto; lia.
      * destruct HC as (A' & B' & C' & D' & F' & G'). unfold CInv, upd_q, pv, qm in *; fld.
        split; [exact A'|]. split; [exact B'|]. split; [lia|]. split; [exact D'|]. split.
        { intros v0 Hv1 Hv2. destruct (N.eq_dec v0 (seenR (ls 0%nat) + 1)) as [E|E].
          - rewrite E. replace (seenR (ls 0%nat) + 1) with (lenN (cum g) + 1) at 2 by lia.
            rewrite pvl_app_new. lia.
          - rewrite pvl_app_old by lia. apply F'; lia. }
        destruct (qat (ls 1%nat)) as [|v0 w0|v0 w0 r0|v0 w0 r0|w0 r0|r0|r0|r0|r0 v0 fresh0|r0]; auto.
        destruct G' as (-> & G2 & G3 & G4). repeat split; auto. intros E. lia.
    + (* failure: the consumer was faster *)
      unfold next_choice in Est.
      set (kk := match qoracle g with [] => 0 | k :: _ => k end).
      assert (Hlo : N.max (seenR (ls 0%nat)) (seenR (ls 0%nat) + 1) <= qrp g) by lia.
      pose proof (stale_bounds (qrp g) _ kk Hlo) as (S1 & S2).
      set (r' := stale (qrp g) (N.max (seenR (ls 0%nat)) (seenR (ls 0%nat) + 1)) kk) in *.
      assert (Est' : g' = upd_q g (qwp g) (qrp g) (qslots g) (tl (qoracle g)) (race_used g) (race_spec g) false (cspec g)
                                (cum g) (qpushed g) (qremoved g) /\
                     l' = set_q (ls 0%nat) (qprog (ls 0%nat)) QIdle r' (seenW (ls 0%nat)) (acqW (ls 0%nat)) (acqR (ls 0%nat))).
      { subst kk r'. destruct (qoracle g) as [|k orc]; cbn [tl] in *; inversion Est; subst; split; reflexivity. }
      clear Est. destruct Est' as (-> & ->).
      rewrite upd_l_same; rewrite upd_l_other by discriminate.
      split_inv; [| | |apply others_kept; auto].
      * unfold GInv, upd_q, qcontent, pv, qm in *; fld. repeat split; auto; lia.
      * unfold PInv, upd_q, qm in *; fld. repeat split; auto; lia.
      * destruct HC as (A' & B' & C' & D' & F' & G'). unfold CInv, upd_q, pv, qm in *; fld.
        repeat split; auto.
  - (* PushReadOld: the evicted value is read back *)
    subst t. destruct HP as (A & B & D). rewrite Epc in D. destruct D as (D1 & D2).
    inversion Est; subst g' l'; clear Est.
    rewrite upd_l_same; rewrite upd_l_other by discriminate.
    split_inv; [exact HG| |exact HC|apply others_kept; auto].
    unfold PInv; fld. repeat split; auto.
  - (* PopLoadWp *)
    subst t. pose proof HC as (A & B & C & D & F & G). rewrite Epc in G.
    destruct (pop_load_wp oq_ords_sync _ g (ls 1%nat) r) as [[g1 l1] e1] eqn:Eplw.
    inversion Est; subst g' l' e'; clear Est.
    destruct (pop_load_wp_inv _ g (ls 1%nat) (ls 0%nat) r g1 l1 e1 HG HP A B C D F G Eplw) as (X & Y & Z).
    rewrite upd_l_same; rewrite upd_l_other by discriminate.
    split_inv; auto. apply others_kept; auto.
  - (* PopRead: the slot read; fresh *)
    subst t. pose proof HC as (A & B & C & D & F & G). rewrite Epc in G. destruct G as (-> & G2).
    inversion Est; subst g' l'; clear Est.
    rewrite upd_l_same; rewrite upd_l_other by discriminate.
    split_inv; [exact HG|exact HP| |apply others_kept; auto].
    unfold CInv; fld. repeat split; auto.
    destruct (N.ltb_spec (seenR (ls 1%nat)) (acqW (ls 1%nat))); auto; lia.
  - (* PopCas *)
    subst t. pose proof HC as (A & B & C & D & F & G). rewrite Epc in G. destruct G as (-> & -> & G3 & G4).
    destruct (N.eqb_spec (qrp g) (seenR (ls 1%nat))) as [Ef|Enf].
    + (* success: the value read is the head of the queue *)
      inversion Est; subst g' l'; clear Est.
      rewrite upd_l_same; rewrite upd_l_other by discriminate.
      specialize (G4 (eq_sym Ef)).
      split_inv; [| | |apply others_kept; auto].
      * unfold GInv, upd_q, qcontent, pv, qm in *; fld. rewrite !lenN_app. cbn [lenN length N.of_nat].
        split; [lia|]. split; [lia|]. split; [exact Hlen|]. split; [rewrite Hrace; reflexivity|].
        split; [change (lenN (qremoved g) + 1 = seenR (ls 1%nat) + 1); lia|].
        split; [change (lenN (cum g) + 1 = seenR (ls 1%nat) + 1); lia|].
        split.
        { intros v0 Hv0. destruct (N.eq_dec v0 (seenR (ls 1%nat) + 1)) as [E|E].
          - rewrite E. replace (seenR (ls 1%nat) + 1) with (lenN (cum g) + 1) by lia.
            rewrite pvl_app_new. apply Hpv; lia.
          - rewrite pvl_app_old by lia. apply Hpv. lia. }
        rewrite map_app, <- app_assoc. cbn [map fst app]. rewrite Hcons. f_equal.
        replace (N.to_nat (qwp g - qrp g)) with (S (N.to_nat (qwp g - (seenR (ls 1%nat) + 1)))) by lia.
        cbn [qcontent_from]. rewrite Ef, G4. reflexivity.
      * destruct HP as (A' & B' & D'). unfold PInv, upd_q, qm in *; fld.
        split; [exact A'|]. split; [lia|].
        destruct (qat (ls 0%nat)); auto.
      * unfold CInv, upd_q, pv, qm in *; fld. repeat split; auto; try lia.
    + (* failure: an eviction was faster; the failed compare-exchange is an acquire load *)
      unfold next_choice in Est.
      set (kk := match qoracle g with [] => 0 | k :: _ => k end).
      assert (Hlo : N.max (seenR (ls 1%nat)) (seenR (ls 1%nat) + 1) <= qrp g) by lia.
      pose proof (stale_bounds (qrp g) _ kk Hlo) as (S1 & S2).
      set (r' := stale (qrp g) (N.max (seenR (ls 1%nat)) (seenR (ls 1%nat) + 1)) kk) in *.
      assert (Est' : g' = upd_q g (qwp g) (qrp g) (qslots g) (tl (qoracle g)) (race_used g) (race_spec g) (qovf g) None
                                (cum g) (qpushed g) (qremoved g) /\
                     l' = set_q (ls 1%nat) (qprog (ls 1%nat)) (QPopRecheck r') r'
                                (N.max (seenW (ls 1%nat)) (pv g r')) (N.max (acqW (ls 1%nat)) (pv g r')) (acqR (ls 1%nat))).
      { subst kk r'. destruct (qoracle g) as [|k orc]; cbn [tl] in *;
        cbn [q_pop_cas_fail q_push_cas oq_ords_sync is_acq is_rel andb] in Est;
        inversion Est; subst; split; reflexivity. }
      clear Est. destruct Est' as (-> & ->).
      rewrite upd_l_same; rewrite upd_l_other by discriminate.
      assert (Hpvr : pv g r' <= qwp g) by (apply Hpv; lia).
      assert (Hcar : r' + qcap g <= pv g r') by (apply F; lia).
      split_inv; [| | |apply others_kept; auto].
      * unfold GInv, upd_q, qcontent, pv, qm in *; fld. exact HG.
      * unfold PInv, upd_q, qm in *; fld. exact HP.
      * unfold CInv, upd_q, pv, qm in *; fld.
        split; [lia|]. split; [lia|]. split; [lia|]. split; [lia|]. split; [|reflexivity].
        intros v0 Hv1 Hv2. apply F; lia.
  - (* PopRecheck *)
    subst t. pose proof HC as (A & B & C & D & F & G). rewrite Epc in G.
    destruct (pop_load_wp oq_ords_sync _ g (ls 1%nat) r) as [[g1 l1] e1] eqn:Eplw.
    inversion Est; subst g' l' e'; clear Est.
    destruct (pop_load_wp_inv _ g (ls 1%nat) (ls 0%nat) r g1 l1 e1 HG HP A B C D F G Eplw) as (X & Y & Z).
    rewrite upd_l_same; rewrite upd_l_other by discriminate.
    split_inv; auto. apply others_kept; auto.
Qed.

(* ---------------- consequences ---------------- *)
Theorem qra_inv_reachable c orc pushes pops cfg0 :
  reachable (qstep oq_ords_sync) (qinit c orc pushes pops) cfg0 -> Inv cfg0.
Proof.
  apply (inv_reachable qgst qlst ev (qstep oq_ords_sync) Inv).
  - apply inv_init.
  - intros t c0 c' e HI Hs. eapply qstep_inv; eauto.
Qed.

Lemma qstep_cap Q t g l g' l' e : qstep Q t g l = Some (g', l', e) -> qcap g' = qcap g.
Proof.
  unfold qstep, pop_load_wp, next_choice. intros H.
  repeat match type of H with
  | context [match ?x with _ => _ end] => destruct x
  | context [let '(_, _) := ?x in _] => destruct x
  end; inversion H; subst; reflexivity.
Qed.

Lemma qra_reachable_cap Q c orc pushes pops cfg0 :
  reachable (qstep Q) (qinit c orc pushes pops) cfg0 -> qcap (fst cfg0) = c.
Proof.
  apply (inv_reachable qgst qlst ev (qstep Q) (fun c0 => qcap (fst c0) = c)); [reflexivity|].
  intros t [g ls] c' e Hcc Hs. unfold step1 in Hs. cbn [fst snd] in *.
  destruct (qstep Q t g (ls t)) as [[[g' l'] e']|] eqn:Est; [|discriminate].
  inversion Hs; subst c' e. cbn [fst]. rewrite (qstep_cap _ _ _ _ _ _ _ Est). exact Hcc.
Qed.

(* With the orderings of the current code, under release/acquire semantics with arbitrarily
   stale reads of both cursors (plain loads and failed compare-exchanges): every slot access
   whose value is used is ordered (no data race on a returned value), every pushed value is
   exactly once removed from the head (popped or evicted, in push order) or still queued, and
   at most capacity + 1 values are queued -- for every capacity (0 included), every schedule,
   every staleness oracle, any number of pushes and pops. *)
Theorem qra_used_race_free_and_conserving c orc pushes pops g ls :
  reachable (qstep oq_ords_sync) (qinit c orc pushes pops) (g, ls) ->
  race_used g = false /\ qpushed g = map fst (qremoved g) ++ qcontent g /\
  (length (qcontent g) <= N.to_nat c + 1)%nat.
Proof.
  intros Hr. pose proof (qra_inv_reachable c orc pushes pops (g, ls) Hr) as (HG & _).
  pose proof (qra_reachable_cap oq_ords_sync c orc pushes pops (g, ls) Hr) as Ecap.
  cbn [fst] in *. destruct HG as (Hrw & Hwr & Hlen & Hrace & Hlrem & Hlcum & Hpv & Hcons).
  repeat split; auto. rewrite qcontent_length. destruct (qovf g); lia.
Qed.

(* the value a successful pop returns was read while the consumer had the write of that
   position in its acquired view *)
Theorem qra_pop_reads_fresh c orc pushes pops g ls r v fresh :
  reachable (qstep oq_ords_sync) (qinit c orc pushes pops) (g, ls) ->
  qat (ls 1%nat) = QPopCas r v fresh ->
  fresh = true /\ (r = qrp g -> hd_error (qcontent g) = Some v).
Proof.
  intros Hr Hpc. pose proof (qra_inv_reachable c orc pushes pops (g, ls) Hr) as (HG & _ & HC & _).
  cbn [fst snd] in *. destruct HC as (A & B & C & D & F & G). rewrite Hpc in G.
  destruct G as (-> & -> & G3 & G4). split; auto. intros E. specialize (G4 E).
  unfold qcontent. replace (N.to_nat (qwp g - qrp g)) with (S (N.to_nat (qwp g - (qrp g + 1)))) by lia.
  cbn [qcontent_from hd_error]. rewrite <- E, G4. reflexivity.
Qed.

(* ---- every one of the seven orderings is needed: weakening it alone admits an execution with
        a racy access to a value that is returned (schedule + oracle, checked by computation) ---- *)
Definition with_push_load_rp (o : ord) : qords :=
  {| q_push_load_rp := o; q_push_store_wp := Release; q_push_cas := AcqRel;
     q_pop_load_rp := Acquire; q_pop_load_wp := Acquire; q_pop_cas := Release; q_pop_cas_fail := Acquire |}.
Definition with_push_store_wp (o : ord) : qords :=
  {| q_push_load_rp := Acquire; q_push_store_wp := o; q_push_cas := AcqRel;
     q_pop_load_rp := Acquire; q_pop_load_wp := Acquire; q_pop_cas := Release; q_pop_cas_fail := Acquire |}.
Definition with_push_cas (o : ord) : qords :=
  {| q_push_load_rp := Acquire; q_push_store_wp := Release; q_push_cas := o;
     q_pop_load_rp := Acquire; q_pop_load_wp := Acquire; q_pop_cas := Release; q_pop_cas_fail := Acquire |}.
Definition with_pop_load_rp (o : ord) : qords :=
  {| q_push_load_rp := Acquire; q_push_store_wp := Release; q_push_cas := AcqRel;
     q_pop_load_rp := o; q_pop_load_wp := Acquire; q_pop_cas := Release; q_pop_cas_fail := Acquire |}.
Definition with_pop_load_wp (o : ord) : qords :=
  {| q_push_load_rp := Acquire; q_push_store_wp := Release; q_push_cas := AcqRel;
     q_pop_load_rp := Acquire; q_pop_load_wp := o; q_pop_cas := Release; q_pop_cas_fail := Acquire |}.
Definition with_pop_cas (o : ord) : qords :=
  {| q_push_load_rp := Acquire; q_push_store_wp := Release; q_push_cas := AcqRel;
     q_pop_load_rp := Acquire; q_pop_load_wp := Acquire; q_pop_cas := o; q_pop_cas_fail := Acquire |}.
Definition with_pop_cas_fail (o : ord) : qords :=
  {| q_push_load_rp := Acquire; q_push_store_wp := Release; q_push_cas := AcqRel;
     q_pop_load_rp := Acquire; q_pop_load_wp := Acquire; q_pop_cas := Release; q_pop_cas_fail := o |}.

Definition used_race_after (Q : qords) (c : N) (orc : list N) (pushes : list N) (pops : nat) (s : list nat) : bool :=
  race_used (q_after Q c orc pushes pops s).

(* W1: push 7, pop it, push 8, push 9 re-uses the slot of 7: the write must be ordered after the
   consumer's read *)
Definition w1_sched : list nat := [0;0;0;0; 1;1;1;1; 0;0;0;0; 0;0;0]%nat.
(* W2: push 7, push 8 evicts 7; the consumer learns read_position = 1 from the eviction but reads
   a stale write_position and takes slot 1 before its write is visible *)
Definition w2_sched : list nat := [0;0;0;0; 0;0;0;0;0;0; 1;1;1;1]%nat.
Definition w2_orc : list N := [0; 0; 0; 1000].
(* W4: the consumer is inside pop(0) when two pushes evict 7 and 8; its compare-exchange fails
   and reads read_position = 2; a stale write_position then lets it take slot 2 unsynchronised *)
Definition w4_sched : list nat := [0;0;0;0; 1;1;1; 0;0;0;0;0;0; 0;0;0;0;0;0; 1; 1;1;1]%nat.
Definition w4_orc : list N := [0; 0; 0; 0; 0; 0; 1000].
(* W5: push 7, pop: the slot read needs the acquire/release pair on write_position *)
Definition w5_sched : list nat := [0;0;0;0; 1;1;1;1]%nat.

Example qra_orderings_necessary :
  used_race_after (with_push_load_rp Relaxed) 1 [] [7;8;9] 1 w1_sched = true /\
  used_race_after (with_pop_cas Relaxed) 1 [] [7;8;9] 1 w1_sched = true /\
  used_race_after (with_pop_load_rp Relaxed) 1 w2_orc [7;8] 1 w2_sched = true /\
  used_race_after (with_push_cas Acquire) 1 w2_orc [7;8] 1 w2_sched = true /\
  used_race_after (with_pop_cas_fail Relaxed) 1 w4_orc [7;8;9] 1 w4_sched = true /\
  used_race_after (with_pop_load_wp Relaxed) 1 [] [7] 1 w5_sched = true /\
  used_race_after (with_push_store_wp Relaxed) 1 [] [7] 1 w5_sched = true /\
  used_race_after oq_ords_sync 1 [] [7;8;9] 1 w1_sched = false /\
  used_race_after oq_ords_sync 1 w2_orc [7;8] 1 w2_sched = false /\
  used_race_after oq_ords_sync 1 w4_orc [7;8;9] 1 w4_sched = false /\
  used_race_after oq_ords_sync 1 [] [7] 1 w5_sched = false.
Proof. vm_compute. repeat split. Qed.

(* the table of the pinned upstream commit (read_position: push load Relaxed, pop load Relaxed,
   pop compare-exchange Relaxed on success) admits both W1 and W2 *)
Example qra_upstream_table_refuted :
  used_race_after oq_ords_upstream 1 [] [7;8;9] 1 w1_sched = true /\
  used_race_after oq_ords_upstream 1 w2_orc [7;8] 1 w2_sched = true.
Proof. vm_compute. auto. Qed.

(* the speculative read: the consumer has loaded read_position = 0 and write_position = 1 and
   is about to read slot 0 when two pushes evict 7 and then re-use slot 0 for 9.  The slot
   read and the slot write are unordered whatever the orderings of the cursors are (here: the
   current table and all-SeqCst); the value read is discarded because the compare-exchange
   fails, the pop returns 8. *)
Definition w3_sched : list nat := [0;0;0;0; 1;1; 0;0;0;0;0;0; 0;0;0; 1;1;1;1;1]%nat.
Definition all_seqcst : qords :=
  {| q_push_load_rp := SeqCst; q_push_store_wp := SeqCst; q_push_cas := SeqCst;
     q_pop_load_rp := SeqCst; q_pop_load_wp := SeqCst; q_pop_cas := SeqCst; q_pop_cas_fail := SeqCst |}.
Example qra_speculative_read_races :
  let g := q_after oq_ords_sync 1 [] [7;8;9] 1 w3_sched in
  let g' := q_after all_seqcst 1 [] [7;8;9] 1 w3_sched in
  race_spec g = true /\ race_used g = false /\ qremoved g = [(7, false); (8, true)] /\
  race_spec g' = true /\ race_used g' = false.
Proof. vm_compute. repeat split. Qed.

(* non-vacuity of the main theorem: a reachable state with a stale read of read_position by the
   producer (it saw 0 instead of 1, reported "full" and lost the compare-exchange) *)
Example qra_nonvacuous_stale_read :
  let g := q_after oq_ords_sync 1 [0; 0; 0; 5] [7; 8] 1 [0;0;0;0; 1;1;1;1; 0;0;0;0;0]%nat in
  qrp g = 1 /\ qwp g = 2 /\ qpushed g = [7; 8] /\ qremoved g = [(7, true)] /\ qcontent g = [8] /\ race_used g = false.
Proof. vm_compute. repeat split. Qed.
