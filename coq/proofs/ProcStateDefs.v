(* C07: definitions shared by the instance theorems of the process_state.rs step model, by verified reachability closure
   (proofs/ProcStateClosure.v: all schedules of a fixed finite instance), finite crash-point
   tables (sequential follow-up after a kill before each call), and concrete refuting schedules. *)
From V Require Import model.Base model.Conc model.Fs model.ProcState proofs.ProcStateClosure.
Open Scope N_scope.

Definition has_ret (op code : N) (es : list pev) : bool :=
  existsb (fun e => match e with ERet o c => N.eqb o op && N.eqb c code | _ => false end) es.
Lemma has_ret_In op code es : In (ERet op code) es -> has_ret op code es = true.
Proof.
  intros H. unfold has_ret. apply existsb_exists. exists (ERet op code). split; auto.
  now rewrite !N.eqb_refl.
Qed.
Definition guard_crashed (s : st) : bool := match nth_error (snd s) 0 with Some l => crashed l | None => false end.

(* the property of one transition: it neither returns the verdict Dead nor hands out a
   ProcessCleaner, unless the guard process (process 0) has crashed *)
Definition P_safe (s : st) (t : nat) (es : list pev) : bool :=
  Nat.ltb 0 (length (snd s)) && ((negb (has_ret OP_STATE VDead es) && negb (has_ret OP_CLEAN 0 es)) || guard_crashed s).

(* an F_GETLK on the state file issued after the death of the guard process never sees its lock *)
Definition sees_state_lock (es : list pev) : bool :=
  existsb (fun e => match e with ECall r (KGetlk LWrite) (RLock (Some LWrite)) => N.eqb r R_STATE | _ => false end) es.
Definition P_nolock (s : st) (t : nat) (es : list pev) : bool :=
  Nat.ltb 0 (length (snd s)) && negb (guard_crashed s && sees_state_lock es).

(* instances: process 0 = the guarded process over its whole life (create, hold, orderly drop),
   optionally killed before its k-th call; process 1 = one monitor / one cleaner *)
Definition inst_mon (k : option nat) : list (list pop * option nat) := [([OCreate; ODrop], k); ([OState], None)].
Definition inst_cln (k : option nat) : list (list pop * option nat) := [([OCreate; ODrop], k); ([OClean; OCDrop], None)].
Definition inst_mon_exit : list (list pop * option nat) := [([OCreate; OExit], None); ([OState], None)].

Definition FUEL := 20000%nat.
Definition check_with (priv nlc : bool) P ps (S : list st) : bool := mem (init_st ps) S && closed priv nlc P S.
Notation check priv nlc P ps := (check_with priv nlc P ps (reach_set priv nlc ps FUEL)).

Lemma check_with_sound priv nlc P ps S :
  check_with priv nlc P ps S = true ->
  forall sched t c' es,
    step1 (step priv nlc) t (fst (run (step priv nlc) sched (init (progs_of ps) (kills_of ps)))) = Some (c', es) ->
    exists s, rel (fst (run (step priv nlc) sched (init (progs_of ps) (kills_of ps)))) s /\ P s t es = true.
Proof.
  intros H. unfold check_with in H. apply andb_prop in H. destruct H as [Hm Hc].
  intros. eapply closed_transitions; eauto. apply rel_init.
Qed.

(* the guard process of a related list state *)
Lemma rel_guard c s : rel c s -> Nat.ltb 0 (length (snd s)) = true ->
  exists l, nth_error (snd s) 0 = Some l /\ snd c 0%nat = l.
Proof.
  intros [_ Hl] Hlen. specialize (Hl 0%nat).
  destruct (nth_error (snd s) 0) as [l|] eqn:E; [eauto|].
  apply nth_error_None in E. apply Nat.ltb_lt in Hlen. lia.
Qed.

Lemma safe_conclusion priv ps sched t c' es :
  check priv true P_safe ps = true ->
  step1 (step priv true) t (fst (run (step priv true) sched (init (progs_of ps) (kills_of ps)))) = Some (c', es) ->
  In (ERet OP_STATE VDead) es \/ In (ERet OP_CLEAN 0) es ->
  crashed (snd (fst (run (step priv true) sched (init (progs_of ps) (kills_of ps)))) 0%nat) = true.
Proof.
  intros Hc Hst Hin.
  destruct (check_with_sound _ _ _ _ _ Hc _ _ _ _ Hst) as [s [Hrel HP]].
  unfold P_safe in HP. apply andb_prop in HP. destruct HP as [Hlen HP].
  destruct (rel_guard _ _ Hrel Hlen) as [l [E Hl]].
  unfold guard_crashed in HP. rewrite E in HP. rewrite Hl.
  apply orb_prop in HP. destruct HP as [HP|HP]; [|exact HP].
  apply andb_prop in HP. destruct HP as [H1 H2].
  destruct Hin as [Hin|Hin]; apply has_ret_In in Hin; rewrite Hin in *; discriminate.
Qed.

Lemma nolock_conclusion priv ps sched t c' es :
  check priv true P_nolock ps = true ->
  step1 (step priv true) t (fst (run (step priv true) sched (init (progs_of ps) (kills_of ps)))) = Some (c', es) ->
  crashed (snd (fst (run (step priv true) sched (init (progs_of ps) (kills_of ps)))) 0%nat) = true ->
  sees_state_lock es = false.
Proof.
  intros Hc Hst Hcr.
  destruct (check_with_sound _ _ _ _ _ Hc _ _ _ _ Hst) as [s [Hrel HP]].
  unfold P_nolock in HP. apply andb_prop in HP. destruct HP as [Hlen HP].
  destruct (rel_guard _ _ Hrel Hlen) as [l [E Hl]].
  unfold guard_crashed in HP. rewrite E in HP. rewrite Hl in Hcr. rewrite Hcr in HP.
  cbn in HP. now destruct (sees_state_lock es).
Qed.

(* ---------------- crash-point tables: sequential follow-up ---------------- *)
(* the processes run one after the other, each until it cannot move any more *)
Definition seq_sched (n : nat) : list nat := concat (map (fun t => repeat t 120) (seq 0 n)).
Definition rets (tr : list (nat * pev)) : list (nat * N * N) :=
  flat_map (fun x => match snd x with ERet op code => [(fst x, op, code)] | _ => [] end) tr.
Definition seq_rets (priv : bool) (ps : list (list pop * option nat)) : list (nat * N * N) * list (N * N) :=
  let r := run (step priv true) (seq_sched (length ps)) (init (progs_of ps) (kills_of ps)) in
  (rets (snd r), fs_listing (fst (fst r))).

Definition FOLLOW : list pop := [OState; OClean; OCDrop; OState].
(* guard killed before its k-th call (create = calls 0..11, drop = 12..20), then a fresh process *)
Definition after_guard_kill (priv : bool) (k : nat) := seq_rets priv [([OCreate; ODrop], Some k); (FOLLOW, None)].
Definition follow (a b c d : N) : list (nat * N * N) := [(1%nat, OP_STATE, a); (1%nat, OP_CLEAN, b); (1%nat, OP_CDROP, c); (1%nat, OP_STATE, d)].
Definition expect_guard (k : nat) : list (nat * N * N) :=
  if Nat.leb k 1 then follow VDNE K_DoesNotExist 0 VDNE
  else if Nat.leb k 11 then follow VStarting K_Initializing 0 VStarting
  else if Nat.leb k 13 then (0%nat, OP_CREATE, 0) :: follow VDead 0 0 VDNE
  else if Nat.leb k 19 then (0%nat, OP_CREATE, 0) :: follow VCleaning K_BeingCleaned 0 VCleaning
  else (0%nat, OP_CREATE, 0) :: follow VDNE K_DoesNotExist 0 VDNE.

Definition trip_eqb (a b : nat * N * N) : bool :=
  Nat.eqb (fst (fst a)) (fst (fst b)) && N.eqb (snd (fst a)) (snd (fst b)) && N.eqb (snd a) (snd b).
Fixpoint list_eqb {A} (e : A -> A -> bool) (a b : list A) : bool :=
  match a, b with [], [] => true | x :: a', y :: b' => e x y && list_eqb e a' b' | _, _ => false end.
Lemma trip_eqb_eq a b : trip_eqb a b = true -> a = b.
Proof.
  destruct a as [[a1 a2] a3], b as [[b1 b2] b3]. unfold trip_eqb. cbn. intros H.
  apply andb_prop in H. destruct H as [H H3]. apply andb_prop in H. destruct H as [H1 H2].
  apply Nat.eqb_eq in H1. apply N.eqb_eq in H2. apply N.eqb_eq in H3. now subst.
Qed.
Lemma list_eqb_eq {A} (e : A -> A -> bool) (He : forall a b, e a b = true -> a = b) a b : list_eqb e a b = true -> a = b.
Proof.
  revert b. induction a as [|x a IH]; intros [|y b]; cbn; try discriminate; auto.
  intros H. apply andb_prop in H. destruct H as [H1 H2]. f_equal; auto.
Qed.

