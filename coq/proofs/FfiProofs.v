(* C18 part A -- soundness of the boolean table checkers of model/Ffi.v: `<pred>_b ... = true`
   implies the Prop it stands for.  Generic in the tables (nothing here mentions the generated
   file), so these lemmas survive every regeneration. *)
From V Require Import model.Base model.Ffi.
From Coq Require Import String.
Open Scope string_scope.

Lemma key_eqb_eq : forall a b : key, key_eqb a b = true <-> a = b.
Proof.
  intros [a1 a2] [b1 b2]. unfold key_eqb. cbn [fst snd].
  rewrite andb_true_iff, !String.eqb_eq. split.
  - intros [H1 H2]. subst. reflexivity.
  - intros H. inversion H. split; reflexivity.
Qed.

Lemma kmem_In : forall x l, kmem x l = true <-> In x l.
Proof.
  intros x l. unfold kmem. rewrite existsb_exists. split.
  - intros [y [Hy He]]. apply key_eqb_eq in He. subst. exact Hy.
  - intros H. exists x. split; [exact H | apply key_eqb_eq; reflexivity].
Qed.

Lemma smem_In : forall x l, smem x l = true <-> In x l.
Proof.
  intros x l. unfold smem. rewrite existsb_exists. split.
  - intros [y [Hy He]]. apply String.eqb_eq in He. subst. exact Hy.
  - intros H. exists x. split; [exact H | apply String.eqb_refl].
Qed.

Lemma oz_eqb_true : forall a b, oz_eqb a b = true <-> exists z, a = Some z /\ b = Some z.
Proof.
  intros [x|] [y|]; cbn [oz_eqb]; split; intros H; try discriminate;
    try (destruct H as [z [H1 H2]]; discriminate).
  - apply Z.eqb_eq in H. subst. exists y. split; reflexivity.
  - destruct H as [z [H1 H2]]. inversion H1. inversion H2. subst. apply Z.eqb_refl.
Qed.

Lemma nodup_sb_NoDup : forall l, nodup_sb l = true -> NoDup l.
Proof.
  induction l as [|x t IH]; intros H.
  - constructor.
  - cbn [nodup_sb] in H. apply andb_true_iff in H. destruct H as [Hx Ht].
    constructor.
    + intros Hin. apply smem_In in Hin. rewrite Hin in Hx. discriminate.
    + apply IH. exact Ht.
Qed.

Lemma nodup_zb_NoDup : forall l, nodup_zb l = true -> NoDup l.
Proof.
  induction l as [|x t IH]; intros H.
  - constructor.
  - cbn [nodup_zb] in H. apply andb_true_iff in H. destruct H as [Hx Ht].
    constructor.
    + intros Hin. assert (He : existsb (Z.eqb x) t = true).
      { apply existsb_exists. exists x. split; [exact Hin | apply Z.eqb_refl]. }
      rewrite He in Hx. discriminate.
    + apply IH. exact Ht.
Qed.

Lemma is_some_true : forall A (o : option A), is_some o = true -> exists z, o = Some z.
Proof. intros A [z|] H; [exists z; reflexivity | discriminate]. Qed.

(* ---- per-map lemmas ---- *)
Lemma total_b_sound : forall cs exc m, total_b cs exc m = true -> total cs exc m.
Proof.
  intros cs exc m H l Hl Hexc. unfold total_b in H. rewrite forallb_forall in H.
  specialize (H l Hl). apply orb_true_iff in H. destruct H as [H|H].
  - apply kmem_In in H. contradiction.
  - apply is_some_true in H. exact H.
Qed.

Lemma single_cenum_b_sound : forall m, single_cenum_b m = true -> single_cenum m.
Proof.
  intros m H a b ea eb Ha Hb Hea Heb. unfold single_cenum_b in H.
  rewrite forallb_forall in H. specialize (H a Ha). rewrite forallb_forall in H.
  specialize (H b Hb). rewrite Hea, Heb in H. apply String.eqb_eq in H. exact H.
Qed.

Lemma pairwise_sound : forall (ls : list leaf) (p : leaf -> leaf -> bool),
  forallb (fun a => forallb (fun b => p a b) ls) ls = true ->
  forall a b, In a ls -> In b ls -> p a b = true.
Proof.
  intros ls p H a b Ha Hb. rewrite forallb_forall in H. specialize (H a Ha).
  rewrite forallb_forall in H. exact (H b Hb).
Qed.

Lemma injective_leaf_b_sound : forall cs exc m, injective_leaf_b cs exc m = true -> injective_leaf cs exc m.
Proof.
  intros cs exc m H a b z Ha Hb Hca Hcb. unfold injective_leaf_b in H.
  pose proof (pairwise_sound _ _ H a b Ha Hb) as P. cbv beta in P.
  apply orb_true_iff in P. destruct P as [P|P].
  - apply orb_true_iff in P. destruct P as [P|P].
    + assert (E : oz_eqb (leaf_code cs a) (leaf_code cs b) = true).
      { apply oz_eqb_true. exists z. split; assumption. }
      rewrite E in P. discriminate.
    + left. apply String.eqb_eq. exact P.
  - right. apply kmem_In. exact P.
Qed.

Lemma injective_top_b_sound : forall cs exc m, injective_top_b cs exc m = true -> injective_top cs exc m.
Proof.
  intros cs exc m H a b z Ha Hb Hca Hcb. unfold injective_top_b in H.
  pose proof (pairwise_sound _ _ H a b Ha Hb) as P. cbv beta in P.
  apply orb_true_iff in P. destruct P as [P|P].
  - apply orb_true_iff in P. destruct P as [P|P].
    + assert (E : oz_eqb (leaf_code cs a) (leaf_code cs b) = true).
      { apply oz_eqb_true. exists z. split; assumption. }
      rewrite E in P. discriminate.
    + left. apply String.eqb_eq. exact P.
  - right. apply kmem_In. exact P.
Qed.

Lemma nonzero_b_sound : forall ok cs exc m, nonzero_b ok cs exc m = true -> nonzero ok cs exc m.
Proof.
  intros ok cs exc m H Herr l Hl Hc. unfold nonzero_b in H. rewrite Herr in H.
  cbn [negb orb] in H. rewrite forallb_forall in H. specialize (H l Hl).
  apply orb_true_iff in H. destruct H as [H|H].
  - assert (E : oz_eqb (leaf_code cs l) (Some ok) = true).
    { apply oz_eqb_true. exists ok. split; [exact Hc | reflexivity]. }
    rewrite E in H. discriminate.
  - apply kmem_In. exact H.
Qed.

Lemma names_distinct_b_sound : forall exc c, names_distinct_b exc c = true -> names_distinct exc c.
Proof.
  intros exc c H Hc Hexc. unfold names_distinct_b in H. rewrite Hc in H. cbn [negb orb] in H.
  apply orb_true_iff in H. destruct H as [H|H].
  - apply smem_In in H. contradiction.
  - apply andb_true_iff in H. destruct H as [H1 H2]. split.
    + apply nodup_sb_NoDup. exact H1.
    + intros v Hv He. rewrite forallb_forall in H2. specialize (H2 v Hv).
      rewrite He in H2. cbn in H2. discriminate.
Qed.

Lemma names_separate_b_sound : forall cs exc m, names_separate_b cs exc m = true -> names_separate cs exc m.
Proof.
  intros cs exc m H Hexc a b za zb sa sb Ha Hb Hza Hzb Hne Hsa Hsb. unfold names_separate_b in H.
  apply orb_true_iff in H. destruct H as [H|H].
  - apply smem_In in H. contradiction.
  - pose proof (pairwise_sound _ _ H a b Ha Hb) as P. cbv beta in P.
    rewrite Hza, Hzb, Hsa, Hsb in P. apply orb_true_iff in P. destruct P as [P|P].
    + apply Z.eqb_eq in P. contradiction.
    + intros E. subst sb. rewrite String.eqb_refl in P. discriminate.
Qed.

Lemma codes_distinct_b_sound : forall c, codes_distinct_b c = true -> codes_distinct c.
Proof. intros c H. apply nodup_zb_NoDup. exact H. Qed.

Lemma tables_wf_b_sound : forall cs ms, tables_wf_b cs ms = true -> tables_wf cs ms.
Proof.
  intros cs ms H. unfold tables_wf_b in H.
  apply andb_true_iff in H. destruct H as [H H4].
  apply andb_true_iff in H. destruct H as [H H3].
  apply andb_true_iff in H. destruct H as [H1 H2].
  repeat split.
  - apply nodup_sb_NoDup. exact H1.
  - apply nodup_sb_NoDup. exact H2.
  - intros c Hc. rewrite forallb_forall in H3. apply nodup_sb_NoDup. exact (H3 c Hc).
  - intros m Hm. rewrite forallb_forall in H4. apply nodup_sb_NoDup. exact (H4 m Hm).
Qed.

(* ---- lifting over a whole table ---- *)
Lemma all_sound : forall A (P : A -> Prop) (p : A -> bool) (xs : list A),
  (forall x, p x = true -> P x) -> forallb p xs = true -> forall x, In x xs -> P x.
Proof.
  intros A P p xs Hs H x Hx. rewrite forallb_forall in H. apply Hs. exact (H x Hx).
Qed.

(* ---- witnesses ---- *)
Lemma find_rmap_In : forall ms n m, find_rmap ms n = Some m -> In m ms /\ rm_name m = n.
Proof.
  intros ms n m H. unfold find_rmap in H. apply find_some in H. destruct H as [H1 H2].
  split; [exact H1 | apply String.eqb_eq; exact H2].
Qed.

Lemma diverges_b_sound : forall cs ms k, diverges_b cs ms k = true ->
  exists m l, In m ms /\ rm_name m = fst k /\ In l (rm_leaves m) /\ lf_name l = snd k /\ leaf_code cs l = None.
Proof.
  intros cs ms k H. unfold diverges_b in H. destruct (find_rmap ms (fst k)) as [m|] eqn:F; [|discriminate].
  apply find_rmap_In in F. destruct F as [Hm Hn]. apply existsb_exists in H.
  destruct H as [l [Hl H]]. apply andb_true_iff in H. destruct H as [H1 H2].
  exists m, l. repeat split; try assumption.
  - apply String.eqb_eq. exact H1.
  - destruct (leaf_code cs l); [discriminate | reflexivity].
Qed.

Lemma collapses_leaf_b_sound : forall cs ms k, collapses_leaf_b cs ms k = true ->
  exists m a b z, In m ms /\ rm_name m = fst k /\ In a (rm_leaves m) /\ In b (rm_leaves m)
    /\ leaf_cvariant a = snd k /\ leaf_code cs a = Some z /\ leaf_code cs b = Some z /\ lf_name a <> lf_name b.
Proof.
  intros cs ms k H. unfold collapses_leaf_b in H. destruct (find_rmap ms (fst k)) as [m|] eqn:F; [|discriminate].
  apply find_rmap_In in F. destruct F as [Hm Hn]. apply existsb_exists in H.
  destruct H as [a [Ha H]]. apply existsb_exists in H. destruct H as [b [Hb H]].
  apply andb_true_iff in H. destruct H as [H H3]. apply andb_true_iff in H. destruct H as [H1 H2].
  apply oz_eqb_true in H2. destruct H2 as [z [Hza Hzb]].
  exists m, a, b, z. repeat split; try assumption.
  - apply String.eqb_eq. exact H1.
  - intros E. rewrite E, String.eqb_refl in H3. discriminate.
Qed.

Lemma collapses_top_b_sound : forall cs ms k, collapses_top_b cs ms k = true ->
  exists m a b z, In m ms /\ rm_name m = fst k /\ In a (rm_leaves m) /\ In b (rm_leaves m)
    /\ leaf_cvariant a = snd k /\ leaf_code cs a = Some z /\ leaf_code cs b = Some z /\ lf_top a <> lf_top b.
Proof.
  intros cs ms k H. unfold collapses_top_b in H. destruct (find_rmap ms (fst k)) as [m|] eqn:F; [|discriminate].
  apply find_rmap_In in F. destruct F as [Hm Hn]. apply existsb_exists in H.
  destruct H as [a [Ha H]]. apply existsb_exists in H. destruct H as [b [Hb H]].
  apply andb_true_iff in H. destruct H as [H H3]. apply andb_true_iff in H. destruct H as [H1 H2].
  apply oz_eqb_true in H2. destruct H2 as [z [Hza Hzb]].
  exists m, a, b, z. repeat split; try assumption.
  - apply String.eqb_eq. exact H1.
  - intros E. rewrite E, String.eqb_refl in H3. discriminate.
Qed.

Lemma zero_b_sound : forall ok cs ms k, zero_b ok cs ms k = true ->
  exists m l, In m ms /\ rm_name m = fst k /\ rm_is_error m = true /\ In l (rm_leaves m)
    /\ leaf_cvariant l = snd k /\ leaf_code cs l = Some ok.
Proof.
  intros ok cs ms k H. unfold zero_b in H. destruct (find_rmap ms (fst k)) as [m|] eqn:F; [|discriminate].
  apply find_rmap_In in F. destruct F as [Hm Hn]. apply andb_true_iff in H. destruct H as [He H].
  apply existsb_exists in H. destruct H as [l [Hl H]]. apply andb_true_iff in H. destruct H as [H1 H2].
  apply oz_eqb_true in H2. destruct H2 as [z [Hz1 Hz2]]. inversion Hz2. subst z.
  exists m, l. repeat split; try assumption. apply String.eqb_eq. exact H1.
Qed.

Lemma nodup_sb_false : forall l, nodup_sb l = false -> ~ NoDup l.
Proof.
  induction l as [|x t IH]; intros H N.
  - discriminate.
  - cbn [nodup_sb] in H. inversion N as [|x' t' Hx Ht]. subst.
    apply andb_false_iff in H. destruct H as [H|H].
    + apply negb_false_iff in H. apply smem_In in H. contradiction.
    + exact (IH H Ht).
Qed.

Lemma dupname_b_sound : forall cs n, dupname_b cs n = true ->
  exists c, In c cs /\ ce_name c = n /\ ce_cstr c = true /\ ~ NoDup (map cv_str (ce_variants c)).
Proof.
  intros cs n H. unfold dupname_b in H. destruct (find_cenum cs n) as [c|] eqn:F; [|discriminate].
  unfold find_cenum in F. apply find_some in F. destruct F as [Hc Hn].
  apply andb_true_iff in H. destruct H as [H1 H2]. apply negb_true_iff in H2.
  exists c. repeat split; try assumption.
  - apply String.eqb_eq. exact Hn.
  - apply nodup_sb_false. exact H2.
Qed.

(* ---- a real witness refutes the statement without exceptions ---- *)
Lemma total_full_refuted : forall cs ms k, diverges_b cs ms k = true ->
  ~ (forall m, In m ms -> total cs [] m).
Proof.
  intros cs ms k H F. apply diverges_b_sound in H.
  destruct H as [m [l [Hm [_ [Hl [_ Hc]]]]]].
  destruct (F m Hm l Hl) as [z Hz]; [intros []|]. rewrite Hc in Hz. discriminate.
Qed.

Lemma injective_leaf_full_refuted : forall cs ms k, collapses_leaf_b cs ms k = true ->
  ~ (forall m, In m ms -> injective_leaf cs [] m).
Proof.
  intros cs ms k H F. apply collapses_leaf_b_sound in H.
  destruct H as [m [a [b [z [Hm [_ [Ha [Hb [_ [Hza [Hzb Hne]]]]]]]]]]].
  destruct (F m Hm a b z Ha Hb Hza Hzb) as [E|[]]. contradiction.
Qed.

Lemma injective_top_full_refuted : forall cs ms k, collapses_top_b cs ms k = true ->
  ~ (forall m, In m ms -> injective_top cs [] m).
Proof.
  intros cs ms k H F. apply collapses_top_b_sound in H.
  destruct H as [m [a [b [z [Hm [_ [Ha [Hb [_ [Hza [Hzb Hne]]]]]]]]]]].
  destruct (F m Hm a b z Ha Hb Hza Hzb) as [E|[]]. contradiction.
Qed.

Lemma nonzero_full_refuted : forall ok cs ms k, zero_b ok cs ms k = true ->
  ~ (forall m, In m ms -> nonzero ok cs [] m).
Proof.
  intros ok cs ms k H F. apply zero_b_sound in H.
  destruct H as [m [l [Hm [_ [He [Hl [_ Hc]]]]]]].
  exact (F m Hm He l Hl Hc).
Qed.

Lemma names_distinct_full_refuted : forall cs n, dupname_b cs n = true ->
  ~ (forall c, In c cs -> names_distinct [] c).
Proof.
  intros cs n H F. apply dupname_b_sound in H. destruct H as [c [Hc [_ [He Hd]]]].
  destruct (F c Hc He) as [N _]; [intros []|]. contradiction.
Qed.
