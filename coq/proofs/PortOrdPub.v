(* Publisher-side functions and the order invariant (proofs/PortOrd.v). *)
From V Require Import model.Base model.Conn model.Port proofs.ListLemmas proofs.ConnProofs proofs.PortProofs proofs.PortView proofs.PortInv
  proofs.PortInvPub proofs.PortInvSubAux proofs.PortOrd.
From Coq Require Import Lia.
Local Open Scope nat_scope.

Ltac ntr := eapply Neutral_trans.

(* the fields of the publisher state that the order invariant reads *)
Definition same4 (x' x : pubst) : Prop :=
  p_sent x' = p_sent x /\ p_hist x' = p_hist x /\ p_tab x' = p_tab x /\ p_active x' = p_active x.
Lemma same4_refl x : same4 x x. Proof. unfold same4; auto. Qed.
Lemma same4_trans x1 x2 x3 : same4 x1 x2 -> same4 x2 x3 -> same4 x1 x3.
Proof. unfold same4. intuition congruence. Qed.
Lemma same4_release x o : same4 (pub_release x o) x. Proof. unfold same4, pub_release; cbn; auto. Qed.
Lemma same4_borrow x o : same4 (fst (pub_borrow x o)) x. Proof. unfold same4, pub_borrow; cbn; auto. Qed.
Lemma same4_release_opt x o : same4 (pub_release_opt x o) x.
Proof. destruct o; [apply same4_release|apply same4_refl]. Qed.
Lemma same4_fold_release offs : forall x, same4 (fold_left pub_release offs x) x.
Proof. induction offs as [|o t IH]; intros x; cbn [fold_left]; [apply same4_refl|]. eapply same4_trans; [apply IH|apply same4_release]. Qed.

Lemma N_setp4 w p x' : same4 x' (getp w p) -> Neutral w (setp w p x').
Proof. intros (A & B & C & D). apply N_setp; auto; [now rewrite D|]. intros s _ Hin _. now rewrite C. Qed.

Lemma reclaim_all_facts : forall fuel x c, same4 (fst (reclaim_all fuel x c)) x /\ idxs (snd (reclaim_all fuel x c)) = idxs c.
Proof.
  induction fuel as [|f IH]; intros x c; cbn [reclaim_all]; [split; [apply same4_refl|reflexivity]|].
  unfold c_reclaim. destruct (c_comp c) as [|o rest]; [split; [apply same4_refl|reflexivity]|].
  destruct (mem_off o (c_used c)).
  - destruct (IH (pub_release x o) (set_comp_used c rest (rm_off o (c_used c)))) as [A B]. split; [eapply same4_trans; [exact A|apply same4_release]|exact B].
  - destruct (IH x (set_comp_used c rest (c_used c))) as [A B]. split; [exact A|exact B].
Qed.

Lemma N_retrieve_from p : forall tab w, Neutral w (retrieve_from w p tab).
Proof.
  induction tab as [|[s|] t IH]; intros w; cbn [retrieve_from]; [apply Neutral_refl| |apply IH].
  destruct (getc w p s) as [c|] eqn:Hc; [|apply IH].
  destruct (reclaim_all (length (c_comp c)) (getp w p) c) as [x1 c1] eqn:Er.
  destruct (reclaim_all_facts (length (c_comp c)) (getp w p) c) as [A B]. rewrite Er in A, B. cbn [fst snd] in A, B.
  ntr; [|apply IH]. ntr; [apply N_setp4; exact A|]. apply N_setc. right. exists c. rewrite getc_setp. auto.
Qed.

Lemma N_retrieve w p : Neutral w (pub_retrieve w p).
Proof. apply N_retrieve_from. Qed.

Lemma in_upd_other {A} (l : list A) i a b d : In a l -> nth i l d <> a -> In a (upd l i b).
Proof.
  intros Hin Hne. destruct (In_nth _ _ d Hin) as [j [Hj Hn]].
  assert (i <> j) by (intros ->; congruence). rewrite <- Hn. rewrite <- (nth_upd_other l i j b d H). apply nth_In. now rewrite upd_length.
Qed.

Lemma N_remove_connection w p i :
  (forall s, nth i (p_tab (getp w p)) None = Some s -> ~ sact w s) -> Neutral w (pub_remove_connection w p i).
Proof.
  intros Hns. unfold pub_remove_connection. cbn zeta.
  destruct (nth i (p_tab (getp w p)) None) as [s|] eqn:Hn; [|apply Neutral_refl]. specialize (Hns s eq_refl).
  match goal with |- Neutral w (setp ?ww _ _) => set (w1 := ww) end.
  assert (N1 : Neutral w w1 /\ same4 (getp w1 p) (getp w p) /\ forall t, gets w1 t = gets w t).
  { unfold w1. destruct (getc w p s) as [c|] eqn:Hc; [|split; [apply Neutral_refl|split; [apply same4_refl|auto]]].
    unfold c_acquire_used. cbn zeta.
    pose proof (same4_fold_release (filter (fun i0 => mem_off i0 (c_used c)) (seq 0 (c_n c))) (getp w p)) as S4.
    set (x1 := fold_left pub_release _ (getp w p)) in *.
    split; [|split].
    - ntr; [apply N_setp4; exact S4|]. apply N_setc. right. exists c. rewrite getc_setp. auto.
    - rewrite getp_setc. destruct (Nat.lt_ge_cases p (length (w_pubs w))) as [Hl|Hge]; [now rewrite getp_setp_same|].
      unfold getp, setp. cbn. rewrite upd_oob by exact Hge. apply same4_refl.
    - intros t. now rewrite gets_setc. }
  destruct N1 as (N1 & (A & B & C & D) & Gs).
  ntr; [exact N1|]. apply N_setp; cbn; auto.
  intros t Ht Hin _. apply (in_upd_other _ _ _ _ None); [exact Hin|]. rewrite C, Hn. intros E. inversion E; subst t. apply Hns. unfold sact in *. now rewrite <- Gs.
Qed.

Lemma N_allocate_core w p w' r : pub_allocate_core w p = Val (w', r) -> Neutral w w'.
Proof.
  unfold pub_allocate_core. cbn zeta. intros Hv.
  destruct (Nat.leb _ _); [inversion Hv; subst; apply Neutral_refl|].
  destruct (p_free (getp w p)) as [|o rest]; [inversion Hv; subst; apply Neutral_refl|].
  destruct (pub_borrow (p_set_chunks (getp w p) (p_refcnt (getp w p)) rest) o) as [x1 old] eqn:Eb.
  destruct (negb (N.eqb old 0)); [discriminate|]. inversion Hv; subst.
  apply N_setp4. unfold pub_borrow in Eb. inversion Eb; subst. unfold same4. cbn. auto.
Qed.

Lemma N_allocate w p w' r : pub_allocate w p = Val (w', r) -> Neutral w w'.
Proof. unfold pub_allocate. intros Hv. ntr; [apply N_retrieve|eapply N_allocate_core; eauto]. Qed.

Lemma N_write w p o : Neutral w (pub_write w p o).
Proof. unfold pub_write. cbn zeta. apply N_setp4. unfold same4. cbn. auto. Qed.

Lemma N_record_loan w p o : Neutral w (record_loan w p o).
Proof. apply N_same; reflexivity. Qed.

Lemma N_detach_all p : forall tab w, Neutral w (pub_detach_all w p tab).
Proof.
  induction tab as [|[s|] t IH]; intros w; cbn [pub_detach_all]; [apply Neutral_refl| |apply IH].
  ntr; [|apply IH]. destruct (getc w p s) as [c|] eqn:Hc; [|apply Neutral_refl]. apply N_setc. right. exists c. auto.
Qed.

Lemma N_pub_maybe_drop_state w p : Neutral w (pub_maybe_drop_state w p).
Proof.
  unfold pub_maybe_drop_state. cbn zeta.
  destruct (negb (p_active (getp w p)) && p_alive (getp w p) && negb (has_loans w p)); [|apply Neutral_refl].
  destruct (pub_detach_all_step p (p_tab (getp w p)) w) as (_ & _ & A1 & _). cbn zeta in A1.
  set (w1 := pub_detach_all w p (p_tab (getp w p))) in *.
  assert (G : getp w1 p = getp w p) by (unfold getp; now rewrite A1).
  ntr; [apply N_detach_all|]. fold w1. apply N_setp; cbn; auto; try discriminate.
Qed.

Lemma N_loan_drop w l : Neutral w (loan_drop w l).
Proof.
  unfold loan_drop. cbn zeta. ntr; [|apply N_pub_maybe_drop_state].
  apply (Neutral_trans _ (pub_return_loan w (l_pub l) (l_off l))); [|apply N_same; reflexivity].
  unfold pub_return_loan. cbn zeta. apply N_setp4. unfold same4, pub_release. cbn. auto.
Qed.

Lemma N_drop_all : forall ls w, Neutral w (fold_left loan_drop ls w).
Proof. induction ls as [|l t IH]; intros w; cbn [fold_left]; [apply Neutral_refl|]. ntr; [apply N_loan_drop|apply IH]. Qed.

Lemma N_pub_drop w p : Neutral w (pub_drop w p).
Proof.
  unfold pub_drop. cbn zeta. ntr; [|apply N_pub_maybe_drop_state].
  apply (Neutral_trans _ (setp w p (p_set_life (getp w p) false (p_alive (getp w p))))); [|apply N_same; reflexivity].
  apply N_setp; cbn; auto; discriminate.
Qed.

(* ---------------------------------------------------------------------------------------- *)
(* history delivery to a new connection                                                      *)
(* ---------------------------------------------------------------------------------------- *)
Lemma retrieve_from_facts p : forall tab w,
  (forall q, same4 (getp (retrieve_from w p tab) q) (getp w q)) /\ (forall t, gets (retrieve_from w p tab) t = gets w t).
Proof.
  induction tab as [|[s|] t IH]; intros w; cbn [retrieve_from]; [split; [intros; apply same4_refl|auto]| |apply IH].
  destruct (getc w p s) as [c|] eqn:Hc; [|apply IH].
  destruct (reclaim_all (length (c_comp c)) (getp w p) c) as [x1 c1] eqn:Er.
  destruct (reclaim_all_facts (length (c_comp c)) (getp w p) c) as [A B]. rewrite Er in A, B. cbn [fst snd] in A, B.
  destruct (IH (setc (setp w p x1) p s c1)) as [I1 I2]. split.
  - intros q. eapply same4_trans; [apply I1|]. rewrite getp_setc.
    destruct (Nat.lt_ge_cases p (length (w_pubs w))) as [Hl|Hge].
    + destruct (Nat.eq_dec q p) as [->|Hne]; [now rewrite getp_setp_same|rewrite getp_setp_other by congruence; apply same4_refl].
    + unfold getp, setp. cbn. rewrite upd_oob by exact Hge. apply same4_refl.
  - intros t0. rewrite I2, gets_setc. reflexivity.
Qed.

Lemma qidx_neutral w w' p s j : Neutral w w' -> In j (qidx w' p s) -> In j (qidx w p s).
Proof.
  intros N Hj. unfold qidx in *. destruct (getc w' p s) as [c'|] eqn:Hc; [|contradiction].
  destruct (n_conn _ _ N _ _ _ Hc) as [E|[c [Hc0 E]]]; [rewrite E in Hj; contradiction|]. now rewrite Hc0, <- E.
Qed.

Lemma increasing_cons_inv a l : increasing (a :: l) -> increasing l /\ forall x, In x l -> a < x.
Proof. intros H. inversion H as [|? ? Hs Hf]; subst. rewrite Forall_forall in Hf. auto. Qed.

Lemma deliver_history_ord p s : forall ents w w',
  Ord w -> In (Some s) (p_tab (getp w p)) -> recvidx w s p = [] ->
  increasing (map he_idx ents) -> (forall e, In e ents -> he_idx e < nsent w p) ->
  (forall j e, In j (qidx w p s) -> In e ents -> j < he_idx e) ->
  deliver_history w p s ents = Val w' -> Ord w'.
Proof.
  induction ents as [|e t IH]; intros w w' O Hin Hr Hinc Hb Hq Hv; cbn [deliver_history] in Hv.
  - inversion Hv; subst. exact O.
  - cbn zeta in Hv. set (w1 := pub_retrieve w p) in *.
    pose proof (N_retrieve w p) as N1. fold w1 in N1.
    pose proof (Ord_neutral _ _ O N1) as O1.
    destruct (retrieve_from_facts p (p_tab (getp w p)) w) as [F1 F2]. fold (pub_retrieve w p) in F1, F2. fold w1 in F1, F2.
    destruct (F1 p) as (S1 & S2 & S3 & S4).
    assert (Hr1 : recvidx w1 s p = []) by (unfold recvidx; now rewrite F2).
    assert (Sn1 : nsent w1 p = nsent w p) by (unfold nsent; now rewrite S1).
    cbn [map] in Hinc. apply increasing_cons_inv in Hinc as [Hinc Hlt].
    destruct (getc w1 p s) as [c|] eqn:Hc; [|inversion Hv; subst; exact O1].
    destruct (c_try_send c (he_off e) (he_idx e)) as [[c1 sr]|] eqn:Hs; [|discriminate]. cbn [rbind] in Hv.
    set (w2 := setc w1 p s c1) in *.
    assert (Hqc : forall j, In j (idxs c) -> In j (qidx w p s)).
    { intros j Hj. apply (qidx_neutral w w1 p s j N1). unfold qidx. now rewrite Hc. }
    assert (HI : IncB (idxs c1) (S (he_idx e))).
    { apply (try_send_IncB [] c _ _ _ _ Hs). split.
      - destruct (od_conn _ O1 _ _ _ Hc) as [A _]. rewrite Hr1 in A. exact A.
      - intros j Hj. apply (Hq j e); [now apply Hqc|now left]. }
    assert (O2 : Ord w2).
    { apply Ord_setc; [exact O1| |].
      - rewrite Hr1. cbn [app]. eapply IncB_mono; [exact HI|]. rewrite Sn1. specialize (Hb e (or_introl eq_refl)). lia.
      - intros _ _ Hni. exfalso. apply Hni. now rewrite S3. }
    match type of Hv with deliver_history ?ww _ _ _ = _ => set (w3 := ww) in * end.
    assert (F3 : same4 (getp w3 p) (getp w1 p) /\ (forall t0, gets w3 t0 = gets w1 t0) /\ (forall a b, getc w3 a b = getc w2 a b) /\ Ord w3).
    { unfold w3. destruct sr; try (splits; auto; [unfold w2; rewrite getp_setc; apply same4_refl|intros; unfold w2; apply gets_setc]).
      assert (S : same4 (pub_account_send (getp w2 p) (he_off e) evicted) (getp w2 p)).
      { unfold pub_account_send. eapply same4_trans; [apply same4_release_opt|apply same4_borrow]. }
      splits.
      - destruct (Nat.lt_ge_cases p (length (w_pubs w2))) as [Hl|Hge].
        + rewrite getp_setp_same by exact Hl. eapply same4_trans; [exact S|]. unfold w2. rewrite getp_setc. apply same4_refl.
        + unfold getp at 1. unfold setp. cbn [w_pubs w_set_pubs]. rewrite upd_oob by exact Hge. fold (getp w2 p). unfold w2. rewrite getp_setc. apply same4_refl.
      - intros t0. unfold w2. cbn. apply gets_setc.
      - intros a b. apply getc_setp.
      - eapply Ord_neutral; [exact O2|]. apply N_setp4. exact S. }
    destruct F3 as ((T1 & T2 & T3 & T4) & G3 & C3 & O3).
    eapply (IH w3 w'); [exact O3| | | | | |exact Hv].
    + now rewrite T3, S3.
    + unfold recvidx. rewrite G3. exact Hr1.
    + exact Hinc.
    + intros e' He'. unfold nsent. rewrite T1. fold (nsent w1 p). rewrite Sn1. apply Hb. now right.
    + intros j e' Hj He'. unfold qidx in Hj. rewrite C3 in Hj. unfold w2 in Hj. rewrite getc_setc_eq in Hj.
      destruct (c_snd c1 || c_rcv c1); [|contradiction].
      destruct (try_send_idxs _ _ _ _ _ Hs) as [E|[E|E]]; rewrite E in Hj.
      * apply (Hq j e'); [now apply Hqc|now right].
      * apply in_app_or in Hj as [Hj|[<-|[]]]; [apply (Hq j e'); [now apply Hqc|now right]|]. apply Hlt. now apply in_map.
      * apply in_app_or in Hj as [Hj|[<-|[]]]; [apply (Hq j e'); [apply Hqc; now apply in_tl|now right]|]. apply Hlt. now apply in_map.
Qed.

Lemma increasing_skipn n : forall l, increasing l -> increasing (skipn n l).
Proof.
  induction n as [|n IH]; intros l H; [exact H|]. destruct l as [|a l]; [exact H|]. cbn. apply IH. now apply increasing_cons_inv in H.
Qed.
Lemma in_skipn {A} n : forall (l : list A) x, In x (skipn n l) -> In x l.
Proof. induction n as [|n IH]; intros l x H; [exact H|]. destruct l; [exact H|]. right. now apply IH. Qed.

Lemma pub_create_connection_ord w p i d w' :
  Ord w -> pact w p -> sact w (sd_id d) -> ~ In (Some (sd_id d)) (p_tab (getp w p)) ->
  nth i (p_tab (getp w p)) None = None -> i < length (p_tab (getp w p)) ->
  pub_create_connection w p i d = Val w' -> Ord w'.
Proof.
  intros O Hp Hs Hni Hn Hi Hv. pose proof (pact_lt _ _ Hp) as Hl.
  destruct (od_J _ O p (sd_id d) Hp Hs Hni) as [J1 J2].
  unfold pub_create_connection in Hv. cbn zeta in Hv. set (s := sd_id d) in *.
  set (c0 := match getc w p s with Some c => c | None => conn_new (sd_buf d) (cf_M (w_cfg w)) (cf_ovf (w_cfg w)) (p_n (getp w p)) end) in *.
  assert (E0 : idxs c0 = []) by (unfold c0; destruct (getc w p s) as [c|] eqn:Hc; [now apply J2|reflexivity]).
  set (c1 := set_ports c0 true (c_rcv c0)) in *.
  set (w1 := setc w p s c1) in *.
  set (w2 := setp w1 p (p_set_tab (getp w p) (upd (p_tab (getp w p)) i (Some s)))) in *.
  assert (N1 : Neutral w w1) by (apply N_setc; left; exact E0).
  assert (G1 : getp w1 p = getp w p) by apply getp_setc.
  assert (N2 : Neutral w1 w2).
  { unfold w2. apply N_setp; cbn [p_sent p_hist p_active p_tab p_set_tab]; rewrite ?G1; auto. intros t _ Hin _. apply (in_upd_other _ _ _ _ None); [exact Hin|]. rewrite Hn. discriminate. }
  pose proof (Ord_neutral _ _ (Ord_neutral _ _ O N1) N2) as O2.
  assert (G2 : getp w2 p = p_set_tab (getp w p) (upd (p_tab (getp w p)) i (Some s))).
  { unfold w2. apply getp_setp_same. unfold w1. destruct (setc_fields w p s c1) as (_&_&_&E4&_). now rewrite E4. }
  eapply (deliver_history_ord p s _ w2 w'); [exact O2| | | | | |exact Hv].
  - rewrite G2. cbn. rewrite <- (nth_upd_same (p_tab (getp w p)) i (Some s) None Hi) at 1. apply nth_In. now rewrite upd_length.
  - unfold recvidx. change (gets w2 s) with (gets w1 s). unfold w1. rewrite gets_setc. exact J1.
  - unfold lastn. rewrite <- skipn_map. apply increasing_skipn. apply (od_hist _ O p).
  - intros e He. unfold nsent. rewrite G2. cbn. apply (od_hist _ O p). unfold histidx. apply in_map. unfold lastn in He. now apply in_skipn in He.
  - intros j e Hj _. unfold qidx in Hj. unfold w2 in Hj. rewrite getc_setp in Hj. unfold w1 in Hj. rewrite getc_setc_eq in Hj.
    destruct (c_snd c1 || c_rcv c1); [|contradiction]. change (idxs c1) with (idxs c0) in Hj. rewrite E0 in Hj. contradiction.
Qed.

(* ---------------------------------------------------------------------------------------- *)
(* update_connections                                                                        *)
(* ---------------------------------------------------------------------------------------- *)
Lemma nth_some_lt' {A} (l : list (option A)) i v : nth i l None = Some v -> i < length l.
Proof. intros H. destruct (Nat.lt_ge_cases i (length l)); [auto|]. rewrite nth_overflow in H by lia. discriminate. Qed.

Lemma create_pre H w p i d :
  InvG H w -> pact w p -> nth i (r_slots (w_sreg w)) None = Some d -> nth i (p_tab (getp w p)) None = None ->
  sact w (sd_id d) /\ ~ In (Some (sd_id d)) (p_tab (getp w p)) /\ i < length (p_tab (getp w p)).
Proof.
  intros I Hp Hd Hn. destruct (iv_sreg _ _ I _ _ Hd) as (A & B & _). splits; auto.
  - intros Hin. destruct (In_nth _ _ None Hin) as [j [Hj Hnj]].
    destruct (iv_tab_slot _ _ I p j _ Hp Hnj) as [_ Hsl]. specialize (Hsl A). rewrite B in Hsl. subst j. congruence.
  - pose proof (iv_pub _ _ I p Hp) as PI. rewrite (pv_tab _ _ _ _ _ PI), <- (iv_sreg_len _ _ I). eapply nth_some_lt'; eauto.
Qed.

Lemma pub_update_connection_ord H w p i d w' :
  InvG H w -> RegS w -> pact w p -> nth i (r_slots (w_sreg w)) None = Some d -> Ord w ->
  pub_update_connection w p i d = Val w' -> Ord w'.
Proof.
  intros I R Hp Hd O Hu. unfold pub_update_connection in Hu.
  destruct (nth i (p_tab (getp w p)) None) as [s|] eqn:Hn.
  - destruct (Nat.eqb s (sd_id d)) eqn:E; [inversion Hu; subst; exact O|].
    apply Nat.eqb_neq in E.
    assert (Hns : ~ sact w s).
    { eapply not_sact_of_registry; eauto. intros d' Hd'. rewrite Hd in Hd'. inversion Hd'; subst. congruence. }
    destruct (pub_remove_connection_ok H w p i s I Hp Hn Hns) as (I1 & S1 & L1 & L1' & T1 & _).
    assert (N1 : Neutral w (pub_remove_connection w p i)).
    { apply N_remove_connection. intros s' Hs'. rewrite Hn in Hs'. inversion Hs'; subst. exact Hns. }
    set (w1 := pub_remove_connection w p i) in *.
    assert (Hp1 : pact w1 p) by (apply (PubStep_pact _ _ _ _ S1); exact Hp).
    assert (Hi : i < length (p_tab (getp w p))) by (eapply nth_some_lt'; eauto).
    assert (Hn1 : nth i (p_tab (getp w1 p)) None = None) by (rewrite T1; now apply nth_upd_same).
    assert (Hd1 : nth i (r_slots (w_sreg w1)) None = Some d) by (rewrite (ps_sreg _ _ _ S1); exact Hd).
    destruct (create_pre H w1 p i d I1 Hp1 Hd1 Hn1) as (A & B & C).
    eapply (pub_create_connection_ord w1); eauto. eapply Ord_neutral; eauto.
  - destruct (create_pre H w p i d I Hp Hd Hn) as (A & B & C). eapply (pub_create_connection_ord w); eauto.
Qed.

Lemma pub_update_slots_ord H p : forall slots w i w',
  InvG H w -> RegS w -> pact w p ->
  (forall j, nth j slots None = nth (i + j) (r_slots (w_sreg w)) None) -> Ord w ->
  pub_update_slots w p slots i = Val w' -> Ord w'.
Proof.
  induction slots as [|e t IH]; intros w i w' I R Hp Hs O Hu.
  - cbn in Hu. inversion Hu; subst. exact O.
  - assert (Ht : forall w0, w_sreg w0 = w_sreg w -> forall j, nth j t None = nth (S i + j) (r_slots (w_sreg w0)) None).
    { intros w0 E j. rewrite E. specialize (Hs (S j)). cbn [nth] in Hs. rewrite Hs. f_equal. lia. }
    destruct e as [d|]; cbn [pub_update_slots] in Hu.
    + destruct (pub_update_connection w p i d) as [w1|] eqn:E1; [|discriminate]. cbn [rbind] in Hu.
      assert (Hd : nth i (r_slots (w_sreg w)) None = Some d) by (specialize (Hs 0); cbn [nth] in Hs; rewrite Nat.add_0_r in Hs; now rewrite <- Hs).
      pose proof (pub_update_connection_ok H w p i d w1 I R Hp Hd E1) as (I1 & S1 & L1 & L1').
      pose proof (pub_update_connection_ord H w p i d w1 I R Hp Hd O E1) as O1.
      eapply (IH w1); eauto.
      * eapply PubStep_RegS; eauto.
      * apply (PubStep_pact _ _ _ _ S1); exact Hp.
      * apply Ht. apply (ps_sreg _ _ _ S1).
    + eapply IH; eauto.
Qed.

Lemma pub_finish_cycle_ord H p : forall slots w i,
  InvG H w -> RegS w -> pact w p ->
  (forall j, nth j slots None = nth (i + j) (r_slots (w_sreg w)) None) ->
  Neutral w (pub_finish_cycle w p slots i).
Proof.
  induction slots as [|e t IH]; intros w i I R Hp Hs.
  - cbn. apply Neutral_refl.
  - assert (Ht : forall w0, w_sreg w0 = w_sreg w -> forall j, nth j t None = nth (S i + j) (r_slots (w_sreg w0)) None).
    { intros w0 E j. rewrite E. specialize (Hs (S j)). cbn [nth] in Hs. rewrite Hs. f_equal. lia. }
    destruct e as [d|]; cbn [pub_finish_cycle]; [apply IH; auto|].
    assert (Hd : nth i (r_slots (w_sreg w)) None = None) by (specialize (Hs 0); cbn [nth] in Hs; rewrite Nat.add_0_r in Hs; now rewrite <- Hs).
    destruct (nth i (p_tab (getp w p)) None) as [s|] eqn:Hn.
    + assert (Hns : ~ sact w s) by (eapply not_sact_of_registry; eauto; intros d' Hd'; rewrite Hd in Hd'; discriminate).
      destruct (pub_remove_connection_ok H w p i s I Hp Hn Hns) as (I1 & S1 & L1 & L1' & _).
      ntr; [apply N_remove_connection; intros s' Hs'; rewrite Hn in Hs'; inversion Hs'; subst; exact Hns|].
      apply IH; auto.
      * eapply PubStep_RegS; eauto.
      * apply (PubStep_pact _ _ _ _ S1); exact Hp.
      * apply Ht. apply (ps_sreg _ _ _ S1).
    + assert (E : pub_remove_connection w p i = w) by (unfold pub_remove_connection; now rewrite Hn).
      rewrite E. apply IH; auto.
Qed.

Lemma pub_force_update_ord H w p w' :
  InvG H w -> RegS w -> pact w p -> sn_slots (p_snap (getp w p)) = r_slots (w_sreg w) -> Ord w ->
  pub_force_update w p = Val w' -> Ord w'.
Proof.
  intros I R Hp Hsn O Hf. unfold pub_force_update in Hf. rewrite Hsn in Hf.
  destruct (pub_update_slots w p (r_slots (w_sreg w)) 0) as [w1|] eqn:E1; [|discriminate]. cbn [rbind] in Hf. inversion Hf; subst w'.
  pose proof (pub_update_slots_ok H p _ w 0 w1 I R Hp (fun j => eq_refl) E1) as (I1 & S1 & L1 & L1').
  pose proof (pub_update_slots_ord H p _ w 0 w1 I R Hp (fun j => eq_refl) O E1) as O1.
  eapply Ord_neutral; [exact O1|]. apply (pub_finish_cycle_ord H); auto.
  - eapply PubStep_RegS; eauto.
  - apply (PubStep_pact _ _ _ _ S1); exact Hp.
  - intros j. now rewrite (ps_sreg _ _ _ S1).
Qed.

Lemma pub_update_connections_ord H w p w' :
  InvG H w -> RegS w -> pact w p -> Ord w -> pub_update_connections w p = Val w' -> Ord w'.
Proof.
  intros I R Hp O Hu. unfold pub_update_connections in Hu. unfold reg_update_state in Hu.
  destruct (N.eqb (sn_cc (p_snap (getp w p))) (r_cc (w_sreg w))); [inversion Hu; subst; exact O|].
  destruct (pub_set_snap_ok H w p (reg_get_state (w_sreg w)) I Hp) as [(I1 & S1 & L1 & L1') Q1].
  set (w1 := setp w p (p_set_snap (getp w p) (reg_get_state (w_sreg w)))) in *.
  assert (N1 : Neutral w w1) by (apply N_setp4; unfold same4; cbn; auto).
  assert (R1 : RegS w1) by (eapply PubStep_RegS; eauto).
  assert (Hp1 : pact w1 p) by (apply (PubStep_pact _ _ _ _ S1); exact Hp).
  assert (Hsn : sn_slots (p_snap (getp w1 p)) = r_slots (w_sreg w1)) by (unfold w1; rewrite getp_setp_same by (now apply pact_lt); reflexivity).
  exact (pub_force_update_ord H w1 p w' I1 R1 Hp1 Hsn (Ord_neutral _ _ O N1) Hu).
Qed.

(* ---------------------------------------------------------------------------------------- *)
(* send                                                                                      *)
(* ---------------------------------------------------------------------------------------- *)
Definition HxOrd (hx : hexec) : Prop :=
  forall w s acts w' tr, Ord w -> hx w s acts = Val (w', tr) -> Ord w' /\ SubMove w w' /\ w_pubs w' = w_pubs w.

(* what the delivery loop carries *)
Definition SendSt (w : world) (p gi i : nat) (tab : list (option nat)) : Prop :=
  Ord w /\ nsent w p = S gi /\ p_tab (getp w p) = tab /\ Below w p gi i.

Lemma SendSt_hx hx w p gi i tab s acts w' tr :
  HxOrd hx -> SendSt w p gi i tab -> hx w s acts = Val (w', tr) -> SendSt w' p gi i tab.
Proof.
  intros Hx (O & Sn & T & B) Hv. destruct (Hx _ _ _ _ _ O Hv) as (O' & M & E).
  assert (G : getp w' p = getp w p) by (unfold getp; now rewrite E).
  split; [exact O'|]. split; [unfold nsent; now rewrite G|]. split; [now rewrite G|].
  eapply Below_SubMove; eauto. now rewrite G.
Qed.

Lemma wait_world_ord hx p s gs last r gi i tab fuel : forall w k tr w1 wr cn tr1,
  HxOrd hx -> SendSt w p gi i tab -> wait_world fuel hx w p s gs last r k tr = Val (w1, wr, cn, tr1) -> SendSt w1 p gi i tab.
Proof.
  induction fuel as [|f IH]; intros w k tr w1 wr cn tr1 Hx St Hw.
  - cbn in Hw. inversion Hw; subst. exact St.
  - cbn [wait_world] in Hw. destruct (getc w p s) as [c|]; [|inversion Hw; subst; exact St].
    destruct (c_is_connected c && c_is_full c); [|inversion Hw; subst; exact St].
    destruct (hx w s (g_acts (nth k gs last))) as [[w2 t2]|] eqn:Eh; [|discriminate]. cbn [rbind] in Hw.
    pose proof (SendSt_hx _ _ _ _ _ _ _ _ _ _ Hx St Eh) as St2.
    destruct (g_ans (nth k gs last)).
    + destruct r; inversion Hw; subst; auto.
    + eapply IH; eauto.
    + inversion Hw; subst; auto.
    + inversion Hw; subst; auto.
Qed.

(* the push itself: connection s = tab[i] gets gi (or stays as it is) *)
Lemma push_ord w p gi i tab s c c1 sr o :
  SendSt w p gi i tab -> NoDup (opt_keys tab) -> nth i tab None = Some s -> getc w p s = Some c ->
  ((c1 = c) \/ c_try_send c o gi = Val (c1, sr)) ->
  SendSt (setc w p s c1) p gi (S i) tab.
Proof.
  intros (O & Sn & T & B) Hnd Hn Hc Hcase.
  assert (Hin : In (Some s) (p_tab (getp w p))) by (rewrite T, <- Hn; apply nth_In; eapply nth_some_lt'; eauto).
  assert (Hb : forall j, In j (allidx w p s) -> j < gi) by (apply (B i s (le_n _)); now rewrite T).
  assert (HI : IncB (recvidx w s p ++ idxs c1) (S gi)).
  { destruct Hcase as [->|Hs].
    - rewrite <- Sn. now apply (od_conn _ O).
    - eapply try_send_IncB; [exact Hs|]. split; [apply (od_conn _ O _ _ _ Hc)|]. intros j Hj. apply Hb. unfold allidx, qidx. now rewrite Hc. }
  assert (O' : Ord (setc w p s c1)).
  { apply Ord_setc; [exact O|now rewrite Sn|]. intros _ _ Hni. contradiction. }
  split; [exact O'|]. split; [unfold nsent; now rewrite getp_setc|]. split; [now rewrite getp_setc|].
  intros i' s' Hi' Hn' j Hj. rewrite getp_setc, T in Hn'.
  assert (Hne : s' <> s).
  { intros ->. assert (i' = i) by (eapply nodup_keys_inj; eauto). lia. }
  apply (B i' s'); [lia|now rewrite T|].
  unfold allidx, qidx, recvidx in *. rewrite gets_setc in Hj. rewrite getc_setc_ne in Hj by congruence. exact Hj.
Qed.

Lemma SendSt_setp4 w p gi i tab x' : SendSt w p gi i tab -> same4 x' (getp w p) -> SendSt (setp w p x') p gi i tab.
Proof.
  intros (O & Sn & T & B) S4. pose proof S4 as (A1 & A2 & A3 & A4).
  assert (G : same4 (getp (setp w p x') p) (getp w p)).
  { destruct (Nat.lt_ge_cases p (length (w_pubs w))) as [Hl|Hge]; [now rewrite getp_setp_same|].
    unfold getp at 1. unfold setp. cbn [w_pubs w_set_pubs]. rewrite upd_oob by exact Hge. apply same4_refl. }
  destruct G as (G1 & G2 & G3 & G4).
  split; [eapply Ord_neutral; [exact O|now apply N_setp4]|]. split; [unfold nsent; now rewrite G1|]. split; [now rewrite G3|].
  intros i' s' Hi' Hn' j Hj. rewrite G3 in Hn'. apply (B i' s' Hi' Hn'). exact Hj.
Qed.

Lemma SendSt_weaken w p gi i tab : SendSt w p gi i tab -> SendSt w p gi (S i) tab.
Proof. intros (O & Sn & T & B). split; [exact O|split; [exact Sn|split; [exact T|]]]. intros i' s' Hi'. apply B. lia. Qed.

Lemma blocking_world_ord hx w p s o gi i tab gs last r w' sr tr :
  HxOrd hx -> SendSt w p gi i tab -> NoDup (opt_keys tab) -> nth i tab None = Some s ->
  pub_blocking_world hx w p s o gi gs last r = Val (w', sr, tr) -> SendSt w' p gi (S i) tab.
Proof.
  intros Hx St Hnd Hn Hv. unfold pub_blocking_world in Hv.
  destruct (getc w p s) as [c|] eqn:Hc; [|inversion Hv; subst; now apply SendSt_weaken].
  destruct (negb (c_ovf c) && c_is_full c).
  - destruct (wait_world _ hx w p s gs last r 0 []) as [[[[w1 wr] cn] tr1]|] eqn:Ew; [|discriminate]. cbn [rbind] in Hv.
    pose proof (wait_world_ord _ _ _ _ _ _ _ _ _ _ _ _ _ _ _ _ _ Hx St Ew) as St1.
    destruct wr as [fl|]; [|inversion Hv; subst; now apply SendSt_weaken].
    destruct (negb cn); [inversion Hv; subst; now apply SendSt_weaken|].
    destruct fl; [inversion Hv; subst; now apply SendSt_weaken|].
    destruct (getc w1 p s) as [c1|] eqn:Hc1; [|inversion Hv; subst; now apply SendSt_weaken].
    destruct (c_try_send c1 o gi) as [[c2 sr2]|] eqn:Hs; [|discriminate]. cbn [rbind fst snd] in Hv. inversion Hv; subst.
    eapply push_ord; eauto.
  - destruct (c_try_send c o gi) as [[c2 sr2]|] eqn:Hs; [|discriminate]. cbn [rbind fst snd] in Hv. inversion Hv; subst.
    eapply push_ord; eauto.
Qed.

Lemma pub_deliver_one_ord hx w p i o gi tab w' res tr :
  HxOrd hx -> SendSt w p gi i tab -> NoDup (opt_keys tab) ->
  pub_deliver_one hx w p i o gi = Val (w', res, tr) -> SendSt w' p gi (S i) tab.
Proof.
  intros Hx St Hnd Hv. pose proof St as (_ & _ & T & _). unfold pub_deliver_one in Hv. cbn zeta in Hv. rewrite T in Hv. clear T.
  destruct (nth i tab None) as [s|] eqn:Hn; [|inversion Hv; subst; now apply SendSt_weaken].
  destruct (getc w p s) as [c|] eqn:Hc; [|inversion Hv; subst; now apply SendSt_weaken].
  match type of Hv with rbind ?m _ = _ => destruct m as [[[w1 sr] tr1]|] eqn:Em end; [|discriminate]. cbn [rbind] in Hv.
  assert (St1 : SendSt w1 p gi (S i) tab).
  { destruct (p_handler (getp w p)) as [|h|gs last].
    - match type of Em with rbind ?m _ = _ => destruct m as [[c1 sr1]|] eqn:E0 end; [|discriminate]. cbn [rbind fst snd] in Em. inversion Em; subst.
      destruct (p_retry (getp w p)).
      + destruct (c_blocking_send_cases _ _ _ _ _ _ _ E0) as [[-> _]|Hs]; [eapply (push_ord w p gi i tab s c _ SBlocks o); eauto|eapply (push_ord w p gi i tab s c _ _ o); eauto].
      + eapply (push_ord w p gi i tab s c _ _ o); eauto.
    - destruct (c_blocking_send c o gi h (p_retry (getp w p))) as [[c1 sr1]|] eqn:E0; [|discriminate]. cbn [rbind fst snd] in Em. inversion Em; subst.
      destruct (c_blocking_send_cases _ _ _ _ _ _ _ E0) as [[-> _]|Hs]; [eapply (push_ord w p gi i tab s c _ SBlocks o); eauto|eapply (push_ord w p gi i tab s c _ _ o); eauto].
    - eapply blocking_world_ord; eauto. }
  destruct sr; inversion Hv; subst; try exact St1.
  apply SendSt_setp4; [exact St1|]. unfold pub_account_send. eapply same4_trans; [apply same4_release_opt|apply same4_borrow].
Qed.

Lemma pub_deliver_all_ord hx p o gi tab : forall n i w acc tra w' res tr,
  HxOrd hx -> SendSt w p gi i tab -> NoDup (opt_keys tab) ->
  pub_deliver_all hx w p n i o gi acc tra = Val (w', res, tr) -> Ord w'.
Proof.
  induction n as [|n IH]; intros i w acc tra w' res tr Hx St Hnd Hv; cbn [pub_deliver_all] in Hv.
  - inversion Hv; subst. apply St.
  - destruct (pub_deliver_one hx w p i o gi) as [[[w1 [[k f] b]] tr1]|] eqn:E1; [|discriminate]. cbn [rbind] in Hv.
    pose proof (pub_deliver_one_ord _ _ _ _ _ _ _ _ _ _ Hx St Hnd E1) as St1.
    destruct acc as [[ak af] ab]. destruct b; [inversion Hv; subst; apply St1|]. eapply IH; eauto.
Qed.

Lemma pub_send_sample_ord hx w p o w' sr tr :
  HxOrd hx -> InvR w -> Ord w -> pub_send_sample hx w p o = Val (w', sr, tr) -> Ord w'.
Proof.
  intros Hx IR O Hv. destruct IR as (I & RP & RS & TB). unfold pub_send_sample in Hv. cbn zeta in Hv.
  destruct (p_active (getp w p)) eqn:Ea; cbn [negb] in Hv; [|inversion Hv; subst; exact O].
  assert (Hp : pact w p) by exact Ea.
  destruct (pub_update_connections w p) as [w1|] eqn:E1; [|discriminate]. cbn [rbind] in Hv.
  destruct (pub_update_connections_ok _ w p w1 I RS Hp E1) as (I1 & S1 & _).
  pose proof (pub_update_connections_ord _ w p w1 I RS Hp O E1) as O1.
  assert (Hp1 : pact w1 p) by (apply (PubStep_pact _ _ _ _ S1); exact Hp).
  pose proof (pact_lt _ _ Hp1) as Hl1.
  set (gi := length (p_sent (getp w1 p))) in *.
  set (x2 := p_set_sent (getp w1 p) (p_sent (getp w1 p) ++ [nth o (p_mem (getp w1 p)) pl0])) in *.
  set (w2 := setp w1 p x2) in *.
  assert (G2 : getp w2 p = x2) by (unfold w2; now apply getp_setp_same).
  (* the sent log grows: every bound gets weaker; the history still holds indices below gi *)
  assert (O2 : Ord w2).
  { unfold w2. apply Ord_setp; auto; unfold x2; cbn [p_tab p_active p_sent p_hist p_set_sent]; auto.
    - rewrite app_length. lia.
    - eapply IncB_mono; [apply (od_hist _ O1 p)|]. rewrite app_length. fold gi. unfold nsent. fold gi. lia. }
  assert (Hh2 : IncB (histidx w2 p) gi) by (unfold histidx; rewrite G2; unfold x2; cbn [p_hist p_set_sent]; apply (od_hist _ O1 p)).
  assert (Sn2 : nsent w2 p = S gi) by (unfold nsent; rewrite G2; unfold x2; cbn [p_sent p_set_sent]; rewrite app_length; cbn; fold gi; lia).
  (* history *)
  set (w3 := pub_add_history w2 p o gi) in *.
  assert (F3 : Ord w3 /\ nsent w3 p = S gi /\ p_tab (getp w3 p) = p_tab (getp w1 p) /\ (forall t, gets w3 t = gets w1 t) /\ (forall a b, getc w3 a b = getc w1 a b)).
  { assert (Triv : Ord w2 /\ nsent w2 p = S gi /\ p_tab (getp w2 p) = p_tab (getp w1 p) /\ (forall t, gets w2 t = gets w1 t) /\ (forall a b, getc w2 a b = getc w1 a b)).
    { splits; auto. rewrite G2. reflexivity. }
    unfold w3, pub_add_history. cbn zeta. destruct (Nat.eqb (cf_H (w_cfg w2)) 0); [exact Triv|].
    assert (Hl2 : p < length (w_pubs w2)) by (unfold w2; now rewrite len_pubs_setp).
    assert (Gen : forall x', p_tab x' = p_tab (getp w2 p) -> p_active x' = p_active (getp w2 p) -> p_sent x' = p_sent (getp w2 p) ->
                  IncB (map he_idx (p_hist x')) (S gi) ->
                  Ord (setp w2 p x') /\ nsent (setp w2 p x') p = S gi /\ p_tab (getp (setp w2 p x') p) = p_tab (getp w1 p)
                  /\ (forall t, gets (setp w2 p x') t = gets w1 t) /\ (forall a b, getc (setp w2 p x') a b = getc w1 a b)).
    { intros x' T1 T2 T3 T4. splits.
      - apply Ord_setp; auto; [rewrite T3; lia|]. rewrite T3. fold (nsent w2 p). now rewrite Sn2.
      - unfold nsent. rewrite getp_setp_same by exact Hl2. rewrite T3. exact Sn2.
      - rewrite getp_setp_same by exact Hl2. rewrite T1, G2. reflexivity.
      - reflexivity.
      - intros a b. rewrite getc_setp. reflexivity. }
    destruct (Nat.ltb (length (p_hist (fst (pub_borrow (getp w2 p) o)))) (cf_H (w_cfg w2))).
    - apply Gen; cbn; auto. rewrite map_app. cbn [map he_idx]. apply IncB_push. exact Hh2.
    - destruct (p_hist (fst (pub_borrow (getp w2 p) o))) as [|old rest] eqn:Eh; [exact Triv|].
      apply Gen; cbn; auto. rewrite map_app. cbn [map he_idx]. apply IncB_push.
      assert (E : histidx w2 p = he_idx old :: map he_idx rest).
      { unfold histidx. change (p_hist (getp w2 p)) with (p_hist (fst (pub_borrow (getp w2 p) o))). now rewrite Eh. }
      rewrite E in Hh2. apply (IncB_drop [] _ _ Hh2). }
  destruct F3 as (O3 & Sn3 & T3 & G3 & C3).
  (* everything the connections know is below gi *)
  assert (B3 : Below w3 p gi 0).
  { intros i' s _ Hn j Hj. unfold allidx, qidx, recvidx in Hj. rewrite G3, C3 in Hj.
    destruct (getc w1 p s) as [c|] eqn:Hc.
    - apply (od_conn _ O1 _ _ _ Hc). exact Hj.
    - rewrite app_nil_r in Hj. apply (od_recv _ O1 p s). exact Hj. }
  set (w4 := pub_retrieve w3 p) in *.
  pose proof (N_retrieve w3 p) as N4. fold w4 in N4.
  destruct (retrieve_from_facts p (p_tab (getp w3 p)) w3) as [F1 F2]. fold (pub_retrieve w3 p) in F1, F2. fold w4 in F1, F2.
  destruct (F1 p) as (A1 & A2 & A3 & A4).
  assert (St4 : SendSt w4 p gi 0 (p_tab (getp w1 p))).
  { split; [eapply Ord_neutral; eauto|]. split; [unfold nsent; rewrite A1; exact Sn3|]. split; [now rewrite A3|].
    eapply Below_SubMove; [exact B3|now apply Neutral_SubMove|exact A3]. }
  match type of Hv with rbind ?m _ = _ => destruct m as [[[w5 [[k f] b]] tr5]|] eqn:E5 end; [|discriminate]. cbn [rbind] in Hv.
  inversion Hv; subst w'.
  eapply pub_deliver_all_ord; [exact Hx|exact St4| |exact E5].
  apply (pv_tab_nd _ _ _ _ _ (iv_pub _ _ I1 p Hp1)).
Qed.
