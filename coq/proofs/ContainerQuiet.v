(* C10 proofs, part 4: what is true when no writer call is in flight.  Two invariants that speak
   about all threads at once (a slot with an odd generation and no settled owner has a remover
   that still owes its generation CAS; a snapshot that is behind the container is owed a bump of
   the change counter), the facts about single steps they need, and their consequences. *)
From V Require Import model.Base model.Conc model.Events model.Container proofs.ListLemmas.
From V Require Import proofs.ContainerBase proofs.ContainerInv proofs.ContainerStep proofs.ContainerDirty proofs.ContainerProofs.
From Coq Require Import ZifyBool ZifyNat ZifyN.
Open Scope N_scope.

(* the thread has released slot i and still owes the CAS gn -> gn + 1 of its generation *)
Definition stale_pc (p : cpc) : option (N * N) :=
  match p with
  | IncLoad (KRem i gn) | IncCas _ (KRem i gn) | RemCasGen i gn => Some (i, gn)
  | RecSDist0 n v _ _ | RecCasGen n v _ _ => Some (n, v)
  | _ => None
  end.
(* the running call will certainly increment the change counter *)
Definition will_bump (p : cpc) : bool :=
  match p with
  | IncLoad _ | IncCas _ _ | AddDist0 _ _ | AddLoadGen _ _ | AddCasGen _ _ _ | AddDist1 _ _ | AddWrite _ _
  | AddIncGen _ _ | AddIncChange _ _ | RemCasGen _ _ | RemIncChange
  | RecDist2 _ | RecLoadCell _ _ _ | RecPDist0 _ _ _ _ | RecLoadGen _ _ _ | RecPDist1 _ _ _ _ | RecRead _ _ _ _
  | RecValidate _ _ _ _ _ | RecCasCell _ _ _ _ | RecSDist0 _ _ _ _ | RecCasGen _ _ _ _ | RecEnd _ | RecIncChange _ _ => true
  | _ => false
  end.

(* ... or its owner is dead and the recover that the program has next will *)
Definition wb (l : clst) : bool := will_bump (pc l) || dirty l.

(* recover(dead owner, predicate true): the cells below this index are not the owner's any more *)
Definition scan_idx (g : cgst) (p : cpc) : N :=
  match p with
  | RecLoadCell n _ _ | RecPDist0 n _ _ _ | RecLoadGen n _ _ | RecPDist1 n _ _ _ | RecRead n _ _ _
  | RecValidate n _ _ _ _ | RecCasCell n _ _ _ => n
  | RecSDist0 n _ _ _ | RecCasGen n _ _ _ | IncLoad (KRec n _ _) | IncCas _ (KRec n _ _) => n + 1
  | RecEnd _ | RecIncChange _ _ => cap g
  | _ => 0
  end.

Ltac simq := cbn [fst snd pc prog fuse arg epoch handles rchange rgen rdata pend ustart ulast uprev dirty orph dead
                  cap dist0 dist1 dist2 cells igen gens datas change clock published oplog settled
                  set_pc set_fuse set_prog set_handles set_pend set_epoch set_snap set_ughost set_arg set_crash done abandon
                  set_cells set_igen set_gens set_datas set_published set_settled tick complete
                  in_rec add_slot busy refreshing scanned in_upd me stale_pc will_bump wb scan_idx window_slot orb] in *.

(* case analysis of one step: every branch of step_acc with concrete g', l' *)
Ltac brk H :=
  repeat match type of H with
  | context [if N.eqb ?a ?b then _ else _] => destruct (N.eqb_spec a b)
  | context [if N.ltb ?a ?b then _ else _] => destruct (N.ltb_spec a b)
  | context [if odd ?x then _ else _] => let E := fresh "Eo" in destruct (odd x) eqn:E
  | context [if ?b then _ else _] => is_var b; destruct b
  end.

Record Facts (t : nat) (g : cgst) (l : clst) (g' : cgst) (l' : clst) : Prop := {
  SF1 : forall i, gens g' i <> gens g i -> wb l' = true;
  SF2 : wb l = true -> wb l' = true \/ change g < change g';
  SF3 : forall i, scanned (pc l') i = true -> i < cap g ->
          (scanned (pc l) i = true /\ rgen l' i = rgen l i /\ rchange l' = rchange l) \/ rgen l' i = gens g' i;
  SF4 : forall i, settled g' i = false -> odd (gens g' i) = true ->
          (settled g i = false /\ gens g' i = gens g i) \/ stale_pc (pc l') = Some (i, gens g' i);
  SF5 : forall i gn, stale_pc (pc l) = Some (i, gn) -> gn = gens g i -> gens g' i = gens g i ->
          stale_pc (pc l') = Some (i, gn) \/ In i (orph l');
  SF6 : (forall i, cells g i <> EMPTY -> i < cap g) ->
        (dirty l = true -> forall m, m < scan_idx g (pc l) -> cells g m <> owner_of t (epoch l)) ->
        (forall n e, cells g n = owner_of t e -> e < epoch l -> settled g n = true /\ odd (gens g n) = true) ->
        forall n e, cells g' n = owner_of t e -> e < epoch l' -> settled g' n = true /\ odd (gens g' n) = true;
  SF7 : (forall i, cells g i <> EMPTY -> exists u e, cells g i = owner_of u e) ->
        forall i, cells g' i <> EMPTY -> exists u e, cells g' i = owner_of u e;
  SF8 : forall i, In i (orph l) -> In i (orph l');
  SF9 : (forall i, cells g i <> EMPTY -> i < cap g) -> forall i, cells g' i <> EMPTY -> i < cap g';
  SF10 : (dirty l = true -> (forall m, m < scan_idx g (pc l) -> cells g m <> owner_of t (epoch l)) /\
            match pc l with RecPDist0 n o _ _ => o <> owner_of t (epoch l) -> cells g n <> owner_of t (epoch l) | _ => True end) ->
         dirty l' = true -> (forall m, m < scan_idx g' (pc l') -> cells g' m <> owner_of t (epoch l')) /\
            match pc l' with RecPDist0 n o _ _ => o <> owner_of t (epoch l') -> cells g' n <> owner_of t (epoch l') | _ => True end;
  SF11 : (forall i, cells g i <> EMPTY -> i < cap g) ->
         (dirty l = true -> forall m, m < scan_idx g (pc l) -> cells g m <> owner_of t (epoch l)) ->
         ((forall n e, cells g n = owner_of t e -> ~ In e (dead l)) /\ (forall e, In e (dead l) -> e < epoch l)) ->
         (forall n e, cells g' n = owner_of t e -> ~ In e (dead l')) /\ (forall e, In e (dead l') -> e < epoch l')
}.

Ltac fu :=
  repeat match goal with
  | |- context [fupd _ ?n _ ?i] => unfold fupd; destruct (N.eqb_spec i n); subst
  | H : context [fupd _ ?n _ ?i] |- _ => unfold fupd in H; destruct (N.eqb_spec i n); subst
  end.

Ltac fin :=
  intros; unfold wb in *; try match goal with E : pc ?l = _ |- _ => rewrite ?E in * end; simq;
  try discriminate; try congruence; try reflexivity; try assumption;
  try (exfalso; congruence);
  try (left; reflexivity);
  try (right; simq; lia);
  try (left; repeat split; first [reflexivity|assumption]);
  try (left; split; [assumption|reflexivity]);
  try match goal with H : Some _ = Some _ |- _ => inversion H; subst; clear H end;
  try reflexivity; try congruence;
  eauto.

Ltac fin2 :=
  repeat match goal with H : Some _ = Some _ |- _ => inversion H; subst; clear H end;
  unfold Uns, SetE, Stale, me in *;
  repeat match goal with H : _ /\ _ |- _ => destruct H end;
  fu; simq;
  try match goal with H1 : cells ?g ?n = owner_of ?t ?e, H2 : cells ?g ?n = owner_of ?t ?e' |- _ =>
        rewrite H1 in H2 end;
  try match goal with H : owner_of _ _ = owner_of _ _ |- _ => apply owner_of_inj in H; destruct H; subst end;
  try match goal with Hold : (forall n e, cells _ n = owner_of _ e -> _ -> _ /\ _), Hc : cells _ ?n = owner_of _ ?e, Hl : ?e < _ |- _ =>
        let A := fresh in let B := fresh in destruct (Hold n e Hc Hl) as [A B] end;
  repeat match goal with H : ?a = true -> _, H' : ?a = true |- _ => specialize (H H') end;
  try match goal with |- ~ In _ _ => let Hin := fresh "Hin" in intros Hin end;
  try match goal with Hd1 : (forall n e, cells _ n = owner_of _ e -> ~ In e _), Hc : cells _ ?n = owner_of _ ?e, Hin : In ?e _ |- _ =>
        exact (False_ind _ (Hd1 n e Hc Hin)) end;
  try match goal with Hd2 : (forall e, In e (dead _) -> e < _), Hin : In ?e (dead _) |- _ => specialize (Hd2 e Hin) end;
  try match goal with H : odd (?x + 1) = true, H' : odd ?x = true |- _ => rewrite odd_succ, H' in H; discriminate end;
  try lia; try congruence; try discriminate;
  try (exfalso; eapply owner_not_empty; first [eassumption|symmetry; eassumption]);
  try (do 2 eexists; reflexivity);
  try (left; split; [assumption|reflexivity]);
  eauto.

Ltac sf3 i :=
  match goal with
  | |- _ \/ _ ?i0 = _ =>
    destruct (N.eq_dec i0 i) as [->|?];
    [right; rewrite ?fupd_same; first [congruence|reflexivity|symmetry; assumption]
    |left; rewrite ?fupd_other by assumption; repeat split; try reflexivity;
     rewrite ?N.ltb_lt, ?N.leb_le in *; lia]
  end.

Ltac sf10 := intros; unfold wb in *; try match goal with E : pc ?l = _ |- _ => rewrite ?E in * end; simq; try (exfalso; congruence).
Ltac sf11 :=
  let Hcap := fresh "Hcap" in let Hscan := fresh "Hscan" in let Hd1 := fresh "Hd1" in let Hd2 := fresh "Hd2" in
  intros Hcap Hscan [Hd1 Hd2]; try match goal with E : pc ?l = _ |- _ => rewrite ?E in * end; simq;
  try match goal with Hy : dirty ?l = false |- _ => rewrite ?Hy in * end;
  split; intros; eauto.
Ltac gen Hs := brk Hs; inversion Hs; subst; clear Hs; (constructor; [fin|fin|fin|fin|fin|fin|fin|fin|fin|sf10|sf11]).

Section StepFacts.
  Variables (t : nat) (g : cgst) (l : clst).
  Hypothesis HGI : GInv g.
  Hypothesis HL : LInv g t l.

  Lemma step_facts g' l' es : step_acc t g l = Some (g', l', es) -> Facts t g l g' l'.
  Proof.
    pose proof HL as [(Hcf & Hdy & Hfz) H1 H2 H3 H4 H5 H6 H7 H8 H9 H10 H11]. unfold PcInv in H7.
    intros Hs. unfold step_acc, upd_next, add_next, after_inc, rec_next in Hs.
    destruct (pc l) eqn:Epc.
    - (* Idle *)
      destruct (prog l) as [|o p] eqn:Eprog; [discriminate|].
      destruct o as [v [[|k]|]|j [[|k]|]|pr|];
        try (destruct (nth j (handles l) None) eqn:Ej); gen Hs; fin2.
    - gen Hs; fin2.
    - (* AddScan *) gen Hs; fin2.
    - (* AddFinal *) gen Hs; fin2.
    - (* IncLoad *) destruct k; gen Hs; fin2.
    - (* IncCas *) destruct k; gen Hs; fin2.
    - (* AddDist0 *) gen Hs; fin2.
    - (* AddLoadGen *) gen Hs; fin2.
    - (* AddCasGen *) gen Hs; fin2.
    - (* AddDist1 *) gen Hs; fin2.
    - (* AddWrite *) gen Hs; fin2.
    - (* AddIncGen *) gen Hs; fin2.
    - (* AddIncChange *) gen Hs; fin2.
    - (* AddDist1b *) gen Hs; fin2.
    - (* AddRetCell *) gen Hs; fin2.
    - (* RemLoadGen *) gen Hs; fin2.
    - (* RemDist2 *) gen Hs; fin2.
    - (* RemCasCell *) gen Hs; fin2.
    - (* RemCasGen *) gen Hs; fin2.
    - (* RemIncChange *) gen Hs; fin2.
    - (* RecDist2 *) gen Hs; fin2.
    - (* RecLoadCell *) gen Hs; fin2.
    - (* RecPDist0 *) gen Hs; fin2.
    - (* RecLoadGen *) gen Hs; fin2.
    - (* RecPDist1 *) gen Hs; fin2.
    - (* RecRead *) gen Hs; fin2.
    - (* RecValidate *) gen Hs; fin2.
    - (* RecCasCell *) gen Hs; fin2.
    - (* RecSDist0 *) gen Hs; fin2.
    - (* RecCasGen *) gen Hs; fin2.
    - (* RecEnd *) gen Hs; fin2.
    - (* RecIncChange *) gen Hs; fin2.
      all: try match goal with
           | Hold : (forall n e, cells g n = owner_of t e -> e < epoch l -> _), Hc : cells g ?n = owner_of t ?e |- settled g ?n = true /\ _ =>
             destruct (N.eq_dec e (epoch l)) as [->|Hne]; [apply H5; [exact Hc|discriminate]|apply (Hold n e); auto; lia]
           end.
      all: try match goal with Hd2 : (forall e, In e (dead l) -> e < epoch l), Hin : In ?e (dead l) |- ?e < _ => specialize (Hd2 e Hin); lia end.
    - (* UpdDist0 *) gen Hs; fin2.
    - (* UpdLoadGen *) gen Hs; try sf3 i; fin2.
    - (* UpdDist1 *) gen Hs; try sf3 i; fin2.
    - (* UpdCopy *) gen Hs; try sf3 i; fin2.
    - (* UpdValidate *) gen Hs; try sf3 i; fin2.
  Qed.

End StepFacts.


(* the same facts for the steps of a thread whose owner is dead *)
Ltac byscan := match goal with Hs : (forall m, m < _ -> cells _ m <> _) |- _ => apply Hs; lia end.
Ltac sf10d Hdy :=
  let Hsc := fresh "Hsc" in let Hpo := fresh "Hpo" in let Hd' := fresh "Hd'" in
  intros Hsc Hd'; destruct (Hsc Hdy) as [Hsc' Hpo]; clear Hsc;
  try match goal with E : pc ?l = _ |- _ => rewrite ?E in * end; simq;
  first [ exfalso; congruence
        | split; [let m := fresh "m" in let Hm := fresh "Hm" in intros m Hm; try byscan|try exact I] ].

Ltac notmine :=
  let X := fresh "X" in
  first [ assumption
        | intro X; match goal with E : cells _ ?n = EMPTY |- _ => rewrite E in X end; symmetry in X; exact (owner_not_empty _ _ X)
        | intro X; symmetry in X; exact (owner_not_empty _ _ X)
        | match goal with Hpo : ?o <> _ -> cells _ ?n <> _ |- cells _ ?n <> _ => apply Hpo; assumption end ].
Ltac scanstep n :=
  match goal with
  | |- cells _ ?m <> _ => destruct (N.eq_dec m n) as [->|?]; [notmine|byscan]
  | |- fupd _ _ _ ?m <> _ => destruct (N.eq_dec m n) as [->|?]; [rewrite fupd_same; notmine|rewrite fupd_other by assumption; byscan]
  end.

Ltac getp :=
  try match goal with Hw : _ \/ ?p = true |- _ =>
    is_var p; let Hp := fresh "Hp" in
    assert (Hp : p = true) by (let E := fresh "E" in destruct Hw as [[E _]|E]; [discriminate E|exact E]); subst p
  end.
Ltac gend Hs Hdy := brk Hs; inversion Hs; subst; clear Hs; (constructor; [fin|fin|fin|fin|fin|fin|fin|fin|fin|sf10d Hdy|sf11]).

Section DirtyFacts.
  Variables (t : nat) (g : cgst) (l : clst).
  Hypothesis HGI : GInv g.
  Hypothesis HD : LDirty g t l.

  Lemma dirty_facts g' l' es : step_acc t g l = Some (g', l', es) -> Facts t g l g' l'.
  Proof.
    pose proof HD as [(Hcf & Hdy & Hfn & Hwhere) H1 H2 H3 H6 H7 H8 H9 H10 H11]. unfold PcInvD in H7.
    intros Hs. unfold step_acc, upd_next, add_next, after_inc, rec_next in Hs.
    destruct (pc l) eqn:Epc;
      try (exfalso; destruct Hwhere as [[E _]|E]; cbn in E; discriminate);
      cbn [rec_true] in Hwhere.
    - (* Idle *)
      destruct Hwhere as [[_ [r Er]]|E]; [|discriminate]. rewrite Er in *.
      gend Hs Hdy; fin2.
    - (* IncLoad *)
      destruct k as [v n|i gn|n acc p]; try (exfalso; destruct Hwhere as [[E _]|E]; cbn in E; discriminate).
      gend Hs Hdy; fin2.
    - (* IncCas *)
      destruct k as [v n|i gn|n acc p]; try (exfalso; destruct Hwhere as [[E _]|E]; cbn in E; discriminate).
      gend Hs Hdy; fin2.
    - (* RecDist2 *) getp; gend Hs Hdy; fin2.
    - (* RecLoadCell *) getp; gend Hs Hdy; fin2; try scanstep n.
    - (* RecPDist0 *) getp; gend Hs Hdy; fin2; try scanstep n.
    - (* RecLoadGen *) getp; gend Hs Hdy; fin2; try scanstep n.
    - (* RecPDist1 *) getp; gend Hs Hdy; fin2; try scanstep n.
    - (* RecRead *) getp; gend Hs Hdy; fin2; try scanstep n.
    - (* RecValidate *) getp; gend Hs Hdy; fin2; try scanstep n.
    - (* RecCasCell *) getp; gend Hs Hdy; fin2; try scanstep n.
      all: try byscan.
      all: try (let X := fresh "X" in intro X; symmetry in X; exact (owner_not_empty _ _ X)).
      all: match goal with Hg : gens _ _ = _ \/ _ |- _ => destruct Hg as [Hg|[Hv Hg]] end.
      all: try (right; congruence).
      all: try (exfalso; congruence).
      all: try (exfalso; match goal with Ho : odd (gens _ ?n) = true, Ev : odd ?v = true, Hg : gens _ ?n = ?v + 1 |- _ => rewrite Hg, odd_succ, Ev in Ho; discriminate end).
    - (* RecSDist0 *) getp; gend Hs Hdy; fin2; try scanstep n.
    - (* RecCasGen *) getp; gend Hs Hdy; fin2; try scanstep n.
    - (* RecEnd *) gend Hs Hdy; fin2.
    - (* RecIncChange *) rewrite Hdy in Hs. gend Hs Hdy; fin2.
      all: assert (Hnone : forall n0, cells g n0 <> owner_of t (epoch l)) by
        (intros n0 X;
         match goal with Hcap : (forall i, cells g i <> EMPTY -> i < cap g), Hsc : (forall m, m < cap g -> cells g m <> owner_of t (epoch l)) |- _ =>
           apply (Hsc n0); [apply Hcap; rewrite X; apply owner_not_empty|exact X] end).
      + match goal with Hc : cells g ?n = owner_of t ?e |- _ =>
          destruct (N.eq_dec e (epoch l)) as [->|Hne]; [exfalso; exact (Hnone n Hc)|] end.
        match goal with Hold : (forall n e, cells g n = owner_of t e -> e < epoch l -> _) |- _ => eapply Hold; eauto; lia end.
      + match goal with Hin : In _ (_ :: _) |- _ => destruct Hin as [E|Hin'] end.
        * subst. match goal with Hc : cells g ?n = owner_of t _ |- _ => exact (Hnone n Hc) end.
        * match goal with Hd1 : (forall n e, cells g n = owner_of t e -> ~ In e (dead l)), Hc : cells g ?n = owner_of t ?e |- _ => exact (Hd1 n e Hc Hin') end.
      + match goal with Hin : In _ (_ :: _) |- _ => destruct Hin as [E|Hin'] end; [subst; lia|].
        match goal with Hd2 : (forall e, In e (dead l) -> e < epoch l), Hi : In _ (dead l) |- _ => specialize (Hd2 _ Hi); lia end.
  Qed.
End DirtyFacts.

(* ... and for the step in which a call is abandoned *)
Lemma abandon_facts t g l : LInv g t l -> fusable (pc l) = true -> Facts t g l (tick g) (abandon l).
Proof.
  intros HL Hb. pose proof (L0 _ _ _ HL) as (_ & Hdy & _).
  constructor; unfold wb; simq.
  - intros i H. congruence.
  - intros _. left. reflexivity.
  - intros i _ _. left. destruct (fusable_plain _ i Hb) as (_ & E & _). auto.
  - intros i H1 H2. left. auto.
  - intros i gn Hst _ _. right.
    destruct (pc l) as [ | | | |k|c k| | | | | | | | | | | | | | | | | | | | | | | | | | | | | | | ]; try discriminate;
      try (destruct k; try discriminate); cbn in *; inversion Hst; subst; left; reflexivity.
  - intros _ _ Hold n e Hc He. eauto.
  - auto.
  - intros i Hin. destruct (window_slot (pc l)); [right|]; exact Hin.
  - auto.
  - intros _ _. split; [intros m Hm; lia|exact I].
  - intros _ _ Hd. exact Hd.
Qed.

Lemma step_factsC t g l g' l' es :
  GInv g -> LInvC g t l -> step t g l = Some (g', l', es) -> Facts t g l g' l'.
Proof.
  intros HG [HL|HD] Hs.
  - pose proof (L0 _ _ _ HL) as (Hcf & Hdy & Hfz).
    destruct (fuse l) as [[|k]|] eqn:Ef.
    + assert (Hz : Some 0%nat <> @None nat) by discriminate. destruct (Hfz Hz) as [Hb _].
      rewrite (step_fuse0 t g l Ef Hb) in Hs. inversion Hs; subst g' l' es; clear Hs.
      apply abandon_facts; auto.
    + assert (Hz : Some (S k) <> @None nat) by discriminate. destruct (Hfz Hz) as [Hb _].
      rewrite (step_fuseS t g l k Ef Hb) in Hs.
      destruct (step_facts t g _ HG (linv_setfuse g t l k HL Ef) _ _ _ Hs) as [F1 F2 F3 F4 F5 F6 F7 F8 F9 F10 F11].
      constructor; [exact F1|exact F2|exact F3|exact F4|exact F5|exact F6|exact F7|exact F8|exact F9|exact F10|exact F11].
    + unfold step in Hs. rewrite Ef in Hs. eapply step_facts; eauto.
  - pose proof (D0 _ _ _ HD) as (_ & _ & Hfn & _). unfold step in Hs. rewrite Hfn in Hs.
    eapply dirty_facts; eauto.
Qed.

(* ---------------- the extended invariant ---------------- *)
Definition LOld (g : cgst) (t : nat) (l : clst) : Prop :=
  forall n e, cells g n = owner_of t e -> e < epoch l -> settled g n = true /\ odd (gens g n) = true.
Definition LScan (g : cgst) (t : nat) (l : clst) : Prop :=
  dirty l = true -> (forall m, m < scan_idx g (pc l) -> cells g m <> owner_of t (epoch l)) /\
    match pc l with RecPDist0 n o _ _ => o <> owner_of t (epoch l) -> cells g n <> owner_of t (epoch l) | _ => True end.
Definition LDead (g : cgst) (t : nat) (l : clst) : Prop :=
  (forall n e, cells g n = owner_of t e -> ~ In e (dead l)) /\ (forall e, In e (dead l) -> e < epoch l).
Definition GOwn (g : cgst) : Prop := forall i, cells g i <> EMPTY -> exists u e, cells g i = owner_of u e.
Definition GCap (g : cgst) : Prop := forall i, cells g i <> EMPTY -> i < cap g.
Definition PendInv (c : cfg cgst clst) : Prop :=
  forall i, settled (fst c) i = false -> odd (gens (fst c) i) = true ->
    (exists u, stale_pc (pc (snd c u)) = Some (i, gens (fst c) i)) \/ (exists u, In i (orph (snd c u))).
Definition Owed (c : cfg cgst clst) : Prop :=
  forall t i, scanned (pc (snd c t)) i = true -> i < cap (fst c) ->
    rgen (snd c t) i = gens (fst c) i \/ rchange (snd c t) < change (fst c) \/
    exists u, wb (snd c u) = true.
Definition Inv2 (c : cfg cgst clst) : Prop :=
  Inv c /\ (forall t, LOld (fst c) t (snd c t) /\ LScan (fst c) t (snd c t) /\ LDead (fst c) t (snd c t)) /\
  GOwn (fst c) /\ GCap (fst c) /\ PendInv c /\ Owed c.

Lemma cells_back t t' g g' m e : t <> t' -> Guar t' g g' -> cells g' m = owner_of t e -> cells g m = owner_of t e.
Proof.
  intros Hne HG Hc. destruct (Gcell _ _ _ HG m) as [E|[[_ E]|[_ E]]].
  - congruence.
  - exfalso. apply Hne. eapply owned_other; eauto. exists e. auto.
  - rewrite Hc in E. exfalso. eapply owner_not_empty; eauto.
Qed.

Lemma lold_stable t t' g g' l : t <> t' -> Guar t' g g' -> LOld g t l -> LOld g' t l.
Proof.
  intros Hne HG H n e Hc He.
  assert (Hnt : forall v, v = owner_of t e -> ~ owned_by t' v).
  { intros v -> Ho. apply Hne. eapply owned_other; eauto. exists e. reflexivity. }
  pose proof (cells_back _ _ _ _ _ _ Hne HG Hc) as Hc0.
  destruct (H n e Hc0 He) as [Hs Ho].
  destruct (Gslot _ _ _ HG n) as [(E1 & E2 & E3)|[E|[E|(E1 & _)]]].
  - rewrite E1, E3. auto.
  - exfalso. exact (Hnt _ Hc0 E).
  - exfalso. exact (Hnt _ Hc E).
  - congruence.
Qed.
Lemma lscan_stable t t' g g' l : t <> t' -> Guar t' g g' -> LScan g t l -> LScan g' t l.
Proof.
  intros Hne HG H Hd. destruct (H Hd) as [A B]. split.
  - intros m Hm Hc. apply (A m).
    + destruct (pc l); cbn in *; auto. rewrite <- (Gcap _ _ _ HG). exact Hm. rewrite <- (Gcap _ _ _ HG). exact Hm.
    + eapply cells_back; eauto.
  - destruct (pc l); auto. intros Ho Hc. apply (B Ho). eapply cells_back; eauto.
Qed.
Lemma ldead_stable t t' g g' l : t <> t' -> Guar t' g g' -> LDead g t l -> LDead g' t l.
Proof. intros Hne HG [A B]. split; auto. intros n e Hc. apply (A n). eapply cells_back; eauto. Qed.

Lemma inv2_init c d0 d1 d2 progs : crash_ok progs -> Inv2 (init c d0 d1 d2 progs).
Proof.
  intros Hcf. split; [apply inv_init; auto|]. split; [|split; [|split; [|split]]].
  - intros u. split; [|split].
    + intros n e H. cbn in H. exfalso. eapply owner_not_empty. symmetry. exact H.
    + intros H. cbn in H. discriminate.
    + split.
      * intros n e H. cbn in H. exfalso. eapply owner_not_empty. symmetry. exact H.
      * intros e H. cbn in H. contradiction.
  - intros i H. cbn in H. contradiction.
  - intros i H. cbn in H. contradiction.
  - intros i _ H. cbn in H. discriminate.
  - intros u i _ _. left. reflexivity.
Qed.

Theorem inv2_step t c c' e : Inv2 c -> step1 step t c = Some (c', e) -> Inv2 c'.
Proof.
  destruct c as [g ls]. intros (HI & HO & HW & HC & HP & HD) Hs.
  pose proof (step_inv t _ _ _ HI Hs) as HI'.
  destruct HI as [HG HLs]. unfold step1 in Hs. cbn [fst snd] in *.
  destruct (step t g (ls t)) as [[[g' l'] e']|] eqn:Est; [|discriminate].
  inversion Hs; subst c' e; clear Hs.
  destruct (step_okC t g (ls t) g' l' e' HG (HLs t) Est) as (HGu & HL' & HG').
  pose proof (step_factsC t g (ls t) g' l' e' HG (HLs t) Est) as [F1 F2 F3 F4 F5 F6 F7 F8 F9 F10 F11].
  destruct (HO t) as (HOt & HSt & HDt).
  split; [exact HI'|]. unfold PendInv, Owed. cbn [fst snd]. split; [|split; [|split; [|split]]].
  - intros u. destruct (Nat.eq_dec u t) as [->|Hne].
    + rewrite upd_l_same. split; [|split].
      * exact (F6 HC (fun Hd => proj1 (HSt Hd)) HOt).
      * intros Hd. exact (F10 HSt Hd).
      * exact (F11 HC (fun Hd => proj1 (HSt Hd)) HDt).
    + rewrite upd_l_other by auto. destruct (HO u) as (A & B & C).
      split; [eapply lold_stable; eauto|]. split; [eapply lscan_stable; eauto|eapply ldead_stable; eauto].
  - exact (F7 HW).
  - exact (F9 HC).
  - intros i Hs Ho. destruct (F4 i Hs Ho) as [[Hs0 Eg]|Est'].
    + rewrite Eg in Ho. destruct (HP i Hs0 Ho) as [[u Hu]|[u Hu]]; cbn [fst snd] in Hu.
      * destruct (Nat.eq_dec u t) as [->|Hne].
        -- destruct (F5 i (gens g i) Hu eq_refl Eg) as [E|E].
           ++ left. exists t. rewrite upd_l_same. rewrite Eg. exact E.
           ++ right. exists t. rewrite upd_l_same. exact E.
        -- left. exists u. rewrite upd_l_other by auto. rewrite Eg. exact Hu.
      * right. exists u. destruct (Nat.eq_dec u t) as [->|Hne].
        -- rewrite upd_l_same. apply F8. exact Hu.
        -- rewrite upd_l_other by auto. exact Hu.
    + left. exists t. rewrite upd_l_same. exact Est'.
  - intros u i. pose proof (Gmono _ _ _ HGu) as [Hch _]. rewrite (Gcap _ _ _ HGu).
    assert (Hcase : forall l0, (l0 = ls u) -> scanned (pc l0) i = true -> i < cap g -> rchange l0 <= change g ->
              rgen l0 i = gens g' i \/ rchange l0 < change g' \/ exists w, wb (upd_l ls t l' w) = true).
    { intros l0 -> Hsc Hi Hrc. destruct (HD u i Hsc Hi) as [Ea|[Eb|[w Ew]]]; cbn [fst snd] in *.
      - destruct (N.eq_dec (gens g' i) (gens g i)) as [E|E]; [left; congruence|].
        right. right. exists t. rewrite upd_l_same. apply (F1 i E).
      - right. left. lia.
      - destruct (Nat.eq_dec w t) as [->|Hne].
        + destruct (F2 Ew) as [E|E]; [right; right; exists t; rewrite upd_l_same; exact E|right; left; lia].
        + right. right. exists w. rewrite upd_l_other by auto. exact Ew. }
    destruct (Nat.eq_dec u t) as [->|Hne].
    + rewrite upd_l_same. intros Hsc Hi. destruct (F3 i Hsc Hi) as [(A & B & C)|B].
      * rewrite B, C. apply (Hcase (ls t)); auto. apply (c_L1 _ _ _ (HLs t)).
      * left. exact B.
    + rewrite upd_l_other by auto. intros Hsc Hi. apply (Hcase (ls u)); auto. apply (c_L1 _ _ _ (HLs u)).
Qed.

Theorem inv2_reach c d0 d1 d2 progs cf : crash_ok progs ->
  reachable step (init c d0 d1 d2 progs) cf -> Inv2 cf.
Proof.
  intros Hcf. apply (inv_reachable cgst clst ev step Inv2).
  - apply inv2_init; auto.
  - intros t c0 c' e HI Hs. eapply inv2_step; eauto.
Qed.

(* ---------------- consequences at states with no writer call in flight ---------------- *)
Definition upd_only (p : list cop) : bool := forallb (fun o => match o with CUpd => true | _ => false end) p.
Definition reader_pc (p : cpc) : Prop := p = Idle \/ in_upd p = true.

Lemma reader_not_writer p : reader_pc p -> will_bump p = false /\ stale_pc p = None /\ add_slot p = None.
Proof. intros [->|H]; [auto|]. destruct p; try discriminate; auto. Qed.

Lemma reader_fuse_none g t l : LInvC g t l -> dirty l = false -> reader_pc (pc l) -> fuse l = None.
Proof.
  intros H Hd Hp. pose proof (c_clean _ _ _ H Hd) as HL. destruct (L0 _ _ _ HL) as (_ & _ & Hfz).
  destruct (fuse l) eqn:Ef; auto. destruct Hfz as [Hb _]; [discriminate|].
  destruct Hp as [Hp|Hp]; [rewrite Hp in Hb; discriminate|]. destruct (pc l); try discriminate; destruct k; discriminate.
Qed.

Section Quiet.
  Variables (g : cgst) (ls : nat -> clst).
  Hypothesis HI : Inv2 (g, ls).
  Hypothesis HQ : forall u, reader_pc (pc (ls u)).
  Hypothesis HA : forall u, dirty (ls u) = false.

  (* a snapshot whose change counter is current is the container *)
  Lemma quiet_sync t i :
    pc (ls t) = Idle -> rchange (ls t) = change g -> i < cap g ->
    rgen (ls t) i = gens g i /\ (odd (gens g i) = true -> rdata (ls t) i = datas g i).
  Proof.
    destruct HI as ([HG HL] & _ & _ & _ & _ & HD). cbn [fst snd] in *.
    intros Hpc Hch Hi.
    assert (E : rgen (ls t) i = gens g i).
    { destruct (HD t i) as [E|[E|[u E]]]; cbn [fst snd] in *; auto.
      - rewrite Hpc. reflexivity.
      - lia.
      - destruct (reader_not_writer _ (HQ u)) as [E' _]. unfold wb in E. rewrite E', (HA u) in E. discriminate. }
    split; [exact E|]. intros Ho.
    assert (Hin : In (rgen (ls t) i, rdata (ls t) i) (published g i)).
    { apply (c_L8 _ _ _ (HL t)); [rewrite Hpc; reflexivity|congruence]. }
    rewrite E in Hin. eapply (GC _ HG); eauto. apply (GB _ HG). exact Ho.
  Qed.

  (* a listed slot (odd generation) is owned -- unless it was orphaned inside the known window *)
  Lemma quiet_listed_owned i : odd (gens g i) = true -> cells g i <> EMPTY \/ exists u, In i (orph (ls u)).
  Proof.
    destruct HI as ([HG HL] & HO & HW & HC & HP & _). cbn [fst snd] in *.
    intros Ho. destruct (N.eq_dec (cells g i) EMPTY) as [Hc|Hc]; [|left; exact Hc]. right.
    destruct (settled g i) eqn:Es.
    - exfalso. eapply (GE _ HG); eauto.
    - destruct (HP i Es Ho) as [[u Hu]|Hu]; cbn [fst snd] in *; [|exact Hu].
      destruct (reader_not_writer _ (HQ u)) as (_ & E & _). congruence.
  Qed.
  (* an owned slot is a complete entry of an owner that has not died *)
  Lemma quiet_owned_listed i : cells g i <> EMPTY ->
    odd (gens g i) = true /\ i < cap g /\ exists u e, cells g i = owner_of u e /\ e <= epoch (ls u) /\ ~ In e (dead (ls u)).
  Proof.
    destruct HI as ([HG HL] & HO & HW & HC & HP & _). cbn [fst snd] in *.
    intros Hc. destruct (HW i Hc) as (u & e & Hu). destruct (HO u) as (HOu & _ & HDu & _).
    pose proof (c_L6 _ _ _ (HL u) i e Hu) as Hle.
    split; [|split; [apply HC; exact Hc|exists u, e; split; [exact Hu|split; [exact Hle|apply (HDu i); exact Hu]]]].
    destruct (N.eq_dec e (epoch (ls u))) as [->|Hne].
    - apply (L5 _ _ _ (c_clean _ _ _ (HL u) (HA u)) i Hu). destruct (reader_not_writer _ (HQ u)) as (_ & _ & E). rewrite E. discriminate.
    - apply (HOu i e Hu). lia.
  Qed.
End Quiet.

(* one step of a thread that is not inside a writer call and has only update_state left *)
Lemma reader_step t g l g' l' es :
  fuse l = None -> reader_pc (pc l) -> upd_only (prog l) = true ->
  step t g l = Some (g', l', es) ->
  Same g g' /\ reader_pc (pc l') /\ upd_only (prog l') = true /\
  (length (prog l') <= length (prog l))%nat /\
  ((length (prog l') < length (prog l))%nat -> rchange l' = change g') /\
  (length (prog l') = length (prog l) -> rchange l' = rchange l) /\ dirty l' = dirty l.
Proof.
  intros Hf Hpc Hu Hs. unfold step in Hs. rewrite Hf in Hs.
  unfold step_acc, upd_next in Hs. unfold reader_pc in *.
  destruct Hpc as [Hpc|Hpc].
  - rewrite Hpc in Hs. destruct (prog l) as [|o p] eqn:Ep; [discriminate|].
    destruct o; try discriminate. cbn in Hu.
    brk Hs; inversion Hs; subst; clear Hs; simq; rewrite ?Ep; cbn [length].
    + split; [constructor; simq; auto; lia|]. repeat split; auto; try lia.
    + split; [constructor; simq; auto; lia|]. repeat split; auto; try lia.
  - destruct (pc l) eqn:Epc; try discriminate;
      brk Hs; inversion Hs; subst; clear Hs; simq;
      (split; [first [apply same_refl|apply same_tick]|]); repeat split; auto; try lia.
Qed.

Lemma same_trans g1 g2 g3 : Same g1 g2 -> Same g2 g3 -> Same g1 g3.
Proof. intros [A B C D E F G H I] [A' B' C' D' E' F' G' H' I']. constructor; try congruence. lia. Qed.

Lemma run_cons_fst t s (c : cfg cgst clst) :
  fst (run step (t :: s) c) = match step1 step t c with None => fst (run step s c) | Some (c1, _) => fst (run step s c1) end.
Proof. cbn [run]. destruct (step1 step t c) as [[c1 es]|]; [|reflexivity]. destruct (run step s c1). reflexivity. Qed.

(* a stretch of the schedule in which only threads with nothing but update_state left are
   scheduled, started when no writer call is in flight: the container is frozen, and a thread
   that has consumed an update_state of its program has a current change counter *)
Lemma readers_run (n0 : nat -> nat) : forall s c,
  Inv2 c -> (forall u, reader_pc (pc (snd c u))) -> (forall u, dirty (snd c u) = false) ->
  (forall u, In u s -> upd_only (prog (snd c u)) = true) ->
  (forall u, (length (prog (snd c u)) <= n0 u)%nat) ->
  (forall u, (length (prog (snd c u)) < n0 u)%nat -> rchange (snd c u) = change (fst c)) ->
  Inv2 (fst (run step s c)) /\ Same (fst c) (fst (fst (run step s c))) /\
  (forall u, reader_pc (pc (snd (fst (run step s c)) u))) /\ (forall u, dirty (snd (fst (run step s c)) u) = false) /\
  (forall u, (length (prog (snd (fst (run step s c)) u)) < n0 u)%nat ->
             rchange (snd (fst (run step s c)) u) = change (fst (fst (run step s c)))).
Proof.
  induction s as [|t s IH]; intros c HI HQ HA HU HN HR.
  - cbn. split; [exact HI|]. split; [apply same_refl|]. split; auto.
  - rewrite run_cons_fst. destruct (step1 step t c) as [[c1 es]|] eqn:E1.
    + pose proof (inv2_step _ _ _ _ HI E1) as HI1.
      destruct c as [g ls]. unfold step1 in E1. cbn [fst snd] in *.
      destruct (step t g (ls t)) as [[[g1 l1] e1]|] eqn:Est; [|discriminate]. inversion E1; subst c1 es; clear E1.
      destruct HI as ([HG HL] & HI').
      destruct (reader_step t g (ls t) g1 l1 e1 (reader_fuse_none _ _ _ (HL t) (HA t) (HQ t)) (HQ t) (HU t (or_introl eq_refl)) Est)
        as (HS & Hrp & Hup & Hlen & Hdec & Hsame & Hdirty).
      destruct (IH (g1, upd_l ls t l1)) as (A & B & C & C' & D); cbn [fst snd]; auto.
      * intros u. destruct (Nat.eq_dec u t) as [->|Hne]; [rewrite upd_l_same; auto|rewrite upd_l_other by auto; auto].
      * intros u. destruct (Nat.eq_dec u t) as [->|Hne]; [rewrite upd_l_same; rewrite Hdirty; auto|rewrite upd_l_other by auto; auto].
      * intros u Hin. destruct (Nat.eq_dec u t) as [->|Hne]; [rewrite upd_l_same; auto|rewrite upd_l_other by auto; apply HU; right; auto].
      * intros u. destruct (Nat.eq_dec u t) as [->|Hne]; [rewrite upd_l_same; specialize (HN t); lia|rewrite upd_l_other by auto; auto].
      * intros u. destruct (Nat.eq_dec u t) as [->|Hne].
        -- rewrite upd_l_same. intros Hlt. destruct (Nat.eq_dec (length (prog l1)) (length (prog (ls t)))) as [El|El].
           ++ rewrite (Hsame El). rewrite (Schange _ _ HS). apply HR. lia.
           ++ apply Hdec. lia.
        -- rewrite upd_l_other by auto. intros Hlt. rewrite (Schange _ _ HS). auto.
      * split; [exact A|]. split; [eapply same_trans; eauto|]. split; auto.
    + apply IH; auto. intros u Hin. apply HU. right. auto.
Qed.

(* eventually exact *)
Theorem quiescent_exact c d0 d1 d2 progs g ls s g' ls' t :
  crash_ok progs -> reachable step (init c d0 d1 d2 progs) (g, ls) ->
  (forall u, pc (ls u) = Idle /\ dirty (ls u) = false) ->
  (forall u, In u s -> upd_only (prog (ls u)) = true) ->
  fst (run step s (g, ls)) = (g', ls') ->
  pc (ls' t) = Idle -> (length (prog (ls' t)) < length (prog (ls t)))%nat ->
  (forall i, i < cap g ->
     rgen (ls' t) i = gens g i /\ (odd (gens g i) = true -> rdata (ls' t) i = datas g i)) /\
  rchange (ls' t) = change g /\
  gens g' = gens g /\ datas g' = datas g /\ cells g' = cells g /\ change g' = change g.
Proof.
  intros Hcf Hr Hidle Hup Hrun Hpc Hlen.
  pose proof (inv2_reach _ _ _ _ _ _ Hcf Hr) as HI.
  destruct (readers_run (fun u => length (prog (ls u))) s (g, ls)) as (A & B & C & C' & D); cbn [fst snd]; auto.
  - intros u. left. apply Hidle.
  - intros u. apply Hidle.
  - intros u Hlt. lia.
  - rewrite Hrun in *. cbn [fst snd] in *.
    assert (Ech : rchange (ls' t) = change g') by (apply D; exact Hlen).
    split; [|split; [rewrite Ech; apply (Schange _ _ B)|]].
    + intros i Hi. rewrite <- (Scap _ _ B) in Hi.
      destruct (quiet_sync g' ls' A C C' t i Hpc Ech Hi) as [E1 E2].
      rewrite (Sgens _ _ B), (Sdatas _ _ B) in *. auto.
    + repeat split; [apply (Sgens _ _ B)|apply (Sdatas _ _ B)|apply (Scells _ _ B)|apply (Schange _ _ B)].
Qed.

(* what is listed when nothing is in flight and every dead owner has been recovered *)
Theorem quiet_registry c d0 d1 d2 progs g ls i :
  crash_ok progs -> reachable step (init c d0 d1 d2 progs) (g, ls) ->
  (forall u, reader_pc (pc (ls u)) /\ dirty (ls u) = false) ->
  (odd (gens g i) = true -> cells g i <> EMPTY \/ exists u, In i (orph (ls u))) /\
  (cells g i <> EMPTY ->
     odd (gens g i) = true /\ i < cap g /\
     exists u e, cells g i = owner_of u e /\ e <= epoch (ls u) /\ ~ In e (dead (ls u))).
Proof.
  intros Hcf Hr HQ. pose proof (inv2_reach _ _ _ _ _ _ Hcf Hr) as HI.
  split.
  - apply (quiet_listed_owned g ls HI); intros u; apply HQ.
  - apply (quiet_owned_listed g ls HI); intros u; apply HQ.
Qed.

(* the window leaves its mark: an abandoned call makes its thread dirty, and only the abandon
   inside the window adds a slot to `orph` (by definition of `abandon`) *)
Lemma orph_only_window l : orph (abandon l) = match window_slot (pc l) with Some i => i :: orph l | None => orph l end.
Proof. reflexivity. Qed.

(* ... and the next refresh reports no change and leaves the snapshot alone *)
Theorem refresh_unchanged t g l p :
  fuse l = None -> pc l = Idle -> prog l = CUpd :: p -> rchange l = change g ->
  exists l' es, step t g l = Some (tick (tick g), l', es) /\ pc l' = Idle /\ ulast l' = false /\
                rgen l' = rgen l /\ rdata l' = rdata l /\ rchange l' = rchange l /\
                In (upd_ret g l false) es.
Proof.
  intros Hf Hpc Hp Hc. unfold step. rewrite Hf. unfold step_acc. rewrite Hpc, Hp, Hc, N.eqb_refl.
  eexists. eexists. split; [reflexivity|]. cbn. repeat split; auto.
Qed.

(* the completion of the recover of an owner that died inside a call records its epoch as dead
   and gives the thread a fresh, clean owner id *)
Lemma recover_marks_dead t g l acc lk :
  pc l = RecIncChange acc lk -> fuse l = None -> dirty l = true ->
  exists g' l' es, step t g l = Some (g', l', es) /\ dirty l' = false /\ epoch l' = epoch l + 1 /\ In (epoch l) (dead l') /\
                   pc l' = Idle.
Proof.
  intros Hpc Hf Hd. unfold step. rewrite Hf. unfold step_acc. rewrite Hpc, Hd.
  do 3 eexists. split; [reflexivity|]. cbn. auto.
Qed.
