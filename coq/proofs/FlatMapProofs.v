(* flatmap.rs: what is proved (the refinement of the association-list reference is NOT proved; it
   is tied by the G3 correspondence only): documented errors change nothing, in the reference
   and in the model; the capacity-0 deviation is exhibited on the model. *)
From V Require Import model.Base model.Obs model.RingQueue model.SlotMap model.FlatMap.
Open Scope N_scope.

Theorem fmap_error_unchanged s o s' e d : fmap_step s o = (s', OErr e, d) -> s' = s.
Proof.
  destruct o; cbn [fmap_step]; intros H;
    repeat match type of H with context [match ?x with _ => _ end] => destruct x end; inversion H; reflexivity.
Qed.

Lemma sm_insert_none m v m' d : sm_insert m v = Val (m', OO None, d) -> m' = m /\ d = [v].
Proof.
  unfold sm_insert, sm_acquire. destruct (fhead m) as [fi|]; cbn [bind].
  - destruct (geti (flist m) fi) as [e|]; cbn [bind]; [|discriminate].
    destruct (match fnext e with Some nx => _ | None => _ end) as [f1|]; cbn [bind]; [|discriminate].
    destruct (geti f1 fi); cbn [bind]; [|discriminate].
    destruct (seti f1 fi _); cbn [bind]; [|discriminate].
    destruct (sm_store _ fi v) as [[[m2 b] d2]|]; cbn [bind]; [|discriminate]. intros H; inversion H.
  - intros H; inversion H; auto.
Qed.

(* KeyAlreadyExists and IsFull leave the whole concrete record unchanged *)
Theorem fm_error_unchanged m o m' e d : fm_step m o = (m', OErr e, d) -> m' = m.
Proof.
  destruct o; cbn [fm_step]; intros H.
  - unfold fm_insert in H. destruct (fm_lookup m id) as [[p|]|]; cbn [bind unres3] in H; try (inversion H; auto; fail).
    destruct (sm_insert m (enc id v)) as [[[m2 ob] d2]|] eqn:E; cbn [bind unres3] in H; [|inversion H].
    destruct ob as [| | |[k|]| | |]; inversion H; subst.
    apply sm_insert_none in E. tauto.
  - unfold fm_get in H. destruct (fm_lookup m id); cbn in H; inversion H.
  - unfold fm_get in H. destruct (fm_lookup m id); cbn in H; inversion H.
  - unfold fm_remove in H. destruct (fm_lookup m id) as [[[k en]|]|]; cbn [bind unres3] in H; try (inversion H; fail).
    destruct (sm_remove m k) as [[[m2 ob] d2]|]; cbn [bind unres3] in H; [|inversion H].
    destruct ob as [| | |[x|]| | |]; inversion H.
  - unfold fm_contains in H. destruct (fm_lookup m id); cbn in H; inversion H.
  - destruct (fm_keys_from m (i2d m)); cbn in H; inversion H.
  - inversion H.
  - inversion H.
Qed.

Fixpoint fm_run (m : slotmap) (ops : list fop) : list (obs * list N) :=
  match ops with [] => [] | o :: t => let '(m', ob, d) := fm_step m o in (ob, d) :: fm_run m' t end.
Fixpoint fmap_run (s : fmap) (ops : list fop) : list (obs * list N) :=
  match ops with [] => [] | o :: t => let '(s', ob, d) := fmap_step s o in (ob, d) :: fmap_run s' t end.

(* regression history: FlatMap::new(0).insert used to panic (fixed in /repo by 6ffc44e) *)
Lemma fm_regression_cap0 :
  map fst (fm_run (sm_new 0) [FInsert 0 1; FGet 0; FRemove 0]) = [OErr EIsFull; OO None; OO None].
Proof. reflexivity. Qed.
