(* flatmap.rs refines the association-list reference (finite map id -> value with a capacity
   guard): composition of the slot map refinement with the linear search by id. *)
From V Require Import model.Base model.Obs model.RingQueue model.SlotMap model.FlatMap
  proofs.ListLemmas proofs.RingQueueProofs proofs.SlotMapProofs proofs.FlatMapProofs.
From Coq Require Import ZifyBool ZifyNat ZifyN Permutation.
Open Scope N_scope.

Definition dec (e : N) : N * N := (ekey e, eval e).

Lemma dec_enc id v : v < W -> dec (enc id v) = (id, v).
Proof.
  intros H. unfold dec, ekey, eval, enc, W in *. f_equal.
  - rewrite N.div_add_l by lia. rewrite N.div_small by lia. lia.
  - rewrite N.add_comm, N.mod_add by lia. apply N.mod_small. lia.
Qed.

(* first occupied slot (ascending key) whose entry has the id *)
Fixpoint slookup (l : list (option N)) (k id : N) : option (N * N) :=
  match l with
  | [] => None
  | None :: t => slookup t (k + 1) id
  | Some e :: t => if N.eqb (ekey e) id then Some (k, e) else slookup t (k + 1) id
  end.
Fixpoint skeys (l : list (option N)) : list N :=
  match l with [] => [] | None :: t => skeys t | Some e :: t => ekey e :: skeys t end.

Definition CorP (c : N) (sd : list (option N)) (od ov : option N) : Prop :=
  match od with None => ov = None | Some d => d < c /\ geto sd d = ov /\ ov <> None end.

Lemma cor_forall2 c m s : R c m s -> Forall2 (CorP c (sdata m)) (i2d m) (mvals s) /\ lenN (sdata m) = c.
Proof.
  intros (_ & (Li & _) & (_ & _ & Ls & Lv & _ & _ & Cor & _)). split; [|exact Ls].
  apply (forall2_of_nth _ None None); [unfold lenN in *; lia|].
  intros j Hj. specialize (Cor (N.of_nat j) ltac:(unfold lenN in *; lia)).
  unfold geto, nthN in Cor. rewrite !Nat2N.id in Cor. exact Cor.
Qed.

Lemma lookup_from_ok m c id : lenN (sdata m) = c -> forall l1 l2 k,
  Forall2 (CorP c (sdata m)) l1 l2 -> fm_lookup_from m l1 k id = Val (slookup l2 k id).
Proof.
  intros Hl l1 l2 k H. revert k. induction H as [|od ov l1 l2 Hx _ IH]; intros k; cbn [fm_lookup_from slookup]; auto.
  destruct od as [d|].
  - destruct Hx as (Hd & Hg & Hn). rewrite (geti_val _ _ None) by lia. cbn [bind].
    fold (geto (sdata m) d). rewrite Hg. destruct ov as [e|]; [|congruence].
    destruct (N.eqb (ekey e) id); [reflexivity|apply IH].
  - cbn in Hx. subst ov. apply IH.
Qed.

Lemma keys_from_ok m c : lenN (sdata m) = c -> forall l1 l2,
  Forall2 (CorP c (sdata m)) l1 l2 -> fm_keys_from m l1 = Val (skeys l2).
Proof.
  intros Hl l1 l2 H. induction H as [|od ov l1 l2 Hx _ IH]; cbn [fm_keys_from skeys]; auto.
  destruct od as [d|].
  - destruct Hx as (Hd & Hg & Hn). rewrite (geti_val _ _ None) by lia. cbn [bind].
    fold (geto (sdata m) d). rewrite Hg. destruct ov as [e|]; [|congruence]. rewrite IH. reflexivity.
  - cbn in Hx. subst ov. exact IH.
Qed.

Lemma skeys_live l : skeys l = map ekey (flat_map olist l).
Proof. induction l as [|[e|] t IH]; cbn; congruence. Qed.

(* what slookup finds *)
Lemma slookup_some l : forall k id j e, slookup l k id = Some (j, e) ->
  k <= j /\ nth (N.to_nat (j - k)) l None = Some e /\ ekey e = id /\ (N.to_nat (j - k) < length l)%nat.
Proof.
  induction l as [|[x|] t IH]; intros k id j e H; cbn [slookup] in H; [discriminate| |].
  - destruct (N.eqb_spec (ekey x) id) as [E|E].
    + inversion H; subst. replace (j - j) with 0 by lia. cbn. repeat split; auto; lia.
    + apply IH in H. destruct H as (H1 & H2 & H3 & H4).
      replace (N.to_nat (j - k)) with (S (N.to_nat (j - (k + 1)))) by lia. cbn [nth length]. repeat split; auto; lia.
  - apply IH in H. destruct H as (H1 & H2 & H3 & H4).
    replace (N.to_nat (j - k)) with (S (N.to_nat (j - (k + 1)))) by lia. cbn [nth length]. repeat split; auto; lia.
Qed.

Lemma slookup_none l : forall k id, slookup l k id = None -> forall e, In e (flat_map olist l) -> ekey e <> id.
Proof.
  induction l as [|[x|] t IH]; intros k id H e He; cbn [slookup flat_map olist app] in *; [inversion He| |eauto].
  destruct (N.eqb_spec (ekey x) id) as [E|E]; [discriminate|].
  destruct He as [<-|He]; eauto.
Qed.

(* association lists with distinct keys *)
Lemma alookup_in l : forall id v, NoDup (map fst l) -> (alookup l id = Some v <-> In (id, v) l).
Proof.
  induction l as [|[k x] t IH]; intros id v Nd; cbn [alookup map fst] in *; [split; [discriminate|intros []]|].
  inversion Nd as [|? ? Hk Nd']; subst. destruct (N.eqb_spec k id) as [->|E].
  - split.
    + intros H; inversion H; subst. cbn; auto.
    + intros [H|H]; [inversion H; auto|]. exfalso. apply Hk. apply in_map_iff. exists (id, v). auto.
  - rewrite IH by auto. split; [cbn; auto|]. intros [H|H]; [inversion H; congruence|auto].
Qed.

Lemma alookup_none l id : alookup l id = None <-> ~ In id (map fst l).
Proof.
  induction l as [|[k x] t IH]; cbn [alookup map fst]; [tauto|].
  destruct (N.eqb_spec k id) as [->|E]; [split; [discriminate|intros H; exfalso; apply H; cbn; auto]|].
  rewrite IH. cbn. tauto.
Qed.

Lemma Permutation_filter {A} (f : A -> bool) l l' : Permutation l l' -> Permutation (filter f l) (filter f l').
Proof.
  induction 1; cbn; auto.
  - destruct (f x); auto.
  - destruct (f x), (f y); auto. constructor.
  - etransitivity; eauto.
Qed.

Lemma NoDup_map_filter {A B} (g : A -> B) f (l : list A) : NoDup (map g l) -> NoDup (map g (filter f l)).
Proof.
  induction l as [|a l IH]; cbn; intros H; auto. inversion H; subst.
  destruct (f a); cbn; auto. constructor; auto.
  intros HI. apply H2. apply in_map_iff in HI. destruct HI as (x & <- & Hx). apply filter_In in Hx.
  apply in_map. tauto.
Qed.

Lemma filter_all_true {A} (f : A -> bool) l : (forall x, In x l -> f x = true) -> filter f l = l.
Proof.
  induction l as [|a l IH]; cbn; intros H; auto. rewrite (H a) by auto. f_equal. apply IH. auto.
Qed.

(* ---------- the relation between the slot map reference and the association list ---------- *)
Definition FR (s : smap) (f : fmap) : Prop :=
  fcap f = mcap s /\ NoDup (map fst (fkv f)) /\ Permutation (map dec (live s)) (fkv f).

Definition FRel (c : N) (m : slotmap) (f : fmap) : Prop := exists s, R c m s /\ FR s f.

Lemma FR_new c : FR (smap_new c) (fmap_new c).
Proof.
  unfold FR, smap_new, fmap_new, live; cbn [fcap mcap fkv mvals map]. repeat split; [constructor|].
  generalize (N.to_nat c) as n. induction n; cbn; auto.
Qed.

Lemma live_length s : lenN (live s) = lenN (filter is_some (mvals s)).
Proof. unfold live, lenN. f_equal. induction (mvals s) as [|[e|] t IH]; cbn; lia. Qed.

(* lookup agreement *)
Lemma lookup_agree c m s f id : R c m s -> FR s f ->
  match slookup (mvals s) 0 id with
  | Some (k, e) => k < c /\ mget s k = Some e /\ ekey e = id /\ alookup (fkv f) id = Some (eval e)
  | None => alookup (fkv f) id = None
  end.
Proof.
  intros HR (Hc & Nd & Pm). pose proof HR as (_ & _ & (_ & _ & _ & Lv & _)).
  destruct (slookup (mvals s) 0 id) as [[k e]|] eqn:E.
  - apply slookup_some in E. destruct E as (_ & E2 & E3 & E4). rewrite N.sub_0_r in *.
    split; [unfold lenN in Lv; lia|]. split; [exact E2|]. split; [exact E3|].
    apply alookup_in; auto. apply (Permutation_in _ Pm). apply in_map_iff. exists e. split.
    + unfold dec. now rewrite E3.
    + unfold live. apply in_flat_map. exists (Some e). split; [|cbn; auto].
      rewrite <- E2. apply nth_In. exact E4.
  - apply alookup_none. intros HI. apply in_map_iff in HI. destruct HI as ([k v] & Hk & HI). cbn in Hk. subst k.
    apply (Permutation_in _ (Permutation_sym Pm)) in HI. apply in_map_iff in HI. destruct HI as (e & He & HI).
    eapply (slookup_none _ _ _ E e HI). unfold dec in He. inversion He. reflexivity.
Qed.

Lemma filter_some_all (l : list (option N)) :
  (forall j, (j < length l)%nat -> nth j l None <> None) -> filter is_some l = l.
Proof.
  induction l as [|a l IH]; intros H; cbn; auto.
  destruct a as [e|]; [|exfalso; apply (H 0%nat); cbn; [lia|reflexivity]].
  cbn. f_equal. apply IH. intros j Hj. apply (H (S j)). cbn; lia.
Qed.

Lemma filter_len_le {A} (f : A -> bool) l : (length (filter f l) <= length l)%nat.
Proof. induction l as [|a l IH]; cbn; [lia|]. destruct (f a); cbn; lia. Qed.

Lemma filter_some_lt (l : list (option N)) : forall k, (k < length l)%nat -> nth k l None = None ->
  (length (filter is_some l) < length l)%nat.
Proof.
  induction l as [|a l IH]; intros [|k] Hk Hn; cbn in *; try lia.
  - subst a. cbn. pose proof (filter_len_le is_some l). lia.
  - specialize (IH k ltac:(lia) Hn). destruct a; cbn; lia.
Qed.

Lemma full_iff c m s f : R c m s -> FR s f -> (mfree s = [] <-> ~ lenN (fkv f) < fcap f).
Proof.
  intros (Hmc & (Li & Lf & P & Nd & M & Oc) & (_ & _ & _ & Lv & _ & _ & Cor & _)) (Hc & _ & Pm).
  assert (HL : lenN (fkv f) = lenN (filter is_some (mvals s))).
  { rewrite <- live_length. unfold lenN. rewrite <- (Permutation_length Pm), map_length. reflexivity. }
  rewrite HL, Hc, Hmc. split.
  - intros E. rewrite filter_some_all; [lia|].
    intros j Hj Hn. assert (Hjc : N.of_nat j < c) by (unfold lenN in Lv; lia).
    specialize (Cor _ Hjc). unfold geto, nthN in Cor. rewrite Nat2N.id in Cor. rewrite Hn in Cor.
    destruct (nth j (i2d m) None) eqn:Eg; [destruct Cor as (_ & _ & C); congruence|].
    assert (In (N.of_nat j) (mfree s)) by (apply M; split; [auto|unfold geto, nthN; rewrite Nat2N.id; auto]).
    rewrite E in H. inversion H.
  - intros H. destruct (mfree s) as [|k r] eqn:E; [reflexivity|exfalso].
    assert (Hk : k < c /\ geto (i2d m) k = None) by (apply M; cbn; auto). destruct Hk as (Hk & Hg).
    specialize (Cor k Hk). rewrite Hg in Cor.
    pose proof (filter_some_lt (mvals s) (N.to_nat k) ltac:(unfold lenN in Lv; lia) Cor). unfold lenN in *. lia.
Qed.

Lemma flat_map_perm {A B} (g : A -> list B) l l' : Permutation l l' -> Permutation (flat_map g l) (flat_map g l').
Proof.
  induction 1; cbn; auto.
  - apply Permutation_app_head. auto.
  - rewrite !app_assoc. apply Permutation_app_tail. apply Permutation_app_comm.
  - etransitivity; eauto.
Qed.

Lemma flat_map_dec (l : list N) :
  flat_map (fun kv : N * N => [KTAG + fst kv; snd kv]) (map dec l) = edrops l.
Proof. unfold edrops. induction l; cbn; congruence. Qed.

(* returned value equal, or two listings that are permutations of each other; drop logs as multisets *)
Definition fobs_rel (a b : obs * list N) : Prop :=
  (fst a = fst b \/ exists l l', fst a = OL l /\ fst b = OL l' /\ Permutation l l') /\
  Permutation (snd a) (snd b).

Definition fop_ok (o : fop) : Prop := match o with FInsert _ v => v < W | _ => True end.

Theorem fm_step_refines c m f o : FRel c m f -> fop_ok o ->
  let '(m', ob, d) := fm_step m o in
  let '(f', ob', d') := fmap_step f o in
  fobs_rel (ob, d) (ob', d') /\ FRel c m' f'.
Proof.
  intros (s & HR & HF) Hok. pose proof HF as (Hc & Nd & Pm).
  destruct (cor_forall2 c m s HR) as (F2 & Ls).
  assert (HLk : forall id, fm_lookup m id = Val (slookup (mvals s) 0 id)).
  { intros id. unfold fm_lookup. apply (lookup_from_ok m c id Ls _ _ 0 F2). }
  assert (Same : forall ob d, fobs_rel (ob, d) (ob, d) /\ FRel c m f).
  { intros. split; [split; [left; reflexivity|reflexivity]|exists s; auto]. }
  destruct o as [id v|id|id|id|id| | |]; cbn [fm_step fmap_step].
  - (* insert *)
    unfold fm_insert. rewrite HLk. cbn [bind]. pose proof (lookup_agree c m s f id HR HF) as LA.
    destruct (slookup (mvals s) 0 id) as [[k e]|].
    + destruct LA as (_ & _ & _ & LA). rewrite LA. cbn [unres3]. apply Same.
    + rewrite LA. cbn in Hok.
      pose proof (sm_step_refines c m s (MInsert (enc id v)) HR) as HS. cbn [sm_step smap_step] in HS.
      pose proof (full_iff c m s f HR HF) as Full.
      destruct (sm_insert m (enc id v)) as [[[m' ob] d]|] eqn:EI; cbn [unres3 bind] in *.
      2:{ destruct (mfree s); destruct HS as (HS & _); discriminate. }
      destruct (mfree s) as [|k r] eqn:EF.
      * destruct HS as (-> & Hp & HR').
        destruct (N.ltb_spec (lenN (fkv f)) (fcap f)) as [Hlt|Hge]; [exfalso; apply (proj1 Full); auto|].
        apply Permutation_sym, Permutation_length_1_inv in Hp. subst d. cbn [unres3].
        split; [|exists s; auto].
        split; [left; reflexivity|]. unfold edrops. cbn [flat_map app snd].
        change (ekey (enc id v)) with (fst (dec (enc id v))). change (eval (enc id v)) with (snd (dec (enc id v))).
        rewrite (dec_enc id v Hok). reflexivity.
      * destruct HS as (-> & Hp & HR').
        destruct (N.ltb_spec (lenN (fkv f)) (fcap f)) as [Hlt|Hge].
        2:{ exfalso. assert (k :: r = []) by (apply Full; lia). discriminate. }
        apply Permutation_sym, Permutation_nil in Hp. subst d. cbn [unres3 edrops flat_map].
        split; [split; [left; reflexivity|reflexivity]|].
        eexists. split; [exact HR'|].
        destruct HR as (Hmc & (Li & Lf & P & NdF & M & Oc) & (_ & _ & _ & Lv & _ & _ & Cor & _)).
        assert (Hk : k < c /\ geto (i2d m) k = None) by (apply M; rewrite EF; cbn; auto). destruct Hk as (Hk & Hg).
        specialize (Cor k Hk). rewrite Hg in Cor.
        unfold FR; cbn [fcap fkv mcap]. split; [exact Hc|]. split.
        { rewrite map_app. cbn [map fst]. apply NoDup_app_snoc; auto. now apply alookup_none. }
        unfold live; cbn [mvals].
        pose proof (flat_olist_updN (mvals s) k (Some (enc id v)) ltac:(lia)) as FU. rewrite Cor in FU. cbn [olist app] in FU.
        rewrite FU. cbn [map]. rewrite (dec_enc id v Hok). rewrite <- Permutation_cons_append. constructor. exact Pm.
  - (* get *)
    unfold fm_get. rewrite HLk. cbn [bind unres1]. pose proof (lookup_agree c m s f id HR HF) as LA.
    destruct (slookup (mvals s) 0 id) as [[k e]|]; [destruct LA as (_ & _ & _ & LA)|]; rewrite LA; apply Same.
  - (* get_ref *)
    unfold fm_get. rewrite HLk. cbn [bind unres1]. pose proof (lookup_agree c m s f id HR HF) as LA.
    destruct (slookup (mvals s) 0 id) as [[k e]|]; [destruct LA as (_ & _ & _ & LA)|]; rewrite LA; apply Same.
  - (* remove *)
    unfold fm_remove. rewrite HLk. cbn [bind]. pose proof (lookup_agree c m s f id HR HF) as LA.
    destruct (slookup (mvals s) 0 id) as [[k e]|]; [|rewrite LA; cbn [unres3]; apply Same].
    destruct LA as (Hk & Hm & He & LA). rewrite LA.
    pose proof (sm_step_refines c m s (MRemove k) HR) as HS. cbn [sm_step smap_step] in HS.
    destruct HR as (Hmc & KK & (_ & _ & _ & Lv & _)).
    rewrite Hmc in HS. destruct (N.ltb_spec k c); [|lia]. rewrite Hm in HS.
    destruct (sm_remove m k) as [[[m' ob] d]|] eqn:ER; cbn [unres3 bind] in *.
    2:{ destruct HS as (HS & _); discriminate. }
    destruct HS as (-> & Hp & HR'). cbn [unres3]. rewrite He.
    split; [split; [left; reflexivity|reflexivity]|].
    eexists. split; [exact HR'|].
    unfold FR; cbn [fcap fkv mcap]. split; [congruence|]. split; [apply NoDup_map_filter; auto|].
    unfold live; cbn [mvals].
    pose proof (flat_olist_updN (mvals s) k None ltac:(lia)) as FU.
    unfold mget in Hm. fold (nthN (mvals s) k None) in Hm. fold (geto (mvals s) k) in Hm. rewrite Hm in FU. cbn [olist app] in FU.
    set (L' := flat_map olist (updN (mvals s) k None)) in *.
    assert (P2 : Permutation (fkv f) (dec e :: map dec L')).
    { rewrite <- Pm. unfold live. rewrite <- FU. reflexivity. }
    unfold aremove. rewrite (Permutation_filter _ _ _ P2). cbn [filter fst dec]. rewrite He, N.eqb_refl. cbn [negb].
    rewrite filter_all_true; [reflexivity|].
    intros x Hx. assert (Nd2 : NoDup (map fst (dec e :: map dec L'))).
    { eapply Permutation_NoDup; [apply Permutation_map; exact P2|exact Nd]. }
    cbn [map] in Nd2. apply NoDup_cons_iff in Nd2. destruct Nd2 as (Hn & _). cbn [dec fst] in Hn. rewrite He in Hn.
    destruct (N.eqb_spec (fst x) id) as [E|E]; [|reflexivity]. exfalso. apply Hn. rewrite <- E. now apply in_map.
  - (* contains *)
    unfold fm_contains. rewrite HLk. cbn [bind unres1]. pose proof (lookup_agree c m s f id HR HF) as LA.
    destruct (slookup (mvals s) 0 id) as [[k e]|]; [destruct LA as (_ & _ & _ & LA)|]; rewrite LA; apply Same.
  - (* list_keys *)
    rewrite (keys_from_ok m c Ls _ _ F2). cbn [bind unres1].
    split; [|exists s; auto]. split; [|reflexivity]. right. do 2 eexists. split; [reflexivity|]. split; [reflexivity|].
    rewrite skeys_live. rewrite <- (Permutation_map fst Pm). rewrite map_map. reflexivity.
  - (* len *)
    destruct HR as (Hmc & KK & (Hcc & Li & Ls' & Lv & QI & Qc & Cor & Inj & NdF & Fr & Ln & Hl & Pmm)).
    assert (HL : lenN (fkv f) = smlen m).
    { rewrite Hl, <- live_length. unfold lenN. rewrite <- (Permutation_length Pm), map_length. reflexivity. }
    rewrite HL. split; [split; [left; reflexivity|reflexivity]|]. exists s. split; [|auto].
    exact (conj Hmc (conj KK (conj Hcc (conj Li (conj Ls' (conj Lv (conj QI (conj Qc (conj Cor (conj Inj (conj NdF (conj Fr (conj Ln (conj Hl Pmm)))))))))))))).
  - (* container drop *)
    split; [|exists s; auto]. split; [left; reflexivity|]. cbn [snd].
    destruct HR as (_ & _ & (_ & _ & _ & _ & _ & _ & _ & _ & _ & _ & _ & _ & Pmm)).
    rewrite <- (flat_map_perm _ _ _ Pm). rewrite flat_map_dec. unfold edrops, sm_drop_log.
    apply flat_map_perm. rewrite <- Pmm. symmetry. apply Permutation_rev.
Qed.

(* flatmap.rs refines the association-list reference, for every capacity (0 included) and every
   operation sequence (values below 2^32: the model codes an entry as one number) *)
Theorem fm_refines_map : forall (c : N) (ops : list fop), Forall fop_ok ops ->
  Forall2 fobs_rel (fm_run (sm_new c) ops) (fmap_run (fmap_new c) ops).
Proof.
  intros c ops. assert (H0 : FRel c (sm_new c) (fmap_new c)) by (exists (smap_new c); split; [apply R_new|apply FR_new]).
  revert H0. generalize (sm_new c) (fmap_new c).
  induction ops as [|o t IH]; intros m f HR Hok; cbn [fm_run fmap_run]; [constructor|].
  inversion Hok as [|? ? Ho Ht]; subst.
  pose proof (fm_step_refines c m f o HR Ho) as H.
  destruct (fm_step m o) as [[m' ob] d], (fmap_step f o) as [[f' ob'] d'].
  destruct H as (Hob & HR'). constructor; [exact Hob|apply IH; auto].
Qed.

(* what the reference says about insert: a present id -> KeyAlreadyExists; an absent id into a
   full map -> IsFull; otherwise stored; the two errors change nothing (fmap_error_unchanged) *)
Theorem fmap_insert_cases f id v :
  let '(f', ob, _) := fmap_step f (FInsert id v) in
  (alookup (fkv f) id <> None -> ob = OErr EKeyExists /\ f' = f) /\
  (alookup (fkv f) id = None -> ~ lenN (fkv f) < fcap f -> ob = OErr EIsFull /\ f' = f) /\
  (alookup (fkv f) id = None -> lenN (fkv f) < fcap f -> ob = OUnit /\ alookup (fkv f') id = Some v).
Proof.
  cbn [fmap_step]. destruct (alookup (fkv f) id) eqn:E.
  - repeat split; auto; intros; congruence.
  - destruct (N.ltb_spec (lenN (fkv f)) (fcap f)); repeat split; auto; try congruence; try lia.
    cbn [fkv]. clear -E. induction (fkv f) as [|[k x] t IH]; cbn in *.
    + now rewrite N.eqb_refl.
    + destruct (N.eqb k id); [discriminate|auto].
Qed.
