(* C14 -- proofs about the self-relative pointer and the memory-image model (model/RelPtr.v). *)
From V Require Import model.Base model.RingQueue model.RelPtr.
From Coq Require Import ZifyBool ZifyNat ZifyN.
Open Scope Z_scope.

(* ---------------------------------------------------------------------------------------
   the pointer itself *)
Lemma rp_shift : forall s d delta, rp_as_ptr (s + delta) d = rp_as_ptr s d + delta.
Proof. intros s d delta; unfold rp_as_ptr; lia. Qed.

Lemma rp_roundtrip : forall s t, rp_as_ptr s (rp_init s t) = t.
Proof. intros s t; unfold rp_as_ptr, rp_init; lia. Qed.

Lemma rp_relocated : forall s t delta, rp_as_ptr (s + delta) (rp_init s t) = t + delta.
Proof. intros s t delta; unfold rp_as_ptr, rp_init; lia. Qed.

Lemma rp_shift_w : forall s d delta,
  rp_as_ptr_w (wrap64 (s + delta)) d = wrap64 (rp_as_ptr_w s d + delta).
Proof.
  intros s d delta; unfold rp_as_ptr_w, wrap64.
  rewrite !Zplus_mod_idemp_l. f_equal; lia.
Qed.

Lemma ap_no_shift : forall s p delta, ap_as_ptr (s + delta) p = ap_as_ptr s p.
Proof. reflexivity. Qed.

Lemma ap_stale : forall s t delta, delta <> 0 -> ap_as_ptr (s + delta) (ap_init s t) <> t + delta.
Proof. intros s t delta Hd; unfold ap_as_ptr, ap_init; lia. Qed.

(* ---------------------------------------------------------------------------------------
   relocation of one program, of a history, of a history split at any point *)
Section Reloc.
Variable P : Z -> Prop.
Variable delta : Z.

Lemma resolve_shift : forall h m m' a, agree P delta m m' -> acc_ok P h a ->
  resolve (h + delta) m' a = resolve h m a + delta.
Proof.
  intros h m m' a Hag Hok. destruct a as [k|k i|k i]; cbn [resolve acc_ok] in *.
  - lia.
  - replace (h + delta + k) with (h + k + delta) by lia. rewrite (Hag _ Hok). unfold rp_as_ptr. lia.
  - contradiction.
Qed.

Lemma agree_mupd : forall m m' a v, agree P delta m m' ->
  agree P delta (mupd m a v) (mupd m' (a + delta) v).
Proof.
  intros m m' a v Hag x Hx. unfold mupd.
  destruct (Z.eqb_spec x a) as [E|E]; destruct (Z.eqb_spec (x + delta) (a + delta)) as [E'|E']; try lia; auto.
Qed.

Lemma exec_reloc : forall A (p : prog A) h m m', agree P delta m m' -> safe P h m p ->
  snd (exec h m p) = snd (exec (h + delta) m' p) /\
  agree P delta (fst (exec h m p)) (fst (exec (h + delta) m' p)).
Proof.
  induction p as [a|a k IH|a v k IH]; intros h m m' Hag Hs; cbn [exec safe] in *.
  - split; auto.
  - destruct Hs as (Hok & HP & Hs). rewrite (resolve_shift h m m' a Hag Hok). rewrite (Hag _ HP).
    apply IH; auto.
  - destruct Hs as (Hok & HP & Hs). rewrite (resolve_shift h m m' a Hag Hok).
    apply IH; auto. apply agree_mupd; auto.
Qed.

Lemma run_reloc : forall O A (prg : O -> prog A) ops h m m', agree P delta m m' ->
  safe_run P prg h m ops ->
  snd (run prg h m ops) = snd (run prg (h + delta) m' ops) /\
  agree P delta (fst (run prg h m ops)) (fst (run prg (h + delta) m' ops)).
Proof.
  induction ops as [|o t IH]; intros h m m' Hag Hs; cbn [run safe_run] in *.
  - split; auto.
  - destruct Hs as (Hs & Hr).
    destruct (exec_reloc _ (prg o) h m m' Hag Hs) as (Ho & Hag1).
    destruct (exec h m (prg o)) as [m1 r] eqn:E1.
    destruct (exec (h + delta) m' (prg o)) as [m1' r'] eqn:E2.
    cbn [fst snd] in *.
    specialize (IH h m1 m1' Hag1 Hr).
    destruct (run prg h m1 t) as [m2 rs]. destruct (run prg (h + delta) m1' t) as [m2' rs'].
    cbn [fst snd] in *. destruct IH as (IH1 & IH2). split; [congruence|auto].
Qed.
End Reloc.

Lemma run_app : forall O A (prg : O -> prog A) a b h m,
  run prg h m (a ++ b) =
  (fst (run prg h (fst (run prg h m a)) b),
   snd (run prg h m a) ++ snd (run prg h (fst (run prg h m a)) b)).
Proof.
  induction a as [|o t IH]; intros b h m; cbn [run app fst snd].
  - destruct (run prg h m b); reflexivity.
  - destruct (exec h m (prg o)) as [m1 r]. rewrite IH.
    destruct (run prg h m1 t) as [m2 rs]. cbn [fst snd]. reflexivity.
Qed.

Lemma safe_run_app : forall P O A (prg : O -> prog A) a b h m,
  safe_run P prg h m (a ++ b) ->
  safe_run P prg h m a /\ safe_run P prg h (fst (run prg h m a)) b.
Proof.
  induction a as [|o t IH]; intros b h m Hs; cbn [run app safe_run fst] in *.
  - split; auto.
  - destruct Hs as (Hs & Hr). destruct (exec h m (prg o)) as [m1 r]. cbn [fst] in *.
    destruct (IH b h m1 Hr) as (H1 & H2). destruct (run prg h m1 t) as [m2 rs]. cbn [fst] in *.
    repeat split; auto.
Qed.

(* a history run entirely at h, versus a prefix at h, the block copied by delta, the rest at
   h + delta: same observations, final images equal up to the shift *)
Theorem run_split_reloc : forall (P : Z -> Prop) delta O A (prg : O -> prog A) ops1 ops2 h m mc,
  safe_run P prg h m (ops1 ++ ops2) ->
  agree P delta (fst (run prg h m ops1)) mc ->
  snd (run prg h m (ops1 ++ ops2)) = snd (run prg h m ops1) ++ snd (run prg (h + delta) mc ops2) /\
  agree P delta (fst (run prg h m (ops1 ++ ops2))) (fst (run prg (h + delta) mc ops2)).
Proof.
  intros P delta O A prg ops1 ops2 h m mc Hs Hag.
  destruct (safe_run_app P O A prg ops1 ops2 h m Hs) as (_ & Hs2).
  rewrite run_app. cbn [fst snd].
  destruct (run_reloc P delta O A prg ops2 h (fst (run prg h m ops1)) mc Hag Hs2) as (Ho & Hm).
  split; [rewrite Ho; reflexivity|exact Hm].
Qed.

(* ---------------------------------------------------------------------------------------
   a program without absolute-pointer accesses touches nothing it should not when the whole
   memory is considered *)
Definition everywhere (x : Z) : Prop := True.

Lemma rel_only_safe : forall A (p : prog A) h m, rel_only p -> safe everywhere h m p.
Proof.
  induction p as [a|a k IH|a v k IH]; intros h m Hr; cbn [safe rel_only] in *; auto.
  - destruct Hr as (Ha & Hk). repeat split; [destruct a; cbn; auto|apply IH; auto].
  - destruct Hr as (Ha & Hk). repeat split; [destruct a; cbn; auto|apply IH; auto].
Qed.

Lemma rel_only_safe_run : forall O A (prg : O -> prog A), (forall o, rel_only (prg o)) ->
  forall ops h m, safe_run everywhere prg h m ops.
Proof.
  intros O A prg Hp. induction ops as [|o t IH]; intros h m; cbn [safe_run]; auto.
  split; [apply rel_only_safe; auto|apply IH].
Qed.

Lemma rel_only_bind : forall A B (p : prog A) (f : A -> prog B),
  rel_only p -> (forall a, rel_only (f a)) -> rel_only (bind p f).
Proof.
  induction p as [a|a k IH|a v k IH]; intros f Hp Hf; cbn [bind rel_only] in *; auto.
  - destruct Hp as (Ha & Hk). split; auto.
  - destruct Hp as (Ha & Hk). split; auto.
Qed.

Ltac ro :=
  repeat first
    [ exact I
    | progress cbn [rel_only]
    | split
    | intro
    | apply rel_only_bind
    | match goal with |- rel_only (if ?c then _ else _) => destruct c end
    | match goal with |- rel_only (match ?r with _ => _ end) => destruct r end ].

Lemma iq_unchecked_push_ro : forall v, rel_only (iq_unchecked_push v).
Proof. intro v; unfold iq_unchecked_push; ro. Qed.
Lemma iq_pop_ro : rel_only iq_pop.
Proof. unfold iq_pop; ro. Qed.
Lemma iq_peek_ro : rel_only iq_peek.
Proof. unfold iq_peek; ro. Qed.
Lemma iq_push_ro : forall v, rel_only (iq_push v).
Proof. intro v; unfold iq_push; ro; apply iq_unchecked_push_ro. Qed.
Lemma iq_push_overflow_ro : forall v, rel_only (iq_push_overflow v).
Proof. intro v; unfold iq_push_overflow; ro; first [apply iq_pop_ro|apply iq_unchecked_push_ro]. Qed.
Lemma iq_get_ro : forall i, rel_only (iq_get i).
Proof. intro i; unfold iq_get; ro. Qed.
Lemma iq_clear_fuel_ro : forall f d, rel_only (iq_clear_fuel f d).
Proof.
  induction f as [|f IH]; intro d; cbn [iq_clear_fuel]; [exact I|].
  apply rel_only_bind; [apply iq_pop_ro|].
  intros [[v|]|]; cbn [rel_only]; auto.
Qed.
Lemma iq_clear_ro : rel_only iq_clear.
Proof. unfold iq_clear; cbn [rel_only]; split; auto. intro z. apply iq_clear_fuel_ro. Qed.

Lemma iq_prog_rel_only : forall o, rel_only (iq_prog o).
Proof.
  destruct o as [v|v| | |i| |]; cbn [iq_prog];
    try (apply rel_only_bind; [|intro r; exact I]).
  - apply iq_push_ro.
  - apply iq_push_overflow_ro.
  - apply iq_pop_ro.
  - apply iq_peek_ro.
  - apply iq_get_ro.
  - apply iq_clear_ro.
  - cbn [rel_only]. split; auto.
Qed.

(* the queue image, every history, whole memory shifted: no side condition at all *)
Theorem iq_reloc_whole : forall ops h delta m m',
  (forall x, m' (x + delta) = m x) ->
  snd (iq_run h m ops) = snd (iq_run (h + delta) m' ops) /\
  forall x, fst (iq_run (h + delta) m' ops) (x + delta) = fst (iq_run h m ops) x.
Proof.
  intros ops h delta m m' Hm. unfold iq_run.
  destruct (run_reloc everywhere delta qop qobs iq_prog ops h m m') as (Ho & Hag).
  - intros x _. apply Hm.
  - apply rel_only_safe_run. apply iq_prog_rel_only.
  - split; auto. intro x. apply Hag. exact I.
Qed.

(* the queue image, a history split at any point, only the block [b, b+n) copied *)
Theorem iq_reloc_split : forall ops1 ops2 h delta b n m mc,
  safe_run (in_block b n) iq_prog h m (ops1 ++ ops2) ->
  (forall x, b <= x < b + n -> mc (x + delta) = fst (iq_run h m ops1) x) ->
  snd (iq_run h m (ops1 ++ ops2)) = snd (iq_run h m ops1) ++ snd (iq_run (h + delta) mc ops2) /\
  forall x, b <= x < b + n ->
    fst (iq_run (h + delta) mc ops2) (x + delta) = fst (iq_run h m (ops1 ++ ops2)) x.
Proof.
  intros ops1 ops2 h delta b n m mc Hs Hc. unfold iq_run in *.
  exact (run_split_reloc (in_block b n) delta qop qobs iq_prog ops1 ops2 h m mc Hs Hc).
Qed.

(* ---------------------------------------------------------------------------------------
   the contrast at the image level: one read through an absolute pointer stored in the header *)
Definition ex_m_abs : mem := fun x => if x =? 100 then 105 else if x =? 105 then 7 else 0.
Definition ex_m_rel : mem := fun x => if x =? 100 then 5 else if x =? 105 then 7 else 0.
Definition ex_copy (m : mem) : mem := fun x => if (1100 <=? x) && (x <? 1108) then m (x - 1000) else 170.

Lemma ex_copy_agree : forall m, agree (in_block 100 8) 1000 m (ex_copy m).
Proof.
  intros m x Hx. unfold in_block in Hx. unfold ex_copy.
  destruct (Z.leb_spec 1100 (x + 1000)); destruct (Z.ltb_spec (x + 1000) 1108); cbn [andb]; try lia.
  f_equal; lia.
Qed.

Lemma abs_image_diverges :
  snd (exec 100 ex_m_abs aq_get0) = 7 /\ snd (exec (100 + 1000) (ex_copy ex_m_abs) aq_get0) = 170.
Proof. split; reflexivity. Qed.

Lemma rel_image_same :
  snd (exec 100 ex_m_rel (Rd (Rel F_PTR 0) (fun v => Ret v))) = 7 /\
  snd (exec (100 + 1000) (ex_copy ex_m_rel) (Rd (Rel F_PTR 0) (fun v => Ret v))) = 7.
Proof. split; reflexivity. Qed.
