(* Subscriber-side functions of model/Port.v preserve the world invariant (proofs/PortInv.v).
   Every lemma: invariant of the result + the footprint (SubStep) + PhiLe (no connection accounts
   for more chunks afterwards) + TbrOk is kept (SubOK, defined in PortInvSubAux.v). *)
From V Require Import model.Base model.Conn model.Port proofs.ListLemmas proofs.ConnProofs proofs.PortProofs proofs.PortView proofs.PortInv.
From V Require Export proofs.PortInvSubAux.
From Coq Require Import Lia.
Local Open Scope nat_scope.

(* a stored connection survives with its sender id; its tag may change *)
Definition store_le (w w' : world) (s : nat) : Prop :=
  forall key e', nth key (s_store (gets w' s)) None = Some e' ->
  exists e, nth key (s_store (gets w s)) None = Some e /\ se_pub e = se_pub e'.

(* a change of the local state of subscriber s only *)
Lemma sets_ok H h w s x' :
  InvG H w -> salive w s ->
  s_active x' = s_active (gets w s) -> s_alive x' = s_alive (gets w s) -> s_slot x' = s_slot (gets w s) ->
  s_buf x' = s_buf (gets w s) -> s_hreq x' = s_hreq (gets w s) ->
  SubInvH (sets w s x') s h ->
  (forall x, In x (w_samples w) -> x_sub x = s -> pact w (x_origin x) ->
             exists e, nth (x_key x) (s_store x') None = Some e /\ se_pub e = x_origin x) ->
  (TbrOk w s -> NoDup (s_tbr x') /\ forall k, In k (s_tbr x') -> nth k (s_store x') None <> None) ->
  SubOK (fupd H s h) s w (sets w s x').
Proof.
  intros I Ha A B C D E V X T. pose proof (salive_lt _ _ Ha) as Ls.
  assert (G : gets (sets w s x') s = x') by now apply gets_sets_same.
  assert (S : SubStep s w (sets w s x')) by now apply SubStep_sets.
  apply SubOK_intro; auto.
  - eapply SubSelf_build; eauto.
    + apply ConnSelf_sets; auto. eapply Inv_ConnSelf; eauto.
    + rewrite G. exact X.
  - apply PhiLe_sets.
  - intros T0. unfold TbrOk. rewrite G. auto.
Qed.

(* S1  connection_storage.remove(key) *)
Lemma sub_storage_remove_ok H w s key :
  InvG H w -> salive w s ->
  (forall e, nth key (s_store (gets w s)) None = Some e -> pact w (se_pub e) -> borrowed w (se_pub e) s = []) ->
  (forall i, nth i (s_tab (gets w s)) None = Some key -> H s = Some i) ->
  ~ In key (s_tbr (gets w s)) ->
  SubOK H s w (sub_storage_remove w s key)
  /\ s_tab (gets (sub_storage_remove w s key) s) = s_tab (gets w s)
  /\ s_tbr (gets (sub_storage_remove w s key) s) = s_tbr (gets w s)
  /\ (forall k, k <> key -> nth k (s_store (gets (sub_storage_remove w s key) s)) None = nth k (s_store (gets w s)) None)
  /\ nth key (s_store (gets (sub_storage_remove w s key) s)) None = None.
Proof.
  intros I Ha Hb Ht Hnt. pose proof (salive_lt _ _ Ha) as Ls.
  unfold sub_storage_remove. cbn zeta.
  destruct (nth key (s_store (gets w s)) None) as [e|] eqn:Ee.
  2:{ splits; auto. now apply SubOK_refl. }
  pose proof (iv_sub _ _ I s Ha) as SV.
  destruct (sv_conn _ _ _ SV key e Ee) as [Lq [c [Hc Hrc]]].
  rewrite Hc.
  set (x' := s_set_store (gets w s) (upd (s_store (gets w s)) key None) (key :: s_freekeys (gets w s))).
  set (w1 := setc w (se_pub e) s (set_ports (set_sub_borrow c (c_sub c) 0) (c_snd c) false)).
  assert (Ls1 : s < length (w_subs w1)) by (unfold w1; now rewrite len_subs_setc).
  assert (G1 : gets w1 s = gets w s) by apply gets_setc.
  assert (G : gets (sets w1 s x') s = x') by now apply gets_sets_same.
  assert (S : SubStep s w (sets w1 s x')).
  { eapply SubStep_trans; [apply SubStep_setc|]. apply SubStep_sets; auto; rewrite G1; reflexivity. }
  assert (Klt : key < length (s_store (gets w s))) by (eapply nth_some_lt; eauto).
  destruct SV as [v1 v2 v3 v4 v5 v6 v7 v8 v9 v10 v11].
  split.
  { eapply SubOK_ext; [apply (fupd_id H s)|].
    apply SubOK_intro; auto.
    - eapply SubSelf_build; eauto.
      + unfold w1. apply samples_setc.
      + unfold w1. apply nsample_setc.
      + apply ConnSelf_sets; auto; [rewrite G1; reflexivity|rewrite G1; reflexivity|].
        apply (flip_ConnSelf H w (se_pub e) s c false); auto; intros Hp; now apply (Hb e).
      + intros _. eapply (SubInvH_mk w); [exact G|apply (ss_cfg _ _ _ S)|apply (ss_pubs _ _ _ S)|..];
          unfold x'; cbn [s_tab s_store s_freekeys s_tbr s_buf s_set_store]; auto.
        * intros i k Hi Hh. destruct (v4 i k Hi Hh) as [e0 He0]. exists e0. rewrite nth_upd_none.
          destruct (Nat.eqb_spec k key) as [->|]; [|exact He0]. exfalso. apply Hh. now apply Ht.
        * constructor; [|exact v5]. intros Hi. apply v6 in Hi as [_ Hi]. congruence.
        * intros k [<-|Hk]; rewrite upd_length, nth_upd_none.
          -- now rewrite Nat.eqb_refl.
          -- destruct (v6 k Hk) as [A B]. split; auto. now destruct (Nat.eqb k key).
        * intros k e0 Hk Hp. rewrite nth_upd_none in Hk. destruct (Nat.eqb_spec k key); [discriminate|]. eapply v7; eauto.
        * intros k e0 Hi Hk. rewrite nth_upd_none in Hk. destruct (Nat.eqb_spec k key); [discriminate|]. eapply v8; eauto.
        * intros k1 k2 e1 e2 H1 H2. rewrite nth_upd_none in H1, H2.
          destruct (Nat.eqb_spec k1 key); [discriminate|]. destruct (Nat.eqb_spec k2 key); [discriminate|]. eapply v10; eauto.
        * intros k e0 Hk. rewrite nth_upd_none in Hk. destruct (Nat.eqb_spec k key) as [|Hne]; [discriminate|].
          destruct (v11 k e0 Hk) as [A [c' [B C]]]. split; auto. exists c'. split; auto.
          rewrite getc_sets. unfold w1. rewrite getc_setc_otherp; auto.
          intros E. apply Hne. symmetry. eapply v10; eauto.
      + intros x Hx Hs Hp. destruct (iv_samp_store _ _ I x Hx Hp) as [e0 [A B]]. rewrite Hs in A. exists e0. split; auto.
        rewrite G. unfold x'. cbn [s_store s_set_store]. rewrite nth_upd_none.
        destruct (Nat.eqb_spec (x_key x) key) as [E|]; auto. exfalso.
        rewrite E in A. assert (e0 = e) by congruence. subst e0.
        pose proof (in_borrowed w x Hx) as Hin. rewrite <- B in Hp. rewrite Hs, <- B, (Hb e eq_refl Hp) in Hin. destruct Hin.
    - eapply PhiLe_trans; [|apply PhiLe_sets]. eapply PhiLe_setc; [exact Hc| |]; cbn; lia.
    - intros [T1 T2]. unfold TbrOk. rewrite G. unfold x'. cbn [s_tbr s_store s_set_store]. split; auto.
      intros k Hk. rewrite nth_upd_none. destruct (Nat.eqb_spec k key) as [->|]; [contradiction|auto]. }
  rewrite G. unfold x'. cbn [s_tab s_tbr s_store s_set_store]. splits; auto.
  - intros k Hk. rewrite nth_upd_none. destruct (Nat.eqb_spec k key); [contradiction|reflexivity].
  - rewrite nth_upd_none. now rewrite Nat.eqb_refl.
Qed.

(* S2  to_be_removed_connections.remove(index) *)
Lemma tbr_remove_ok H w s idx :
  InvG H w -> salive w s ->
  SubOK H s w (tbr_remove w s idx)
  /\ s_tab (gets (tbr_remove w s idx) s) = s_tab (gets w s)
  /\ s_store (gets (tbr_remove w s idx) s) = s_store (gets w s)
  /\ s_tbr (gets (tbr_remove w s idx) s) = remove_nth idx (s_tbr (gets w s)).
Proof.
  intros I Ha. pose proof (salive_lt _ _ Ha) as Ls. unfold tbr_remove. cbn zeta.
  set (x' := s_set_tbr (gets w s) (remove_nth idx (s_tbr (gets w s)))).
  assert (G : gets (sets w s x') s = x') by now apply gets_sets_same.
  destruct (iv_sub _ _ I s Ha) as [v1 v2 v3 v4 v5 v6 v7 v8 v9 v10 v11].
  split; [|rewrite G; unfold x'; cbn [s_tab s_tbr s_store s_set_tbr]; auto].
  eapply SubOK_ext; [apply (fupd_id H s)|].
  apply sets_ok; auto.
  - eapply (SubInvH_mk w); [exact G|reflexivity|reflexivity|..]; unfold x'; cbn [s_tab s_store s_freekeys s_tbr s_buf s_set_tbr]; auto.
    + intros k e0 Hi. apply in_remove_nth in Hi. now apply v8.
    + intros i k Hi Hk. apply in_remove_nth in Hk. eapply v9; eauto.
  - intros x Hx Hs Hp. destruct (iv_samp_store _ _ I x Hx Hp) as [e0 [A B]]. rewrite Hs in A. eauto.
  - intros [T1 T2]. unfold x'. cbn [s_tbr s_store s_set_tbr]. split; [now apply nodup_remove_nth|].
    intros k Hk. apply T2. eapply in_remove_nth; eauto.
Qed.

(* S4  Receiver::prepare_connection_removal(index): the connection stored for tab[index] belongs to a
   publisher that has left the registry *)
Lemma samp_store_le H w s st :
  InvG H w ->
  (forall k e, nth k (s_store (gets w s)) None = Some e -> exists e', nth k st None = Some e' /\ se_pub e' = se_pub e) ->
  forall x, In x (w_samples w) -> x_sub x = s -> pact w (x_origin x) ->
            exists e, nth (x_key x) st None = Some e /\ se_pub e = x_origin x.
Proof.
  intros I Hst x Hx Hs Hp. destruct (iv_samp_store _ _ I x Hx Hp) as [e0 [A B]]. rewrite Hs in A.
  destruct (Hst _ _ A) as [e' [A' B']]. exists e'. split; [exact A'|congruence].
Qed.

Lemma InvG_hole H w s i : InvG H w -> H s = None -> InvG (fupd H s (Some i)) w.
Proof.
  intros I Hs. destruct I as [a b c d e f g h i0 j k l m m' n o p q]. constructor; auto.
  intros t Ht. destruct (Nat.eq_dec t s) as [->|Hne].
  - rewrite fupd_same. apply SubInvH_weaken. rewrite <- Hs. now apply g.
  - rewrite fupd_other by exact Hne. now apply g.
Qed.

Lemma find_tbr_spec w s cond l : forall n i k, find_tbr w s cond l n = Some (i, k) -> n <= i /\ nth_error l (i - n) = Some k.
Proof.
  induction l as [|key t IH]; intros n i k Hf; [discriminate|]. cbn [find_tbr] in Hf.
  destruct (nth key (s_store (gets w s)) None).
  - destruct (sub_data_borrows w s key) as [d b]. destruct (cond d b).
    + inversion Hf; subst. rewrite Nat.sub_diag. split; [lia|reflexivity].
    + apply IH in Hf as [A B]. split; [lia|]. replace (i - n) with (S (i - S n)) by lia. exact B.
  - inversion Hf; subst. rewrite Nat.sub_diag. auto.
Qed.

Lemma tbr_push_ok H w s index key :
  InvG H w -> H s = None -> salive w s ->
  nth index (s_tab (gets w s)) None = Some key ->
  (forall e, nth key (s_store (gets w s)) None = Some e -> ~ pact w (se_pub e)) ->
  nth key (s_store (gets w s)) None <> None ->
  SubOK (fupd H s (Some index)) s w (sets w s (s_set_tbr (gets w s) (s_tbr (gets w s) ++ [key]))).
Proof.
  intros I Hs Ha Ek Hn He. pose proof (salive_lt _ _ Ha) as Ls.
  set (x' := s_set_tbr (gets w s) (s_tbr (gets w s) ++ [key])).
  assert (G : gets (sets w s x') s = x') by now apply gets_sets_same.
  pose proof (iv_sub _ _ I s Ha) as SV. rewrite Hs in SV. destruct SV as [v1 v2 v3 v4 v5 v6 v7 v8 v9 v10 v11].
  assert (Hnk : ~ In key (s_tbr (gets w s))) by (intros Hi; specialize (v9 _ _ Ek Hi); discriminate).
  apply sets_ok; auto.
  - eapply (SubInvH_mk w); [exact G|reflexivity|reflexivity|..]; unfold x'; cbn [s_tab s_store s_freekeys s_tbr s_buf s_set_tbr]; auto.
    + intros i k Hi _. eapply v4; eauto. discriminate.
    + intros k e0 Hi Hk. apply in_app_or in Hi as [Hi|[<-|[]]]; [eapply v8; eauto|now apply Hn].
    + intros i k Hi Hk. apply in_app_or in Hk as [Hk|[<-|[]]]; [specialize (v9 _ _ Hi Hk); discriminate|].
      f_equal. eapply nodup_keys_inj; eauto.
  - apply (samp_store_le H); auto. intros k e0 Hk. eauto.
  - intros [T1 T2]. unfold x'. cbn [s_tbr s_store s_set_tbr]. split; [now apply NoDup_app_one|].
    intros k Hk. apply in_app_or in Hk as [Hk|[<-|[]]]; auto.
Qed.

(* one expired connection is given up: to_be_removed.remove(i); connection_storage.remove(k) *)
Lemma tbr_evict_ok H w s i k :
  InvG H w -> salive w s -> TbrOk w s -> nth_error (s_tbr (gets w s)) i = Some k ->
  SubOK H s w (sub_storage_remove (tbr_remove w s i) s k)
  /\ s_tab (gets (sub_storage_remove (tbr_remove w s i) s k) s) = s_tab (gets w s)
  /\ s_tbr (gets (sub_storage_remove (tbr_remove w s i) s k) s) = remove_nth i (s_tbr (gets w s))
  /\ (forall k', k' <> k -> nth k' (s_store (gets (sub_storage_remove (tbr_remove w s i) s k) s)) None = nth k' (s_store (gets w s)) None)
  /\ nth k (s_store (gets (sub_storage_remove (tbr_remove w s i) s k) s)) None = None.
Proof.
  intros I Ha T Hn. destruct (tbr_remove_ok H w s i I Ha) as (O1 & T1 & S1 & R1).
  set (w1 := tbr_remove w s i) in *.
  assert (Ha1 : salive w1 s) by (apply (SubStep_salive _ _ _ _ (proj1 (proj2 O1))); exact Ha).
  pose proof (iv_sub _ _ I s Ha) as SV.
  assert (Hin : In k (s_tbr (gets w s))) by (eapply nth_error_In; eauto).
  destruct (sub_storage_remove_ok H w1 s k (proj1 O1) Ha1) as (O2 & T2 & R2 & S2 & S3).
  - intros e He Hp. exfalso. rewrite S1 in He. apply (SubStep_pact _ _ _ _ (proj1 (proj2 O1))) in Hp.
    eapply (sv_tbr _ _ _ SV); eauto.
  - intros j Hj. rewrite T1 in Hj. eapply (sv_tbr_tab _ _ _ SV); eauto.
  - rewrite R1. apply notin_remove_nth; [apply T|exact Hn].
  - splits.
    + eapply SubOK_trans; eauto.
    + congruence.
    + congruence.
    + intros k' Hk'. rewrite S2 by exact Hk'. now rewrite S1.
    + exact S3.
Qed.

Lemma prep_tail H w w1 s index key e w' :
  InvG H w -> H s = None -> salive w s ->
  nth index (s_tab (gets w s)) None = Some key -> nth key (s_store (gets w s)) None = Some e -> ~ pact w (se_pub e) ->
  SubOK H s w w1 -> s_tab (gets w1 s) = s_tab (gets w s) ->
  (forall k', ~ In k' (s_tbr (gets w s)) -> nth k' (s_store (gets w1 s)) None = nth k' (s_store (gets w s)) None) ->
  (forall k' e', nth k' (s_store (gets w1 s)) None = Some e' -> nth k' (s_store (gets w s)) None = Some e') ->
  (forall k', In k' (s_tbr (gets w1 s)) -> In k' (s_tbr (gets w s))) ->
  (w' = sets w1 s (s_set_tbr (gets w1 s) (s_tbr (gets w1 s) ++ [key])) \/ w' = sub_storage_remove w1 s key) ->
  SubOK (fupd H s (Some index)) s w w'
  /\ s_tab (gets w' s) = s_tab (gets w s)
  /\ (forall k e, nth k (s_store (gets w' s)) None = Some e -> nth k (s_store (gets w s)) None = Some e)
  /\ (forall j k e, j <> index -> nth j (s_tab (gets w s)) None = Some k -> nth k (s_store (gets w s)) None = Some e ->
      nth k (s_store (gets w' s)) None = Some e).
Proof.
  intros I Hs Ha Ek Ee Hn O1 T1 K1 L1 R1 Hw'.
  pose proof (iv_sub _ _ I s Ha) as SV. rewrite Hs in SV.
  assert (Hnk : ~ In key (s_tbr (gets w s))) by (intros Hi; pose proof (sv_tbr_tab _ _ _ SV _ _ Ek Hi); discriminate).
  pose proof (proj1 (proj2 O1)) as St1.
  assert (Ha1 : salive w1 s) by (now apply (SubStep_salive _ _ _ _ St1)).
  pose proof (salive_lt _ _ Ha1) as Ls1.
  assert (Ek1 : nth index (s_tab (gets w1 s)) None = Some key) by now rewrite T1.
  assert (Ee1 : nth key (s_store (gets w1 s)) None = Some e) by (rewrite K1; auto).
  assert (Hn1 : forall e0, nth key (s_store (gets w1 s)) None = Some e0 -> ~ pact w1 (se_pub e0)).
  { intros e0 He0 Hp. rewrite Ee1 in He0. inversion He0; subst e0. apply (SubStep_pact _ _ _ _ St1) in Hp. contradiction. }
  assert (Hkeep : forall j k, j <> index -> nth j (s_tab (gets w s)) None = Some k -> k <> key /\ ~ In k (s_tbr (gets w s))).
  { intros j k Hj Hk. split.
    - intros ->. apply Hj. eapply nodup_keys_inj; [apply (sv_keys_nd _ _ _ SV)|eauto..].
    - intros Hi. pose proof (sv_tbr_tab _ _ _ SV _ _ Hk Hi). discriminate. }
  destruct Hw' as [->| ->].
  - set (x' := s_set_tbr (gets w1 s) (s_tbr (gets w1 s) ++ [key])).
    assert (G : gets (sets w1 s x') s = x') by now apply gets_sets_same.
    split; [eapply SubOK_trans; [exact O1|]; apply tbr_push_ok; auto; [apply O1|congruence]|].
    rewrite G. unfold x'. cbn [s_tab s_store s_set_tbr]. splits; auto.
    intros j k e0 Hj Hk He0. destruct (Hkeep j k Hj Hk) as [A B]. rewrite K1; auto.
  - assert (I1 : InvG (fupd H s (Some index)) w1) by (apply InvG_hole; [apply O1|exact Hs]).
    assert (P1 : forall e0, nth key (s_store (gets w1 s)) None = Some e0 -> pact w1 (se_pub e0) -> borrowed w1 (se_pub e0) s = [])
      by (intros e0 He0 Hp; exfalso; eapply Hn1; eauto).
    assert (P2 : forall i, nth i (s_tab (gets w1 s)) None = Some key -> fupd H s (Some index) s = Some i).
    { intros i Hi. rewrite fupd_same. f_equal. rewrite T1 in Hi. eapply nodup_keys_inj; [apply (sv_keys_nd _ _ _ SV)|eauto..]. }
    assert (P3 : ~ In key (s_tbr (gets w1 s))) by (intros Hi; apply Hnk; now apply R1).
    destruct (sub_storage_remove_ok _ w1 s key I1 Ha1 P1 P2 P3) as (O2 & T2 & R2 & S2 & S3).
    splits.
    + eapply SubOK_trans; [|exact O2]. exact O1.
    + congruence.
    + intros k e0 Hk. destruct (Nat.eq_dec k key) as [->|Hne]; [congruence|]. rewrite S2 in Hk by exact Hne. auto.
    + intros j k e0 Hj Hk He0. destruct (Hkeep j k Hj Hk) as [A B]. rewrite S2 by exact A. rewrite K1; auto.
Qed.

Lemma sub_prepare_removal_ok H w s index w' :
  InvG H w -> H s = None -> salive w s -> TbrOk w s ->
  (forall key e, nth index (s_tab (gets w s)) None = Some key -> nth key (s_store (gets w s)) None = Some e -> ~ pact w (se_pub e)) ->
  sub_prepare_removal w s index = Val w' ->
  SubOK (fupd H s (Some index)) s w w'
  /\ s_tab (gets w' s) = s_tab (gets w s)
  /\ (forall k e, nth k (s_store (gets w' s)) None = Some e -> nth k (s_store (gets w s)) None = Some e)
  /\ (forall j k e, j <> index -> nth j (s_tab (gets w s)) None = Some k -> nth k (s_store (gets w s)) None = Some e ->
      nth k (s_store (gets w' s)) None = Some e).
Proof.
  intros I Hs Ha T Hn Hv. unfold sub_prepare_removal in Hv. cbn zeta in Hv.
  assert (Triv : SubOK (fupd H s (Some index)) s w w) by (apply SubOK_refl; now apply InvG_hole).
  destruct (nth index (s_tab (gets w s)) None) as [key|] eqn:Ek; [|inversion Hv; subst; splits; auto].
  destruct (nth key (s_store (gets w s)) None) as [e|] eqn:Ee; [|inversion Hv; subst; splits; auto].
  specialize (Hn key e eq_refl Ee).
  assert (O0 : SubOK H s w w) by now apply SubOK_refl.
  destruct (sub_data_borrows w s key) as [hd hb].
  destruct (hd || hb).
  2:{ inversion Hv; subst w'. eapply (prep_tail H w w); eauto. }
  destruct (Nat.ltb (length (s_tbr (gets w s))) (s_tbrcap (gets w s))).
  { inversion Hv; subst w'. eapply (prep_tail H w w); eauto. }
  match type of Hv with rbind ?m _ = _ => remember m as mr eqn:Emr end.
  assert (Hmr : exists w1, mr = Val w1 /\ (w1 = w \/ exists i k, nth_error (s_tbr (gets w s)) i = Some k
                                                     /\ w1 = sub_storage_remove (tbr_remove w s i) s k)).
  { subst mr. destruct (find_tbr w s (fun d b => negb (d || b)) (s_tbr (gets w s)) 0) as [[i k]|] eqn:F1.
    - apply find_tbr_spec in F1 as [_ F1]. rewrite Nat.sub_0_r in F1. eexists; split; [reflexivity|right; eauto].
    - destruct hb; [|eexists; split; [reflexivity|now left]].
      destruct (find_tbr w s (fun _ b => negb b) (s_tbr (gets w s)) 0) as [[i k]|] eqn:F2; [|eexists; split; [reflexivity|now left]].
      apply find_tbr_spec in F2 as [_ F2]. rewrite Nat.sub_0_r in F2. eexists; split; [reflexivity|right; eauto]. }
  destruct Hmr as (w1 & -> & Hw1). clear Emr. cbn [rbind] in Hv.
  assert (F : SubOK H s w w1 /\ s_tab (gets w1 s) = s_tab (gets w s)
              /\ (forall k', ~ In k' (s_tbr (gets w s)) -> nth k' (s_store (gets w1 s)) None = nth k' (s_store (gets w s)) None)
              /\ (forall k' e', nth k' (s_store (gets w1 s)) None = Some e' -> nth k' (s_store (gets w s)) None = Some e')
              /\ (forall k', In k' (s_tbr (gets w1 s)) -> In k' (s_tbr (gets w s)))).
  { destruct Hw1 as [->|(i & k & Hik & ->)]; [splits; auto|].
    destruct (tbr_evict_ok H w s i k I Ha T Hik) as (O1 & T1 & R1 & S1 & S2).
    assert (Hin : In k (s_tbr (gets w s))) by (eapply nth_error_In; eauto).
    splits; auto.
    - intros k' Hk'. apply S1. intros ->. contradiction.
    - intros k' e' Hk'. destruct (Nat.eq_dec k' k) as [->|Hne]; [congruence|]. now rewrite S1 in Hk'.
    - intros k' Hk'. rewrite R1 in Hk'. eapply in_remove_nth; eauto. }
  destruct F as (O1 & T1 & K1 & L1 & R1).
  destruct (Nat.ltb (length (s_tbr (gets w1 s))) (s_tbrcap (gets w1 s))).
  { inversion Hv; subst w'. eapply (prep_tail H w w1); eauto. }
  destruct hb; [discriminate|]. inversion Hv; subst w'. eapply (prep_tail H w w1); eauto.
Qed.

(* S5  Receiver::create(index, details) *)
Lemma RegP_slot_inj w p q : RegP w -> pact w p -> pact w q -> p_slot (getp w p) = p_slot (getp w q) -> p = q.
Proof. intros R Hp Hq E. pose proof (R p Hp) as A. pose proof (R q Hq) as B. rewrite E in A. rewrite A in B. now inversion B. Qed.

Lemma sub_create_connection_ok H w s index d w' :
  InvG H w -> RegP w -> (H s = Some index \/ (H s = None /\ nth index (s_tab (gets w s)) None = None)) -> salive w s -> TbrOk w s ->
  index < cf_P (w_cfg w) ->
  pact w (pd_id d) -> p_slot (getp w (pd_id d)) = index -> pd_n d = p_n (getp w (pd_id d)) ->
  (forall key e, nth key (s_store (gets w s)) None = Some e -> se_pub e <> pd_id d) ->
  sub_create_connection w s index d = Val w' ->
  SubOK (fupd H s None) s w w'
  /\ (exists key, nth index (s_tab (gets w' s)) None = Some key
                  /\ nth key (s_store (gets w' s)) None = Some {| se_pub := pd_id d; se_tag := true |}
                  /\ nth key (s_store (gets w s)) None = None)
  /\ (forall j, j <> index -> nth j (s_tab (gets w' s)) None = nth j (s_tab (gets w s)) None)
  /\ (forall k e, nth k (s_store (gets w s)) None = Some e -> nth k (s_store (gets w' s)) None = Some e)
  /\ s_tbr (gets w' s) = s_tbr (gets w s).
Proof.
  intros I R Hhole Ha T Hidx Hp Hslot Hpn Hne Hv. pose proof (salive_lt _ _ Ha) as Ls.
  unfold sub_create_connection in Hv. cbn zeta in Hv.
  destruct (s_freekeys (gets w s)) as [|key fk] eqn:Ef; [discriminate|].
  set (p := pd_id d) in *.
  set (c0 := match getc w p s with Some c => c | None => conn_new (s_buf (gets w s)) (cf_M (w_cfg w)) (cf_ovf (w_cfg w)) (pd_n d) end) in *.
  set (x1 := s_set_store (gets w s) (upd (s_store (gets w s)) key (Some {| se_pub := p; se_tag := true |})) fk) in *.
  set (x' := s_set_tab x1 (upd (s_tab x1) index (Some key))) in *.
  set (w1 := setc w p s (flipc c0 true)).
  assert (Ew : w' = sets w1 s x') by (inversion Hv; reflexivity). clear Hv. subst w'.
  assert (Ls1 : s < length (w_subs w1)) by (unfold w1; now rewrite len_subs_setc).
  assert (G1 : gets w1 s = gets w s) by apply gets_setc.
  assert (G : gets (sets w1 s x') s = x') by now apply gets_sets_same.
  assert (S : SubStep s w (sets w1 s x')).
  { eapply SubStep_trans; [apply SubStep_setc|]. apply SubStep_sets; auto; rewrite G1; reflexivity. }
  destruct (iv_sub _ _ I s Ha) as [v1 v2 v3 v4 v5 v6 v7 v8 v9 v10 v11].
  destruct T as [T1 T2].
  assert (Hfree : key < length (s_store (gets w s)) /\ nth key (s_store (gets w s)) None = None) by (apply v6; rewrite Ef; now left).
  destruct Hfree as [Klt Kn].
  assert (Hh : forall j, j <> index -> H s <> Some j) by (intros j Hj; destruct Hhole as [E|[E _]]; congruence).
  assert (Hkt : forall j k, j <> index -> nth j (s_tab (gets w s)) None = Some k ->
                            k <> key /\ exists e, nth k (s_store (gets w s)) None = Some e).
  { intros j k Hj Hk. destruct (v4 j k Hk (Hh j Hj)) as [e0 He0]. split; [congruence|eauto]. }
  assert (Hnt : ~ In key (s_tbr (gets w s))) by (intros Hi; now apply (T2 key Hi)).
  assert (Hil : index < length (s_tab (gets w s))) by lia.
  assert (Hb : borrowed w p s = []).
  { apply borrowed_nil. intros x Hx Ho Hs. rewrite <- Ho in Hp. destruct (iv_samp_store _ _ I x Hx Hp) as [e0 [A B]].
    rewrite Hs in A. eapply Hne; eauto. congruence. }
  assert (Hc0 : getc w p s = Some c0 \/
                (getc w p s = None /\ c0 = conn_new (s_buf (gets w s)) (cf_M (w_cfg w)) (cf_ovf (w_cfg w)) (p_n (getp w p)))).
  { unfold c0. destruct (getc w p s); [now left|right]. now rewrite Hpn. }
  assert (Hstore : forall k e, nth k (s_store (gets w s)) None = Some e ->
                               nth k (upd (s_store (gets w s)) key (Some {| se_pub := p; se_tag := true |})) None = Some e).
  { intros k e0 Hk. rewrite nth_upd_some by exact Klt. destruct (Nat.eqb_spec k key) as [->|]; [congruence|exact Hk]. }
  split.
  { apply SubOK_intro; auto.
    - eapply SubSelf_build; eauto.
      + unfold w1. apply samples_setc.
      + unfold w1. apply nsample_setc.
      + apply ConnSelf_sets; auto; [rewrite G1; reflexivity|rewrite G1; reflexivity|].
        apply (flip_ConnSelf H w p s c0 true); auto. now apply pact_lt.
      + intros _. eapply (SubInvH_mk w); [exact G|apply (ss_cfg _ _ _ S)|apply (ss_pubs _ _ _ S)|..];
          unfold x', x1; cbn [s_tab s_store s_freekeys s_tbr s_buf s_set_store s_set_tab]; auto.
        * now rewrite upd_length.
        * apply nodup_keys_of_inj. intros i j k Hi Hj. rewrite nth_upd_some in Hi, Hj by exact Hil.
          destruct (Nat.eqb_spec i index) as [Ei|Ei], (Nat.eqb_spec j index) as [Ej|Ej].
          -- congruence.
          -- inversion Hi; subst k. destruct (Hkt j key Ej Hj) as [A _]. congruence.
          -- inversion Hj; subst k. destruct (Hkt i key Ei Hi) as [A _]. congruence.
          -- eapply nodup_keys_inj; eauto.
        * intros i k Hi _. rewrite nth_upd_some in Hi by exact Hil. rewrite nth_upd_some by exact Klt.
          destruct (Nat.eqb_spec i index) as [Ei|Ei].
          -- inversion Hi; subst k. rewrite Nat.eqb_refl. eauto.
          -- destruct (Hkt i k Ei Hi) as [A B]. destruct (Nat.eqb_spec k key); [contradiction|exact B].
        * rewrite Ef in v5. now inversion v5.
        * intros k Hk. rewrite Ef in v5. inversion v5 as [|? ? Hni _]; subst.
          destruct (v6 k) as [A B]; [rewrite Ef; now right|]. rewrite upd_length, nth_upd_some by exact Klt.
          split; [exact A|]. destruct (Nat.eqb_spec k key) as [->|]; [contradiction|exact B].
        * intros k e0 Hk Hpe. rewrite nth_upd_some in Hk by exact Klt. rewrite nth_upd_some by exact Hil.
          destruct (Nat.eqb_spec k key) as [Ek|Ek].
          -- inversion Hk; subst e0 k. cbn [se_pub]. rewrite Hslot. now rewrite Nat.eqb_refl.
          -- pose proof (v7 k e0 Hk Hpe) as Hsl.
             destruct (Nat.eqb_spec (p_slot (getp w (se_pub e0))) index) as [Es|Es]; [|exact Hsl].
             exfalso. apply (Hne k e0 Hk). apply (RegP_slot_inj w); auto. congruence.
        * intros k e0 Hi Hk. rewrite nth_upd_some in Hk by exact Klt.
          destruct (Nat.eqb_spec k key) as [->|]; [contradiction|]. eapply v8; eauto.
        * intros i k Hi Hk. exfalso. rewrite nth_upd_some in Hi by exact Hil.
          destruct (Nat.eqb_spec i index) as [Ei|Ei].
          -- inversion Hi; subst k. contradiction.
          -- apply (Hh i Ei). eapply v9; eauto.
        * intros k1 k2 e1 e2 H1 H2 E. rewrite nth_upd_some in H1, H2 by exact Klt.
          destruct (Nat.eqb_spec k1 key) as [E1|E1], (Nat.eqb_spec k2 key) as [E2|E2].
          -- congruence.
          -- inversion H1; subst e1. cbn [se_pub] in E. exfalso. eapply Hne; eauto.
          -- inversion H2; subst e2. cbn [se_pub] in E. exfalso. eapply Hne; eauto.
          -- eapply v10; eauto.
        * intros k e0 Hk. rewrite nth_upd_some in Hk by exact Klt. rewrite getc_sets.
          destruct (Nat.eqb_spec k key) as [Ek|Ek].
          -- inversion Hk; subst e0. cbn [se_pub]. split; [now apply pact_lt|].
             unfold w1. rewrite getc_setc_eq. cbn [flipc set_ports c_snd c_rcv]. rewrite Bool.orb_true_r. eauto.
          -- destruct (v11 k e0 Hk) as [A [c' [B C]]]. split; auto. exists c'. split; auto.
             unfold w1. rewrite getc_setc_otherp; auto. intros E. eapply Hne; eauto.
      + apply (samp_store_le H); auto. intros k e0 Hk. exists e0. rewrite G. unfold x', x1. cbn [s_store s_set_store s_set_tab]. auto.
    - eapply PhiLe_trans; [|apply PhiLe_sets]. unfold w1.
      destruct Hc0 as [E|[E E0]].
      + eapply PhiLe_setc; [exact E| |]; cbn; lia.
      + apply PhiLe_setc_new; auto; rewrite E0; reflexivity.
    - intros _. unfold TbrOk. rewrite G. unfold x', x1. cbn [s_tbr s_store s_set_store s_set_tab]. split; auto.
      intros k Hk. rewrite nth_upd_some by exact Klt. destruct (Nat.eqb_spec k key) as [->|]; [discriminate|auto]. }
  rewrite G. unfold x', x1. cbn [s_tab s_tbr s_store s_set_store s_set_tab]. splits; auto.
  - exists key. rewrite nth_upd_some by exact Hil. rewrite nth_upd_some by exact Klt. rewrite !Nat.eqb_refl. auto.
  - intros j Hj. apply nth_upd_other. congruence.
Qed.

(* S6  tagging *)
Lemma retag_ok H w s st' :
  InvG H w -> salive w s -> length st' = length (s_store (gets w s)) ->
  (forall k, option_map se_pub (nth k st' None) = option_map se_pub (nth k (s_store (gets w s)) None)) ->
  SubOK H s w (sets w s (s_set_store (gets w s) st' (s_freekeys (gets w s)))).
Proof.
  intros I Ha Hl Hm. pose proof (salive_lt _ _ Ha) as Ls.
  set (x' := s_set_store (gets w s) st' (s_freekeys (gets w s))).
  assert (G : gets (sets w s x') s = x') by now apply gets_sets_same.
  assert (F1 : forall k e', nth k st' None = Some e' -> exists e, nth k (s_store (gets w s)) None = Some e /\ se_pub e = se_pub e').
  { intros k e' Hk. specialize (Hm k). rewrite Hk in Hm. destruct (nth k (s_store (gets w s)) None) as [e|]; [|discriminate].
    exists e. split; [reflexivity|]. cbn in Hm. congruence. }
  assert (F2 : forall k e, nth k (s_store (gets w s)) None = Some e -> exists e', nth k st' None = Some e' /\ se_pub e' = se_pub e).
  { intros k e Hk. specialize (Hm k). rewrite Hk in Hm. destruct (nth k st' None) as [e'|]; [|discriminate].
    exists e'. split; [reflexivity|]. cbn in Hm. congruence. }
  assert (F3 : forall k, nth k (s_store (gets w s)) None = None -> nth k st' None = None).
  { intros k Hk. specialize (Hm k). rewrite Hk in Hm. destruct (nth k st' None); [discriminate|reflexivity]. }
  destruct (iv_sub _ _ I s Ha) as [v1 v2 v3 v4 v5 v6 v7 v8 v9 v10 v11].
  eapply SubOK_ext; [apply (fupd_id H s)|].
  apply sets_ok; auto.
  - eapply (SubInvH_mk w); [exact G|reflexivity|reflexivity|..]; unfold x'; cbn [s_tab s_store s_freekeys s_tbr s_buf s_set_store]; auto.
    + intros i k Hi Hh. destruct (v4 i k Hi Hh) as [e He]. destruct (F2 _ _ He) as [e' [A _]]. eauto.
    + intros k Hk. destruct (v6 k Hk) as [A B]. rewrite Hl. auto.
    + intros k e' Hk Hp. destruct (F1 _ _ Hk) as [e [A B]]. rewrite <- B in *. eapply v7; eauto.
    + intros k e' Hi Hk. destruct (F1 _ _ Hk) as [e [A B]]. rewrite <- B. eapply v8; eauto.
    + intros k1 k2 e1 e2 H1 H2 E. destruct (F1 _ _ H1) as [e1' [A1 B1]]. destruct (F1 _ _ H2) as [e2' [A2 B2]].
      eapply v10; eauto. congruence.
    + intros k e' Hk. destruct (F1 _ _ Hk) as [e [A B]]. rewrite <- B. rewrite getc_sets. eapply v11; eauto.
  - apply (samp_store_le H); auto; intros k e Hk; unfold x'; cbn [s_store s_set_store]; auto.
  - intros [T1 T2]. unfold x'. cbn [s_tbr s_store s_set_store]. split; auto.
    intros k Hk Hn. apply (T2 k Hk). specialize (Hm k). rewrite Hn in Hm. destruct (nth k (s_store (gets w s)) None); [discriminate|reflexivity].
Qed.

Lemma sub_tag_ok H w s key :
  InvG H w -> salive w s ->
  SubOK H s w (sub_tag w s key)
  /\ s_tab (gets (sub_tag w s key) s) = s_tab (gets w s)
  /\ (forall k e, nth k (s_store (gets w s)) None = Some e ->
      nth k (s_store (gets (sub_tag w s key) s)) None = Some {| se_pub := se_pub e; se_tag := if Nat.eqb k key then true else se_tag e |})
  /\ (forall k, nth k (s_store (gets w s)) None = None -> nth k (s_store (gets (sub_tag w s key) s)) None = None).
Proof.
  intros I Ha. pose proof (salive_lt _ _ Ha) as Ls. unfold sub_tag. cbn zeta.
  destruct (nth key (s_store (gets w s)) None) as [e|] eqn:Ee.
  2:{ splits; auto; [now apply SubOK_refl|]. intros k e Hk. rewrite Hk. destruct (Nat.eqb_spec k key) as [->|]; [congruence|now destruct e]. }
  assert (Klt : key < length (s_store (gets w s))) by (eapply nth_some_lt; eauto).
  set (st' := upd (s_store (gets w s)) key (Some {| se_pub := se_pub e; se_tag := true |})).
  assert (G : gets (sets w s (s_set_store (gets w s) st' (s_freekeys (gets w s)))) s = s_set_store (gets w s) st' (s_freekeys (gets w s)))
    by now apply gets_sets_same.
  split.
  { apply retag_ok; auto; unfold st'; [apply upd_length|].
    intros k. rewrite nth_upd_some by exact Klt. destruct (Nat.eqb_spec k key) as [->|]; [now rewrite Ee|reflexivity]. }
  rewrite G. cbn [s_tab s_store s_set_store]. unfold st'. splits; auto.
  - intros k e0 Hk. rewrite nth_upd_some by exact Klt. destruct (Nat.eqb_spec k key) as [->|]; [congruence|]. rewrite Hk. now destruct e0.
  - intros k Hk. rewrite nth_upd_some by exact Klt. destruct (Nat.eqb_spec k key) as [->|]; [congruence|exact Hk].
Qed.

Lemma sub_start_cycle_ok H w s :
  InvG H w -> salive w s ->
  SubOK H s w (sub_start_cycle w s)
  /\ s_tab (gets (sub_start_cycle w s) s) = s_tab (gets w s)
  /\ s_snap (gets (sub_start_cycle w s) s) = s_snap (gets w s)
  /\ (forall k e, nth k (s_store (gets w s)) None = Some e ->
      nth k (s_store (gets (sub_start_cycle w s) s)) None = Some {| se_pub := se_pub e; se_tag := false |}).
Proof.
  intros I Ha. pose proof (salive_lt _ _ Ha) as Ls. unfold sub_start_cycle. cbn zeta.
  set (f := fun o : option sent => match o with Some e => Some {| se_pub := se_pub e; se_tag := false |} | None => None end).
  assert (Hn : forall k, nth k (map f (s_store (gets w s))) None = f (nth k (s_store (gets w s)) None)).
  { intros k. change (@None sent) with (f None) at 1. apply map_nth. }
  assert (G : gets (sets w s (s_set_store (gets w s) (map f (s_store (gets w s))) (s_freekeys (gets w s)))) s
              = s_set_store (gets w s) (map f (s_store (gets w s))) (s_freekeys (gets w s))) by now apply gets_sets_same.
  split.
  { apply retag_ok; auto; [apply map_length|]. intros k. rewrite Hn. now destruct (nth k (s_store (gets w s)) None). }
  rewrite G. cbn [s_tab s_snap s_store s_set_store]. splits; auto.
  intros k e Hk. rewrite Hn, Hk. reflexivity.
Qed.

(* S7  Receiver::update_connection(index, details) with the details the registry has at index NOW *)
Definition tagged_at (w : world) (s i : nat) (p : nat) : Prop :=
  exists key, nth i (s_tab (gets w s)) None = Some key
              /\ nth key (s_store (gets w s)) None = Some {| se_pub := p; se_tag := true |}.

Lemma sub_reconnect_ok w s index d w1 w' :
  Inv w -> RegP w -> salive w s -> TbrOk w s ->
  nth index (r_slots (w_preg w)) None = Some d ->
  (forall key e, nth index (s_tab (gets w s)) None = Some key -> nth key (s_store (gets w s)) None = Some e -> se_pub e <> pd_id d) ->
  sub_prepare_removal w s index = Val w1 -> sub_create_connection w1 s index d = Val w' ->
  SubOK (fun _ => None) s w w'
  /\ tagged_at w' s index (pd_id d)
  /\ (forall j p, j <> index -> tagged_at w s j p -> tagged_at w' s j p).
Proof.
  intros I R Ha T Hd Hnc E1 E2.
  destruct (iv_preg _ _ I index d Hd) as (Hp & Hslot & Hpn).
  pose proof (iv_sub _ _ I s Ha) as SV. cbn beta in SV.
  assert (Hn : forall key e, nth index (s_tab (gets w s)) None = Some key -> nth key (s_store (gets w s)) None = Some e -> ~ pact w (se_pub e)).
  { intros key e Ek Ee Hq. apply (Hnc key e Ek Ee). apply (RegP_slot_inj w); auto. rewrite Hslot.
    eapply nodup_keys_inj; [apply (sv_keys_nd _ _ _ SV)|apply (sv_slot _ _ _ SV); eauto|exact Ek]. }
  destruct (sub_prepare_removal_ok (fun _ => None) w s index w1 I eq_refl Ha T Hn E1) as (O1 & T1 & L1 & K1).
  pose proof (proj1 (proj2 O1)) as St1.
  assert (Hlt : index < cf_P (w_cfg w1)).
  { rewrite (ss_cfg _ _ _ St1), <- (iv_preg_len _ _ I). eapply nth_some_lt; eauto. }
  assert (Hne1 : forall key e, nth key (s_store (gets w1 s)) None = Some e -> se_pub e <> pd_id d).
  { intros key e Hk E. apply L1 in Hk. apply (Hnc key e); auto. rewrite <- Hslot, <- E. apply (sv_slot _ _ _ SV); auto. now rewrite E. }
  destruct (sub_create_connection_ok (fupd (fun _ => None) s (Some index)) w1 s index d w') as (O2 & (key & A1 & A2 & A3) & B2 & C2 & D2); auto.
  - apply O1.
  - eapply SubStep_RegP; eauto.
  - left. apply fupd_same.
  - now apply (SubStep_salive _ _ _ _ St1).
  - now apply (proj2 (proj2 (proj2 O1))).
  - now apply (SubStep_pact _ _ _ _ St1).
  - now rewrite (SubStep_getp _ _ _ _ St1).
  - now rewrite (SubStep_getp _ _ _ _ St1).
  - splits.
    + eapply SubOK_ext; [|eapply SubOK_trans; [exact O1|exact O2]].
      intros t. unfold fupd. now destruct (Nat.eqb t s).
    + exists key. auto.
    + intros j p Hj (k & Hk & Hs). exists k. split.
      * rewrite B2 by exact Hj. now rewrite T1.
      * apply C2. eapply K1; eauto.
Qed.

Lemma sub_update_connection_ok w s index d w' :
  Inv w -> RegP w -> salive w s -> TbrOk w s ->
  nth index (r_slots (w_preg w)) None = Some d ->
  sub_update_connection w s index d = Val w' ->
  SubOK (fun _ => None) s w w'
  /\ tagged_at w' s index (pd_id d)
  /\ (forall j p, j <> index -> tagged_at w s j p -> tagged_at w' s j p).
Proof.
  intros I R Ha T Hd Hv. unfold sub_update_connection in Hv. cbn zeta in Hv.
  assert (Tail : forall (Hnc : forall key e, nth index (s_tab (gets w s)) None = Some key -> nth key (s_store (gets w s)) None = Some e -> se_pub e <> pd_id d),
            (w1 <- sub_prepare_removal w s index ;; sub_create_connection w1 s index d) = Val w' ->
            SubOK (fun _ => None) s w w' /\ tagged_at w' s index (pd_id d)
            /\ (forall j p, j <> index -> tagged_at w s j p -> tagged_at w' s j p)).
  { intros Hnc Hv'. destruct (sub_prepare_removal w s index) as [w1|] eqn:E1; [|discriminate]. cbn [rbind] in Hv'.
    eapply sub_reconnect_ok; eauto. }
  destruct (nth index (s_tab (gets w s)) None) as [key|] eqn:Ek; [|apply Tail; [intros; discriminate|exact Hv]].
  destruct (nth key (s_store (gets w s)) None) as [e|] eqn:Ee; [|apply Tail; [intros k e0 Hk He0; congruence|exact Hv]].
  destruct (Nat.eqb_spec (se_pub e) (pd_id d)) as [Ed|Ed]; [|apply Tail; [intros k e0 Hk He0; congruence|exact Hv]].
  inversion Hv; subst w'. destruct (sub_tag_ok (fun _ => None) w s key I Ha) as (O1 & T1 & S1 & S2). splits; auto.
  - exists key. split; [congruence|]. rewrite (S1 _ _ Ee), Nat.eqb_refl. now rewrite Ed.
  - intros j p Hj (k & Hk & Hs). exists k. split; [congruence|]. rewrite (S1 _ _ Hs). cbn [se_pub se_tag]. now destruct (Nat.eqb k key).
Qed.

(* S8-S10  force_update_connections / update_connections *)
Lemma sets_same_ok H w s x' :
  InvG H w -> salive w s ->
  s_active x' = s_active (gets w s) -> s_alive x' = s_alive (gets w s) -> s_slot x' = s_slot (gets w s) ->
  s_buf x' = s_buf (gets w s) -> s_hreq x' = s_hreq (gets w s) ->
  s_tab x' = s_tab (gets w s) -> s_store x' = s_store (gets w s) -> s_freekeys x' = s_freekeys (gets w s) -> s_tbr x' = s_tbr (gets w s) ->
  SubOK H s w (sets w s x').
Proof.
  intros I Ha A B C D E F1 F2 F3 F4. pose proof (salive_lt _ _ Ha) as Ls.
  assert (G : gets (sets w s x') s = x') by now apply gets_sets_same.
  eapply SubOK_ext; [apply (fupd_id H s)|]. apply sets_ok; auto.
  - eapply (SubInvH_frame2 w); try reflexivity; rewrite ?G; auto.
    + intros q c Hc Hr. rewrite getc_sets. eauto.
    + now apply (iv_sub _ _ I).
  - rewrite F2. apply (samp_store_le H); auto. intros k e Hk. eauto.
  - intros [T1 T2]. rewrite F2, F4. auto.
Qed.

Lemma clear_hole_ok H w s i :
  InvG H w -> H s = Some i -> salive w s ->
  (forall key e, nth i (s_tab (gets w s)) None = Some key -> nth key (s_store (gets w s)) None = Some e -> ~ pact w (se_pub e)) ->
  SubOK (fupd H s None) s w (sets w s (s_set_tab (gets w s) (upd (s_tab (gets w s)) i None))).
Proof.
  intros I Hs Ha Hn. pose proof (salive_lt _ _ Ha) as Ls.
  set (x' := s_set_tab (gets w s) (upd (s_tab (gets w s)) i None)).
  assert (G : gets (sets w s x') s = x') by now apply gets_sets_same.
  pose proof (iv_sub _ _ I s Ha) as SV. rewrite Hs in SV. destruct SV as [v1 v2 v3 v4 v5 v6 v7 v8 v9 v10 v11].
  apply sets_ok; [exact I|exact Ha|reflexivity|reflexivity|reflexivity|reflexivity|reflexivity| | |].
  - eapply (SubInvH_mk w); [exact G|reflexivity|reflexivity|..]; unfold x'; cbn [s_tab s_store s_freekeys s_tbr s_buf s_set_tab]; auto.
    + now rewrite upd_length.
    + now apply nodup_opt_keys_upd_none.
    + intros j k Hj _. rewrite nth_upd_none in Hj. destruct (Nat.eqb_spec j i) as [|Hne]; [discriminate|].
      eapply v4; eauto. congruence.
    + intros k e Hk Hp. pose proof (v7 k e Hk Hp) as Hsl. rewrite nth_upd_none.
      destruct (Nat.eqb_spec (p_slot (getp w (se_pub e))) i) as [E|]; [|exact Hsl]. exfalso. rewrite E in Hsl. eapply Hn; eauto.
    + intros j k Hj Hk. exfalso. rewrite nth_upd_none in Hj. destruct (Nat.eqb_spec j i) as [|Hne]; [discriminate|].
      pose proof (v9 j k Hj Hk). congruence.
  - apply (samp_store_le H); auto. intros k e Hk. unfold x'. cbn [s_store s_set_tab]. eauto.
  - intros [T1 T2]. unfold x'. cbn [s_tbr s_store s_set_tab]. auto.
Qed.

Lemma sub_update_slots_ok s : forall slots i w w',
  Inv w -> RegP w -> salive w s -> TbrOk w s ->
  (forall k, nth k slots None = nth (i + k) (r_slots (w_preg w)) None) ->
  (forall j d, j < i -> nth j (r_slots (w_preg w)) None = Some d -> tagged_at w s j (pd_id d)) ->
  sub_update_slots w s slots i = Val w' ->
  SubOK (fun _ => None) s w w'
  /\ (forall j d, j < i + length slots -> nth j (r_slots (w_preg w)) None = Some d -> tagged_at w' s j (pd_id d)).
Proof.
  induction slots as [|o t IH]; intros i w w' I R Ha T Hsl Htg Hv; cbn [sub_update_slots] in Hv.
  - inversion Hv; subst w'. split; [now apply SubOK_refl|]. intros j d Hj. apply Htg. cbn [length] in Hj. lia.
  - assert (Hsl' : forall k, nth k t None = nth (S i + k) (r_slots (w_preg w)) None).
    { intros k. replace (S i + k) with (i + S k) by lia. rewrite <- Hsl. reflexivity. }
    pose proof (Hsl 0) as H0. rewrite Nat.add_0_r in H0. cbn [nth] in H0.
    destruct o as [d|].
    + destruct (sub_update_connection w s i d) as [w1|] eqn:E1; [|discriminate]. cbn [rbind] in Hv.
      destruct (sub_update_connection_ok w s i d w1 I R Ha T (eq_sym H0) E1) as (O1 & Tg1 & Keep1).
      pose proof (proj1 (proj2 O1)) as St1. pose proof (ss_preg _ _ _ St1) as Ep.
      destruct (IH (S i) w1 w') as (O2 & Tg2); auto.
      * apply O1.
      * eapply SubStep_RegP; eauto.
      * now apply (SubStep_salive _ _ _ _ St1).
      * now apply (proj2 (proj2 (proj2 O1))).
      * now rewrite Ep.
      * rewrite Ep. intros j d' Hj Hd'. destruct (Nat.eq_dec j i) as [->|Hne].
        -- rewrite <- H0 in Hd'. inversion Hd'; subst d'. exact Tg1.
        -- apply Keep1; [exact Hne|]. apply Htg; [lia|exact Hd'].
      * split; [eapply SubOK_trans; eauto|]. rewrite Ep in Tg2. intros j d' Hj. apply Tg2. cbn [length] in Hj. lia.
    + destruct (IH (S i) w w') as (O2 & Tg2); auto.
      * intros j d' Hj Hd'. destruct (Nat.eq_dec j i) as [->|Hne]; [congruence|]. apply Htg; [lia|exact Hd'].
      * split; [exact O2|]. intros j d' Hj. apply Tg2. cbn [length] in Hj. lia.
Qed.

Lemma sub_finish_cycle_ok s : forall n i w w',
  Inv w -> RegP w -> salive w s -> TbrOk w s ->
  (forall j d, nth j (r_slots (w_preg w)) None = Some d -> tagged_at w s j (pd_id d)) ->
  sub_finish_cycle w s n i = Val w' -> SubOK (fun _ => None) s w w'.
Proof.
  induction n as [|n IH]; intros i w w' I R Ha T Htg Hv; cbn [sub_finish_cycle] in Hv.
  - inversion Hv; subst w'. now apply SubOK_refl.
  - cbn zeta in Hv.
    destruct (nth i (s_tab (gets w s)) None) as [key|] eqn:Ek; [|cbn [rbind] in Hv; eapply IH; eauto].
    destruct (nth key (s_store (gets w s)) None) as [e|] eqn:Ee; [|cbn [rbind] in Hv; eapply IH; eauto].
    destruct (se_tag e) eqn:Et; [cbn [rbind] in Hv; eapply IH; eauto|].
    destruct (sub_prepare_removal w s i) as [wa|] eqn:E1; [|discriminate]. cbn [rbind] in Hv.
    pose proof (iv_sub _ _ I s Ha) as SV. cbn beta in SV.
    assert (Hnt : forall d, nth i (r_slots (w_preg w)) None = Some d -> False).
    { intros d Hd. destruct (Htg i d Hd) as (k & Hk & Hs). rewrite Ek in Hk. inversion Hk; subst k. rewrite Ee in Hs.
      inversion Hs; subst e. discriminate. }
    assert (Hn : forall key0 e0, nth i (s_tab (gets w s)) None = Some key0 -> nth key0 (s_store (gets w s)) None = Some e0 -> ~ pact w (se_pub e0)).
    { intros key0 e0 Hk0 He0 Hq. rewrite Ek in Hk0. inversion Hk0; subst key0. rewrite Ee in He0. inversion He0; subst e0.
      pose proof (R _ Hq) as Hr.
      assert (Es : p_slot (getp w (se_pub e)) = i).
      { eapply nodup_keys_inj; [apply (sv_keys_nd _ _ _ SV)|apply (sv_slot _ _ _ SV); eauto|exact Ek]. }
      rewrite Es in Hr. eapply Hnt; eauto. }
    destruct (sub_prepare_removal_ok (fun _ => None) w s i wa I eq_refl Ha T Hn E1) as (O1 & T1 & L1 & K1).
    pose proof (proj1 (proj2 O1)) as St1.
    assert (Haa : salive wa s) by now apply (SubStep_salive _ _ _ _ St1).
    assert (O2 : SubOK (fupd (fupd (fun _ => None) s (Some i)) s None) s wa
                       (sets wa s (s_set_tab (gets wa s) (upd (s_tab (gets wa s)) i None)))).
    { apply clear_hole_ok; auto; [apply O1|apply fupd_same|].
      intros k0 e0 Hk0 He0 Hq. rewrite T1 in Hk0. apply L1 in He0. apply (SubStep_pact _ _ _ _ St1) in Hq. eapply Hn; eauto. }
    set (wb := sets wa s (s_set_tab (gets wa s) (upd (s_tab (gets wa s)) i None))) in *.
    assert (O12 : SubOK (fun _ => None) s w wb).
    { eapply SubOK_ext; [|eapply SubOK_trans; [exact O1|exact O2]]. intros t. unfold fupd. now destruct (Nat.eqb t s). }
    pose proof (proj1 (proj2 O12)) as St2.
    assert (Gb : gets wb s = s_set_tab (gets wa s) (upd (s_tab (gets wa s)) i None)).
    { unfold wb. apply gets_sets_same. now apply salive_lt. }
    eapply SubOK_trans; [exact O12|]. eapply (IH (S i) wb w'); auto.
    + apply O12.
    + eapply SubStep_RegP; eauto.
    + now apply (SubStep_salive _ _ _ _ St2).
    + now apply (proj2 (proj2 (proj2 O12))).
    + rewrite (ss_preg _ _ _ St2). intros j d Hd.
      assert (Hji : j <> i) by (intros ->; eapply Hnt; eauto).
      destruct (Htg j d Hd) as (k & Hk & Hs). exists k. rewrite Gb. cbn [s_tab s_store s_set_tab]. split.
      * rewrite nth_upd_other by congruence. now rewrite T1.
      * eapply K1; eauto.
Qed.

Lemma SubOK_carry H s w w' : SubOK H s w w' -> RegP w -> salive w s -> TbrOk w s ->
  InvG H w' /\ RegP w' /\ salive w' s /\ TbrOk w' s /\ SubStep s w w'.
Proof.
  intros (A & B & C & D) R Ha T. splits; auto.
  - eapply SubStep_RegP; eauto.
  - now apply (SubStep_salive _ _ _ _ B).
Qed.

Lemma sub_force_update_ok w s w' :
  Inv w -> RegP w -> salive w s -> TbrOk w s -> sn_slots (s_snap (gets w s)) = r_slots (w_preg w) ->
  sub_force_update w s = Val w' ->
  SubOK (fun _ => None) s w w'.
Proof.
  intros I R Ha T Hsn Hv. unfold sub_force_update in Hv. cbn zeta in Hv.
  destruct (sub_start_cycle_ok (fun _ => None) w s I Ha) as (O0 & T0 & N0 & _).
  set (w0 := sub_start_cycle w s) in *.
  destruct (SubOK_carry _ _ _ _ O0 R Ha T) as (I0 & R0 & Ha0 & Tb0 & St0).
  destruct (sub_update_slots w0 s (sn_slots (s_snap (gets w0 s))) 0) as [w1|] eqn:E1; [|discriminate]. cbn [rbind] in Hv.
  assert (Esl : sn_slots (s_snap (gets w0 s)) = r_slots (w_preg w0)) by (rewrite N0, Hsn, (ss_preg _ _ _ St0); reflexivity).
  rewrite Esl in E1.
  assert (Hsl : forall k, nth k (r_slots (w_preg w0)) None = nth (0 + k) (r_slots (w_preg w0)) None) by reflexivity.
  assert (Htg0 : forall j d, j < 0 -> nth j (r_slots (w_preg w0)) None = Some d -> tagged_at w0 s j (pd_id d)) by (intros j d Hj; lia).
  destruct (sub_update_slots_ok s (r_slots (w_preg w0)) 0 w0 w1 I0 R0 Ha0 Tb0 Hsl Htg0 E1) as (O1 & Tg1).
  destruct (SubOK_carry _ _ _ _ O1 R0 Ha0 Tb0) as (I1 & R1 & Ha1 & Tb1 & St1).
  eapply SubOK_trans; [exact O0|]. eapply SubOK_trans; [exact O1|].
  eapply (sub_finish_cycle_ok s _ 0 w1 w' I1 R1 Ha1 Tb1); [|exact Hv].
  rewrite (ss_preg _ _ _ St1). intros j d Hd. apply Tg1; [|exact Hd]. cbn. eapply nth_some_lt; eauto.
Qed.

Lemma sub_update_connections_ok w s w' :
  Inv w -> RegP w -> salive w s -> TbrOk w s ->
  sub_update_connections w s = Val w' ->
  SubOK (fun _ => None) s w w'.
Proof.
  intros I R Ha T Hv. unfold sub_update_connections in Hv. cbn zeta in Hv.
  unfold reg_update_state in Hv.
  destruct (N.eqb (sn_cc (s_snap (gets w s))) (r_cc (w_preg w))).
  - inversion Hv; subst w'. now apply SubOK_refl.
  - pose proof (salive_lt _ _ Ha) as Ls.
    assert (O0 : SubOK (fun _ => None) s w (sets w s (s_set_snap (gets w s) (reg_get_state (w_preg w))))) by (apply sets_same_ok; auto).
    set (w0 := sets w s (s_set_snap (gets w s) (reg_get_state (w_preg w)))) in *.
    destruct (SubOK_carry _ _ _ _ O0 R Ha T) as (I0 & R0 & Ha0 & Tb0 & St0).
    eapply SubOK_trans; [exact O0|]. apply sub_force_update_ok; auto.
    unfold w0. rewrite gets_sets_same by exact Ls. reflexivity.
Qed.

(* S11-S13  receive *)
Lemma c_receive_some c c1 qe : c_receive c = (c1, RcvOk (Some qe)) ->
  c_sub c = qe :: c_sub c1 /\ c_comp c1 = c_comp c /\ c_used c1 = c_used c /\ c_snd c1 = c_snd c /\ c_rcv c1 = c_rcv c.
Proof.
  unfold c_receive. destruct (Nat.leb (c_M c) (c_borrow c)); [discriminate|].
  destruct (c_sub c) as [|e0 rest]; [discriminate|]. intros Hr; inversion Hr; subst. cbn. auto.
Qed.

Lemma borrowed_add w smp n q t :
  borrowed (w_set_samples w (w_samples w ++ [smp]) n) q t
  = borrowed w q t ++ (if Nat.eqb (x_origin smp) q && Nat.eqb (x_sub smp) t then [x_off smp] else []).
Proof.
  unfold borrowed. cbn [w_samples w_set_samples]. rewrite filter_app, map_app. f_equal. cbn [filter].
  now destruct (Nat.eqb (x_origin smp) q && Nat.eqb (x_sub smp) t).
Qed.

Lemma SubStep_add_sample w s smp n : x_sub smp = s -> SubStep s w (w_set_samples w (w_samples w ++ [smp]) n).
Proof.
  intros Hs. constructor; try reflexivity. intros q t Ht. rewrite borrowed_add, Hs.
  destruct (Nat.eqb_spec s t); [congruence|]. rewrite Bool.andb_false_r. apply app_nil_r.
Qed.

Lemma recv_core_ok w s key e c c1 qe smp rl :
  Inv w -> salive w s -> nth key (s_store (gets w s)) None = Some e -> getc w (se_pub e) s = Some c ->
  c_receive c = (c1, RcvOk (Some qe)) ->
  x_sub smp = s -> x_key smp = key -> x_origin smp = se_pub e -> x_off smp = q_off qe -> x_id smp = w_nsample w ->
  let w1 := setc w (se_pub e) s c1 in
  let w2 := sets w1 s (s_set_recv (gets w1 s) rl) in
  let w' := w_set_samples w2 (w_samples w2 ++ [smp]) (S (w_nsample w2)) in
  SubOK (fun _ => None) s w w'
  /\ s_tab (gets w' s) = s_tab (gets w s) /\ s_store (gets w' s) = s_store (gets w s) /\ s_tbr (gets w' s) = s_tbr (gets w s).
Proof.
  intros I Ha Ee Hc Hr Xs Xk Xo Xf Xi w1 w2 w'. pose proof (salive_lt _ _ Ha) as Ls.
  set (p := se_pub e) in *.
  pose proof (iv_sub _ _ I s Ha) as SV. cbn beta in SV.
  destruct (sv_conn _ _ _ SV key e Ee) as [Lp [c' [Hc' Hrc]]]. fold p in Hc', Lp. rewrite Hc in Hc'. inversion Hc'; subst c'. clear Hc'.
  destruct (c_receive_some _ _ _ Hr) as (R1 & R2 & R3 & R4 & R5).
  assert (Ls1 : s < length (w_subs w1)) by (unfold w1; now rewrite len_subs_setc).
  assert (G1 : gets w1 s = gets w s) by apply gets_setc.
  assert (G : gets w' s = s_set_recv (gets w s) rl).
  { change (gets w' s) with (gets w2 s). unfold w2. rewrite gets_sets_same by exact Ls1. now rewrite G1. }
  assert (S2 : SubStep s w w2).
  { eapply SubStep_trans; [apply SubStep_setc|]. apply SubStep_sets; auto. }
  assert (St : SubStep s w w') by (eapply SubStep_trans; [exact S2|]; now apply SubStep_add_sample).
  assert (Gc : forall q t, getc w' q t = getc w1 q t) by reflexivity.
  assert (Gp : forall q, getp w' q = getp w q) by (intros q; apply (SubStep_getp _ _ _ _ St)).
  assert (Gb : forall q t, borrowed w' q t = borrowed w q t ++ (if Nat.eqb p q && Nat.eqb s t then [q_off qe] else [])).
  { intros q t. unfold w'. rewrite borrowed_add, Xo, Xs, Xf. f_equal. change (borrowed w2 q t) with (borrowed w1 q t). apply borrowed_setc. }
  assert (Gs : w_samples w' = w_samples w ++ [smp]).
  { change (w_samples w') with (w_samples w1 ++ [smp]). unfold w1. now rewrite samples_setc. }
  assert (Gn : w_nsample w' = S (w_nsample w)).
  { change (w_nsample w') with (S (w_nsample w1)). unfold w1. now rewrite nsample_setc. }
  assert (Gcs : getc w' p s = Some c1).
  { rewrite Gc. unfold w1. rewrite getc_setc_eq, R5, Hrc, Bool.orb_true_r. reflexivity. }
  assert (Hsnd : pact w p -> sact w s -> c_snd c = true).
  { intros Hp Hs. destruct (c_snd c) eqn:E; [reflexivity|]. destruct (iv_fresh _ _ I p s c Hp Hs Hc E) as (A & _). rewrite R1 in A. discriminate. }
  assert (F : SubSelf w' s None).
  { constructor.
    - (* publishers *)
      intros p' Hp'. apply (SubStep_pact _ _ _ _ St) in Hp'. pose proof (iv_pub _ _ I p' Hp') as PI.
      destruct (Nat.eq_dec p p') as [<-|Hne].
      2:{ eapply PubInv_frame; [apply (ss_cfg _ _ _ St)|apply Gp|apply (SubStep_loans_of _ _ _ _ St)| |exact PI].
          intros t _. split.
          - rewrite Gc. unfold w1. now apply getc_setc_otherp.
          - rewrite Gb. destruct (Nat.eqb_spec p p'); [contradiction|]. apply app_nil_r. }
      destruct (in_dec opt_nat_dec (Some s) (p_tab (getp w p))) as [Hin|Hni].
      2:{ eapply PubInv_frame; [apply (ss_cfg _ _ _ St)|apply Gp|apply (SubStep_loans_of _ _ _ _ St)| |exact PI].
          intros t Ht. assert (s <> t) by (intros ->; contradiction). split.
          - rewrite Gc. unfold w1. now apply getc_setc_other.
          - rewrite Gb. destruct (Nat.eqb_spec s t); [contradiction|]. rewrite Bool.andb_false_r. apply app_nil_r. }
      unfold PubInv in PI. destruct (pv_conn _ _ _ _ _ PI s Hin) as [c' [Hc' Ok]]. rewrite Hc in Hc'. inversion Hc'; subst c'. clear Hc'.
      destruct (ConnOk_recv _ _ _ _ _ _ Ok Hr) as (Ok1 & U1 & _).
      pose proof (V_conn_replace _ _ _ _ _ s c c1 _ PI Hc (fun o => f_equal (fun l => cnt l o) U1) Ok1) as PI'.
      unfold PubInv. rewrite (ss_cfg _ _ _ St), Gp, (SubStep_loans_of _ _ _ _ St). eapply PubInvV_ext; [|exact PI'].
      intros t Ht. destruct (Nat.eq_dec t s) as [->|Hts].
      + rewrite !fupd_same, Gcs, Gb, !Nat.eqb_refl. auto.
      + rewrite !fupd_other by exact Hts. rewrite Gc, Gb. unfold w1. rewrite getc_setc_other by congruence.
        destruct (Nat.eqb_spec s t); [congruence|]. rewrite Bool.andb_false_r, app_nil_r. auto.
    - (* the subscriber *)
      intros _. eapply (SubInvH_frame2 w); [apply (ss_cfg _ _ _ St)|apply (ss_pubs _ _ _ St)|rewrite G; reflexivity..| |exact SV].
      intros q c0 Hc0 Hr0. rewrite Gc. destruct (Nat.eq_dec p q) as [<-|Hne].
      + exists c1. rewrite <- Gc. split; [exact Gcs|congruence].
      + unfold w1. rewrite getc_setc_otherp by exact Hne. eauto.
    - intros x Hx. rewrite Gs in Hx. rewrite (SubStep_salive _ _ _ _ St), (ss_pubs _ _ _ St).
      apply in_app_or in Hx as [Hx|[<-|[]]]; [now apply (iv_samp_alive _ _ I)|]. rewrite Xs, Xo. auto.
    - intros x Hx Hp. rewrite Gs in Hx. apply (SubStep_pact _ _ _ _ St) in Hp.
      apply in_app_or in Hx as [Hx|[<-|[]]].
      + destruct (Nat.eq_dec (x_sub x) s) as [E|Hne].
        * rewrite E, G. cbn [s_store s_set_recv]. rewrite <- E. now apply (iv_samp_store _ _ I).
        * rewrite (ss_other _ _ _ St) by exact Hne. now apply (iv_samp_store _ _ I).
      + rewrite Xs, Xk, Xo, G. cbn [s_store s_set_recv]. eauto.
    - rewrite Gs, Gn. destruct (iv_samp_ids _ _ I) as [Nd Lt]. split.
      + rewrite map_app. cbn [map]. apply NoDup_app_one; [exact Nd|]. rewrite Xi. intros Hi.
        apply in_map_iff in Hi as [x [E Hx]]. apply Lt in Hx. lia.
      + intros x Hx. apply in_app_or in Hx as [Hx|[<-|[]]]; [apply Lt in Hx; lia|lia].
    - intros x Hx Hp Hs. rewrite Gs in Hx. apply (SubStep_pact _ _ _ _ St) in Hp. apply (SubStep_sact _ _ _ _ St) in Hs. rewrite Gp.
      apply in_app_or in Hx as [Hx|[<-|[]]]; [now apply (iv_cover _ _ I)|].
      rewrite Xs, Xo in *. eapply (iv_snd_tab _ _ I); eauto.
    - intros q c0 Hc0. rewrite (ss_pubs _ _ _ St), (ss_len _ _ _ St). destruct (Nat.eq_dec p q) as [<-|Hne]; [auto|].
      rewrite Gc in Hc0. unfold w1 in Hc0. rewrite getc_setc_otherp in Hc0 by exact Hne. now apply (iv_conn_range _ _ I) in Hc0.
    - intros q c0 Hc0. rewrite (ss_buf _ _ _ St). destruct (Nat.eq_dec p q) as [<-|Hne].
      + rewrite Gcs in Hc0. inversion Hc0; subst c0. destruct (c_receive_params _ _ _ Hr) as (_ & _ & -> & _). now apply (iv_conn_B _ _ I) in Hc.
      + rewrite Gc in Hc0. unfold w1 in Hc0. rewrite getc_setc_otherp in Hc0 by exact Hne. now apply (iv_conn_B _ _ I) in Hc0.
    - intros q c0 Hq Hc0 Hs0. apply (SubStep_pact _ _ _ _ St) in Hq. rewrite Gp. destruct (Nat.eq_dec p q) as [<-|Hne].
      + rewrite Gcs in Hc0. inversion Hc0; subst c0. eapply (iv_snd_tab _ _ I); eauto; congruence.
      + rewrite Gc in Hc0. unfold w1 in Hc0. rewrite getc_setc_otherp in Hc0 by exact Hne. eapply (iv_snd_tab _ _ I); eauto.
    - intros q c0 Hq Hs Hc0 Hf. apply (SubStep_pact _ _ _ _ St) in Hq. apply (SubStep_sact _ _ _ _ St) in Hs.
      rewrite Gp, (ss_buf _ _ _ St), (ss_cfg _ _ _ St), Gb. destruct (Nat.eq_dec p q) as [<-|Hne].
      + rewrite Gcs in Hc0. inversion Hc0; subst c0. rewrite R4, (Hsnd Hq Hs) in Hf. discriminate.
      + rewrite Gc in Hc0. unfold w1 in Hc0. rewrite getc_setc_otherp in Hc0 by exact Hne.
        destruct (Nat.eqb_spec p q); [contradiction|]. rewrite app_nil_r. eapply (iv_fresh _ _ I); eauto. }
  split.
  { eapply SubOK_ext; [apply (fupd_id (fun _ => None) s)|]. apply SubOK_intro; auto.
    - intros q t. unfold phi. rewrite Gb. destruct (Nat.eq_dec p q) as [<-|Hne]; [destruct (Nat.eq_dec s t) as [<-|Hnt]|].
      + rewrite Gcs, Hc, !Nat.eqb_refl, app_length, R1, R2. cbn [andb length]. lia.
      + rewrite Gc. unfold w1. rewrite getc_setc_other by exact Hnt. destruct (Nat.eqb_spec s t); [contradiction|].
        rewrite Bool.andb_false_r, app_nil_r. lia.
      + rewrite Gc. unfold w1. rewrite getc_setc_otherp by exact Hne. destruct (Nat.eqb_spec p q); [contradiction|].
        rewrite app_nil_r. lia.
    - intros T. unfold TbrOk. rewrite G. exact T. }
  rewrite G. auto.
Qed.

Lemma sub_receive_from_ok w s key w' r :
  Inv w -> salive w s -> sub_receive_from w s key = (w', r) ->
  SubOK (fun _ => None) s w w'
  /\ s_tab (gets w' s) = s_tab (gets w s) /\ s_store (gets w' s) = s_store (gets w s) /\ s_tbr (gets w' s) = s_tbr (gets w s).
Proof.
  intros I Ha Hv. unfold sub_receive_from, sub_conn in Hv.
  assert (Triv : SubOK (fun _ => None) s w w /\ s_tab (gets w s) = s_tab (gets w s) /\ s_store (gets w s) = s_store (gets w s)
                 /\ s_tbr (gets w s) = s_tbr (gets w s)) by (splits; auto; now apply SubOK_refl).
  destruct (nth key (s_store (gets w s)) None) as [e|] eqn:Ee; [|inversion Hv; subst; exact Triv].
  destruct (getc w (se_pub e) s) as [c|] eqn:Hc; [|inversion Hv; subst; exact Triv].
  destruct (c_receive c) as [c1 [[qe|]|]] eqn:Hr; [|inversion Hv; subst; exact Triv..].
  inversion Hv; subst w' r. clear Hv.
  eapply (recv_core_ok w s key e c c1 qe); eauto.
Qed.

Lemma tbr_scan_ok s : forall l n w w1 r ik,
  Inv w -> salive w s -> tbr_scan w s l n = (w1, r, ik) ->
  SubOK (fun _ => None) s w w1
  /\ s_tab (gets w1 s) = s_tab (gets w s) /\ s_store (gets w1 s) = s_store (gets w s) /\ s_tbr (gets w1 s) = s_tbr (gets w s)
  /\ (forall i k, ik = Some (i, k) -> n <= i /\ nth_error l (i - n) = Some k).
Proof.
  induction l as [|key t IH]; intros n w w1 r ik I Ha Hv; cbn [tbr_scan] in Hv.
  - inversion Hv; subst. splits; auto; [now apply SubOK_refl|discriminate].
  - assert (Here : forall i k, Some (n, key) = Some (i, k) -> n <= i /\ nth_error (key :: t) (i - n) = Some k).
    { intros i k E. inversion E; subst. rewrite Nat.sub_diag. auto. }
    assert (Rec : forall w2 (O : SubOK (fun _ => None) s w w2), s_tab (gets w2 s) = s_tab (gets w s) -> s_store (gets w2 s) = s_store (gets w s) ->
                    s_tbr (gets w2 s) = s_tbr (gets w s) -> tbr_scan w2 s t (S n) = (w1, r, ik) ->
                    SubOK (fun _ => None) s w w1
                    /\ s_tab (gets w1 s) = s_tab (gets w s) /\ s_store (gets w1 s) = s_store (gets w s) /\ s_tbr (gets w1 s) = s_tbr (gets w s)
                    /\ (forall i k, ik = Some (i, k) -> n <= i /\ nth_error (key :: t) (i - n) = Some k)).
    { intros w2 O A B C Hv2. pose proof (proj1 (proj2 O)) as St.
      destruct (IH (S n) w2 w1 r ik (proj1 O) (proj2 (SubStep_salive _ _ _ _ St) Ha) Hv2) as (O2 & A2 & B2 & C2 & D2).
      splits; try congruence; [eapply SubOK_trans; eauto|].
      intros i k E. destruct (D2 i k E) as [L N]. split; [lia|]. replace (i - n) with (S (i - S n)) by lia. exact N. }
    assert (O0 : SubOK (fun _ => None) s w w) by now apply SubOK_refl.
    destruct (sub_conn w s key) as [[q c]|] eqn:Esc; destruct (nth key (s_store (gets w s)) None) as [e|] eqn:Ee.
    + destruct (Nat.eqb (c_borrow c) (c_M c)); [now apply (Rec w)|].
      destruct (sub_receive_from w s key) as [w2 rr] eqn:Er.
      destruct (sub_receive_from_ok w s key w2 rr I Ha Er) as (O & A & B & C).
      destruct rr.
      * destruct (snd (sub_data_borrows w2 s key)); [now apply (Rec w2)|]. inversion Hv; subst. splits; auto.
      * inversion Hv; subst. splits; auto. discriminate.
      * inversion Hv; subst. splits; auto. discriminate.
    + inversion Hv; subst. splits; auto.
    + now apply (Rec w).
    + inversion Hv; subst. splits; auto.
Qed.

Lemma tbr_loop_ok s : forall fuel w skip w' r,
  Inv w -> salive w s -> TbrOk w s -> tbr_loop fuel w s skip = Val (w', r) -> SubOK (fun _ => None) s w w'.
Proof.
  induction fuel as [|f IH]; intros w skip w' r I Ha T Hv; cbn [tbr_loop] in Hv.
  - inversion Hv; subst. now apply SubOK_refl.
  - destruct (tbr_scan w s (skipn skip (s_tbr (gets w s))) skip) as [[w1 rr] ik] eqn:E.
    destruct (tbr_scan_ok s _ _ _ _ _ _ I Ha E) as (O1 & A1 & B1 & C1 & D1).
    pose proof (proj1 (proj2 O1)) as St1.
    assert (Ha1 : salive w1 s) by now apply (SubStep_salive _ _ _ _ St1).
    assert (Tb1 : TbrOk w1 s) by now apply (proj2 (proj2 (proj2 O1))).
    destruct ik as [[index key]|]; [|inversion Hv; subst; exact O1].
    destruct (D1 index key eq_refl) as [L N]. rewrite nth_error_skipn' in N. replace (skip + (index - skip)) with index in N by lia.
    rewrite <- C1 in N.
    destruct (tbr_evict_ok (fun _ => None) w1 s index key (proj1 O1) Ha1 Tb1 N) as (O2 & _).
    set (w2 := sub_storage_remove (tbr_remove w1 s index) s key) in *.
    pose proof (proj1 (proj2 O2)) as St2.
    eapply SubOK_trans; [exact O1|]. eapply SubOK_trans; [exact O2|].
    eapply (IH w2 index w' r); auto.
    + apply O2.
    + now apply (SubStep_salive _ _ _ _ St2).
    + now apply (proj2 (proj2 (proj2 O2))).
Qed.

Lemma active_scan_ok s : forall n key w active ae w' r,
  Inv w -> salive w s -> active_scan w s n key active ae = (w', r) -> SubOK (fun _ => None) s w w'.
Proof.
  induction n as [|n IH]; intros key w active ae w' r I Ha Hv; cbn [active_scan] in Hv.
  - inversion Hv; subst. now apply SubOK_refl.
  - destruct (sub_conn w s key) as [[q c]|]; [|eapply IH; eauto].
    destruct (negb (c_has_data c)); [eapply IH; eauto|].
    destruct (Nat.leb (c_M c) (c_borrow c)); [eapply IH; eauto|].
    destruct (sub_receive_from w s key) as [w1 rr] eqn:Er.
    destruct (sub_receive_from_ok w s key w1 rr I Ha Er) as (O & _).
    pose proof (proj1 (proj2 O)) as St.
    destruct rr; [|inversion Hv; subst; exact O..].
    eapply SubOK_trans; [exact O|]. eapply IH; [apply O|now apply (SubStep_salive _ _ _ _ St)|exact Hv].
Qed.

Lemma sub_receive_ok w s w' r :
  Inv w -> RegP w -> salive w s -> TbrOk w s -> sub_receive w s = Val (w', r) -> SubOK (fun _ => None) s w w'.
Proof.
  intros I R Ha T Hv. unfold sub_receive in Hv.
  destruct (sub_update_connections w s) as [w1|] eqn:E1; [|discriminate]. cbn [rbind] in Hv. cbn zeta in Hv.
  pose proof (sub_update_connections_ok w s w1 I R Ha T E1) as O1.
  destruct (SubOK_carry _ _ _ _ O1 R Ha T) as (I1 & R1 & Ha1 & Tb1 & St1).
  eapply SubOK_trans; [exact O1|].
  assert (Fin : forall w2 rr, SubOK (fun _ => None) s w1 w2 ->
            match rr with RxNone => Val (active_scan w2 s (length (s_store (gets w2 s))) 0 0 true) | _ => Val (w2, rr) end = Val (w', r) ->
            SubOK (fun _ => None) s w1 w').
  { intros w2 rr O2 Hf. pose proof (proj1 (proj2 O2)) as St2. destruct rr; [|inversion Hf; subst; exact O2..].
    destruct (active_scan w2 s (length (s_store (gets w2 s))) 0 0 true) as [wa ra] eqn:E3. inversion Hf; subst.
    eapply SubOK_trans; [exact O2|]. eapply active_scan_ok; [apply O2|now apply (SubStep_salive _ _ _ _ St2)|exact E3]. }
  destruct (Nat.eqb (length (s_tbr (gets w1 s))) 0).
  - cbn [rbind] in Hv. apply (Fin w1 RxNone); [now apply SubOK_refl|exact Hv].
  - destruct (tbr_loop (S (length (s_tbr (gets w1 s)))) w1 s 0) as [[w2 rr]|] eqn:E2; [|discriminate]. cbn [rbind] in Hv.
    apply (Fin w2 rr); [|exact Hv]. eapply tbr_loop_ok; eauto.
Qed.

Lemma sub_has_samples_ok w s w' b :
  Inv w -> RegP w -> salive w s -> TbrOk w s -> sub_has_samples w s = Val (w', b) -> SubOK (fun _ => None) s w w'.
Proof.
  intros I R Ha T Hv. unfold sub_has_samples in Hv.
  destruct (sub_update_connections w s) as [w1|] eqn:E1; [|discriminate]. cbn [rbind] in Hv. cbn zeta in Hv.
  inversion Hv; subst. eapply sub_update_connections_ok; eauto.
Qed.

(* S14-S15  Sample drop (incl. the drop of the subscriber state by its last owner) *)
Definition SubOK' (s : nat) (w w' : world) : Prop :=
  Inv w' /\ PhiLe w w' /\ w_cfg w' = w_cfg w /\ w_sreg w' = w_sreg w /\ w_preg w' = w_preg w /\ w_pubs w' = w_pubs w
  /\ w_loans w' = w_loans w /\ w_nloan w' = w_nloan w /\ length (w_subs w') = length (w_subs w)
  /\ (forall t, t <> s -> gets w' t = gets w t)
  /\ s_active (gets w' s) = s_active (gets w s) /\ s_slot (gets w' s) = s_slot (gets w s)
  /\ s_buf (gets w' s) = s_buf (gets w s) /\ s_hreq (gets w' s) = s_hreq (gets w s)
  /\ (forall q t, t <> s -> getc w' q t = getc w q t)
  /\ (salive w' s -> TbrOk w s -> TbrOk w' s)
  /\ (salive w' s -> salive w s).

(* the receiver port of a connection is detached (or the connection stays as it is) *)
Definition DetR (o o' : option conn) : Prop :=
  o' = o \/ exists c, o = Some c /\ o' = (if c_snd c then Some (flipc c false) else None).

Lemma flipc_idem c r : flipc (flipc c r) r = flipc c r.
Proof. reflexivity. Qed.

Lemma DetR_trans o1 o2 o3 : DetR o1 o2 -> DetR o2 o3 -> DetR o1 o3.
Proof.
  intros [->|(c & -> & E2)] B; [exact B|].
  destruct B as [->|(c' & E2' & ->)]; [right; eauto|].
  right. exists c. split; [reflexivity|]. rewrite E2 in E2'.
  destruct (c_snd c) eqn:Es; [|discriminate]. inversion E2'; subst c'.
  cbn [flipc set_ports c_snd]. rewrite Es. reflexivity.
Qed.

Record DetStep (s : nat) (w w' : world) : Prop := {
  ds_cfg : w_cfg w' = w_cfg w;
  ds_sreg : w_sreg w' = w_sreg w;
  ds_preg : w_preg w' = w_preg w;
  ds_pubs : w_pubs w' = w_pubs w;
  ds_loans : w_loans w' = w_loans w;
  ds_nloan : w_nloan w' = w_nloan w;
  ds_samples : w_samples w' = w_samples w;
  ds_nsample : w_nsample w' = w_nsample w;
  ds_len : length (w_subs w') = length (w_subs w);
  ds_other : forall t, t <> s -> gets w' t = gets w t;
  ds_active : s_active (gets w' s) = s_active (gets w s);
  ds_alive : s_alive (gets w' s) = s_alive (gets w s);
  ds_slot : s_slot (gets w' s) = s_slot (gets w s);
  ds_buf : s_buf (gets w' s) = s_buf (gets w s);
  ds_hreq : s_hreq (gets w' s) = s_hreq (gets w s);
  ds_conn_other : forall q t, t <> s -> getc w' q t = getc w q t;
  ds_conn : forall q, DetR (getc w q s) (getc w' q s) }.

Lemma DetStep_refl s w : DetStep s w w.
Proof. constructor; auto. intros q. now left. Qed.

Lemma DetStep_trans s w1 w2 w3 : DetStep s w1 w2 -> DetStep s w2 w3 -> DetStep s w1 w3.
Proof.
  intros [a1 b1 c1 d1 e1 f1 g1 h1 i1 j1 k1 l1 m1 n1 o1 p1 q1] [a2 b2 c2 d2 e2 f2 g2 h2 i2 j2 k2 l2 m2 n2 o2 p2 q2].
  constructor; try congruence.
  - intros t Ht. rewrite j2, j1; auto.
  - intros q t Ht. rewrite p2, p1; auto.
  - intros q. eapply DetR_trans; eauto.
Qed.

Lemma DetStep_sets w s x' : s < length (w_subs w) ->
  s_active x' = s_active (gets w s) -> s_alive x' = s_alive (gets w s) -> s_slot x' = s_slot (gets w s) ->
  s_buf x' = s_buf (gets w s) -> s_hreq x' = s_hreq (gets w s) -> DetStep s w (sets w s x').
Proof.
  intros L A B C D E. constructor; try reflexivity; rewrite ?gets_sets_same by exact L; auto.
  - apply len_subs_sets.
  - intros t Ht. apply gets_sets_other. congruence.
  - intros q. now left.
Qed.

Lemma DetStep_setc w q s c : getc w q s = Some c -> DetStep s w (setc w q s (flipc c false)).
Proof.
  intros Hc. destruct (setc_fields w q s (flipc c false)) as (A & B & C & D & E & F & G & I & J).
  constructor; auto; try (now rewrite gets_setc).
  - now rewrite E.
  - intros t _. apply gets_setc.
  - intros q' t Ht. apply getc_setc_ne. congruence.
  - intros q'. destruct (Nat.eq_dec q q') as [<-|Hne]; [|left; now apply getc_setc_otherp].
    right. exists c. split; [exact Hc|]. rewrite getc_setc_eq. cbn [flipc set_ports c_snd c_rcv]. now rewrite Bool.orb_false_r.
Qed.

Lemma DetStep_storage_remove w s key : s < length (w_subs w) -> DetStep s w (sub_storage_remove w s key).
Proof.
  intros L. unfold sub_storage_remove. cbn zeta.
  destruct (nth key (s_store (gets w s)) None) as [e|]; [|apply DetStep_refl].
  destruct (getc w (se_pub e) s) as [c|] eqn:Hc.
  - eapply DetStep_trans; [apply (DetStep_setc _ _ _ _ Hc)|].
    apply DetStep_sets; rewrite ?gets_setc; auto. now rewrite len_subs_setc.
  - apply DetStep_sets; auto.
Qed.

Lemma DetStep_detach_all s : forall n key w, s < length (w_subs w) -> DetStep s w (sub_detach_all w s n key).
Proof.
  induction n as [|n IH]; intros key w L; cbn [sub_detach_all]; [apply DetStep_refl|].
  pose proof (DetStep_storage_remove w s key L) as D1.
  eapply DetStep_trans; [exact D1|]. apply IH. now rewrite (ds_len _ _ _ D1).
Qed.

Lemma DetStep_PhiLe s w w' : DetStep s w w' -> PhiLe w w'.
Proof.
  intros D p t. unfold phi, borrowed. rewrite (ds_samples _ _ _ D).
  destruct (Nat.eq_dec t s) as [->|Hne]; [|rewrite (ds_conn_other _ _ _ D) by exact Hne; lia].
  destruct (ds_conn _ _ _ D p) as [->|(c & -> & ->)]; [lia|].
  destruct (c_snd c); cbn; lia.
Qed.

(* the last owner of the subscriber state is gone: all its connections are detached, the state dies *)
Lemma drop_state_inv w w1 s :
  Inv w -> DetStep s w w1 -> s < length (w_subs w) -> s_active (gets w s) = false ->
  (forall x, In x (w_samples w) -> x_sub x <> s) ->
  Inv (sets w1 s (s_set_life (gets w1 s) false false)).
Proof.
  intros I D L Hna Hns.
  set (w' := sets w1 s (s_set_life (gets w1 s) false false)).
  assert (L1 : s < length (w_subs w1)) by now rewrite (ds_len _ _ _ D).
  assert (G : gets w' s = s_set_life (gets w1 s) false false) by (unfold w'; now apply gets_sets_same).
  assert (Go : forall t, t <> s -> gets w' t = gets w t).
  { intros t Ht. unfold w'. rewrite gets_sets_other by congruence. now apply (ds_other _ _ _ D). }
  assert (Gp : forall p, getp w' p = getp w p) by (intros p; unfold getp; change (w_pubs w') with (w_pubs w1); now rewrite (ds_pubs _ _ _ D)).
  assert (Pa : forall p, pact w' p <-> pact w p) by (intros p; unfold pact; rewrite Gp; tauto).
  assert (Gc : forall p t, t <> s -> getc w' p t = getc w p t) by (intros p t Ht; change (getc w' p t) with (getc w1 p t); now apply (ds_conn_other _ _ _ D)).
  assert (Gcs : forall p, DetR (getc w p s) (getc w' p s)) by (intros p; change (getc w' p s) with (getc w1 p s); apply (ds_conn _ _ _ D)).
  assert (Gb : forall p t, borrowed w' p t = borrowed w p t).
  { intros p t. unfold borrowed. change (w_samples w') with (w_samples w1). now rewrite (ds_samples _ _ _ D). }
  assert (Bs : forall p, borrowed w p s = []).
  { intros p. apply borrowed_nil. intros x Hx _ Hs. now apply (Hns x Hx). }
  assert (Sa : forall t, sact w' t -> t <> s /\ sact w t).
  { intros t Ht. destruct (Nat.eq_dec t s) as [->|Hne]; [unfold sact in Ht; rewrite G in Ht; discriminate|].
    split; [exact Hne|]. unfold sact in *. now rewrite <- Go. }
  assert (Sl : forall t, salive w' t -> t <> s /\ salive w t).
  { intros t Ht. destruct (Nat.eq_dec t s) as [->|Hne]; [unfold salive in Ht; rewrite G in Ht; discriminate|].
    split; [exact Hne|]. unfold salive in *. now rewrite <- Go. }
  assert (Ecfg : w_cfg w' = w_cfg w) by apply (ds_cfg _ _ _ D).
  assert (Epubs : w_pubs w' = w_pubs w) by apply (ds_pubs _ _ _ D).
  assert (Elen : length (w_subs w') = length (w_subs w)) by (unfold w'; rewrite len_subs_sets; apply (ds_len _ _ _ D)).
  assert (Esamp : w_samples w' = w_samples w) by apply (ds_samples _ _ _ D).
  assert (Dsome : forall p c', getc w' p s = Some c' -> exists c, getc w p s = Some c /\ c_B c' = c_B c /\ c_snd c' = c_snd c).
  { intros p c' Hc'. destruct (Gcs p) as [E|(c & E1 & E2)]; [exists c'; split; [congruence|auto]|].
    exists c. split; [exact E1|]. rewrite E2 in Hc'. destruct (c_snd c) eqn:Es; [|discriminate]. inversion Hc'; subst c'. split; [reflexivity|exact Es]. }
  constructor.
  - rewrite Ecfg. apply (iv_cfg _ _ I).
  - change (w_preg w') with (w_preg w1). rewrite (ds_preg _ _ _ D), Ecfg. apply (iv_preg_len _ _ I).
  - change (w_sreg w') with (w_sreg w1). rewrite (ds_sreg _ _ _ D), Ecfg. apply (iv_sreg_len _ _ I).
  - intros i d. change (w_preg w') with (w_preg w1). rewrite (ds_preg _ _ _ D), Pa, Gp. apply (iv_preg _ _ I).
  - intros i d. change (w_sreg w') with (w_sreg w1). rewrite (ds_sreg _ _ _ D). intros Hd.
    destruct (iv_sreg _ _ I i d Hd) as (A & B).
    assert (Hne : sd_id d <> s) by (intros E; unfold sact in A; rewrite E, Hna in A; discriminate).
    unfold sact. rewrite (Go _ Hne). auto.
  - intros p Hp. apply Pa in Hp. pose proof (iv_pub _ _ I p Hp) as PI.
    assert (El : loans_of w' p = loans_of w p) by (unfold loans_of; change (w_loans w') with (w_loans w1); now rewrite (ds_loans _ _ _ D)).
    destruct (in_dec opt_nat_dec (Some s) (p_tab (getp w p))) as [Hin|Hni].
    2:{ eapply PubInv_frame; [exact Ecfg|apply Gp|exact El| |exact PI].
        intros t Ht. split; [|apply Gb]. apply Gc. intros ->. contradiction. }
    destruct (Gcs p) as [E|(c & E1 & E2)].
    { eapply PubInv_frame; [exact Ecfg|apply Gp|exact El| |exact PI].
      intros t Ht. split; [|apply Gb]. destruct (Nat.eq_dec t s) as [->|Hne]; [exact E|now apply Gc]. }
    unfold PubInv in PI. destruct (pv_conn _ _ _ _ _ PI s Hin) as [c' [Hc' Ok]]. rewrite E1 in Hc'. inversion Hc'; subst c'. clear Hc'.
    rewrite Bs in Ok. rewrite (co_snd _ _ _ _ Ok) in E2.
    pose proof (ConnOk_ports _ _ c (c_snd c) false Ok (co_snd _ _ _ _ Ok)) as Ok'.
    pose proof (V_conn_replace _ _ _ _ _ s c (flipc c false) [] PI E1 (fun o => eq_refl) Ok') as PI'.
    unfold PubInv. rewrite Ecfg, Gp, El. eapply PubInvV_ext; [|exact PI'].
    intros t Ht. destruct (Nat.eq_dec t s) as [->|Hts].
    + rewrite !fupd_same, Gb, Bs. auto.
    + rewrite !fupd_other by exact Hts. rewrite Gb. now rewrite Gc.
  - intros t Ht. destruct (Sl t Ht) as [Hne Hal]. cbn beta.
    eapply SubInvH_frame; [exact Ecfg|now apply Go|now rewrite Epubs|exact Pa| | |now apply (iv_sub _ _ I)].
    + intros q _. now rewrite Gp.
    + intros q c Hc Hr. rewrite Gc by exact Hne. eauto.
  - intros t Ht. destruct (Sa t Ht) as [Hne Hac]. unfold salive. rewrite (Go _ Hne). now apply (iv_act_alive _ _ I).
  - intros x Hx. rewrite Esamp in Hx. rewrite Epubs. destruct (iv_samp_alive _ _ I x Hx) as [A B]. split; [|exact B].
    unfold salive. rewrite (Go _ (Hns x Hx)). exact A.
  - intros x Hx Hp. rewrite Esamp in Hx. apply Pa in Hp. rewrite (Go _ (Hns x Hx)). now apply (iv_samp_store _ _ I).
  - rewrite Esamp. change (w_nsample w') with (w_nsample w1). rewrite (ds_nsample _ _ _ D). apply (iv_samp_ids _ _ I).
  - change (w_loans w') with (w_loans w1). change (w_nloan w') with (w_nloan w1).
    rewrite (ds_loans _ _ _ D), (ds_nloan _ _ _ D), Epubs. apply (iv_loan_ids _ _ I).
  - intros p t c Hc. rewrite Epubs, Elen. destruct (Nat.eq_dec t s) as [->|Hne].
    + destruct (Dsome p c Hc) as (c0 & Hc0 & _). now apply (iv_conn_range _ _ I) in Hc0.
    + rewrite Gc in Hc by exact Hne. now apply (iv_conn_range _ _ I) in Hc.
  - intros p t c Hc. destruct (Nat.eq_dec t s) as [->|Hne].
    + destruct (Dsome p c Hc) as (c0 & Hc0 & -> & _). rewrite G. cbn [s_buf s_set_life]. rewrite (ds_buf _ _ _ D).
      now apply (iv_conn_B _ _ I) in Hc0.
    + rewrite Gc in Hc by exact Hne. rewrite (Go _ Hne). now apply (iv_conn_B _ _ I) in Hc.
  - intros p i t Hp Ht. apply Pa in Hp. rewrite Gp in Ht. rewrite Elen. destruct (iv_tab_slot _ _ I p i t Hp Ht) as [A B].
    split; [exact A|]. intros Hs. destruct (Sa t Hs) as [Hne Hac]. rewrite (Go _ Hne). auto.
  - intros p t c Hp Hc Hs. apply Pa in Hp. rewrite Gp. destruct (Nat.eq_dec t s) as [->|Hne].
    + destruct (Dsome p c Hc) as (c0 & Hc0 & _ & E). eapply (iv_snd_tab _ _ I); eauto; congruence.
    + rewrite Gc in Hc by exact Hne. eapply (iv_snd_tab _ _ I); eauto.
  - intros p t c Hp Hs Hc Hf. apply Pa in Hp. destruct (Sa t Hs) as [Hne Hac].
    rewrite Gc in Hc by exact Hne. rewrite Gb, (Go _ Hne), Ecfg, Gp. eapply (iv_fresh _ _ I); eauto.
  - intros x Hx Hp Hs. rewrite Esamp in Hx. apply Pa in Hp. destruct (Sa _ Hs) as [Hne Hac]. rewrite Gp. now apply (iv_cover _ _ I).
Qed.

Lemma SubOK'_refl s w : Inv w -> SubOK' s w w.
Proof. intros I. unfold SubOK'. splits; auto. apply PhiLe_refl. Qed.

Lemma sub_maybe_drop_state_ok w s :
  Inv w -> SubOK' s w (sub_maybe_drop_state w s).
Proof.
  intros I. unfold sub_maybe_drop_state. cbn zeta.
  destruct (negb (s_active (gets w s)) && s_alive (gets w s) && negb (has_samples_of w s)) eqn:E; [|now apply SubOK'_refl].
  apply andb_prop in E as [E E3]. apply andb_prop in E as [E1 E2].
  apply Bool.negb_true_iff in E1, E3.
  assert (L : s < length (w_subs w)) by now apply salive_lt.
  assert (Hns : forall x, In x (w_samples w) -> x_sub x <> s).
  { intros x Hx Hs. unfold has_samples_of in E3. assert (existsb (fun x0 => Nat.eqb (x_sub x0) s) (w_samples w) = true); [|congruence].
    apply existsb_exists. exists x. split; [exact Hx|now apply Nat.eqb_eq]. }
  set (w0 := sets w s (s_set_tbr (s_set_tab (gets w s) (map (fun _ => None) (s_tab (gets w s)))) [])).
  assert (D0 : DetStep s w w0) by (apply DetStep_sets; auto).
  assert (L0 : s < length (w_subs w0)) by now rewrite (ds_len _ _ _ D0).
  pose proof (DetStep_detach_all s (length (s_store (gets w s))) 0 w0 L0) as D1.
  set (w1 := sub_detach_all w0 s (length (s_store (gets w s))) 0) in *.
  assert (D : DetStep s w w1) by (eapply DetStep_trans; eauto).
  assert (L1 : s < length (w_subs w1)) by now rewrite (ds_len _ _ _ D).
  assert (G : gets (sets w1 s (s_set_life (gets w1 s) false false)) s = s_set_life (gets w1 s) false false) by now apply gets_sets_same.
  unfold SubOK'. splits.
  - now apply (drop_state_inv w w1 s).
  - eapply PhiLe_trans; [apply (DetStep_PhiLe _ _ _ D)|apply PhiLe_sets].
  - apply (ds_cfg _ _ _ D).
  - apply (ds_sreg _ _ _ D).
  - apply (ds_preg _ _ _ D).
  - apply (ds_pubs _ _ _ D).
  - apply (ds_loans _ _ _ D).
  - apply (ds_nloan _ _ _ D).
  - rewrite len_subs_sets. apply (ds_len _ _ _ D).
  - intros t Ht. rewrite gets_sets_other by congruence. now apply (ds_other _ _ _ D).
  - rewrite G. cbn [s_active s_set_life]. now rewrite E1.
  - rewrite G. cbn [s_slot s_set_life]. apply (ds_slot _ _ _ D).
  - rewrite G. cbn [s_buf s_set_life]. apply (ds_buf _ _ _ D).
  - rewrite G. cbn [s_hreq s_set_life]. apply (ds_hreq _ _ _ D).
  - intros q t Ht. rewrite getc_sets. now apply (ds_conn_other _ _ _ D).
  - intros Hal. unfold salive in Hal. rewrite G in Hal. discriminate.
  - intros Hal. unfold salive in Hal. rewrite G in Hal. discriminate.
Qed.

Definition bl (l : list sample) (p t : nat) : list off :=
  map x_off (filter (fun y => Nat.eqb (x_origin y) p && Nat.eqb (x_sub y) t) l).

Lemma bl_app l1 l2 p t : bl (l1 ++ l2) p t = bl l1 p t ++ bl l2 p t.
Proof. unfold bl. now rewrite filter_app, map_app. Qed.

Lemma bl_del_other l1 x l2 p t : (p, t) <> (x_origin x, x_sub x) -> bl (l1 ++ x :: l2) p t = bl (l1 ++ l2) p t.
Proof.
  intros Hne. rewrite !bl_app. f_equal. unfold bl. cbn [filter].
  destruct (Nat.eqb_spec (x_origin x) p) as [E1|]; [destruct (Nat.eqb_spec (x_sub x) t) as [E2|]|]; cbn [andb]; try reflexivity.
  exfalso. apply Hne. congruence.
Qed.

Lemma bl_del_same l1 x l2 :
  minus_one (bl (l1 ++ x :: l2) (x_origin x) (x_sub x)) (x_off x) (bl (l1 ++ l2) (x_origin x) (x_sub x)).
Proof.
  assert (E : bl (x :: l2) (x_origin x) (x_sub x) = x_off x :: bl l2 (x_origin x) (x_sub x)).
  { unfold bl. cbn [filter]. now rewrite !Nat.eqb_refl. }
  unfold minus_one. rewrite !bl_app, E. split.
  - rewrite !app_length. cbn [length]. lia.
  - intros o. rewrite !cnt_app, cnt_cons, cnt_one. lia.
Qed.

Lemma c_release_facts c o c1 b : c_release c o = Val (c1, b) ->
  c_snd c1 = c_snd c /\ c_rcv c1 = c_rcv c /\ c_B c1 = c_B c /\ c_sub c1 = c_sub c /\ length (c_comp c1) <= S (length (c_comp c)).
Proof.
  unfold c_release. destruct (Nat.ltb (length (c_comp c)) (comp_cap c)); [destruct (c_borrow c); [discriminate|]|];
    intros H; inversion H; subst; cbn; splits; auto. rewrite app_length. cbn. lia.
Qed.

Lemma drop_core_ok w w1 x :
  Inv w -> In x (w_samples w) ->
  SubStep (x_sub x) w w1 -> w_samples w1 = w_samples w -> w_nsample w1 = w_nsample w -> (forall t, gets w1 t = gets w t) ->
  (forall p t, (p, t) <> (x_origin x, x_sub x) -> getc w1 p t = getc w p t) ->
  ((getc w1 (x_origin x) (x_sub x) = getc w (x_origin x) (x_sub x) /\ ~ pact w (x_origin x))
   \/ exists c c1 b, getc w (x_origin x) (x_sub x) = Some c /\ getc w1 (x_origin x) (x_sub x) = Some c1
                     /\ c_release c (x_off x) = Val (c1, b)) ->
  SubOK (fun _ => None) (x_sub x) w
        (w_set_samples w1 (filter (fun y => negb (Nat.eqb (x_id y) (x_id x))) (w_samples w1)) (w_nsample w1)).
Proof.
  intros I Hx S1 E1 E2 Hg Hco Hrel.
  set (s := x_sub x) in *. set (q := x_origin x) in *.
  destruct (iv_samp_ids _ _ I) as [Nd Lt].
  destruct (filter_id_split (w_samples w) x Nd Hx) as (l1 & l2 & El & Ef).
  rewrite E1, Ef.
  set (w2 := w_set_samples w1 (l1 ++ l2) (w_nsample w1)).
  assert (Ha : salive w s) by (apply (iv_samp_alive _ _ I x Hx)).
  assert (Hg2 : forall t, gets w2 t = gets w t) by exact Hg.
  assert (Gc : forall p t, getc w2 p t = getc w1 p t) by reflexivity.
  assert (Gbo : forall p t, (p, t) <> (q, s) -> borrowed w2 p t = borrowed w p t).
  { intros p t Hne. change (borrowed w2 p t) with (bl (l1 ++ l2) p t). change (borrowed w p t) with (bl (w_samples w) p t).
    rewrite El. symmetry. now apply bl_del_other. }
  assert (Gbs : minus_one (borrowed w q s) (x_off x) (borrowed w2 q s)).
  { change (borrowed w2 q s) with (bl (l1 ++ l2) q s). change (borrowed w q s) with (bl (w_samples w) q s).
    rewrite El. apply bl_del_same. }
  assert (Hsub : forall y, In y (l1 ++ l2) -> In y (w_samples w)).
  { intros y Hy. rewrite El. apply in_app_or in Hy as [Hy|Hy]; apply in_or_app; [now left|right; now right]. }
  assert (St : SubStep s w w2).
  { destruct S1 as [a1 b1 c1 d1 e1 f1 g1 h1 i1 j1 k1 l1' m1 n1 o1]. constructor.
    - exact a1. - exact b1. - exact c1. - exact d1. - exact e1. - exact f1. - exact g1. - exact h1. - exact i1.
    - exact j1. - exact k1. - exact l1'. - exact m1. - exact n1.
    - intros p t Ht. apply Gbo. congruence. }
  assert (Gp : forall p, getp w2 p = getp w p) by (intros p; apply (SubStep_getp _ _ _ _ St)).
  assert (F : SubSelf w2 s None).
  { constructor.
    - intros p Hp. apply (SubStep_pact _ _ _ _ St) in Hp. pose proof (iv_pub _ _ I p Hp) as PI.
      destruct (Nat.eq_dec p q) as [->|Hne].
      2:{ eapply PubInv_frame; [apply (ss_cfg _ _ _ St)|apply Gp|apply (SubStep_loans_of _ _ _ _ St)| |exact PI].
          intros t _. split; [rewrite Gc; apply Hco; congruence|apply Gbo; congruence]. }
      destruct Hrel as [[_ Hnp]|(c & c1 & b & Hc & Hc1 & Hr)]; [contradiction|].
      destruct (in_dec opt_nat_dec (Some s) (p_tab (getp w q))) as [Hin|Hni].
      2:{ eapply PubInv_frame; [apply (ss_cfg _ _ _ St)|apply Gp|apply (SubStep_loans_of _ _ _ _ St)| |exact PI].
          intros t Ht. assert (t <> s) by (intros ->; contradiction).
          split; [rewrite Gc; apply Hco; congruence|apply Gbo; congruence]. }
      unfold PubInv in PI. destruct (pv_conn _ _ _ _ _ PI s Hin) as [c' [Hc' Ok]]. rewrite Hc in Hc'. inversion Hc'; subst c'. clear Hc'.
      destruct (ConnOk_release _ _ _ _ _ _ Ok Gbs) as (c1' & Hr' & Ok1 & U1 & _).
      rewrite Hr in Hr'. inversion Hr'; subst c1'. clear Hr'.
      pose proof (V_conn_replace _ _ _ _ _ s c c1 _ PI Hc (fun o => f_equal (fun l => cnt l o) U1) Ok1) as PI'.
      unfold PubInv. rewrite (ss_cfg _ _ _ St), Gp, (SubStep_loans_of _ _ _ _ St). eapply PubInvV_ext; [|exact PI'].
      intros t Ht. destruct (Nat.eq_dec t s) as [->|Hts].
      + rewrite !fupd_same, Gc. auto.
      + rewrite !fupd_other by exact Hts. rewrite Gc. split; [apply Hco; congruence|apply Gbo; congruence].
    - intros _. eapply (SubInvH_frame2 w); [apply (ss_cfg _ _ _ St)|apply (ss_pubs _ _ _ St)|rewrite Hg2; reflexivity..| |now apply (iv_sub _ _ I)].
      intros p c0 Hc0 Hr0. rewrite Gc. destruct (Nat.eq_dec p q) as [->|Hne]; [|rewrite Hco by congruence; eauto].
      destruct Hrel as [[E _]|(c & c1 & b & Hc & Hc1 & Hr)]; [rewrite E; eauto|].
      exists c1. split; [exact Hc1|]. destruct (c_release_facts _ _ _ _ Hr) as (_ & -> & _). congruence.
    - intros y Hy. apply Hsub in Hy. rewrite (SubStep_salive _ _ _ _ St), (ss_pubs _ _ _ St). now apply (iv_samp_alive _ _ I).
    - intros y Hy Hp. apply Hsub in Hy. apply (SubStep_pact _ _ _ _ St) in Hp. rewrite Hg2. now apply (iv_samp_store _ _ I).
    - split.
      + change (w_samples w2) with (l1 ++ l2). rewrite El, map_app in Nd. cbn [map] in Nd. apply NoDup_remove_1 in Nd. now rewrite map_app.
      + intros y Hy. apply Hsub in Hy. change (w_nsample w2) with (w_nsample w1). rewrite E2. now apply Lt.
    - intros y Hy Hp Hs. apply Hsub in Hy. apply (SubStep_pact _ _ _ _ St) in Hp. apply (SubStep_sact _ _ _ _ St) in Hs.
      rewrite Gp. now apply (iv_cover _ _ I).
    - intros p c0 Hc0. rewrite (ss_pubs _ _ _ St), (ss_len _ _ _ St). rewrite Gc in Hc0.
      destruct (Nat.eq_dec p q) as [->|Hne]; [|rewrite Hco in Hc0 by congruence; now apply (iv_conn_range _ _ I) in Hc0].
      destruct Hrel as [[E _]|(c & c1 & b & Hc & Hc1 & Hr)]; [rewrite E in Hc0|]; eapply (iv_conn_range _ _ I); eauto.
    - intros p c0 Hc0. rewrite Hg2. rewrite Gc in Hc0.
      destruct (Nat.eq_dec p q) as [->|Hne]; [|rewrite Hco in Hc0 by congruence; now apply (iv_conn_B _ _ I) in Hc0].
      destruct Hrel as [[E _]|(c & c1 & b & Hc & Hc1 & Hr)]; [rewrite E in Hc0; now apply (iv_conn_B _ _ I) in Hc0|].
      rewrite Hc1 in Hc0. inversion Hc0; subst c0. destruct (c_release_facts _ _ _ _ Hr) as (_ & _ & -> & _). now apply (iv_conn_B _ _ I) in Hc.
    - intros p c0 Hp Hc0 Hs0. apply (SubStep_pact _ _ _ _ St) in Hp. rewrite Gp. rewrite Gc in Hc0.
      destruct (Nat.eq_dec p q) as [->|Hne]; [|rewrite Hco in Hc0 by congruence; eapply (iv_snd_tab _ _ I); eauto].
      destruct Hrel as [[E _]|(c & c1 & b & Hc & Hc1 & Hr)]; [rewrite E in Hc0; eapply (iv_snd_tab _ _ I); eauto|].
      rewrite Hc1 in Hc0. inversion Hc0; subst c0. destruct (c_release_facts _ _ _ _ Hr) as (E & _). eapply (iv_snd_tab _ _ I); eauto; congruence.
    - intros p c0 Hp Hs Hc0 Hf. apply (SubStep_pact _ _ _ _ St) in Hp. apply (SubStep_sact _ _ _ _ St) in Hs.
      rewrite Gp, Hg2, (ss_cfg _ _ _ St). rewrite Gc in Hc0.
      destruct (Nat.eq_dec p q) as [->|Hne]; [|rewrite Hco in Hc0 by congruence; rewrite Gbo by congruence; eapply (iv_fresh _ _ I); eauto].
      exfalso. destruct Hrel as [[_ Hnp]|(c & c1 & b & Hc & Hc1 & Hr)]; [contradiction|].
      rewrite Hc1 in Hc0. inversion Hc0; subst c0. destruct (c_release_facts _ _ _ _ Hr) as (E & _).
      destruct (iv_fresh _ _ I q s c Hp Hs Hc) as (_ & _ & _ & Hb & _); [congruence|].
      destruct Gbs as [Hl _]. rewrite Hb in Hl. discriminate. }
  eapply SubOK_ext; [apply (fupd_id (fun _ => None) s)|]. apply SubOK_intro; auto.
  - intros p t. unfold phi. rewrite Gc.
    destruct (Nat.eq_dec p q) as [->|Hp]; [destruct (Nat.eq_dec t s) as [->|Ht]|].
    + destruct Gbs as [Hl _].
      destruct Hrel as [[E _]|(c & c1 & b & Hc & Hc1 & Hr)].
      * rewrite E. destruct (getc w q s); lia.
      * rewrite Hc1, Hc. destruct (c_release_facts _ _ _ _ Hr) as (_ & _ & _ & -> & Hcm). lia.
    + rewrite Hco, Gbo by congruence. lia.
    + rewrite Hco, Gbo by congruence. lia.
  - intros T. unfold TbrOk. rewrite Hg2. exact T.
Qed.

Lemma SubOK_SubOK' s w w2 w' : SubOK (fun _ => None) s w w2 -> SubOK' s w2 w' -> SubOK' s w w'.
Proof.
  intros (A & St & P & T) (A' & P' & B1 & B2 & B3 & B4 & B5 & B6 & B7 & B8 & B9 & B10 & B11 & B12 & B13 & B14 & B15).
  unfold SubOK'. splits; auto.
  - eapply PhiLe_trans; eauto.
  - rewrite B1. apply (ss_cfg _ _ _ St).
  - rewrite B2. apply (ss_sreg _ _ _ St).
  - rewrite B3. apply (ss_preg _ _ _ St).
  - rewrite B4. apply (ss_pubs _ _ _ St).
  - rewrite B5. apply (ss_loans _ _ _ St).
  - rewrite B6. apply (ss_nloan _ _ _ St).
  - rewrite B7. apply (ss_len _ _ _ St).
  - intros t Ht. rewrite B8 by exact Ht. now apply (ss_other _ _ _ St).
  - rewrite B9. apply (ss_active _ _ _ St).
  - rewrite B10. apply (ss_slot _ _ _ St).
  - rewrite B11. apply (ss_buf _ _ _ St).
  - rewrite B12. apply (ss_hreq _ _ _ St).
  - intros q t Ht. rewrite B13 by exact Ht. now apply (ss_conn_other _ _ _ St).
  - intros Hal. apply (SubStep_salive _ _ _ _ St). auto.
Qed.

Lemma sample_drop_ok w x w' :
  Inv w -> In x (w_samples w) -> sample_drop w x = Val w' -> SubOK' (x_sub x) w w'.
Proof.
  intros I Hx Hv. unfold sample_drop in Hv. cbn zeta in Hv.
  set (s := x_sub x) in *. set (q := x_origin x) in *.
  match type of Hv with rbind ?m _ = _ => destruct m as [w1|] eqn:Em end; [|discriminate].
  cbn [rbind] in Hv. inversion Hv; subst w'. clear Hv.
  assert (Ha : salive w s) by (apply (iv_samp_alive _ _ I x Hx)).
  pose proof (iv_sub _ _ I s Ha) as SV. cbn beta in SV.
  assert (Hcase : (w1 = w /\ ~ pact w q)
                  \/ exists c c1 b, getc w q s = Some c /\ c_release c (x_off x) = Val (c1, b) /\ c_rcv c = true /\ w1 = setc w q s c1).
  { assert (Hact : pact w q -> exists e c, nth (x_key x) (s_store (gets w s)) None = Some e /\ se_pub e = q
                                        /\ getc w q s = Some c /\ c_rcv c = true).
    { intros Hp. destruct (iv_samp_store _ _ I x Hx Hp) as [e [A B]]. destruct (sv_conn _ _ _ SV _ _ A) as [_ [c [C D]]].
      exists e, c. fold q in B. rewrite B in C. auto. }
    destruct (nth (x_key x) (s_store (gets w s)) None) as [e|] eqn:Ee.
    2:{ inversion Em; subst w1. left. split; [reflexivity|]. intros Hp. destruct (Hact Hp) as (e & c & A & _). discriminate. }
    destruct (Nat.eqb_spec (se_pub e) q) as [Eq|Eq]; cbn [negb] in Em.
    2:{ inversion Em; subst w1. left. split; [reflexivity|]. intros Hp. destruct (Hact Hp) as (e0 & c & A & B & _). congruence. }
    rewrite Eq in Em. destruct (sv_conn _ _ _ SV _ _ Ee) as [_ [c [C D]]]. rewrite Eq in C. rewrite C in Em.
    destruct (c_release c (x_off x)) as [[c1 b]|] eqn:Hr; [|discriminate]. cbn [rbind fst] in Em. inversion Em; subst w1.
    right. exists c, c1, b. auto. }
  assert (O : SubOK (fun _ => None) s w
                    (w_set_samples w1 (filter (fun y => negb (Nat.eqb (x_id y) (x_id x))) (w_samples w1)) (w_nsample w1))).
  { destruct Hcase as [[-> Hnp]|(c & c1 & b & Hc & Hr & Hrc & ->)].
    - apply (drop_core_ok w w x I Hx (SubStep_refl _ _) eq_refl eq_refl (fun t => eq_refl) (fun p t _ => eq_refl)).
      left. split; [reflexivity|exact Hnp].
    - apply (drop_core_ok w (setc w q s c1) x I Hx (SubStep_setc _ _ _ _) (samples_setc _ _ _ _) (nsample_setc _ _ _ _)
                          (fun t => gets_setc _ _ _ _ t)).
      + intros p t Hne. apply getc_setc_ne. intros E. apply Hne. symmetry. exact E.
      + right. exists c, c1, b. split; [exact Hc|]. split; [|exact Hr]. fold q s. rewrite getc_setc_eq.
        destruct (c_release_facts _ _ _ _ Hr) as (_ & -> & _). now rewrite Hrc, Bool.orb_true_r. }
  eapply SubOK_SubOK'; [exact O|]. apply sub_maybe_drop_state_ok. apply O.
Qed.
