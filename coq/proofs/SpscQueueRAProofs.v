From V Require Import model.Base model.Conc model.Events model.SpscQueueRA proofs.ModArith proofs.ListLemmas.
From Coq Require Import ZifyBool ZifyNat ZifyN.
Open Scope N_scope.

Definition GInv (g : rgst) : Prop :=
  0 < rcap g /\ rrp g <= rwp g /\ rwp g <= rrp g + rcap g /\ lenN (rslots g) = rcap g /\
  race g = false /\ rpushed g = rpopped g ++ rcontent g.

(* producer (thread 0) under the code's ordering table: acquired view = last value read *)
Definition PInv (g : rgst) (l : rlst) : Prop :=
  acq l = seen l /\ seen l <= rrp g /\ rwp g <= seen l + rcap g /\
  match rat l with
  | RIdle => True
  | RPushLoadRp v w => w = rwp g
  | RPushWrite v w => w = rwp g /\ w < seen l + rcap g
  | RPushStore v w => w = rwp g /\ w < seen l + rcap g /\ nthN (rslots g) (w mod rcap g) 0 = v
  | _ => False
  end.

Definition CInv (g : rgst) (l : rlst) : Prop :=
  acq l = seen l /\ seen l <= rwp g /\ rrp g <= seen l /\
  match rat l with
  | RIdle => True
  | RPopLoadWp r => r = rrp g
  | RPopRead r => r = rrp g /\ r < seen l
  | RPopStore r v => r = rrp g /\ r < seen l /\ nthN (rslots g) (r mod rcap g) 0 = v
  | _ => False
  end.

Definition Inv (c : cfg rgst rlst) : Prop :=
  GInv (fst c) /\ PInv (fst c) (snd c 0%nat) /\ CInv (fst c) (snd c 1%nat) /\
  (forall t, (2 <= t)%nat -> rat (snd c t) = RIdle /\ rprog (snd c t) = []).

Lemma rcontent_from_snoc sl c pos n :
  rcontent_from sl c pos (S n) = rcontent_from sl c pos n ++ [nthN sl ((pos + N.of_nat n) mod c) 0].
Proof.
  revert pos; induction n as [|n IH]; intros pos.
  - cbn. now rewrite N.add_0_r.
  - change (rcontent_from sl c pos (S (S n))) with (nthN sl (pos mod c) 0 :: rcontent_from sl c (pos + 1) (S n)).
    rewrite IH. cbn [rcontent_from app].
    replace (pos + 1 + N.of_nat n) with (pos + N.of_nat (S n)) by lia. reflexivity.
Qed.

Lemma rcontent_from_upd_other sl c pos n i v :
  (forall k, (k < n)%nat -> (pos + N.of_nat k) mod c <> i) ->
  rcontent_from (updN sl i v) c pos n = rcontent_from sl c pos n.
Proof.
  revert pos; induction n as [|n IH]; intros pos H; cbn [rcontent_from]; auto.
  f_equal.
  - apply nthN_updN_other. specialize (H O). rewrite N.add_0_r in H. intro E; apply H; [lia|auto].
  - apply IH. intros k Hk. specialize (H (S k)).
    replace (pos + 1 + N.of_nat k) with (pos + N.of_nat (S k)) by lia. apply H; lia.
Qed.

Lemma rcontent_length g : length (rcontent g) = N.to_nat (rwp g - rrp g).
Proof.
  unfold rcontent. generalize (rrp g) at 1. generalize (N.to_nat (rwp g - rrp g)).
  induction n as [|n IH]; intros; cbn; auto.
Qed.

Lemma stale_bounds cur lo k : lo <= cur -> lo <= stale cur lo k /\ stale cur lo k <= cur.
Proof. unfold stale. intros. lia. Qed.

Lemma inv_init c orc pushes pops : 0 < c -> Inv (rinit c orc pushes pops).
Proof.
  intros Hc. unfold Inv, rinit; cbn [fst snd]. split; [|split; [|split]].
  - unfold GInv, rg_init, rcontent; cbn. rewrite lenN_repeat. repeat split; auto; lia.
  - unfold PInv, rl_init; cbn. repeat split; auto; lia.
  - unfold CInv, rl_init; cbn. repeat split; auto; lia.
  - intros [|[|t]] Ht; try lia. cbn. auto.
Qed.

Ltac fld := cbn [rcap rwp rrp rslots oracle race rpushed rpopped rprog rat seen acq set_r] in *.

(* which thread can be at which pc *)
Lemma pc_owner g ls t :
  PInv g (ls 0%nat) -> CInv g (ls 1%nat) ->
  (forall u, (2 <= u)%nat -> rat (ls u) = RIdle /\ rprog (ls u) = []) ->
  match rat (ls t) with
  | RIdle => True
  | RPushLoadRp _ _ | RPushWrite _ _ | RPushStore _ _ => t = 0%nat
  | _ => t = 1%nat
  end.
Proof.
  intros HP HC HO. destruct t as [|[|t]].
  - destruct HP as (_ & _ & _ & D). destruct (rat (ls 0%nat)); auto; contradiction.
  - destruct HC as (_ & _ & _ & D). destruct (rat (ls 1%nat)); auto; contradiction.
  - destruct (HO (S (S t)) ltac:(lia)) as (E & _). rewrite E. exact I.
Qed.

Lemma others_kept (ls : nat -> rlst) t l' :
  (t < 2)%nat ->
  (forall u, (2 <= u)%nat -> rat (ls u) = RIdle /\ rprog (ls u) = []) ->
  forall u, (2 <= u)%nat -> rat (upd_l ls t l' u) = RIdle /\ rprog (upd_l ls t l' u) = [].
Proof. intros Ht H u Hu. rewrite upd_l_other by lia. auto. Qed.

Theorem rstep_inv t c c' e :
  Inv c -> step1 (rstep ords_code) t c = Some (c', e) -> Inv c'.
Proof.
  destruct c as [g ls]. intros (HG & HP & HC & HO) Hs. unfold step1 in Hs. cbn [fst snd] in *.
  destruct (rstep ords_code t g (ls t)) as [[[g' l'] e']|] eqn:Est; [|discriminate].
  inversion Hs; subst c' e; clear Hs. unfold Inv; cbn [fst snd].
  pose proof HG as (Hcap & Hrw & Hwr & Hlen & Hrace & Hcons).
  pose proof (pc_owner g ls t HP HC HO) as Hown.
  unfold rstep in Est.
  destruct (rat (ls t)) as [|v w|v w|v w|r|r|r v] eqn:Epc.
  - (* Idle: start of an operation *)
    destruct (rprog (ls t)) as [|o p] eqn:Eprog; [discriminate|].
    destruct o as [v|]; destruct t as [|[|t]]; try discriminate; inversion Est; subst; clear Est.
    + rewrite upd_l_same. rewrite upd_l_other by discriminate. split; [exact HG|]. split; [|split; [exact HC|]].
      * destruct HP as (A & B & C & D). unfold PInv; fld. repeat split; auto.
      * apply others_kept; auto.
    + rewrite upd_l_same. rewrite upd_l_other by discriminate. split; [exact HG|]. split; [exact HP|split].
      * destruct HC as (A & B & C & D). unfold CInv; fld. repeat split; auto.
      * apply others_kept; auto.
  - (* PushLoadRp *)
    subst t. destruct HP as (A & B & C & D). rewrite Epc in D. subst w.
    rewrite upd_l_same. rewrite upd_l_other by discriminate.
    unfold next_choice in Est.
    set (kk := match oracle g with [] => 0 | k :: _ => k end).
    pose proof (stale_bounds (rrp g) (seen (ls 0%nat)) kk B) as (S1 & S2).
    assert (Est' : (if rwp g =? stale (rrp g) (seen (ls 0%nat)) kk + rcap g
                    then Some ({| rcap := rcap g; rwp := rwp g; rrp := rrp g; rslots := rslots g; oracle := tl (oracle g); race := race g; rpushed := rpushed g; rpopped := rpopped g |},
                               set_r (ls 0%nat) (rprog (ls 0%nat)) RIdle (stale (rrp g) (seen (ls 0%nat)) kk) (N.max (acq (ls 0%nat)) (stale (rrp g) (seen (ls 0%nat)) kk)), e')
                    else Some ({| rcap := rcap g; rwp := rwp g; rrp := rrp g; rslots := rslots g; oracle := tl (oracle g); race := race g; rpushed := rpushed g; rpopped := rpopped g |},
                               set_r (ls 0%nat) (rprog (ls 0%nat)) (RPushWrite v (rwp g)) (stale (rrp g) (seen (ls 0%nat)) kk) (N.max (acq (ls 0%nat)) (stale (rrp g) (seen (ls 0%nat)) kk)), e')) = Some (g', l', e')).
    { subst kk. destruct (oracle g) as [|k orc]; cbn [tl] in *;
      cbn [o_push_load_rp o_pop_store_rp ords_code is_acq is_rel andb] in Est;
      destruct (N.eqb _ _); inversion Est; subst; reflexivity. }
    clear Est.
    destruct (N.eqb_spec (rwp g) (stale (rrp g) (seen (ls 0%nat)) kk + rcap g)) as [Ef|Enf];
      inversion Est'; subst g' l'; clear Est'.
    all: refine (conj _ (conj _ (conj _ _))); try (apply others_kept; auto).
    all: try (unfold GInv, rcontent; fld; repeat split; auto; fail).
    all: try (destruct HC as (A' & B' & C' & D'); unfold CInv; fld; repeat split; auto; fail).
    all: unfold PInv; fld; repeat split; auto; try lia.
  - (* PushWrite *)
    subst t. destruct HP as (A & B & C & D). rewrite Epc in D. destruct D as (-> & Hlt).
    rewrite upd_l_same. rewrite upd_l_other by discriminate.
    assert (Hnr : negb (rwp g <? acq (ls 0%nat) + rcap g) = false).
    { rewrite A. destruct (N.ltb_spec (rwp g) (seen (ls 0%nat) + rcap g)); auto; lia. }
    rewrite Hnr, Hrace in Est. cbn [orb] in Est. inversion Est; subst g' l'; clear Est.
    refine (conj _ (conj _ (conj _ _))); try (apply others_kept; auto).
    + unfold GInv; fld. rewrite lenN_updN. repeat split; auto.
      rewrite Hcons. f_equal. unfold rcontent; fld. symmetry. apply rcontent_from_upd_other.
      intros k Hk.
      replace (rwp g) with ((rrp g + N.of_nat k) + (rwp g - rrp g - N.of_nat k)) at 1 by lia.
      intro Heq. symmetry in Heq. revert Heq. apply mod_add_neq; lia.
    + unfold PInv; fld. repeat split; auto.
      apply nthN_updN_same. rewrite Hlen. apply mod_lt'; auto.
    + destruct HC as (A' & B' & C' & D'). unfold CInv; fld. repeat split; auto.
      destruct (rat (ls 1%nat)) as [|v0 w0|v0 w0|v0 w0|r0|r0|r0 v0]; auto.
      destruct D' as (-> & Hlt' & Hv). repeat split; auto.
      rewrite nthN_updN_other; auto.
      replace (rwp g) with (rrp g + (rwp g - rrp g)) by lia. apply mod_add_neq; lia.
  - (* PushStore *)
    subst t. destruct HP as (A & B & C & D). rewrite Epc in D. destruct D as (-> & Hlt & Hv).
    rewrite upd_l_same. rewrite upd_l_other by discriminate.
    inversion Est; subst g' l'; clear Est.
    refine (conj _ (conj _ (conj _ _))); try (apply others_kept; auto).
    + unfold GInv; fld. repeat split; auto; try lia.
      rewrite Hcons, <- app_assoc. f_equal. unfold rcontent; fld.
      replace (N.to_nat (rwp g + 1 - rrp g)) with (S (N.to_nat (rwp g - rrp g))) by lia.
      rewrite rcontent_from_snoc. f_equal. f_equal. rewrite <- Hv. f_equal. f_equal. lia.
    + unfold PInv; fld. repeat split; auto; lia.
    + destruct HC as (A' & B' & C' & D'). unfold CInv; fld. repeat split; auto; try lia.
  - (* PopLoadWp *)
    subst t. destruct HC as (A & B & C & D). rewrite Epc in D. subst r.
    rewrite upd_l_same. rewrite upd_l_other by discriminate.
    unfold next_choice in Est.
    set (kk := match oracle g with [] => 0 | k :: _ => k end).
    pose proof (stale_bounds (rwp g) (seen (ls 1%nat)) kk B) as (S1 & S2).
    assert (Est' : (if rrp g =? stale (rwp g) (seen (ls 1%nat)) kk
                    then Some ({| rcap := rcap g; rwp := rwp g; rrp := rrp g; rslots := rslots g; oracle := tl (oracle g); race := race g; rpushed := rpushed g; rpopped := rpopped g |},
                               set_r (ls 1%nat) (rprog (ls 1%nat)) RIdle (stale (rwp g) (seen (ls 1%nat)) kk) (N.max (acq (ls 1%nat)) (stale (rwp g) (seen (ls 1%nat)) kk)), e')
                    else Some ({| rcap := rcap g; rwp := rwp g; rrp := rrp g; rslots := rslots g; oracle := tl (oracle g); race := race g; rpushed := rpushed g; rpopped := rpopped g |},
                               set_r (ls 1%nat) (rprog (ls 1%nat)) (RPopRead (rrp g)) (stale (rwp g) (seen (ls 1%nat)) kk) (N.max (acq (ls 1%nat)) (stale (rwp g) (seen (ls 1%nat)) kk)), e')) = Some (g', l', e')).
    { subst kk. destruct (oracle g) as [|k orc]; cbn [tl] in *;
      cbn [o_pop_load_wp o_push_store_wp ords_code is_acq is_rel andb] in Est;
      destruct (N.eqb _ _); inversion Est; subst; reflexivity. }
    clear Est.
    destruct (N.eqb_spec (rrp g) (stale (rwp g) (seen (ls 1%nat)) kk)) as [Ef|Enf];
      inversion Est'; subst g' l'; clear Est'.
    all: refine (conj _ (conj _ (conj _ _))); try (apply others_kept; auto).
    all: try (unfold GInv, rcontent; fld; repeat split; auto; fail).
    all: try (destruct HP as (A' & B' & C' & D'); unfold PInv; fld; repeat split; auto; fail).
    all: unfold CInv; fld; repeat split; auto; try lia.
  - (* PopRead *)
    subst t. destruct HC as (A & B & C & D). rewrite Epc in D. destruct D as (-> & Hlt).
    rewrite upd_l_same. rewrite upd_l_other by discriminate.
    assert (Hnr : negb (rrp g <? acq (ls 1%nat)) = false).
    { rewrite A. destruct (N.ltb_spec (rrp g) (seen (ls 1%nat))); auto; lia. }
    rewrite Hnr, Hrace in Est. cbn [orb] in Est. inversion Est; subst g' l'; clear Est.
    refine (conj _ (conj _ (conj _ _))); try (apply others_kept; auto).
    + unfold GInv, rcontent; fld. repeat split; auto.
    + destruct HP as (A' & B' & C' & D'). unfold PInv; fld. repeat split; auto.
    + unfold CInv; fld. repeat split; auto.
  - (* PopStore *)
    subst t. destruct HC as (A & B & C & D). rewrite Epc in D. destruct D as (-> & Hlt & Hv).
    rewrite upd_l_same. rewrite upd_l_other by discriminate.
    inversion Est; subst g' l'; clear Est.
    refine (conj _ (conj _ (conj _ _))); try (apply others_kept; auto).
    + unfold GInv; fld. repeat split; auto; try lia.
      rewrite Hcons, <- app_assoc. f_equal. unfold rcontent; fld.
      replace (N.to_nat (rwp g - rrp g)) with (S (N.to_nat (rwp g - (rrp g + 1)))) by lia.
      cbn [rcontent_from app]. rewrite Hv. reflexivity.
    + destruct HP as (A' & B' & C' & D'). unfold PInv; fld. repeat split; auto; try lia.
    + unfold CInv; fld. repeat split; auto; lia.
Qed.

(* ---------------- consequences ---------------- *)
Theorem ra_inv_reachable c orc pushes pops cfg0 :
  0 < c -> reachable (rstep ords_code) (rinit c orc pushes pops) cfg0 -> Inv cfg0.
Proof.
  intros Hc. apply (inv_reachable rgst rlst ev (rstep ords_code) Inv).
  - apply inv_init; auto.
  - intros t c0 c' e HI Hs. eapply rstep_inv; eauto.
Qed.

Lemma rstep_cap O t g l g' l' e : rstep O t g l = Some (g', l', e) -> rcap g' = rcap g.
Proof.
  unfold rstep, next_choice. intros H.
  repeat match type of H with
  | context [match ?x with _ => _ end] => destruct x
  | context [let '(_, _) := ?x in _] => destruct x
  end; inversion H; subst; reflexivity.
Qed.

Lemma ra_reachable_cap O c orc pushes pops cfg0 :
  reachable (rstep O) (rinit c orc pushes pops) cfg0 -> rcap (fst cfg0) = c.
Proof.
  apply (inv_reachable rgst rlst ev (rstep O) (fun c0 => rcap (fst c0) = c)); [reflexivity|].
  intros t [g ls] c' e Hcc Hs. unfold step1 in Hs. cbn [fst snd] in *.
  destruct (rstep O t g (ls t)) as [[[g' l'] e']|] eqn:Est; [|discriminate].
  inversion Hs; subst c' e. cbn [fst]. rewrite (rstep_cap _ _ _ _ _ _ _ Est). exact Hcc.
Qed.

(* With the memory orderings the code uses, under release/acquire semantics with arbitrarily
   stale cursor reads: no data race on any slot, and FIFO conservation, for every capacity
   >= 1, every schedule, every staleness oracle, any number of pushes and pops. *)
Theorem ra_race_free_and_conserving c orc pushes pops g ls :
  0 < c -> reachable (rstep ords_code) (rinit c orc pushes pops) (g, ls) ->
  race g = false /\ rpushed g = rpopped g ++ rcontent g /\ (length (rcontent g) <= N.to_nat c)%nat.
Proof.
  intros Hc Hr. pose proof (ra_inv_reachable c orc pushes pops (g, ls) Hc Hr) as (HG & _).
  pose proof (ra_reachable_cap ords_code c orc pushes pops (g, ls) Hr) as Ecap.
  cbn [fst] in *. destruct HG as (Hcap & Hrw & Hwr & Hlen & Hrace & Hcons).
  repeat split; auto. rewrite rcontent_length. lia.
Qed.

(* ---- each of the four synchronising orderings is needed: weakening it admits a racy
        execution (concrete schedule + oracle, checked by computation) ---- *)
Definition weaken_push_store : ords :=
  {| o_push_load_wp := Relaxed; o_push_load_rp := Acquire; o_push_store_wp := Relaxed;
     o_pop_load_rp := Relaxed; o_pop_load_wp := Acquire; o_pop_store_rp := Release |}.
Definition weaken_pop_load : ords :=
  {| o_push_load_wp := Relaxed; o_push_load_rp := Acquire; o_push_store_wp := Release;
     o_pop_load_rp := Relaxed; o_pop_load_wp := Relaxed; o_pop_store_rp := Release |}.
Definition weaken_pop_store : ords :=
  {| o_push_load_wp := Relaxed; o_push_load_rp := Acquire; o_push_store_wp := Release;
     o_pop_load_rp := Relaxed; o_pop_load_wp := Acquire; o_pop_store_rp := Relaxed |}.
Definition weaken_push_load : ords :=
  {| o_push_load_wp := Relaxed; o_push_load_rp := Relaxed; o_push_store_wp := Release;
     o_pop_load_rp := Relaxed; o_pop_load_wp := Acquire; o_pop_store_rp := Release |}.

Definition race_after (O : ords) (c : N) (pushes : list N) (pops : nat) (s : list nat) : bool :=
  race (fst (fst (run (rstep O) s (rinit c [] pushes pops)))).

(* push 7 completely, then pop: the consumer reads the slot without having acquired the write *)
Example ra_needs_release_on_write_cursor :
  race_after weaken_push_store 1 [7] 1 [0;0;0;0;1;1;1]%nat = true /\
  race_after weaken_pop_load 1 [7] 1 [0;0;0;0;1;1;1]%nat = true /\
  race_after ords_code 1 [7] 1 [0;0;0;0;1;1;1]%nat = false.
Proof. vm_compute. auto. Qed.

(* push 7, pop it, push 8 into the same slot: the producer overwrites the slot without having
   acquired the consumer's read of it *)
Example ra_needs_release_on_read_cursor :
  race_after weaken_pop_store 1 [7; 8] 1 [0;0;0;0;1;1;1;1;0;0;0]%nat = true /\
  race_after weaken_push_load 1 [7; 8] 1 [0;0;0;0;1;1;1;1;0;0;0]%nat = true /\
  race_after ords_code 1 [7; 8] 1 [0;0;0;0;1;1;1;1;0;0;0]%nat = false.
Proof. vm_compute. auto. Qed.

(* non-vacuity of the main theorem: a reachable state in which a stale read happened (the
   producer saw read_position = 0 although it was already 1, and reported "full") *)
Example ra_nonvacuous_stale_read :
  let c := fst (run (rstep ords_code) [0;0;0;0;1;1;1;1;0;0]%nat (rinit 1 [0; 0; 5] [7; 8] 1)) in
  rrp (fst c) = 1 /\ rat (snd c 0%nat) = RIdle /\ rpushed (fst c) = [7] /\ rpopped (fst c) = [7] /\ race (fst c) = false.
Proof. vm_compute. auto. Qed.
