(* slotmap.rs: invariant of the representation and refinement of the finite-map reference. *)
From V Require Import model.Base model.Obs model.RingQueue model.SlotMap proofs.ListLemmas proofs.RingQueueProofs.
From Coq Require Import ZifyBool ZifyNat ZifyN Permutation.
Open Scope N_scope.

(* ---------- accessors ---------- *)
Definition fl0 : fle := {| fprev := None; fnext := None |}.
Definition nthf (f : list fle) (k : N) : fle := nthN f k fl0.

Lemma geti_val {A} (l : list A) i d : i < lenN l -> geti l i = Val (nthN l i d).
Proof.
  unfold geti, lenN, nthN. intros H. rewrite (nth_error_nth' l d) by lia. reflexivity.
Qed.
Lemma geti_panic {A} (l : list A) i : lenN l <= i -> geti l i = Panic.
Proof.
  unfold geti, lenN. intros H. destruct (nth_error l (N.to_nat i)) eqn:E; [|reflexivity].
  exfalso. assert (nth_error l (N.to_nat i) <> None) by congruence. apply nth_error_Some in H0. lia.
Qed.
Lemma seti_val {A} (l : list A) i x : i < lenN l -> seti l i x = Val (updN l i x).
Proof. unfold seti. intros H. destruct (N.ltb_spec i (lenN l)); [reflexivity|lia]. Qed.

Lemma nthf_same f k e : k < lenN f -> nthf (updN f k e) k = e.
Proof. apply nthN_updN_same. Qed.
Lemma nthf_other f k j e : k <> j -> nthf (updN f k e) j = nthf f j.
Proof. apply nthN_updN_other. Qed.

(* ---------- the doubly linked free list as a path ---------- *)
Fixpoint path (f : list fle) (prev head : option N) (l : list N) : Prop :=
  match l with
  | [] => head = None
  | k :: r => head = Some k /\ fprev (nthf f k) = prev /\ path f (Some k) (fnext (nthf f k)) r
  end.

Lemma path_ext f f' l : forall prev head,
  (forall k, In k l -> nthf f' k = nthf f k) -> path f prev head l -> path f' prev head l.
Proof.
  induction l as [|a l IH]; intros prev head H P; cbn in *; auto.
  destruct P as (H1 & H2 & H3). rewrite (H a) by auto. repeat split; auto.
Qed.

Lemma path_head f prev head l : path f prev head l -> head = hd_error l.
Proof. destruct l; cbn; [auto|]. intros (H & _). exact H. Qed.

Definition lastopt (prev : option N) (l : list N) : option N :=
  match rev l with [] => prev | x :: _ => Some x end.

Lemma lastopt_cons prev a l : lastopt prev (a :: l) = lastopt (Some a) l.
Proof.
  unfold lastopt. cbn [rev]. destruct (rev l) as [|x r] eqn:E; cbn; reflexivity.
Qed.

(* the entry of an inner element k: its previous is the element before it, its next the one after *)
Lemma path_mid f l1 : forall prev head k l2, path f prev head (l1 ++ k :: l2) ->
  fprev (nthf f k) = lastopt prev l1 /\ fnext (nthf f k) = hd_error l2 /\ path f (Some k) (fnext (nthf f k)) l2.
Proof.
  induction l1 as [|a l1 IH]; intros prev head k l2 P; cbn [app] in P.
  - cbn in P. destruct P as (_ & H2 & H3). repeat split; auto. apply path_head in H3. exact H3.
  - cbn [path] in P. destruct P as (_ & _ & H3). rewrite lastopt_cons. apply (IH _ _ _ _ H3).
Qed.

(* unlinking k (claim_index): the three writes, as a function of the old table *)
Definition unlink (f : list fle) (k : N) : list fle :=
  let e := nthf f k in
  let f1 := match fprev e with Some p => updN f p {| fprev := fprev (nthf f p); fnext := fnext e |} | None => f end in
  let f2 := match fnext e with Some n => updN f1 n {| fprev := fprev e; fnext := fnext (nthf f1 n) |} | None => f1 end in
  updN f2 k fl0.

Lemma lenN_unlink f k : lenN (unlink f k) = lenN f.
Proof.
  unfold unlink. rewrite lenN_updN. destruct (fnext (nthf f k)); destruct (fprev (nthf f k)); rewrite ?lenN_updN; reflexivity.
Qed.

Definition outside (p : option N) (l : list N) : Prop := forall x, p = Some x -> ~ In x l.
Definition bounded (c : N) (l : list N) : Prop := forall x, In x l -> x < c.

(* entries that are neither k nor its two neighbours are untouched *)
Lemma unlink_other f k j : j <> k -> fprev (nthf f k) <> Some j -> fnext (nthf f k) <> Some j ->
  nthf (unlink f k) j = nthf f j.
Proof.
  intros H1 H2 H3. unfold unlink. rewrite nthf_other by auto.
  destruct (fnext (nthf f k)) as [n|]; [rewrite nthf_other by congruence|];
    (destruct (fprev (nthf f k)) as [p|]; [rewrite nthf_other by congruence|]); reflexivity.
Qed.

Lemma unlink_path f k l2 c : forall l1 prev head,
  lenN f = c -> bounded c (l1 ++ k :: l2) -> NoDup (l1 ++ k :: l2) -> outside prev (l1 ++ k :: l2) ->
  (forall x, prev = Some x -> x < c) ->
  path f prev head (l1 ++ k :: l2) ->
  path (unlink f k) prev (match l1 with [] => fnext (nthf f k) | _ => head end) (l1 ++ l2).
Proof.
  induction l1 as [|a l1 IH]; intros prev head Hlen Hb Hnd Hout Hpb P.
  - (* k is the first element of this segment *)
    cbn [app] in *. cbn [path] in P. destruct P as (Hh & Hp & P2).
    destruct l2 as [|n r]; cbn [path] in *; [exact P2|].
    destruct P2 as (Hn & Hnp & P3).
    assert (Hkn : n <> k) by (inversion Hnd; subst; cbn in *; intuition congruence).
    assert (Hnb : n < c) by (apply Hb; cbn; auto).
    assert (Hkb : k < c) by (apply Hb; cbn; auto).
    assert (En : nthf (unlink f k) n = {| fprev := prev; fnext := fnext (nthf f n) |}).
    { unfold unlink. rewrite Hn, Hp. rewrite nthf_other by auto.
      destruct prev as [p|].
      - assert (p <> n) by (intro; subst; apply (Hout n eq_refl); cbn; auto).
        rewrite nthf_same by (rewrite lenN_updN; lia). rewrite nthf_other by auto. reflexivity.
      - rewrite nthf_same by lia. reflexivity. }
    rewrite En. cbn [fprev fnext]. repeat split; auto.
    apply path_ext with (f := f); [|exact P3].
    intros j Hj. apply unlink_other.
    + intro; subst. inversion Hnd; subst. cbn in *. intuition.
    + rewrite Hp. intros E. apply (Hout j E). cbn; auto.
    + rewrite Hn. intros E. inversion E; subst. inversion Hnd as [|? ? _ Hnd2]; subst. inversion Hnd2; subst. intuition.
  - (* a precedes k *)
    cbn [app] in *. cbn [path] in P. destruct P as (Hh & Hp & P2). cbn [path].
    assert (Hak : a <> k) by (inversion Hnd; subst; rewrite in_app_iff in *; cbn in *; intuition congruence).
    assert (Hab : a < c) by (apply Hb; cbn; auto).
    assert (Hnd' : NoDup (l1 ++ k :: l2)) by (inversion Hnd; auto).
    assert (Ha_out : ~ In a (l1 ++ k :: l2)) by (inversion Hnd; auto).
    destruct (path_mid f l1 (Some a) _ k l2 P2) as (Mp & Mn & _).
    (* the entry of a after unlinking *)
    assert (Ea : fprev (nthf (unlink f k) a) = prev /\
                 fnext (nthf (unlink f k) a) = match l1 with [] => fnext (nthf f k) | _ => fnext (nthf f a) end).
    { unfold unlink. rewrite nthf_other by auto.
      assert (Hna : fnext (nthf f k) <> Some a).
      { rewrite Mn. destruct l2 as [|n r]; cbn; [discriminate|]. intros E; inversion E; subst.
        apply Ha_out. rewrite in_app_iff. cbn. auto. }
      destruct l1 as [|b l1].
      - (* a is the predecessor of k *)
        cbn [lastopt rev] in Mp. rewrite Mp.
        destruct (fnext (nthf f k)) as [n|].
        + rewrite nthf_other by congruence. rewrite nthf_same by lia. cbn. auto.
        + rewrite nthf_same by lia. cbn. auto.
      - assert (Hpa : fprev (nthf f k) <> Some a).
        { rewrite Mp. rewrite lastopt_cons. unfold lastopt.
          destruct (rev l1) as [|x r] eqn:E.
          - intros E2; inversion E2; subst. apply Ha_out. cbn. auto.
          - intros E2; inversion E2; subst. apply Ha_out. cbn. right. rewrite in_app_iff. left.
            apply in_rev. rewrite E. cbn; auto. }
        destruct (fnext (nthf f k)) as [n|]; [rewrite nthf_other by congruence|];
          (destruct (fprev (nthf f k)) as [p|]; [rewrite nthf_other by congruence|]); auto. }
    destruct Ea as (Ea1 & Ea2). repeat split; auto.
    rewrite Ea2.
    assert (IHa := IH (Some a) (fnext (nthf f a)) Hlen (fun x H => Hb x (or_intror H)) Hnd'
                      (fun x E => ltac:(inversion E; subst; exact Ha_out))
                      (fun x E => ltac:(inversion E; subst; exact Hab)) P2).
    destruct l1; exact IHa.
Qed.

(* ---------- acquire (pop the head) and release (push at the head) on the table ---------- *)
Definition acquire_f (f : list fle) (k : N) : list fle :=
  let f1 := match fnext (nthf f k) with
            | Some n => updN f n {| fprev := None; fnext := fnext (nthf f n) |}
            | None => f end in
  updN f1 k {| fprev := fprev (nthf f1 k); fnext := None |}.

Definition release_f (f : list fle) (h : option N) (k : N) : list fle :=
  let f1 := match h with
            | Some hd => updN f hd {| fprev := Some k; fnext := fnext (nthf f hd) |}
            | None => f end in
  updN f1 k {| fprev := None; fnext := h |}.

Lemma lenN_acquire_f f k : lenN (acquire_f f k) = lenN f.
Proof. unfold acquire_f. rewrite lenN_updN. destruct (fnext (nthf f k)); rewrite ?lenN_updN; reflexivity. Qed.
Lemma lenN_release_f f h k : lenN (release_f f h k) = lenN f.
Proof. unfold release_f. rewrite lenN_updN. destruct h; rewrite ?lenN_updN; reflexivity. Qed.

Lemma acquire_path f k r c head :
  lenN f = c -> bounded c (k :: r) -> NoDup (k :: r) -> path f None head (k :: r) ->
  path (acquire_f f k) None (fnext (nthf f k)) r /\ nthf (acquire_f f k) k = fl0 /\
  (forall j, ~ In j (k :: r) -> nthf (acquire_f f k) j = nthf f j).
Proof.
  intros Hlen Hb Hnd P. cbn [path] in P. destruct P as (Hh & Hp & P2).
  assert (Hkb : k < c) by (apply Hb; cbn; auto).
  destruct r as [|n r].
  - cbn [path] in P2. unfold acquire_f. rewrite P2. split; [reflexivity|]. split.
    + rewrite nthf_same by lia. rewrite Hp. reflexivity.
    + intros j Hj. rewrite nthf_other; [reflexivity|]. intro; subst; apply Hj; cbn; auto.
  - cbn [path] in P2. destruct P2 as (Hn & Hnp & P3).
    assert (Hkn : n <> k) by (inversion Hnd; subst; cbn in *; intuition congruence).
    assert (Hnb : n < c) by (apply Hb; cbn; auto).
    unfold acquire_f. rewrite Hn. rewrite (nthf_other f n k) by auto. rewrite Hp.
    split; [|split].
    + cbn [path]. rewrite nthf_other by auto. rewrite nthf_same by lia. cbn [fprev fnext].
      repeat split; auto. apply path_ext with (f := f); [|exact P3].
      intros j Hj. rewrite !nthf_other; auto.
      * intro; subst. inversion Hnd as [|? ? _ Hnd2]; subst. inversion Hnd2; subst. intuition.
      * intro; subst. inversion Hnd; subst. cbn in *. intuition.
    + rewrite nthf_same by (rewrite lenN_updN; lia). reflexivity.
    + intros j Hj. rewrite !nthf_other; auto; intro; subst; apply Hj; cbn; auto.
Qed.

Lemma release_path f k l c head :
  lenN f = c -> bounded c l -> NoDup l -> k < c -> ~ In k l -> path f None head l ->
  path (release_f f head k) None (Some k) (k :: l) /\
  (forall j, j <> k -> ~ In j l -> nthf (release_f f head k) j = nthf f j).
Proof.
  intros Hlen Hb Hnd Hkb Hk P. unfold release_f. split.
  - cbn [path]. rewrite nthf_same by (destruct head; rewrite ?lenN_updN; lia). cbn [fprev fnext].
    repeat split; auto.
    destruct l as [|h r]; cbn [path] in *; [exact P|].
    destruct P as (Hh & Hp & P2). subst head.
    assert (Hhk : h <> k) by (intro; subst; apply Hk; cbn; auto).
    assert (Hhb : h < c) by (apply Hb; cbn; auto).
    rewrite nthf_other by auto. rewrite nthf_same by lia. cbn [fprev fnext]. repeat split; auto.
    apply path_ext with (f := f); [|exact P2].
    intros j Hj. rewrite !nthf_other; auto.
    all: intro; subst; solve [apply Hk; cbn; auto | inversion Hnd; subst; auto].
  - intros j Hjk Hj. rewrite nthf_other by auto.
    destruct head as [h|]; [|reflexivity]. rewrite nthf_other; [reflexivity|].
    intro; subst. apply path_head in P. destruct l; cbn in P; [discriminate|]. inversion P; subst. apply Hj; cbn; auto.
Qed.

(* ---------- the key side of the invariant ---------- *)
Definition geto (i : list (option N)) (k : N) : option N := nthN i k None.

Lemma geto_upd_same i k x : k < lenN i -> geto (updN i k x) k = x.
Proof. apply nthN_updN_same. Qed.
Lemma geto_upd_other i k j x : k <> j -> geto (updN i k x) j = geto i j.
Proof. apply nthN_updN_other. Qed.

(* the free list from the head is a duplicate-free doubly linked path over exactly the keys
   whose idx_to_data entry is INVALID; occupied keys have both links INVALID *)
Definition KI (c : N) (i : list (option N)) (f : list fle) (h : option N) (l : list N) : Prop :=
  lenN i = c /\ lenN f = c /\ path f None h l /\ NoDup l /\
  (forall k, In k l <-> (k < c /\ geto i k = None)) /\
  (forall k, k < c -> geto i k <> None -> nthf f k = fl0).

Lemma KI_bounded c i f h l : KI c i f h l -> bounded c l.
Proof. intros (_ & _ & _ & _ & M & _) x Hx. apply M in Hx. tauto. Qed.

Ltac ki_split := refine (conj _ (conj _ (conj _ (conj _ (conj _ _))))).

Lemma KI_acquire c i f h k r d :
  KI c i f h (k :: r) -> KI c (updN i k (Some d)) (acquire_f f k) (fnext (nthf f k)) r.
Proof.
  intros K. pose proof (KI_bounded _ _ _ _ _ K) as Hb. destruct K as (Li & Lf & P & Nd & M & Oc).
  destruct (acquire_path f k r c h Lf Hb Nd P) as (P' & E & O).
  assert (Hkb : k < c) by (apply Hb; cbn; auto).
  ki_split.
  - now rewrite lenN_updN.
  - now rewrite lenN_acquire_f.
  - exact P'.
  - inversion Nd; auto.
  - intros j; split.
    + intros Hj. assert (j <> k) by (intro; subst; inversion Nd; auto).
      rewrite geto_upd_other by auto. apply (M j). cbn; auto.
    + intros (Hlt & Hg). destruct (N.eq_dec j k) as [->|Hne].
      * rewrite geto_upd_same in Hg by lia. discriminate.
      * rewrite geto_upd_other in Hg by auto. destruct (proj2 (M j) (conj Hlt Hg)); [congruence|auto].
  - intros j Hj Hg. destruct (N.eq_dec j k) as [->|Hne]; [exact E|].
    rewrite geto_upd_other in Hg by auto. rewrite O; [apply Oc; auto|].
    intro Hin. apply M in Hin. tauto.
Qed.

Lemma filter_id_notin (k : N) (l : list N) : ~ In k l -> filter (fun x => negb (N.eqb x k)) l = l.
Proof.
  induction l as [|a l IH]; intros H; cbn; [reflexivity|].
  destruct (N.eqb_spec a k) as [->|Hne]; cbn; [exfalso; apply H; cbn; auto|].
  f_equal. apply IH. intro; apply H; cbn; auto.
Qed.

Lemma remove_key_split k l1 l2 : NoDup (l1 ++ k :: l2) -> remove_key k (l1 ++ k :: l2) = l1 ++ l2.
Proof.
  intros Nd. unfold remove_key. rewrite filter_app. cbn [filter]. rewrite N.eqb_refl. cbn [negb].
  apply NoDup_remove_2 in Nd. rewrite in_app_iff in Nd.
  rewrite !filter_id_notin; tauto.
Qed.

Lemma lastopt_in l : forall prev x, lastopt prev l = Some x -> prev = Some x \/ In x l.
Proof.
  induction l as [|a l IH]; intros prev x H; [left; exact H|].
  rewrite lastopt_cons in H. apply IH in H. destruct H as [H|H]; [inversion H; subst; right; cbn; auto|right; cbn; auto].
Qed.

Definition claim_head (h : option N) (k : N) (nx : option N) : option N :=
  match h with Some hd => if N.eqb hd k then nx else h | None => h end.

Lemma KI_unlink_free c i f h l k d :
  KI c i f h l -> In k l ->
  KI c (updN i k (Some d)) (unlink f k) (claim_head h k (fnext (nthf f k))) (remove_key k l).
Proof.
  intros K Hin. pose proof (KI_bounded _ _ _ _ _ K) as Hb. destruct K as (Li & Lf & P & Nd & M & Oc).
  destruct (in_split _ _ Hin) as (l1 & l2 & ->).
  rewrite remove_key_split by auto.
  assert (Hkb : k < c) by (apply Hb; rewrite in_app_iff; cbn; auto).
  pose proof (unlink_path f k l2 c l1 None h Lf Hb Nd (fun x E => ltac:(discriminate)) (fun x E => ltac:(discriminate)) P) as P'.
  destruct (path_mid f l1 None h k l2 P) as (Mp & Mn & _).
  assert (Hh : claim_head h k (fnext (nthf f k)) = match l1 with [] => fnext (nthf f k) | _ :: _ => h end).
  { apply path_head in P. destruct l1 as [|a l1]; cbn in P; subst h; unfold claim_head.
    - now rewrite N.eqb_refl.
    - destruct (N.eqb_spec a k) as [->|]; [|reflexivity]. exfalso. inversion Nd; subst.
      apply H1. rewrite in_app_iff. cbn; auto. }
  rewrite Hh.
  assert (Nd' : NoDup (l1 ++ l2)) by (eapply NoDup_remove_1; eauto).
  assert (Hk' : ~ In k (l1 ++ l2)) by (eapply NoDup_remove_2; eauto).
  ki_split.
  - now rewrite lenN_updN.
  - now rewrite lenN_unlink.
  - exact P'.
  - exact Nd'.
  - intros j; split.
    + intros Hj. assert (j <> k) by (intro; subst; auto). rewrite geto_upd_other by auto.
      assert (HI : In j (l1 ++ k :: l2)) by (rewrite in_app_iff in *; cbn; tauto). apply M in HI. tauto.
    + intros (Hlt & Hg). destruct (N.eq_dec j k) as [->|Hne].
      * rewrite geto_upd_same in Hg by lia. discriminate.
      * rewrite geto_upd_other in Hg by auto. pose proof (proj2 (M j) (conj Hlt Hg)) as HI.
        rewrite in_app_iff in *. cbn in HI. intuition congruence.
  - intros j Hj Hg. destruct (N.eq_dec j k) as [->|Hne].
    + unfold unlink. apply nthf_same.
      destruct (fnext (nthf f k)); destruct (fprev (nthf f k)); rewrite ?lenN_updN; lia.
    + rewrite geto_upd_other in Hg by auto.
      assert (Hjl : ~ In j (l1 ++ k :: l2)) by (intro HI; apply M in HI; tauto).
      rewrite unlink_other; auto.
      * rewrite Mp. intros E. apply lastopt_in in E. destruct E as [E|E]; [discriminate|].
        apply Hjl. rewrite in_app_iff. auto.
      * rewrite Mn. destruct l2 as [|n r]; cbn; [discriminate|]. intros E; inversion E; subst.
        apply Hjl. rewrite in_app_iff. cbn. auto.
Qed.

Lemma unlink_occ f k : nthf f k = fl0 -> forall j, nthf (unlink f k) j = nthf f j.
Proof.
  intros E j. unfold unlink. rewrite E. cbn [fprev fnext fl0].
  destruct (N.eq_dec k j) as [->|Hne].
  - destruct (N.ltb_spec j (lenN f)).
    + rewrite nthf_same by auto. auto.
    + unfold nthf, nthN, updN in *. rewrite !nth_overflow; auto; rewrite ?upd_length; unfold lenN in *; lia.
  - now rewrite nthf_other.
Qed.

Lemma KI_unlink_occ c i f h l k :
  KI c i f h l -> k < c -> geto i k <> None ->
  KI c i (unlink f k) (claim_head h k (fnext (nthf f k))) l.
Proof.
  intros (Li & Lf & P & Nd & M & Oc) Hkb Hg.
  pose proof (unlink_occ f k (Oc k Hkb Hg)) as E.
  assert (Hh : claim_head h k (fnext (nthf f k)) = h).
  { unfold claim_head. destruct h as [hd|]; [|reflexivity]. destruct (N.eqb_spec hd k) as [->|]; [|reflexivity].
    exfalso. apply path_head in P. destruct l; cbn in P; [discriminate|]. inversion P; subst.
    assert (In n (n :: l)) by (cbn; auto). apply M in H. tauto. }
  rewrite Hh. ki_split; auto.
  - now rewrite lenN_unlink.
  - apply path_ext with (f := f); auto.
  - intros j Hj Hgj. rewrite E. auto.
Qed.

Lemma KI_release c i f h l k :
  KI c i f h l -> k < c -> geto i k <> None ->
  KI c (updN i k None) (release_f f h k) (Some k) (k :: l).
Proof.
  intros K Hkb Hg. pose proof (KI_bounded _ _ _ _ _ K) as Hb. destruct K as (Li & Lf & P & Nd & M & Oc).
  assert (Hk : ~ In k l) by (intro HI; apply M in HI; tauto).
  destruct (release_path f k l c h Lf Hb Nd Hkb Hk P) as (P' & O).
  ki_split.
  - now rewrite lenN_updN.
  - now rewrite lenN_release_f.
  - exact P'.
  - constructor; auto.
  - intros j; split.
    + intros [<-|H]; [split; [auto|apply geto_upd_same; lia]|].
      assert (j <> k) by (intro; subst; auto). rewrite geto_upd_other by auto. apply M in H. tauto.
    + intros (Hlt & Hg0). destruct (N.eq_dec j k) as [->|Hne]; [cbn; auto|].
      rewrite geto_upd_other in Hg0 by auto. right. apply M. auto.
  - intros j Hj Hgj. destruct (N.eq_dec j k) as [->|Hne].
    + rewrite geto_upd_same in Hgj by lia. congruence.
    + rewrite geto_upd_other in Hgj by auto. rewrite O; auto.
      intro HI. apply M in HI. tauto.
Qed.

(* ---------- evaluation of the three free-list procedures ---------- *)
Lemma sm_acquire_eq m k c :
  fhead m = Some k -> lenN (flist m) = c -> k < c ->
  (forall n, fnext (nthf (flist m) k) = Some n -> n < c) ->
  sm_acquire m = Val (with_fl m (acquire_f (flist m) k) (fnext (nthf (flist m) k)), Some k).
Proof.
  intros Hh Hl Hk Hn. unfold sm_acquire, acquire_f. rewrite Hh.
  rewrite (geti_val _ _ fl0) by lia. cbn [bind]. fold (nthf (flist m) k).
  destruct (fnext (nthf (flist m) k)) as [n|] eqn:En.
  - specialize (Hn n eq_refl). rewrite (geti_val _ _ fl0) by lia. cbn [bind]. rewrite seti_val by lia. cbn [bind].
    rewrite (geti_val _ _ fl0) by (rewrite lenN_updN; lia). cbn [bind].
    rewrite seti_val by (rewrite lenN_updN; lia). cbn [bind]. reflexivity.
  - cbn [bind]. rewrite (geti_val _ _ fl0) by lia. cbn [bind]. rewrite seti_val by lia. reflexivity.
Qed.

Lemma sm_release_eq m k c :
  lenN (flist m) = c -> k < c -> (forall h, fhead m = Some h -> h < c) ->
  sm_release m k = Val (with_fl m (release_f (flist m) (fhead m) k) (Some k)).
Proof.
  intros Hl Hk Hh. unfold sm_release, release_f.
  destruct (fhead m) as [h|] eqn:Eh.
  - specialize (Hh h eq_refl). rewrite (geti_val _ _ fl0) by lia. cbn [bind]. rewrite seti_val by lia. cbn [bind].
    rewrite seti_val by (rewrite lenN_updN; lia). reflexivity.
  - cbn [bind]. rewrite seti_val by lia. reflexivity.
Qed.

Lemma sm_claim_eq m k c :
  smcap m = c -> lenN (flist m) = c -> k < c ->
  (forall p, fprev (nthf (flist m) k) = Some p -> p < c) ->
  (forall n, fnext (nthf (flist m) k) = Some n -> n < c) ->
  sm_claim m k = Val (with_fl m (unlink (flist m) k) (claim_head (fhead m) k (fnext (nthf (flist m) k)))).
Proof.
  intros Hc Hl Hk Hp Hn. unfold sm_claim, unlink, claim_head. rewrite Hc.
  destruct (N.leb_spec c k); [lia|].
  rewrite (geti_val _ _ fl0) by lia. cbn [bind]. fold (nthf (flist m) k).
  set (e := nthf (flist m) k) in *.
  assert (Hh : match fhead m with Some hd => if hd =? k then fnext e else fhead m | None => fhead m end =
               match fhead m with Some hd => if hd =? k then fnext e else fhead m | None => fhead m end) by reflexivity.
  destruct (fprev e) as [p|] eqn:Ep.
  - specialize (Hp p eq_refl). rewrite (geti_val _ _ fl0) by lia. cbn [bind]. rewrite seti_val by lia. cbn [bind].
    destruct (fnext e) as [n|] eqn:En.
    + specialize (Hn n eq_refl). rewrite (geti_val _ _ fl0) by (rewrite lenN_updN; lia). cbn [bind].
      rewrite seti_val by (rewrite lenN_updN; lia). cbn [bind].
      rewrite seti_val by (rewrite !lenN_updN; lia). reflexivity.
    + cbn [bind]. rewrite seti_val by (rewrite lenN_updN; lia). reflexivity.
  - cbn [bind]. destruct (fnext e) as [n|] eqn:En.
    + specialize (Hn n eq_refl). rewrite (geti_val _ _ fl0) by lia. cbn [bind].
      rewrite seti_val by lia. cbn [bind]. rewrite seti_val by (rewrite lenN_updN; lia). reflexivity.
    + cbn [bind]. rewrite seti_val by lia. reflexivity.
Qed.

(* ---------- list facts about the option tables ---------- *)
Lemma flat_olist_upd (l : list (option N)) : forall k y, (k < length l)%nat ->
  Permutation (olist (nth k l None) ++ flat_map olist (upd l k y)) (olist y ++ flat_map olist l).
Proof.
  induction l as [|a l IH]; intros [|k] y H; cbn [length] in H; try lia.
  - cbn [nth upd flat_map]. rewrite !app_assoc. apply Permutation_app_tail. apply Permutation_app_comm.
  - cbn [nth upd flat_map]. specialize (IH k y ltac:(lia)).
    rewrite app_assoc. rewrite (Permutation_app_comm (olist (nth k l None))). rewrite <- app_assoc. rewrite IH.
    rewrite !app_assoc. apply Permutation_app_tail. apply Permutation_app_comm.
Qed.

Lemma flat_olist_updN (l : list (option N)) k y : k < lenN l ->
  Permutation (olist (geto l k) ++ flat_map olist (updN l k y)) (olist y ++ flat_map olist l).
Proof. intros H. apply flat_olist_upd. unfold lenN in H. lia. Qed.

Definition b2n (b : bool) : nat := if b then 1%nat else 0%nat.
Lemma count_upd (l : list (option N)) : forall k y, (k < length l)%nat ->
  (length (filter is_some (upd l k y)) + b2n (is_some (nth k l None)) = length (filter is_some l) + b2n (is_some y))%nat.
Proof.
  induction l as [|a l IH]; intros [|k] y H; cbn [length] in H; try lia.
  - cbn [upd nth filter]. destruct a, y; cbn; lia.
  - cbn [upd nth filter]. specialize (IH k y ltac:(lia)). destruct a; cbn [is_some length]; lia.
Qed.
Lemma count_updN (l : list (option N)) k y : k < lenN l ->
  lenN (filter is_some (updN l k y)) + N.of_nat (b2n (is_some (geto l k))) = lenN (filter is_some l) + N.of_nat (b2n (is_some y)).
Proof. intros H. pose proof (count_upd l (N.to_nat k) y ltac:(unfold lenN in H; lia)). unfold lenN, updN, geto, nthN. lia. Qed.

(* ---------- the data side of the invariant ---------- *)
Definition DI (c : N) (m : slotmap) (vals : list (option N)) (nfree : nat) : Prop :=
  smcap m = c /\ lenN (i2d m) = c /\ lenN (sdata m) = c /\ lenN vals = c /\
  Inv (dnf m) /\ cap (dnf m) = c /\
  (forall k, k < c -> match geto (i2d m) k with
                      | None => geto vals k = None
                      | Some d => d < c /\ geto (sdata m) d = geto vals k /\ geto vals k <> None
                      end) /\
  (forall k k' d, k < c -> k' < c -> geto (i2d m) k = Some d -> geto (i2d m) k' = Some d -> k = k') /\
  NoDup (abs (dnf m)) /\
  (forall d, In d (abs (dnf m)) -> d < c /\ geto (sdata m) d = None /\ forall k, k < c -> geto (i2d m) k <> Some d) /\
  length (abs (dnf m)) = nfree /\
  smlen m = lenN (filter is_some vals) /\
  Permutation (flat_map olist (sdata m)) (flat_map olist vals).

Ltac di_split := refine (conj _ (conj _ (conj _ (conj _ (conj _ (conj _ (conj _ (conj _ (conj _ (conj _ (conj _ (conj _ _)))))))))))).

Lemma store_free c m vals n k v :
  DI c m vals (S n) -> k < c -> geto (i2d m) k = None ->
  exists d q', sm_store m k v =
    Val ({| i2d := updN (i2d m) k (Some d); flist := flist m; sdata := updN (sdata m) d (Some v); dnf := q';
            fhead := fhead m; smlen := smlen m + 1; smcap := smcap m |}, true, []) /\
    DI c {| i2d := updN (i2d m) k (Some d); flist := flist m; sdata := updN (sdata m) d (Some v); dnf := q';
            fhead := fhead m; smlen := smlen m + 1; smcap := smcap m |} (updN vals k (Some v)) n.
Proof.
  intros (Hc & Li & Ls & Lv & QI & Qc & Cor & Inj & Nd & Fr & Ln & Hl & Pm) Hk Hg.
  pose proof (abs_lenN (dnf m)) as HL.
  destruct (abs (dnf m)) as [|d F] eqn:EF; [cbn in Ln; lia|].
  destruct (pop_abs (dnf m) QI ltac:(unfold lenN in HL; cbn in HL; lia)) as (q' & Hp & QI' & Qc' & Ha' & Hl').
  rewrite EF in Hp, Ha'. cbn [hd_error tl] in Hp, Ha'.
  destruct (Fr d ltac:(cbn; auto)) as (Hd & Hsd & Hnk).
  exists d, q'. split.
  - unfold sm_store. rewrite Hc. destruct (N.leb_spec c k); [lia|].
    rewrite (geti_val _ _ None) by lia. cbn [bind]. fold (geto (i2d m) k). rewrite Hg.
    rewrite Hp. rewrite seti_val by lia. cbn [bind].
    rewrite (geti_val _ _ None) by lia. cbn [bind]. fold (geto (sdata m) d). rewrite Hsd.
    rewrite seti_val by lia. cbn [bind olist]. reflexivity.
  - di_split; cbn [smcap i2d sdata dnf smlen].
    + exact Hc.
    + now rewrite lenN_updN.
    + now rewrite lenN_updN.
    + now rewrite lenN_updN.
    + exact QI'.
    + congruence.
    + intros j Hj. destruct (N.eq_dec j k) as [->|Hne].
      * rewrite !geto_upd_same by lia. repeat split; [exact Hd|discriminate].
      * rewrite !geto_upd_other by auto. specialize (Cor j Hj).
        destruct (geto (i2d m) j) as [d'|] eqn:Ej; [|exact Cor].
        destruct Cor as (C1 & C2 & C3). repeat split; auto.
        rewrite geto_upd_other; auto. intro; subst. apply (Hnk j Hj). exact Ej.
    + intros j j' d' Hj Hj' E1 E2.
      destruct (N.eq_dec j k) as [->|Hne]; destruct (N.eq_dec j' k) as [->|Hne']; auto.
      * rewrite geto_upd_same in E1 by lia. rewrite geto_upd_other in E2 by auto. inversion E1; subst.
        exfalso. apply (Hnk j' Hj'). exact E2.
      * rewrite geto_upd_same in E2 by lia. rewrite geto_upd_other in E1 by auto. inversion E2; subst.
        exfalso. apply (Hnk j Hj). exact E1.
      * rewrite geto_upd_other in E1, E2 by auto. eapply Inj; eauto.
    + rewrite Ha'. inversion Nd; auto.
    + rewrite Ha'. intros d' Hd'. destruct (Fr d' ltac:(cbn; auto)) as (F1 & F2 & F3).
      assert (d' <> d) by (intro; subst; inversion Nd; auto).
      repeat split; auto.
      * rewrite geto_upd_other; auto.
      * intros j Hj. destruct (N.eq_dec j k) as [->|Hne].
        -- rewrite geto_upd_same by lia. congruence.
        -- rewrite geto_upd_other by auto. auto.
    + rewrite Ha'. cbn in Ln. lia.
    + pose proof (count_updN vals k (Some v) ltac:(lia)) as CU.
      specialize (Cor k Hk). rewrite Hg in Cor. rewrite Cor in CU. cbn in CU. lia.
    + pose proof (flat_olist_updN (sdata m) d (Some v) ltac:(lia)) as P1.
      pose proof (flat_olist_updN vals k (Some v) ltac:(lia)) as P2.
      specialize (Cor k Hk). rewrite Hg in Cor. rewrite Hsd in P1. rewrite Cor in P2. cbn [olist app] in P1, P2.
      rewrite P1, P2. constructor. exact Pm.
Qed.

Lemma store_occ c m vals n k v d :
  DI c m vals n -> k < c -> geto (i2d m) k = Some d ->
  sm_store m k v =
    Val ({| i2d := i2d m; flist := flist m; sdata := updN (sdata m) d (Some v); dnf := dnf m;
            fhead := fhead m; smlen := smlen m; smcap := smcap m |}, true, olist (geto vals k)) /\
  DI c {| i2d := i2d m; flist := flist m; sdata := updN (sdata m) d (Some v); dnf := dnf m;
          fhead := fhead m; smlen := smlen m; smcap := smcap m |} (updN vals k (Some v)) n.
Proof.
  intros (Hc & Li & Ls & Lv & QI & Qc & Cor & Inj & Nd & Fr & Ln & Hl & Pm) Hk Hg.
  pose proof (Cor k Hk) as Ck. rewrite Hg in Ck. destruct Ck as (Hd & Hsd & Hvk).
  split.
  - unfold sm_store. rewrite Hc. destruct (N.leb_spec c k); [lia|].
    rewrite (geti_val _ _ None) by lia. cbn [bind]. fold (geto (i2d m) k). rewrite Hg.
    rewrite (geti_val _ _ None) by lia. cbn [bind]. fold (geto (sdata m) d). rewrite Hsd.
    rewrite seti_val by lia. cbn [bind]. reflexivity.
  - di_split; cbn [smcap i2d sdata dnf smlen]; auto.
    + now rewrite lenN_updN.
    + now rewrite lenN_updN.
    + intros j Hj. specialize (Cor j Hj). destruct (N.eq_dec j k) as [->|Hne].
      * rewrite Hg. rewrite !geto_upd_same by lia. repeat split; [exact Hd|discriminate].
      * rewrite (geto_upd_other vals) by auto.
        destruct (geto (i2d m) j) as [d'|] eqn:Ej; [|exact Cor].
        destruct Cor as (C1 & C2 & C3). repeat split; auto.
        rewrite geto_upd_other; auto. intro; subst. apply Hne. eapply Inj; eauto.
    + intros d' Hd'. destruct (Fr d' Hd') as (F1 & F2 & F3). repeat split; auto.
      rewrite geto_upd_other; auto. intro; subst. apply (F3 k Hk). exact Hg.
    + pose proof (count_updN vals k (Some v) ltac:(lia)) as CU.
      destruct (geto vals k); [|congruence]. cbn in CU. lia.
    + pose proof (flat_olist_updN (sdata m) d (Some v) ltac:(lia)) as P1.
      pose proof (flat_olist_updN vals k (Some v) ltac:(lia)) as P2.
      rewrite Hsd in P1. cbn [olist app] in P1, P2.
      apply Permutation_app_inv_l with (l := olist (geto vals k)). rewrite P1, P2. constructor. exact Pm.
Qed.

Lemma NoDup_app_snoc {A} (l : list A) x : NoDup l -> ~ In x l -> NoDup (l ++ [x]).
Proof.
  intros Nd Hx. apply NoDup_rev in Nd. rewrite <- (rev_involutive (l ++ [x])). apply NoDup_rev.
  rewrite rev_app_distr. cbn. constructor; auto. now rewrite <- in_rev.
Qed.

Lemma remove_data c m vals n k d f' h' :
  DI c m vals n -> k < c -> geto (i2d m) k = Some d -> (n < N.to_nat c)%nat ->
  exists q', rq_push (dnf m) d = Val (q', true) /\
    DI c {| i2d := updN (i2d m) k None; flist := f'; sdata := updN (sdata m) d None; dnf := q';
            fhead := h'; smlen := smlen m - 1; smcap := smcap m |} (updN vals k None) (S n).
Proof.
  intros (Hc & Li & Ls & Lv & QI & Qc & Cor & Inj & Nd & Fr & Ln & Hl & Pm) Hk Hg Hn.
  pose proof (Cor k Hk) as Ck. rewrite Hg in Ck. destruct Ck as (Hd & Hsd & Hvk).
  pose proof (abs_lenN (dnf m)) as HL.
  destruct (push_abs (dnf m) d QI ltac:(unfold lenN in HL; lia)) as (q' & Hp & QI' & Qc' & Ha').
  exists q'. split.
  - unfold rq_push. destruct (N.eqb_spec (len (dnf m)) (cap (dnf m))); [unfold lenN in HL; lia|]. now rewrite Hp.
  - assert (Hdn : ~ In d (abs (dnf m))) by (intro HI; destruct (Fr d HI) as (_ & _ & F3); apply (F3 k Hk); exact Hg).
    di_split; cbn [smcap i2d sdata dnf smlen]; auto.
    + now rewrite lenN_updN.
    + now rewrite lenN_updN.
    + now rewrite lenN_updN.
    + congruence.
    + intros j Hj. destruct (N.eq_dec j k) as [->|Hne].
      * rewrite !geto_upd_same by lia. reflexivity.
      * rewrite !geto_upd_other by auto. specialize (Cor j Hj).
        destruct (geto (i2d m) j) as [d'|] eqn:Ej; [|exact Cor].
        destruct Cor as (C1 & C2 & C3). repeat split; auto.
        rewrite geto_upd_other; auto. intro; subst. apply Hne. eapply Inj; eauto.
    + intros j j' d' Hj Hj' E1 E2.
      destruct (N.eq_dec j k) as [->|Hne]; [rewrite geto_upd_same in E1 by lia; discriminate|].
      destruct (N.eq_dec j' k) as [->|Hne']; [rewrite geto_upd_same in E2 by lia; discriminate|].
      rewrite geto_upd_other in E1, E2 by auto. eapply Inj; eauto.
    + rewrite Ha'. apply NoDup_app_snoc; auto.
    + rewrite Ha'. intros d' Hd'. rewrite in_app_iff in Hd'. destruct Hd' as [Hd'|[<-|[]]].
      * destruct (Fr d' Hd') as (F1 & F2 & F3). repeat split; auto.
        -- rewrite geto_upd_other; auto. intro; subst; auto.
        -- intros j Hj. destruct (N.eq_dec j k) as [->|Hne]; [rewrite geto_upd_same by lia; discriminate|].
           rewrite geto_upd_other by auto. auto.
      * repeat split; auto.
        -- apply geto_upd_same. lia.
        -- intros j Hj. destruct (N.eq_dec j k) as [->|Hne]; [rewrite geto_upd_same by lia; discriminate|].
           rewrite geto_upd_other by auto. intro E. apply Hne. eapply Inj; eauto.
    + rewrite Ha', app_length. cbn. lia.
    + pose proof (count_updN vals k None ltac:(lia)) as CU.
      destruct (geto vals k); [|congruence]. cbn in CU.
      assert (0 < lenN (filter is_some vals)) by lia. lia.
    + pose proof (flat_olist_updN (sdata m) d None ltac:(lia)) as P1.
      pose proof (flat_olist_updN vals k None ltac:(lia)) as P2.
      rewrite Hsd in P1. cbn [olist app] in P1, P2.
      apply Permutation_app_inv_l with (l := olist (geto vals k)). rewrite P1, P2. exact Pm.
Qed.

(* ---------- the refinement relation and one step ---------- *)
Definition R (c : N) (m : slotmap) (s : smap) : Prop :=
  mcap s = c /\ KI c (i2d m) (flist m) (fhead m) (mfree s) /\ DI c m (mvals s) (length (mfree s)).

Lemma DI_with_fl c m f h vals n : DI c m vals n -> DI c (with_fl m f h) vals n.
Proof. intros H. exact H. Qed.

Lemma remove_key_length k l : NoDup l -> In k l -> length l = S (length (remove_key k l)).
Proof.
  intros Nd Hin. destruct (in_split _ _ Hin) as (l1 & l2 & ->). rewrite remove_key_split by auto.
  rewrite !app_length. cbn. lia.
Qed.

Lemma bounded_lt_cap c l k : NoDup l -> bounded c l -> k < c -> ~ In k l -> (length l < N.to_nat c)%nat.
Proof.
  intros Nd Hb Hk Hn.
  assert (Nd2 : NoDup (k :: l)) by (constructor; auto).
  assert (Hincl : incl (k :: l) (map N.of_nat (seq 0 (N.to_nat c)))).
  { intros x Hx. apply in_map_iff. exists (N.to_nat x). split; [lia|]. apply in_seq.
    assert (x < c) by (destruct Hx as [<-|Hx]; auto). lia. }
  pose proof (NoDup_incl_length Nd2 Hincl) as HL. rewrite map_length, seq_length in HL. cbn in HL. lia.
Qed.

Lemma iter_listing m c (sd := sdata m) : forall (l1 l2 : list (option N)) off,
  Forall2 (fun od ov => match od with
                        | None => ov = None
                        | Some d => d < c /\ geto sd d = ov /\ ov <> None end) l1 l2 ->
  lenN sd = c ->
  sm_iter_from m l1 off = Val (listing l2 off).
Proof.
  intros l1 l2 off H Hl. revert off. induction H as [|od ov l1 l2 Hx _ IH]; intros off; cbn [sm_iter_from listing]; auto.
  destruct od as [d|].
  - destruct Hx as (Hd & Hg & Hn). rewrite (geti_val _ _ None) by (unfold sd in Hl; lia). cbn [bind].
    fold (geto (sdata m) d). fold sd. rewrite Hg. destruct ov as [x|]; [|congruence].
    rewrite IH. reflexivity.
  - subst ov. apply IH.
Qed.

Lemma forall2_of_nth {A B} (P : A -> B -> Prop) d1 d2 : forall (l1 : list A) (l2 : list B),
  length l1 = length l2 -> (forall j, (j < length l1)%nat -> P (nth j l1 d1) (nth j l2 d2)) -> Forall2 P l1 l2.
Proof.
  induction l1 as [|a l1 IH]; intros [|b l2] HL H; cbn in HL; try lia; constructor.
  - apply (H 0%nat). cbn; lia.
  - apply IH; [lia|]. intros j Hj. apply (H (S j)). cbn; lia.
Qed.

Theorem sm_step_refines c m s o :
  R c m s ->
  let '(m', ob, d) := sm_step m o in
  let '(s', ob', d') := smap_step s o in
  ob = ob' /\ Permutation d d' /\ R c m' s'.
Proof.
  intros (Hmc & K & D).
  pose proof (KI_bounded _ _ _ _ _ K) as Hb.
  pose proof K as (Li & Lf & P & Nd & M & Oc).
  pose proof D as (Hc & _ & Ls & Lv & QI & Qc & Cor & Inj & NdF & Fr & Ln & Hl & Pm).
  destruct o as [v|k v|k|k|k| | | |]; cbn [sm_step smap_step].
  - (* insert *)
    unfold sm_insert. destruct (mfree s) as [|k r] eqn:EF.
    + cbn [path] in P. unfold sm_acquire. rewrite P. cbn [bind unres3].
      split; [reflexivity|]. split; [reflexivity|]. unfold R. rewrite EF. auto.
    + pose proof P as P0. cbn [path] in P. destruct P as (Hh & Hp & P2).
      assert (Hkb : k < c) by (apply Hb; cbn; auto).
      rewrite (sm_acquire_eq m k c Hh Lf Hkb).
      2:{ intros n En. apply path_head in P2. rewrite En in P2. destruct r as [|n' r']; cbn in P2; [discriminate|].
          inversion P2; subst. apply Hb. cbn; auto. }
      cbn [bind].
      assert (Hg : geto (i2d m) k = None) by (apply (M k); cbn; auto).
      destruct (store_free c (with_fl m (acquire_f (flist m) k) (fnext (nthf (flist m) k))) (mvals s) (length r) k v
                  (DI_with_fl _ _ _ _ _ _ D) Hkb Hg) as (d & q' & Hs & D').
      rewrite Hs. cbn [bind unres3].
      split; [reflexivity|]. split; [reflexivity|].
      unfold R. cbn [mcap mvals mfree i2d flist fhead with_fl]. split; [first [exact Hmc|reflexivity]|]. split; [|exact D'].
      apply KI_acquire with (h := fhead m). exact K.
  - (* insert_at *)
    unfold sm_insert_at. rewrite Hmc.
    destruct (N.leb_spec c k) as [Hge|Hkb].
    + unfold sm_claim. rewrite Hc. destruct (N.leb_spec c k); [|lia]. cbn [bind].
      unfold sm_store. rewrite Hc. destruct (N.leb_spec c k); [|lia]. cbn [bind unres3].
      split; [reflexivity|]. split; [reflexivity|]. unfold R; auto.
    + destruct (geto (i2d m) k) as [d0|] eqn:Hg.
      * (* occupied: overwrite *)
        assert (Hocc : geto (i2d m) k <> None) by congruence.
        pose proof (Oc k Hkb Hocc) as E0.
        rewrite (sm_claim_eq m k c Hc Lf Hkb) by (rewrite E0; cbn; discriminate). cbn [bind].
        destruct (store_occ c (with_fl m (unlink (flist m) k) (claim_head (fhead m) k (fnext (nthf (flist m) k)))) (mvals s)
                    (length (mfree s)) k v d0 (DI_with_fl _ _ _ _ _ _ D) Hkb Hg) as (Hs & D').
        rewrite Hs. cbn [bind unres3].
        split; [reflexivity|]. split; [reflexivity|].
        assert (Hnk : ~ In k (mfree s)) by (intro HI; apply M in HI; destruct HI; congruence).
        unfold R. cbn [mcap mvals mfree i2d flist fhead with_fl]. unfold remove_key. rewrite filter_id_notin by auto.
        split; [first [exact Hmc|reflexivity]|]. split; [|exact D'].
        apply KI_unlink_occ; auto.
      * (* free key: unlink it from the free list, take a data slot *)
        assert (Hin : In k (mfree s)) by (apply M; auto).
        destruct (in_split _ _ Hin) as (l1 & l2 & EF).
        assert (P0 := P). rewrite EF in P0. destruct (path_mid _ _ _ _ _ _ P0) as (Mp & Mn & _).
        rewrite (sm_claim_eq m k c Hc Lf Hkb).
        2:{ intros p Ep. rewrite Mp in Ep. apply lastopt_in in Ep. destruct Ep as [Ep|Ep]; [discriminate|].
            apply Hb. rewrite EF, in_app_iff. auto. }
        2:{ intros n En. rewrite Mn in En. destruct l2 as [|n' r']; cbn in En; [discriminate|]. inversion En; subst.
            apply Hb. rewrite EF, in_app_iff. cbn. auto. }
        cbn [bind].
        pose proof (remove_key_length k (mfree s) Nd Hin) as HLen.
        assert (D1 : DI c (with_fl m (unlink (flist m) k) (claim_head (fhead m) k (fnext (nthf (flist m) k)))) (mvals s)
                        (S (length (remove_key k (mfree s))))) by (rewrite <- HLen; exact D).
        destruct (store_free c _ (mvals s) _ k v D1 Hkb Hg) as (d & q' & Hs & D').
        rewrite Hs. cbn [bind unres3].
        split; [reflexivity|]. split.
        { unfold mget. fold (nthN (mvals s) k None). fold (geto (mvals s) k).
          specialize (Cor k Hkb). rewrite Hg in Cor. rewrite Cor. reflexivity. }
        unfold R. cbn [mcap mvals mfree i2d flist fhead with_fl]. split; [first [exact Hmc|reflexivity]|]. split; [|exact D'].
        apply KI_unlink_free; auto.
  - (* remove *)
    unfold sm_remove. rewrite Li, Hmc.
    destruct (N.leb_spec c k) as [Hge|Hkb]; destruct (N.ltb_spec k c) as [Hlt|Hnlt]; try lia; cbn [unres3].
    + split; [reflexivity|]. split; [reflexivity|]. unfold R; auto.
    + rewrite (geti_val _ _ None) by lia. cbn [bind]. fold (geto (i2d m) k).
      pose proof (Cor k Hkb) as Ck. unfold mget. fold (nthN (mvals s) k None). fold (geto (mvals s) k).
      destruct (geto (i2d m) k) as [d|] eqn:Hg.
      * destruct Ck as (Hd & Hsd & Hvk).
        destruct (geto (mvals s) k) as [x|] eqn:Ev; [|congruence].
        rewrite (geti_val _ _ None) by lia. cbn [bind]. fold (geto (sdata m) d). rewrite Hsd.
        rewrite seti_val by lia. cbn [bind].
        assert (Hocc : geto (i2d m) k <> None) by congruence.
        assert (Hnk : ~ In k (mfree s)) by (intro HI; apply M in HI; destruct HI; congruence).
        pose proof (bounded_lt_cap c (mfree s) k Nd Hb Hkb Hnk) as HLt.
        destruct (remove_data c m (mvals s) (length (mfree s)) k d (release_f (flist m) (fhead m) k) (Some k) D Hkb Hg HLt)
          as (q' & Hp & D').
        rewrite Hp.
        rewrite (sm_release_eq _ k c); cbn [flist fhead]; auto.
        2:{ intros h Eh. apply path_head in P. rewrite Eh in P. destruct (mfree s) as [|h' r']; cbn in P; [discriminate|].
            inversion P; subst. apply Hb. cbn; auto. }
        cbn [bind with_fl i2d flist sdata dnf fhead smlen smcap].
        rewrite seti_val by lia. cbn [bind unres3].
        split; [reflexivity|]. split; [reflexivity|].
        unfold R. cbn [mcap mvals mfree i2d flist fhead]. split; [first [exact Hmc|reflexivity]|]. split; [|exact D'].
        apply KI_release; auto.
      * rewrite Ck. cbn [unres3]. split; [reflexivity|]. split; [reflexivity|]. unfold R; auto.
  - (* get *)
    unfold sm_get. rewrite Hmc, Li.
    destruct (N.ltb_spec k c) as [Hkb|Hge]; destruct (N.leb_spec c k); try lia.
    + rewrite (geti_val _ _ None) by lia. cbn [bind]. fold (geto (i2d m) k).
      pose proof (Cor k Hkb) as Ck. unfold mget. fold (nthN (mvals s) k None). fold (geto (mvals s) k).
      destruct (geto (i2d m) k) as [d|] eqn:Hg.
      * destruct Ck as (Hd & Hsd & Hvk). rewrite (geti_val _ _ None) by lia. cbn [bind].
        fold (geto (sdata m) d). rewrite Hsd. destruct (geto (mvals s) k) as [x|]; [|congruence]. cbn [unres1].
        split; [reflexivity|]. split; [reflexivity|]. unfold R; auto.
      * rewrite Ck. cbn [unres1]. split; [reflexivity|]. split; [reflexivity|]. unfold R; auto.
    + cbn [unres1]. split; [reflexivity|]. split; [reflexivity|]. unfold R; auto.
  - (* contains *)
    unfold sm_contains. rewrite Hmc, Li.
    destruct (N.ltb_spec k c) as [Hkb|Hge]; destruct (N.leb_spec c k); try lia.
    + rewrite (geti_val _ _ None) by lia. cbn [bind unres1]. fold (geto (i2d m) k).
      pose proof (Cor k Hkb) as Ck. unfold mget. fold (nthN (mvals s) k None). fold (geto (mvals s) k).
      destruct (geto (i2d m) k) as [d|] eqn:Hg.
      * destruct Ck as (_ & _ & Hvk). destruct (geto (mvals s) k); [|congruence].
        split; [reflexivity|]. split; [reflexivity|]. unfold R; auto.
      * rewrite Ck. split; [reflexivity|]. split; [reflexivity|]. unfold R; auto.
    + cbn [unres1]. split; [reflexivity|]. split; [reflexivity|]. unfold R; auto.
  - (* next_free_key *)
    apply path_head in P. rewrite P. split; [reflexivity|]. split; [reflexivity|]. unfold R; auto.
  - (* iteration *)
    rewrite (iter_listing m c (i2d m) (mvals s) 0); auto.
    + cbn [bind unres1]. split; [reflexivity|]. split; [reflexivity|]. unfold R; auto.
    + apply (forall2_of_nth _ None None); [unfold lenN in *; lia|].
      intros j Hj. specialize (Cor (N.of_nat j) ltac:(unfold lenN in *; lia)).
      unfold geto, nthN in Cor. rewrite !Nat2N.id in Cor. exact Cor.
  - (* len *)
    rewrite Hl. split; [reflexivity|]. split; [reflexivity|]. unfold R; auto.
  - (* container drop *)
    split; [reflexivity|]. split; [|unfold R; auto].
    unfold sm_drop_log. rewrite <- Pm. symmetry. apply Permutation_rev.
Qed.

(* ---------- the initial state ---------- *)
Definition init_fl (n : nat) : list fle :=
  map (fun k => {| fprev := if Nat.eqb k 0 then None else Some (N.of_nat (k - 1));
                   fnext := if Nat.ltb (S k) n then Some (N.of_nat (S k)) else None |}) (seq 0 n).

Lemma init_fl_nth n k : (k < n)%nat ->
  nthf (init_fl n) (N.of_nat k) = {| fprev := if Nat.eqb k 0 then None else Some (N.of_nat (k - 1));
                                     fnext := if Nat.ltb (S k) n then Some (N.of_nat (S k)) else None |}.
Proof.
  intros H. unfold nthf, nthN, init_fl. rewrite Nat2N.id.
  set (g := fun k0 : nat => {| fprev := if Nat.eqb k0 0 then None else Some (N.of_nat (k0 - 1));
                              fnext := if Nat.ltb (S k0) n then Some (N.of_nat (S k0)) else None |}).
  rewrite (nth_indep _ fl0 (g 0%nat)) by (rewrite map_length, seq_length; lia).
  rewrite map_nth. rewrite seq_nth by lia. reflexivity.
Qed.

Lemma init_path n : forall k j, (j + k = n)%nat ->
  path (init_fl n) (if Nat.eqb j 0 then None else Some (N.of_nat (j - 1)))
       (if Nat.eqb k 0 then None else Some (N.of_nat j)) (map N.of_nat (seq j k)).
Proof.
  induction k as [|k IH]; intros j H; cbn [seq map path]; [reflexivity|].
  rewrite init_fl_nth by lia. cbn [fprev fnext]. split; [reflexivity|]. split; [reflexivity|].
  specialize (IH (S j) ltac:(lia)). cbn [Nat.eqb] in IH. replace (S j - 1)%nat with j in IH by lia.
  destruct (Nat.ltb_spec (S j) n); destruct (Nat.eqb_spec k 0); try lia; exact IH.
Qed.

Lemma geto_repeat_none n k : geto (repeat None n) k = None.
Proof. unfold geto, nthN. generalize (N.to_nat k) as j. induction n; intros [|j]; cbn; auto. Qed.

Lemma NoDup_map_seq j k : NoDup (map N.of_nat (seq j k)).
Proof.
  apply FinFun.Injective_map_NoDup; [|apply seq_NoDup]. intros a b H. lia.
Qed.

Lemma abs_from_init n c : forall k pos, c = N.of_nat n -> (N.to_nat pos + k <= n)%nat ->
  abs_from (map N.of_nat (seq 0 n)) c pos k = map N.of_nat (seq (N.to_nat pos) k).
Proof.
  induction k as [|k IH]; intros pos Hc H; cbn [abs_from seq map]; [reflexivity|].
  rewrite IH by lia. replace (N.to_nat (pos + 1)) with (S (N.to_nat pos)) by lia. f_equal.
  rewrite N.mod_small by lia. unfold nthN.
  change 0 with (N.of_nat 0). rewrite map_nth. rewrite seq_nth by lia. lia.
Qed.

Lemma R_new c : R c (sm_new c) (smap_new c).
Proof.
  set (n := N.to_nat c).
  assert (Eabs : abs (dnf (sm_new c)) = map N.of_nat (seq 0 n)).
  { unfold abs, sm_new. cbn [dnf start len cap data]. fold n. replace (c - c) with 0 by lia.
    rewrite (abs_from_init n c n 0) by (subst n; lia). reflexivity. }
  unfold R. split; [reflexivity|]. split.
  - unfold sm_new, smap_new. cbn [i2d flist fhead mfree]. fold n. ki_split.
    + rewrite lenN_repeat. subst n; lia.
    + unfold lenN. rewrite map_length, seq_length. subst n; lia.
    + pose proof (init_path n n 0%nat ltac:(lia)) as P. cbn [Nat.eqb] in P.
      destruct (Nat.eqb_spec n 0) as [E0|E0]; destruct (N.eqb_spec c 0); try (subst n; lia); exact P.
    + apply NoDup_map_seq.
    + intros k; split.
      * intros H. apply in_map_iff in H. destruct H as (j & <- & Hj). apply in_seq in Hj.
        split; [subst n; lia|apply geto_repeat_none].
      * intros (Hk & _). apply in_map_iff. exists (N.to_nat k). split; [lia|]. apply in_seq. subst n; lia.
    + intros k Hk Hg. rewrite geto_repeat_none in Hg. congruence.
  - di_split.
    + reflexivity.
    + unfold sm_new; cbn [i2d]. rewrite lenN_repeat. lia.
    + unfold sm_new; cbn [sdata]. rewrite lenN_repeat. lia.
    + unfold smap_new; cbn [mvals]. rewrite lenN_repeat. lia.
    + unfold Inv, sm_new; cbn [dnf start len cap data]. unfold lenN. rewrite map_length, seq_length. lia.
    + reflexivity.
    + intros k Hk. unfold sm_new, smap_new; cbn [i2d mvals]. rewrite !geto_repeat_none. reflexivity.
    + intros k k' d _ _ E. unfold sm_new in E; cbn [i2d] in E. rewrite geto_repeat_none in E. discriminate.
    + rewrite Eabs. apply NoDup_map_seq.
    + rewrite Eabs. intros d H. apply in_map_iff in H. destruct H as (j & <- & Hj). apply in_seq in Hj.
      unfold sm_new; cbn [sdata i2d]. rewrite geto_repeat_none. repeat split; [subst n; lia|].
      intros k _. rewrite geto_repeat_none. discriminate.
    + rewrite Eabs. unfold smap_new; cbn [mfree]. reflexivity.
    + unfold sm_new, smap_new; cbn [smlen mvals]. fold n. generalize n as j. induction j; cbn; auto.
    + unfold sm_new, smap_new; cbn [sdata mvals]. reflexivity.
Qed.

(* ---------- runs ---------- *)
Fixpoint sm_run (m : slotmap) (ops : list mop) : list (obs * list N) :=
  match ops with [] => [] | o :: t => let '(m', ob, d) := sm_step m o in (ob, d) :: sm_run m' t end.
Fixpoint smap_run (s : smap) (ops : list mop) : list (obs * list N) :=
  match ops with [] => [] | o :: t => let '(s', ob, d) := smap_step s o in (ob, d) :: smap_run s' t end.

(* same returned value; same drop log up to order (the order differs only at container drop) *)
Definition obs_rel (a b : obs * list N) : Prop := fst a = fst b /\ Permutation (snd a) (snd b).

Theorem sm_refines_map : forall (c : N) (ops : list mop),
  Forall2 obs_rel (sm_run (sm_new c) ops) (smap_run (smap_new c) ops).
Proof.
  intros c ops. generalize (R_new c). generalize (sm_new c) (smap_new c).
  induction ops as [|o t IH]; intros m s HR; cbn [sm_run smap_run]; [constructor|].
  pose proof (sm_step_refines c m s o HR) as H.
  destruct (sm_step m o) as [[m' ob] d], (smap_step s o) as [[s' ob'] d'].
  destruct H as (-> & Hp & HR'). constructor; [split; cbn; auto|apply IH; exact HR'].
Qed.

(* reachable pairs of states *)
Inductive mreach (c : N) : slotmap -> smap -> Prop :=
| mreach0 : mreach c (sm_new c) (smap_new c)
| mreachS m s o : mreach c m s -> mreach c (fst (fst (sm_step m o))) (fst (fst (smap_step s o))).

Theorem mreach_R c m s : mreach c m s -> R c m s.
Proof.
  induction 1 as [|m s o H IH]; [apply R_new; auto|].
  pose proof (sm_step_refines c m s o IH) as HS.
  destruct (sm_step m o) as [[m' ob] d], (smap_step s o) as [[s' ob'] d']. cbn [fst]. tauto.
Qed.

(* the invariant of the property statement, spelled out on the concrete fields *)
Theorem sm_invariant c m s : mreach c m s ->
  (* the free list from the head is a duplicate-free doubly linked path ... *)
  path (flist m) None (fhead m) (mfree s) /\ NoDup (mfree s) /\
  (* ... covering exactly the keys with idx_to_data = INVALID *)
  (forall k, In k (mfree s) <-> k < c /\ geto (i2d m) k = None) /\
  (* occupied entries have both links INVALID *)
  (forall k, k < c -> geto (i2d m) k <> None -> nthf (flist m) k = fl0) /\
  (* data_next_free_index holds exactly the unused data slots, without duplicates *)
  NoDup (abs (dnf m)) /\
  (forall d, In d (abs (dnf m)) -> d < c /\ geto (sdata m) d = None /\ forall k, k < c -> geto (i2d m) k <> Some d) /\
  length (abs (dnf m)) = length (mfree s) /\
  (* occupied keys point to distinct data slots holding the value of the finite map *)
  (forall k, k < c -> match geto (i2d m) k with
                      | None => mget s k = None
                      | Some d => d < c /\ geto (sdata m) d = mget s k /\ mget s k <> None end) /\
  (forall k k' d, k < c -> k' < c -> geto (i2d m) k = Some d -> geto (i2d m) k' = Some d -> k = k') /\
  (* len = number of occupied keys *)
  smlen m = lenN (filter is_some (mvals s)).
Proof.
  intros H. destruct (mreach_R c m s H) as (_ & (_ & _ & P & Nd & M & Oc) & (_ & _ & _ & _ & _ & _ & Cor & Inj & NdF & Fr & Ln & Hl & _)).
  refine (conj P (conj Nd (conj M (conj Oc (conj NdF (conj Fr (conj Ln (conj Cor (conj Inj Hl))))))))).
Qed.

(* insert: returns a key that was free (never overwrites a live entry, drops nothing), changes no
   other key, and fails -- dropping exactly the rejected value -- only when every key is occupied *)
Theorem sm_insert_fresh c m s v : mreach c m s ->
  let '(m', ob, d) := sm_step m (MInsert v) in
  let '(s', _, _) := smap_step s (MInsert v) in
  match ob with
  | OO (Some k) => k < c /\ mget s k = None /\ d = [] /\ mget s' k = Some v /\
                   (forall j, j <> k -> mget s' j = mget s j)
  | OO None => (forall j, j < c -> mget s j <> None) /\ d = [v] /\ s' = s
  | _ => False
  end.
Proof.
  intros H. pose proof (mreach_R c m s H) as HR.
  pose proof (sm_step_refines c m s (MInsert v) HR) as HS.
  destruct HR as (Hmc & (Li & Lf & P & Nd & M & Oc) & (_ & _ & _ & Lv & _ & _ & Cor & _)).
  destruct (sm_step m (MInsert v)) as [[m' ob] d]. cbn [smap_step] in *.
  destruct (mfree s) as [|k r] eqn:EF.
  - destruct HS as (-> & Hp & _). split; [|split; [|reflexivity]].
    + intros j Hj E. specialize (Cor j Hj). unfold mget in E. fold (nthN (mvals s) j None) in E. fold (geto (mvals s) j) in E.
      destruct (geto (i2d m) j) eqn:Eg; [destruct Cor as (_ & _ & C); congruence|].
      assert (In j []) by (apply M; auto). auto.
    + apply Permutation_sym, Permutation_length_1_inv in Hp. exact Hp.
  - destruct HS as (-> & Hp & _).
    assert (Hk : k < c /\ geto (i2d m) k = None) by (apply M; cbn; auto). destruct Hk as (Hk & Hg).
    split; [exact Hk|]. split.
    { specialize (Cor k Hk). rewrite Hg in Cor. exact Cor. }
    split; [apply Permutation_sym, Permutation_nil in Hp; exact Hp|].
    unfold mget; cbn [mvals]. split.
    + fold (nthN (updN (mvals s) k (Some v)) k None). apply nthN_updN_same. lia.
    + intros j Hj. fold (nthN (updN (mvals s) k (Some v)) j None). fold (nthN (mvals s) j None).
      apply nthN_updN_other. auto.
Qed.

(* ---------- every stored value leaves exactly once ---------- *)
Definition live (s : smap) : list N := flat_map olist (mvals s).
Definition mop_in (o : mop) : list N := match o with MInsert v | MInsertAt _ v => [v] | _ => [] end.
(* values handed back to the caller (remove); the key returned by insert is not a value *)
Definition mop_out (o : mop) (ob : obs) : list N :=
  match o, ob with MRemove _, OO (Some x) => [x] | _, _ => [] end.

Lemma smap_step_conserves c m s o : R c m s -> o <> MDrop ->
  let '(s', ob, d) := smap_step s o in
  Permutation (mop_in o ++ live s) (mop_out o ob ++ d ++ live s').
Proof.
  intros (Hmc & (Li & Lf & P & Nd & M & Oc) & (_ & _ & _ & Lv & _ & _ & Cor & _)) Hnd.
  destruct o as [v|k v|k|k|k| | | |]; cbn [smap_step mop_in]; try congruence.
  - destruct (mfree s) as [|k r] eqn:EF; cbn [mop_out live mvals app]; [reflexivity|].
    assert (Hk : k < c /\ geto (i2d m) k = None) by (apply M; cbn; auto). destruct Hk as (Hk & Hg).
    specialize (Cor k Hk). rewrite Hg in Cor.
    pose proof (flat_olist_updN (mvals s) k (Some v) ltac:(lia)) as F. rewrite Cor in F. cbn [olist app] in F.
    symmetry. exact F.
  - rewrite Hmc. destruct (N.leb_spec c k); cbn [mop_out live mvals app]; [reflexivity|].
    pose proof (flat_olist_updN (mvals s) k (Some v) ltac:(lia)) as F. cbn [olist app] in F.
    symmetry. exact F.
  - rewrite Hmc. destruct (N.ltb_spec k c) as [Hk|Hk]; cbn [mop_out live mvals app]; [|reflexivity].
    unfold mget. fold (nthN (mvals s) k None). fold (geto (mvals s) k).
    destruct (geto (mvals s) k) as [x|] eqn:Ev; cbn [mop_out live mvals app]; [|reflexivity].
    pose proof (flat_olist_updN (mvals s) k None ltac:(lia)) as F. rewrite Ev in F. cbn [olist app] in F.
    symmetry. exact F.
  - destruct (N.ltb (k) (mcap s)); reflexivity.
  - destruct (N.ltb (k) (mcap s)); reflexivity.
  - reflexivity.
  - reflexivity.
  - reflexivity.
Qed.

Fixpoint smap_totals (s : smap) (ops : list mop) : list N * list N * smap :=
  match ops with
  | [] => ([], [], s)
  | o :: t =>
    let '(s', ob, d) := smap_step s o in
    let '(ins, outs, sf) := smap_totals s' t in
    (mop_in o ++ ins, mop_out o ob ++ d ++ outs, sf)
  end.

(* the concrete state after the same operations *)
Definition sm_final (m : slotmap) (ops : list mop) : slotmap :=
  fold_left (fun m o => fst (fst (sm_step m o))) ops m.

Lemma smap_conservation c : forall ops m s, R c m s -> Forall (fun o => o <> MDrop) ops ->
  let '(ins, outs, sf) := smap_totals s ops in
  Permutation (ins ++ live s) (outs ++ live sf) /\ R c (sm_final m ops) sf.
Proof.
  induction ops as [|o t IH]; intros m s HR Hf; cbn [smap_totals sm_final fold_left].
  - split; [reflexivity|exact HR].
  - inversion Hf as [|? ? Ho Ht]; subst.
    pose proof (smap_step_conserves c m s o HR Ho) as H1.
    pose proof (sm_step_refines c m s o HR) as H2.
    destruct (sm_step m o) as [[m' ob0] d0], (smap_step s o) as [[s' ob] d]. cbn [fst].
    destruct H2 as (_ & _ & HR').
    specialize (IH m' s' HR' Ht). unfold sm_final in IH. destruct (smap_totals s' t) as [[ins outs] sf]. destruct IH as (IH & Hex).
    split; [|exact Hex].
    rewrite <- app_assoc. rewrite (Permutation_app_comm ins), app_assoc.
    rewrite H1. rewrite <- !app_assoc. apply Permutation_app_head. apply Permutation_app_head.
    rewrite Permutation_app_comm. exact IH.
Qed.

(* whole life of a slot map of any capacity (0 included): the values that entered (insert, insert_at) are,
   as multisets, the values handed back (remove) plus the values dropped (overwritten by
   insert_at, rejected by a failing insert / insert_at) plus what the container's Drop releases;
   and the concrete Drop log is a permutation of the values still stored. *)
Theorem sm_drop_once : forall c ops, Forall (fun o => o <> MDrop) ops ->
  let '(ins, outs, sf) := smap_totals (smap_new c) ops in
  Permutation ins (outs ++ sm_drop_log (sm_final (sm_new c) ops)).
Proof.
  intros c ops Hf. pose proof (smap_conservation c ops _ _ (R_new c) Hf) as H.
  destruct (smap_totals (smap_new c) ops) as [[ins outs] sf]. destruct H as (H & HR).
  assert (E : live (smap_new c) = []).
  { unfold live, smap_new; cbn [mvals]. generalize (N.to_nat c) as n. induction n; cbn; auto. }
  rewrite E, app_nil_r in H. rewrite H. apply Permutation_app_head.
  destruct HR as (_ & _ & (_ & _ & _ & _ & _ & _ & _ & _ & _ & _ & _ & _ & Pm)).
  unfold sm_drop_log, live. rewrite <- Pm. apply Permutation_rev.
Qed.

(* ---------- regression histories: the former deviations (fixed in /repo by 6ffc44e, c891c8c) ---------- *)
Lemma sm_regression_cap0 :
  map fst (sm_run (sm_new 0) [MInsert 1; MNextFree; MGet 0; MContains 0; MRemove 0; MInsertAt 0 2]) =
  [OO None; OO None; OO None; OB false; OO None; OB false].
Proof. reflexivity. Qed.
Lemma sm_regression_oob :
  map fst (sm_run (sm_new 1) [MGet 1; MContains 1; MGet 7]) = [OO None; OB false; OO None].
Proof. reflexivity. Qed.
