(* C15: the dynamic-segment state machine keeps every segment that an outstanding offset
   points into (sender side and receiver side), for all operation sequences. *)
From V Require Import model.Base model.Alloc model.AllocSys proofs.AllocArith proofs.AllocProofs.
From Coq Require Import ZifyBool ZifyNat ZifyN.
Open Scope N_scope.

(* ---- association lists ---- *)
Lemma alookup_aremove {A} k k' (m : list (N * A)) :
  alookup k (aremove k' m) = if N.eqb k k' then None else alookup k m.
Proof.
  induction m as [|[k0 v] r IH]; cbn [aremove alookup].
  - destruct (N.eqb k k'); reflexivity.
  - destruct (N.eqb_spec k' k0) as [->|Hne].
    + rewrite IH. destruct (N.eqb_spec k k0); reflexivity.
    + cbn [alookup]. rewrite IH. destruct (N.eqb_spec k k0) as [->|]; [|reflexivity].
      destruct (N.eqb_spec k0 k'); [congruence|reflexivity].
Qed.

Lemma alookup_aset {A} k k' (v : A) m :
  alookup k (aset k' v m) = if N.eqb k k' then Some v else alookup k m.
Proof.
  unfold aset. cbn [alookup]. rewrite alookup_aremove. destruct (N.eqb k k'); reflexivity.
Qed.

(* ---- counting chunks per segment ---- *)
Definition cnt (id : N) (l : list chunk) : N := lenN (filter (fun c => N.eqb (seg_of c) id) l).
Definition cnt_reg (id : N) (l : list chunk) : N := lenN (filter (fun c => N.eqb (seg_of c) id && c_reg c) l).

Lemma cnt_cons id c l : cnt id (c :: l) = (if N.eqb (seg_of c) id then 1 else 0) + cnt id l.
Proof. unfold cnt, lenN. cbn [filter]. destruct (N.eqb (seg_of c) id); cbn [length]; lia. Qed.
Lemma cnt_reg_cons id c l : cnt_reg id (c :: l) = (if N.eqb (seg_of c) id && c_reg c then 1 else 0) + cnt_reg id l.
Proof. unfold cnt_reg, lenN. cbn [filter]. destruct (N.eqb (seg_of c) id && c_reg c); cbn [length]; lia. Qed.

Lemma cnt_pos id c l : In c l -> seg_of c = id -> 1 <= cnt id l.
Proof.
  induction l as [|h t IH]; cbn [In]; [tauto|]. intros [->|Hin] Hs; rewrite cnt_cons.
  - rewrite Hs, N.eqb_refl. lia.
  - specialize (IH Hin Hs). lia.
Qed.
Lemma cnt_reg_pos id c l : In c l -> seg_of c = id -> c_reg c = true -> 1 <= cnt_reg id l.
Proof.
  induction l as [|h t IH]; cbn [In]; [tauto|]. intros [->|Hin] Hs Hr; rewrite cnt_reg_cons.
  - rewrite Hs, N.eqb_refl, Hr. cbn. lia.
  - specialize (IH Hin Hs Hr). lia.
Qed.

Lemma seg_of_set_reg_head c b : seg_of {| c_off := c_off c; c_reg := b |} = seg_of c.
Proof. reflexivity. Qed.

Lemma cnt_set_reg id k b l : cnt id (set_reg k b l) = cnt id l.
Proof.
  revert k. induction l as [|h t IH]; intros [|k]; cbn [set_reg]; try reflexivity.
  - rewrite !cnt_cons. reflexivity.
  - rewrite !cnt_cons, IH. reflexivity.
Qed.

Lemma cnt_reg_set_true id k l c : nth_error l k = Some c -> c_reg c = false ->
  cnt_reg id (set_reg k true l) = cnt_reg id l + (if N.eqb (seg_of c) id then 1 else 0).
Proof.
  revert k. induction l as [|h t IH]; intros [|k]; cbn [set_reg nth_error]; try discriminate.
  - intros E Hr. inversion E. subst. rewrite !cnt_reg_cons. cbn [c_reg]. rewrite Hr, seg_of_set_reg_head.
    destruct (N.eqb (seg_of c) id); cbn; lia.
  - intros E Hr. rewrite !cnt_reg_cons, (IH _ E Hr). lia.
Qed.

Lemma cnt_reg_set_false id k l c : nth_error l k = Some c -> c_reg c = true ->
  cnt_reg id (set_reg k false l) + (if N.eqb (seg_of c) id then 1 else 0) = cnt_reg id l.
Proof.
  revert k. induction l as [|h t IH]; intros [|k]; cbn [set_reg nth_error]; try discriminate.
  - intros E Hr. inversion E. subst. rewrite !cnt_reg_cons. cbn [c_reg]. rewrite Hr, seg_of_set_reg_head.
    destruct (N.eqb (seg_of c) id); cbn; lia.
  - intros E Hr. rewrite !cnt_reg_cons. specialize (IH _ E Hr). lia.
Qed.

Lemma in_set_reg k b l c' : In c' (set_reg k b l) ->
  In c' l \/ (exists c, nth_error l k = Some c /\ c' = {| c_off := c_off c; c_reg := b |}).
Proof.
  revert k. induction l as [|h t IH]; intros [|k]; cbn [set_reg In nth_error]; try tauto.
  - intros [<-|H]; [right; eauto|left; auto].
  - intros [<-|H]; [left; auto|]. destruct (IH _ H) as [H1|H1]; [left; auto|right; exact H1].
Qed.

Lemma cnt_drop_nth id k l c : nth_error l k = Some c ->
  cnt id (drop_nth k l) + (if N.eqb (seg_of c) id then 1 else 0) = cnt id l.
Proof.
  revert k. induction l as [|h t IH]; intros [|k]; cbn [drop_nth nth_error]; try discriminate.
  - intros E. inversion E. subst. rewrite cnt_cons. lia.
  - intros E. rewrite !cnt_cons. specialize (IH _ E). lia.
Qed.
Lemma cnt_reg_drop_nth id k l c : nth_error l k = Some c -> c_reg c = false ->
  cnt_reg id (drop_nth k l) = cnt_reg id l.
Proof.
  revert k. induction l as [|h t IH]; intros [|k]; cbn [drop_nth nth_error]; try discriminate.
  - intros E Hr. inversion E. subst. rewrite cnt_reg_cons, Hr, andb_false_r. lia.
  - intros E Hr. rewrite !cnt_reg_cons, (IH _ E Hr). reflexivity.
Qed.
Lemma in_drop_nth {A} k (l : list A) x : In x (drop_nth k l) -> In x l.
Proof.
  revert k. induction l as [|h t IH]; intros [|k]; cbn [drop_nth In]; try tauto.
  intros [<-|H]; [left; reflexivity|right; eapply IH; eauto].
Qed.

(* ---- the invariant ---- *)
Definition mem_inv (d : dynmem) (live : list chunk) : Prop :=
  d_cur d < 256 /\
  (exists sg, alookup (d_cur d) (d_segs d) = Some sg) /\
  (forall id sg, alookup id (d_segs d) = Some sg -> id <= d_cur d /\ s_count sg = cnt id live) /\
  (forall c, In c live -> exists sg, alookup (seg_of c) (d_segs d) = Some sg).

Definition view_inv (v : view) (live : list chunk) : Prop :=
  (forall id n, alookup id (v_segs v) = Some n -> n = cnt_reg id live) /\
  (forall c, In c live -> c_reg c = true -> exists n, alookup (seg_of c) (v_segs v) = Some n) /\
  (forall k, v_cur v = Some k -> exists n, alookup k (v_segs v) = Some n).

Definition sys_inv (s : sys) : Prop := mem_inv (y_mem s) (y_live s) /\ view_inv (y_view s) (y_live s).

Lemma mem_inv_seg_le d live c : mem_inv d live -> In c live -> seg_of c <= d_cur d.
Proof. intros (_ & _ & I2 & I1) Hin. destruct (I1 c Hin) as (sg & Hsg). apply (I2 _ _ Hsg). Qed.

Lemma cnt_zero_above d live id : mem_inv d live -> d_cur d < id -> cnt id live = 0.
Proof.
  intros Hi Hlt. destruct (N.eq_dec (cnt id live) 0) as [|Hne]; [assumption|exfalso].
  unfold cnt, lenN in Hne.
  destruct (filter (fun c => N.eqb (seg_of c) id) live) as [|c r] eqn:Hf; [cbn in Hne; lia|].
  assert (Hin : In c (filter (fun c => N.eqb (seg_of c) id) live)) by (rewrite Hf; left; reflexivity).
  apply filter_In in Hin. destruct Hin as [Hin Hs]. apply N.eqb_eq in Hs.
  pose proof (mem_inv_seg_le d live c Hi Hin). lia.
Qed.

(* ---- sender: create_resized_segment ---- *)
Lemma dyn_create_resized_inv d live sg l d' b :
  mem_inv d live -> alookup (d_cur d) (d_segs d) = Some sg ->
  dyn_create_resized d sg l = Val (d', b) ->
  mem_inv d' live /\ (b = true -> d_cur d' = d_cur d + 1).
Proof.
  intros Hi Hsg. unfold dyn_create_resized.
  destruct (cal_resize_hint (s_cal sg) l (d_strategy d)) as [lay cntb].
  destruct (N.ltb_spec (d_cur d + 1) max_reallocations) as [Hlt|Hge]; cbn [negb].
  2:{ intros E. inversion E. subst. split; [exact Hi|discriminate]. }
  destruct (seg_create (d_maxmem d) (d_base d) lay (setup_payload_size lay cntb)) as [[nsg|]|] eqn:Hc; [| |discriminate].
  2:{ intros E. inversion E. subst. split; [|discriminate]. exact Hi. }
  intros E. inversion E. subst. clear E. split; [|reflexivity].
  assert (Hns : s_count nsg = 0).
  { unfold seg_create in Hc. destruct (N.eqb (setup_payload_size lay cntb) 0); [discriminate|].
    destruct (cal_new _ _ _ _) as [cc|]; [|discriminate]. destruct (cal_init_ok cc); inversion Hc. reflexivity. }
  destruct Hi as (Hcur & _ & I2 & I1). unfold mem_inv, dyn_with. cbn [d_cur d_segs].
  unfold max_reallocations in Hlt.
  split; [exact Hlt|]. split; [rewrite alookup_aset, N.eqb_refl; eauto|]. split.
  - intros id s0. rewrite alookup_aset. destruct (N.eqb_spec id (d_cur d + 1)) as [->|Hne].
    + intros E. inversion E. subst. split; [lia|]. rewrite Hns. symmetry.
      apply (cnt_zero_above d live); [|lia]. unfold mem_inv. eauto 10.
    + intros Hl. assert (Hl' : alookup id (d_segs d) = Some s0).
      { destruct (N.eqb (s_count sg) 0); [|exact Hl]. rewrite alookup_aremove in Hl.
        destruct (N.eqb id (d_cur d)); [discriminate|exact Hl]. }
      destruct (I2 _ _ Hl') as [H1 H2]. split; [lia|exact H2].
  - intros c Hin. rewrite alookup_aset. destruct (N.eqb_spec (seg_of c) (d_cur d + 1)); [eauto|].
    destruct (I1 c Hin) as (s0 & Hs0).
    destruct (N.eqb_spec (s_count sg) 0) as [Hz|Hz]; [|eauto].
    rewrite alookup_aremove. destruct (N.eqb_spec (seg_of c) (d_cur d)) as [He|He]; [|eauto].
    exfalso. destruct (I2 _ _ Hsg) as [_ Hc']. pose proof (cnt_pos (d_cur d) c live Hin He). lia.
Qed.

(* ---- sender: allocate ---- *)
Lemma cal_allocate_err_same c l c' e : cal_allocate c l = (c', AErr e) -> c' = c.
Proof.
  unfold cal_allocate. destruct (N.ltb (p_balign (cp_pool c)) (lalign l)); [intros E; inversion E; reflexivity|].
  destruct (pool_allocate (cp_pool c) l) as [p' [a|e']]; intros E; inversion E; reflexivity.
Qed.

Lemma dyn_allocate_fuel_inv fuel : forall d live l d' r,
  mem_inv d live -> dyn_allocate_fuel fuel d l = DVal (d', r) ->
  match r with
  | AOk off => mem_inv d' ({| c_off := off; c_reg := false |} :: live)
  | AErr _ => mem_inv d' live
  end.
Proof.
  induction fuel as [|f IH]; intros d live l d' r Hi; cbn [dyn_allocate_fuel]; [discriminate|].
  destruct (alookup (d_cur d) (d_segs d)) as [sg|] eqn:Hsg; [|discriminate].
  destruct (cal_allocate (s_cal sg) l) as [c' [off|e]] eqn:Ha.
  - intros E. inversion E. subst. clear E.
    destruct Hi as (Hcur & _ & I2 & I1).
    assert (Hseg : po_segment (po_set_segment off (d_cur d)) = d_cur d) by (apply offset_set_segment; exact Hcur).
    unfold mem_inv, dyn_with. cbn [d_cur d_segs].
    split; [exact Hcur|]. split; [rewrite alookup_aset, N.eqb_refl; eauto|]. split.
    + intros id s0. rewrite alookup_aset, cnt_cons. unfold seg_of at 1. cbn [c_off]. rewrite Hseg.
      destruct (N.eqb_spec id (d_cur d)) as [->|Hne].
      * intros E. inversion E. subst. cbn [s_count]. rewrite N.eqb_refl. destruct (I2 _ _ Hsg) as [_ ->]. split; lia.
      * intros Hl. destruct (I2 _ _ Hl) as [H1 H2]. destruct (N.eqb_spec (d_cur d) id); [congruence|]. split; [exact H1|lia].
    + intros c [<-|Hin]; rewrite alookup_aset.
      * unfold seg_of. cbn [c_off]. rewrite Hseg, N.eqb_refl. eauto.
      * destruct (N.eqb (seg_of c) (d_cur d)); [eauto|]. apply I1; exact Hin.
  - assert (Hretry : forall x, match d_strategy d with
        | Static => DVal (d, AErr EOutOfMemory)
        | _ => match dyn_create_resized d sg l with
               | Panic => DPanic
               | Val (d1, false) => DVal (d1, AErr EOutOfMemory)
               | Val (d1, true) => dyn_allocate_fuel f d1 l
               end
        end = DVal (d', r) -> x = tt ->
        match r with AOk off => mem_inv d' ({| c_off := off; c_reg := false |} :: live) | AErr _ => mem_inv d' live end).
    { intros _ E _. destruct (d_strategy d).
      - destruct (dyn_create_resized d sg l) as [[d1 [|]]|] eqn:Hc; [| |discriminate].
        + destruct (dyn_create_resized_inv _ _ _ _ _ _ Hi Hsg Hc) as [Hi1 _]. eapply IH; eauto.
        + inversion E. subst. destruct (dyn_create_resized_inv _ _ _ _ _ _ Hi Hsg Hc) as [Hi1 _]. exact Hi1.
      - destruct (dyn_create_resized d sg l) as [[d1 [|]]|] eqn:Hc; [| |discriminate].
        + destruct (dyn_create_resized_inv _ _ _ _ _ _ Hi Hsg Hc) as [Hi1 _]. eapply IH; eauto.
        + inversion E. subst. destruct (dyn_create_resized_inv _ _ _ _ _ _ Hi Hsg Hc) as [Hi1 _]. exact Hi1.
      - inversion E. subst. exact Hi. }
    destruct e; intros E; try (inversion E; subst; exact Hi); apply (Hretry tt E eq_refl).
Qed.

(* ---- sender: deallocate ---- *)
Lemma dyn_deallocate_inv d live k c d' :
  mem_inv d live -> nth_error live k = Some c -> dyn_deallocate d (c_off c) = Val d' ->
  mem_inv d' (drop_nth k live).
Proof.
  intros Hi Hk. pose proof (nth_error_In _ _ Hk) as Hin.
  destruct Hi as (Hcur & (scur & Hscur) & I2 & I1). unfold dyn_deallocate.
  fold (seg_of c). destruct (I1 c Hin) as (sg & Hsg). rewrite Hsg.
  destruct (cal_deallocate (s_cal sg) (c_off c)) as [c'|]; [|discriminate].
  destruct (I2 _ _ Hsg) as [Hle Hcnt].
  pose proof (cnt_pos (seg_of c) c live Hin eq_refl) as Hpos.
  pose proof (cnt_drop_nth (seg_of c) k live c Hk) as Hd. rewrite N.eqb_refl in Hd.
  destruct (N.eqb_spec (s_count sg) 1) as [H1|H1]; destruct (N.eqb_spec (seg_of c) (d_cur d)) as [Hc|Hc]; cbn [negb andb];
    intros E; inversion E; subst; clear E; unfold mem_inv, dyn_with; cbn [d_cur d_segs].
  all: split; [exact Hcur|].
  all: try (split; [rewrite alookup_aset; destruct (N.eqb (d_cur d) (seg_of c)); eauto|]).
  all: try (split; [rewrite alookup_aremove; destruct (N.eqb_spec (d_cur d) (seg_of c)); [congruence|eauto]|]).
  all: split.
  (* count 1, is current: aset with count 0 *)
  all: try (intros id s0; rewrite alookup_aset; destruct (N.eqb_spec id (seg_of c)) as [->|Hne];
            [intros E; inversion E; subst; cbn [s_count]; split; [exact Hle|];
             destruct (N.eqb_spec (s_count sg) 0); lia
            |intros Hl; destruct (I2 _ _ Hl) as [G1 G2]; split; [exact G1|];
             pose proof (cnt_drop_nth id k live c Hk) as Hd2;
             destruct (N.eqb_spec (seg_of c) id); [congruence|lia]]).
  all: try (intros c0 Hin0; apply in_drop_nth in Hin0; rewrite alookup_aset;
            destruct (N.eqb (seg_of c0) (seg_of c)); [eauto|apply I1; exact Hin0]).
  (* count 1, not current: removed *)
  - intros id s0. rewrite alookup_aremove. destruct (N.eqb_spec id (seg_of c)) as [->|Hne]; [discriminate|].
    intros Hl. destruct (I2 _ _ Hl) as [G1 G2]. split; [exact G1|].
    pose proof (cnt_drop_nth id k live c Hk) as Hd2. destruct (N.eqb_spec (seg_of c) id); [congruence|lia].
  - intros c0 Hin0. rewrite alookup_aremove. destruct (N.eqb_spec (seg_of c0) (seg_of c)) as [He|He].
    + exfalso. pose proof (cnt_pos (seg_of c) c0 _ Hin0 He). lia.
    + apply I1. eapply in_drop_nth; eauto.
Qed.

(* ---- receiver ---- *)
Lemma view_register_inv d v live k c :
  mem_inv d live -> view_inv v live -> nth_error live k = Some c -> c_reg c = false ->
  exists v' r, view_register (seg_exists d) v (c_off c) = (v', Some r) /\
               r = (seg_of c, po_offset (c_off c)) /\ view_inv v' (set_reg k true live).
Proof.
  intros Hm (V1 & V2 & V3) Hk Hr. pose proof (nth_error_In _ _ Hk) as Hin.
  destruct Hm as (_ & _ & _ & I1). destruct (I1 c Hin) as (sg & Hsg).
  unfold view_register. fold (seg_of c). unfold seg_exists. rewrite Hsg.
  assert (Hcr : forall id, cnt_reg id (set_reg k true live) = cnt_reg id live + (if N.eqb (seg_of c) id then 1 else 0))
    by (intros id; apply cnt_reg_set_true; assumption).
  assert (Hmem : forall c0, In c0 (set_reg k true live) -> c_reg c0 = true ->
            seg_of c0 = seg_of c \/ (In c0 live /\ c_reg c0 = true)).
  { intros c0 H0 Hr0. destruct (in_set_reg _ _ _ _ H0) as [H1|(c1 & E1 & ->)]; [right; auto|].
    rewrite Hk in E1. inversion E1. left. reflexivity. }
  destruct (alookup (seg_of c) (v_segs v)) as [n|] eqn:Hl.
  - eexists. eexists. split; [reflexivity|]. split; [reflexivity|]. unfold view_inv. cbn [v_segs v_cur]. split; [|split].
    + intros id m. rewrite alookup_aset, Hcr. destruct (N.eqb_spec id (seg_of c)) as [->|Hne].
      * intros E. inversion E. rewrite N.eqb_refl. rewrite (V1 _ _ Hl). reflexivity.
      * intros Hm. destruct (N.eqb_spec (seg_of c) id); [congruence|]. rewrite (V1 _ _ Hm). lia.
    + intros c0 H0 Hr0. rewrite alookup_aset. destruct (N.eqb_spec (seg_of c0) (seg_of c)); [eauto|].
      destruct (Hmem c0 H0 Hr0) as [?|[H1 H2]]; [contradiction|]. apply V2; assumption.
    + intros k0 Hk0. rewrite alookup_aset. destruct (N.eqb k0 (seg_of c)); [eauto|]. apply V3; exact Hk0.
  - (* new segment on the receiver side; nothing registered there so far *)
    assert (Hz : cnt_reg (seg_of c) live = 0).
    { destruct (N.eq_dec (cnt_reg (seg_of c) live) 0) as [|Hne]; [assumption|exfalso].
      unfold cnt_reg, lenN in Hne.
      destruct (filter (fun c0 => N.eqb (seg_of c0) (seg_of c) && c_reg c0) live) as [|c0 r0] eqn:Hf; [cbn in Hne; lia|].
      assert (Hin0 : In c0 (filter (fun c0 => N.eqb (seg_of c0) (seg_of c) && c_reg c0) live)) by (rewrite Hf; left; reflexivity).
      apply filter_In in Hin0. destruct Hin0 as [Hin0 Hb]. apply andb_true_iff in Hb. destruct Hb as [Hb1 Hb2].
      apply N.eqb_eq in Hb1. destruct (V2 c0 Hin0 Hb2) as (n0 & Hn0). rewrite Hb1 in Hn0. congruence. }
    set (m1 := aset (seg_of c) 1 (v_segs v)).
    assert (Hm1 : forall id m, alookup id m1 = Some m -> m = cnt_reg id (set_reg k true live)).
    { intros id m. unfold m1. rewrite alookup_aset, Hcr. destruct (N.eqb_spec id (seg_of c)) as [->|Hne].
      - intros E. inversion E. rewrite N.eqb_refl, Hz. reflexivity.
      - intros Hm. destruct (N.eqb_spec (seg_of c) id); [congruence|]. rewrite (V1 _ _ Hm). lia. }
    assert (Hm1in : forall c0, In c0 (set_reg k true live) -> c_reg c0 = true -> exists n, alookup (seg_of c0) m1 = Some n).
    { intros c0 H0 Hr0. unfold m1. rewrite alookup_aset. destruct (N.eqb_spec (seg_of c0) (seg_of c)); [eauto|].
      destruct (Hmem c0 H0 Hr0) as [?|[H1 H2]]; [contradiction|]. apply V2; assumption. }
    eexists. eexists. split; [reflexivity|]. split; [reflexivity|]. unfold view_inv. cbn [v_segs v_cur].
    destruct (v_cur v) as [old|]; [|split; [exact Hm1|split; [exact Hm1in|]]].
    2:{ intros k0 E. inversion E. unfold m1. rewrite alookup_aset, N.eqb_refl. eauto. }
    destruct (alookup old m1) as [[|p]|] eqn:Ho.
    + (* old current segment unused: released *)
      split; [|split].
      * intros id m. rewrite alookup_aremove. destruct (N.eqb id old); [discriminate|apply Hm1].
      * intros c0 H0 Hr0. rewrite alookup_aremove. destruct (N.eqb_spec (seg_of c0) old) as [He|He]; [|apply Hm1in; assumption].
        exfalso. pose proof (Hm1 _ _ Ho) as Hc0. pose proof (cnt_reg_pos old c0 _ H0 He Hr0). lia.
      * intros k0 E. inversion E. subst k0. rewrite alookup_aremove.
        destruct (N.eqb_spec (seg_of c) old) as [He|He].
        -- exfalso. unfold m1 in Ho. rewrite alookup_aset, <- He, N.eqb_refl in Ho. discriminate.
        -- unfold m1. rewrite alookup_aset, N.eqb_refl. eauto.
    + split; [exact Hm1|split; [exact Hm1in|]]. intros k0 E. inversion E. unfold m1. rewrite alookup_aset, N.eqb_refl. eauto.
    + split; [exact Hm1|split; [exact Hm1in|]]. intros k0 E. inversion E. unfold m1. rewrite alookup_aset, N.eqb_refl. eauto.
Qed.

Lemma view_unregister_inv v live k c :
  view_inv v live -> nth_error live k = Some c -> c_reg c = true ->
  view_inv (view_unregister v (c_off c)) (set_reg k false live).
Proof.
  intros (V1 & V2 & V3) Hk Hr. pose proof (nth_error_In _ _ Hk) as Hin.
  unfold view_unregister. fold (seg_of c). destruct (V2 c Hin Hr) as (n & Hn). rewrite Hn.
  pose proof (V1 _ _ Hn) as Hnc. pose proof (cnt_reg_pos (seg_of c) c live Hin eq_refl Hr) as Hpos.
  assert (Hcr : forall id, cnt_reg id (set_reg k false live) + (if N.eqb (seg_of c) id then 1 else 0) = cnt_reg id live)
    by (intros id; apply cnt_reg_set_false; assumption).
  assert (Hmem : forall c0, In c0 (set_reg k false live) -> c_reg c0 = true -> In c0 live).
  { intros c0 H0 Hr0. destruct (in_set_reg _ _ _ _ H0) as [H1|(c1 & E1 & ->)]; [exact H1|]. cbn in Hr0. discriminate. }
  destruct (N.eqb_spec n 1) as [H1|H1];
  destruct (match v_cur v with Some k0 => N.eqb k0 (seg_of c) | None => false end) eqn:Hcur; cbn [negb andb];
  unfold view_inv; cbn [v_segs v_cur].
  all: try (split; [intros id m; rewrite alookup_aset; destruct (N.eqb_spec id (seg_of c)) as [->|Hne];
       [intros E; inversion E; specialize (Hcr (seg_of c)); rewrite N.eqb_refl in Hcr; destruct (N.eqb_spec n 0); lia
       |intros Hm; specialize (Hcr id); destruct (N.eqb_spec (seg_of c) id); [congruence|]; rewrite (V1 _ _ Hm); lia]|]).
  all: try (split; [intros c0 H0 Hr0; rewrite alookup_aset; destruct (N.eqb (seg_of c0) (seg_of c)); [eauto|]; apply V2; [apply Hmem|]; assumption|]).
  all: try (intros k0 Hk0; rewrite alookup_aset; destruct (N.eqb k0 (seg_of c)); [eauto|apply V3; exact Hk0]).
  (* n = 1 and not current: removed *)
  split; [|split].
  - intros id m. rewrite alookup_aremove. destruct (N.eqb_spec id (seg_of c)) as [->|Hne]; [discriminate|].
    intros Hm. specialize (Hcr id). destruct (N.eqb_spec (seg_of c) id); [congruence|]. rewrite (V1 _ _ Hm). lia.
  - intros c0 H0 Hr0. rewrite alookup_aremove. destruct (N.eqb_spec (seg_of c0) (seg_of c)) as [He|He].
    + exfalso. pose proof (cnt_reg_pos (seg_of c) c0 _ H0 He Hr0). specialize (Hcr (seg_of c)). rewrite N.eqb_refl in Hcr. lia.
    + apply V2; [apply Hmem|]; assumption.
  - intros k0 Hk0. rewrite alookup_aremove. rewrite Hk0 in Hcur. rewrite Hcur. apply V3; exact Hk0.
Qed.

(* ---- the system ---- *)
Lemma view_inv_cons_unreg v live off : view_inv v live -> view_inv v ({| c_off := off; c_reg := false |} :: live).
Proof.
  intros (V1 & V2 & V3). split; [|split; [|exact V3]].
  - intros id n Hn. rewrite cnt_reg_cons. cbn [c_reg]. rewrite andb_false_r. rewrite (V1 _ _ Hn). lia.
  - intros c [<-|Hin] Hr; [cbn in Hr; discriminate|]. apply V2; assumption.
Qed.

Lemma view_inv_drop v live k c : view_inv v live -> nth_error live k = Some c -> c_reg c = false ->
  view_inv v (drop_nth k live).
Proof.
  intros (V1 & V2 & V3) Hk Hr. split; [|split; [|exact V3]].
  - intros id n Hn. rewrite (cnt_reg_drop_nth id k live c Hk Hr). apply V1; exact Hn.
  - intros c0 H0 Hr0. apply V2; [eapply in_drop_nth; eauto|exact Hr0].
Qed.

Lemma mem_inv_set_reg d live k b : mem_inv d live -> mem_inv d (set_reg k b live).
Proof.
  intros (H1 & H2 & I2 & I1). split; [exact H1|]. split; [exact H2|]. split.
  - intros id sg Hl. rewrite cnt_set_reg. apply I2; exact Hl.
  - intros c0 H0. destruct (in_set_reg _ _ _ _ H0) as [Hin|(c1 & E1 & ->)]; [apply I1; exact Hin|].
    rewrite seg_of_set_reg_head. apply I1. eapply nth_error_In; eauto.
Qed.

Theorem sys_step_inv s o : sys_inv s -> sys_step s o <> OpenFailed /\ (forall s', sys_step s o = Ok s' -> sys_inv s').
Proof.
  intros [Hm Hv]. destruct o as [l|k|k|k]; cbn [sys_step].
  - unfold dyn_allocate. destruct (dyn_allocate_fuel 258 (y_mem s) l) as [[d' [off|e]]| |] eqn:E; (split; [discriminate|]); intros s' Es; inversion Es; subst; clear Es.
    + pose proof (dyn_allocate_fuel_inv _ _ _ _ _ _ Hm E) as Hm'. split; [exact Hm'|]. cbn. apply view_inv_cons_unreg; exact Hv.
    + pose proof (dyn_allocate_fuel_inv _ _ _ _ _ _ Hm E) as Hm'. split; [exact Hm'|exact Hv].
  - destruct (nth_error (y_live s) k) as [c|] eqn:Hk; [|split; [discriminate|intros s' E; inversion E; subst; split; assumption]].
    destruct (c_reg c) eqn:Hr; [split; [discriminate|intros s' E; inversion E; subst; split; assumption]|].
    destruct (view_register_inv _ _ _ _ _ Hm Hv Hk Hr) as (v' & r & -> & _ & Hv').
    split; [discriminate|]. intros s' E. inversion E. subst. split; cbn; [apply mem_inv_set_reg; exact Hm|exact Hv'].
  - destruct (nth_error (y_live s) k) as [c|] eqn:Hk; [|split; [discriminate|intros s' E; inversion E; subst; split; assumption]].
    destruct (c_reg c) eqn:Hr; (split; [discriminate|]); intros s' E; inversion E; subst; [|split; assumption].
    split; cbn; [apply mem_inv_set_reg; exact Hm|apply view_unregister_inv; assumption].
  - destruct (nth_error (y_live s) k) as [c|] eqn:Hk; [|split; [discriminate|intros s' E; inversion E; subst; split; assumption]].
    destruct (c_reg c) eqn:Hr; [split; [discriminate|intros s' E; inversion E; subst; split; assumption]|].
    destruct (dyn_deallocate (y_mem s) (c_off c)) as [d'|] eqn:Ed; (split; [discriminate|]); intros s' E; inversion E; subst.
    split; cbn; [eapply dyn_deallocate_inv; eauto|eapply view_inv_drop; eauto].
Qed.

Lemma sys_init_inv maxmem base st hint n d : dyn_new maxmem base st hint n = Val (Some d) -> sys_inv (sys_init d).
Proof.
  unfold dyn_new. destruct (seg_create maxmem base hint (setup_payload_size hint n)) as [[sg|]|] eqn:Hc; try discriminate.
  intros E. inversion E. subst. clear E.
  assert (Hns : s_count sg = 0).
  { unfold seg_create in Hc. destruct (N.eqb (setup_payload_size hint n) 0); [discriminate|].
    destruct (cal_new _ _ _ _) as [cc|]; [|discriminate]. destruct (cal_init_ok cc); inversion Hc. reflexivity. }
  split; cbn.
  - unfold mem_inv. cbn [d_cur d_segs alookup]. split; [lia|]. split; [rewrite N.eqb_refl; eauto|]. split.
    + intros id s0. destruct (N.eqb_spec id 0) as [->|]; [|discriminate]. intros E. inversion E. subst. split; [lia|exact Hns].
    + intros c [].
  - unfold view_inv, view_new. cbn. split; [discriminate|]. split; [intros c []|discriminate].
Qed.

Lemma sys_run_inv ops : forall s, sys_inv s ->
  sys_run s ops <> OpenFailed /\ (forall s', sys_run s ops = Ok s' -> sys_inv s').
Proof.
  induction ops as [|o r IH]; intros s Hi; cbn [sys_run].
  - split; [discriminate|]. intros s' E. inversion E. subst. exact Hi.
  - destruct (sys_step_inv s o Hi) as [H1 H2]. destruct (sys_step s o) as [s1| |] eqn:Es; [|split; discriminate|contradiction].
    apply IH. apply H2. reflexivity.
Qed.

(* c15_growth_keeps_data *)
Theorem growth_keeps_data maxmem base st hint n d ops :
  dyn_new maxmem base st hint n = Val (Some d) ->
  sys_run (sys_init d) ops <> OpenFailed /\
  forall s, sys_run (sys_init d) ops = Ok s ->
    (* every outstanding offset still has its segment on the sender side ... *)
    (forall c, In c (y_live s) -> exists sg, alookup (po_segment (c_off c)) (d_segs (y_mem s)) = Some sg /\ 1 <= s_count sg) /\
    (* ... and, once registered, on the receiver side; registering an outstanding offset
       resolves it to (its segment id, its offset) *)
    (forall c, In c (y_live s) -> c_reg c = true -> exists m, alookup (po_segment (c_off c)) (v_segs (y_view s)) = Some m /\ 1 <= m) /\
    (forall k c, nth_error (y_live s) k = Some c -> c_reg c = false ->
       exists v', view_register (seg_exists (y_mem s)) (y_view s) (c_off c) = (v', Some (po_segment (c_off c), po_offset (c_off c)))) /\
    (* segment ids are never reused: all live ids are <= the current one, which only grows *)
    (forall c, In c (y_live s) -> po_segment (c_off c) <= d_cur (y_mem s)) /\ d_cur (y_mem s) < 256.
Proof.
  intros Hn. pose proof (sys_init_inv _ _ _ _ _ _ Hn) as Hi.
  destruct (sys_run_inv ops _ Hi) as [H1 H2]. split; [exact H1|].
  intros s Hs. destruct (H2 _ Hs) as [Hm Hv]. pose proof Hm as (Hcur & _ & I2 & I1). pose proof Hv as (V1 & V2 & _).
  split; [|split; [|split; [|split]]].
  - intros c Hin. destruct (I1 c Hin) as (sg & Hsg). exists sg. split; [exact Hsg|].
    destruct (I2 _ _ Hsg) as [_ ->]. apply (cnt_pos _ c); auto.
  - intros c Hin Hr. destruct (V2 c Hin Hr) as (m & Hm'). exists m. split; [exact Hm'|].
    rewrite (V1 _ _ Hm'). apply (cnt_reg_pos _ c); auto.
  - intros k c Hk Hr. destruct (view_register_inv _ _ _ _ _ Hm Hv Hk Hr) as (v' & r & E & -> & _). exists v'. exact E.
  - intros c Hin. apply (mem_inv_seg_le _ _ c Hm Hin).
  - exact Hcur.
Qed.
