(* Subscriber-side functions and the order invariant (proofs/PortOrd.v). *)
From V Require Import model.Base model.Conn model.Port proofs.ListLemmas proofs.ConnProofs proofs.PortProofs proofs.PortView proofs.PortInv
  proofs.PortInvSub proofs.PortOrd.
From Coq Require Import Lia.
Local Open Scope nat_scope.

Ltac ntr := eapply NeutralS_trans.

Lemma N_storage_remove w s key : NeutralS w (sub_storage_remove w s key).
Proof.
  unfold sub_storage_remove. cbn zeta. destruct (nth key (s_store (gets w s)) None) as [e|]; [|apply NeutralS_refl].
  match goal with |- NeutralS w (sets ?ww _ _) => set (w1 := ww) end.
  assert (N1 : NeutralS w w1).
  { unfold w1. destruct (getc w (se_pub e) s) as [c|] eqn:Hc; [|apply NeutralS_refl]. apply NS_setc. right. exists c. split; [exact Hc|reflexivity]. }
  assert (G : gets w1 s = gets w s) by (unfold w1; destruct (getc w (se_pub e) s); [apply gets_setc|reflexivity]).
  ntr; [exact N1|]. rewrite <- G. apply NS_sets; auto.
Qed.

Lemma N_tbr_remove w s idx : NeutralS w (tbr_remove w s idx).
Proof. unfold tbr_remove. cbn zeta. apply NS_sets; auto. Qed.

Lemma N_prepare_removal w s index w' : sub_prepare_removal w s index = Val w' -> NeutralS w w'.
Proof.
  unfold sub_prepare_removal. cbn zeta. intros Hv.
  destruct (nth index (s_tab (gets w s)) None) as [key|]; [|inversion Hv; subst; apply NeutralS_refl].
  destruct (nth key (s_store (gets w s)) None) as [e|]; [|inversion Hv; subst; apply NeutralS_refl].
  destruct (sub_data_borrows w s key) as [hd hb].
  destruct (hd || hb); [|inversion Hv; subst; apply N_storage_remove].
  destruct (Nat.ltb (length (s_tbr (gets w s))) (s_tbrcap (gets w s))); [inversion Hv; subst; apply NS_sets; auto|].
  match type of Hv with rbind ?m _ = _ => destruct m as [w1|] eqn:E1 end; [|discriminate]. cbn [rbind] in Hv.
  assert (N1 : NeutralS w w1).
  { destruct (find_tbr w s _ (s_tbr (gets w s)) 0) as [[i k]|].
    - inversion E1; subst. ntr; [apply N_tbr_remove|apply N_storage_remove].
    - destruct hb; [|inversion E1; subst; apply NeutralS_refl].
      destruct (find_tbr w s _ (s_tbr (gets w s)) 0) as [[i k]|]; inversion E1; subst; [|apply NeutralS_refl].
      ntr; [apply N_tbr_remove|apply N_storage_remove]. }
  ntr; [exact N1|].
  destruct (Nat.ltb (length (s_tbr (gets w1 s))) (s_tbrcap (gets w1 s))); [inversion Hv; subst; apply NS_sets; auto|].
  destruct hb; [discriminate|]. inversion Hv; subst. apply N_storage_remove.
Qed.

Lemma N_create_connection w s index d w' : sub_create_connection w s index d = Val w' -> NeutralS w w'.
Proof.
  unfold sub_create_connection. cbn zeta. intros Hv.
  destruct (s_freekeys (gets w s)) as [|key fk]; [discriminate|]. inversion Hv; subst w'. clear Hv.
  match goal with |- NeutralS w (sets ?ww _ _) => set (w1 := ww) end.
  assert (N1 : NeutralS w w1).
  { unfold w1. apply NS_setc. destruct (getc w (pd_id d) s) as [c|] eqn:Hc; [right; exists c; auto|left; reflexivity]. }
  assert (G : gets w1 s = gets w s) by apply gets_setc.
  ntr; [exact N1|]. rewrite <- G. apply NS_sets; auto.
Qed.

Lemma N_tag w s key : NeutralS w (sub_tag w s key).
Proof. unfold sub_tag. cbn zeta. destruct (nth key (s_store (gets w s)) None); [apply NS_sets; auto|apply NeutralS_refl]. Qed.

Lemma N_update_connection w s index d w' : sub_update_connection w s index d = Val w' -> NeutralS w w'.
Proof.
  unfold sub_update_connection. cbn zeta. intros Hv.
  match type of Hv with match ?m with Some _ => _ | None => _ end = _ => destruct m as [key|] end.
  - inversion Hv; subst. apply N_tag.
  - destruct (sub_prepare_removal w s index) as [w1|] eqn:E1; [|discriminate]. cbn [rbind] in Hv.
    ntr; [eapply N_prepare_removal; eauto|eapply N_create_connection; eauto].
Qed.

Lemma N_update_slots s : forall slots i w w', sub_update_slots w s slots i = Val w' -> NeutralS w w'.
Proof.
  induction slots as [|[d|] t IH]; intros i w w' Hv; cbn [sub_update_slots] in Hv.
  - inversion Hv; subst. apply NeutralS_refl.
  - destruct (sub_update_connection w s i d) as [w1|] eqn:E1; [|discriminate]. cbn [rbind] in Hv.
    ntr; [eapply N_update_connection; eauto|eapply IH; eauto].
  - eapply IH; eauto.
Qed.

Lemma N_finish_cycle s : forall n i w w', sub_finish_cycle w s n i = Val w' -> NeutralS w w'.
Proof.
  induction n as [|n IH]; intros i w w' Hv; cbn [sub_finish_cycle] in Hv.
  - inversion Hv; subst. apply NeutralS_refl.
  - cbn zeta in Hv. match type of Hv with rbind ?m _ = _ => destruct m as [w1|] eqn:E1 end; [|discriminate]. cbn [rbind] in Hv.
    ntr; [|eapply IH; eauto].
    destruct (nth i (s_tab (gets w s)) None) as [key|]; [|inversion E1; subst; apply NeutralS_refl].
    destruct (nth key (s_store (gets w s)) None) as [e|]; [|inversion E1; subst; apply NeutralS_refl].
    destruct (se_tag e); [inversion E1; subst; apply NeutralS_refl|].
    destruct (sub_prepare_removal w s i) as [w2|] eqn:E2; [|discriminate]. cbn [rbind] in E1. inversion E1; subst.
    ntr; [eapply N_prepare_removal; eauto|apply NS_sets; auto].
Qed.

Lemma N_start_cycle w s : NeutralS w (sub_start_cycle w s).
Proof. unfold sub_start_cycle. cbn zeta. apply NS_sets; auto. Qed.

Lemma N_force_update w s w' : sub_force_update w s = Val w' -> NeutralS w w'.
Proof.
  unfold sub_force_update. cbn zeta. intros Hv.
  match type of Hv with rbind ?m _ = _ => destruct m as [w1|] eqn:E1 end; [|discriminate]. cbn [rbind] in Hv.
  ntr; [apply N_start_cycle|]. ntr; [eapply N_update_slots; eauto|eapply N_finish_cycle; eauto].
Qed.

Lemma N_sub_update_connections w s w' : sub_update_connections w s = Val w' -> NeutralS w w'.
Proof.
  unfold sub_update_connections. cbn zeta. intros Hv.
  destruct (reg_update_state (w_preg w) (s_snap (gets w s))) as [sn ch].
  destruct ch; [|inversion Hv; subst; apply NeutralS_refl].
  ntr; [|eapply N_force_update; eauto]. apply NS_sets; auto.
Qed.

Lemma N_detach_all s : forall n key w, NeutralS w (sub_detach_all w s n key).
Proof.
  induction n as [|n IH]; intros key w; cbn [sub_detach_all]; [apply NeutralS_refl|].
  ntr; [apply N_storage_remove|apply IH].
Qed.

Lemma N_sub_maybe_drop_state w s : NeutralS w (sub_maybe_drop_state w s).
Proof.
  unfold sub_maybe_drop_state. cbn zeta.
  destruct (negb (s_active (gets w s)) && s_alive (gets w s) && negb (has_samples_of w s)); [|apply NeutralS_refl].
  ntr; [ntr; [|apply N_detach_all]|]; apply NS_sets; auto. cbn. discriminate.
Qed.

Lemma release_idxs c o c1 b : c_release c o = Val (c1, b) -> idxs c1 = idxs c.
Proof.
  unfold c_release. destruct (Nat.ltb _ _); [destruct (c_borrow c); [discriminate|]|]; intros H; inversion H; subst; reflexivity.
Qed.

Lemma N_sample_drop w x w' : sample_drop w x = Val w' -> NeutralS w w'.
Proof.
  unfold sample_drop. cbn zeta. intros Hv.
  match type of Hv with rbind ?m _ = _ => destruct m as [w1|] eqn:E1 end; [|discriminate]. cbn [rbind] in Hv. inversion Hv; subst w'.
  assert (N1 : NeutralS w w1).
  { destruct (nth (x_key x) (s_store (gets w (x_sub x))) None) as [e|]; [|inversion E1; subst; apply NeutralS_refl].
    destruct (negb (Nat.eqb (se_pub e) (x_origin x))); [inversion E1; subst; apply NeutralS_refl|].
    destruct (getc w (se_pub e) (x_sub x)) as [c|] eqn:Hc; [|inversion E1; subst; apply NeutralS_refl].
    destruct (c_release c (x_off x)) as [[c1 b]|] eqn:Hr; [|discriminate]. cbn [rbind fst] in E1. inversion E1; subst.
    apply NS_setc. right. exists c. split; [exact Hc|eapply release_idxs; eauto]. }
  ntr; [exact N1|]. ntr; [|apply N_sub_maybe_drop_state]. apply NS_same; reflexivity.
Qed.

Lemma N_sub_drop w s : NeutralS w (sub_drop w s).
Proof.
  unfold sub_drop. cbn zeta. ntr; [|apply N_sub_maybe_drop_state].
  apply (NeutralS_trans _ (sets w s (s_set_life (gets w s) false (s_alive (gets w s))))); [|apply NS_same; reflexivity].
  apply NS_sets; auto. cbn. discriminate.
Qed.

Lemma N_sub_create w buf hreq w' r :
  (forall p s c, getc w p s = Some c -> s < length (w_subs w)) -> sub_create w buf hreq = Val (w', r) -> NeutralS w w'.
Proof.
  unfold sub_create. cbn zeta. intros Hr Hv.
  match type of Hv with match ?m with inl _ => _ | inr _ => _ end = _ => destruct m as [b|e] end; [|inversion Hv; subst; apply NeutralS_refl].
  match type of Hv with match ?m with inl _ => _ | inr _ => _ end = _ => destruct m as [h|e] end; [|inversion Hv; subst; apply NeutralS_refl].
  match type of Hv with match ?m with Some _ => _ | None => _ end = _ => destruct m as [[reg slot]|] end; [|inversion Hv; subst; apply NeutralS_refl].
  match type of Hv with rbind ?m _ = _ => destruct m as [w2|] eqn:E2 end; [|discriminate]. cbn [rbind] in Hv. inversion Hv; subst.
  match type of E2 with sub_force_update ?ww _ = _ => apply (NeutralS_trans _ ww) end; [apply NS_add_sub; [reflexivity|exact Hr]|].
  apply (NeutralS_trans _ w2); [eapply N_force_update; eauto|apply NS_same; reflexivity].
Qed.

(* ---------------------------------------------------------------------------------------- *)
(* receive                                                                                   *)
(* ---------------------------------------------------------------------------------------- *)
Lemma filter_app_one {A} (f : A -> bool) l a : filter f (l ++ [a]) = filter f l ++ (if f a then [a] else []).
Proof. rewrite filter_app. cbn. destruct (f a); reflexivity. Qed.

Lemma recvidx_app_one p (l : list rlog) r :
  map rl_idx (filter (fun r0 => Nat.eqb (rl_pub r0) p) (l ++ [r]))
  = map rl_idx (filter (fun r0 => Nat.eqb (rl_pub r0) p) l) ++ (if Nat.eqb (rl_pub r) p then [rl_idx r] else []).
Proof. rewrite filter_app_one, map_app. destruct (Nat.eqb (rl_pub r) p); reflexivity. Qed.

Lemma receive_from_ord w s key w' r :
  s < length (w_subs w) -> Ord w -> sub_receive_from w s key = (w', r) -> Ord w' /\ SubMove w w'.
Proof.
  intros Ls O Hv. unfold sub_receive_from, sub_conn in Hv.
  assert (Triv : Ord w /\ SubMove w w) by (split; [exact O|apply SubMove_refl]).
  destruct (nth key (s_store (gets w s)) None) as [en|]; [|inversion Hv; subst; exact Triv].
  destruct (getc w (se_pub en) s) as [c|] eqn:Hc; [|inversion Hv; subst; exact Triv].
  destruct (c_receive c) as [c1 [[e|]|]] eqn:Hr; [|inversion Hv; subst; exact Triv..].
  clear Triv. set (p := se_pub en) in *.
  pose proof (receive_idxs _ _ _ Hr) as Hi.
  set (w1 := setc w p s c1) in *.
  set (rl := {| rl_pub := p; rl_idx := q_idx e; rl_pl := nth (q_off e) (p_mem (getp w p)) pl0 |}) in *.
  set (x1 := s_set_recv (gets w1 s) (s_recv (gets w1 s) ++ [rl])) in *.
  assert (Gp : forall q, getp w' q = getp w q) by (intros q; inversion Hv; subst w'; cbn; apply getp_setc).
  assert (Gs : forall t, gets w' t = if Nat.eqb t s then x1 else gets w t).
  { intros t. inversion Hv; subst w'. change (gets (sets w1 s x1) t = if Nat.eqb t s then x1 else gets w t).
    destruct (Nat.eqb_spec t s) as [->|Hne]; [apply gets_sets_same; unfold w1; now rewrite len_subs_setc|].
    rewrite gets_sets_other by congruence. apply gets_setc. }
  assert (Gc : forall q t, getc w' q t = getc w1 q t) by (intros q t; inversion Hv; subst w'; reflexivity).
  assert (Gc1 : getc w' p s = Some c1 \/ getc w' p s = None).
  { rewrite Gc. unfold w1. rewrite getc_setc_eq. destruct (c_snd c1 || c_rcv c1); auto. }
  assert (Gc2 : forall q t, (q, t) <> (p, s) -> getc w' q t = getc w q t).
  { intros q t Hne. rewrite Gc. unfold w1. apply getc_setc_ne. congruence. }
  assert (G1 : gets w1 s = gets w s) by apply gets_setc.
  assert (R1 : forall q t, (q, t) <> (p, s) -> recvidx w' t q = recvidx w t q).
  { intros q t Hne. unfold recvidx. rewrite Gs. destruct (Nat.eqb_spec t s) as [->|]; [|reflexivity].
    unfold x1. cbn [s_recv s_set_recv]. rewrite recvidx_app_one, G1. cbn [rl_pub rl].
    destruct (Nat.eqb_spec p q) as [<-|]; [congruence|]. now rewrite app_nil_r. }
  assert (R2 : recvidx w' s p = recvidx w s p ++ [q_idx e]).
  { unfold recvidx. rewrite Gs, Nat.eqb_refl. unfold x1. cbn [s_recv s_set_recv]. rewrite recvidx_app_one, G1. cbn [rl_pub rl rl_idx]. now rewrite Nat.eqb_refl. }
  assert (Sn : forall q, nsent w' q = nsent w q) by (intros q; unfold nsent; now rewrite Gp).
  assert (Sa : forall t, sact w' t <-> sact w t).
  { intros t. unfold sact. rewrite Gs. destruct (Nat.eqb_spec t s) as [->|]; [unfold x1; cbn; rewrite G1|]; tauto. }
  assert (Pa : forall q, pact w' q <-> pact w q) by (intros q; unfold pact; rewrite Gp; tauto).
  destruct O as [a b c0 d].
  assert (Hps : IncB ((recvidx w s p ++ [q_idx e]) ++ idxs c1) (nsent w p)).
  { rewrite <- app_assoc. cbn [app]. rewrite <- Hi. now apply a. }
  split.
  - constructor.
    + intros q t c' Hc'. rewrite Sn. destruct (Nat.eq_dec q p) as [->|Hq]; [destruct (Nat.eq_dec t s) as [->|Ht]|].
      * destruct Gc1 as [E|E]; rewrite E in Hc'; [|discriminate]. inversion Hc'; subst c'. rewrite R2. exact Hps.
      * rewrite R1 by congruence. rewrite Gc2 in Hc' by congruence. now apply a.
      * rewrite R1 by congruence. rewrite Gc2 in Hc' by congruence. now apply a.
    + intros q t. rewrite Sn. destruct (Nat.eq_dec q p) as [->|Hq]; [destruct (Nat.eq_dec t s) as [->|Ht]|].
      * rewrite R2. eapply IncB_app_l; eauto.
      * rewrite R1 by congruence. apply b.
      * rewrite R1 by congruence. apply b.
    + intros q. unfold histidx. rewrite Gp, Sn. apply c0.
    + intros q t Hq Ht Hni. apply Pa in Hq. apply Sa in Ht. rewrite Gp in Hni.
      destruct (d q t Hq Ht Hni) as [D1 D2].
      destruct (Nat.eq_dec q p) as [->|Hqp]; [destruct (Nat.eq_dec t s) as [->|Hts]|].
      * exfalso. rewrite (D2 c Hc) in Hi. discriminate.
      * rewrite R1 by congruence. split; [exact D1|]. intros c' Hc'. rewrite Gc2 in Hc' by congruence. now apply D2.
      * rewrite R1 by congruence. split; [exact D1|]. intros c' Hc'. rewrite Gc2 in Hc' by congruence. now apply D2.
  - intros q t j Hj. unfold allidx, qidx in *.
    destruct (Nat.eq_dec q p) as [->|Hq]; [destruct (Nat.eq_dec t s) as [->|Ht]|].
    + rewrite Hc, Hi. rewrite R2 in Hj.
      assert (Hj' : In j ((recvidx w s p ++ [q_idx e]) ++ idxs c1)).
      { destruct Gc1 as [E|E]; rewrite E in Hj; [exact Hj|]. rewrite app_nil_r in Hj. apply in_or_app. now left. }
      rewrite <- app_assoc in Hj'. exact Hj'.
    + rewrite R1, Gc2 in Hj by congruence. exact Hj.
    + rewrite R1, Gc2 in Hj by congruence. exact Hj.
Qed.

Definition SubOrd (w w' : world) : Prop := Ord w' /\ SubMove w w' /\ length (w_subs w) <= length (w_subs w') /\ w_pubs w' = w_pubs w.

Lemma SubOrd_refl w : Ord w -> SubOrd w w.
Proof. intros O. split; [exact O|split; [apply SubMove_refl|split; [lia|reflexivity]]]. Qed.
Lemma SubOrd_trans w1 w2 w3 : SubOrd w1 w2 -> SubOrd w2 w3 -> SubOrd w1 w3.
Proof. intros (A1 & B1 & C1 & D1) (A2 & B2 & C2 & D2). split; [exact A2|split; [eapply SubMove_trans; eauto|split; [lia|congruence]]]. Qed.
Lemma SubOrd_neutral w w' : Ord w -> NeutralS w w' -> SubOrd w w'.
Proof.
  intros O [N E]. split; [eapply Ord_neutral; eauto|split; [now apply Neutral_SubMove|split; [apply (n_lens _ _ N)|exact E]]].
Qed.

Lemma receive_from_SubOrd w s key w' r :
  s < length (w_subs w) -> Ord w -> sub_receive_from w s key = (w', r) -> SubOrd w w'.
Proof.
  intros Ls O Hv. destruct (receive_from_ord w s key w' r Ls O Hv) as [A B]. split; [exact A|split; [exact B|]].
  unfold sub_receive_from in Hv. destruct (sub_conn w s key) as [[p c]|]; [|inversion Hv; subst; split; [lia|reflexivity]].
  destruct (c_receive c) as [c1 [[e|]|]]; inversion Hv; subst; try (split; [lia|reflexivity]).
  cbn [w_subs w_pubs w_set_samples sets w_set_subs]. rewrite upd_length.
  destruct (setc_fields w p s c1) as (_&_&_&->&->&_). split; [lia|reflexivity].
Qed.

Lemma pubs_storage_remove w s key : w_pubs (sub_storage_remove w s key) = w_pubs w.
Proof.
  unfold sub_storage_remove. cbn zeta. destruct (nth key (s_store (gets w s)) None) as [e|]; [|reflexivity].
  cbn [w_pubs sets w_set_subs]. destruct (getc w (se_pub e) s); [|reflexivity]. now destruct (setc_fields w (se_pub e) s (set_ports (set_sub_borrow c (c_sub c) 0) (c_snd c) false)) as (_&_&_&->&_).
Qed.

Lemma tbr_scan_ord s : forall l n w w1 r ik,
  s < length (w_subs w) -> Ord w -> tbr_scan w s l n = (w1, r, ik) -> SubOrd w w1.
Proof.
  induction l as [|key t IH]; intros n w w1 r ik Ls O Hv; cbn [tbr_scan] in Hv.
  - inversion Hv; subst. now apply SubOrd_refl.
  - destruct (sub_conn w s key) as [[p c]|], (nth key (s_store (gets w s)) None) as [e|];
      try (inversion Hv; subst; now apply SubOrd_refl); try (eapply IH; eauto; fail).
    destruct (Nat.eqb (c_borrow c) (c_M c)); [eapply IH; eauto|].
    destruct (sub_receive_from w s key) as [w2 rr] eqn:Er.
    pose proof (receive_from_SubOrd w s key w2 rr Ls O Er) as S2.
    destruct rr; try (inversion Hv; subst; exact S2).
    destruct (snd (sub_data_borrows w2 s key)); [|inversion Hv; subst; exact S2].
    eapply SubOrd_trans; [exact S2|]. destruct S2 as (O2 & _ & L2 & _). eapply IH; [lia|exact O2|exact Hv].
Qed.

Lemma tbr_loop_ord s : forall fuel w skip w' r,
  s < length (w_subs w) -> Ord w -> tbr_loop fuel w s skip = Val (w', r) -> SubOrd w w'.
Proof.
  induction fuel as [|f IH]; intros w skip w' r Ls O Hv; cbn [tbr_loop] in Hv.
  - inversion Hv; subst. now apply SubOrd_refl.
  - destruct (tbr_scan w s (skipn skip (s_tbr (gets w s))) skip) as [[w1 r1] ik] eqn:Es.
    pose proof (tbr_scan_ord s _ _ _ _ _ _ Ls O Es) as S1.
    destruct ik as [[index key]|]; [|inversion Hv; subst; exact S1].
    eapply SubOrd_trans; [exact S1|]. destruct S1 as (O1 & _ & L1 & _).
    set (w2 := sub_storage_remove (tbr_remove w1 s index) s key) in *.
    assert (S2 : SubOrd w1 w2).
    { apply SubOrd_neutral; [exact O1|eapply NeutralS_trans; [apply N_tbr_remove|apply N_storage_remove]]. }
    eapply SubOrd_trans; [exact S2|]. destruct S2 as (O2 & _ & L2 & _). eapply IH; [lia|exact O2|exact Hv].
Qed.

Lemma active_scan_ord s : forall n key w active ae w' r,
  s < length (w_subs w) -> Ord w -> active_scan w s n key active ae = (w', r) -> SubOrd w w'.
Proof.
  induction n as [|n IH]; intros key w active ae w' r Ls O Hv; cbn [active_scan] in Hv.
  - inversion Hv; subst. now apply SubOrd_refl.
  - destruct (sub_conn w s key) as [[p c]|]; [|eapply IH; eauto].
    destruct (negb (c_has_data c)); [eapply IH; eauto|].
    destruct (Nat.leb (c_M c) (c_borrow c)); [eapply IH; eauto|].
    destruct (sub_receive_from w s key) as [w2 rr] eqn:Er.
    pose proof (receive_from_SubOrd w s key w2 rr Ls O Er) as S2.
    destruct rr; try (inversion Hv; subst; exact S2).
    eapply SubOrd_trans; [exact S2|]. destruct S2 as (O2 & _ & L2 & _). eapply IH; [lia|exact O2|exact Hv].
Qed.

Lemma sub_receive_ord w s w' r :
  s < length (w_subs w) -> Ord w -> sub_receive w s = Val (w', r) -> SubOrd w w'.
Proof.
  intros Ls O Hv. unfold sub_receive in Hv.
  destruct (sub_update_connections w s) as [w1|] eqn:E1; [|discriminate]. cbn [rbind] in Hv. cbn zeta in Hv.
  assert (S1 : SubOrd w w1) by (apply SubOrd_neutral; [exact O|eapply N_sub_update_connections; eauto]).
  eapply SubOrd_trans; [exact S1|]. destruct S1 as (O1 & _ & L1 & _).
  assert (Fin : forall w2 rr, SubOrd w1 w2 ->
            match rr with RxNone => Val (active_scan w2 s (length (s_store (gets w2 s))) 0 0 true) | _ => Val (w2, rr) end = Val (w', r) ->
            SubOrd w1 w').
  { intros w2 rr S2 Hf. destruct rr; [|inversion Hf; subst; exact S2..].
    destruct (active_scan w2 s (length (s_store (gets w2 s))) 0 0 true) as [wa ra] eqn:E3. inversion Hf; subst.
    eapply SubOrd_trans; [exact S2|]. destruct S2 as (O2 & _ & L2 & _). eapply active_scan_ord; [|exact O2|exact E3]. lia. }
  destruct (Nat.eqb (length (s_tbr (gets w1 s))) 0).
  - cbn [rbind] in Hv. apply (Fin w1 RxNone); [now apply SubOrd_refl|exact Hv].
  - destruct (tbr_loop (S (length (s_tbr (gets w1 s)))) w1 s 0) as [[w2 rr]|] eqn:E2; [|discriminate]. cbn [rbind] in Hv.
    apply (Fin w2 rr); [|exact Hv]. eapply tbr_loop_ord; [|exact O1|exact E2]. lia.
Qed.
