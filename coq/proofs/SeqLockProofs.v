(* C12: inductive invariant of the FINE (byte granular) step model of the two-cell sequence lock
   and its consequences; projection of the coarse (gate granular) model onto the fine one. *)
From V Require Import model.Base model.Conc model.Events model.SeqLock proofs.ModArith proofs.ListLemmas proofs.SeqLockConc.
From Coq Require Import ZifyBool ZifyNat ZifyN Sorted.
Open Scope N_scope.

(* ---------------- lists ---------------- *)
Lemma firstn_S_snoc {A} (x : list A) i d : (i < length x)%nat -> firstn (S i) x = firstn i x ++ [nth i x d].
Proof.
  revert i; induction x as [|h r IH]; intros [|i] H; cbn in *; try lia; auto.
  f_equal. apply IH. lia.
Qed.

Lemma firstn_S_upd {A} (c : list A) i b : (i < length c)%nat -> firstn (S i) (upd c i b) = firstn i c ++ [b].
Proof.
  revert i; induction c as [|h r IH]; intros [|i] H; cbn in *; try lia; auto.
  f_equal. apply IH. lia.
Qed.

Lemma img_length n v : length (img n v) = n.
Proof. unfold img. now rewrite map_length, seq_length. Qed.

Lemma nth_map_in {A B} (f : A -> B) l i d d' : (i < length l)%nat -> nth i (map f l) d = f (nth i l d').
Proof. revert i; induction l as [|h r IH]; intros [|i] H; cbn in *; try lia; auto. apply IH; lia. Qed.

Lemma img_nth n v i : (i < n)%nat -> nth i (img n v) 0 = nth i v 0.
Proof.
  intros H. unfold img. rewrite (nth_map_in _ _ _ _ 0%nat) by (rewrite seq_length; lia).
  rewrite seq_nth by lia. reflexivity.
Qed.

Lemma length0_nil {A} (l : list A) : length l = 0%nat -> l = [].
Proof. destruct l; cbn; auto; discriminate. Qed.

Lemma SSorted_snoc {A} (R : A -> A -> Prop) l x :
  StronglySorted R l -> Forall (fun y => R y x) l -> StronglySorted R (l ++ [x]).
Proof.
  induction 1 as [|a l Hs IH Ha]; intros HF; cbn.
  - repeat constructor.
  - inversion HF; subst. constructor; auto. apply Forall_app; split; auto.
Qed.

(* ---------------- arithmetic ---------------- *)
Lemma cell_parity w : 1 <= w -> w mod 2 <> (w - 1) mod 2.
Proof.
  intros H. replace w with ((w - 1) + 1) at 1 by lia. apply mod_add_neq; lia.
Qed.

(* ---------------- setters ---------------- *)
Lemma set_cell_fields g i c :
  vsize (set_cell g i c) = vsize g /\ wc (set_cell g i c) = wc g /\ hasP (set_cell g i c) = hasP g /\
  ownerP (set_cell g i c) = ownerP g /\ written (set_cell g i c) = written g.
Proof. unfold set_cell. destruct (N.eqb (i mod 2) 0); cbn; auto. Qed.

Lemma cellv_set_same g i c : cellv (set_cell g i c) i = c.
Proof. unfold cellv, set_cell. destruct (N.eqb (i mod 2) 0) eqn:E; cbn; rewrite ?E; auto. Qed.

Lemma cellv_set_other g i j c : i mod 2 <> j mod 2 -> cellv (set_cell g i c) j = cellv g j.
Proof.
  intros H. unfold cellv, set_cell.
  assert (i mod 2 < 2) by (apply N.mod_lt; lia). assert (j mod 2 < 2) by (apply N.mod_lt; lia).
  destruct (N.eqb_spec (i mod 2) 0), (N.eqb_spec (j mod 2) 0); cbn; auto; lia.
Qed.

Lemma cellv_congr g g' i : c0 g' = c0 g -> c1 g' = c1 g -> cellv g' i = cellv g i.
Proof. intros A B. unfold cellv. now rewrite A, B. Qed.

Lemma cell_lengths_set g i c n :
  length (c0 g) = n -> length (c1 g) = n -> length c = n ->
  length (c0 (set_cell g i c)) = n /\ length (c1 (set_cell g i c)) = n.
Proof. intros. unfold set_cell. destruct (N.eqb (i mod 2) 0); cbn; auto. Qed.

Lemma cellv_length g i n : length (c0 g) = n -> length (c1 g) = n -> length (cellv g i) = n.
Proof. intros. unfold cellv. destruct (N.eqb (i mod 2) 0); auto. Qed.

(* ---------------- the invariant ---------------- *)
(* loads newest first: each validated w is bounded by hi, and older loads validated at most the
   first write_cell value the newer load saw *)
Fixpoint dchain (hi : N) (xs : list (N * N * value)) : Prop :=
  match xs with
  | [] => True
  | (w0, w, _) :: r => w0 <= w /\ w <= hi /\ dchain w0 r
  end.

Lemma dchain_mono hi hi' xs : hi <= hi' -> dchain hi xs -> dchain hi' xs.
Proof. destruct xs as [|[[w0 w] v] r]; cbn; auto. intros H (A & B & C). repeat split; auto; lia. Qed.

(* the image that write_cell value w designates *)
Definition cur (g : gst) (w : N) : value := nth (N.to_nat (w - 1)) (written g) [].

Definition loads_ok (g : gst) (xs : list (N * N * value)) : Prop :=
  Forall (fun x => 1 <= snd (fst x) /\ nth_error (written g) (N.to_nat (snd (fst x) - 1)) = Some (snd x)) xs.

Definition PcInv (g : gst) (hp : bool) (lds : list (N * N * value)) (p : pc) : Prop :=
  match p with
  | Idle => True
  | WCell m v w => hp = true /\ w = wc g
  | WByte m v w i => hp = true /\ w = wc g /\ (i < vsize g)%nat /\ firstn i (cellv g w) = firstn i (img (vsize g) v)
  | WFadd m v w => hp = true /\ w = wc g /\ cellv g w = img (vsize g) v
  | RByte w0 w buf i =>
    1 <= w0 /\ w0 <= w /\ w <= wc g /\ length buf = i /\ (i < vsize g)%nat /\ dchain w0 lds /\
    (w = wc g -> buf = firstn i (cur g w))
  | RCas w0 w buf =>
    1 <= w0 /\ w0 <= w /\ w <= wc g /\ dchain w0 lds /\ (w = wc g -> buf = cur g w)
  end.

Definition LInv (g : gst) (t : nat) (l : lst) : Prop :=
  (holdsP l = true <-> ownerP g = Some t) /\
  loads_ok g (loads l) /\
  dchain (wc g) (loads l) /\
  PcInv g (holdsP l) (loads l) (at_pc l).

Definition GInv (g : gst) : Prop :=
  1 <= wc g /\ lenN (written g) = wc g /\
  length (c0 g) = vsize g /\ length (c1 g) = vsize g /\
  (hasP g = true <-> ownerP g = None) /\
  cellv g (wc g - 1) = cur g (wc g).

Definition Inv (c : cfg gst lst) : Prop := GInv (fst c) /\ forall t, LInv (fst c) t (snd c t).

Lemma inv_init n v0 progs : Inv (init n v0 progs).
Proof.
  split.
  - unfold GInv, init, g_init, cur, cellv; cbn. rewrite img_length, repeat_length.
    repeat split; auto; try lia; intros; congruence.
  - intros t. unfold LInv, init, l_init, loads_ok; cbn. repeat split; auto; intros; congruence.
Qed.

Lemma cur_length g : GInv g -> length (cur g (wc g)) = vsize g.
Proof. intros (_ & _ & A & B & _ & E). rewrite <- E. apply cellv_length; auto. Qed.

Lemma cur_nth_error g w : lenN (written g) = wc g -> 1 <= w -> w <= wc g ->
  nth_error (written g) (N.to_nat (w - 1)) = Some (cur g w).
Proof. intros L A B. unfold cur. apply nth_error_nth'. unfold lenN in L. lia. Qed.

Lemma excl_P g ls t t' :
  (forall u, LInv g u (ls u)) -> holdsP (ls t) = true -> t' <> t -> holdsP (ls t') = false.
Proof.
  intros HL H Hne. destruct (HL t) as (A & _), (HL t') as (B & _).
  destruct (holdsP (ls t')) eqn:E; auto.
  assert (ownerP g = Some t) by (apply A; auto). assert (ownerP g = Some t') by (apply B; auto). congruence.
Qed.

(* what the local invariant of a thread needs from a step of another thread *)
Lemma linv_frame g g' t' l :
  LInv g t' l -> lenN (written g) = wc g ->
  vsize g' = vsize g ->
  (ownerP g' = Some t' <-> ownerP g = Some t') ->
  wc g <= wc g' ->
  (exists ext, written g' = written g ++ ext) ->
  (holdsP l = true -> wc g' = wc g /\ c0 g' = c0 g /\ c1 g' = c1 g) ->
  LInv g' t' l.
Proof.
  intros (HP & HL & HD & Hpc) Hlen Evs Eown Hwc [ext Eext] FP. unfold LInv.
  assert (Hcur : forall w, 1 <= w -> w <= wc g -> cur g' w = cur g w).
  { intros w A B. unfold cur. rewrite Eext. apply app_nth1. unfold lenN in Hlen. lia. }
  split; [rewrite Eown; exact HP|]. split; [|split].
  - unfold loads_ok in *. eapply Forall_impl; [|exact HL]. intros x [A B]. split; auto.
    rewrite Eext. rewrite nth_error_app1; auto. apply nth_error_Some. congruence.
  - eapply dchain_mono; eauto.
  - unfold PcInv in *. destruct (at_pc l) as [|m v w|m v w i|m v w|w0 w buf i|w0 w buf].
    + exact I.
    + destruct Hpc as (h & ->). destruct (FP h) as (A & B & C). split; auto.
    + destruct Hpc as (h & -> & Hi & Hf). destruct (FP h) as (A & B & C).
      rewrite Evs, A, (cellv_congr g g') by auto. repeat split; auto.
    + destruct Hpc as (h & -> & Hf). destruct (FP h) as (A & B & C).
      rewrite Evs, A, (cellv_congr g g') by auto. repeat split; auto.
    + destruct Hpc as (A & B & C & D & E & F & K). rewrite Evs. repeat split; auto; try lia.
      intros Ew. assert (w = wc g) by lia. rewrite Hcur by lia. auto.
    + destruct Hpc as (A & B & C & F & K). repeat split; auto; try lia.
      intros Ew. assert (w = wc g) by lia. rewrite Hcur by lia. auto.
Qed.

Lemma loads_ok_ext g g' xs : (exists ext, written g' = written g ++ ext) -> loads_ok g xs -> loads_ok g' xs.
Proof.
  intros [ext E] H. unfold loads_ok in *. eapply Forall_impl; [|exact H]. intros x [A B]. split; auto.
  rewrite E. rewrite nth_error_app1; auto. apply nth_error_Some. congruence.
Qed.

(* the stepping thread itself: program counter and program change, handle and loads stay *)
Lemma linv_own g g' t l p pc' :
  LInv g t l -> ownerP g' = ownerP g -> wc g <= wc g' -> (exists ext, written g' = written g ++ ext) ->
  PcInv g' (holdsP l) (loads l) pc' -> LInv g' t (set_lst l p pc').
Proof.
  intros (HP & HL & HD & _) Eo Hw Hext Hpc. unfold LInv, set_lst; cbn [holdsP loads at_pc].
  rewrite Eo. repeat split; try apply HP; auto.
  - eapply loads_ok_ext; eauto.
  - eapply dchain_mono; eauto.
Qed.

Lemma ext_nil {A} (l : list A) : exists ext, l = l ++ ext.
Proof. exists []. now rewrite app_nil_r. Qed.

Lemma pcinv_w_next g hp lds m v w i n :
  n = vsize g -> hp = true -> w = wc g -> (i <= n)%nat -> length (cellv g w) = n ->
  firstn i (cellv g w) = firstn i (img n v) ->
  PcInv g hp lds (w_next m v w i n).
Proof.
  intros -> Hh Hw Hi Hl Hf. unfold w_next. destruct (Nat.ltb_spec i (vsize g)) as [Hlt|Hge].
  - cbn. auto.
  - assert (i = vsize g) by lia. subst i.
    pose proof (firstn_all (cellv g w)) as F1. rewrite Hl in F1.
    pose proof (firstn_all (img (vsize g) v)) as F2. rewrite img_length in F2.
    rewrite F1, F2 in Hf.
    destruct m; cbn; auto.
Qed.

Lemma pcinv_r_next g hp lds w0 w buf i :
  GInv g -> 1 <= w0 -> w0 <= w -> w <= wc g -> length buf = i -> (i <= vsize g)%nat -> dchain w0 lds ->
  (w = wc g -> buf = firstn i (cur g w)) ->
  PcInv g hp lds (r_next w0 w buf i (vsize g)).
Proof.
  intros HG A B C D Hi F K. unfold r_next. destruct (Nat.ltb_spec i (vsize g)) as [Hlt|Hge].
  - cbn. repeat split; auto.
  - assert (i = vsize g) by lia. subst i. cbn. repeat split; auto.
    intros Ew. rewrite (K Ew). subst w. pose proof (firstn_all (cur g (wc g))) as F1.
    rewrite (cur_length g HG) in F1. rewrite <- F1 at 2. f_equal. lia.
Qed.

Ltac other_same t HL Hother :=
  let t' := fresh "t'" in let Hne := fresh "Hne" in
  intros t'; destruct (Nat.eq_dec t' t) as [->|Hne]; [rewrite upd_l_same|rewrite Hother by auto; apply HL].

(* ---------------- one fine step preserves the invariant ---------------- *)
Theorem fstep_inv t c c' e :
  Inv c -> lenN (written (fst c')) < W64 -> step1 fstep t c = Some (c', e) -> Inv c'.
Proof.
  destruct c as [g ls]. intros [HG HL] Hb Hs. unfold step1 in Hs. cbn [fst snd] in *.
  destruct (fstep t g (ls t)) as [[[g' l'] e']|] eqn:Est; [|discriminate].
  inversion Hs; subst c' e; clear Hs. cbn [fst snd] in *.
  pose proof (HL t) as Ht. pose proof Ht as (HtP & HtL & HtD & Htpc).
  pose proof HG as (Hwc1 & Hlen & Hl0 & Hl1 & HhP & Hcur).
  assert (Hother : forall t', t' <> t -> upd_l ls t l' t' = ls t') by (intros; apply upd_l_other; auto).
  unfold fstep in Est.
  destruct (at_pc (ls t)) as [|m v w|m v w i|m v w|w0 w buf i|w0 w buf] eqn:Epc.
  - (* Idle *)
    destruct (prog (ls t)) as [|o p] eqn:Eprog; [discriminate|].
    destruct o as [| |v|v|v|].
    + (* OAcq *)
      destruct (hasP g) eqn:EhP; inversion Est; subst g' l' e'; clear Est.
      * assert (EN : ownerP g = None) by (apply HhP; auto).
        split; cbn [fst snd].
        -- unfold GInv, cur, cellv, set_owner in *; cbn [vsize wc c0 c1 hasP ownerP written] in *.
           repeat split; auto; intros; congruence.
        -- intros t'. destruct (Nat.eq_dec t' t) as [->|Hne].
           ++ rewrite upd_l_same. unfold LInv, set_holds, loads_ok, set_owner in *; cbn [vsize wc c0 c1 hasP ownerP written holdsP loads at_pc PcInv] in *.
              repeat split; auto.
           ++ rewrite Hother by auto. apply (linv_frame g); auto; cbn [set_owner vsize wc ownerP written c0 c1]; try lia.
              ** split; intros; congruence.
              ** apply ext_nil.
      * split; cbn [fst snd]; [exact HG|]. other_same t HL Hother.
        apply (linv_own g g); auto; try lia; try apply ext_nil; try exact I.
    + (* ORel *)
      destruct (holdsP (ls t)) eqn:EhP; inversion Est; subst g' l' e'; clear Est.
      * assert (EN : ownerP g = Some t) by (apply HtP; auto).
        split; cbn [fst snd].
        -- unfold GInv, cur, cellv, set_owner in *; cbn [vsize wc c0 c1 hasP ownerP written] in *.
           repeat split; auto; intros; congruence.
        -- intros t'. destruct (Nat.eq_dec t' t) as [->|Hne].
           ++ rewrite upd_l_same. unfold LInv, set_holds, loads_ok, set_owner in *; cbn [vsize wc c0 c1 hasP ownerP written holdsP loads at_pc PcInv] in *.
              repeat split; auto; intros; congruence.
           ++ rewrite Hother by auto. apply (linv_frame g); auto; cbn [set_owner vsize wc ownerP written c0 c1]; try lia.
              ** split; intros; congruence.
              ** apply ext_nil.
      * split; cbn [fst snd]; [exact HG|]. other_same t HL Hother.
        apply (linv_own g g); auto; try lia; try apply ext_nil; try exact I.
    + (* OStore *)
      unfold start_write in Est. destruct (holdsP (ls t)) eqn:EhP; inversion Est; subst g' l' e'; clear Est;
        (split; cbn [fst snd]; [exact HG|]); other_same t HL Hother;
        apply (linv_own g g); auto; try lia; try apply ext_nil; cbn; auto.
    + (* OLoan *)
      unfold start_write in Est. destruct (holdsP (ls t)) eqn:EhP; inversion Est; subst g' l' e'; clear Est;
        (split; cbn [fst snd]; [exact HG|]); other_same t HL Hother;
        apply (linv_own g g); auto; try lia; try apply ext_nil; cbn; auto.
    + (* OLoanDiscard *)
      unfold start_write in Est. destruct (holdsP (ls t)) eqn:EhP; inversion Est; subst g' l' e'; clear Est;
        (split; cbn [fst snd]; [exact HG|]); other_same t HL Hother;
        apply (linv_own g g); auto; try lia; try apply ext_nil; cbn; auto.
    + (* OLoad *)
      destruct (N.eqb_spec (wc g) 0) as [E0|E0]; inversion Est; subst g' l' e'; clear Est;
        (split; cbn [fst snd]; [exact HG|]); other_same t HL Hother;
        apply (linv_own g g); auto; try lia; try apply ext_nil; try exact I.
      apply pcinv_r_next; auto; try lia.
  - (* WCell *)
    destruct Htpc as (HhP' & ->). inversion Est; subst g' l' e'; clear Est.
    split; cbn [fst snd]; [exact HG|]. other_same t HL Hother.
    apply (linv_own g g); auto; try lia; try apply ext_nil.
    apply pcinv_w_next; auto; try lia. apply cellv_length; auto.
  - (* WByte *)
    destruct Htpc as (HhP' & -> & Hi & Hf). inversion Est; subst g' l' e'; clear Est.
    set (c := upd (cellv g (wc g)) i (nth i v 0)).
    destruct (set_cell_fields g (wc g) c) as (Fv & Fw & Fh & Fo & Fwr).
    assert (Hlc : length c = vsize g) by (unfold c; rewrite upd_length; apply cellv_length; auto).
    destruct (cell_lengths_set g (wc g) c (vsize g) Hl0 Hl1 Hlc) as (Hl0' & Hl1').
    split; cbn [fst snd].
    + unfold GInv. rewrite Fv, Fw, Fh, Fo. unfold cur. rewrite Fwr.
      repeat split; auto; try apply HhP; try (unfold lenN in *; rewrite Fwr; auto).
      rewrite cellv_set_other by (apply cell_parity; auto). exact Hcur.
    + intros t'. destruct (Nat.eq_dec t' t) as [->|Hne].
      * rewrite upd_l_same. apply (linv_own g); auto; try lia; try (rewrite Fwr; apply ext_nil).
        apply pcinv_w_next; auto; try lia.
        -- rewrite cellv_set_same. exact Hlc.
        -- rewrite cellv_set_same. unfold c. rewrite firstn_S_upd by (rewrite cellv_length with (n := vsize g); auto).
           rewrite (firstn_S_snoc _ _ 0) by (rewrite img_length; auto). rewrite Hf, img_nth by auto. reflexivity.
      * rewrite Hother by auto. apply (linv_frame g); auto; try lia; try (rewrite Fwr; apply ext_nil).
        -- rewrite Fo. tauto.
        -- intros h. rewrite (excl_P g ls t t' HL HhP' Hne) in h. discriminate.
  - (* WFadd *)
    destruct Htpc as (HhP' & -> & Hf). inversion Est; subst g' l' e'; clear Est.
    assert (Hb' : wc g + 1 < W64).
    { cbn [publish written] in Hb. rewrite lenN_app in Hb. unfold lenN in Hb at 2. cbn [length] in Hb. lia. }
    assert (Ewc : (wc g + 1) mod W64 = wc g + 1) by (apply N.mod_small; exact Hb').
    split; cbn [fst snd].
    + unfold GInv, cur, cellv, publish in *; cbn [vsize wc c0 c1 hasP ownerP written] in *. rewrite Ewc.
      repeat split; auto; try lia; try apply HhP.
      * rewrite lenN_app. unfold lenN at 2. cbn [length]. lia.
      * replace (wc g + 1 - 1) with (wc g) by lia. rewrite Hf.
        rewrite app_nth2 by (unfold lenN in Hlen; lia).
        replace (N.to_nat (wc g) - length (written g))%nat with 0%nat by (unfold lenN in Hlen; lia). reflexivity.
    + intros t'. destruct (Nat.eq_dec t' t) as [->|Hne].
      * rewrite upd_l_same. apply (linv_own g); cbn [publish ownerP wc written]; auto; try lia; [eexists; reflexivity|exact I].
      * rewrite Hother by auto. apply (linv_frame g); cbn [publish vsize ownerP wc written]; auto; try lia.
        -- tauto.
        -- eexists; reflexivity.
        -- intros h. rewrite (excl_P g ls t t' HL HhP' Hne) in h. discriminate.
  - (* RByte *)
    destruct Htpc as (A & B & C & D & E & F & K). inversion Est; subst g' l' e'; clear Est.
    split; cbn [fst snd]; [exact HG|]. other_same t HL Hother.
    apply (linv_own g g); auto; try lia; try apply ext_nil.
    apply pcinv_r_next; auto; try lia.
    + rewrite app_length. cbn. lia.
    + intros Ew. rewrite (K Ew). subst w. rewrite Hcur.
      rewrite (firstn_S_snoc _ _ 0) by (rewrite cur_length; auto). reflexivity.
  - (* RCas *)
    destruct Htpc as (A & B & C & F & K).
    destruct (N.eqb_spec (wc g) w) as [Ew|Ew].
    + inversion Est; subst g' l' e'; clear Est.
      split; cbn [fst snd]; [exact HG|]. other_same t HL Hother.
      unfold LInv; cbn [holdsP loads at_pc PcInv dchain]. repeat split; try apply HtP; auto; try lia.
      constructor; auto. cbn [fst snd]. split; [lia|]. rewrite (K (eq_sym Ew)). apply cur_nth_error; auto; lia.
    + destruct (N.eqb_spec (wc g) 0) as [E0|E0]; inversion Est; subst g' l' e'; clear Est;
        (split; cbn [fst snd]; [exact HG|]); other_same t HL Hother;
        apply (linv_own g g); auto; try lia; try apply ext_nil; try exact I.
      apply pcinv_r_next; auto; try lia.
Qed.

(* ---------------- every reachable state of the fine model ---------------- *)
Lemma fstep_written_grows t g l g' l' e :
  fstep t g l = Some (g', l', e) -> exists ext, written g' = written g ++ ext.
Proof.
  unfold fstep, start_write. intros H.
  repeat match type of H with
  | context [match ?x with _ => _ end] => destruct x
  end; inversion H; subst; try apply ext_nil.
  - rewrite (proj2 (proj2 (proj2 (proj2 (set_cell_fields _ _ _))))). apply ext_nil.
  - cbn. eexists; reflexivity.
Qed.

Definition Bounded (c : cfg gst lst) : Prop := lenN (written (fst c)) < W64.

Lemma step1_bounded t c c' e : step1 fstep t c = Some (c', e) -> Bounded c' -> Bounded c.
Proof.
  destruct c as [g ls]. unfold step1, Bounded. cbn [fst snd].
  destruct (fstep t g (ls t)) as [[[g' l'] e']|] eqn:E; [|discriminate].
  intros H; inversion H; subst; clear H. cbn [fst].
  destruct (fstep_written_grows _ _ _ _ _ _ E) as [ext ->]. rewrite lenN_app. lia.
Qed.

Theorem inv_reach n v0 progs c :
  reachable fstep (init n v0 progs) c -> Bounded c -> Inv c.
Proof.
  apply (inv_reachable gst lst ev fstep (fun c => Bounded c -> Inv c)).
  - intros _. apply inv_init.
  - intros t c0 c' e HI Hs Hb. eapply fstep_inv; eauto. apply HI. eapply step1_bounded; eauto.
Qed.

(* a returning load yields exactly the image that the validated write_cell value designates *)
Theorem sl_atomic n v0 progs g ls t w0 w v :
  reachable fstep (init n v0 progs) (g, ls) -> lenN (written g) < W64 ->
  In (w0, w, v) (loads (ls t)) ->
  1 <= w /\ nth_error (written g) (N.to_nat (w - 1)) = Some v.
Proof.
  intros Hr Hb Hin. destruct (inv_reach _ _ _ _ Hr Hb) as [_ HL]. cbn [fst snd] in HL.
  destruct (HL t) as (_ & Hok & _). unfold loads_ok in Hok. rewrite Forall_forall in Hok.
  apply (Hok _ Hin).
Qed.

(* the object's current cell always holds the last published image, untouched *)
Theorem sl_current n v0 progs g ls :
  reachable fstep (init n v0 progs) (g, ls) -> lenN (written g) < W64 ->
  lenN (written g) = wc g /\ 1 <= wc g /\ current g = nth (N.to_nat (wc g - 1)) (written g) [] /\
  length (current g) = n.
Proof.
  intros Hr Hb. destruct (inv_reach _ _ _ _ Hr Hb) as [HG _]. cbn [fst] in HG.
  pose proof (cur_length g HG) as Hl. destruct HG as (A & B & C & D & E & F).
  assert (Hn : vsize g = n).
  { revert Hr. apply (inv_reachable gst lst ev fstep (fun c => vsize (fst c) = n)); [reflexivity|].
    intros t [g0 ls0] c' e Hv Hs. unfold step1 in Hs. cbn [fst snd] in *.
    destruct (fstep t g0 (ls0 t)) as [[[g' l'] e']|] eqn:Est; [|discriminate].
    inversion Hs; subst c' e. cbn [fst]. rewrite <- Hv. clear Hs Hv. revert Est.
    unfold fstep, start_write. intros H.
    repeat match type of H with
    | context [match ?x with _ => _ end] => destruct x
    end; inversion H; subst; try reflexivity.
    apply (proj1 (set_cell_fields _ _ _)). }
  unfold current. repeat split; auto. rewrite F. rewrite Hl. exact Hn.
Qed.

Lemma dchain_sorted xs : forall hi, dchain hi xs ->
  StronglySorted N.le (rev (map (fun x => snd (fst x)) xs)) /\
  Forall (fun y => y <= hi) (rev (map (fun x => snd (fst x)) xs)).
Proof.
  induction xs as [|[[w0 w] v] r IH]; intros hi H; cbn [map rev].
  - split; constructor.
  - destruct H as (A & B & C). destruct (IH w0 C) as [S1 F1]. cbn [fst snd].
    assert (F2 : Forall (fun y => y <= w) (rev (map (fun x => snd (fst x)) r))).
    { eapply Forall_impl; [|exact F1]. cbn. intros; lia. }
    split.
    + apply SSorted_snoc; auto.
    + apply Forall_app. split; [|repeat constructor; auto].
      eapply Forall_impl; [|exact F2]. cbn. intros; lia.
Qed.

(* successive loads of one thread validate non-decreasing write_cell values *)
Theorem sl_monotone n v0 progs g ls t :
  reachable fstep (init n v0 progs) (g, ls) -> lenN (written g) < W64 ->
  StronglySorted N.le (validated (ls t)).
Proof.
  intros Hr Hb. destruct (inv_reach _ _ _ _ Hr Hb) as [_ HL]. cbn [fst snd] in HL.
  destruct (HL t) as (_ & _ & HD & _). unfold validated. apply (dchain_sorted _ _ HD).
Qed.

Lemma dchain_in xs : forall hi w0 w v, dchain hi xs -> In (w0, w, v) xs -> w0 <= w /\ w <= hi.
Proof.
  induction xs as [|[[a b] c] r IH]; intros hi w0 w v H Hin; [contradiction|].
  destruct H as (A & B & C). destruct Hin as [E|Hin].
  - inversion E; subst. auto.
  - destruct (IH _ _ _ _ C Hin). split; auto. lia.
Qed.

Lemma dchain_adjacent pre : forall hi x2 x1 post,
  dchain hi (pre ++ x2 :: x1 :: post) -> snd (fst x1) <= fst (fst x2).
Proof.
  induction pre as [|[[a b] c] r IH]; intros hi [[a2 b2] c2] [[a1 b1] c1] post H; cbn [app] in H.
  - cbn in *. tauto.
  - destruct H as (_ & _ & H). apply (IH _ _ _ _ H).
Qed.

(* a load never validates less than write_cell was at its first access (w0 = number of images
   published when the load began), and a later load of the same thread begins at least where
   the previous one validated *)
Theorem sl_fresh n v0 progs g ls t :
  reachable fstep (init n v0 progs) (g, ls) -> lenN (written g) < W64 ->
  (forall w0 w v, In (w0, w, v) (loads (ls t)) -> w0 <= w /\ w <= wc g) /\
  (forall pre newer older post, loads (ls t) = pre ++ newer :: older :: post ->
     snd (fst older) <= fst (fst newer)).
Proof.
  intros Hr Hb. destruct (inv_reach _ _ _ _ Hr Hb) as [_ HL]. cbn [fst snd] in HL.
  destruct (HL t) as (_ & _ & HD & _). split.
  - intros w0 w v Hin. eapply dchain_in; eauto.
  - intros pre newer older post E. rewrite E in HD. eapply dchain_adjacent; eauto.
Qed.

Definition writing (p : pc) : bool :=
  match p with WCell _ _ _ | WByte _ _ _ _ | WFadd _ _ _ => true | _ => false end.

(* one producer handle at a time; only its holder is ever inside a write; with no holder the
   flag is set again *)
Theorem sl_single_writer n v0 progs g ls :
  reachable fstep (init n v0 progs) (g, ls) -> lenN (written g) < W64 ->
  (forall t t', holdsP (ls t) = true -> holdsP (ls t') = true -> t = t') /\
  (forall t, writing (at_pc (ls t)) = true -> holdsP (ls t) = true) /\
  (hasP g = false -> exists t, holdsP (ls t) = true) /\
  ((forall t, holdsP (ls t) = false) -> hasP g = true).
Proof.
  intros Hr Hb. destruct (inv_reach _ _ _ _ Hr Hb) as [HG HL]. cbn [fst snd] in *.
  destruct HG as (_ & _ & _ & _ & HhP & _).
  assert (Hno : hasP g = false -> exists t, holdsP (ls t) = true).
  { intros Hf. destruct (ownerP g) as [u|] eqn:Eo.
    - exists u. destruct (HL u) as (A & _). apply A. exact Eo.
    - assert (hasP g = true) by (apply HhP; reflexivity). congruence. }
  repeat split.
  - intros t t' H1 H2. destruct (Nat.eq_dec t' t) as [E|E]; auto.
    rewrite (excl_P g ls t t' HL H1 E) in H2. discriminate.
  - intros t Hw. destruct (HL t) as (_ & _ & _ & Hpc).
    destruct (at_pc (ls t)); cbn in Hw; try discriminate; cbn in Hpc; tauto.
  - exact Hno.
  - intros Hall. destruct (hasP g) eqn:E; auto. destruct (Hno eq_refl) as [u Hu]. rewrite Hall in Hu. discriminate.
Qed.

(* an idle thread's acquire_producer succeeds whenever the flag is set *)
Lemma sl_acquire_succeeds t g l p :
  hasP g = true -> at_pc l = Idle -> prog l = OAcq :: p ->
  exists g' l' e, fstep t g l = Some (g', l', e) /\ holdsP l' = true /\ hasP g' = false /\ In (ERet 1) e.
Proof.
  intros H1 H2 H3. unfold fstep. rewrite H2, H3, H1. do 3 eexists. split; [reflexivity|]. cbn. auto.
Qed.

Lemma sl_acquire_fails t g l p :
  hasP g = false -> at_pc l = Idle -> prog l = OAcq :: p ->
  exists l' e, fstep t g l = Some (g, l', e) /\ holdsP l' = holdsP l /\ In (ERet 0) e.
Proof.
  intros H1 H2 H3. unfold fstep. rewrite H2, H3, H1. do 2 eexists. split; [reflexivity|]. cbn. auto.
Qed.

(* a reader whose snapshot is still valid never touches the cell the writer is writing *)
Theorem sl_valid_read_no_conflict n v0 progs g ls t t' m v w i w0 w' buf j :
  reachable fstep (init n v0 progs) (g, ls) -> lenN (written g) < W64 ->
  at_pc (ls t) = WByte m v w i -> at_pc (ls t') = RByte w0 w' buf j -> w' = wc g ->
  w mod 2 <> (w' - 1) mod 2.
Proof.
  intros Hr Hb E1 E2 Ew. destruct (inv_reach _ _ _ _ Hr Hb) as [HG HL]. cbn [fst snd] in *.
  destruct (HL t) as (_ & _ & _ & A). rewrite E1 in A. destruct A as (_ & -> & _).
  subst w'. apply cell_parity. apply HG.
Qed.

(* ---------------- the coarse model is a projection of the fine one ---------------- *)
Lemma burst_fine fuel : forall t c g'' l'' e',
  burst fuel t (fst c) (snd c t) = (g'', l'', e') ->
  exists k, ceq (fst (run fstep (repeat t k) c)) (g'', upd_l (snd c) t l'') /\
            snd (run fstep (repeat t k) c) = map (fun e => (t, e)) e'.
Proof.
  induction fuel as [|fuel IH]; intros t c g'' l'' e' H; cbn [burst] in H.
  - inversion H; subst. exists 0%nat. cbn. split; auto. split; auto. cbn. intros u. symmetry. apply upd_l_id.
  - destruct (in_copy (at_pc (snd c t))).
    + destruct (fstep t (fst c) (snd c t)) as [[[g' l'] e]|] eqn:Est.
      * destruct (burst fuel t g' l') as [[g2 l2] e2] eqn:Eb. inversion H; subst; clear H.
        specialize (IH t (g', upd_l (snd c) t l') g'' l'' e2). cbn [fst snd] in IH. rewrite upd_l_same in IH.
        destruct (IH Eb) as [k [C1 C2]]. exists (S k). cbn [repeat run].
        assert (S1 : step1 fstep t c = Some ((g', upd_l (snd c) t l'), e)) by (unfold step1; rewrite Est; reflexivity).
        rewrite S1.
        destruct (run fstep (repeat t k) (g', upd_l (snd c) t l')) as [x tr]. cbn [fst snd] in *. split.
        -- eapply ceq_trans; [exact C1|]. split; auto. cbn [snd]. apply upd_l_twice.
        -- rewrite C2, map_app. reflexivity.
      * inversion H; subst. exists 0%nat. cbn. split; auto. split; auto. cbn. intros u. symmetry. apply upd_l_id.
    + inversion H; subst. exists 0%nat. cbn. split; auto. split; auto. cbn. intros u. symmetry. apply upd_l_id.
Qed.

Lemma step_fine t c c' es :
  step1 step t c = Some (c', es) ->
  exists s, ceq (fst (run fstep s c)) c' /\ snd (run fstep s c) = map (fun e => (t, e)) es.
Proof.
  unfold step1, step. destruct (fstep t (fst c) (snd c t)) as [[[g' l'] e]|] eqn:Est; [|discriminate].
  destruct (burst (vsize (fst c)) t g' l') as [[g2 l2] e2] eqn:Eb. intros H; inversion H; subst; clear H.
  destruct (burst_fine (vsize (fst c)) t (g', upd_l (snd c) t l') g2 l2 e2) as [k [C1 C2]].
  { cbn [fst snd]. rewrite upd_l_same. exact Eb. }
  exists (t :: repeat t k). cbn [run].
  assert (S1 : step1 fstep t c = Some ((g', upd_l (snd c) t l'), e)) by (unfold step1; rewrite Est; reflexivity).
  rewrite S1.
  destruct (run fstep (repeat t k) (g', upd_l (snd c) t l')) as [x tr]. cbn [fst snd] in *. split.
  - eapply ceq_trans; [exact C1|]. split; auto. cbn [snd]. apply upd_l_twice.
  - rewrite C2, map_app. reflexivity.
Qed.

(* every coarse run is a fine run: same final state (thread-local states pointwise), same trace *)
Theorem coarse_run_is_fine_run s : forall c,
  exists s', ceq (fst (run fstep s' c)) (fst (run step s c)) /\ snd (run fstep s' c) = snd (run step s c).
Proof.
  induction s as [|t s IH]; intros c.
  - exists []. cbn. split; auto. apply ceq_refl.
  - cbn [run]. destruct (step1 step t c) as [[c1 es]|] eqn:E1.
    + destruct (step_fine _ _ _ _ E1) as [s1 [A1 A2]]. destruct (IH c1) as [s2 [B1 B2]].
      exists (s1 ++ s2). rewrite run_app. cbn [fst snd].
      destruct (run_ceq _ _ _ fstep s2 _ _ A1) as [R1 R2].
      destruct (run step s c1) as [x tr]. cbn [fst snd] in *. split.
      * eapply ceq_trans; eauto.
      * rewrite A2, R2, B2. reflexivity.
    + apply IH.
Qed.

Lemma Inv_ceq c c' : ceq c c' -> Inv c -> Inv c'.
Proof. intros [A B] [HG HL]. split; [rewrite <- A; auto|]. intros t. rewrite <- A, <- B. apply HL. Qed.

Theorem coarse_reachable_fine init c :
  reachable step init c -> exists c', reachable fstep init c' /\ ceq c' c.
Proof.
  intros [s Hs]. destruct (coarse_run_is_fine_run s init) as [s' [A _]].
  exists (fst (run fstep s' init)). split; [exists s'; reflexivity|]. rewrite Hs in A. exact A.
Qed.

(* hence everything proved about fine reachable states holds in the coarse model *)
Theorem coarse_inv n v0 progs c :
  reachable step (init n v0 progs) c -> Bounded c -> Inv c.
Proof.
  intros Hr Hb. destruct (coarse_reachable_fine _ _ Hr) as [c' [Hr' Hc]].
  apply (Inv_ceq c' c Hc). apply (inv_reach _ _ _ _ Hr'). unfold Bounded in *. destruct Hc as [-> _]. exact Hb.
Qed.

Theorem sl_coarse n v0 progs g ls t :
  reachable step (init n v0 progs) (g, ls) -> lenN (written g) < W64 ->
  (forall w0 w v, In (w0, w, v) (loads (ls t)) -> 1 <= w /\ nth_error (written g) (N.to_nat (w - 1)) = Some v) /\
  StronglySorted N.le (validated (ls t)) /\
  (forall t', holdsP (ls t) = true -> holdsP (ls t') = true -> t = t') /\
  current g = nth (N.to_nat (wc g - 1)) (written g) [].
Proof.
  intros Hr Hb. destruct (coarse_inv _ _ _ _ Hr Hb) as [HG HL]. cbn [fst snd] in *.
  destruct (HL t) as (_ & Hok & HD & _). split; [|split; [|split]].
  - unfold loads_ok in Hok. rewrite Forall_forall in Hok. intros w0 w v Hin. apply (Hok _ Hin).
  - apply (dchain_sorted _ _ HD).
  - intros t' H1 H2. destruct (Nat.eq_dec t' t) as [E|E]; auto.
    rewrite (excl_P g ls t t' HL H1 E) in H2. discriminate.
  - apply HG.
Qed.

(* ---------------- cell addresses (pure arithmetic) ---------------- *)
Lemma align_aligned_id v a : v mod a = 0 -> align v a = v.
Proof. intros H. unfold align. now rewrite H. Qed.

Lemma align_mod0 v a : a <> 0 -> align v a mod a = 0.
Proof.
  intros Ha. unfold align. destruct (N.eqb_spec (v mod a) 0) as [E|E]; auto.
  pose proof (N.div_mod v a Ha) as D. pose proof (N.mod_lt v a Ha) as L.
  replace (v + a - v mod a) with ((v / a + 1) * a) by nia. apply N.mod_mul. exact Ha.
Qed.

Lemma align_bounds v a : a <> 0 -> v <= align v a /\ align v a < v + a.
Proof.
  intros Ha. unfold align. pose proof (N.mod_lt v a Ha) as L.
  destruct (N.eqb_spec (v mod a) 0); lia.
Qed.

Lemma align_shift p v a : a <> 0 -> p mod a = 0 -> align (p + v) a = p + align v a.
Proof.
  intros Ha Hp. unfold align.
  assert (E : (p + v) mod a = v mod a).
  { rewrite N.add_mod by exact Ha. rewrite Hp, N.add_0_l. apply N.mod_mod. exact Ha. }
  rewrite E. pose proof (N.mod_lt v a Ha). destruct (N.eqb_spec (v mod a) 0); lia.
Qed.

Theorem sl_cells_disjoint size al ptr :
  1 <= size -> al <> 0 -> ptr mod al = 0 ->
  let a0 := data_cell size al ptr 0 in
  let a1 := data_cell size al ptr 1 in
  a0 = ptr /\ a1 = ptr + align size al /\
  a0 + size <= a1 /\ a1 + size <= ptr + reserved size al /\
  a0 mod al = 0 /\ a1 mod al = 0 /\
  (forall c, data_cell size al ptr c = if N.eqb (c mod 2) 0 then a0 else a1) /\
  (forall w, 1 <= w -> data_cell size al ptr w <> data_cell size al ptr (w - 1)).
Proof.
  intros Hs Ha Hp. cbv zeta.
  assert (E0 : data_cell size al ptr 0 = ptr).
  { unfold data_cell. change (0 mod 2) with 0. rewrite N.mul_0_r, N.add_0_r. apply align_aligned_id; auto. }
  assert (E1 : data_cell size al ptr 1 = ptr + align size al).
  { unfold data_cell. change (1 mod 2) with 1. rewrite N.mul_1_r. apply align_shift; auto. }
  destruct (align_bounds size al Ha) as [B1 B2].
  assert (Hc : forall c, data_cell size al ptr c = if N.eqb (c mod 2) 0 then data_cell size al ptr 0 else data_cell size al ptr 1).
  { intros c. unfold data_cell at 1. assert (c mod 2 < 2) by (apply N.mod_lt; lia).
    destruct (N.eqb_spec (c mod 2) 0) as [E|E].
    - rewrite E. reflexivity.
    - replace (c mod 2) with 1 by lia. reflexivity. }
  rewrite E0, E1. unfold reserved. repeat split; auto; try lia.
  - rewrite <- E1. unfold data_cell. apply align_mod0; auto.
  - intros c. rewrite Hc, E0, E1. reflexivity.
  - intros w Hw. rewrite (Hc w), (Hc (w - 1)), E0, E1.
    pose proof (cell_parity w Hw) as Hpar.
    assert (w mod 2 < 2) by (apply N.mod_lt; lia). assert ((w - 1) mod 2 < 2) by (apply N.mod_lt; lia).
    destruct (N.eqb_spec (w mod 2) 0), (N.eqb_spec ((w - 1) mod 2) 0); lia.
Qed.

Corollary sl_cells_disjoint_pow2 size k ptr :
  1 <= size -> ptr mod 2 ^ k = 0 ->
  let al := 2 ^ k in
  let a0 := data_cell size al ptr 0 in
  let a1 := data_cell size al ptr 1 in
  a0 + size <= a1 /\ ptr <= a0 /\ a1 + size <= ptr + reserved size al /\ a0 mod al = 0 /\ a1 mod al = 0.
Proof.
  intros Hs Hp. cbv zeta.
  assert (Ha : 2 ^ k <> 0) by (apply N.pow_nonzero; lia).
  destruct (sl_cells_disjoint size (2 ^ k) ptr Hs Ha Hp) as (A & B & C & D & E & F & _).
  repeat split; auto. rewrite A. lia.
Qed.

(* ---------------- concrete executions (witnesses, non-vacuity) ---------------- *)
(* the writer laps the reader in the middle of a 2-byte copy: the reader's buffer holds a
   mixture of two values, the validation fails, the retry returns a whole value *)
Definition lap_progs (t : nat) : list sop :=
  match t with
  | O => [OAcq; OStore [1; 1]; OStore [2; 2]]
  | S O => [OLoad]
  | _ => []
  end.
Definition lap_sched_a : list nat := [1;1; 0;0;0;0;0;0; 0;0;0;0; 1]%nat.
Definition lap_sched_b : list nat := lap_sched_a ++ [1;1;1;1;0]%nat.

Lemma lap_witness :
  let ca := fst (run fstep lap_sched_a (init 2 [7; 7] lap_progs)) in
  let cb := fst (run fstep lap_sched_b (init 2 [7; 7] lap_progs)) in
  reachable fstep (init 2 [7; 7] lap_progs) ca /\ reachable fstep (init 2 [7; 7] lap_progs) cb /\
  at_pc (snd ca 1%nat) = RCas 1 1 [7; 2] /\ wc (fst ca) = 2 /\
  loads (snd cb 1%nat) = [(1, 2, [1; 1])] /\ written (fst cb) = [[7; 7]; [1; 1]; [2; 2]] /\
  lenN (written (fst cb)) < W64.
Proof.
  cbv zeta. split; [exists lap_sched_a; reflexivity|]. split; [exists lap_sched_b; reflexivity|].
  vm_compute. repeat split; reflexivity.
Qed.

(* the full "no racy access" clause: a byte read never targets the cell a byte write targets *)
Definition sl_no_racy_read_full : Prop :=
  forall n v0 progs g ls t t' m v w i w0 w' buf j,
    reachable fstep (init n v0 progs) (g, ls) -> lenN (written g) < W64 ->
    at_pc (ls t) = WByte m v w i -> at_pc (ls t') = RByte w0 w' buf j ->
    w mod 2 <> (w' - 1) mod 2.

Definition race_progs (t : nat) : list sop :=
  match t with
  | O => [OAcq; OStore [1]; OStore [2]]
  | S O => [OLoad]
  | _ => []
  end.
Definition race_sched : list nat := [1; 0;0;0;0;0; 0;0]%nat.

Lemma sl_no_racy_read_refuted : ~ sl_no_racy_read_full.
Proof.
  intros H.
  set (c := fst (run fstep race_sched (init 1 [7] race_progs))).
  assert (Hr : reachable fstep (init 1 [7] race_progs) (fst c, snd c)) by (exists race_sched; reflexivity).
  apply (H 1%nat [7] race_progs (fst c) (snd c) 0%nat 1%nat MStore [2] 2 0%nat 1 1 [] 0%nat Hr);
    vm_compute; reflexivity.
Qed.

(* hand-over of the producer handle *)
Definition ho_progs (t : nat) : list sop :=
  match t with
  | O => [OAcq; OStore [1]; ORel]
  | S O => [OAcq; OAcq; OStore [2]]
  | _ => []
  end.
Definition ho_sched : list nat := [0; 1; 0;0;0;0; 0; 1; 1;1;1;1]%nat.

Lemma ho_witness :
  let c := fst (run fstep ho_sched (init 1 [7] ho_progs)) in
  reachable fstep (init 1 [7] ho_progs) c /\
  holdsP (snd c 0%nat) = false /\ holdsP (snd c 1%nat) = true /\ written (fst c) = [[7]; [1]; [2]] /\
  snd (run fstep [0; 1]%nat (init 1 [7] ho_progs)) =
    [(0%nat, EAcc 1 B_HASP 0 KCas Acquire Relaxed 1 0 true); (0%nat, ERet 1);
     (1%nat, EAcc 1 B_HASP 0 KCas Acquire Relaxed 0 0 false); (1%nat, ERet 0)].
Proof.
  cbv zeta. split; [exists ho_sched; reflexivity|]. vm_compute. repeat split; reflexivity.
Qed.
