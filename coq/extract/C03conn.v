From V Require Import model.Base model.Conc model.Events model.ConnConc.
Require Extraction.
Require Import ExtrOcamlBasic.
Extraction Language OCaml.
Definition conn_step := ConnConc.step.
Definition conn_init := ConnConc.init.
Definition conn_sub_wp := ConnConc.sub_wp.
Definition conn_comp_wp := ConnConc.comp_wp.
Definition conn_hand := ConnConc.hand.
Definition conn_required_cq := ConnConc.completion_queue_size.
Extraction "../ocaml/c03conn/model.ml" conn_step conn_init conn_sub_wp conn_comp_wp conn_hand conn_required_cq N.of_nat N.to_nat.
