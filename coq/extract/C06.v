From V Require Import model.Base model.Conc model.Service.
Require Extraction.
Require Import ExtrOcamlBasic.
Extraction Language OCaml.
Extraction "../ocaml/c06/model.ml" step g_init l_init does_exist listing verify open_check mk_cfg
  sp_init sp_create sp_open sp_drop sp_ooc sp_exists field_table
  prog at_pc handles nreg rets insts cur tags glog N.of_nat N.to_nat.
