From V Require Import model.Base model.RingQueue model.Obs model.Vec model.Str model.SlotMap model.FlatMap model.RelocOption.
Require Extraction.
Require Import ExtrOcamlBasic.
Extraction Language OCaml.
Extraction "../ocaml/c16/model.ml" rq_new rq_step sq_new sq_step N.of_nat N.to_nat
  sortN vec_new vec_step svec_new svec_step
  str_new str_step sstr_new sstr_step sbytes
  sm_new sm_step smap_new smap_step
  fm_step fmap_new fmap_step
  ro_step so_step.
