From V Require Import model.Base model.RingQueue.
Require Extraction.
Require Import ExtrOcamlBasic.
Extraction Language OCaml.
Extraction "../ocaml/c16/model.ml" rq_new rq_step sq_new sq_step N.of_nat N.to_nat.
