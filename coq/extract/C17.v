From V Require Import model.Base gen.OwnGraph model.Own.
Require Extraction.
Require Import ExtrOcamlBasic.
Extraction Language OCaml.
Extraction "../ocaml/c17/model.ml" scenario scenario_rr2 wf_instb keep_edges acyclicb init run inst_fuel observe
  scenario_ok start drop_slot observe_scn handle_alive nslots own_types own_edges own_res own_policies.
