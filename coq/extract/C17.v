From V Require Import model.Base gen.OwnGraph model.Own.
Require Extraction.
Require Import ExtrOcamlBasic.
Extraction Language OCaml.
Extraction "../ocaml/c17/model.ml" scenario_ok start drop_slot observe_scn handle_alive nslots
  own_types own_edges keep_edges acyclicb.
