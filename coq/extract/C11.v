From V Require Import model.Base model.ReqRes.
Require Extraction.
Require Import ExtrOcamlBasic.
Extraction Language OCaml.
Extraction "../ocaml/c11/model.ml" mkCfg init step digest_p digest_a client_peers server_peers act_foreign last_recv_foreign step_send_okb cons_okb stepx client_send_peers
  ospec0 o_recv o_act_connected N.of_nat N.to_nat.
