From V Require Import model.Base model.Conc model.Fs model.ProcState.
Require Extraction.
Require Import ExtrOcamlBasic.
Extraction Language OCaml.
Definition ps_step := ProcState.step.
Definition ps_step1 (priv nlc : bool) := Conc.step1 (ProcState.step priv nlc).
Definition ps_init := ProcState.init.
Definition ps_l_init := ProcState.l_init.
Definition ps_fs_init := ProcState.fs_init.
Definition ps_listing := Fs.fs_listing.
Definition ps_holds_lock := Fs.holds_lock.
Extraction "../ocaml/c07/model.ml" ps_step ps_step1 ps_init ps_l_init ps_fs_init ps_listing ps_holds_lock N.of_nat N.to_nat.
