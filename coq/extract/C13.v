From V Require Import model.Base model.Conc model.Events model.ConnState.
Require Extraction.
Require Import ExtrOcamlBasic.
Extraction Language OCaml.
Definition conn_step := ConnState.step.
Definition conn_step1 := Conc.step1 ConnState.step.
Definition conn_init := ConnState.init.
Definition conn_ginit := ConnState.g_init.
Definition conn_linit := ConnState.l_init.
Definition conn_unlink_good := ConnState.unlink_good.
Definition conn_attached := ConnState.attached.
Definition conn_get_inc := ConnState.get_inc.
Definition conn_reserve_check := ConnState.reserve_check.
Definition conn_remove_new := ConnState.remove_new.
Definition conn_mismatch := ConnState.mismatch.
Extraction "../ocaml/c13/model.ml" conn_step conn_step1 conn_init conn_ginit conn_linit conn_unlink_good conn_attached
  conn_get_inc conn_reserve_check conn_remove_new conn_mismatch N.of_nat N.to_nat.
