From V Require Import model.Base model.Conc model.Events model.SeqLock model.Blackboard.
From V Require model.SeqLockRA.
Require Extraction.
Require Import ExtrOcamlBasic.
Extraction Language OCaml.
Definition sl_step1 := Conc.step1 SeqLock.step.
Definition sl_fstep1 := Conc.step1 SeqLock.fstep.
Definition sl_init := SeqLock.init.
Definition sl_ops := (SeqLock.OAcq, SeqLock.ORel, SeqLock.OLoad).
Definition sl_store (v : SeqLock.value) := SeqLock.OStore v.
Definition sl_loan (v : SeqLock.value) := SeqLock.OLoan v.
Definition sl_discard (v : SeqLock.value) := SeqLock.OLoanDiscard v.
Definition sl_final (g : SeqLock.gst) := (SeqLock.wc g, SeqLock.vhash (SeqLock.current g)).
Definition sl_in_copy (l : SeqLock.lst) := SeqLock.in_copy (SeqLock.at_pc l).
Definition slra_step1 (Q : SeqLockRA.sords) := Conc.step1 (SeqLockRA.sstep Q).
Definition slra_init := SeqLockRA.sinit.
Definition slra_mk_ords := SeqLockRA.Build_sords.
Definition slra_set_oracle (g : SeqLockRA.sgst) (o : list N) : SeqLockRA.sgst :=
  SeqLockRA.set_sg g (SeqLockRA.sg g) o (SeqLockRA.srace_used g) (SeqLockRA.svalidated g).
Definition slra_race_used := SeqLockRA.srace_used.
Definition slra_oracle := SeqLockRA.soracle.
Definition slra_ords_code := SeqLockRA.sl_ords_code.
Definition slra_in_copy (l : SeqLockRA.slst) := SeqLock.in_copy (SeqLock.at_pc (SeqLockRA.ssc l)).
Definition slra_final (g : SeqLockRA.sgst) := (SeqLock.wc (SeqLockRA.sg g), SeqLock.vhash (SeqLock.current (SeqLockRA.sg g))).
Extraction "../ocaml/c12/model.ml" slra_ords_code slra_in_copy slra_final slra_step1 slra_init slra_mk_ords slra_set_oracle slra_race_used slra_oracle sl_step1 sl_fstep1 sl_init sl_ops sl_store sl_loan sl_discard sl_final sl_in_copy N.of_nat N.to_nat
  bb_new bb_step bb_sp_new bb_sp_step bb_sp_digest_ok bb_nwriters bb_nreaders.
