From V Require Import model.Base model.Conc model.Events model.Container.
Require Extraction.
Require Import ExtrOcamlBasic.
Extraction Language OCaml.
Definition c10_step1 := Conc.step1 Container.step.
Definition c10_init := Container.init.
Definition c10_final := Container.final_obs.
Definition c10_add (v : N) (fz : option nat) := Container.CAdd v fz.
Definition c10_rem (j : nat) (fz : option nat) := Container.CRem j fz.
Definition c10_rec (p : bool) := Container.CRec p.
Definition c10_upd := Container.CUpd.
Definition c10_empty := Container.EMPTY.
Definition c10_owner_of := Container.owner_of.
Definition c10_odd := Container.odd.
Definition c10_orph (l : Container.clst) : list N := Container.orph l.
Definition c10_prog_len (l : Container.clst) : nat := length (Container.prog l).
Definition c10_pc_tag (l : Container.clst) : N :=
  match Container.pc l with
  | Idle => 0 | AddLoadIgen _ => 1 | AddScan _ _ _ => 2 | AddFinal _ _ => 3 | IncLoad _ => 4 | IncCas _ _ => 5
  | AddDist0 _ _ => 6 | AddLoadGen _ _ => 7 | AddCasGen _ _ _ => 8 | AddDist1 _ _ => 9 | AddWrite _ _ => 10
  | AddIncGen _ _ => 11 | AddIncChange _ _ => 12 | AddDist1b _ => 13 | AddRetCell _ => 14
  | RemLoadGen _ => 15 | RemDist2 _ _ => 16 | RemCasCell _ _ => 17 | RemCasGen _ _ => 18 | RemIncChange => 19
  | RecDist2 _ => 20 | RecLoadCell _ _ _ => 21 | RecPDist0 _ _ _ _ => 22 | RecLoadGen _ _ _ => 23 | RecPDist1 _ _ _ _ => 24
  | RecRead _ _ _ _ => 25 | RecValidate _ _ _ _ _ => 26 | RecCasCell _ _ _ _ => 27 | RecSDist0 _ _ _ _ => 28
  | RecCasGen _ _ _ _ => 29 | RecEnd _ => 30 | RecIncChange _ _ => 31
  | UpdDist0 => 32 | UpdLoadGen _ => 33 | UpdDist1 _ _ => 34 | UpdCopy _ _ => 35 | UpdValidate _ _ => 36
  end.
Extraction "../ocaml/c10/model.ml" c10_step1 c10_init c10_final c10_add c10_rem c10_rec c10_upd c10_orph c10_empty c10_owner_of c10_odd c10_prog_len c10_pc_tag N.of_nat N.to_nat.
