From V Require Import model.Base model.Lifecycle.
Require Extraction.
Require Import ExtrOcamlBasic.
Extraction Language OCaml.
Extraction "../ocaml/c04/model.ml" show_op show_op_full steps_of.
