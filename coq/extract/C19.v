From V Require Import model.Base model.Names.
Require Extraction.
Require Import ExtrOcamlBasic.
Extraction Language OCaml.
Extraction "../ocaml/c19/model.ml" sty_of sem_new sem_apply spec_new spec_apply semerr_agree rules_of
  utf8_valid service_name_new node_name_new service_name_rules node_name_rules
  path_normalize path_entries path_is_absolute path_add_path_entry
  fp_file_name fp_path fp_from_path_and_file spec_from_path_and_file
  nc_path_for nc_extract_name_from_file nc_extract_name_from_path last_component
  spec_add_path_entry spec_path_for spec_extract_name_from_file spec_extract_name_from_path
  connection_name extract_sender_port_id extract_receiver_port_id dec_print dec_parse
  prefix_related cap_of.
