From V Require Import model.Base model.Conc model.Events model.Event model.EventPort.
Require Extraction.
Require Import ExtrOcamlBasic.
Extraction Language OCaml.
Definition ev_step1 := Conc.step1 Event.step.
Definition ev_init := Event.init.
Definition ev_pols := (Event.pol_model, Event.pol_take_all, Event.pol_one_each).
Definition ev_kinds := (Event.EBitSet, Event.ECounting).
Definition ev_modes := (Event.WTry, Event.WTimed, Event.WBlock).
Definition ev_words := Event.words.
Definition ev_obs (g : Event.egst) := (Event.st_code (Event.st g), Event.trig g, Event.nwords (Event.kind g) (Event.cap g)).
Definition ev_ghost (g : Event.egst) (i : N) :=
  (Event.notified_total g i, Event.delivered_total g i, Event.covered g i, (Event.done_idx g i, Event.lost g i)).
Definition ev_pend (g : Event.egst) (i : N) := Event.pend (Event.kind g) (Event.words g) i.
Definition ev_local (l : Event.elst) := (Event.prog l, Event.at_pc l, Event.ffull l, Event.my_idx l).
Definition ev_asleep := Event.asleep_b.
Definition ev_lost_wakeup := Event.lost_wakeup_b.
Definition ev_bad_window := Event.bad_window_b.
Definition ev_undelivered := Event.undelivered_b.
Definition port_step := EventPort.pstep.
Definition port_init := EventPort.pinit.
Definition port_ops := (EventPort.PCreateN, EventPort.PDropN).
Definition port_op (tag k : N) : EventPort.pop :=
  match tag with 0 => EventPort.PCreateL k | 1 => EventPort.PDropL k | 2 => EventPort.PNotify k | _ => EventPort.PWait k end.
Extraction "../ocaml/c05/model.ml" port_step port_init port_ops port_op ev_step1 ev_init ev_pols ev_kinds ev_modes ev_words ev_obs ev_ghost ev_pend ev_local
  ev_asleep ev_lost_wakeup ev_bad_window ev_undelivered N.of_nat N.to_nat.
