From V Require Import model.Base model.Conn model.Port.
Require Extraction.
Require Import ExtrOcamlBasic.
Extraction Language OCaml.
Extraction "../ocaml/c01/model.ml" world_new config_ok step canary canary_expected spec_obs recv_in_order
  free_count saturated live_loans pub_live sub_live getp gets getc bump_tbrcap panics inv_check pub_inv_b stale_expired lost_delivery inv_topology_b.
