From V Require Import model.Base model.Conc model.Events model.SpscQueue.
Require Extraction.
Require Import ExtrOcamlBasic.
Extraction Language OCaml.
Definition spsc_step1 := Conc.step1 SpscQueue.step.
Definition spsc_init := SpscQueue.init.
Definition spsc_content := SpscQueue.content.
Extraction "../ocaml/c03/model.ml" spsc_step1 spsc_init spsc_content N.of_nat N.to_nat.
