From V Require Import model.Base model.Conc model.Events model.SpscQueue model.OverflowQueue model.SpscQueueRA.
From V Require model.OverflowQueueRA.
Require Extraction.
Require Import ExtrOcamlBasic.
Extraction Language OCaml.
Definition spsc_step1 := Conc.step1 SpscQueue.step.
Definition spsc_init := SpscQueue.init.
Definition spsc_content := SpscQueue.content.
Definition spsc_push (v : N) := SpscQueue.OPush v.
Definition spsc_ops := (SpscQueue.OAcqP, SpscQueue.ORelP, SpscQueue.OAcqC, SpscQueue.ORelC, SpscQueue.OPop).
Definition oq_step1 := Conc.step1 OverflowQueue.step.
Definition oq_init := OverflowQueue.init.
Definition oq_content := OverflowQueue.content.
Definition oq_push (v : N) := OverflowQueue.OPush v.
Definition oq_ops := (OverflowQueue.OAcqP, OverflowQueue.ORelP, OverflowQueue.OAcqC, OverflowQueue.ORelC, OverflowQueue.OPop).
Definition ra_step1 (O : ords) := Conc.step1 (SpscQueueRA.rstep O).
Definition ra_init := SpscQueueRA.rinit.
Definition ra_mk_ords := SpscQueueRA.Build_ords.
Definition ra_ords_code := SpscQueueRA.ords_code.
Definition ra_set_oracle (g : rgst) (o : list N) : rgst :=
  {| rcap := rcap g; rwp := rwp g; rrp := rrp g; rslots := rslots g; oracle := o; race := race g;
     rpushed := rpushed g; rpopped := rpopped g |}.
Definition ra_race := SpscQueueRA.race.
Definition ra_oracle := SpscQueueRA.oracle.
Definition ra_conserving (g : rgst) : bool :=
  if list_eq_dec N.eq_dec (rpushed g) (rpopped g ++ rcontent g) then true else false.
Definition oqra_step1 (Q : OverflowQueueRA.qords) := Conc.step1 (OverflowQueueRA.qstep Q).
Definition oqra_init := OverflowQueueRA.qinit.
Definition oqra_mk_ords := OverflowQueueRA.Build_qords.
Definition oqra_set_oracle := OverflowQueueRA.set_oracle.
Definition oqra_race_used := OverflowQueueRA.race_used.
Definition oqra_race_spec := OverflowQueueRA.race_spec.
Definition oqra_oracle := OverflowQueueRA.qoracle.
Definition oqra_conserving (g : OverflowQueueRA.qgst) : bool :=
  if list_eq_dec N.eq_dec (OverflowQueueRA.qpushed g) (map fst (OverflowQueueRA.qremoved g) ++ OverflowQueueRA.qcontent g) then true else false.
Definition oqra_ords_sync := OverflowQueueRA.oq_ords_sync.
Definition oqra_content := OverflowQueueRA.qcontent.
Definition oqra_push (v : N) := OverflowQueueRA.QPush v.
Definition oqra_pop := OverflowQueueRA.QPop.
Definition ra_content := SpscQueueRA.rcontent.
Extraction "../ocaml/c03/model.ml" ra_content oqra_ords_sync oqra_content oqra_push oqra_pop oqra_step1 oqra_init oqra_mk_ords oqra_set_oracle oqra_race_used oqra_race_spec oqra_oracle oqra_conserving ra_step1 ra_init ra_mk_ords ra_ords_code ra_set_oracle ra_race ra_oracle ra_conserving spsc_step1 spsc_init spsc_content spsc_push spsc_ops oq_step1 oq_init oq_content oq_push oq_ops N.of_nat N.to_nat.
