From V Require Import model.Base model.Conc model.Events model.SpscQueue model.OverflowQueue.
Require Extraction.
Require Import ExtrOcamlBasic.
Extraction Language OCaml.
Definition spsc_step1 := Conc.step1 SpscQueue.step.
Definition spsc_init := SpscQueue.init.
Definition spsc_content := SpscQueue.content.
Definition spsc_push (v : N) := SpscQueue.OPush v.
Definition spsc_ops := (SpscQueue.OAcqP, SpscQueue.ORelP, SpscQueue.OAcqC, SpscQueue.ORelC, SpscQueue.OPop).
Definition oq_step1 := Conc.step1 OverflowQueue.step.
Definition oq_init := OverflowQueue.init.
Definition oq_content := OverflowQueue.content.
Definition oq_push (v : N) := OverflowQueue.OPush v.
Definition oq_ops := (OverflowQueue.OAcqP, OverflowQueue.ORelP, OverflowQueue.OAcqC, OverflowQueue.ORelC, OverflowQueue.OPop).
Extraction "../ocaml/c03/model.ml" spsc_step1 spsc_init spsc_content spsc_push spsc_ops oq_step1 oq_init oq_content oq_push oq_ops N.of_nat N.to_nat.
