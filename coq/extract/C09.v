From V Require Import model.Base model.Conc model.Events model.UniqueIndexSet model.RobustIndexSet.
Require Extraction.
Require Import ExtrOcamlBasic.
Extraction Language OCaml.
Definition uis_step1 := Conc.step1 UniqueIndexSet.ustep.
Definition uis_init := UniqueIndexSet.uinit.
Definition ruis_step1 := Conc.step1 RobustIndexSet.rstep.
Definition ruis_init := RobustIndexSet.rinit.
Extraction "../ocaml/c09/model.ml" uis_step1 uis_init uis_ginv_b uis_linv_b owned_by hd_head hd_aba hd_borrowed ruis_step1 ruis_init N.of_nat N.to_nat.
