From V Require Import model.Base model.Conc model.Events model.UniqueIndexSet model.RobustIndexSet.
From V Require model.UniqueIndexSetRA.
Require Extraction.
Require Import ExtrOcamlBasic.
Extraction Language OCaml.
Definition uis_step1 := Conc.step1 UniqueIndexSet.ustep.
Definition uis_init := UniqueIndexSet.uinit.
Definition ruis_step1 := Conc.step1 RobustIndexSet.rstep.
Definition ruis_init := RobustIndexSet.rinit.
Definition uisra_step1 (Q : UniqueIndexSetRA.vords) := Conc.step1 (UniqueIndexSetRA.vstep Q).
Definition uisra_init := UniqueIndexSetRA.vinit.
Definition uisra_mk_ords := UniqueIndexSetRA.Build_vords.
Definition uisra_set_oracle (g : UniqueIndexSetRA.vgst) (o : list N) : UniqueIndexSetRA.vgst :=
  UniqueIndexSetRA.set_vg g (UniqueIndexSetRA.vg g) (UniqueIndexSetRA.vhist g) (UniqueIndexSetRA.vlastrel g)
                          (UniqueIndexSetRA.vrelby g) o (UniqueIndexSetRA.vrace_used g).
Definition uisra_race_used := UniqueIndexSetRA.vrace_used.
Definition uisra_oracle := UniqueIndexSetRA.voracle.
Definition uisra_sc (l : UniqueIndexSetRA.vlst) := UniqueIndexSetRA.vsc l.
Definition uisra_g (g : UniqueIndexSetRA.vgst) := UniqueIndexSetRA.vg g.
Definition uisra_ords_code := UniqueIndexSetRA.uis_ords_code.
Extraction "../ocaml/c09/model.ml" uisra_ords_code uisra_step1 uisra_init uisra_mk_ords uisra_set_oracle uisra_race_used uisra_oracle uisra_sc uisra_g uis_step1 uis_init uis_ginv_b uis_linv_b owned_by hd_head hd_aba hd_borrowed ruis_step1 ruis_init N.of_nat N.to_nat.
