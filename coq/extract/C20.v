From V Require Import model.Base model.WaitSet.
Require Extraction.
Require Import ExtrOcamlBasic.
Extraction Language OCaml.
Extraction "../ocaml/c20/model.ml" sys_new step sp_new sp_step obs_ok proc_resets
  w guards nextg pend rcap rmaxev rorder reactor dq id_count a2d d2a counter de_idx de_period
  s_cap s_gl s_next s_pend N.of_nat N.to_nat
  tdq_new t_add t_peek t_report t_call t_missed t_spec_missed t_prev t_att t_set_prev.
