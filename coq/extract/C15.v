From V Require Import model.Base model.Alloc.
Require Extraction.
Require Import ExtrOcamlBasic.
Extraction Language OCaml.
Extraction "../ocaml/c15/model.ml" align pool_new pool_allocate pool_deallocate fixed_pool_new bump_new bump_allocate oc_new oc_allocate oc_deallocate po_make po_new po_offset po_segment po_set_segment cal_new cal_init_ok cal_relative_start cal_allocate cal_deallocate cal_resize_hint setup_payload_size cb_new cb_allocate cb_deallocate cb_resize_hint all_headers_len user_header_ptr_from_header payload_ptr_from_header mtd_max_alignment chunk_layout static_segment_size dynamic_segment_size dyn_new dyn_allocate dyn_deallocate dyn_nsegs view_new view_register view_unregister view_nsegs alookup live_ok live_ok_one live_disjoint_from live_pairwise_disjoint N.add N.sub N.mul N.div N.modulo N.eqb N.leb N.ltb N.of_nat N.to_nat.
