(* Publish-subscribe ports on top of model/Conn.v: sequential model of
     iceoryx2/src/port/publisher.rs, subscriber.rs, details/sender.rs, details/receiver.rs,
     details/segment_state.rs, details/data_segment.rs (static segment, pool allocator),
     sample.rs, sample_mut.rs (+ details/chunk_mut_shared_state.rs),
     service/dynamic_config/publish_subscribe.rs (the two port registries),
     service/static_config/publish_subscribe.rs (required_amount_of_samples_per_data_segment),
     service/builder/publish_subscribe.rs + port_factory/{publisher,subscriber}.rs (QoS checks)
   as the code is NOW.  One function per Rust function ("micro-step": one access to state
   shared between ports plus the port-local bookkeeping that belongs to it); an API call is
   the fixed sequence of micro-steps written in `step`.

   What is abstracted, and by what:
   * the registries (mpmc::Container) are their sequential specification: slots, lowest free
     slot on add (RobustUniqueIndexSet::acquire scans 0..capacity), change counter; a
     ContainerState snapshot is a copy of the slots (the concurrent implementation is C10);
   * the subscriber's connection_storage (SlotMap) is its sequential specification: keys,
     LIFO free-key list starting 0,1,.. (C16: the c16_slotmap theorems), iteration in ascending key order;
   * the publisher's history (Queue) is a FIFO list with capacity (C16: c16_queue_refines_fifo);
   * the pool allocator of the data segment is a LIFO free list starting 0,1,.. (UniqueIndexSet:
     release pushes on the head; its concurrent behaviour is C09);
   * connection creation never fails (unique port ids: no name clash; no OS failure);
   * one node, fixed-size payload, static data segment, channel 0 only.
   Port ids: a publisher (subscriber) id is its position in w_pubs (w_subs); ports are never
   removed from these lists, only marked.  Rust panics are the Panic outcome. *)
From V Require Import model.Base model.Conn.

(* ---------------------------------------------------------------------------------------- *)
(* small helpers                                                                             *)
(* ---------------------------------------------------------------------------------------- *)
Definition rbind {A B} (r : res A) (f : A -> res B) : res B :=
  match r with Panic => Panic | Val a => f a end.
Notation "x <- r ;; k" := (rbind r (fun x => k)) (at level 61, r at next level, right associativity).

Definition lastn {A} (n : nat) (l : list A) : list A := skipn (length l - n) l.

(* ---------------------------------------------------------------------------------------- *)
(* configuration and registries                                                              *)
(* ---------------------------------------------------------------------------------------- *)
Record config := {
  cf_S : nat;      (* max_subscribers *)
  cf_P : nat;      (* max_publishers *)
  cf_B : nat;      (* subscriber_max_buffer_size *)
  cf_M : nat;      (* subscriber_max_borrowed_samples *)
  cf_H : nat;      (* history_size *)
  cf_ovf : bool;   (* enable_safe_overflow *)
  cf_E : nat }.    (* config.defaults.publish_subscribe.subscriber_expired_connection_buffer *)

(* builder::adjust_configuration_to_meaningful_values: 0 -> 1 *)
Definition adjust (c : config) : config :=
  {| cf_S := Nat.max 1 (cf_S c); cf_P := Nat.max 1 (cf_P c); cf_B := Nat.max 1 (cf_B c);
     cf_M := Nat.max 1 (cf_M c); cf_H := cf_H c; cf_ovf := cf_ovf c; cf_E := cf_E c |}.
(* create_impl: !enable_safe_overflow && subscriber_max_buffer_size < history_size is refused *)
Definition config_ok (c : config) : bool := cf_ovf c || Nat.leb (cf_H c) (cf_B c).

(* static_config::required_amount_of_samples_per_data_segment *)
Definition required_samples (c : config) (l : nat) : nat :=
  cf_S c * (cf_B c + cf_M c) + cf_H c + l.

Record sdetails := { sd_id : nat; sd_buf : nat; sd_hreq : nat }.
Record pdetails := { pd_id : nat; pd_n : nat }.

Record registry (A : Type) := { r_slots : list (option A); r_cc : N }.
Arguments r_slots {A}. Arguments r_cc {A}.
Record snap (A : Type) := { sn_slots : list (option A); sn_cc : N }.
Arguments sn_slots {A}. Arguments sn_cc {A}.

Fixpoint first_free {A} (l : list (option A)) (i : nat) : option nat :=
  match l with
  | [] => None
  | None :: _ => Some i
  | Some _ :: t => first_free t (S i)
  end.

(* Container::add: index_set.acquire (lowest free index) ; change_counter += 1 *)
Definition reg_add {A} (r : registry A) (x : A) : option (registry A * nat) :=
  match first_free (r_slots r) 0 with
  | None => None
  | Some i => Some ({| r_slots := upd (r_slots r) i (Some x); r_cc := N.succ (r_cc r) |}, i)
  end.
(* Container::remove(handle) *)
Definition reg_remove {A} (r : registry A) (i : nat) : registry A :=
  {| r_slots := upd (r_slots r) i None; r_cc := N.succ (r_cc r) |}.
(* Container::get_state / update_state: true iff the change counter moved *)
Definition reg_get_state {A} (r : registry A) : snap A := {| sn_slots := r_slots r; sn_cc := r_cc r |}.
Definition reg_update_state {A} (r : registry A) (s : snap A) : snap A * bool :=
  if N.eqb (sn_cc s) (r_cc r) then (s, false) else (reg_get_state r, true).

(* ---------------------------------------------------------------------------------------- *)
(* ports                                                                                     *)
(* ---------------------------------------------------------------------------------------- *)
Record payload := { pl_pub : nat; pl_seq : N }.
Definition pl0 : payload := {| pl_pub := 0; pl_seq := 0 |}.

(* backpressure handler of a publisher: none, or a script (see Conn.hscript) *)
(* a handler may also ACT before it answers: it runs inside blocking_send, i.e. between the
   publisher's retrieve_returned_chunks and its push.  Actions are operations of the subscriber
   whose buffer is full: drop its oldest held Sample / receive (the Sample is kept). *)
Inductive hact := HDrop | HRecv.
Record hgroup := { g_acts : list hact; g_ans : bp_action }.
Inductive hmode := HNone | HScript (h : hscript) | HActs (gs : list hgroup) (last : hgroup).

Record hent := { he_off : off; he_idx : nat (* ghost: send index *) }.

Record pubst := {
  p_active : bool;             (* the Publisher object exists (is_active; registered) *)
  p_alive : bool;              (* the PublisherSharedState exists (Publisher or a SampleMut holds it) *)
  p_slot : nat;                (* dynamic_publisher_handle.index *)
  p_L : nat;                   (* sender_max_borrowed_chunks = max_loaned_samples *)
  p_retry : bool;              (* backpressure_strategy == RetryUntilDelivered *)
  p_handler : hmode;
  p_n : nat;                   (* number_of_chunks *)
  p_refcnt : list N;           (* segment_states[0].chunk_reference_counter (AtomicU64, wraps) *)
  p_free : list off;           (* pool allocator free list, head = next allocation *)
  p_mem : list payload;        (* content of the chunks *)
  p_loans : nat;               (* loan_counter *)
  p_hist : list hent;          (* history, oldest first *)
  p_tab : list (option nat);   (* connections[i] = Some(connection with receiver_port_id) *)
  p_snap : snap sdetails;      (* subscriber_list_state *)
  p_seq : N;                   (* harness convention: next payload sequence number *)
  p_sent : list payload        (* ghost: the send log *)
}.

Record sent := { se_pub : nat; se_tag : bool }.   (* receiver::Connection: sender_port_id, tag == tagger *)

Record rlog := { rl_pub : nat; rl_idx : nat; rl_pl : payload }.

Record subst := {
  s_active : bool;             (* the Subscriber object exists (registered) *)
  s_alive : bool;              (* the SubscriberSharedState exists (Subscriber or a Sample holds it) *)
  s_slot : nat;
  s_buf : nat;                 (* buffer_size *)
  s_hreq : nat;
  s_tab : list (option nat);   (* connections[i] = Some(SlotMapKey) *)
  s_store : list (option sent);(* connection_storage *)
  s_freekeys : list nat;       (* its free-key list *)
  s_tbr : list nat;            (* to_be_removed_connections *)
  s_tbrcap : nat;
  s_snap : snap pdetails;      (* publisher_list_state *)
  s_recv : list rlog           (* ghost: receive log, oldest first *)
}.

Record loan := { l_id : nat; l_pub : nat; l_off : off }.
Record sample := {
  x_id : nat; x_sub : nat; x_key : nat; x_off : off; x_origin : nat;
  x_idx : nat;        (* ghost: send index *)
  x_expect : payload  (* ghost: the chunk content when the sample was received *)
}.

Record world := {
  w_cfg : config;
  w_sreg : registry sdetails;
  w_preg : registry pdetails;
  w_pubs : list pubst;
  w_subs : list subst;
  w_conns : list (nat * nat * conn);    (* (publisher id, subscriber id) -> connection *)
  w_loans : list loan;
  w_samples : list sample;
  w_nloan : nat;
  w_nsample : nat }.

Definition world_new (c0 : config) : world :=
  let c := adjust c0 in
  {| w_cfg := c;
     w_sreg := {| r_slots := repeat None (cf_S c); r_cc := 0 |};
     w_preg := {| r_slots := repeat None (cf_P c); r_cc := 0 |};
     w_pubs := []; w_subs := []; w_conns := []; w_loans := []; w_samples := [];
     w_nloan := 0; w_nsample := 0 |}.

(* record updates *)
Definition w_set_pubs (w : world) (x : list pubst) : world :=
  {| w_cfg := w_cfg w; w_sreg := w_sreg w; w_preg := w_preg w; w_pubs := x; w_subs := w_subs w;
     w_conns := w_conns w; w_loans := w_loans w; w_samples := w_samples w; w_nloan := w_nloan w; w_nsample := w_nsample w |}.
Definition w_set_subs (w : world) (x : list subst) : world :=
  {| w_cfg := w_cfg w; w_sreg := w_sreg w; w_preg := w_preg w; w_pubs := w_pubs w; w_subs := x;
     w_conns := w_conns w; w_loans := w_loans w; w_samples := w_samples w; w_nloan := w_nloan w; w_nsample := w_nsample w |}.
Definition w_set_conns (w : world) (x : list (nat * nat * conn)) : world :=
  {| w_cfg := w_cfg w; w_sreg := w_sreg w; w_preg := w_preg w; w_pubs := w_pubs w; w_subs := w_subs w;
     w_conns := x; w_loans := w_loans w; w_samples := w_samples w; w_nloan := w_nloan w; w_nsample := w_nsample w |}.
Definition w_set_sreg (w : world) (x : registry sdetails) : world :=
  {| w_cfg := w_cfg w; w_sreg := x; w_preg := w_preg w; w_pubs := w_pubs w; w_subs := w_subs w;
     w_conns := w_conns w; w_loans := w_loans w; w_samples := w_samples w; w_nloan := w_nloan w; w_nsample := w_nsample w |}.
Definition w_set_preg (w : world) (x : registry pdetails) : world :=
  {| w_cfg := w_cfg w; w_sreg := w_sreg w; w_preg := x; w_pubs := w_pubs w; w_subs := w_subs w;
     w_conns := w_conns w; w_loans := w_loans w; w_samples := w_samples w; w_nloan := w_nloan w; w_nsample := w_nsample w |}.
Definition w_set_loans (w : world) (x : list loan) (n : nat) : world :=
  {| w_cfg := w_cfg w; w_sreg := w_sreg w; w_preg := w_preg w; w_pubs := w_pubs w; w_subs := w_subs w;
     w_conns := w_conns w; w_loans := x; w_samples := w_samples w; w_nloan := n; w_nsample := w_nsample w |}.
Definition w_set_samples (w : world) (x : list sample) (n : nat) : world :=
  {| w_cfg := w_cfg w; w_sreg := w_sreg w; w_preg := w_preg w; w_pubs := w_pubs w; w_subs := w_subs w;
     w_conns := w_conns w; w_loans := w_loans w; w_samples := x; w_nloan := w_nloan w; w_nsample := n |}.

Definition pub_dead : pubst :=
  {| p_active := false; p_alive := false; p_slot := 0; p_L := 0; p_retry := false; p_handler := HNone; p_n := 0;
     p_refcnt := []; p_free := []; p_mem := []; p_loans := 0; p_hist := []; p_tab := [];
     p_snap := {| sn_slots := []; sn_cc := 0 |}; p_seq := 0; p_sent := [] |}.
Definition sub_dead : subst :=
  {| s_active := false; s_alive := false; s_slot := 0; s_buf := 0; s_hreq := 0; s_tab := []; s_store := [];
     s_freekeys := []; s_tbr := []; s_tbrcap := 0; s_snap := {| sn_slots := []; sn_cc := 0 |}; s_recv := [] |}.

Definition getp (w : world) (p : nat) : pubst := nth p (w_pubs w) pub_dead.
Definition setp (w : world) (p : nat) (x : pubst) : world := w_set_pubs w (upd (w_pubs w) p x).
Definition gets (w : world) (s : nat) : subst := nth s (w_subs w) sub_dead.
Definition sets (w : world) (s : nat) (x : subst) : world := w_set_subs w (upd (w_subs w) s x).

(* connections: association list *)
Definition ckey_eqb (p s : nat) (k : nat * nat * conn) : bool := Nat.eqb (fst (fst k)) p && Nat.eqb (snd (fst k)) s.
Fixpoint find_conn (l : list (nat * nat * conn)) (p s : nat) : option conn :=
  match l with
  | [] => None
  | k :: t => if ckey_eqb p s k then Some (snd k) else find_conn t p s
  end.
Definition del_conn (l : list (nat * nat * conn)) (p s : nat) := filter (fun k => negb (ckey_eqb p s k)) l.
Definition put_conn (l : list (nat * nat * conn)) (p s : nat) (c : conn) := (p, s, c) :: del_conn l p s.
Definition getc (w : world) (p s : nat) : option conn := find_conn (w_conns w) p s.
(* store a connection; one that no port is attached to any more is removed
   (cleanup_shared_memory: remove_state -> MarkedForDestruction -> acquire_ownership) *)
Definition setc (w : world) (p s : nat) (c : conn) : world :=
  if c_snd c || c_rcv c then w_set_conns w (put_conn (w_conns w) p s c)
  else w_set_conns w (del_conn (w_conns w) p s).

(* ---------------------------------------------------------------------------------------- *)
(* publisher side (details/sender.rs, publisher.rs)                                          *)
(* ---------------------------------------------------------------------------------------- *)
Definition p_set_chunks (x : pubst) (rc : list N) (fr : list off) : pubst :=
  {| p_active := p_active x; p_alive := p_alive x; p_slot := p_slot x; p_L := p_L x; p_retry := p_retry x;
     p_handler := p_handler x; p_n := p_n x; p_refcnt := rc; p_free := fr; p_mem := p_mem x; p_loans := p_loans x;
     p_hist := p_hist x; p_tab := p_tab x; p_snap := p_snap x; p_seq := p_seq x; p_sent := p_sent x |}.
Definition p_set_loans (x : pubst) (n : nat) : pubst :=
  {| p_active := p_active x; p_alive := p_alive x; p_slot := p_slot x; p_L := p_L x; p_retry := p_retry x;
     p_handler := p_handler x; p_n := p_n x; p_refcnt := p_refcnt x; p_free := p_free x; p_mem := p_mem x; p_loans := n;
     p_hist := p_hist x; p_tab := p_tab x; p_snap := p_snap x; p_seq := p_seq x; p_sent := p_sent x |}.
Definition p_set_hist (x : pubst) (h : list hent) : pubst :=
  {| p_active := p_active x; p_alive := p_alive x; p_slot := p_slot x; p_L := p_L x; p_retry := p_retry x;
     p_handler := p_handler x; p_n := p_n x; p_refcnt := p_refcnt x; p_free := p_free x; p_mem := p_mem x; p_loans := p_loans x;
     p_hist := h; p_tab := p_tab x; p_snap := p_snap x; p_seq := p_seq x; p_sent := p_sent x |}.
Definition p_set_tab (x : pubst) (t : list (option nat)) : pubst :=
  {| p_active := p_active x; p_alive := p_alive x; p_slot := p_slot x; p_L := p_L x; p_retry := p_retry x;
     p_handler := p_handler x; p_n := p_n x; p_refcnt := p_refcnt x; p_free := p_free x; p_mem := p_mem x; p_loans := p_loans x;
     p_hist := p_hist x; p_tab := t; p_snap := p_snap x; p_seq := p_seq x; p_sent := p_sent x |}.
Definition p_set_snap (x : pubst) (s : snap sdetails) : pubst :=
  {| p_active := p_active x; p_alive := p_alive x; p_slot := p_slot x; p_L := p_L x; p_retry := p_retry x;
     p_handler := p_handler x; p_n := p_n x; p_refcnt := p_refcnt x; p_free := p_free x; p_mem := p_mem x; p_loans := p_loans x;
     p_hist := p_hist x; p_tab := p_tab x; p_snap := s; p_seq := p_seq x; p_sent := p_sent x |}.
Definition p_set_mem (x : pubst) (m : list payload) (q : N) : pubst :=
  {| p_active := p_active x; p_alive := p_alive x; p_slot := p_slot x; p_L := p_L x; p_retry := p_retry x;
     p_handler := p_handler x; p_n := p_n x; p_refcnt := p_refcnt x; p_free := p_free x; p_mem := m; p_loans := p_loans x;
     p_hist := p_hist x; p_tab := p_tab x; p_snap := p_snap x; p_seq := q; p_sent := p_sent x |}.
Definition p_set_sent (x : pubst) (l : list payload) : pubst :=
  {| p_active := p_active x; p_alive := p_alive x; p_slot := p_slot x; p_L := p_L x; p_retry := p_retry x;
     p_handler := p_handler x; p_n := p_n x; p_refcnt := p_refcnt x; p_free := p_free x; p_mem := p_mem x; p_loans := p_loans x;
     p_hist := p_hist x; p_tab := p_tab x; p_snap := p_snap x; p_seq := p_seq x; p_sent := l |}.
Definition p_set_life (x : pubst) (act alive : bool) : pubst :=
  {| p_active := act; p_alive := alive; p_slot := p_slot x; p_L := p_L x; p_retry := p_retry x;
     p_handler := p_handler x; p_n := p_n x; p_refcnt := p_refcnt x; p_free := p_free x; p_mem := p_mem x; p_loans := p_loans x;
     p_hist := p_hist x; p_tab := p_tab x; p_snap := p_snap x; p_seq := p_seq x; p_sent := p_sent x |}.

Definition MAX64 : N := 18446744073709551615.

(* Sender::borrow_chunk: chunk_reference_counter[index].fetch_add(1); returns the old value *)
Definition pub_borrow (x : pubst) (o : off) : pubst * N :=
  let old := nth o (p_refcnt x) 0%N in
  (p_set_chunks x (upd (p_refcnt x) o (if N.eqb old MAX64 then 0%N else N.succ old)) (p_free x), old).
(* Sender::release_chunk: untrack_chunk (fetch_sub(1), wraps) == 1 => deallocate_bucket (push on the free list) *)
Definition pub_release (x : pubst) (o : off) : pubst :=
  let old := nth o (p_refcnt x) 0%N in
  let rc := upd (p_refcnt x) o (if N.eqb old 0 then MAX64 else N.pred old) in
  p_set_chunks x rc (if N.eqb old 1 then o :: p_free x else p_free x).
Definition pub_release_opt (x : pubst) (o : option off) : pubst :=
  match o with Some v => pub_release x v | None => x end.

(* the reclaim loop of retrieve_returned_chunks for ONE connection: reclaim until Ok(None);
   Ok(Some(o)) => release_chunk(o); Err(corrupted) => warn, continue.  fuel = |completion queue| *)
Fixpoint reclaim_all (fuel : nat) (x : pubst) (c : conn) : pubst * conn :=
  match fuel with
  | O => (x, c)
  | S f =>
    match c_reclaim c with
    | (c1, RNone) => (x, c1)
    | (c1, RSome o) => reclaim_all f (pub_release x o) c1
    | (c1, RCorrupt) => reclaim_all f x c1
    end
  end.

(* Sender::retrieve_returned_chunks: for i in 0..len, connection i, channel 0 *)
Fixpoint retrieve_from (w : world) (p : nat) (tab : list (option nat)) : world :=
  match tab with
  | [] => w
  | None :: t => retrieve_from w p t
  | Some s :: t =>
    match getc w p s with
    | None => retrieve_from w p t
    | Some c =>
      let '(x1, c1) := reclaim_all (length (c_comp c)) (getp w p) c in
      retrieve_from (setc (setp w p x1) p s c1) p t
    end
  end.
Definition pub_retrieve (w : world) (p : nat) : world := retrieve_from w p (p_tab (getp w p)).

(* Sender::remove_connection(i): acquire_used_offsets(release_chunk); connections[i] = None
   (drops the zero-copy Sender: cleanup_shared_memory(State::Sender)) *)
Definition pub_remove_connection (w : world) (p i : nat) : world :=
  let x := getp w p in
  match nth i (p_tab x) None with
  | None => w
  | Some s =>
    let w1 := match getc w p s with
              | None => w
              | Some c =>
                let '(c1, offs) := c_acquire_used c in
                let x1 := fold_left pub_release offs x in
                setc (setp w p x1) p s (set_ports c1 false (c_rcv c1))
              end in
    let x2 := getp w1 p in
    setp w1 p (p_set_tab x2 (upd (p_tab x2) i None))
  end.

(* the shared part of "Ok(overflow) => borrow_chunk(offset); if let Some(old) = overflow { release_chunk(old) }" *)
Definition pub_account_send (x : pubst) (o : off) (ev : option off) : pubst :=
  pub_release_opt (fst (pub_borrow x o)) ev.

(* PublisherSharedState::deliver_sample_history(connection, history_request): the last
   min(history_request, connection.sender.buffer_size()) history entries, oldest first; before
   each: retrieve_returned_chunks; try_send; Ok => borrow/release; Err => warn *)
Fixpoint deliver_history (w : world) (p s : nat) (ents : list hent) : res world :=
  match ents with
  | [] => Val w
  | e :: t =>
    let w1 := pub_retrieve w p in
    match getc w1 p s with
    | None => Val w1
    | Some c =>
      r <- c_try_send c (he_off e) (he_idx e) ;;
      let '(c1, sr) := r in
      let w2 := setc w1 p s c1 in
      let w3 := match sr with
                | SOk ev => setp w2 p (pub_account_send (getp w2 p) (he_off e) ev)
                | _ => w2
                end in
      deliver_history w3 p s t
    end
  end.

(* Sender::create(index, details) + establish_new_connection_call *)
Definition pub_create_connection (w : world) (p i : nat) (d : sdetails) : res world :=
  let x := getp w p in
  let s := sd_id d in
  let cfg := w_cfg w in
  let c0 := match getc w p s with
            | Some c => c
            | None => conn_new (sd_buf d) (cf_M cfg) (cf_ovf cfg) (p_n x)
            end in
  let c1 := set_ports c0 true (c_rcv c0) in
  let w1 := setc w p s c1 in
  let w2 := setp w1 p (p_set_tab x (upd (p_tab x) i (Some s))) in
  let cnt := Nat.min (sd_hreq d) (c_B c1) in
  deliver_history w2 p s (lastn cnt (p_hist x)).

(* Sender::update_connection(index, details, establish) *)
Definition pub_update_connection (w : world) (p i : nat) (d : sdetails) : res world :=
  match nth i (p_tab (getp w p)) None with
  | None => pub_create_connection w p i d
  | Some s =>
    if Nat.eqb s (sd_id d) then Val w                     (* is_connected: tag *)
    else pub_create_connection (pub_remove_connection w p i) p i d
  end.

(* force_update_connections: start cycle; for_each slot of the snapshot; finish cycle (every
   connection that was not tagged = whose snapshot slot is empty is removed) *)
Fixpoint pub_update_slots (w : world) (p : nat) (slots : list (option sdetails)) (i : nat) : res world :=
  match slots with
  | [] => Val w
  | None :: t => pub_update_slots w p t (S i)
  | Some d :: t => w1 <- pub_update_connection w p i d ;; pub_update_slots w1 p t (S i)
  end.
Fixpoint pub_finish_cycle (w : world) (p : nat) (slots : list (option sdetails)) (i : nat) : world :=
  match slots with
  | [] => w
  | None :: t => pub_finish_cycle (pub_remove_connection w p i) p t (S i)
  | Some _ :: t => pub_finish_cycle w p t (S i)
  end.
Definition pub_force_update (w : world) (p : nat) : res world :=
  let slots := sn_slots (p_snap (getp w p)) in
  w1 <- pub_update_slots w p slots 0 ;;
  Val (pub_finish_cycle w1 p slots 0).

(* PublisherSharedState::update_connections *)
Definition pub_update_connections (w : world) (p : nat) : res world :=
  let x := getp w p in
  let '(sn, changed) := reg_update_state (w_sreg w) (p_snap x) in
  if changed then pub_force_update (setp w p (p_set_snap x sn)) p else Val w.

(* add_sample_to_history: borrow_chunk; push_with_overflow; Some(old) => release_chunk(old) *)
Definition pub_add_history (w : world) (p : nat) (o : off) (gi : nat) : world :=
  let x := getp w p in
  let h := cf_H (w_cfg w) in
  if Nat.eqb h 0 then w else
  let x1 := fst (pub_borrow x o) in
  let e := {| he_off := o; he_idx := gi |} in
  if Nat.ltb (length (p_hist x1)) h then setp w p (p_set_hist x1 (p_hist x1 ++ [e]))
  else match p_hist x1 with
       | [] => w   (* h = 0, excluded above *)
       | old :: rest => setp w p (pub_release (p_set_hist x1 (rest ++ [e])) (he_off old))
       end.

Definition hscript_follow : hscript := {| h_script := []; h_last := BFollow |}.

(* what a handler's actions did (part of the observation of the send call) *)
Inductive hev :=
| HvDrop (id : nat) | HvDropNone
| HvRecv (s id origin : nat) (pl : payload) | HvRecvNone (s : nat) | HvRecvBorrow (s : nat) | HvNa.

(* the executor of handler actions is a parameter here (the subscriber side is defined below):
   hx w s acts = the world after subscriber s performed acts, and what was observed *)
Definition hexec := world -> nat -> list hact -> res (world * list hev).

(* the wait_while closure of blocking_send when the handler acts: every evaluation re-reads
   is_connected and is_full of the connection as it is NOW.  Result: the world, how the wait
   ended, whether the receiver was connected at the last evaluation, the handler trace. *)
Fixpoint wait_world (fuel : nat) (hx : hexec) (w : world) (p s : nat) (gs : list hgroup) (last : hgroup)
         (strategy_retry : bool) (k : nat) (tr : list hev) : res (world * wait_res * bool * list hev) :=
  match fuel with
  | O => Val (w, WForever, true, tr)
  | S f =>
    match getc w p s with
    | None => Val (w, WAbort false, false, tr)
    | Some c =>
      if c_is_connected c && c_is_full c then
        let g := nth k gs last in
        r <- hx w s (g_acts g) ;;
        let '(w1, t1) := r in
        match g_ans g with
        | BFollow => if strategy_retry then Val (w1, WForever, true, tr ++ t1) else Val (w1, WAbort false, true, tr ++ t1)
        | BRetry => wait_world f hx w1 p s gs last strategy_retry (S k) (tr ++ t1)
        | BDiscard => Val (w1, WAbort false, true, tr ++ t1)
        | BDiscardFail => Val (w1, WAbort true, true, tr ++ t1)
        end
      else Val (w, WAbort false, c_is_connected c, tr)
    end
  end.

(* Sender::blocking_send with an acting handler, on the world *)
Definition pub_blocking_world (hx : hexec) (w : world) (p s : nat) (o : off) (gi : nat) (gs : list hgroup) (last : hgroup)
           (strategy_retry : bool) : res (world * send_res * list hev) :=
  match getc w p s with
  | None => Val (w, SNoReceiver, [])
  | Some c =>
    if negb (c_ovf c) && c_is_full c then
      r <- wait_world (length gs + c_B c + c_M c + 4) hx w p s gs last strategy_retry 0 [] ;;
      let '(w1, wr, conn, tr) := r in
      match wr with
      | WForever => Val (w1, SBlocks, tr)
      | WAbort fl =>
        if negb conn then Val (w1, SNoReceiver, tr)
        else if fl then Val (w1, SUnableToDeliver, tr)
        else match getc w1 p s with
             | None => Val (w1, SNoReceiver, tr)
             | Some c1 => r2 <- c_try_send c1 o gi ;; Val (setc w1 p s (fst r2), snd r2, tr)
             end
      end
    else r2 <- c_try_send c o gi ;; Val (setc w p s (fst r2), snd r2, [])
  end.

(* Sender::deliver_offset_to_connection_impl.  Result: (recipients, unable_to_deliver, blocks), handler trace *)
Definition pub_deliver_one (hx : hexec) (w : world) (p i : nat) (o : off) (gi : nat) : res (world * (nat * bool * bool) * list hev) :=
  let x := getp w p in
  match nth i (p_tab x) None with
  | None => Val (w, (0, false, false), [])
  | Some s =>
    match getc w p s with
    | None => Val (w, (0, false, false), [])
    | Some c =>
      r <- match p_handler x with
           | HActs gs last => pub_blocking_world hx w p s o gi gs last (p_retry x)
           | HScript h => r0 <- c_blocking_send c o gi h (p_retry x) ;; Val (setc w p s (fst r0), snd r0, [])
           | HNone => r0 <- (if p_retry x then c_blocking_send c o gi hscript_follow true else c_try_send c o gi) ;;
                      Val (setc w p s (fst r0), snd r0, [])
           end ;;
      let '(w1, sr, tr) := r in
      match sr with
      | SOk ev => Val (setp w1 p (pub_account_send (getp w1 p) o ev), (1, false, false), tr)
      | SUnableToDeliver => Val (w1, (0, true, false), tr)
      | SBlocks => Val (w1, (0, false, true), tr)
      | SBufferFull | SNoReceiver | SCorrupted => Val (w1, (0, false, false), tr)   (* degradation handler: Warn *)
      end
    end
  end.

Fixpoint pub_deliver_all (hx : hexec) (w : world) (p : nat) (n i : nat) (o : off) (gi : nat) (acc : nat * bool * bool) (tra : list hev)
  : res (world * (nat * bool * bool) * list hev) :=
  match n with
  | O => Val (w, acc, tra)
  | S n' =>
    r <- pub_deliver_one hx w p i o gi ;;
    let '(w1, (k, f, b), tr) := r in
    let '(ak, af, ab) := acc in
    if b then Val (w1, (ak, af, true), tra ++ tr)     (* the call never returns *)
    else pub_deliver_all hx w1 p n' (S i) o gi (ak + k, af || f, ab) (tra ++ tr)
  end.

Inductive err :=
| EConnectionBroken        (* SendError::ConnectionBrokenSinceSenderNoLongerExists *)
| EUnableToDeliver         (* SendError::UnableToDeliver *)
| EExceedsMaxLoans         (* LoanError::ExceedsMaxLoans *)
| EOutOfMemory             (* LoanError::OutOfMemory *)
| EExceedsMaxBorrows       (* ReceiveError::ExceedsMaxBorrows *)
| EMaxPublishers           (* PublisherCreateError::ExceedsMaxSupportedPublishers *)
| EMaxSubscribers          (* SubscriberCreateError::ExceedsMaxSupportedSubscribers *)
| EBufferSize              (* SubscriberCreateError::BufferSizeExceedsMaxSupportedBufferSizeOfService *)
| EHistoryService          (* SubscriberCreateError::HistoryRequestExceedsHistorySizeOfService *)
| EHistoryBuffer.          (* SubscriberCreateError::HistoryRequestExceedsBufferSizeOfSubscriber *)

Inductive sres := SrOk (n : nat) | SrErr (e : err) | SrBlocks.

(* PublisherSharedState::send_sample: is_active; update_connections; add_sample_to_history;
   deliver_offset (retrieve_returned_chunks; every connection) *)
Definition pub_send_sample (hx : hexec) (w : world) (p : nat) (o : off) : res (world * sres * list hev) :=
  let x := getp w p in
  if negb (p_active x) then Val (w, SrErr EConnectionBroken, []) else
  w1 <- pub_update_connections w p ;;
  let x1 := getp w1 p in
  let gi := length (p_sent x1) in
  let w2 := setp w1 p (p_set_sent x1 (p_sent x1 ++ [nth o (p_mem x1) pl0])) in
  let w3 := pub_add_history w2 p o gi in
  let w4 := pub_retrieve w3 p in
  r <- pub_deliver_all hx w4 p (length (p_tab (getp w4 p))) 0 o gi (0, false, false) [] ;;
  let '(w5, (k, f, b), tr) := r in
  Val (w5, (if b then SrBlocks else if f then SrErr EUnableToDeliver else SrOk k), tr).

Inductive ares := AOk (o : off) | AErr (e : err).

(* Sender::allocate: retrieve_returned_chunks; then (the allocation micro-step) loan_counter >= max
   -> ExceedsMaxLoans; data_segment.allocate -> OutOfMemory; borrow_chunk must return 0
   (fatal_panic); loan_counter += 1 *)
Definition pub_allocate_core (w1 : world) (p : nat) : res (world * ares) :=
  let x := getp w1 p in
  if Nat.leb (p_L x) (p_loans x) then Val (w1, AErr EExceedsMaxLoans) else
  match p_free x with
  | [] => Val (w1, AErr EOutOfMemory)
  | o :: rest =>
    let '(x1, old) := pub_borrow (p_set_chunks x (p_refcnt x) rest) o in
    if negb (N.eqb old 0) then Panic else
    Val (setp w1 p (p_set_loans x1 (S (p_loans x1))), AOk o)
  end.
Definition pub_allocate (w : world) (p : nat) : res (world * ares) :=
  pub_allocate_core (pub_retrieve w p) p.

(* write_payload / payload_mut: the harness writes (publisher id, next sequence number) *)
Definition pub_write (w : world) (p : nat) (o : off) : world :=
  let x := getp w p in
  setp w p (p_set_mem x (upd (p_mem x) o {| pl_pub := p; pl_seq := p_seq x |}) (N.succ (p_seq x))).

(* Drop of PublisherSharedState: the Sender's connections are dropped (no acquire_used_offsets),
   the data segment is removed (its content stays readable for whoever mapped it) *)
Fixpoint pub_detach_all (w : world) (p : nat) (tab : list (option nat)) : world :=
  match tab with
  | [] => w
  | None :: t => pub_detach_all w p t
  | Some s :: t =>
    pub_detach_all (match getc w p s with
                    | Some c => setc w p s (set_ports c false (c_rcv c))
                    | None => w
                    end) p t
  end.
Definition has_loans (w : world) (p : nat) : bool := existsb (fun l => Nat.eqb (l_pub l) p) (w_loans w).
Definition pub_maybe_drop_state (w : world) (p : nat) : world :=
  let x := getp w p in
  if negb (p_active x) && p_alive x && negb (has_loans w p) then
    let w1 := pub_detach_all w p (p_tab x) in
    setp w1 p (p_set_life (p_set_tab (getp w1 p) (map (fun _ => None) (p_tab x))) false false)
  else w.

(* Sender::return_loaned_chunk: release_chunk; loan_counter -= 1 *)
Definition pub_return_loan (w : world) (p : nat) (o : off) : world :=
  let x := pub_release (getp w p) o in
  setp w p (p_set_loans x (Nat.pred (p_loans x))).

Definition rm_loan (w : world) (id : nat) : world :=
  w_set_loans w (filter (fun l => negb (Nat.eqb (l_id l) id)) (w_loans w)) (w_nloan w).
Definition find_loan (w : world) (id : nat) : option loan := find (fun l => Nat.eqb (l_id l) id) (w_loans w).

(* drop of a SampleMut (last owner of its ChunkMutInnerSharedState): return_loan, then the Arc
   on the publisher state *)
Definition loan_drop (w : world) (l : loan) : world :=
  let w1 := pub_return_loan w (l_pub l) (l_off l) in
  pub_maybe_drop_state (rm_loan w1 (l_id l)) (l_pub l).

(* Publisher::new: number_of_samples; data segment; sender; get_state; force_update_connections;
   add_publisher_id (last; failure drops everything again) *)
Definition pub_create (w : world) (l : nat) (retry : bool) (h : hmode) : res (world * option nat) :=
  let cfg := w_cfg w in
  let n := required_samples cfg l in
  let p := length (w_pubs w) in
  match reg_add (w_preg w) {| pd_id := p; pd_n := n |} with
  | None => Val (w, None)    (* connections created and dropped again: nothing remains *)
  | Some (reg, slot) =>
    let x := {| p_active := true; p_alive := true; p_slot := slot; p_L := l; p_retry := retry; p_handler := h;
                p_n := n; p_refcnt := repeat 0%N n; p_free := seq 0 n; p_mem := repeat pl0 n; p_loans := 0;
                p_hist := []; p_tab := repeat None (cf_S cfg); p_snap := reg_get_state (w_sreg w);
                p_seq := 0; p_sent := [] |} in
    let w1 := w_set_pubs w (w_pubs w ++ [x]) in
    w2 <- pub_force_update w1 p ;;
    Val (w_set_preg w2 reg, Some p)
  end.

(* Drop for Publisher: is_active = false; release_publisher_handle; then the Arc *)
Definition pub_drop (w : world) (p : nat) : world :=
  let x := getp w p in
  let w1 := setp w p (p_set_life x false (p_alive x)) in
  let w2 := w_set_preg w1 (reg_remove (w_preg w1) (p_slot x)) in
  pub_maybe_drop_state w2 p.

(* ---------------------------------------------------------------------------------------- *)
(* subscriber side (details/receiver.rs, subscriber.rs)                                      *)
(* ---------------------------------------------------------------------------------------- *)
Definition s_set_store (x : subst) (st : list (option sent)) (fk : list nat) : subst :=
  {| s_active := s_active x; s_alive := s_alive x; s_slot := s_slot x; s_buf := s_buf x; s_hreq := s_hreq x;
     s_tab := s_tab x; s_store := st; s_freekeys := fk; s_tbr := s_tbr x; s_tbrcap := s_tbrcap x;
     s_snap := s_snap x; s_recv := s_recv x |}.
Definition s_set_tab (x : subst) (t : list (option nat)) : subst :=
  {| s_active := s_active x; s_alive := s_alive x; s_slot := s_slot x; s_buf := s_buf x; s_hreq := s_hreq x;
     s_tab := t; s_store := s_store x; s_freekeys := s_freekeys x; s_tbr := s_tbr x; s_tbrcap := s_tbrcap x;
     s_snap := s_snap x; s_recv := s_recv x |}.
Definition s_set_tbr (x : subst) (t : list nat) : subst :=
  {| s_active := s_active x; s_alive := s_alive x; s_slot := s_slot x; s_buf := s_buf x; s_hreq := s_hreq x;
     s_tab := s_tab x; s_store := s_store x; s_freekeys := s_freekeys x; s_tbr := t; s_tbrcap := s_tbrcap x;
     s_snap := s_snap x; s_recv := s_recv x |}.
Definition s_set_snap (x : subst) (sn : snap pdetails) : subst :=
  {| s_active := s_active x; s_alive := s_alive x; s_slot := s_slot x; s_buf := s_buf x; s_hreq := s_hreq x;
     s_tab := s_tab x; s_store := s_store x; s_freekeys := s_freekeys x; s_tbr := s_tbr x; s_tbrcap := s_tbrcap x;
     s_snap := sn; s_recv := s_recv x |}.
Definition s_set_recv (x : subst) (r : list rlog) : subst :=
  {| s_active := s_active x; s_alive := s_alive x; s_slot := s_slot x; s_buf := s_buf x; s_hreq := s_hreq x;
     s_tab := s_tab x; s_store := s_store x; s_freekeys := s_freekeys x; s_tbr := s_tbr x; s_tbrcap := s_tbrcap x;
     s_snap := s_snap x; s_recv := r |}.
Definition s_set_life (x : subst) (act alive : bool) : subst :=
  {| s_active := act; s_alive := alive; s_slot := s_slot x; s_buf := s_buf x; s_hreq := s_hreq x;
     s_tab := s_tab x; s_store := s_store x; s_freekeys := s_freekeys x; s_tbr := s_tbr x; s_tbrcap := s_tbrcap x;
     s_snap := s_snap x; s_recv := s_recv x |}.

(* the zero-copy receiver of the connection stored under `key` *)
Definition sub_conn (w : world) (s key : nat) : option (nat * conn) :=
  match nth key (s_store (gets w s)) None with
  | None => None
  | Some e => match getc w (se_pub e) s with Some c => Some (se_pub e, c) | None => None end
  end.

(* Receiver::receiver_channels_have_data_or_borrows *)
Definition sub_data_borrows (w : world) (s key : nat) : bool * bool :=
  match sub_conn w s key with
  | None => (false, false)
  | Some (_, c) => (c_has_data c, Nat.ltb 0 (c_borrow c))
  end.

(* connection_storage.remove(key): drops the Connection (zero-copy Receiver: cleanup_shared_memory
   (State::Receiver); data segment view); a key that is not contained changes nothing *)
Definition sub_storage_remove (w : world) (s key : nat) : world :=
  let x := gets w s in
  match nth key (s_store x) None with
  | None => w
  | Some e =>
    let w1 := match getc w (se_pub e) s with
              | Some c => setc w (se_pub e) s (set_ports (set_sub_borrow c (c_sub c) 0) (c_snd c) false)
              | None => w
              end in
    sets w1 s (s_set_store x (upd (s_store x) key None) (key :: s_freekeys x))
  end.

(* Receiver::find_connection_with_condition over to_be_removed_connections *)
Fixpoint find_tbr (w : world) (s : nat) (cond : bool -> bool -> bool) (l : list nat) (n : nat) : option (nat * nat) :=
  match l with
  | [] => None
  | key :: t =>
    match nth key (s_store (gets w s)) None with
    | None => Some (n, key)
    | Some _ =>
      let '(d, b) := sub_data_borrows w s key in
      if cond d b then Some (n, key) else find_tbr w s cond t (S n)
    end
  end.

Fixpoint remove_nth {A} (n : nat) (l : list A) : list A :=
  match l, n with
  | [], _ => []
  | _ :: t, O => t
  | h :: t, S k => h :: remove_nth k t
  end.

(* PolymorphicVec::remove(index): out of bounds returns None and changes nothing *)
Definition tbr_remove (w : world) (s idx : nat) : world :=
  let x := gets w s in sets w s (s_set_tbr x (remove_nth idx (s_tbr x))).

(* Receiver::prepare_connection_removal(index) *)
Definition sub_prepare_removal (w : world) (s index : nat) : res world :=
  let x := gets w s in
  match nth index (s_tab x) None with
  | None => Val w
  | Some key =>
    match nth key (s_store x) None with
    | None => Val w
    | Some _ =>
      let '(has_data, has_borrows) := sub_data_borrows w s key in
      if has_data || has_borrows then
        if Nat.ltb (length (s_tbr x)) (s_tbrcap x) then Val (sets w s (s_set_tbr x (s_tbr x ++ [key])))
        else
          (* push failed: make room *)
          w1 <- match find_tbr w s (fun d b => negb (d || b)) (s_tbr x) 0 with
                | Some (i, k) => Val (sub_storage_remove (tbr_remove w s i) s k)
                | None =>
                  if has_borrows then
                    match find_tbr w s (fun _ b => negb b) (s_tbr x) 0 with
                    | Some (i, k) => Val (sub_storage_remove (tbr_remove w s i) s k)
                    | None => Val w
                    end
                  else Val w
                end ;;
          let x1 := gets w1 s in
          if Nat.ltb (length (s_tbr x1)) (s_tbrcap x1) then Val (sets w1 s (s_set_tbr x1 (s_tbr x1 ++ [key])))
          else if has_borrows then Panic      (* fatal_panic: expired connection buffer exceeded with borrows *)
          else Val (sub_storage_remove w1 s key)
      else Val (sub_storage_remove w s key)
    end
  end.

(* Receiver::create(index, details): Connection::new (create_receiver, open the data segment);
   connection_storage.insert (None: fatal_panic); connections[index] = Some(key) *)
Definition sub_create_connection (w : world) (s index : nat) (d : pdetails) : res world :=
  let x := gets w s in
  let cfg := w_cfg w in
  let p := pd_id d in
  let c0 := match getc w p s with
            | Some c => c
            | None => conn_new (s_buf x) (cf_M cfg) (cf_ovf cfg) (pd_n d)
            end in
  let w1 := setc w p s (set_ports (set_sub_borrow c0 (c_sub c0) 0) (c_snd c0) true) in
  match s_freekeys x with
  | [] => Panic
  | key :: fk =>
    let x1 := s_set_store x (upd (s_store x) key (Some {| se_pub := p; se_tag := true |})) fk in
    Val (sets w1 s (s_set_tab x1 (upd (s_tab x1) index (Some key))))
  end.

Definition sub_tag (w : world) (s key : nat) : world :=
  let x := gets w s in
  match nth key (s_store x) None with
  | Some e => sets w s (s_set_store x (upd (s_store x) key (Some {| se_pub := se_pub e; se_tag := true |})) (s_freekeys x))
  | None => w
  end.

(* Receiver::update_connection(index, details) *)
Definition sub_update_connection (w : world) (s index : nat) (d : pdetails) : res world :=
  let x := gets w s in
  let connected :=
    match nth index (s_tab x) None with
    | None => None
    | Some key => match nth key (s_store x) None with
                  | Some e => if Nat.eqb (se_pub e) (pd_id d) then Some key else None
                  | None => None
                  end
    end in
  match connected with
  | Some key => Val (sub_tag w s key)
  | None => w1 <- sub_prepare_removal w s index ;; sub_create_connection w1 s index d
  end.

Fixpoint sub_update_slots (w : world) (s : nat) (slots : list (option pdetails)) (i : nat) : res world :=
  match slots with
  | [] => Val w
  | None :: t => sub_update_slots w s t (S i)
  | Some d :: t => w1 <- sub_update_connection w s i d ;; sub_update_slots w1 s t (S i)
  end.

(* Receiver::finish_update_connection_cycle: every connections[n] = Some(key) whose stored
   connection is not tagged: remove_connection(n) = prepare_connection_removal(n); connections[n] = None *)
Fixpoint sub_finish_cycle (w : world) (s : nat) (n i : nat) : res world :=
  match n with
  | O => Val w
  | S n' =>
    let x := gets w s in
    w1 <- match nth i (s_tab x) None with
          | None => Val w
          | Some key =>
            match nth key (s_store x) None with
            | None => Val w
            | Some e =>
              if se_tag e then Val w
              else w' <- sub_prepare_removal w s i ;;
                   let x' := gets w' s in
                   Val (sets w' s (s_set_tab x' (upd (s_tab x') i None)))
            end
          end ;;
    sub_finish_cycle w1 s n' (S i)
  end.

(* start_update_connection_cycle: tagger.next_cycle() -- nothing is tagged by the new cycle *)
Definition sub_start_cycle (w : world) (s : nat) : world :=
  let x := gets w s in
  sets w s (s_set_store x (map (fun o => match o with
                                         | Some e => Some {| se_pub := se_pub e; se_tag := false |}
                                         | None => None end) (s_store x)) (s_freekeys x)).

Definition sub_force_update (w : world) (s : nat) : res world :=
  let w0 := sub_start_cycle w s in
  w1 <- sub_update_slots w0 s (sn_slots (s_snap (gets w0 s))) 0 ;;
  sub_finish_cycle w1 s (length (s_tab (gets w1 s))) 0.

(* UpdateConnections for Subscriber *)
Definition sub_update_connections (w : world) (s : nat) : res world :=
  let x := gets w s in
  let '(sn, changed) := reg_update_state (w_preg w) (s_snap x) in
  if changed then sub_force_update (sets w s (s_set_snap x sn)) s else Val w.

Inductive rres := RxNone | RxSome (x : sample) | RxErr (e : err).

(* Receiver::receive_from_connection; the guards of both callers exclude ExceedsMaxBorrows here.
   Ghost: the Sample that Subscriber::receive wraps around the result is recorded here, at once
   (sample list, receive log), so that every function boundary is a consistent state. *)
Definition sub_receive_from (w : world) (s key : nat) : world * rres :=
  match sub_conn w s key with
  | None => (w, RxNone)
  | Some (p, c) =>
    match c_receive c with
    | (c1, RcvExceedsMaxBorrow) => (w, RxErr EExceedsMaxBorrows)
    | (c1, RcvOk None) => (w, RxNone)
    | (c1, RcvOk (Some e)) =>
      let w1 := setc w p s c1 in
      let smp := {| x_id := w_nsample w; x_sub := s; x_key := key; x_off := q_off e; x_origin := p;
                    x_idx := q_idx e; x_expect := nth (q_off e) (p_mem (getp w p)) pl0 |} in
      let xs := gets w1 s in
      let w2 := sets w1 s (s_set_recv xs (s_recv xs ++ [{| rl_pub := p; rl_idx := q_idx e; rl_pl := x_expect smp |}])) in
      (w_set_samples w2 (w_samples w2 ++ [smp]) (S (w_nsample w2)), RxSome smp)
    end
  end.

(* one pass of the for loop of receive_from_to_be_removed_connections over
   to_be_removed.iter().skip(k).enumerate(), n counted from k: result = (received, index_and_key) *)
Fixpoint tbr_scan (w : world) (s : nat) (l : list nat) (n : nat) : world * rres * option (nat * nat) :=
  match l with
  | [] => (w, RxNone, None)
  | key :: t =>
    match sub_conn w s key, nth key (s_store (gets w s)) None with
    | _, None => (w, RxNone, Some (n, key))
    | None, Some _ => tbr_scan w s t (S n)       (* unreachable: a stored connection has its zero-copy receiver *)
    | Some (_, c), Some _ =>
      if Nat.eqb (c_borrow c) (c_M c) then tbr_scan w s t (S n)
      else match sub_receive_from w s key with
           | (w1, RxSome x) => (w1, RxSome x, None)
           | (w1, RxErr e) => (w1, RxErr e, None)
           | (w1, RxNone) =>
             if snd (sub_data_borrows w1 s key) then tbr_scan w1 s t (S n)
             else (w1, RxNone, Some (n, key))
           end
    end
  end.

(* receive_from_to_be_removed_connections: index = indices_to_skip + n, the absolute position in
   to_be_removed_connections (fix: 81d4165; before it the position after the skip was used, candidate
   F1), used for to_be_removed_connections.remove(index) and as the next indices_to_skip.
   fuel: every round but the last removes one list element. *)
Fixpoint tbr_loop (fuel : nat) (w : world) (s : nat) (skip : nat) : res (world * rres) :=
  match fuel with
  | O => Val (w, RxNone)
  | S f =>
    let '(w1, r, ik) := tbr_scan w s (skipn skip (s_tbr (gets w s))) skip in
    match ik with
    | Some (index, key) =>
      tbr_loop f (sub_storage_remove (tbr_remove w1 s index) s key) s index
    | None => Val (w1, r)
    end
  end.

(* the loop over connection_storage.iter() (ascending key) of Receiver::receive *)
Fixpoint active_scan (w : world) (s : nat) (n key : nat) (active : nat) (all_exceed : bool) : world * rres :=
  match n with
  | O => (w, if all_exceed && negb (Nat.eqb active 0) then RxErr EExceedsMaxBorrows else RxNone)
  | S n' =>
    match sub_conn w s key with
    | None => active_scan w s n' (S key) active all_exceed
    | Some (_, c) =>
      if negb (c_has_data c) then active_scan w s n' (S key) active all_exceed
      else if Nat.leb (c_M c) (c_borrow c) then active_scan w s n' (S key) (S active) all_exceed
      else match sub_receive_from w s key with
           | (w1, RxNone) => active_scan w1 s n' (S key) (S active) false
           | r => r
           end
    end
  end.

(* Subscriber::receive: update_connections; Receiver::receive *)
Definition sub_receive (w : world) (s : nat) : res (world * rres) :=
  w1 <- sub_update_connections w s ;;
  let x := gets w1 s in
  r <- (if Nat.eqb (length (s_tbr x)) 0 then Val (w1, RxNone) else tbr_loop (S (length (s_tbr x))) w1 s 0) ;;
  let '(w2, rr) := r in
  match rr with
  | RxNone => Val (active_scan w2 s (length (s_store (gets w2 s))) 0 0 true)
  | _ => Val (w2, rr)
  end.

(* Subscriber::has_samples: update_connections; Receiver::has_chunks (every stored connection) *)
Definition sub_has_samples (w : world) (s : nat) : res (world * bool) :=
  w1 <- sub_update_connections w s ;;
  let n := length (s_store (gets w1 s)) in
  Val (w1, existsb (fun key => match sub_conn w1 s key with Some (_, c) => c_has_data c | None => false end) (seq 0 n)).

(* Drop of SubscriberSharedState: every stored Connection is dropped *)
Fixpoint sub_detach_all (w : world) (s : nat) (n key : nat) : world :=
  match n with
  | O => w
  | S n' => sub_detach_all (sub_storage_remove w s key) s n' (S key)
  end.
Definition has_samples_of (w : world) (s : nat) : bool := existsb (fun x => Nat.eqb (x_sub x) s) (w_samples w).
Definition sub_maybe_drop_state (w : world) (s : nat) : world :=
  let x := gets w s in
  if negb (s_active x) && s_alive x && negb (has_samples_of w s) then
    (* the Receiver is dropped: its tables go first (field order), then every stored Connection *)
    let w0 := sets w s (s_set_tbr (s_set_tab x (map (fun _ => None) (s_tab x))) []) in
    let w1 := sub_detach_all w0 s (length (s_store x)) 0 in
    sets w1 s (s_set_life (gets w1 s) false false)
  else w.

(* Drop for Sample: Receiver::release_offset(details), then the Arc on the subscriber state *)
Definition sample_drop (w : world) (x : sample) : res world :=
  let s := x_sub x in
  w1 <- match nth (x_key x) (s_store (gets w s)) None with
        | None => Val w
        | Some e =>
          if negb (Nat.eqb (se_pub e) (x_origin x)) then Val w else
          match getc w (se_pub e) s with
          | None => Val w
          | Some c => r <- c_release c (x_off x) ;; Val (setc w (se_pub e) s (fst r))
          end
        end ;;
  let w2 := w_set_samples w1 (filter (fun y => negb (Nat.eqb (x_id y) (x_id x))) (w_samples w1)) (w_nsample w1) in
  Val (sub_maybe_drop_state w2 s).

(* Subscriber::new: buffer size / history request checks; get_state; force_update_connections;
   add_subscriber_id (last) *)
Definition sub_create (w : world) (buf hreq : option nat) : res (world * (option nat * option err)) :=
  let cfg := w_cfg w in
  match (match buf with
         | Some b0 => let b := Nat.max 1 b0 in    (* PortFactorySubscriber::buffer_size: value.max(1) *)
                      if Nat.ltb (cf_B cfg) b then inr EBufferSize else inl b
         | None => inl (cf_B cfg) end) with
  | inr e => Val (w, (None, Some e))
  | inl b =>
    match (match hreq with
           | Some h => if Nat.ltb (cf_H cfg) h then inr EHistoryService
                       else if Nat.ltb b h then inr EHistoryBuffer else inl h
           | None => inl (Nat.min (cf_H cfg) b) end) with
    | inr e => Val (w, (None, Some e))
    | inl h =>
      let s := length (w_subs w) in
      match reg_add (w_sreg w) {| sd_id := s; sd_buf := b; sd_hreq := h |} with
      | None => Val (w, (None, Some EMaxSubscribers))
      | Some (reg, slot) =>
        let e := Nat.max (cf_E cfg) (cf_M cfg) in
        let nconn := e + cf_P cfg in
        let x := {| s_active := true; s_alive := true; s_slot := slot; s_buf := b; s_hreq := h;
                    s_tab := repeat None (cf_P cfg); s_store := repeat None nconn; s_freekeys := seq 0 nconn;
                    s_tbr := []; s_tbrcap := e; s_snap := reg_get_state (w_preg w); s_recv := [] |} in
        let w1 := w_set_subs w (w_subs w ++ [x]) in
        w2 <- sub_force_update w1 s ;;
        Val (w_set_sreg w2 reg, (Some s, None))
      end
    end
  end.

(* Drop for Subscriber: release_subscriber_handle; then the Arc *)
Definition sub_drop (w : world) (s : nat) : world :=
  let x := gets w s in
  let w1 := sets w s (s_set_life x false (s_alive x)) in
  let w2 := w_set_sreg w1 (reg_remove (w_sreg w1) (s_slot x)) in
  sub_maybe_drop_state w2 s.

(* ---------------------------------------------------------------------------------------- *)
(* API operations                                                                            *)
(* ---------------------------------------------------------------------------------------- *)
Inductive op :=
| OPubCreate (l : nat) (retry : bool) (h : hmode)
| OPubDrop (p : nat)
| OSubCreate (buf hreq : option nat)
| OSubDrop (s : nat)
| OLoan (p : nat)            (* loan_uninit().write_payload(next value) *)
| OWrite (l : nat)           (* *sample.payload_mut() = next value *)
| OSend (l : nat)            (* sample.send() *)
| OLoanDrop (l : nat)        (* drop(sample_mut) *)
| OSendCopy (p : nat)        (* send_copy(next value) *)
| ORecv (s : nat)            (* receive(), the sample is kept *)
| OSampleDrop (x : nat)      (* drop(sample) *)
| OHasSamples (s : nat)
| OPubUpdate (p : nat)
| OSubUpdate (s : nat)
| OExhaust (p : nat)         (* probe: loan until it fails, then drop those loans, newest first *)
| OFiles.                    (* probe (ipc only): number of zero-copy connections and of data segments that exist *)

Inductive obs :=
| BNa                                   (* the handle is not live: the harness does nothing *)
| BOk
| BCreated (id : nat)
| BErr (e : err)
| BLoaned (id : nat) (chunk : off)
| BSent (n : nat)
| BRecv (r : option (nat * nat * payload))     (* sample id, origin, content *)
| BBool (b : bool)
| BExh (n : nat) (e : err)
| BFiles (conns datas : nat)
| BBlocks
| BWith (o : obs) (tr : list hev).   (* a send during which the back-pressure handler acted *)

Definition pub_live (w : world) (p : nat) : bool := Nat.ltb p (length (w_pubs w)) && p_active (getp w p).
Definition sub_live (w : world) (s : nat) : bool := Nat.ltb s (length (w_subs w)) && s_active (gets w s).

Definition do_loan (w : world) (p : nat) : res (world * obs) :=
  r <- pub_allocate w p ;;
  match r with
  | (w1, AErr e) => Val (w1, BErr e)
  | (w1, AOk o) =>
    let w2 := pub_write w1 p o in
    let id := w_nloan w2 in
    Val (w_set_loans w2 (w_loans w2 ++ [{| l_id := id; l_pub := p; l_off := o |}]) (S id), BLoaned id o)
  end.

(* the handler's actions: operations of subscriber s (the one whose buffer is full) *)
Fixpoint run_hacts (w : world) (s : nat) (acts : list hact) : res (world * list hev) :=
  match acts with
  | [] => Val (w, [])
  | HDrop :: t =>
    match find (fun x => Nat.eqb (x_sub x) s) (w_samples w) with
    | None => r <- run_hacts w s t ;; Val (fst r, HvDropNone :: snd r)
    | Some x => w1 <- sample_drop w x ;; r <- run_hacts w1 s t ;; Val (fst r, HvDrop (x_id x) :: snd r)
    end
  | HRecv :: t =>
    if sub_live w s then
      rr <- sub_receive w s ;;
      let '(w1, rx) := rr in
      r <- run_hacts w1 s t ;;
      Val (fst r, match rx with
                  | RxSome x => HvRecv s (x_id x) (x_origin x) (x_expect x)
                  | RxNone => HvRecvNone s
                  | RxErr _ => HvRecvBorrow s
                  end :: snd r)
    else r <- run_hacts w s t ;; Val (fst r, HvNa :: snd r)
  end.

Definition with_trace (o : obs) (tr : list hev) : obs := match tr with [] => o | _ => BWith o tr end.

Definition do_send (w : world) (l : loan) : res (world * obs) :=
  r <- pub_send_sample run_hacts w (l_pub l) (l_off l) ;;
  let '(w1, sr, tr) := r in
  match sr with
  | SrBlocks => Val (w1, BBlocks)
  | SrOk n => Val (loan_drop w1 l, with_trace (BSent n) tr)
  | SrErr e => Val (loan_drop w1 l, with_trace (BErr e) tr)
  end.

(* exhaustion probe *)
Fixpoint exhaust_loans (fuel : nat) (w : world) (p : nat) (acc : list loan) : res (world * list loan * err) :=
  match fuel with
  | O => Val (w, acc, EOutOfMemory)
  | S f =>
    r <- pub_allocate w p ;;
    match r with
    | (w1, AErr e) => Val (w1, acc, e)
    | (w1, AOk o) =>
      let id := w_nloan w1 in
      let l := {| l_id := id; l_pub := p; l_off := o |} in
      exhaust_loans f (w_set_loans w1 (w_loans w1 ++ [l]) (S id)) p (l :: acc)
    end
  end.

Definition step (w : world) (o : op) : res (world * obs) :=
  match o with
  | OPubCreate l retry h =>
    r <- pub_create w l retry h ;;
    Val (fst r, match snd r with Some p => BCreated p | None => BErr EMaxPublishers end)
  | OPubDrop p => if pub_live w p then Val (pub_drop w p, BOk) else Val (w, BNa)
  | OSubCreate b h =>
    r <- sub_create w b h ;;
    Val (fst r, match snd r with
                | (Some s, _) => BCreated s
                | (None, Some e) => BErr e
                | (None, None) => BNa end)
  | OSubDrop s => if sub_live w s then Val (sub_drop w s, BOk) else Val (w, BNa)
  | OLoan p => if pub_live w p then do_loan w p else Val (w, BNa)
  | OWrite l =>
    match find_loan w l with
    | Some ln => Val (pub_write w (l_pub ln) (l_off ln), BOk)
    | None => Val (w, BNa)
    end
  | OSend l =>
    match find_loan w l with
    | Some ln => do_send w ln
    | None => Val (w, BNa)
    end
  | OLoanDrop l =>
    match find_loan w l with
    | Some ln => Val (loan_drop w ln, BOk)
    | None => Val (w, BNa)
    end
  | OSendCopy p =>
    if pub_live w p then
      r <- do_loan w p ;;
      match r with
      | (w1, BLoaned id _) =>
        match find_loan w1 id with
        | Some ln => do_send w1 ln
        | None => Val (w1, BNa)
        end
      | (w1, ob) => Val (w1, ob)
      end
    else Val (w, BNa)
  | ORecv s =>
    if sub_live w s then
      r <- sub_receive w s ;;
      match r with
      | (w1, RxSome x) => Val (w1, BRecv (Some (x_id x, x_origin x, x_expect x)))
      | (w1, RxNone) => Val (w1, BRecv None)
      | (w1, RxErr e) => Val (w1, BErr e)
      end
    else Val (w, BNa)
  | OSampleDrop id =>
    match find (fun y => Nat.eqb (x_id y) id) (w_samples w) with
    | Some x => w1 <- sample_drop w x ;; Val (w1, BOk)
    | None => Val (w, BNa)
    end
  | OHasSamples s =>
    if sub_live w s then r <- sub_has_samples w s ;; Val (fst r, BBool (snd r)) else Val (w, BNa)
  | OPubUpdate p => if pub_live w p then w1 <- pub_update_connections w p ;; Val (w1, BOk) else Val (w, BNa)
  | OSubUpdate s => if sub_live w s then w1 <- sub_update_connections w s ;; Val (w1, BOk) else Val (w, BNa)
  | OExhaust p =>
    if pub_live w p then
      r <- exhaust_loans (S (p_n (getp w p))) w p [] ;;
      let '(w1, ls, e) := r in
      Val (fold_left loan_drop ls w1, BExh (length ls) e)
    else Val (w, BNa)
  | OFiles => Val (w, BFiles (length (w_conns w)) (length (filter p_alive (w_pubs w))))
  end.

(* ---------------------------------------------------------------------------------------- *)
(* probes / reference values (what the property demands for the same operation)              *)
(* ---------------------------------------------------------------------------------------- *)
(* canary: content of the chunk every live sample points at, now *)
Definition canary (w : world) : list (nat * payload) :=
  map (fun x => (x_id x, nth (x_off x) (p_mem (getp w (x_origin x))) pl0)) (w_samples w).
(* C02: the bytes a subscriber sees through a held sample never change *)
Definition canary_expected (w : world) : list (nat * payload) :=
  map (fun x => (x_id x, x_expect x)) (w_samples w).

(* C02 no-leak / C08: the exhaustion probe must be stopped by the loan limit after exactly
   L - (live loans) loans, never by OutOfMemory *)
Definition live_loans (w : world) (p : nat) : nat := length (filter (fun l => Nat.eqb (l_pub l) p) (w_loans w)).
Definition exhaust_expected (w : world) (p : nat) : obs := BExh (p_L (getp w p) - live_loans w p) EExceedsMaxLoans.

(* C01 order / at most once: the new sample's send index exceeds every earlier one of that pair *)
Definition recv_in_order (w : world) (s : nat) (x : sample) : bool :=
  forallb (fun r => negb (Nat.eqb (rl_pub r) (x_origin x)) || Nat.ltb (rl_idx r) (x_idx x)) (s_recv (gets w s)).

(* the reference observation for op o in world w given what the model itself answers *)
Definition spec_obs (w : world) (o : op) (model : obs) : obs :=
  match o, model with
  | OExhaust p, BExh _ _ => exhaust_expected w p
  | _, _ => model
  end.

(* free chunks of a publisher (for coverage: saturation) *)
Definition free_count (w : world) (p : nat) : nat := length (p_free (getp w p)).
Definition saturated (w : world) (p : nat) : bool :=
  pub_live w p && Nat.eqb (free_count w p) 0.

(* classification of a Panic outcome (driver only): the same world with a (much) larger
   to_be_removed_connections capacity for every subscriber.  A panic that disappears there is the
   fatal_panic "Expired connection buffer exceeded" of prepare_connection_removal. *)
Definition bump_tbrcap (w : world) : world :=
  w_set_subs w (map (fun x =>
    {| s_active := s_active x; s_alive := s_alive x; s_slot := s_slot x; s_buf := s_buf x; s_hreq := s_hreq x;
       s_tab := s_tab x; s_store := s_store x ++ repeat None 1000; s_freekeys := s_freekeys x ++ seq (length (s_store x)) 1000;
       s_tbr := s_tbr x; s_tbrcap := s_tbrcap x + 1000; s_snap := s_snap x; s_recv := s_recv x |}) (w_subs w)).
Definition panics (w : world) (o : op) : bool := match step w o with Panic => true | Val _ => false end.

(* ---------------------------------------------------------------------------------------- *)
(* the C02 / C08 invariant as an executable check (evaluated by the driver after every       *)
(* operation of every history; stated as a Prop and proved in proofs/Port*.v)                *)
(* ---------------------------------------------------------------------------------------- *)
Definition count_off (o : off) (l : list off) : nat := count_occ Nat.eq_dec l o.
Fixpoint nodup_b (l : list off) : bool :=
  match l with [] => true | h :: t => negb (mem_off h t) && nodup_b t end.
Definition same_multiset (a b : list off) : bool :=
  forallb (fun o => Nat.eqb (count_off o a) (count_off o b)) (a ++ b).
(* ghost holders of the chunks of publisher p *)
Definition loans_of (w : world) (p : nat) : list off :=
  map l_off (filter (fun l => Nat.eqb (l_pub l) p) (w_loans w)).                          (* Loan *)
Definition hist_of (w : world) (p : nat) : list off := map he_off (p_hist (getp w p)).    (* History *)
Definition borrowed (w : world) (p s : nat) : list off :=                                  (* Borrowed c sample *)
  map x_off (filter (fun x => Nat.eqb (x_origin x) p && Nat.eqb (x_sub x) s) (w_samples w)).
Definition tab_conns (w : world) (p : nat) : list (nat * conn) :=
  flat_map (fun e => match e with
                     | Some s => match getc w p s with Some c => [(s, c)] | None => [] end
                     | None => [] end) (p_tab (getp w p)).
Definition holders (w : world) (p : nat) (o : off) : nat :=
  count_off o (loans_of w p) + count_off o (hist_of w p)
  + list_sum (map (fun sc => count_off o (c_used (snd sc))) (tab_conns w p)).

Definition conn_inv_b (w : world) (p s : nat) (c : conn) : bool :=
  let n := p_n (getp w p) in
  c_snd c && nodup_b (c_used c) && forallb (fun o => Nat.ltb o n) (c_used c)
  && same_multiset (c_used c) (map q_off (c_sub c) ++ borrowed w p s ++ c_comp c)      (* used = sub + borrowed + comp *)
  && Nat.eqb (length (c_used c)) (length (c_sub c) + length (borrowed w p s) + length (c_comp c))
  && Nat.leb (length (c_sub c)) (c_B c)
  && (negb (c_rcv c) || (Nat.eqb (c_borrow c) (length (borrowed w p s)) && Nat.leb (c_borrow c) (c_M c)))
  && Nat.leb (length (borrowed w p s)) (c_M c)
  (* B + M while the publisher is outside blocking_send; one more when the subscriber acted between the
     publisher's reclaim and its push (the reason for the + 1 of completion_queue_size()) *)
  && Nat.leb (length (c_sub c) + length (borrowed w p s) + length (c_comp c)) (c_B c + c_M c + 1)
  && Nat.leb (c_B c) (cf_B (w_cfg w)) && Nat.eqb (c_M c) (cf_M (w_cfg w)).

Definition pub_inv_b (w : world) (p : nat) : bool :=
  let x := getp w p in
  let n := p_n x in
  Nat.eqb n (required_samples (w_cfg w) (p_L x))
  && Nat.eqb (length (p_refcnt x)) n && Nat.eqb (length (p_mem x)) n && Nat.eqb (length (p_tab x)) (cf_S (w_cfg w))
  && nodup_b (p_free x) && forallb (fun o => Nat.ltb o n) (p_free x)
  && forallb (fun o => N.eqb (nth o (p_refcnt x) 0%N) (N.of_nat (holders w p o))      (* refcnt o = [Loan] + [History] + sum_c [o in used c] *)
                       && Bool.eqb (mem_off o (p_free x)) (N.eqb (nth o (p_refcnt x) 0%N) 0))  (* free <-> refcnt 0 *)
             (seq 0 n)
  && nodup_b (loans_of w p) && Nat.eqb (p_loans x) (length (loans_of w p)) && Nat.leb (p_loans x) (p_L x)
  && Nat.leb (length (p_hist x)) (cf_H (w_cfg w))
  && nodup_b (flat_map (fun e => match e with Some s => [s] | None => [] end) (p_tab x))
  && forallb (fun e => match e with
                       | None => true
                       | Some s => match getc w p s with None => false | Some c => conn_inv_b w p s c end
                       end) (p_tab x).

(* a sample whose subscriber is still registered and whose publisher is still active: the
   publisher still has the connection it came through *)
Definition samples_covered_b (w : world) : bool :=
  forallb (fun x => negb (p_active (getp w (x_origin x))) || negb (s_active (gets w (x_sub x)))
                    || mem_off (x_sub x) (flat_map (fun e => match e with Some s => [s] | None => [] end) (p_tab (getp w (x_origin x)))))
          (w_samples w).

Definition inv_check (w : world) : bool :=
  forallb (fun p => negb (p_active (getp w p)) || pub_inv_b w p) (seq 0 (length (w_pubs w)))
  && samples_covered_b w.

(* ---- oracles for the driver (C01) ------------------------------------------------------- *)
(* after a receive() that returned None: no stored connection of a publisher that has left the
   registry is empty and unborrowed (receive_from_to_be_removed_connections removes those) *)
Definition stale_expired (w : world) (s : nat) : bool :=
  existsb (fun key => match nth key (s_store (gets w s)) None with
                      | None => false
                      | Some e => negb (p_active (getp w (se_pub e)))
                                  && (let '(d, b) := sub_data_borrows w s key in negb d && negb b)
                      end) (seq 0 (length (s_store (gets w s)))).
(* a connection that held undelivered samples for a subscriber that is still registered
   disappeared: 1 = its receiver side was never attached (the subscriber had not updated its
   connections before the publisher went away), 2 = it was attached (expired connection buffer
   overflow discards data) *)
Definition lost_delivery (w0 w1 : world) : nat :=
  fold_left (fun acc k =>
    let '(p, s, c) := k in
    if sub_live w0 s && sub_live w1 s && c_has_data c && (match getc w1 p s with None => true | Some _ => false end)
    then Nat.max acc (if c_rcv c then 2 else 1) else acc) (w_conns w0) 0.

(* ---------------------------------------------------------------------------------------- *)
(* the topology part of the world invariant (proofs/PortInv*.v), executable: registries,      *)
(* subscriber connection storage, samples, publisher tables.  Evaluated by the driver after   *)
(* every operation next to inv_check.                                                          *)
(* ---------------------------------------------------------------------------------------- *)
Definition opt_keys (l : list (option nat)) : list nat :=
  flat_map (fun e => match e with Some k => [k] | None => [] end) l.
Definition all_nat (n : nat) (f : nat -> bool) : bool := forallb f (seq 0 n).

Definition sub_topo_b (w : world) (s : nat) : bool :=
  let x := gets w s in
  let nst := length (s_store x) in
  Nat.eqb (length (s_tab x)) (cf_P (w_cfg w))
  && Nat.leb 1 (s_buf x) && Nat.leb (s_buf x) (cf_B (w_cfg w))
  && nodup_b (opt_keys (s_tab x))
  && forallb (fun key => match nth key (s_store x) None with Some _ => true | None => false end) (opt_keys (s_tab x))
  && nodup_b (s_freekeys x)
  && forallb (fun key => Nat.ltb key nst && match nth key (s_store x) None with Some _ => false | None => true end) (s_freekeys x)
  && all_nat nst (fun key => match nth key (s_store x) None with
       | None => true
       | Some e =>
         (negb (p_active (getp w (se_pub e)))
          || match nth (p_slot (getp w (se_pub e))) (s_tab x) None with Some k => Nat.eqb k key | None => false end)
         && (negb (mem_off key (s_tbr x)) || negb (p_active (getp w (se_pub e))))
         && all_nat nst (fun k2 => match nth k2 (s_store x) None with
                                   | Some e2 => negb (Nat.eqb (se_pub e2) (se_pub e)) || Nat.eqb k2 key
                                   | None => true end)
         && match getc w (se_pub e) s with Some c => c_rcv c | None => false end
       end).

Definition inv_topology_b (w : world) : bool :=
  let cfg := w_cfg w in
  (* registries *)
  Nat.eqb (length (r_slots (w_preg w))) (cf_P cfg) && Nat.eqb (length (r_slots (w_sreg w))) (cf_S cfg)
  && all_nat (cf_P cfg) (fun i => match nth i (r_slots (w_preg w)) None with
       | None => true
       | Some d => let x := getp w (pd_id d) in p_active x && Nat.eqb (p_slot x) i && Nat.eqb (pd_n d) (p_n x) end)
  && all_nat (length (w_pubs w)) (fun p => let x := getp w p in
       negb (p_active x) || match nth (p_slot x) (r_slots (w_preg w)) None with
                            | Some d => Nat.eqb (pd_id d) p | None => false end)
  && all_nat (cf_S cfg) (fun i => match nth i (r_slots (w_sreg w)) None with
       | None => true
       | Some d => let x := gets w (sd_id d) in s_active x && Nat.eqb (s_slot x) i && Nat.eqb (sd_buf d) (s_buf x) && Nat.eqb (sd_hreq d) (s_hreq x) end)
  && all_nat (length (w_subs w)) (fun s => let x := gets w s in
       negb (s_active x) || match nth (s_slot x) (r_slots (w_sreg w)) None with
                            | Some d => Nat.eqb (sd_id d) s | None => false end)
  (* subscribers *)
  && all_nat (length (w_subs w)) (fun s => negb (s_alive (gets w s)) || sub_topo_b w s)
  && all_nat (length (w_subs w)) (fun s => negb (s_active (gets w s)) || s_alive (gets w s))
  && all_nat (length (w_pubs w)) (fun p => negb (p_active (getp w p)) || p_alive (getp w p))
  (* samples *)
  && forallb (fun x => s_alive (gets w (x_sub x))
                       && (negb (p_active (getp w (x_origin x)))
                           || match nth (x_key x) (s_store (gets w (x_sub x))) None with
                              | Some e => Nat.eqb (se_pub e) (x_origin x) | None => false end)
                       && Nat.ltb (x_id x) (w_nsample w)) (w_samples w)
  && nodup_b (map x_id (w_samples w))
  && forallb (fun l => Nat.ltb (l_id l) (w_nloan w)) (w_loans w) && nodup_b (map l_id (w_loans w))
  (* publisher tables and connections *)
  && all_nat (length (w_pubs w)) (fun p => let x := getp w p in
       negb (p_active x)
       || (nodup_b (map he_off (p_hist x))
           && forallb (fun o => Nat.ltb o (p_n x)) (map he_off (p_hist x))
           && forallb (fun o => Nat.ltb o (p_n x)) (loans_of w p)
           && all_nat (length (p_tab x)) (fun i => match nth i (p_tab x) None with
                | None => true
                | Some s => (negb (s_active (gets w s)) || Nat.eqb (s_slot (gets w s)) i)
                            && match getc w p s with
                               | Some c => Nat.eqb (c_borrow c) (length (borrowed w p s)) && Nat.eqb (c_n c) (p_n x)
                               | None => false end
                end)))
  && forallb (fun k => let '(p, s, c) := k in
       negb (p_active (getp w p))
       || (if c_snd c then mem_off s (opt_keys (p_tab (getp w p)))
           else negb (s_active (gets w s))
                || (match c_sub c, c_comp c, c_used c, borrowed w p s with [], [], [], [] => true | _, _, _, _ => false end
                    && Nat.eqb (c_B c) (Nat.max 1 (s_buf (gets w s))) && Nat.eqb (c_M c) (cf_M cfg)
                    && Nat.eqb (c_n c) (p_n (getp w p)) && Nat.eqb (c_borrow c) 0))) (w_conns w).
