(* Concrete model of iceoryx2-bb/container/src/string/mod.rs (trait String, shared by
   StaticString / PolymorphicString / RelocatableString through StringView).
   Fields: len, capacity, and the byte buffer of capacity+1 bytes.  The flavours differ in
   what `data()` exposes and in what the constructor initialises:
     StaticString<CAP>  : data() = the [u8; CAP] array (bounds-check limit CAP); the byte behind
                          it is the separate `terminator: u8 = 0` field, never written again;
                          new() writes data[0] = 0.
     PolymorphicString  : data() = capacity+1 bytes from the allocator; new() writes byte 0 only.
     RelocatableString  : data() = capacity+1 bytes from the allocator; init() writes byte 0
                          (fix: b417f55).
   Bytes that were never written are modelled by POISON (the harness fills fresh memory with
   0xAA).  `data()[i]` is bounds-checked against the limit (Panic), ptr::copy is not. *)
From V Require Import model.Base model.Obs model.Vec.
Open Scope N_scope.

Inductive sflav := FStatic | FPoly | FReloc.
Definition POISON : N := 170.

Record str := { sfl : sflav; slen : N; scap : N; sbuf : list N }.

Definition str_new (fl : sflav) (c : N) : str :=
  {| sfl := fl; slen := 0; scap := c;
     sbuf := match fl with
             | FStatic => match N.to_nat c with
                          | O => [0%N]   (* StaticString<0>::new() panics (data[0]); never constructed *)
                          | S k => (0%N :: repeat POISON k) ++ [0%N]
                          end
             | FPoly => 0%N :: repeat POISON (N.to_nat c)
             | FReloc => 0%N :: repeat POISON (N.to_nat c)
             end |}.

Definition slimit (s : str) : N := match sfl s with FStatic => scap s | _ => scap s + 1 end.
(* data()[i] / data_mut()[i].write(x) *)
Definition srd (s : str) (i : N) : res N :=
  if N.ltb i (slimit s) then Val (nthN (sbuf s) i 0%N) else Panic.
Definition swr (s : str) (b : list N) (i x : N) : res (list N) :=
  if N.ltb i (slimit s) then Val (updN b i x) else Panic.
Definition sset (s : str) (l : N) (b : list N) : str := {| sfl := sfl s; slen := l; scap := scap s; sbuf := b |}.

(* the byte rule of insert_bytes: `128 <= *byte || 0 == *byte` is rejected *)
Definition bad_byte (b : N) : bool := N.leb 128 b || N.eqb b 0.

Fixpoint swrite_from (s : str) (b : list N) (pos : N) (l : list N) : res (list N) :=
  match l with
  | [] => Val b
  | x :: t => match swr s b pos x with Panic => Panic | Val b' => swrite_from s b' (pos + 1) t end
  end.

(* insert_bytes: idx > len -> fatal_panic; capacity; invalid character; insert_bytes_unchecked *)
Definition str_insert_bytes (s : str) (idx : N) (l : list N) : res (str * obs) :=
  if N.ltb (slen s) idx then Panic else
  if N.ltb (scap s) (slen s + lenN l) then Val (s, OErr EExceedsCapacity) else
  if existsb bad_byte l then Val (s, OErr EInvalidCharacter) else
  let b1 := copy_within (sbuf s) idx (idx + lenN l) (slen s - idx) in
  match swrite_from s b1 idx l with
  | Panic => Panic
  | Val b2 =>
    let nl := slen s + lenN l in
    if N.ltb nl (slimit s) then      (* fix: 8cf1846, `new_len < self.data().len()` *)
      match swr s b2 nl 0 with Panic => Panic | Val b3 => Val (sset s nl b3, OUnit) end
    else Val (sset s nl b2, OUnit)
  end.

(* remove_range(idx, len) *)
Definition str_remove_range (s : str) (idx n : N) : res (str * bool) :=
  if N.ltb (slen s) (idx + n) then Val (s, false) else
  let b1 := if N.eqb (slen s) (idx + n) then sbuf s
            else copy_within (sbuf s) (idx + n) idx (slen s - (idx + n)) in
  let nl := slen s - n in
  if N.ltb nl (slimit s) then        (* fix: 8cf1846, the terminator write is guarded *)
    match swr s b1 nl 0 with
    | Panic => Panic
    | Val b2 => Val (sset s nl b2, true)
    end
  else Val (sset s nl b1, true).

(* remove(idx): fix: 09c004e made it `len <= idx -> None` *)
Definition str_remove (s : str) (idx : N) : res (str * option N) :=
  if N.leb (slen s) idx then Val (s, None) else
  match srd s idx with
  | Panic => Panic
  | Val c => match str_remove_range s idx 1 with Panic => Panic | Val (s', _) => Val (s', Some c) end
  end.

Definition str_pop (s : str) : res (str * option N) :=
  if N.eqb (slen s) 0 then Val (s, None) else str_remove s (slen s - 1).

(* retain(f): for idx in (0..len).rev() { if f(data[idx]) { self.remove(idx); } } *)
Fixpoint retain_loop (n : nat) (s : str) (f : N -> bool) : res str :=
  match n with
  | O => Val s
  | S k =>
    match srd s (N.of_nat k) with
    | Panic => Panic
    | Val c =>
      if f c then match str_remove s (N.of_nat k) with Panic => Panic | Val (s', _) => retain_loop k s' f end
      else retain_loop k s f
    end
  end.
Definition memb (l : list N) (c : N) : bool := existsb (N.eqb c) l.
Definition str_retain (s : str) (l : list N) : res str := retain_loop (N.to_nat (slen s)) s (memb l).

(* inner loop of find/rfind: compare bytes with data()[i..] until the first difference *)
Fixpoint match_at (s : str) (i : N) (bytes : list N) : res bool :=
  match bytes with
  | [] => Val true
  | b :: t =>
    match srd s i with
    | Panic => Panic
    | Val c => if N.eqb c b then match_at s (i + 1) t else Val false
    end
  end.
Fixpoint find_loop (s : str) (i : N) (n : nat) (bytes : list N) : res (option N) :=
  match n with
  | O => Val None
  | S k =>
    match match_at s i bytes with
    | Panic => Panic
    | Val true => Val (Some i)
    | Val false => find_loop s (i + 1) k bytes
    end
  end.
Definition str_find (s : str) (bytes : list N) : res (option N) :=
  if N.ltb (slen s) (lenN bytes) then Val None
  else find_loop s 0 (N.to_nat (slen s - lenN bytes + 1)) bytes.
Fixpoint rfind_loop (s : str) (n : nat) (bytes : list N) : res (option N) :=
  match n with
  | O => Val None
  | S k =>
    match match_at s (N.of_nat k) bytes with
    | Panic => Panic
    | Val true => Val (Some (N.of_nat k))
    | Val false => rfind_loop s k bytes
    end
  end.
Definition str_rfind (s : str) (bytes : list N) : res (option N) :=
  if N.ltb (slen s) (lenN bytes) then Val None
  else rfind_loop s (N.to_nat (slen s - lenN bytes + 1)) bytes.

Definition str_strip_prefix (s : str) (bytes : list N) : res (str * bool) :=
  match str_find s bytes with
  | Panic => Panic
  | Val (Some 0%N) =>
    match str_remove_range s 0 (lenN bytes) with Panic => Panic | Val (s', _) => Val (s', true) end
  | Val _ => Val (s, false)
  end.

Definition str_strip_suffix (s : str) (bytes : list N) : res (str * bool) :=
  if N.ltb (slen s) (lenN bytes) then Val (s, false) else
  let pos := slen s - lenN bytes in
  match str_rfind s bytes with
  | Panic => Panic
  | Val (Some v) => if negb (N.eqb v pos) then Val (s, false) else str_remove_range s pos (lenN bytes)
  | Val None => Val (s, false)
  end.

Definition str_truncate (s : str) (n : N) : res str :=
  if N.ltb (slen s) n then Val s else
  if N.ltb n (scap s) then
    match swr s (sbuf s) n 0 with Panic => Panic | Val b => Val (sset s n b) end
  else Val (sset s n (sbuf s)).

(* clear: set_len(0); data_mut()[0].write(0) *)
Definition str_clear (s : str) : res str :=
  match swr s (sbuf s) 0 0 with Panic => Panic | Val b => Val (sset s 0 b) end.

Inductive sop :=
| SPush (b : N) | SPushBytes (l : list N) | SInsert (i b : N) | SInsertBytes (i : N) (l : list N)
| SPop | SRemove (i : N) | SRemoveRange (i n : N) | SRetain (l : list N)
| SFind (l : list N) | SRfind (l : list N) | SStripPrefix (l : list N) | SStripSuffix (l : list N)
| STruncate (n : N) | SClear | SBytes | SNul | SLen.

Definition str_step (s : str) (o : sop) : str * obs :=
  match o with
  | SPush b => match str_insert_bytes s (slen s) [b] with Val r => r | Panic => (s, OP) end
  | SPushBytes l => match str_insert_bytes s (slen s) l with Val r => r | Panic => (s, OP) end
  | SInsert i b => match str_insert_bytes s i [b] with Val r => r | Panic => (s, OP) end
  | SInsertBytes i l => match str_insert_bytes s i l with Val r => r | Panic => (s, OP) end
  | SPop => match str_pop s with Val (s', r) => (s', OO r) | Panic => (s, OP) end
  | SRemove i => match str_remove s i with Val (s', r) => (s', OO r) | Panic => (s, OP) end
  | SRemoveRange i n => match str_remove_range s i n with Val (s', r) => (s', OB r) | Panic => (s, OP) end
  | SRetain l => match str_retain s l with Val s' => (s', OUnit) | Panic => (s, OP) end
  | SFind l => match str_find s l with Val r => (s, OO r) | Panic => (s, OP) end
  | SRfind l => match str_rfind s l with Val r => (s, OO r) | Panic => (s, OP) end
  | SStripPrefix l => match str_strip_prefix s l with Val (s', r) => (s', OB r) | Panic => (s, OP) end
  | SStripSuffix l => match str_strip_suffix s l with Val (s', r) => (s', OB r) | Panic => (s, OP) end
  | STruncate n => match str_truncate s n with Val s' => (s', OUnit) | Panic => (s, OP) end
  | SClear => match str_clear s with Val s' => (s', OUnit) | Panic => (s, OP) end
  | SBytes => (s, OL (firstn (N.to_nat (slen s)) (sbuf s)))     (* as_bytes *)
  | SNul => (s, ON (nthN (sbuf s) (slen s) 0%N))                (* as_bytes_with_nul()[len] *)
  | SLen => (s, ON (slen s))
  end.

(* ---- the reference: a byte list (alloc::string::String / Vec<u8> semantics) with a capacity
   guard and the ASCII rule.  `dev = false` is the reference the property talks about;
   `dev = true` reproduces the one place where the code as it is now deviates (known finding
   string:retain-inverted, pinned by the repository's own retain_works test): retain(f) removes
   the bytes where f is TRUE (the doc and std say: keeps those). *)
Record sstr := { ssfl : sflav; sscap : N; sbytes : list N }.
Definition sstr_new (fl : sflav) (c : N) : sstr := {| ssfl := fl; sscap := c; sbytes := [] |}.
Definition ss (s : sstr) (l : list N) : sstr := {| ssfl := ssfl s; sscap := sscap s; sbytes := l |}.

Fixpoint prefixb (b l : list N) : bool :=
  match b, l with
  | [], _ => true
  | _ :: _, [] => false
  | x :: t, y :: u => N.eqb y x && prefixb t u
  end.
Fixpoint sfind_aux (l b : list N) (i : N) : option N :=
  if prefixb b l then Some i else
  match l with [] => None | _ :: t => sfind_aux t b (i + 1) end.
(* rfind: the last position j <= len - |b| at which b occurs (scan from the top) *)
Fixpoint srfind_from (l b : list N) (k : nat) : option N :=
  match k with
  | O => None
  | S j => if prefixb b (skipn j l) then Some (N.of_nat j) else srfind_from l b j
  end.
Definition srfind (l b : list N) : option N :=
  if Nat.ltb (length l) (length b) then None else srfind_from l b (S (length l - length b)).

Definition sins (s : sstr) (i : N) (l : list N) : sstr * obs :=
  let bs := sbytes s in
  if N.ltb (lenN bs) i then (s, OP)      (* String::insert beyond the end panics in std as well *)
  else if N.ltb (sscap s) (lenN bs + lenN l) then (s, OErr EExceedsCapacity)
  else if existsb bad_byte l then (s, OErr EInvalidCharacter)
  else (ss s (firstn (N.to_nat i) bs ++ l ++ skipn (N.to_nat i) bs), OUnit).

Definition sstr_step (dev : bool) (s : sstr) (o : sop) : sstr * obs :=
  let bs := sbytes s in
  match o with
  | SPush b => sins s (lenN bs) [b]
  | SPushBytes l => sins s (lenN bs) l
  | SInsert i b => sins s i [b]
  | SInsertBytes i l => sins s i l
  | SPop => match rev bs with [] => (s, OO None) | x :: r => (ss s (rev r), OO (Some x)) end
  | SRemove i =>
    if N.ltb i (lenN bs)
    then (ss s (firstn (N.to_nat i) bs ++ skipn (S (N.to_nat i)) bs), OO (Some (nthN bs i 0%N)))
    else (s, OO None)
  | SRemoveRange i n =>
    if N.ltb (lenN bs) (i + n) then (s, OB false)
    else (ss s (firstn (N.to_nat i) bs ++ skipn (N.to_nat (i + n)) bs), OB true)
  | SRetain l =>
    (ss s (filter (fun c => if dev then negb (memb l c) else memb l c) bs), OUnit)
  | SFind l => (s, OO (sfind_aux bs l 0))
  | SRfind l => (s, OO (srfind bs l))
  | SStripPrefix l =>
    if prefixb l bs then (ss s (skipn (length l) bs), OB true) else (s, OB false)
  | SStripSuffix l =>
    if N.leb (lenN l) (lenN bs) && prefixb l (skipn (length bs - length l) bs)
    then (ss s (firstn (length bs - length l) bs), OB true) else (s, OB false)
  | STruncate n => (ss s (firstn (N.to_nat n) bs), OUnit)
  | SClear => (ss s [], OUnit)
  | SBytes => (s, OL bs)
  | SNul => (s, ON 0)        (* a C string is NUL-terminated *)
  | SLen => (s, ON (lenN bs))
  end.

(* the reference state that corresponds to a concrete string (used by the driver to go on
   comparing after the known retain deviation) *)
Definition sstr_of_str (m : str) : sstr :=
  {| ssfl := sfl m; sscap := scap m; sbytes := firstn (N.to_nat (slen m)) (sbuf m) |}.
