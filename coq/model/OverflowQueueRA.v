(* Release/acquire view model of safely_overflowing_index_queue.rs (C03, quantifier "all
   C11-permitted stale reads of relaxed/acquire loads").  Same access sites as
   model/OverflowQueue.v, fixed roles (thread 0 = producer, thread 1 = consumer; hand-over is
   covered by the sequentially consistent model), plus what C11 adds:
     * read_position is written by BOTH sides (consumer pop, producer eviction), always by a
       compare-exchange; a plain load of it, and the load performed by a FAILED
       compare-exchange, may return a stale value: any value between the last one this thread
       observed (coherence) and the current one; a successful compare-exchange reads the
       current value.  write_position is written by the producer only; the consumer's loads
       of it may be stale in the same way.  The staleness is taken from an oracle stream
       (universally quantified in the theorems).
     * synchronisation: an acquire read of a value v of read_position synchronises with every
       RELEASE compare-exchange that wrote a value <= v (every later write is a
       read-modify-write, so it continues the release sequence).  What such a
       synchronisation transfers:
         - from the producer's eviction of position q (it happens after the producer
           published write_position = q + capacity + 1): the consumer's view of
           write_position, both for coherence (seenW) and for the visibility of slot writes
           (acqW), becomes >= q + capacity + 1; the running maximum over all evictions below
           v is kept in the ghost list `cum` (pv g v);
         - from the consumer's pop of position p: the consumer's read of slot p happens
           before whatever the producer does next; the producer records the largest value of
           read_position it has acquired (acqR).
       An acquire load of write_position that reads w from a release store makes the slot
       writes of all positions < w visible (acqW >= w).
     * the slot cells are plain memory.  Accesses whose value is USED:
         - the consumer's slot read of position r followed by a successful compare-exchange
           (the value is returned): it must be ordered after the write of position r, i.e.
           r < acqW at the time of the read (`fresh`);
         - the producer's slot write of position w (w >= capacity + 1) re-uses the slot of
           position p = w - capacity - 1: if p was popped by the consumer, the write must be
           ordered after that read: the consumer's compare-exchange is a release and the
           producer has acquired read_position >= p + 1.
       A violation sets the sticky flag `race_used`: a data race (undefined behaviour in
       Rust / C11) on a value that is returned; on weakly ordered hardware the popped value may
       be the one of another lap.
       Accesses whose value is DISCARDED: a consumer's slot read of position r whose
       compare-exchange then fails (the producer evicted r meanwhile).  The producer may
       overwrite that very slot (position r + capacity + 1) concurrently; no choice of
       orderings on the cursors can order the two accesses.  This sets `race_spec`.
   The ordering of each site is a parameter; `oq_ords_sync` is the table of the current code
   (pinned on every run by the G1 trace comparison of model/OverflowQueue.v). *)
From V Require Import model.Base model.Conc model.Events.
Open Scope N_scope.

Record qords := {
  q_push_load_rp : ord;    (* site 31 *)
  q_push_store_wp : ord;   (* site 33 *)
  q_push_cas : ord;        (* site 34, success ordering (failure: the value is not used) *)
  q_pop_load_rp : ord;     (* site 40 *)
  q_pop_load_wp : ord;     (* sites 41 and 44 *)
  q_pop_cas : ord;         (* site 43, success ordering *)
  q_pop_cas_fail : ord     (* site 43, failure ordering *)
}.

(* the table after the repair of the read_position synchronisation *)
Definition oq_ords_sync : qords :=
  {| q_push_load_rp := Acquire; q_push_store_wp := Release; q_push_cas := AcqRel;
     q_pop_load_rp := Acquire; q_pop_load_wp := Acquire; q_pop_cas := Release; q_pop_cas_fail := Acquire |}.

(* the table of the pinned upstream commit *)
Definition oq_ords_upstream : qords :=
  {| q_push_load_rp := Relaxed; q_push_store_wp := Release; q_push_cas := AcqRel;
     q_pop_load_rp := Relaxed; q_pop_load_wp := Acquire; q_pop_cas := Relaxed; q_pop_cas_fail := Acquire |}.

Definition is_acq (o : ord) : bool := match o with Acquire | AcqRel | SeqCst => true | _ => false end.
Definition is_rel (o : ord) : bool := match o with Release | AcqRel | SeqCst => true | _ => false end.

Inductive qop := QPush (v : N) | QPop.

Inductive qpc :=
| QIdle
| QPushLoadRp (v w : N)
| QPushWrite (v w r : N)
| QPushStore (v w r : N)
| QPushCas (w r : N)
| QPushReadOld (r : N)
| QPopLoadWp (r : N)
| QPopRead (r : N)
| QPopCas (r v : N) (fresh : bool)
| QPopRecheck (r : N).

Record qlst := {
  qprog : list qop; qat : qpc;
  seenR : N;    (* coherence: last value of read_position this thread observed or wrote *)
  seenW : N;    (* consumer: coherence lower bound for loads of write_position *)
  acqW : N;     (* consumer: slot writes of positions < acqW happen before what it does next *)
  acqR : N      (* producer: largest value of read_position it has acquired *)
}.

Record qgst := {
  qcap : N; qwp : N; qrp : N; qslots : list N;
  qoracle : list N;
  race_used : bool; race_spec : bool;
  (* ghost *)
  qovf : bool;                    (* the producer published into a queue it saw full and has not yet tried to evict *)
  cspec : option N;               (* position the consumer has read (or is about to read) without having decided its compare-exchange *)
  cum : list N;                   (* cum[i]: view of write_position transferred by an acquire read of read_position = i + 1 *)
  qpushed : list N;
  qremoved : list (N * bool)      (* value, true = popped by the consumer / false = evicted by the producer; index = position *)
}.

Definition qm (g : qgst) : N := qcap g + 1.

(* location bases and access sites as in model/OverflowQueue.v (the events are compared with the
   real queue run under injected stale values) *)
Definition B_WP : N := 0.  Definition B_RP : N := 1.  Definition B_SLOT : N := 2.

Definition next_choice (g : qgst) : N * list N :=
  match qoracle g with [] => (0, []) | k :: t => (k, t) end.

Definition stale (cur lo k : N) : N := cur - N.min k (cur - lo).

Definition pvl (cm : list N) (v : N) : N := if N.eqb v 0 then 0 else nthN cm (v - 1) 0.
Definition pv (g : qgst) (v : N) : N := pvl (cum g) v.

Definition set_q (l : qlst) (p : list qop) (c : qpc) (sr sw aw ar : N) : qlst :=
  {| qprog := p; qat := c; seenR := sr; seenW := sw; acqW := aw; acqR := ar |}.

Definition upd_q (g : qgst) (wp' rp' : N) (sl : list N) (orc : list N) (ru rs : bool) (ov : bool)
  (cs : option N) (cm : list N) (pu : list N) (re : list (N * bool)) : qgst :=
  {| qcap := qcap g; qwp := wp'; qrp := rp'; qslots := sl; qoracle := orc; race_used := ru; race_spec := rs;
     qovf := ov; cspec := cs; cum := cm; qpushed := pu; qremoved := re |}.

Definition set_oracle (g : qgst) (orc : list N) : qgst :=
  upd_q g (qwp g) (qrp g) (qslots g) orc (race_used g) (race_spec g) (qovf g) (cspec g) (cum g) (qpushed g) (qremoved g).

(* the producer's slot write of position w is not ordered after the consumer's returned read
   of the position that used the slot before *)
Definition write_racy (Q : qords) (g : qgst) (l : qlst) (w : N) : bool :=
  if N.ltb w (qm g) then false
  else match nth_error (qremoved g) (N.to_nat (w - qm g)) with
       | Some (_, false) => false
       | Some (_, true) => negb (is_rel (q_pop_cas Q) && N.leb (w - qm g + 1) (acqR l))
       | None => true
       end.

Definition spec_hit (g : qgst) (w : N) : bool :=
  match cspec g with
  | Some r => N.leb (qm g) w && N.eqb r (w - qm g)
  | None => false
  end.

(* consumer: load of write_position (sites 41, 44) *)
Definition pop_load_wp (Q : qords) (site : N) (g : qgst) (l : qlst) (r : N) : qgst * qlst * list ev :=
  let '(k, orc) := next_choice g in
  let w := stale (qwp g) (seenW l) k in
  let aw := if is_acq (q_pop_load_wp Q) && is_rel (q_push_store_wp Q) then N.max (acqW l) w else acqW l in
  let e := EAcc site B_WP 0 KLoad (q_pop_load_wp Q) (q_pop_load_wp Q) w 0 true in
  if N.eqb r w
  then (set_oracle g orc, set_q l (qprog l) QIdle (seenR l) w aw (acqR l), [e; ERet 0])
  else (upd_q g (qwp g) (qrp g) (qslots g) orc (race_used g) (race_spec g) (qovf g) (Some r) (cum g) (qpushed g) (qremoved g),
        set_q l (qprog l) (QPopRead r) (seenR l) w aw (acqR l), [e]).

Definition qstep (Q : qords) (t : nat) (g : qgst) (l : qlst) : option (qgst * qlst * list ev) :=
  match qat l with
  | QIdle =>
    match qprog l, t with
    | QPush v :: p, O%nat =>
      (* site 30: load of the producer's own cursor *)
      Some (g, set_q l p (QPushLoadRp v (qwp g)) (seenR l) (seenW l) (acqW l) (acqR l),
            [EAcc 30 B_WP 0 KLoad Acquire Acquire (qwp g) 0 true])
    | QPop :: p, S O%nat =>
      (* site 40: load of read_position *)
      let '(k, orc) := next_choice g in
      let r := stale (qrp g) (seenR l) k in
      let sync := is_acq (q_pop_load_rp Q) && is_rel (q_push_cas Q) in
      let sw := if sync then N.max (seenW l) (pv g r) else seenW l in
      let aw := if sync then N.max (acqW l) (pv g r) else acqW l in
      Some (set_oracle g orc, set_q l p (QPopLoadWp r) r sw aw (acqR l),
            [EAcc 40 B_RP 0 KLoad (q_pop_load_rp Q) (q_pop_load_rp Q) r 0 true])
    | _, _ => None
    end
  | QPushLoadRp v w =>
    let '(k, orc) := next_choice g in
    let r := stale (qrp g) (seenR l) k in
    let ar := if is_acq (q_push_load_rp Q) then N.max (acqR l) r else acqR l in
    Some (set_oracle g orc, set_q l (qprog l) (QPushWrite v w r) r (seenW l) (acqW l) ar,
          [EAcc 31 B_RP 0 KLoad (q_push_load_rp Q) (q_push_load_rp Q) r 0 true])
  | QPushWrite v w r =>
    let i := N.modulo w (qm g) in
    Some (upd_q g (qwp g) (qrp g) (updN (qslots g) i v) (qoracle g)
                (race_used g || write_racy Q g l w) (race_spec g || spec_hit g w)
                (qovf g) (cspec g) (cum g) (qpushed g) (qremoved g),
          set_q l (qprog l) (QPushStore v w r) (seenR l) (seenW l) (acqW l) (acqR l),
          [EAcc 32 B_SLOT i KCell NotAtomic NotAtomic 0 0 true])
  | QPushStore v w r =>
    if N.eqb w (r + qcap g)
    then Some (upd_q g (w + 1) (qrp g) (qslots g) (qoracle g) (race_used g) (race_spec g) true (cspec g) (cum g)
                     (qpushed g ++ [v]) (qremoved g),
               set_q l (qprog l) (QPushCas w r) (seenR l) (seenW l) (acqW l) (acqR l),
               [EAcc 33 B_WP 0 KStore (q_push_store_wp Q) (q_push_store_wp Q) 0 (w + 1) true])
    else Some (upd_q g (w + 1) (qrp g) (qslots g) (qoracle g) (race_used g) (race_spec g) (qovf g) (cspec g) (cum g)
                     (qpushed g ++ [v]) (qremoved g),
               set_q l (qprog l) QIdle (seenR l) (seenW l) (acqW l) (acqR l),
               [EAcc 33 B_WP 0 KStore (q_push_store_wp Q) (q_push_store_wp Q) 0 (w + 1) true; ERet 0])
  | QPushCas w r =>
    if N.eqb (qrp g) r
    then let x := nthN (qslots g) (N.modulo r (qm g)) 0 in
         let carried := if is_rel (q_push_cas Q) then w + 1 else 0 in
         let ar := if is_acq (q_push_cas Q) then N.max (acqR l) (r + 1) else acqR l in
         Some (upd_q g (qwp g) (r + 1) (qslots g) (qoracle g) (race_used g) (race_spec g) false (cspec g)
                     (cum g ++ [N.max (pv g r) carried]) (qpushed g) (qremoved g ++ [(x, false)]),
               set_q l (qprog l) (QPushReadOld r) (r + 1) (seenW l) (acqW l) ar,
               [EAcc 34 B_RP 0 KCas (q_push_cas Q) Relaxed r (r + 1) true])
    else let '(k, orc) := next_choice g in
         let r' := stale (qrp g) (N.max (seenR l) (r + 1)) k in
         Some (upd_q g (qwp g) (qrp g) (qslots g) orc (race_used g) (race_spec g) false (cspec g) (cum g) (qpushed g) (qremoved g),
               set_q l (qprog l) QIdle r' (seenW l) (acqW l) (acqR l),
               [EAcc 34 B_RP 0 KCas (q_push_cas Q) Relaxed r' (r + 1) false; ERet 0])
  | QPushReadOld r =>
    Some (g, set_q l (qprog l) QIdle (seenR l) (seenW l) (acqW l) (acqR l),
          [EAcc 35 B_SLOT (N.modulo r (qm g)) KCell NotAtomic NotAtomic 0 0 true; ERet (nthN (qslots g) (N.modulo r (qm g)) 0 + 1)])
  | QPopLoadWp r => Some (pop_load_wp Q 41 g l r)
  | QPopRead r =>
    Some (g, set_q l (qprog l) (QPopCas r (nthN (qslots g) (N.modulo r (qm g)) 0) (N.ltb r (acqW l)))
                   (seenR l) (seenW l) (acqW l) (acqR l),
          [EAcc 42 B_SLOT (N.modulo r (qm g)) KCell NotAtomic NotAtomic 0 0 true])
  | QPopCas r v fresh =>
    if N.eqb (qrp g) r
    then Some (upd_q g (qwp g) (r + 1) (qslots g) (qoracle g) (race_used g || negb fresh) (race_spec g) (qovf g) None
                     (cum g ++ [pv g r]) (qpushed g) (qremoved g ++ [(v, true)]),
               set_q l (qprog l) QIdle (r + 1) (seenW l) (acqW l) (acqR l),
               [EAcc 43 B_RP 0 KCas (q_pop_cas Q) (q_pop_cas_fail Q) r (r + 1) true; ERet (v + 1)])
    else let '(k, orc) := next_choice g in
         let r' := stale (qrp g) (N.max (seenR l) (r + 1)) k in
         let sync := is_acq (q_pop_cas_fail Q) && is_rel (q_push_cas Q) in
         let sw := if sync then N.max (seenW l) (pv g r') else seenW l in
         let aw := if sync then N.max (acqW l) (pv g r') else acqW l in
         Some (upd_q g (qwp g) (qrp g) (qslots g) orc (race_used g) (race_spec g) (qovf g) None (cum g) (qpushed g) (qremoved g),
               set_q l (qprog l) (QPopRecheck r') r' sw aw (acqR l),
               [EAcc 43 B_RP 0 KCas (q_pop_cas Q) (q_pop_cas_fail Q) r' (r + 1) false])
  | QPopRecheck r => Some (pop_load_wp Q 44 g l r)
  end.

Definition qg_init (c : N) (orc : list N) : qgst :=
  {| qcap := c; qwp := 0; qrp := 0; qslots := repeat 0%N (N.to_nat (c + 1)); qoracle := orc;
     race_used := false; race_spec := false; qovf := false; cspec := None; cum := [];
     qpushed := []; qremoved := [] |}.
Definition ql_init (p : list qop) : qlst :=
  {| qprog := p; qat := QIdle; seenR := 0; seenW := 0; acqW := 0; acqR := 0 |}.
Definition qinit (c : N) (orc : list N) (pushes : list N) (pops : nat) : cfg qgst qlst :=
  (qg_init c orc,
   fun t => match t with
            | O => ql_init (map QPush pushes)
            | S O => ql_init (repeat QPop pops)
            | _ => ql_init []
            end).

Fixpoint qcontent_from (sl : list N) (m pos : N) (n : nat) : list N :=
  match n with
  | O => []
  | S k => nthN sl (N.modulo pos m) 0 :: qcontent_from sl m (pos + 1) k
  end.
Definition qcontent (g : qgst) : list N :=
  qcontent_from (qslots g) (qm g) (qrp g) (N.to_nat (qwp g - qrp g)).

(* executable summary of a run, for the witnesses in the property file and the search in the driver *)
Definition q_after (Q : qords) (c : N) (orc : list N) (pushes : list N) (pops : nat) (s : list nat) : qgst :=
  fst (fst (run (qstep Q) s (qinit c orc pushes pops))).
