(* C19 -- executable model of the name types of iceoryx2 (Linux build) and of the
   NamedConceptConfiguration naming scheme.  Bytes are N (the harness feeds 0..255, the
   theorems hold for every N), strings are `list N`, lengths and indices are nat (usize
   overflow of idx+len is not modelled: the harness and the theorems use indices far below
   2^64).  Transcribed, branch for branch and in the order of the checks, from
     iceoryx2-bb/container/src/string/mod.rs            (trait String, on StaticString<CAP>)
     iceoryx2-bb/container/src/string/static_string.rs  (data: [u8; CAP], terminator outside)
     iceoryx2-bb/container/src/semantic_string.rs       (trait SemanticString + macro)
     iceoryx2-bb/system-types/src/{file_name,path,file_path,base64url,user_name,group_name}.rs
     iceoryx2/src/service/service_name.rs, iceoryx2/src/node/node_name.rs
     iceoryx2-cal/src/named_concept.rs                  (path_for, extract_name_from_file, extract_name_from_path)
     iceoryx2/src/service/naming_scheme.rs              (connection_name, extract_sender_port_id.., extract_receiver_port_id..)
   Rust panics (fatal_panic!, slice index out of bounds, debug_assert!) are the explicit
   outcome Panic.  The second half of the file is the reference spec: the documented rules as
   plain predicates over byte lists, written independently of the transcription. *)
From V Require Import model.Base.

Definition str := list N.
Definition SEP : N := 47.   (* iceoryx2_pal_configuration::PATH_SEPARATOR on linux: b'/' *)
Definition DOT : N := 46.

Fixpoint str_eqb (a b : str) : bool :=
  match a, b with
  | [], [] => true
  | x :: a', y :: b' => N.eqb x y && str_eqb a' b'
  | _, _ => false
  end.

Definition in_rng (lo hi c : N) : bool := N.leb lo c && N.leb c hi.

(* ---------------------------------------------------------------------------------- *)
(* core::str::from_utf8 (validation only): Unicode table 3-7, as in core::str::validations *)
Fixpoint utf8_valid (s : str) : bool :=
  match s with
  | [] => true
  | c :: t =>
    if N.ltb c 128 then utf8_valid t
    else if in_rng 194 223 c then
      match t with
      | c1 :: t1 => in_rng 128 191 c1 && utf8_valid t1
      | _ => false
      end
    else if in_rng 224 239 c then
      match t with
      | c1 :: c2 :: t2 =>
        (if N.eqb c 224 then in_rng 160 191 c1
         else if N.eqb c 237 then in_rng 128 159 c1
         else in_rng 128 191 c1) && in_rng 128 191 c2 && utf8_valid t2
      | _ => false
      end
    else if in_rng 240 244 c then
      match t with
      | c1 :: c2 :: c3 :: t3 =>
        (if N.eqb c 240 then in_rng 144 191 c1
         else if N.eqb c 244 then in_rng 128 143 c1
         else in_rng 128 191 c1) && in_rng 128 191 c2 && in_rng 128 191 c3 && utf8_valid t3
      | _ => false
      end
    else false
  end.

(* ---------------------------------------------------------------------------------- *)
(* trait String on StaticString<cap>; s = as_bytes().  data has exactly `cap` cells, the
   NUL terminator behind the last cell is a separate field. *)
Inductive smerr := InsertWouldExceedCapacity | InvalidCharacter.

(* insert_bytes: `128 <= *byte || 0 == *byte` *)
Definition bad_byte (c : N) : bool := N.leb 128 c || N.eqb c 0.

Definition str_insert_bytes (cap : nat) (s : str) (idx : nat) (b : str) : res (str + smerr) :=
  if Nat.ltb (length s) idx then Panic                                   (* fatal_panic: index out of bounds *)
  else if Nat.ltb cap (length s + length b) then Val (inr InsertWouldExceedCapacity)
  else if existsb bad_byte b then Val (inr InvalidCharacter)
  else Val (inl (firstn idx s ++ b ++ skipn idx s)).                     (* insert_bytes_unchecked *)

(* remove_range: the terminator write is guarded by `new_len < data().len()` (fix 8cf1846),
   so the capacity plays no role any more *)
Definition str_remove_range (s : str) (idx len : nat) : str * bool :=
  if Nat.ltb (length s) (idx + len) then (s, false)
  else (firstn idx s ++ skipn (idx + len) s, true).

Definition str_remove (s : str) (idx : nat) : str * option N :=
  if Nat.leb (length s) idx then (s, None)
  else (fst (str_remove_range s idx 1), Some (nth idx s 0%N)).

(* the inner comparison loop of find/rfind at start position i *)
Fixpoint starts_with (b t : str) : bool :=
  match b, t with
  | [], _ => true
  | x :: b', y :: t' => N.eqb x y && starts_with b' t'
  | _ :: _, [] => false
  end.

(* for i in start .. start+count *)
Fixpoint find_loop (s b : str) (i count : nat) : option nat :=
  match count with
  | O => None
  | S k => if starts_with b (skipn i s) then Some i else find_loop s b (S i) k
  end.
Definition str_find (s b : str) : option nat :=
  if Nat.ltb (length s) (length b) then None
  else find_loop s b 0 (length s - length b + 1).

(* for i in (0..count).rev() *)
Fixpoint rfind_loop (s b : str) (count : nat) : option nat :=
  match count with
  | O => None
  | S k => if starts_with b (skipn k s) then Some k else rfind_loop s b k
  end.
Definition str_rfind (s b : str) : option nat :=
  if Nat.ltb (length s) (length b) then None
  else rfind_loop s b (length s - length b + 1).

Definition str_strip_prefix (s b : str) : str * bool :=
  match str_find s b with
  | Some O => (fst (str_remove_range s 0 (length b)), true)
  | _ => (s, false)
  end.

Definition str_strip_suffix (s b : str) : str * bool :=
  if Nat.ltb (length s) (length b) then (s, false)
  else
    let pos := length s - length b in
    match str_rfind s b with
    | Some v => if negb (Nat.eqb v pos) then (s, false) else str_remove_range s pos (length b)
    | None => (s, false)
    end.

(* truncate: the terminator write is guarded by `new_len < capacity` *)
Definition str_truncate (s : str) (new_len : nat) : str :=
  if Nat.ltb (length s) new_len then s else firstn new_len s.

(* retain: `for idx in (0..len).rev() { if f(data[idx]) { self.remove(idx); } }`
   -- the bytes for which f is TRUE are removed (the doc comment says the opposite; C16) *)
Fixpoint retain_loop (f : N -> bool) (k : nat) (s : str) : str :=
  match k with
  | O => s
  | S idx => if f (nth idx s 0%N) then retain_loop f idx (fst (str_remove s idx)) else retain_loop f idx s
  end.
Definition str_retain (f : N -> bool) (s : str) : str := retain_loop f (length s) s.

(* ---------------------------------------------------------------------------------- *)
(* trait SemanticString<cap>; a semantic type = capacity + the two callables of the macro *)
Inductive semerr := InvalidContent | ExceedsMaximumLength.

Record sty := { cap : nat; inv_chars : str -> bool; inv_content : str -> bool }.

Definition has_invalid_chars (T : sty) (s : str) : bool := negb (utf8_valid s) || inv_chars T s.
Definition is_invalid_content (T : sty) (s : str) : bool := has_invalid_chars T s || inv_content T s.

(* result of a `&mut self` method: the value of self afterwards and the returned Result *)
Definition mres (A : Type) := res (str * (A + semerr)).

(* insert_bytes: InvalidCharacter => InvalidContent, any other String error =>
   ExceedsMaximumLength (fix 47ad8e2); then content check, roll back *)
Definition sem_insert_bytes (T : sty) (s : str) (idx : nat) (b : str) : mres unit :=
  match str_insert_bytes (cap T) s idx b with
  | Panic => Panic
  | Val (inr InvalidCharacter) => Val (s, inr InvalidContent)
  | Val (inr _) => Val (s, inr ExceedsMaximumLength)
  | Val (inl s1) =>
    if is_invalid_content T s1 then Val (fst (str_remove_range s1 idx (length b)), inr InvalidContent)
    else Val (s1, inl tt)
  end.
Definition sem_insert (T : sty) (s : str) (idx : nat) (c : N) := sem_insert_bytes T s idx [c].
Definition sem_push (T : sty) (s : str) (c : N) := sem_insert T s (length s) c.
Definition sem_push_bytes (T : sty) (s : str) (b : str) := sem_insert_bytes T s (length s) b.

(* new: new_empty(); push_bytes(value)? *)
Definition sem_new (T : sty) (b : str) : res (str + semerr) :=
  match sem_push_bytes T [] b with
  | Panic => Panic
  | Val (s, inl _) => Val (inl s)
  | Val (_, inr e) => Val (inr e)
  end.

(* remove: on a copy; check; assign *)
Definition sem_remove (T : sty) (s : str) (idx : nat) : mres (option N) :=
  let (temp, v) := str_remove s idx in
  if is_invalid_content T temp then Val (s, inr InvalidContent) else Val (temp, inl v).
Definition sem_pop (T : sty) (s : str) : mres (option N) :=
  if Nat.eqb (length s) 0 then Val (s, inl None) else sem_remove T s (length s - 1).

(* remove_range: on a copy; check; the same call again on self *)
Definition sem_remove_range (T : sty) (s : str) (idx len : nat) : mres unit :=
  let temp := fst (str_remove_range s idx len) in
  if is_invalid_content T temp then Val (s, inr InvalidContent)
  else Val (fst (str_remove_range s idx len), inl tt).

Definition sem_retain (T : sty) (s : str) (f : N -> bool) : mres unit :=
  let temp := str_retain f s in
  if is_invalid_content T temp then Val (s, inr InvalidContent) else Val (temp, inl tt).

(* strip_prefix / strip_suffix: on a copy; Ok(false) when absent; check; again on self
   (the log message uses as_escaped_string since fix c6cc798: no buffer, no panic) *)
Definition sem_strip_prefix (T : sty) (s : str) (b : str) : mres bool :=
  match str_strip_prefix s b with
  | (_, false) => Val (s, inl false)
  | (temp, true) =>
    if is_invalid_content T temp then Val (s, inr InvalidContent)
    else Val (fst (str_strip_prefix s b), inl true)
  end.
Definition sem_strip_suffix (T : sty) (s : str) (b : str) : mres bool :=
  match str_strip_suffix s b with
  | (_, false) => Val (s, inl false)
  | (temp, true) =>
    if is_invalid_content T temp then Val (s, inr InvalidContent)
    else Val (fst (str_strip_suffix s b), inl true)
  end.

Definition sem_truncate (T : sty) (s : str) (new_len : nat) : mres unit :=
  let temp := str_truncate s new_len in
  if is_invalid_content T temp then Val (s, inr InvalidContent) else Val (str_truncate s new_len, inl tt).

(* ---------------------------------------------------------------------------------- *)
(* the semantic types (Linux: no ':' rule) *)

(* file_name.rs invalid_characters: 0, slash, 1..=31, backslash, lt, gt, dquote, pipe, qmark, star *)
Definition fn_bad_char (c : N) : bool :=
  N.eqb c 0 || N.eqb c 47 || in_rng 1 31 c || N.eqb c 92 || N.eqb c 60 || N.eqb c 62 ||
  N.eqb c 34 || N.eqb c 124 || N.eqb c 63 || N.eqb c 42.
(* file_name.rs invalid_content: the empty string, dot, dotdot *)
Definition fn_inv_content (s : str) : bool :=
  match s with
  | [] => true
  | [c] => N.eqb c 46
  | [c; d] => N.eqb c 46 && N.eqb d 46
  | _ => false
  end.
Definition FILENAME_LENGTH : nat := 255.
Definition PATH_LENGTH : nat := 255.
Definition FileNameT : sty := {| cap := FILENAME_LENGTH; inv_chars := existsb fn_bad_char; inv_content := fn_inv_content |}.
(* RestrictedFileName<CAP>: same callables, smaller capacity *)
Definition RestrictedFileNameT (c : nat) : sty := {| cap := c; inv_chars := existsb fn_bad_char; inv_content := fn_inv_content |}.

(* path.rs and file_path.rs invalid_characters: 0, 1..=31, lt, gt, dquote, pipe, qmark, star *)
Definition path_bad_char (c : N) : bool :=
  N.eqb c 0 || in_rng 1 31 c || N.eqb c 60 || N.eqb c 62 || N.eqb c 34 || N.eqb c 124 || N.eqb c 63 || N.eqb c 42.
Definition PathT : sty := {| cap := PATH_LENGTH; inv_chars := existsb path_bad_char; inv_content := fun _ => false |}.

(* file_path.rs invalid_content *)
Definition fp_inv_content (s : str) : bool :=
  if fn_inv_content s then true
  else if N.eqb (last s 0%N) SEP then true
  else if Nat.leb 2 (length s) && str_eqb (skipn (length s - 2) s) [SEP; DOT] then true
  else if Nat.leb 3 (length s) && str_eqb (skipn (length s - 3) s) [SEP; DOT; DOT] then true
  else false.
Definition FilePathT : sty := {| cap := PATH_LENGTH; inv_chars := existsb path_bad_char; inv_content := fp_inv_content |}.

Definition is_lower (c : N) := in_rng 97 122 c.
Definition is_upper (c : N) := in_rng 65 90 c.
Definition is_digit (c : N) := in_rng 48 57 c.
(* base64url.rs *)
Definition b64_bad_char (c : N) : bool := negb (is_lower c || is_upper c || is_digit c || N.eqb c 45 || N.eqb c 95).
Definition Base64UrlT : sty := {| cap := FILENAME_LENGTH; inv_chars := existsb b64_bad_char;
                                   inv_content := fun s => match s with [] => true | _ => false end |}.
(* user_name.rs / group_name.rs *)
Definition ug_bad_char (c : N) : bool := negb (is_lower c || is_upper c || is_digit c || N.eqb c 45 || N.eqb c 95).
Definition ug_inv_content (s : str) : bool :=
  match s with
  | [] => true
  | c :: _ => N.eqb c 45 || is_digit c
  end.
Definition USER_NAME_LENGTH : nat := 255.
Definition GROUP_NAME_LENGTH : nat := 31.
Definition UserNameT : sty := {| cap := USER_NAME_LENGTH; inv_chars := existsb ug_bad_char; inv_content := ug_inv_content |}.
Definition GroupNameT : sty := {| cap := GROUP_NAME_LENGTH; inv_chars := existsb ug_bad_char; inv_content := ug_inv_content |}.

Inductive ty := TFileName | TPath | TFilePath | TBase64Url | TUserName | TGroupName | TRestricted (c : nat).
Definition sty_of (t : ty) : sty :=
  match t with
  | TFileName => FileNameT | TPath => PathT | TFilePath => FilePathT | TBase64Url => Base64UrlT
  | TUserName => UserNameT | TGroupName => GroupNameT | TRestricted c => RestrictedFileNameT c
  end.

(* ---------------------------------------------------------------------------------- *)
(* ServiceName / NodeName: plain StaticString wrappers constructed from a &str.
   None = the bytes are not a &str (not UTF-8), the constructor cannot even be called. *)
Definition str_try_from (cap : nat) (b : str) : res (str + smerr) :=
  if Nat.ltb cap (length b) then Val (inr InsertWouldExceedCapacity)
  else str_insert_bytes cap [] 0 b.
Definition smerr_to_semerr (e : smerr) : semerr :=
  match e with InsertWouldExceedCapacity => ExceedsMaximumLength | InvalidCharacter => InvalidContent end.
Definition IOX2_PREFIX : str := [105; 111; 120; 50; 58; 47; 47]%N.   (* "iox2://" *)
Definition MAX_SERVICE_NAME_LENGTH : nat := 255.
Definition MAX_NODE_NAME_LENGTH : nat := 128.
Definition service_name_new (b : str) : option (res (str + semerr)) :=
  if negb (utf8_valid b) then None
  else Some (
    if starts_with IOX2_PREFIX b then Val (inr InvalidContent)
    else match b with
         | [] => Val (inr InvalidContent)
         | _ => match str_try_from MAX_SERVICE_NAME_LENGTH b with
                | Panic => Panic
                | Val (inl s) => Val (inl s)
                | Val (inr e) => Val (inr (smerr_to_semerr e))
                end
         end).
Definition node_name_new (b : str) : option (res (str + semerr)) :=
  if negb (utf8_valid b) then None
  else Some (
    match str_try_from MAX_NODE_NAME_LENGTH b with
    | Panic => Panic
    | Val (inl s) => Val (inl s)
    | Val (inr e) => Val (inr (smerr_to_semerr e))
    end).

(* ---------------------------------------------------------------------------------- *)
(* Path / FilePath helpers *)

(* slice::split(|c| *c == sep): always at least one (possibly empty) piece *)
Fixpoint split_sep (s : str) : list str :=
  match s with
  | [] => [[]]
  | x :: t =>
    if N.eqb x SEP then [] :: split_sep t
    else match split_sep t with
         | h :: r => (x :: h) :: r
         | [] => [[x]]
         end
  end.
Definition nonempty (e : str) : bool := match e with [] => false | _ => true end.
Definition is_dot (e : str) : bool := match e with [c] => N.eqb c DOT | _ => false end.

Fixpoint join_sep (l : list str) : str :=
  match l with
  | [] => []
  | [e] => e
  | e :: r => e ++ SEP :: join_sep r
  end.

(* Path::normalize *)
Definition path_normalize (s : str) : str :=
  (match s with c :: _ => if N.eqb c SEP then [SEP] else [] | [] => [] end) ++
  join_sep (filter (fun e => negb (is_dot e)) (filter nonempty (split_sep s))).

(* Path::entries (FileName::new_unchecked on every non-empty piece) *)
Definition path_entries (s : str) : list str := filter nonempty (split_sep s).
Definition path_is_absolute (s : str) : bool := match s with c :: _ => N.eqb c SEP | [] => false end.

(* Path::add_path_entry (fix a263455): on a copy: push(SEP)? ; push_bytes(entry)? ; *self = copy *)
Definition path_add_path_entry (s entry : str) : mres unit :=
  let step1 : mres unit :=
    if nonempty s && negb (N.eqb (last s 0%N) SEP) then sem_push PathT s SEP else Val (s, inl tt) in
  match step1 with
  | Panic => Panic
  | Val (_, inr e) => Val (s, inr e)
  | Val (s1, inl _) =>
    match sem_push_bytes PathT s1 entry with
    | Panic => Panic
    | Val (_, inr e) => Val (s, inr e)
    | Val (s2, inl _) => Val (s2, inl tt)
    end
  end.

(* rsplitn(2, sep): (everything before the last separator, if there is one; the piece behind it) *)
Fixpoint split_last (s : str) : option str * str :=
  match s with
  | [] => (None, [])
  | x :: t =>
    match split_last t with
    | (Some p, f) => (Some (x :: p), f)
    | (None, f) => if N.eqb x SEP then (Some [], f) else (None, x :: f)
    end
  end.
(* FilePath::file_name, FilePath::path (both via new_unchecked) *)
Definition fp_file_name (s : str) : str := snd (split_last s).
Definition fp_path (s : str) : str :=
  match fst (split_last s) with
  | Some [] => [SEP]
  | Some p => p
  | None => []
  end.

(* FilePath::from_path_and_file (the debug_assert of from_path_and_file_unchecked repeats the
   length check since fix e2099f0 and can never fire) *)
Definition fp_from_path_and_file (path file : str) : res (str + semerr) :=
  let need_sep := nonempty path && negb (N.eqb (last path 0%N) SEP) in
  let required_len := length path + length file + (if need_sep then 1 else 0) in
  if Nat.ltb PATH_LENGTH required_len then Val (inr ExceedsMaximumLength)
  else Val (inl (path ++ (if need_sep then [SEP] else []) ++ file)).

(* ---------------------------------------------------------------------------------- *)
(* NamedConceptConfiguration (default trait methods) *)
Record ncfg := { prefix : str; suffix : str; path_hint : str }.

(* path_for: every failing step is a fatal_panic *)
Definition nc_path_for (c : ncfg) (name : str) : res str :=
  match path_add_path_entry (path_hint c) (prefix c) with
  | Val (p1, inl _) =>
    match sem_push_bytes PathT p1 name with
    | Val (p2, inl _) =>
      match sem_push_bytes PathT p2 (suffix c) with
      | Val (p3, inl _) => Val p3
      | _ => Panic
      end
    | _ => Panic
    end
  | _ => Panic
  end.

(* extract_name_from_file (fix 19ab506): None unless both strips return Ok(true) *)
Definition nc_extract_name_from_file (c : ncfg) (file : str) : res (option str) :=
  match sem_strip_prefix FileNameT file (prefix c) with
  | Val (f1, inl true) =>
    match sem_strip_suffix FileNameT f1 (suffix c) with
    | Val (f2, inl true) => Val (Some f2)
    | _ => Val None
    end
  | _ => Val None
  end.

(* extract_name_from_path: `*self.get_path_hint() != value.path()` is Path's PartialEq, i.e.
   equality of the normalized byte strings *)
Definition nc_extract_name_from_path (c : ncfg) (fpath : str) : res (option str) :=
  if negb (str_eqb (path_normalize (path_hint c)) (path_normalize (fp_path fpath))) then Val None
  else nc_extract_name_from_file c (fp_file_name fpath).

(* ---------------------------------------------------------------------------------- *)
(* naming_scheme.rs: connection_name / extract_{sender,receiver}_port_id_from_connection.
   u128::to_string and str::parse::<u128> (optional leading '+', at least one digit, digits
   only, value < 2^128). *)
Definition U128_MAX1 : N := 340282366920938463463374607431768211456.   (* 2^128 *)
Fixpoint dec_digits (fuel : nat) (n : N) (acc : str) : str :=
  match fuel with
  | O => acc
  | S f => let acc' := (48 + N.modulo n 10)%N :: acc in
           if N.ltb n 10 then acc' else dec_digits f (N.div n 10) acc'
  end.
Definition dec_print (n : N) : str := dec_digits 40 n [].
Fixpoint dec_parse_digits (s : str) (acc : N) : option N :=
  match s with
  | [] => Some acc
  | c :: t => if is_digit c then
                let acc' := (acc * 10 + (c - 48))%N in
                if N.leb U128_MAX1 acc' then None else dec_parse_digits t acc'
              else None
  end.
Definition dec_parse (s : str) : option N :=
  let s' := match s with c :: t => if N.eqb c 43 then t else s | [] => s end in
  match s' with
  | [] => None
  | _ => dec_parse_digits s' 0%N
  end.
Definition UNDERSCORE : N := 95.
(* str::split_once('_') *)
Fixpoint split_once (s : str) : option (str * str) :=
  match s with
  | [] => None
  | c :: t => if N.eqb c UNDERSCORE then Some ([], t)
              else match split_once t with Some (a, b) => Some (c :: a, b) | None => None end
  end.
Definition connection_name (sender receiver : N) : str := dec_print sender ++ UNDERSCORE :: dec_print receiver.
Definition extract_sender_port_id (name : str) : option N :=
  match split_once name with Some (a, _) => dec_parse a | None => None end.
Definition extract_receiver_port_id (name : str) : option N :=
  match split_once name with Some (_, b) => dec_parse b | None => None end.

(* ---------------------------------------------------------------------------------- *)
(* operations / observations of the correspondence harness *)
(* closures handed to retain: true = the byte is removed *)
Inductive retpred := RpEq (c : N) | RpLt (c : N) | RpGe (c : N) | RpAll | RpNone.
Definition retpred_fn (p : retpred) (c : N) : bool :=
  match p with
  | RpEq d => N.eqb c d | RpLt d => N.ltb c d | RpGe d => N.leb d c | RpAll => true | RpNone => false
  end.

Inductive sop :=
| OpPush (c : N) | OpPushBytes (b : str) | OpInsert (i : nat) (c : N) | OpInsertBytes (i : nat) (b : str)
| OpPop | OpRemove (i : nat) | OpRemoveRange (i n : nat) | OpRetain (p : retpred)
| OpStripPrefix (b : str) | OpStripSuffix (b : str) | OpTruncate (n : nat).

Inductive sobs := ObUnit | ObOptByte (o : option N) | ObBool (b : bool) | ObErr (e : semerr).

Definition lift {A} (f : A -> sobs) (r : mres A) : res (str * sobs) :=
  match r with
  | Panic => Panic
  | Val (s, inl a) => Val (s, f a)
  | Val (s, inr e) => Val (s, ObErr e)
  end.

Definition sem_apply (T : sty) (s : str) (o : sop) : res (str * sobs) :=
  match o with
  | OpPush c => lift (fun _ => ObUnit) (sem_push T s c)
  | OpPushBytes b => lift (fun _ => ObUnit) (sem_push_bytes T s b)
  | OpInsert i c => lift (fun _ => ObUnit) (sem_insert T s i c)
  | OpInsertBytes i b => lift (fun _ => ObUnit) (sem_insert_bytes T s i b)
  | OpPop => lift ObOptByte (sem_pop T s)
  | OpRemove i => lift ObOptByte (sem_remove T s i)
  | OpRemoveRange i n => lift (fun _ => ObUnit) (sem_remove_range T s i n)
  | OpRetain p => lift (fun _ => ObUnit) (sem_retain T s (retpred_fn p))
  | OpStripPrefix b => lift ObBool (sem_strip_prefix T s b)
  | OpStripSuffix b => lift ObBool (sem_strip_suffix T s b)
  | OpTruncate n => lift (fun _ => ObUnit) (sem_truncate T s n)
  end.

(* ================================================================================== *)
(* REFERENCE SPEC: the documented rules, independent of the code above.               *)
(* ================================================================================== *)

(* printable 7-bit ASCII without control characters: 32..127 *)
Definition printable (c : N) : bool := N.leb 32 c && N.ltb c 128.
Definition mem (c : N) (l : list N) : bool := existsb (N.eqb c) l.
(* characters that are illegal in file names / paths on some supported platform *)
Definition PATH_FORBIDDEN : list N := [60; 62; 34; 124; 63; 42]%N.             (* lt gt dquote pipe qmark star *)
Definition FILE_FORBIDDEN : list N := (47 :: 92 :: PATH_FORBIDDEN)%N.            (* / \ and the above *)
Definition fn_allowed (c : N) : bool := printable c && negb (mem c FILE_FORBIDDEN).
Definition path_allowed (c : N) : bool := printable c && negb (mem c PATH_FORBIDDEN).
Definition alnum (c : N) : bool := is_lower c || is_upper c || is_digit c.
Definition word_char (c : N) : bool := alnum c || N.eqb c 45 || N.eqb c 95.   (* - _ *)

Definition is_dot_or_dotdot (s : str) : bool := str_eqb s [DOT] || str_eqb s [DOT; DOT].
(* a single path component that can only denote an entry of the directory it is looked up in *)
Definition component_ok (s : str) : bool := nonempty s && negb (is_dot_or_dotdot s).

Definition restricted_filename_rules (c : nat) (s : str) : bool :=
  Nat.leb (length s) c && forallb fn_allowed s && component_ok s.
Definition filename_rules (s : str) : bool := restricted_filename_rules 255 s.
Definition path_rules (s : str) : bool := Nat.leb (length s) 255 && forallb path_allowed s.
(* the text behind the last separator (the whole text when there is none) *)
Definition last_component (s : str) : str := last (split_sep s) [].
Definition filepath_rules (s : str) : bool :=
  Nat.leb (length s) 255 && forallb path_allowed s && component_ok (last_component s).
Definition base64url_rules (s : str) : bool :=
  Nat.leb (length s) 255 && forallb word_char s && nonempty s.
Definition posix_name_rules (c : nat) (s : str) : bool :=
  Nat.leb (length s) c && forallb word_char s &&
  match s with [] => false | x :: _ => negb (N.eqb x 45 || is_digit x) end.
Definition ascii_nonnul (c : N) : bool := N.leb 1 c && N.ltb c 128.
Definition service_name_rules (s : str) : bool :=
  nonempty s && Nat.leb (length s) 255 && forallb ascii_nonnul s && negb (starts_with IOX2_PREFIX s).
Definition node_name_rules (s : str) : bool := Nat.leb (length s) 128 && forallb ascii_nonnul s.

Definition rules_of (t : ty) : str -> bool :=
  match t with
  | TFileName => filename_rules | TPath => path_rules | TFilePath => filepath_rules
  | TBase64Url => base64url_rules | TUserName => posix_name_rules 255 | TGroupName => posix_name_rules 31
  | TRestricted c => restricted_filename_rules c
  end.
Definition cap_of (t : ty) : nat := cap (sty_of t).

(* constructor: accepted iff the rules hold, value = input; otherwise too long =>
   ExceedsMaximumLength, anything else => InvalidContent *)
Definition spec_err (c : nat) (cand : str) : semerr :=
  if Nat.ltb c (length cand) then ExceedsMaximumLength else InvalidContent.
Definition spec_new (t : ty) (b : str) : res (str + semerr) :=
  if rules_of t b then Val (inl b) else Val (inr (spec_err (cap_of t) b)).

(* mutators: compute the candidate value with plain list operations; commit it iff it obeys
   the rules, otherwise report an error and leave the value unchanged.  The only documented
   panic is an insert index beyond the end.  (c = capacity, R = the rules of the type) *)
Definition gcommit (c : nat) (R : str -> bool) (s cand : str) (ok : sobs) : res (str * sobs) :=
  if R cand then Val (cand, ok) else Val (s, ObErr (spec_err c cand)).
Definition is_prefix (b s : str) : bool := starts_with b s.
Definition is_suffix (b s : str) : bool := Nat.leb (length b) (length s) && str_eqb (skipn (length s - length b) s) b.

Definition gspec_apply (c : nat) (R : str -> bool) (s : str) (o : sop) : res (str * sobs) :=
  let ins i b := if Nat.ltb (length s) i then Panic else gcommit c R s (firstn i s ++ b ++ skipn i s) ObUnit in
  let rem i := if Nat.leb (length s) i then Val (s, ObOptByte None)
               else gcommit c R s (firstn i s ++ skipn (S i) s) (ObOptByte (Some (nth i s 0%N))) in
  match o with
  | OpPush x => ins (length s) [x]
  | OpPushBytes b => ins (length s) b
  | OpInsert i x => ins i [x]
  | OpInsertBytes i b => ins i b
  | OpPop => match s with [] => Val (s, ObOptByte None) | _ => rem (length s - 1) end
  | OpRemove i => rem i
  | OpRemoveRange i n => if Nat.ltb (length s) (i + n) then Val (s, ObUnit)
                         else gcommit c R s (firstn i s ++ skipn (i + n) s) ObUnit
  | OpRetain p => gcommit c R s (filter (fun x => negb (retpred_fn p x)) s) ObUnit
  | OpStripPrefix b => if is_prefix b s then gcommit c R s (skipn (length b) s) (ObBool true) else Val (s, ObBool false)
  | OpStripSuffix b => if is_suffix b s then gcommit c R s (firstn (length s - length b) s) (ObBool true) else Val (s, ObBool false)
  | OpTruncate n => if Nat.ltb (length s) n then Val (s, ObUnit) else gcommit c R s (firstn n s) ObUnit
  end.
Definition spec_apply (t : ty) : str -> sop -> res (str * sobs) := gspec_apply (cap_of t) (rules_of t).

(* bytes an insertion adds, and where (used to state when a mutator panics) *)
Definition inserted_bytes (s : str) (o : sop) : option (nat * str) :=
  match o with
  | OpPush x => Some (length s, [x]) | OpPushBytes b => Some (length s, b)
  | OpInsert i x => Some (i, [x]) | OpInsertBytes i b => Some (i, b)
  | _ => None
  end.
(* the relation between two prefixes that breaks isolation (F4, known finding) *)
Definition prefix_related (p1 p2 : str) : bool := starts_with p1 p2 || starts_with p2 p1.

(* FilePath::from_path_and_file: the concatenation whenever it fits *)
Definition spec_from_path_and_file (path file : str) : res (str + semerr) :=
  let cand := match path with
              | [] => file
              | _ => if N.eqb (last path 0%N) SEP then path ++ file else path ++ SEP :: file
              end in
  if Nat.leb (length cand) 255 then Val (inl cand) else Val (inr ExceedsMaximumLength).

(* agreement of an observed result with the result the spec computes: the error kinds are
   only loosely specified -- ExceedsMaximumLength is admissible only when the candidate is
   really too long (then the spec computes it), InvalidContent is admissible for every
   rejected candidate *)
Definition semerr_agree (spec impl : semerr) : bool :=
  match spec, impl with
  | InvalidContent, ExceedsMaximumLength => false
  | _, _ => true
  end.

(* directory + separator (unless the directory is empty or already ends with one) + entry *)
Definition spec_join (dir entry : str) : str :=
  match dir with
  | [] => entry
  | _ => if N.eqb (last dir 0%N) SEP then dir ++ entry else dir ++ SEP :: entry
  end.
(* Path::add_path_entry: all or nothing *)
Definition spec_add_path_entry (s entry : str) : res (str * sobs) :=
  let cand := spec_join s entry in
  if path_rules cand then Val (cand, ObUnit) else Val (s, ObErr (spec_err 255 cand)).
(* path_for: the configured directory joined with the single component prefix+name+suffix;
   the documented reaction to an over-long result is a fatal panic *)
Definition spec_path_for (c : ncfg) (name : str) : res str :=
  let cand := spec_join (path_hint c) (prefix c ++ name ++ suffix c) in
  if Nat.leb (length cand) 255 then Val cand else Panic.
(* extract_name_from_file: Some n exactly for the files prefix ++ n ++ suffix with n a valid
   file name; every other file of the directory is not ours: None (and never a panic) *)
Definition spec_extract_name_from_file (c : ncfg) (file : str) : res (option str) :=
  if is_prefix (prefix c) file then
    let rest := skipn (length (prefix c)) file in
    if is_suffix (suffix c) rest then
      let n := firstn (length rest - length (suffix c)) rest in
      if filename_rules n then Val (Some n) else Val None
    else Val None
  else Val None.
Definition same_directory (a b : str) : bool := str_eqb (path_normalize a) (path_normalize b).
Definition spec_extract_name_from_path (c : ncfg) (fpath : str) : res (option str) :=
  match fst (split_last fpath) with
  | None => if same_directory (path_hint c) [] then spec_extract_name_from_file c fpath else Val None
  | Some d => if same_directory (path_hint c) (match d with [] => [SEP] | _ => d end)
              then spec_extract_name_from_file c (last_component fpath) else Val None
  end.
