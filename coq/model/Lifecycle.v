(* C04 -- abstract resource model of the iceoryx2 lifecycle operations and of the dead-node cleanup.

   A world is the set (duplicate-free list) of named resources that currently exist: files under the
   root, shared-memory objects, and the entries of the per-service registry (dynamic config).  Every
   lifecycle operation of the code is a list of abstract steps `Mk r` / `Rm r` in the order in which
   the code performs them; the file-level steps are read off the un-killed reference traces of the G2
   harness (harness/g2/c04, tools/checks/C04.py compares them on every run), the registry steps
   (shared-memory writes, not visible to the libc gate) are placed according to the `!MUST!` comments
   of the port constructors.  A crash after k steps = the world after the first k steps.

   Transcribed from (commit of /repo at the time of writing):
     node create   iceoryx2/src/node/mod.rs  NodeBuilder::__internal_create_with_custom_node_id
                   (create_node_details_storage, THEN create_token)
     node drop     SharedNodeState::drop -> remove_node (details file, directory), then the fields:
                   monitoring_token (ProcessGuard: state, owner_lock, context)
     service create/open   iceoryx2/src/service/builder/mod.rs  create() / open()
     service drop  iceoryx2/src/service/mod.rs  ServiceState::drop (remove_service_tag FIRST, then
                   deregister_node_id, then fields dynamic_storage, additional_resource, static_storage)
     port create/drop   iceoryx2/src/port/{publisher,subscriber,notifier,listener,client,server,
                   writer,reader}.rs  new(): port_tag first, registry entry last; Drop: registry entry
                   first, then the fields, port_tag last
     cleanup       node/mod.rs DeadNodeView::remove_stale_resources_impl,
                   service/mod.rs __internal_remove_node_from_service,
                   service/stale_resource_cleanup.rs remove_stale_port_resources, remove_node

   Abstractions (named in tools/claims/C04.json): creation of one resource is one atomic step (the
   enumeration on the real code shows it is not: a static-storage file exists before it is finalised);
   a resource is either present or absent (no contents); ids are natural numbers; the owner node of a
   port is part of the resource name (in the code it is the directory the port tag lives in). *)
From V Require Import model.Base.

Definition node := nat.
Definition port := nat.
Definition svc := nat.

Inductive res :=
| Tok (n : node)                          (* monitoring token: <id>.node_monitor + _owner_lock + _context *)
| Det (n : node)                          (* node directory nodes/<id>/ and its details file *)
| STag (n : node) (s : svc)               (* nodes/<id>/<hash>.service_tag *)
| PTag (n : node) (p : port)              (* nodes/<id>/<port id>.port_tag *)
| Stat (s : svc)                          (* services/<hash>.service *)
| Dyn (s : svc)                           (* <service id>.dynamic (holds the registry) *)
| SRes (s : svc)                          (* additional service resource (blackboard mgmt + payload) *)
| RegN (s : svc) (n : node)               (* registry entry: node n uses service s *)
| RegP (s : svc) (n : node) (p : port)    (* registry entry: port p of node n *)
| Data (n : node) (p : port)              (* <port id>.data / listener's <id>.event : private to the port *)
| Conn (n1 : node) (p1 : port) (n2 : node) (p2 : port).  (* <sender>_<receiver>.connection *)

Inductive step := Mk (r : res) | Rm (r : res).

Definition res_eqb (a b : res) : bool :=
  match a, b with
  | Tok n, Tok n' => Nat.eqb n n'
  | Det n, Det n' => Nat.eqb n n'
  | STag n s, STag n' s' => Nat.eqb n n' && Nat.eqb s s'
  | PTag n p, PTag n' p' => Nat.eqb n n' && Nat.eqb p p'
  | Stat s, Stat s' => Nat.eqb s s'
  | Dyn s, Dyn s' => Nat.eqb s s'
  | SRes s, SRes s' => Nat.eqb s s'
  | RegN s n, RegN s' n' => Nat.eqb s s' && Nat.eqb n n'
  | RegP s n p, RegP s' n' p' => Nat.eqb s s' && Nat.eqb n n' && Nat.eqb p p'
  | Data n p, Data n' p' => Nat.eqb n n' && Nat.eqb p p'
  | Conn a b c d, Conn a' b' c' d' => Nat.eqb a a' && Nat.eqb b b' && Nat.eqb c c' && Nat.eqb d d'
  | _, _ => false
  end.

Definition world := list res.

Definition mem (r : res) (w : world) : bool := existsb (res_eqb r) w.
Definition del (r : res) (w : world) : world := filter (fun x => negb (res_eqb r x)) w.

Definition apply1 (st : step) (w : world) : world :=
  match st with
  | Mk r => if mem r w then w else r :: w
  | Rm r => del r w
  end.
Definition apply (sts : list step) (w : world) : world := fold_left (fun w st => apply1 st w) sts w.

(* world after a crash of the executing process behind the first k steps of an operation *)
Definition crash (k : nat) (sts : list step) (w : world) : world := apply (firstn k sts) w.

(* ---------------------------------------------------------------- ownership *)
(* all registry node entries of service s belong to n *)
Definition only_user (n : node) (w : world) (s : svc) : bool :=
  forallb (fun x => match x with RegN s' m => negb (Nat.eqb s' s) || Nat.eqb m n | _ => true end) w.

(* `solely n w r`: the owner set of r in world w is {n}.  Node-, tag-, port- and registry-entry
   resources carry their owner; a connection is solely n's when both ends are; a service-level resource
   belongs to the registered nodes of the service, and to the node that holds a tag while nobody (else)
   is registered (service under creation, or all other users gone) *)
Definition solely (n : node) (w : world) (r : res) : bool :=
  match r with
  | Tok m | Det m | STag m _ | PTag m _ | RegN _ m | RegP _ m _ | Data m _ => Nat.eqb m n
  | Conn m _ m' _ => Nat.eqb m n && Nat.eqb m' n
  | Stat s | Dyn s | SRes s => only_user n w s && (mem (STag n s) w || mem (RegN s n) w)
  end.

(* ---------------------------------------------------------------- cleanup *)
(* port p of node n is reachable for the cleanup: through its port tag, or through a registry entry
   of a service for which n still has a service tag *)
Definition port_known (n : node) (w : world) (p : port) : bool :=
  mem (PTag n p) w ||
  existsb (fun x => match x with RegP s m q => Nat.eqb m n && Nat.eqb q p && mem (STag n s) w | _ => false end) w.

(* what remove_stale_resources of node n removes in world w (the node is listed as dead iff its
   monitoring token exists; the walk starts from the service tags and port tags it can list) *)
Definition removed (n : node) (w : world) (r : res) : bool :=
  match r with
  | Tok m | Det m | STag m _ | PTag m _ => Nat.eqb m n
  | RegN s m | RegP s m _ => Nat.eqb m n && mem (STag n s) w
  | Data m p => Nat.eqb m n && port_known n w p
  | Conn m p m' q => Nat.eqb m n && Nat.eqb m' n && (port_known n w p || port_known n w q)
  | Stat s | Dyn s | SRes s => mem (STag n s) w && only_user n w s
  end.

Definition cleanup (n : node) (w : world) : world :=
  if mem (Tok n) w then filter (fun r => negb (removed n w r)) w else w.

(* the same cleanup as an ordered list of removal steps, in the order of the code: per service tag the
   ports of the registry (port resources, port tag, registry entry), the node entry, the service itself
   when n was the last user, the service tag; then per remaining port tag the port resources and the
   tag; then node details; the token last (ProcessCleaner drop).  rank = position class in that order *)
Definition rank (r : res) : nat :=
  match r with
  | Data _ _ | Conn _ _ _ _ => 0
  | RegP _ _ _ => 1
  | PTag _ _ => 2
  | RegN _ _ => 3
  | Dyn _ => 4
  | SRes _ => 5
  | Stat _ => 6
  | STag _ _ => 7
  | Det _ => 8
  | Tok _ => 9
  end.

Definition of_rank (k : nat) (l : list res) : list res := filter (fun r => Nat.eqb (rank r) k) l.

Definition cleanup_steps (n : node) (w : world) : list step :=
  if mem (Tok n) w then
    let l := filter (removed n w) w in
    map Rm (flat_map (fun k => of_rank k l) (seq 0 10))
  else [].

(* ---------------------------------------------------------------- the guard discipline *)
(* the resource that must exist for the cleanup of n to find r ("tag first") *)
Definition guard_ok (n : node) (w : world) (r : res) : bool :=
  match r with
  | Tok _ => true
  | Det m | STag m _ | PTag m _ => mem (Tok m) w
  | RegN s m | RegP s m _ => mem (STag m s) w && mem (Tok m) w
  | Data m p => port_known m w p && mem (Tok m) w
  | Conn m p _ q => (port_known m w p || port_known m w q) && mem (Tok m) w
  | Stat s | Dyn s | SRes s => mem (STag n s) w && mem (Tok n) w
  end.

(* invariant: everything that is solely n's is guarded *)
Definition inv (n : node) (w : world) : bool :=
  forallb (fun r => negb (solely n w r) || guard_ok n w r) w.

(* a step list keeps the discipline from world w on: the invariant holds in every intermediate world *)
Fixpoint disc (n : node) (w : world) (sts : list step) : bool :=
  inv n w &&
  match sts with
  | [] => true
  | st :: rest => disc n (apply1 st w) rest
  end.

(* ---------------------------------------------------------------- the operations, as transcribed *)
Inductive pkind := KPub | KSub | KNot | KLis | KCli | KSrv | KWri | KRea.

(* does a port of this kind own a private segment (data segment / event connection)? *)
Definition has_data (k : pkind) : bool :=
  match k with KPub | KLis | KCli | KSrv => true | _ => false end.

Definition node_create (n : node) : list step := [Mk (Det n); Mk (Tok n)].
Definition node_drop (n : node) : list step := [Rm (Det n); Rm (Tok n)].

(* extra = the pattern has an additional service resource (blackboard) *)
Definition svc_create (n : node) (s : svc) (extra : bool) : list step :=
  [Mk (STag n s); Mk (Stat s)] ++ (if extra then [Mk (SRes s)] else []) ++ [Mk (Dyn s); Mk (RegN s n)].
Definition svc_open (n : node) (s : svc) : list step := [Mk (STag n s); Mk (RegN s n)].
Definition svc_drop (n : node) (s : svc) (extra last : bool) : list step :=
  [Rm (STag n s); Rm (RegN s n)] ++
  (if last then [Rm (Dyn s)] ++ (if extra then [Rm (SRes s)] else []) ++ [Rm (Stat s)] else []).

(* conns: the connections this port creates while it is constructed (sender side creates) *)
Definition port_create (k : pkind) (n : node) (s : svc) (p : port) (conns : list res) : list step :=
  [Mk (PTag n p)] ++ (if has_data k then [Mk (Data n p)] else []) ++ map Mk conns ++ [Mk (RegP s n p)].
Definition port_drop (k : pkind) (n : node) (s : svc) (p : port) (conns : list res) : list step :=
  [Rm (RegP s n p)] ++ (if has_data k then [Rm (Data n p)] else []) ++ map Rm conns ++ [Rm (PTag n p)].

(* the inverted order for open (registry entry before the service tag): NOT what the code does; kept as the
   refuted variant -- a reordering in service/builder/mod.rs open() shows up as a trace mismatch of the tie
   (the registry entry is written right after the last attach of the dynamic config) and as this list *)
Definition svc_open_swapped (n : node) (s : svc) : list step := [Mk (RegN s n); Mk (STag n s)].

(* the orders that would satisfy the discipline where the transcribed ones do not *)
Definition node_create_fixed (n : node) : list step := [Mk (Tok n); Mk (Det n)].
Definition node_drop_fixed (n : node) : list step := [Rm (Det n); Rm (Tok n)].
Definition svc_drop_fixed (n : node) (s : svc) (extra last : bool) : list step :=
  [Rm (RegN s n)] ++
  (if last then [Rm (Dyn s)] ++ (if extra then [Rm (SRes s)] else []) ++ [Rm (Stat s)] else []) ++ [Rm (STag n s)].

(* ---------------------------------------------------------------- printing for the tie *)
(* file-level projection of a step list: registry entries are shared-memory writes the libc gate
   does not see *)
Definition file_level (st : step) : bool :=
  match st with
  | Mk (RegN _ _) | Mk (RegP _ _ _) | Rm (RegN _ _) | Rm (RegP _ _ _) => false
  | _ => true
  end.

Inductive tok := TMk | TRm.
Inductive rname := NTok | NDet | NSTag | NPTag | NStat | NDyn | NSRes | NRegN | NRegP | NData | NConn.
Definition name_of (r : res) : rname :=
  match r with
  | Tok _ => NTok | Det _ => NDet | STag _ _ => NSTag | PTag _ _ => NPTag | Stat _ => NStat | Dyn _ => NDyn
  | SRes _ => NSRes | RegN _ _ => NRegN | RegP _ _ _ => NRegP | Data _ _ => NData | Conn _ _ _ _ => NConn
  end.
Definition show (sts : list step) : list (tok * rname) :=
  map (fun st => match st with Mk r => (TMk, name_of r) | Rm r => (TRm, name_of r) end) (filter file_level sts).

Inductive op :=
| ONodeCreate | ONodeDrop
| OSvcCreate (extra : bool) | OSvcOpen | OSvcDrop (extra last : bool)
| OPortCreate (k : pkind) (nconn : nat) | OPortDrop (k : pkind) (nconn : nat).

(* step list of an operation of node 1 on service 1, port 1 (peers: ports 100.. of node 0) *)
Definition peer_conns (k : pkind) (nconn : nat) : list res :=
  map (fun i => match k with
                | KSub | KRea | KLis => Conn 0 (100 + i) 1 1
                | _ => Conn 1 1 0 (100 + i)
                end) (seq 0 nconn).
Definition steps_of (o : op) : list step :=
  match o with
  | ONodeCreate => node_create 1
  | ONodeDrop => node_drop 1
  | OSvcCreate e => svc_create 1 1 e
  | OSvcOpen => svc_open 1 1
  | OSvcDrop e l => svc_drop 1 1 e l
  | OPortCreate k c => port_create k 1 1 1 (peer_conns k c)
  | OPortDrop k c => port_drop k 1 1 1 (peer_conns k c)
  end.
Definition show_op (o : op) : list (tok * rname) := show (steps_of o).
(* with the registry steps: for service open the check places the registry write at the last attach of the
   existing dynamic config (register_node_id follows it without a gated call in between) *)
Definition show_full (sts : list step) : list (tok * rname) :=
  map (fun st => match st with Mk r => (TMk, name_of r) | Rm r => (TRm, name_of r) end) sts.
Definition show_op_full (o : op) : list (tok * rname) := show_full (steps_of o).
