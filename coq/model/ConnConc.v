(* CONCURRENT step model of one channel of a zero-copy connection
   (iceoryx2-cal/src/zero_copy_connection/common.rs, used_chunk_list.rs): a sender thread
   (thread 0) and a receiver thread (thread 1) working on

     Channel::submission_queue  (SafelyOverflowingIndexQueue, capacity B = buffer_size)  -> sub, sub_rp
     Channel::completion_queue  (IndexQueue, capacity Cq -- a PARAMETER; the code uses
                                 Builder::completion_queue_size() = B + M + 1)            -> comp, comp_rp
     SegmentDetails::used_chunk_list (one AtomicBool per chunk, touched by the sender only) -> used
     Receiver::borrow_counter[0] (UnsafeCell<usize>, touched by the receiver only)          -> ctr

   GRANULARITY.  One step = one access to a CURSOR of one of the two queues (every load, store
   and compare-exchange of write_position / read_position, in the code's order and with the
   code's memory orderings), or one swap of a used-chunk-list flag, or one access to the borrow
   counter.  The slot arrays of the two queues are abstracted: the content of a queue is a list
   (oldest first), a value enters it at the store of write_position and leaves it at the
   successful store / compare-exchange of read_position.  This abstraction is what the queue
   theorems of props/C03.v justify (access-granular models of exactly these two queues):
     c03_spsc_conservation, c03_spsc_pop_returns_head, c03_spsc_no_slot_conflict   (IndexQueue)
     OQ.c03_oq_conservation, OQ.c03_oq_pop_returns_head, OQ.c03_oq_evicted_value_stable,
     OQ.c03_oq_write_slot_free                                    (SafelyOverflowingIndexQueue)
   i.e. the value a successful pop / eviction returns is the head of the list at the moment of
   its cursor update, and slot writes never touch a queued value.  The write cursor of a queue
   is not stored: write_position = read_position + length of the content (sub_wp, comp_wp).

   Sender operations (thread 0):
     OReclaim = Sender::reclaim:      completion_queue.pop(); used_chunk_list.remove(index)
     OSend    = what the ports do (iceoryx2/src/port/details/sender.rs: retrieve_returned_chunks
                before every delivery): reclaim until Ok(None), then Sender::try_send of the
                head of the sender's free list:
                  [!enable_safe_overflow] submission_queue.is_full() -> Err(ReceiveBufferFull)
                  used_chunk_list.insert(index)
                  submission_queue.push(offset)   (evicts the oldest when full)
                  [evicted] used_chunk_list.remove(evicted index)
   Receiver operations (thread 1):
     OReceive   = Receiver::receive:  borrow_counter >= max_borrowed_samples -> Err;
                                      submission_queue.pop(); borrow_counter += 1
     ORelease i = Receiver::release of the i-th offset the receiver holds:
                                      completion_queue.push(offset) -- false -> Err(RetrieveBufferFull);
                                      borrow_counter -= 1
   The free list of the sender (offsets it owns) and the list of held offsets of the receiver
   are thread-local (fields of the local state).

   A branch that the model cannot take in any reachable state (popping from an empty list after
   the emptiness check passed; decrementing a zero borrow counter, a Rust arithmetic-overflow
   panic) is `None`: the thread stops.  proofs/ConnConcProofs.v shows they are unreachable
   (conn_no_stuck). *)
From V Require Import model.Base model.Conc model.Events.
Open Scope N_scope.

Inductive cop := OSend | OReclaim | OReceive | ORelease (i : nat).

Inductive cpc :=
| Idle
(* Sender::reclaim; m = true: inside an OSend macro-op *)
| SRecLoadRp (m : bool)            (* index_queue.rs pop: read_position.load(Relaxed) *)
| SRecLoadWp (m : bool) (r : N)    (*                     write_position.load(Acquire); empty? *)
| SRecStoreRp (m : bool) (r : N)   (*                     read_position.store(r + 1, Release) *)
| SRecRemove (m : bool) (v : N)    (* used_chunk_list.remove(v): swap(false, Relaxed) *)
(* Sender::try_send v *)
| SFullA (v : N)                   (* is_full(): write_position.load(Relaxed) *)
| SFullB (v w : N)                 (*            read_position.load(Relaxed) *)
| SFullC (v w r : N)               (*            write_position.load(Relaxed) again *)
| SFullD (v w r : N)               (*            read_position.load(Relaxed) again *)
| SInsert (v : N)                  (* used_chunk_list.insert(v): swap(true, Relaxed) *)
| SPushLoadWp (v : N)              (* safely_overflowing push: write_position.load(Acquire) *)
| SPushLoadRp (v w : N)            (*                          read_position.load(Acquire) *)
| SPushStore (v w r : N)           (*                          write_position.store(w + 1, Release) *)
| SPushCas (r : N)                 (*   full: read_position.compare_exchange(r, r + 1, AcqRel, Relaxed) *)
| SEvictRemove (x : N)             (* used_chunk_list.remove(evicted x) *)
(* Receiver::receive *)
| RCtrCheck                        (* *borrow_counter >= max_borrowed_samples *)
| RCtrExceeded                     (* fail!(.., self.borrow_counter(channel_id), ..): the error message reads it again *)
| RPopLoadRp                       (* safely_overflowing pop: read_position.load(Acquire) *)
| RPopLoadWp (r : N)               (*                         write_position.load(Acquire); empty? *)
| RPopCas (r : N)                  (*                         read_position.compare_exchange(r, r + 1, Release, Acquire) *)
| RPopRecheck (r : N)              (*   lost against an eviction: write_position.load(Acquire); empty? *)
| RCtrIncr (v : N)                 (* *borrow_counter += 1 *)
(* Receiver::release of held offset number i (= v) *)
| RPushLoadWp (v : N) (i : nat)    (* index_queue.rs push: write_position.load(Relaxed) *)
| RPushLoadRp (v : N) (i : nat) (w : N)   (*           read_position.load(Acquire); full? *)
| RPushStore (v : N) (i : nat) (w : N)    (*           write_position.store(w + 1, Release) *)
| RCtrDecr.                        (* *borrow_counter -= 1 *)

Record clst := { prog : list cop; pc : cpc; free : list N; held : list N }.

Record cgst := {
  cB : N; cM : N; cCq : N; covf : bool;
  sub : list N; sub_rp : N;
  comp : list N; comp_rp : N;
  used : list N;
  ctr : N;
  (* ghost: never read by a step *)
  pool0 : list N;                (* every offset of the data segment = the sender's initial free list *)
  sent : list N;                 (* offsets published into the submission queue, in order *)
  taken : list (N * bool);       (* offsets removed from its head, in order: true = received, false = evicted *)
  released : list N;             (* offsets published into the completion queue, in order *)
  reclaimed : list N;            (* offsets popped from it, in order *)
  rel_failed : bool;             (* a release returned RetrieveBufferFull *)
  corrupted : bool               (* a used_chunk_list.remove found the flag cleared (ConnectionCorrupted /
                                    ReceiverReturnedCorruptedPointerOffset) or an insert found it set *)
}.

Definition sub_wp (g : cgst) : N := sub_rp g + lenN (sub g).
Definition comp_wp (g : cgst) : N := comp_rp g + lenN (comp g).

(* locations *)
Definition B_SWP : N := 0.  Definition B_SRP : N := 1.  Definition B_CWP : N := 2.
Definition B_CRP : N := 3.  Definition B_USED : N := 4. Definition B_CTR : N := 5.

(* return codes (the harness prints the same) *)
Definition RET_BUFFER_FULL : N := 1000.      (* try_send: Err(ReceiveBufferFull) *)
Definition RET_SEND_CORRUPT : N := 1001.     (* try_send: Err(ConnectionCorrupted) *)
Definition RET_RECLAIM_CORRUPT : N := 1002.  (* reclaim: Err(ReceiverReturnedCorruptedPointerOffset) *)
Definition RET_EXCEEDS_BORROW : N := 1003.   (* receive: Err(ReceiveWouldExceedMaxBorrowValue) *)
Definition RET_RETRIEVE_FULL : N := 1004.    (* release: Err(RetrieveBufferFull) *)

Definition memN (v : N) (l : list N) : bool := existsb (N.eqb v) l.
Definition insN (v : N) (l : list N) : list N := if memN v l then l else v :: l.
Definition remN (v : N) (l : list N) : list N := filter (fun x => negb (N.eqb v x)) l.
Definition remove_nth {A} (i : nat) (l : list A) : list A := firstn i l ++ skipn (S i) l.

Definition set_l (l : clst) (p : list cop) (c : cpc) (f h : list N) : clst :=
  {| prog := p; pc := c; free := f; held := h |}.
Definition at_pc (l : clst) (c : cpc) : clst := set_l l (prog l) c (free l) (held l).

Definition g_sub (g : cgst) (s : list N) (rp : N) (sent' : list N) (taken' : list (N * bool)) : cgst :=
  {| cB := cB g; cM := cM g; cCq := cCq g; covf := covf g; sub := s; sub_rp := rp; comp := comp g; comp_rp := comp_rp g;
     used := used g; ctr := ctr g; pool0 := pool0 g; sent := sent'; taken := taken'; released := released g;
     reclaimed := reclaimed g; rel_failed := rel_failed g; corrupted := corrupted g |}.
Definition g_comp (g : cgst) (c : list N) (rp : N) (released' reclaimed' : list N) : cgst :=
  {| cB := cB g; cM := cM g; cCq := cCq g; covf := covf g; sub := sub g; sub_rp := sub_rp g; comp := c; comp_rp := rp;
     used := used g; ctr := ctr g; pool0 := pool0 g; sent := sent g; taken := taken g; released := released';
     reclaimed := reclaimed'; rel_failed := rel_failed g; corrupted := corrupted g |}.
Definition g_used (g : cgst) (u : list N) (bad : bool) : cgst :=
  {| cB := cB g; cM := cM g; cCq := cCq g; covf := covf g; sub := sub g; sub_rp := sub_rp g; comp := comp g; comp_rp := comp_rp g;
     used := u; ctr := ctr g; pool0 := pool0 g; sent := sent g; taken := taken g; released := released g;
     reclaimed := reclaimed g; rel_failed := rel_failed g; corrupted := corrupted g || bad |}.
Definition g_ctr (g : cgst) (n : N) : cgst :=
  {| cB := cB g; cM := cM g; cCq := cCq g; covf := covf g; sub := sub g; sub_rp := sub_rp g; comp := comp g; comp_rp := comp_rp g;
     used := used g; ctr := n; pool0 := pool0 g; sent := sent g; taken := taken g; released := released g;
     reclaimed := reclaimed g; rel_failed := rel_failed g; corrupted := corrupted g |}.
Definition g_relfail (g : cgst) : cgst :=
  {| cB := cB g; cM := cM g; cCq := cCq g; covf := covf g; sub := sub g; sub_rp := sub_rp g; comp := comp g; comp_rp := comp_rp g;
     used := used g; ctr := ctr g; pool0 := pool0 g; sent := sent g; taken := taken g; released := released g;
     reclaimed := reclaimed g; rel_failed := true; corrupted := corrupted g |}.

Definition ld (site base : N) (o : ord) (v : N) : ev := EAcc site base 0 KLoad o o v 0 true.

(* the reclaim loop of OSend has seen Ok(None): try_send of the head of the free list; an empty
   free list (the port's loan would have failed) ends the macro-op *)
Definition start_send (g : cgst) (l : clst) : clst :=
  match free l with
  | [] => at_pc l Idle
  | v :: f => set_l l (prog l) (if covf g then SInsert v else SFullA v) f (held l)
  end.

Definition sender_step (g : cgst) (l : clst) : option (cgst * clst * list ev) :=
  match pc l with
  | Idle =>
    match prog l with
    | [] => None
    | OSend :: p => Some (g, set_l l p (SRecLoadRp true) (free l) (held l), [])
    | OReclaim :: p => Some (g, set_l l p (SRecLoadRp false) (free l) (held l), [])
    | _ :: p => Some (g, set_l l p Idle (free l) (held l), [])      (* not a sender operation: skipped *)
    end
  | SRecLoadRp m => Some (g, at_pc l (SRecLoadWp m (comp_rp g)), [ld 10 B_CRP Relaxed (comp_rp g)])
  | SRecLoadWp m r =>
    let e := ld 11 B_CWP Acquire (comp_wp g) in
    if N.eqb r (comp_wp g)
    then Some (g, (if m then start_send g l else at_pc l Idle), [e; ERet 0])
    else Some (g, at_pc l (SRecStoreRp m r), [e])
  | SRecStoreRp m r =>
    match comp g with
    | [] => None
    | v :: c' =>
      Some (g_comp g c' (r + 1) (released g) (reclaimed g ++ [v]), at_pc l (SRecRemove m v),
            [EAcc 12 B_CRP 0 KStore Release Release 0 (r + 1) true])
    end
  | SRecRemove m v =>
    let prev := memN v (used g) in
    let e := EAcc 13 B_USED v KSwap Relaxed Relaxed (bool_code prev) 0 true in
    if prev
    then Some (g_used g (remN v (used g)) false,
               set_l l (prog l) (if m then SRecLoadRp true else Idle) (free l ++ [v]) (held l), [e; ERet (v + 1)])
    else Some (g_used g (remN v (used g)) true, at_pc l Idle, [e; ERet RET_RECLAIM_CORRUPT])
  | SFullA v => Some (g, at_pc l (SFullB v (sub_wp g)), [ld 20 B_SWP Relaxed (sub_wp g)])
  | SFullB v w => Some (g, at_pc l (SFullC v w (sub_rp g)), [ld 21 B_SRP Relaxed (sub_rp g)])
  | SFullC v w r =>
    Some (g, at_pc l (if N.eqb w (sub_wp g) then SFullD v w r else SFullA v), [ld 22 B_SWP Relaxed (sub_wp g)])
  | SFullD v w r =>
    let e := ld 23 B_SRP Relaxed (sub_rp g) in
    if N.eqb r (sub_rp g)
    then if N.eqb w (r + cB g)
         then Some (g, set_l l (prog l) Idle (v :: free l) (held l), [e; ERet RET_BUFFER_FULL])
         else Some (g, at_pc l (SInsert v), [e])
    else Some (g, at_pc l (SFullA v), [e])
  | SInsert v =>
    let prev := memN v (used g) in
    Some (g_used g (insN v (used g)) prev, at_pc l (SPushLoadWp v),
          [EAcc 24 B_USED v KSwap Relaxed Relaxed (bool_code prev) 1 true])
  | SPushLoadWp v => Some (g, at_pc l (SPushLoadRp v (sub_wp g)), [ld 25 B_SWP Acquire (sub_wp g)])
  | SPushLoadRp v w => Some (g, at_pc l (SPushStore v w (sub_rp g)), [ld 26 B_SRP Acquire (sub_rp g)])
  | SPushStore v w r =>
    let e := EAcc 27 B_SWP 0 KStore Release Release 0 (w + 1) true in
    let g' := g_sub g (sub g ++ [v]) (sub_rp g) (sent g ++ [v]) (taken g) in
    if N.eqb w (r + cB g)
    then Some (g', at_pc l (SPushCas r), [e])
    else Some (g', at_pc l Idle, [e; ERet 0])
  | SPushCas r =>
    if N.eqb (sub_rp g) r
    then match sub g with
         | [] => None
         | x :: s' =>
           Some (g_sub g s' (r + 1) (sent g) (taken g ++ [(x, false)]), at_pc l (SEvictRemove x),
                 [EAcc 28 B_SRP 0 KCas AcqRel Relaxed r (r + 1) true])
         end
    else Some (g, at_pc l Idle, [EAcc 28 B_SRP 0 KCas AcqRel Relaxed (sub_rp g) (r + 1) false; ERet 0])
  | SEvictRemove x =>
    let prev := memN x (used g) in
    let e := EAcc 29 B_USED x KSwap Relaxed Relaxed (bool_code prev) 0 true in
    if prev
    then Some (g_used g (remN x (used g)) false, set_l l (prog l) Idle (free l ++ [x]) (held l), [e; ERet (x + 1)])
    else Some (g_used g (remN x (used g)) true, at_pc l Idle, [e; ERet RET_SEND_CORRUPT])
  | _ => None
  end.

Definition receiver_step (g : cgst) (l : clst) : option (cgst * clst * list ev) :=
  match pc l with
  | Idle =>
    match prog l with
    | [] => None
    | OReceive :: p => Some (g, set_l l p RCtrCheck (free l) (held l), [])
    | ORelease i :: p =>
      match nth_error (held l) i with
      | Some v => Some (g, set_l l p (RPushLoadWp v i) (free l) (held l), [])
      | None => Some (g, set_l l p Idle (free l) (held l), [])        (* nothing to release: skipped *)
      end
    | _ :: p => Some (g, set_l l p Idle (free l) (held l), [])        (* not a receiver operation: skipped *)
    end
  | RCtrCheck =>
    let e := EAcc 40 B_CTR 0 KCell NotAtomic NotAtomic 0 0 true in
    if N.leb (cM g) (ctr g)
    then Some (g, at_pc l RCtrExceeded, [e])
    else Some (g, at_pc l RPopLoadRp, [e])
  | RCtrExceeded =>
    Some (g, at_pc l Idle, [EAcc 46 B_CTR 0 KCell NotAtomic NotAtomic 0 0 true; ERet RET_EXCEEDS_BORROW])
  | RPopLoadRp => Some (g, at_pc l (RPopLoadWp (sub_rp g)), [ld 41 B_SRP Acquire (sub_rp g)])
  | RPopLoadWp r =>
    let e := ld 42 B_SWP Acquire (sub_wp g) in
    if N.eqb r (sub_wp g) then Some (g, at_pc l Idle, [e; ERet 0]) else Some (g, at_pc l (RPopCas r), [e])
  | RPopCas r =>
    if N.eqb (sub_rp g) r
    then match sub g with
         | [] => None
         | v :: s' =>
           Some (g_sub g s' (r + 1) (sent g) (taken g ++ [(v, true)]),
                 set_l l (prog l) (RCtrIncr v) (free l) (held l ++ [v]),
                 [EAcc 43 B_SRP 0 KCas Release Acquire r (r + 1) true])
         end
    else Some (g, at_pc l (RPopRecheck (sub_rp g)), [EAcc 43 B_SRP 0 KCas Release Acquire (sub_rp g) (r + 1) false])
  | RPopRecheck r =>
    let e := ld 44 B_SWP Acquire (sub_wp g) in
    if N.eqb r (sub_wp g) then Some (g, at_pc l Idle, [e; ERet 0]) else Some (g, at_pc l (RPopCas r), [e])
  | RCtrIncr v =>
    Some (g_ctr g (ctr g + 1), at_pc l Idle, [EAcc 45 B_CTR 0 KCell NotAtomic NotAtomic 0 0 true; ERet (v + 1)])
  | RPushLoadWp v i => Some (g, at_pc l (RPushLoadRp v i (comp_wp g)), [ld 50 B_CWP Relaxed (comp_wp g)])
  | RPushLoadRp v i w =>
    let e := ld 51 B_CRP Acquire (comp_rp g) in
    if N.eqb w (comp_rp g + cCq g)
    then Some (g_relfail g, at_pc l Idle, [e; ERet RET_RETRIEVE_FULL])
    else Some (g, at_pc l (RPushStore v i w), [e])
  | RPushStore v i w =>
    Some (g_comp g (comp g ++ [v]) (comp_rp g) (released g ++ [v]) (reclaimed g),
          set_l l (prog l) RCtrDecr (free l) (remove_nth i (held l)),
          [EAcc 52 B_CWP 0 KStore Release Release 0 (w + 1) true])
  | RCtrDecr =>
    if N.eqb (ctr g) 0 then None
    else Some (g_ctr g (ctr g - 1), at_pc l Idle, [EAcc 53 B_CTR 0 KCell NotAtomic NotAtomic 0 0 true; ERet 0])
  | _ => None
  end.

Definition step (t : nat) (g : cgst) (l : clst) : option (cgst * clst * list ev) :=
  match t with
  | O => sender_step g l
  | S O => receiver_step g l
  | _ => None
  end.

Definition g_init (b m cq : N) (ovf : bool) (pool : list N) : cgst :=
  {| cB := b; cM := m; cCq := cq; covf := ovf; sub := []; sub_rp := 0; comp := []; comp_rp := 0; used := []; ctr := 0;
     pool0 := pool; sent := []; taken := []; released := []; reclaimed := []; rel_failed := false; corrupted := false |}.
Definition l_init (p : list cop) (f : list N) : clst := {| prog := p; pc := Idle; free := f; held := [] |}.

(* the data segment has k chunks 0 .. k-1, all owned by the sender *)
Definition offsets (k : nat) : list N := map N.of_nat (seq 0 k).

Definition init (b m cq : N) (ovf : bool) (k : nat) (ps pr : list cop) : cfg cgst clst :=
  (g_init b m cq ovf (offsets k),
   fun t => match t with O => l_init ps (offsets k) | S O => l_init pr [] | _ => l_init [] [] end).

(* Builder::completion_queue_size() *)
Definition completion_queue_size (b m : N) : N := b + m + 1.

(* what the property talks about *)
Definition received (g : cgst) : list N := map fst (filter snd (taken g)).
Definition evicted (g : cgst) : list N := map fst (filter (fun p => negb (snd p)) (taken g)).
(* the offset the sender holds in its hand inside an operation (taken from the free list / popped /
   evicted, not yet handed back to the caller) *)
Definition hand (c : cpc) : list N :=
  match c with
  | SRecRemove _ v | SFullA v | SFullB v _ | SFullC v _ _ | SFullD v _ _ | SInsert v
  | SPushLoadWp v | SPushLoadRp v _ | SPushStore v _ _ | SEvictRemove v => [v]
  | _ => []
  end.
