(* Step model of iceoryx2-bb/lock-free/src/spsc/index_queue.rs (IndexQueue) and of
   spsc/queue.rs (Queue<T,CAP>): both run the same algorithm.
     push:  wp := load write_position (Relaxed); rp := load read_position (Acquire);
            if wp == rp + capacity return false;
            cell(wp % capacity).get() ; write value ;
            store write_position := wp + 1 (Release); return true
     pop:   rp := load read_position (Relaxed); wp := load write_position (Acquire);
            if rp == wp return None;
            cell(rp % capacity).get() ; read value ;
            store read_position := rp + 1 (Release); return Some(value)
     acquire_producer / acquire_consumer: CAS has_* true -> false (Acquire / Relaxed)
     drop of Producer / Consumer: store has_* := true (Release)
   One step = one of these accesses.  Any number of threads; a thread may push only while it
   holds the producer handle (Rust: push is a &mut method of the non-clonable Producer). *)
From V Require Import model.Base model.Conc model.Events.
Open Scope N_scope.

Inductive qop := OAcqP | ORelP | OAcqC | ORelC | OPush (v : N) | OPop.

Inductive pc :=
| Idle
| PushLoadRp (v w : N)
| PushWrite (v w : N)
| PushStore (v w : N)
| PopLoadWp (r : N)
| PopRead (r : N)
| PopStore (r v : N).

Record lst := { prog : list qop; at_pc : pc; holdsP : bool; holdsC : bool }.

Record gst := {
  cap : N; wp : N; rp : N; slots : list N; hasP : bool; hasC : bool;
  (* ghost: never read by a step *)
  ownerP : option Datatypes.nat; ownerC : option Datatypes.nat;
  pushed : list N;   (* values of pushes that returned true, in StoreWp order *)
  popped : list N    (* values returned by pops, in StoreRp order *)
}.

(* location bases *)
Definition B_WP : N := 0.  Definition B_RP : N := 1.  Definition B_SLOT : N := 2.
Definition B_HASP : N := 3. Definition B_HASC : N := 4.

Definition set_lst (l : lst) (p : list qop) (c : pc) : lst :=
  {| prog := p; at_pc := c; holdsP := holdsP l; holdsC := holdsC l |}.

Definition step (t : nat) (g : gst) (l : lst) : option (gst * lst * list ev) :=
  match at_pc l with
  | Idle =>
    match prog l with
    | [] => None
    | OAcqP :: p =>
      if hasP g
      then Some ({| cap := cap g; wp := wp g; rp := rp g; slots := slots g; hasP := false; hasC := hasC g;
                    ownerP := Some t; ownerC := ownerC g; pushed := pushed g; popped := popped g |},
                 {| prog := p; at_pc := Idle; holdsP := true; holdsC := holdsC l |},
                 [EAcc 1 B_HASP 0 KCas Acquire Relaxed 1 0 true; ERet 1])
      else Some (g, set_lst l p Idle, [EAcc 1 B_HASP 0 KCas Acquire Relaxed 0 0 false; ERet 0])
    | ORelP :: p =>
      if holdsP l
      then Some ({| cap := cap g; wp := wp g; rp := rp g; slots := slots g; hasP := true; hasC := hasC g;
                    ownerP := None; ownerC := ownerC g; pushed := pushed g; popped := popped g |},
                 {| prog := p; at_pc := Idle; holdsP := false; holdsC := holdsC l |},
                 [EAcc 2 B_HASP 0 KStore Release Release 0 1 true; ERet 0])
      else Some (g, set_lst l p Idle, [])    (* nothing to drop *)
    | OAcqC :: p =>
      if hasC g
      then Some ({| cap := cap g; wp := wp g; rp := rp g; slots := slots g; hasP := hasP g; hasC := false;
                    ownerP := ownerP g; ownerC := Some t; pushed := pushed g; popped := popped g |},
                 {| prog := p; at_pc := Idle; holdsP := holdsP l; holdsC := true |},
                 [EAcc 3 B_HASC 0 KCas Acquire Relaxed 1 0 true; ERet 1])
      else Some (g, set_lst l p Idle, [EAcc 3 B_HASC 0 KCas Acquire Relaxed 0 0 false; ERet 0])
    | ORelC :: p =>
      if holdsC l
      then Some ({| cap := cap g; wp := wp g; rp := rp g; slots := slots g; hasP := hasP g; hasC := true;
                    ownerP := ownerP g; ownerC := None; pushed := pushed g; popped := popped g |},
                 {| prog := p; at_pc := Idle; holdsP := holdsP l; holdsC := false |},
                 [EAcc 4 B_HASC 0 KStore Release Release 0 1 true; ERet 0])
      else Some (g, set_lst l p Idle, [])
    | OPush v :: p =>
      if holdsP l
      then Some (g, set_lst l p (PushLoadRp v (wp g)), [EAcc 10 B_WP 0 KLoad Relaxed Relaxed (wp g) 0 true])
      else Some (g, set_lst l p Idle, [])    (* no handle: the call does not type-check in Rust; skipped *)
    | OPop :: p =>
      if holdsC l
      then Some (g, set_lst l p (PopLoadWp (rp g)), [EAcc 20 B_RP 0 KLoad Relaxed Relaxed (rp g) 0 true])
      else Some (g, set_lst l p Idle, [])
    end
  | PushLoadRp v w =>
    let e := EAcc 11 B_RP 0 KLoad Acquire Acquire (rp g) 0 true in
    if N.eqb w (rp g + cap g)
    then Some (g, set_lst l (prog l) Idle, [e; ERet 0])
    else Some (g, set_lst l (prog l) (PushWrite v w), [e])
  | PushWrite v w =>
    let i := N.modulo w (cap g) in
    Some ({| cap := cap g; wp := wp g; rp := rp g; slots := updN (slots g) i v; hasP := hasP g; hasC := hasC g;
             ownerP := ownerP g; ownerC := ownerC g; pushed := pushed g; popped := popped g |},
          set_lst l (prog l) (PushStore v w),
          [EAcc 12 B_SLOT i KCell NotAtomic NotAtomic 0 0 true])
  | PushStore v w =>
    Some ({| cap := cap g; wp := w + 1; rp := rp g; slots := slots g; hasP := hasP g; hasC := hasC g;
             ownerP := ownerP g; ownerC := ownerC g; pushed := pushed g ++ [v]; popped := popped g |},
          set_lst l (prog l) Idle,
          [EAcc 13 B_WP 0 KStore Release Release 0 (w + 1) true; ERet 1])
  | PopLoadWp r =>
    let e := EAcc 21 B_WP 0 KLoad Acquire Acquire (wp g) 0 true in
    if N.eqb r (wp g)
    then Some (g, set_lst l (prog l) Idle, [e; ERet 0])
    else Some (g, set_lst l (prog l) (PopRead r), [e])
  | PopRead r =>
    let i := N.modulo r (cap g) in
    Some (g, set_lst l (prog l) (PopStore r (nthN (slots g) i 0)),
          [EAcc 22 B_SLOT i KCell NotAtomic NotAtomic 0 0 true])
  | PopStore r v =>
    Some ({| cap := cap g; wp := wp g; rp := r + 1; slots := slots g; hasP := hasP g; hasC := hasC g;
             ownerP := ownerP g; ownerC := ownerC g; pushed := pushed g; popped := popped g ++ [v] |},
          set_lst l (prog l) Idle,
          [EAcc 23 B_RP 0 KStore Release Release 0 (r + 1) true; ERet (v + 1)])
  end.

Definition g_init (c : N) : gst :=
  {| cap := c; wp := 0; rp := 0; slots := repeat 0%N (N.to_nat c); hasP := true; hasC := true;
     ownerP := None; ownerC := None; pushed := []; popped := [] |}.

Definition l_init (p : list qop) : lst := {| prog := p; at_pc := Idle; holdsP := false; holdsC := false |}.

Definition init (c : N) (progs : nat -> list qop) : cfg gst lst := (g_init c, fun t => l_init (progs t)).

(* the abstract queue content: values at positions rp .. wp-1 *)
Fixpoint content_from (sl : list N) (c pos : N) (n : nat) : list N :=
  match n with
  | O => []
  | S k => nthN sl (N.modulo pos c) 0 :: content_from sl c (pos + 1) k
  end.
Definition content (g : gst) : list N := content_from (slots g) (cap g) (rp g) (N.to_nat (wp g - rp g)).
