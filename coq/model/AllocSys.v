(* C15 -- the dynamic data segment as a system: sender (DynamicMemory), receiver (DynamicView)
   and the set of outstanding offsets, driven in the order the ports enforce per offset:
   allocate (publisher loans) < register (subscriber receives) < unregister (subscriber drops
   the sample) < deallocate (publisher reclaims).  The `live` list is ghost state: the
   offsets that are allocated and not yet deallocated, with a flag "registered at the
   receiver".  resizable_shared_memory/dynamic.rs, port/details/data_segment.rs. *)
From V Require Import model.Base model.Alloc.
Open Scope N_scope.

Record chunk := { c_off : N; c_reg : bool }.
Record sys := { y_mem : dynmem; y_view : view; y_live : list chunk }.

Inductive sop := SAlloc (l : layout) | SSend (k : nat) | SRelease (k : nat) | SReclaim (k : nat).

Definition seg_exists (d : dynmem) (id : N) : bool :=
  match alookup id (d_segs d) with Some _ => true | None => false end.

Fixpoint set_reg (k : nat) (b : bool) (l : list chunk) : list chunk :=
  match l, k with
  | [], _ => []
  | c :: t, O => {| c_off := c_off c; c_reg := b |} :: t
  | c :: t, S j => c :: set_reg j b t
  end.

Fixpoint drop_nth {A} (k : nat) (l : list A) : list A :=
  match l, k with [], _ => [] | _ :: t, O => t | h :: t, S j => h :: drop_nth j t end.

(* Ok: the step was taken.  Stuck: the sender panicked / ran out of fuel inside the model (the
   process stops; nothing is handed out).  OpenFailed: the receiver could not resolve an
   offset that is still outstanding -- the failure the property excludes. *)
Inductive outcome := Ok (s : sys) | Stuck | OpenFailed.

Definition sys_step (s : sys) (o : sop) : outcome :=
  match o with
  | SAlloc l =>
    match dyn_allocate (y_mem s) l with
    | DVal (d', AOk off) => Ok {| y_mem := d'; y_view := y_view s; y_live := {| c_off := off; c_reg := false |} :: y_live s |}
    | DVal (d', AErr _) => Ok {| y_mem := d'; y_view := y_view s; y_live := y_live s |}
    | _ => Stuck
    end
  | SSend k =>
    match nth_error (y_live s) k with
    | Some c =>
      if c_reg c then Ok s else
      match view_register (seg_exists (y_mem s)) (y_view s) (c_off c) with
      | (v', Some _) => Ok {| y_mem := y_mem s; y_view := v'; y_live := set_reg k true (y_live s) |}
      | (_, None) => OpenFailed
      end
    | None => Ok s
    end
  | SRelease k =>
    match nth_error (y_live s) k with
    | Some c =>
      if c_reg c then Ok {| y_mem := y_mem s; y_view := view_unregister (y_view s) (c_off c);
                            y_live := set_reg k false (y_live s) |}
      else Ok s
    | None => Ok s
    end
  | SReclaim k =>
    match nth_error (y_live s) k with
    | Some c =>
      if c_reg c then Ok s else
      match dyn_deallocate (y_mem s) (c_off c) with
      | Val d' => Ok {| y_mem := d'; y_view := y_view s; y_live := drop_nth k (y_live s) |}
      | Panic => Stuck
      end
    | None => Ok s
    end
  end.

Fixpoint sys_run (s : sys) (ops : list sop) : outcome :=
  match ops with
  | [] => Ok s
  | o :: r => match sys_step s o with Ok s' => sys_run s' r | x => x end
  end.

Definition sys_init (d : dynmem) : sys := {| y_mem := d; y_view := view_new; y_live := [] |}.

Definition seg_of (c : chunk) : N := po_segment (c_off c).
