(* Step model of iceoryx2-bb/lock-free/src/mpmc/unique_index_set.rs (UniqueIndexSet /
   FixedSizeUniqueIndexSet): a tagged-pointer free-list stack.

     head : AtomicU64 = HeadDetails { head:24 | aba:16 | borrowed_indices:24 } packed by
            HeadDetails::value / unpacked by HeadDetails::from;  LOCK_ACQUIRE = 0x00ffffff
     next : [UnsafeCell<u32>; capacity + 1], initially next[i] = i + 1

     acquire_raw_index():
        old_value := head.load(Acquire); old := from(old_value)
        loop { if old.head >= capacity            return Err(OutOfIndices)
               if old.borrowed == LOCK_ACQUIRE    return Err(IsLocked)
               nx := *next[old.head].get()                        (racy plain read)
               new := value(nx, old.aba +w 1, old.borrowed + 1)
               CAS head old_value -> new (AcqRel / Acquire): Ok => break
                                                             Err(v) => old_value := v; old := from(v) }
        *next[old.head].get() := capacity + 1;  fence(Acquire);  return Ok(old.head)

     release_raw_index(index, mode):
        fence(Release); old_value := head.load(Acquire); old := from(old_value)
        loop { *next[index].get() := old.head
               b := if mode == LockIfLastIndex && old.borrowed == 1 { LOCK_ACQUIRE } else { old.borrowed - 1 }
               new := value(index, old.aba +w 1, b)
               CAS head old_value -> new (AcqRel / Acquire): Ok => return Locked/Unlocked
                                                             Err(v) => old_value := v; old := from(v) }

     borrowed_indices(): b := from(head.load(Relaxed)).borrowed; if b == LOCK_ACQUIRE {0} else {b}
     is_locked():        from(head.load(Relaxed)).borrowed == LOCK_ACQUIRE

   next[i] is reached through get_next_free_index(i) = data_ptr.as_ptr().offset(i).get(), and
   RelocatablePointer::as_ptr() loads its `distance` AtomicIsize (Relaxed): every cell access is
   preceded by that load (an immutable location after init; its value is a layout constant of
   the instance, `udist`).

   One step = one gated access (atomic op on head or distance, or UnsafeCell::get of a next cell).
   core::sync::atomic::fence is not gated by the drop-in: fences are no events.  debug_assert!
   loads (verify_init) do not exist in the harness build (debug-assertions off).
   `old.borrowed - 1` with borrowed = 0 is an arithmetic-overflow panic in a checked build: an
   explicit Panic outcome here. *)
From V Require Import model.Base model.Conc model.Events.
Open Scope N_scope.

(* ---------------- HeadDetails codec: the exact shifts and masks ---------------- *)
Definition M24 : N := 0xffffff.
Definition M16 : N := 0xffff.
Definition LOCK_ACQUIRE : N := 0xffffff.

(* HeadDetails::from *)
Definition hd_head (w : N) : N := N.land (N.shiftr w 40) M24.        (* ((value >> 40) as u32) & 0xffffff *)
Definition hd_aba (w : N) : N := N.land (N.shiftr w 24) M16.         (* (value >> 24) as u16 *)
Definition hd_borrowed (w : N) : N := N.land w M24.                  (* (value as u32) & 0xffffff *)
(* HeadDetails::value; aba is a u16 by type *)
Definition hd_value (h a b : N) : N :=
  N.lor (N.lor (N.shiftl (N.land h M24) 40) (N.shiftl a 24)) (N.land b M24).
Definition aba_succ (a : N) : N := N.modulo (a + 1) 65536.          (* u16::wrapping_add(1) *)

(* ---------------- return codes (shared with RobustIndexSet): tag + 8 * payload ---------------- *)
Definition rc (tag payload : N) : N := tag + 8 * payload.
Definition RC_OUT_OF_INDICES : N := rc 0 0.
Definition RC_IS_LOCKED : N := rc 0 1.
Definition rc_ok (i : N) : N := rc 1 i.
Definition RC_UNLOCKED : N := rc 2 0.
Definition RC_LOCKED : N := rc 2 1.
Definition RC_NOT_OWNED : N := rc 2 2.
Definition rc_borrowed (n : N) : N := rc 3 n.
Definition rc_is_locked (b : bool) : N := rc 4 (bool_code b).
Definition RC_PANIC : N := 18446744073709551615.

Inductive rmode := MDefault | MLockIfLast.

(* operations of a harness thread.  URel releases an index the thread holds: the oldest one
   (front = true) or the most recent one; with nothing held the op is skipped. *)
Inductive uop := UAcq | URel (m : rmode) (front : bool) | UBorrowed | UIsLocked.

(* ov = the head word last observed; u0 (ghost) = number of successful head updates at the
   moment ov was observed *)
Inductive upc :=
| UIdle
| AcqDist (ov u0 : N)
| AcqRead (ov u0 : N)
| AcqCas (ov nx u0 : N)
| AcqWDist (idx : N)
| AcqWrite (idx : N)
| RelDist (i : N) (m : rmode) (ov u0 : N)
| RelWrite (i : N) (m : rmode) (ov u0 : N)
| RelCas (i : N) (m : rmode) (ov u0 : N)
| UDead.                                  (* after a panic: the thread's body is gone *)

Record ulst := { uprog : list uop; upc_of : upc; uheld : list N }.

Record ugst := {
  ucap : N; udist : N; uhead : N; unext : list N;
  (* ghost, never read by the non-ghost part of a step *)
  updates : N;                             (* successful head CASes so far *)
  uown : list (option Datatypes.nat);      (* index -> thread owning it (from the acquire CAS to the release CAS) *)
  gfree : list N                           (* the abstract free list: head first *)
}.

Definition B_HEAD : N := 0.
Definition B_NEXT : N := 1.
Definition B_DIST : N := 2.

Definition set_u (l : ulst) (p : list uop) (c : upc) (h : list N) : ulst :=
  {| uprog := p; upc_of := c; uheld := h |}.

Definition upd_head (g : ugst) (w : N) (own : list (option Datatypes.nat)) (fr : list N) : ugst :=
  {| ucap := ucap g; udist := udist g; uhead := w; unext := unext g; updates := updates g + 1; uown := own; gfree := fr |}.
Definition upd_next (g : ugst) (i v : N) : ugst :=
  {| ucap := ucap g; udist := udist g; uhead := uhead g; unext := updN (unext g) i v; updates := updates g; uown := uown g; gfree := gfree g |}.

(* the thread-local part of acquire's loop head, given a freshly observed head word *)
Definition acq_dispatch (g : ugst) (l : ulst) (p : list uop) (ov : N) (e : ev) : ugst * ulst * list ev :=
  if N.leb (ucap g) (hd_head ov) then (g, set_u l p UIdle (uheld l), [e; ERet RC_OUT_OF_INDICES])
  else if N.eqb (hd_borrowed ov) LOCK_ACQUIRE then (g, set_u l p UIdle (uheld l), [e; ERet RC_IS_LOCKED])
  else (g, set_u l p (AcqDist ov (updates g)) (uheld l), [e]).

Definition rel_borrowed (m : rmode) (b : N) : res N :=
  match m with
  | MLockIfLast => if N.eqb b 1 then Val LOCK_ACQUIRE else if N.eqb b 0 then Panic else Val (b - 1)
  | MDefault => if N.eqb b 0 then Panic else Val (b - 1)
  end.
Definition rel_state (m : rmode) (b : N) : N :=
  match m with MLockIfLast => if N.eqb b 1 then RC_LOCKED else RC_UNLOCKED | MDefault => RC_UNLOCKED end.

Definition ustep (t : nat) (g : ugst) (l : ulst) : option (ugst * ulst * list ev) :=
  match upc_of l with
  | UDead => None
  | UIdle =>
    match uprog l with
    | [] => None
    | UAcq :: p =>
      Some (acq_dispatch g l p (uhead g) (EAcc 10 B_HEAD 0 KLoad Acquire Acquire (uhead g) 0 true))
    | URel m front :: p =>
      match (if front then uheld l else rev (uheld l)) with
      | [] => Some (g, set_u l p UIdle (uheld l), [])
      | i :: _ =>
        let h' := if front then tl (uheld l) else removelast (uheld l) in
        Some (g, set_u l p (RelDist i m (uhead g) (updates g)) h',
              [EAcc 20 B_HEAD 0 KLoad Acquire Acquire (uhead g) 0 true])
      end
    | UBorrowed :: p =>
      let b := hd_borrowed (uhead g) in
      Some (g, set_u l p UIdle (uheld l),
            [EAcc 30 B_HEAD 0 KLoad Relaxed Relaxed (uhead g) 0 true;
             ERet (rc_borrowed (if N.eqb b LOCK_ACQUIRE then 0 else b))])
    | UIsLocked :: p =>
      Some (g, set_u l p UIdle (uheld l),
            [EAcc 31 B_HEAD 0 KLoad Relaxed Relaxed (uhead g) 0 true;
             ERet (rc_is_locked (N.eqb (hd_borrowed (uhead g)) LOCK_ACQUIRE))])
    end
  | AcqDist ov u0 =>
    Some (g, set_u l (uprog l) (AcqRead ov u0) (uheld l), [EAcc 14 B_DIST 0 KLoad Relaxed Relaxed (udist g) 0 true])
  | AcqWDist idx =>
    Some (g, set_u l (uprog l) (AcqWrite idx) (uheld l), [EAcc 15 B_DIST 0 KLoad Relaxed Relaxed (udist g) 0 true])
  | RelDist i m ov u0 =>
    Some (g, set_u l (uprog l) (RelWrite i m ov u0) (uheld l), [EAcc 23 B_DIST 0 KLoad Relaxed Relaxed (udist g) 0 true])
  | AcqRead ov u0 =>
    let i := hd_head ov in
    Some (g, set_u l (uprog l) (AcqCas ov (nthN (unext g) i 0) u0) (uheld l),
          [EAcc 11 B_NEXT i KCell NotAtomic NotAtomic 0 0 true])
  | AcqCas ov nx u0 =>
    let new := hd_value nx (aba_succ (hd_aba ov)) (hd_borrowed ov + 1) in
    if N.eqb (uhead g) ov
    then Some (upd_head g new (updN (uown g) (hd_head ov) (Some t)) (tl (gfree g)),
               set_u l (uprog l) (AcqWDist (hd_head ov)) (uheld l),
               [EAcc 12 B_HEAD 0 KCas AcqRel Acquire ov new true])
    else Some (acq_dispatch g l (uprog l) (uhead g) (EAcc 12 B_HEAD 0 KCas AcqRel Acquire (uhead g) new false))
  | AcqWrite idx =>
    Some (upd_next g idx (ucap g + 1), set_u l (uprog l) UIdle (uheld l ++ [idx]),
          [EAcc 13 B_NEXT idx KCell NotAtomic NotAtomic 0 0 true; ERet (rc_ok idx)])
  | RelWrite i m ov u0 =>
    let e := EAcc 21 B_NEXT i KCell NotAtomic NotAtomic 0 0 true in
    match rel_borrowed m (hd_borrowed ov) with
    | Panic => Some (upd_next g i (hd_head ov), set_u l [] UDead (uheld l), [e; ERet RC_PANIC])
    | Val _ => Some (upd_next g i (hd_head ov), set_u l (uprog l) (RelCas i m ov u0) (uheld l), [e])
    end
  | RelCas i m ov u0 =>
    match rel_borrowed m (hd_borrowed ov) with
    | Panic => None
    | Val b' =>
      let new := hd_value i (aba_succ (hd_aba ov)) b' in
      if N.eqb (uhead g) ov
      then Some (upd_head g new (updN (uown g) i None) (i :: gfree g),
                 set_u l (uprog l) UIdle (uheld l),
                 [EAcc 22 B_HEAD 0 KCas AcqRel Acquire ov new true; ERet (rel_state m (hd_borrowed ov))])
      else Some (g, set_u l (uprog l) (RelDist i m (uhead g) (updates g)) (uheld l),
                 [EAcc 22 B_HEAD 0 KCas AcqRel Acquire (uhead g) new false])
    end
  end.

Fixpoint nseqN (start : N) (n : nat) : list N :=
  match n with O => [] | S k => start :: nseqN (start + 1) k end.

(* UniqueIndexSet::new_uninit + init: head = 0, next[i] = i + 1 for i in 0..=capacity *)
Definition ug_init (c dist : N) : ugst :=
  {| ucap := c; udist := dist; uhead := 0; unext := nseqN 1 (N.to_nat (c + 1));
     updates := 0; uown := repeat None (N.to_nat c); gfree := nseqN 0 (N.to_nat c) |}.
Definition ul_init (p : list uop) : ulst := {| uprog := p; upc_of := UIdle; uheld := [] |}.
Definition uinit (c dist : N) (progs : nat -> list uop) : cfg ugst ulst := (ug_init c dist, fun t => ul_init (progs t)).

(* ---------------- the hypothesis of the exclusivity theorem ---------------- *)
(* no pending head-CAS of thread-local state l spans 2^16 or more successful head updates *)
Definition tag_window_ok (g : ugst) (l : ulst) : Prop :=
  match upc_of l with
  | AcqDist _ u0 | AcqRead _ u0 | AcqCas _ _ u0 | RelDist _ _ _ u0 | RelWrite _ _ _ u0 | RelCas _ _ _ u0 => updates g - u0 < 65536
  | _ => True
  end.
Definition bounded_tag (c : cfg ugst ulst) : Prop := forall t, tag_window_ok (fst c) (snd c t).

(* configurations reachable through states that all satisfy P *)
Inductive reach_via {G L E : Type} (step : nat -> G -> L -> option (G * L * list E)) (P : cfg G L -> Prop)
          (init : cfg G L) : cfg G L -> Prop :=
| rv_init : P init -> reach_via step P init init
| rv_step : forall t c c' e, reach_via step P init c -> step1 step t c = Some (c', e) -> P c' ->
            reach_via step P init c'.

(* ---------------- reference notions the property is about ---------------- *)
(* indices a thread owns: those it holds plus the one in flight inside acquire (after its CAS)
   or inside release (until its CAS) *)
Definition inflight (l : ulst) : list N :=
  match upc_of l with
  | AcqWDist i | AcqWrite i | RelDist i _ _ _ | RelWrite i _ _ _ | RelCas i _ _ _ => [i]
  | _ => []
  end.
Definition owned_by (l : ulst) : list N := uheld l ++ inflight l.

(* the free list as a path through next: x is the current cell, fl the indices still to come *)
Fixpoint fpath (nx : list N) (cap x : N) (fl : list N) : Prop :=
  match fl with
  | [] => x = cap
  | y :: r => x = y /\ y < cap /\ fpath nx cap (nthN nx y 0) r
  end.

(* executable versions (used by the OCaml driver as an oracle on every visited state) *)
Fixpoint fpath_b (nx : list N) (cap x : N) (fl : list N) : bool :=
  match fl with
  | [] => N.eqb x cap
  | y :: r => N.eqb x y && N.ltb y cap && fpath_b nx cap (nthN nx y 0) r
  end.
Fixpoint nodup_b (l : list N) : bool :=
  match l with [] => true | x :: r => negb (existsb (N.eqb x) r) && nodup_b r end.
Definition count_owned (own : list (option Datatypes.nat)) : N :=
  lenN (filter (fun o => match o with Some _ => true | None => false end) own).
Definition uis_ginv_b (g : ugst) : bool :=
  let w := uhead g in
  fpath_b (unext g) (ucap g) (hd_head w) (gfree g) && nodup_b (gfree g) &&
  N.eqb (lenN (unext g)) (ucap g + 1) && N.eqb (lenN (uown g)) (ucap g) &&
  forallb (fun i => Bool.eqb (existsb (N.eqb i) (gfree g)) (match nthN (uown g) i None with None => true | Some _ => false end))
          (nseqN 0 (N.to_nat (ucap g))) &&
  N.eqb (hd_aba w) (N.modulo (updates g) 65536) &&
  (if N.eqb (hd_borrowed w) LOCK_ACQUIRE then N.eqb (lenN (gfree g)) (ucap g)
   else N.eqb (hd_borrowed w + lenN (gfree g)) (ucap g)) &&
  N.eqb (hd_value (hd_head w) (hd_aba w) (hd_borrowed w)) w.
Definition uis_linv_b (g : ugst) (t : nat) (l : ulst) : bool :=
  nodup_b (owned_by l) &&
  forallb (fun i => match nthN (uown g) i None with Some t' => Nat.eqb t t' | None => false end) (owned_by l).
