(* Executable model of the part of a POSIX file system that the file-based protocols of
   iceoryx2 rely on (DESIGN.md 3.2): regular files with existence, mode, content, link state
   (unlinked-but-open), per-process fcntl record locks (whole file; released when the owning
   process closes ANY descriptor of that file, or dies), O_CREAT|O_EXCL creation, directories,
   lowest-free descriptor numbers.  One function = one system call = one step of a protocol
   model.  Processes are natural numbers (the thread ids of model/Conc.v).

   An inode is named (path, generation): the n-th file ever created under a path has generation
   n.  An unlinked inode stays in the table (descriptors may still refer to it).

   Permission model: one user owns everything; `priv = true` is a process with CAP_DAC_OVERRIDE
   (root: every open succeeds regardless of the mode), `priv = false` an ordinary user (owner
   bits 0400 / 0200 decide).  Not modelled: other users, umask, EINTR, ENOSPC, symbolic links,
   partial reads/writes, F_SETLKW, byte ranges (every lock covers the whole file, as in
   file_descriptor.rs: l_start = l_len = 0). *)
From V Require Import model.Base.
Open Scope N_scope.

Inductive acc := ARd | AWr | ARdWr.
Inductive ltype := LRead | LWrite.
Inductive errno := ENOENT | EEXIST | EACCES | EAGAIN | EBADF | ENOTEMPTY.

Inductive fres (A : Type) := FOk (a : A) | FErr (e : errno).
Arguments FOk {A} a.
Arguments FErr {A} e.

Record inode := mkInode {
  i_path : N; i_gen : nat; i_mode : N; i_data : list N; i_linked : bool;
  i_locks : list (nat * ltype)          (* (process, lock type): at most one entry per process *)
}.
Record fdent := mkFd { fd_pid : nat; fd_num : N; fd_path : N; fd_gen : nat; fd_acc : acc }.
Record fs := mkFs { inodes : list inode; dirs : list N; fds : list fdent }.

Definition fs_empty (ds : list N) : fs := mkFs [] ds [].

Definition acc_reads (a : acc) : bool := match a with AWr => false | _ => true end.
Definition acc_writes (a : acc) : bool := match a with ARd => false | _ => true end.
Definition mode_r (m : N) : bool := N.testbit m 8.     (* 0400 *)
Definition mode_w (m : N) : bool := N.testbit m 7.     (* 0200 *)
Definition may_open (priv : bool) (m : N) (a : acc) : bool :=
  priv || ((negb (acc_reads a) || mode_r m) && (negb (acc_writes a) || mode_w m)).

Definition ltype_eqb (a b : ltype) : bool := match a, b with LRead, LRead | LWrite, LWrite => true | _, _ => false end.

(* ---- lookups ---- *)
Definition is_ino (p : N) (g : nat) (i : inode) : bool := N.eqb (i_path i) p && Nat.eqb (i_gen i) g.
Definition find_linked (p : N) (s : fs) : option inode :=
  find (fun i => N.eqb (i_path i) p && i_linked i) (inodes s).
Definition find_ino (p : N) (g : nat) (s : fs) : option inode := find (is_ino p g) (inodes s).
Definition gen_count (p : N) (s : fs) : nat := length (filter (fun i => N.eqb (i_path i) p) (inodes s)).
Definition map_ino (p : N) (g : nat) (f : inode -> inode) (s : fs) : fs :=
  mkFs (map (fun i => if is_ino p g i then f i else i) (inodes s)) (dirs s) (fds s).
Definition find_fd (pid : nat) (n : N) (s : fs) : option fdent :=
  find (fun d => Nat.eqb (fd_pid d) pid && N.eqb (fd_num d) n) (fds s).
Definition dir_exists (d : N) (s : fs) : bool := existsb (N.eqb d) (dirs s).

(* lowest descriptor number >= 3 that the process does not use *)
Fixpoint next_fd_from (fuel : nat) (pid : nat) (n : N) (s : fs) : N :=
  match fuel with
  | O => n
  | S k => match find_fd pid n s with None => n | Some _ => next_fd_from k pid (n + 1) s end
  end.
Definition next_fd (pid : nat) (s : fs) : N := next_fd_from (length (fds s)) pid 3 s.

(* ---- system calls ---- *)
(* open(2).  dir = the directory the name lives in; creat/excl = O_CREAT / O_EXCL *)
Definition fs_open (priv : bool) (pid : nat) (dir p : N) (a : acc) (creat excl : bool) (mode : N) (s : fs)
  : fres N * fs :=
  if negb (dir_exists dir s) then (FErr ENOENT, s) else
  match find_linked p s with
  | Some i =>
    if creat && excl then (FErr EEXIST, s)
    else if may_open priv (i_mode i) a
    then let n := next_fd pid s in
         (FOk n, mkFs (inodes s) (dirs s) (mkFd pid n p (i_gen i) a :: fds s))
    else (FErr EACCES, s)
  | None =>
    if creat
    then let g := S (gen_count p s) in
         let n := next_fd pid s in
         (FOk n, mkFs (mkInode p g mode [] true [] :: inodes s) (dirs s) (mkFd pid n p g a :: fds s))
    else (FErr ENOENT, s)
  end.

Definition drop_lock (pid : nat) (l : list (nat * ltype)) : list (nat * ltype) :=
  filter (fun e => negb (Nat.eqb (fst e) pid)) l.

(* close(2): the descriptor goes away and -- POSIX record-lock semantics -- EVERY fcntl lock
   the process holds on that file is released, whichever descriptor it was taken through *)
Definition fs_close (pid : nat) (n : N) (s : fs) : fres N * fs :=
  match find_fd pid n s with
  | None => (FErr EBADF, s)
  | Some d =>
    let s1 := mkFs (inodes s) (dirs s)
                   (filter (fun e => negb (Nat.eqb (fd_pid e) pid && N.eqb (fd_num e) n)) (fds s)) in
    (FOk 0, map_ino (fd_path d) (fd_gen d) (fun i => mkInode (i_path i) (i_gen i) (i_mode i) (i_data i) (i_linked i) (drop_lock pid (i_locks i))) s1)
  end.

(* unlink(2) / remove(3) of a regular file: the name goes, the inode stays for its descriptors *)
Definition fs_unlink (p : N) (s : fs) : fres N * fs :=
  match find_linked p s with
  | None => (FErr ENOENT, s)
  | Some i => (FOk 0, map_ino p (i_gen i) (fun j => mkInode (i_path j) (i_gen j) (i_mode j) (i_data j) false (i_locks j)) s)
  end.

Definition on_fd {A} (pid : nat) (n : N) (s : fs) (k : fdent -> inode -> fres A * fs) : fres A * fs :=
  match find_fd pid n s with
  | None => (FErr EBADF, s)
  | Some d => match find_ino (fd_path d) (fd_gen d) s with
              | None => (FErr EBADF, s)
              | Some i => k d i
              end
  end.

Definition fs_fchmod (pid : nat) (n : N) (mode : N) (s : fs) : fres N * fs :=
  on_fd pid n s (fun d i =>
    (FOk 0, map_ino (fd_path d) (fd_gen d) (fun j => mkInode (i_path j) (i_gen j) mode (i_data j) (i_linked j) (i_locks j)) s)).

(* fstat(2): (permission bits, link count, size in values) *)
Definition fs_fstat (pid : nat) (n : N) (s : fs) : fres (N * N * N) * fs :=
  on_fd pid n s (fun d i => (FOk (i_mode i, if i_linked i then 1 else 0, lenN (i_data i)), s)).

(* read(2) of one value from the start of the file: None = end of file (short read) *)
Definition fs_read (pid : nat) (n : N) (s : fs) : fres (option N) * fs :=
  on_fd pid n s (fun d i => if acc_reads (fd_acc d) then (FOk (hd_error (i_data i)), s) else (FErr EBADF, s)).

Definition fs_write (pid : nat) (n : N) (v : N) (s : fs) : fres N * fs :=
  on_fd pid n s (fun d i =>
    if acc_writes (fd_acc d)
    then (FOk 1, map_ino (fd_path d) (fd_gen d) (fun j => mkInode (i_path j) (i_gen j) (i_mode j) (i_data j ++ [v]) (i_linked j) (i_locks j)) s)
    else (FErr EBADF, s)).

Definition conflicts (pid : nat) (want : ltype) (e : nat * ltype) : bool :=
  negb (Nat.eqb (fst e) pid) && (ltype_eqb want LWrite || ltype_eqb (snd e) LWrite).

(* fcntl(F_SETLK) with l_type = F_RDLCK / F_WRLCK, whole file, non-blocking *)
Definition fs_setlk (pid : nat) (n : N) (want : ltype) (s : fs) : fres N * fs :=
  on_fd pid n s (fun d i =>
    if negb (match want with LWrite => acc_writes (fd_acc d) | LRead => acc_reads (fd_acc d) end) then (FErr EBADF, s)
    else if existsb (conflicts pid want) (i_locks i) then (FErr EAGAIN, s)
    else (FOk 0, map_ino (fd_path d) (fd_gen d) (fun j => mkInode (i_path j) (i_gen j) (i_mode j) (i_data j) (i_linked j) ((pid, want) :: drop_lock pid (i_locks j))) s)).

(* fcntl(F_SETLK) with l_type = F_UNLCK *)
Definition fs_unlk (pid : nat) (n : N) (s : fs) : fres N * fs :=
  on_fd pid n s (fun d i =>
    (FOk 0, map_ino (fd_path d) (fd_gen d) (fun j => mkInode (i_path j) (i_gen j) (i_mode j) (i_data j) (i_linked j) (drop_lock pid (i_locks j))) s)).

(* fcntl(F_GETLK): a lock of ANOTHER process that would block `want`, if any.  The caller's own
   locks are never reported. *)
Definition fs_getlk (pid : nat) (n : N) (want : ltype) (s : fs) : fres (option (ltype * nat)) * fs :=
  on_fd pid n s (fun d i =>
    (FOk (match find (conflicts pid want) (i_locks i) with Some (q, l) => Some (l, q) | None => None end), s)).

(* access(path, F_OK) / stat(path) of a regular file *)
Definition fs_exists (p : N) (s : fs) : bool := match find_linked p s with Some _ => true | None => false end.

Definition fs_mkdir (d : N) (s : fs) : fres N * fs :=
  if dir_exists d s then (FErr EEXIST, s) else (FOk 0, mkFs (inodes s) (d :: dirs s) (fds s)).
Definition fs_rmdir (d : N) (s : fs) : fres N * fs :=
  if dir_exists d s then (FOk 0, mkFs (inodes s) (filter (fun x => negb (N.eqb x d)) (dirs s)) (fds s)) else (FErr ENOENT, s).

(* death of a process (SIGKILL, crash, _exit): the kernel closes every descriptor, hence
   releases every record lock of the process *)
Definition fs_crash (pid : nat) (s : fs) : fs :=
  mkFs (map (fun i => mkInode (i_path i) (i_gen i) (i_mode i) (i_data i) (i_linked i) (drop_lock pid (i_locks i))) (inodes s))
       (dirs s)
       (filter (fun e => negb (Nat.eqb (fd_pid e) pid)) (fds s)).

(* observation used by the tie: the linked names with their modes, sorted by the consumer *)
Definition fs_listing (s : fs) : list (N * N) :=
  map (fun i => (i_path i, i_mode i)) (filter i_linked (inodes s)).
Definition holds_lock (pid : nat) (p : N) (g : nat) (s : fs) : bool :=
  match find_ino p g s with Some i => existsb (fun e => Nat.eqb (fst e) pid) (i_locks i) | None => false end.
