(* One zero-copy connection: the SEQUENTIAL specification of
   iceoryx2-cal/src/zero_copy_connection/common.rs (SharedManagementData + Sender + Receiver)
   for one channel and one (static) data segment, as the code is NOW.

     Channel::submission_queue  (SafelyOverflowingIndexQueue, capacity = buffer_size)     -> c_sub
     Channel::completion_queue  (IndexQueue, capacity = buffer_size + max_borrowed + 1)   -> c_comp
     SegmentDetails::used_chunk_list (one AtomicBool per chunk)                           -> c_used
     Receiver::borrow_counter[0] (receiver-local usize)                                   -> c_borrow
     SharedManagementData::{max_borrowed_samples, enable_safe_overflow,
                            number_of_samples_per_segment}                                -> c_M c_ovf c_n
     SharedManagementData::state bits State::Sender / State::Receiver                     -> c_snd c_rcv

   That the two lock-free queues ARE a FIFO / a FIFO that evicts exactly its oldest element
   is C03's theorem (props/C03.v); here they are lists (oldest first).  A PointerOffset is
   (chunk index * chunk size, segment 0); the model uses the chunk index (`off`).

   Ghost: every submission-queue entry carries the send index (position in the sender's send
   log) of the send that put it there.  It is never read by any function below except to be
   copied (q_of / the ghost component of what receive returns). *)
From V Require Import model.Base.

Notation off := nat (only parsing).   (* chunk index *)

Record qent := { q_off : off; q_idx : nat (* ghost *) }.

Record conn := {
  c_sub : list qent;
  c_comp : list off;
  c_used : list off;
  c_borrow : nat;
  c_B : nat;
  c_M : nat;
  c_ovf : bool;
  c_n : nat;
  c_snd : bool;
  c_rcv : bool }.

Definition mem_off (o : off) (l : list off) : bool := existsb (Nat.eqb o) l.
Definition rm_off (o : off) (l : list off) : list off := filter (fun x => negb (Nat.eqb o x)) l.

(* Builder: buffer_size.clamp(1, MAX), receiver_max_borrowed_chunks_per_channel.clamp(1, MAX),
   number_of_chunks_per_segment.clamp(1, MAX); queues empty, all flags false, state None *)
Definition conn_new (b m : nat) (ovf : bool) (n : nat) : conn :=
  {| c_sub := []; c_comp := []; c_used := []; c_borrow := 0;
     c_B := Nat.max 1 b; c_M := Nat.max 1 m; c_ovf := ovf; c_n := Nat.max 1 n;
     c_snd := false; c_rcv := false |}.

Definition comp_cap (c : conn) : nat := c_B c + c_M c + 1.   (* completion_queue_size() *)

Definition set_sub_used (c : conn) (s : list qent) (u : list off) : conn :=
  {| c_sub := s; c_comp := c_comp c; c_used := u; c_borrow := c_borrow c; c_B := c_B c; c_M := c_M c;
     c_ovf := c_ovf c; c_n := c_n c; c_snd := c_snd c; c_rcv := c_rcv c |}.
Definition set_comp_used (c : conn) (q : list off) (u : list off) : conn :=
  {| c_sub := c_sub c; c_comp := q; c_used := u; c_borrow := c_borrow c; c_B := c_B c; c_M := c_M c;
     c_ovf := c_ovf c; c_n := c_n c; c_snd := c_snd c; c_rcv := c_rcv c |}.
Definition set_sub_borrow (c : conn) (s : list qent) (b : nat) : conn :=
  {| c_sub := s; c_comp := c_comp c; c_used := c_used c; c_borrow := b; c_B := c_B c; c_M := c_M c;
     c_ovf := c_ovf c; c_n := c_n c; c_snd := c_snd c; c_rcv := c_rcv c |}.
Definition set_comp_borrow (c : conn) (q : list off) (b : nat) : conn :=
  {| c_sub := c_sub c; c_comp := q; c_used := c_used c; c_borrow := b; c_B := c_B c; c_M := c_M c;
     c_ovf := c_ovf c; c_n := c_n c; c_snd := c_snd c; c_rcv := c_rcv c |}.
Definition set_ports (c : conn) (s r : bool) : conn :=
  {| c_sub := c_sub c; c_comp := c_comp c; c_used := c_used c; c_borrow := c_borrow c; c_B := c_B c; c_M := c_M c;
     c_ovf := c_ovf c; c_n := c_n c; c_snd := s; c_rcv := r |}.

Definition c_is_connected (c : conn) : bool := c_snd c && c_rcv c.   (* is_connected() *)
Definition c_is_full (c : conn) : bool := Nat.eqb (length (c_sub c)) (c_B c).
Definition c_has_data (c : conn) : bool := match c_sub c with [] => false | _ => true end.

Inductive send_res :=
| SOk (evicted : option off)     (* Ok(None) / Ok(Some(old)) *)
| SBufferFull                    (* ZeroCopySendError::ReceiveBufferFull *)
| SCorrupted                     (* ZeroCopySendError::ConnectionCorrupted *)
| SNoReceiver                    (* ZeroCopySendError::NoConnectedReceiverAndBufferIsFull *)
| SUnableToDeliver               (* ZeroCopySendError::UnableToDeliver *)
| SBlocks.                       (* the call does not return (wait_while never ends) *)

(* Sender::try_send, in the code's order:
     1. !enable_safe_overflow && submission_queue.is_full()      -> ReceiveBufferFull
     2. used_chunk_list.insert(index)  (debug_assert!(did_not_send_same_offset_twice); the flag
        array has c_n entries: debug_assert!(idx < capacity))
     3. submission_queue.push(ptr): Some(old) iff the queue was full (overflow)
     4. on Some(old): used_chunk_list.remove(old) must be true, else ConnectionCorrupted
   The harness workspace is built with debug-assertions, so 2. is a Panic outcome. *)
Definition c_try_send (c : conn) (o : off) (gi : nat) : res (conn * send_res) :=
  if negb (c_ovf c) && c_is_full c then Val (c, SBufferFull) else
  if Nat.leb (c_n c) o then Panic else
  if mem_off o (c_used c) then Panic else
  let used1 := o :: c_used c in
  let e := {| q_off := o; q_idx := gi |} in
  if Nat.ltb (length (c_sub c)) (c_B c) then Val (set_sub_used c (c_sub c ++ [e]) used1, SOk None)
  else match c_sub c with
       | [] => Panic                     (* capacity 0: excluded by the clamp in conn_new *)
       | old :: rest =>
         if mem_off (q_off old) used1
         then Val (set_sub_used c (rest ++ [e]) (rm_off (q_off old) used1), SOk (Some (q_off old)))
         else Val (set_sub_used c (rest ++ [e]) used1, SCorrupted)
       end.

(* BackpressureToReceiverAction, the answers of the handler closure of blocking_send *)
Inductive bp_action := BFollow | BRetry | BDiscard | BDiscardFail.

(* the handler as a function of the retry counter (the only argument that varies in a
   sequential run): a finite script, then `last` for ever *)
Record hscript := { h_script : list bp_action; h_last : bp_action }.
Definition h_at (h : hscript) (k : nat) : bp_action := nth k (h_script h) (h_last h).

Inductive wait_res := WAbort (do_fail : bool) | WForever.

(* the wait_while closure of blocking_send while nothing else runs: connected, channel open and
   queue full stay true, so only the handler decides.  fuel = script length + 1 suffices
   (after the script every call answers h_last). *)
Fixpoint wait_loop (fuel : nat) (h : hscript) (strategy_retry : bool) (k : nat) : wait_res :=
  match fuel with
  | O => WForever
  | S f =>
    match h_at h k with
    | BFollow => if strategy_retry then WForever (* retry_until_delivered = true *) else WAbort false
    | BRetry => wait_loop f h strategy_retry (S k)
    | BDiscard => WAbort false
    | BDiscardFail => WAbort true
    end
  end.

(* Sender::blocking_send(ptr, .., handler, backpressure_action_for_strategy) *)
Definition c_blocking_send (c : conn) (o : off) (gi : nat) (h : hscript) (strategy_retry : bool)
  : res (conn * send_res) :=
  if negb (c_ovf c) && c_is_full c then
    if negb (c_is_connected c) then Val (c, SNoReceiver)   (* first closure call: WAIT_ABORT, !is_connected *)
    else match wait_loop (S (length (h_script h))) h strategy_retry 0 with
         | WForever => Val (c, SBlocks)
         | WAbort true => Val (c, SUnableToDeliver)
         | WAbort false => c_try_send c o gi                (* = ReceiveBufferFull: still full *)
         end
  else c_try_send c o gi.

Inductive recv_res := RcvOk (e : option qent) | RcvExceedsMaxBorrow.

(* Receiver::receive: borrow_counter >= max_borrowed_samples -> ReceiveWouldExceedMaxBorrowValue;
   else pop; Some => borrow_counter += 1 *)
Definition c_receive (c : conn) : conn * recv_res :=
  if Nat.leb (c_M c) (c_borrow c) then (c, RcvExceedsMaxBorrow) else
  match c_sub c with
  | [] => (c, RcvOk None)
  | e :: rest => (set_sub_borrow c rest (S (c_borrow c)), RcvOk (Some e))
  end.

(* Receiver::release: completion_queue.push; true => borrow_counter -= 1 (usize: underflow is a
   Panic with overflow checks on); false => RetrieveBufferFull *)
Definition c_release (c : conn) (o : off) : res (conn * bool) :=
  if Nat.ltb (length (c_comp c)) (comp_cap c) then
    match c_borrow c with
    | O => Panic
    | S b => Val (set_comp_borrow c (c_comp c ++ [o]) b, true)
    end
  else Val (c, false).

Inductive reclaim_res := RNone | RSome (o : off) | RCorrupt.

(* Sender::reclaim: completion_queue.pop; used_chunk_list.remove(index) must be true *)
Definition c_reclaim (c : conn) : conn * reclaim_res :=
  match c_comp c with
  | [] => (c, RNone)
  | o :: rest =>
    if mem_off o (c_used c) then (set_comp_used c rest (rm_off o (c_used c)), RSome o)
    else (set_comp_used c rest (c_used c), RCorrupt)
  end.

(* Sender::acquire_used_offsets: used_chunk_list.remove_all, ascending index order *)
Definition c_acquire_used (c : conn) : conn * list off :=
  (set_comp_used c (c_comp c) [], filter (fun i => mem_off i (c_used c)) (seq 0 (c_n c))).

(* ---- reference: what a connection is for the property (per-pair buffer) --------------------
   a bounded FIFO of send indices: push keeps the newest B with overflow, refuses when full
   without it. *)
Definition ref_push (ovf : bool) (b : nat) (q : list nat) (i : nat) : list nat * bool :=
  if Nat.ltb (length q) b then (q ++ [i], true)
  else if ovf then (tl q ++ [i], true) else (q, false).
