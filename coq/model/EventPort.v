(* Port level of the event messaging pattern: iceoryx2/src/port/notifier.rs
   Notifier::__internal_notify (fan-out over the per-listener connection slots; the slot of a
   listener that is gone is None) and iceoryx2/src/port/listener.rs Listener::try_wait, over the
   recommended event concept (counting bit set: pending occurrences per id).
     notify(id): update_connections(); id > event_id_max => Err(EventIdOutOfBounds);
                 for i in 0..len { if let Some(connection) = get(i) { connection.notifier.notify(id): Ok => count += 1 } }
                 Ok(count)
   Reference spec (what the property is about): a notify that returns Ok(n) reached every one of
   the n listeners attached at that time, each of which obtains the id from its next drain. *)
From V Require Import model.Base.
Open Scope N_scope.

(* pending occurrences of one listener: (id, count) sorted by id, counts > 0 *)
Fixpoint pend_add (i : N) (l : list (N * N)) : list (N * N) :=
  match l with
  | [] => [(i, 1)]
  | (j, c) :: r => if N.eqb i j then (j, c + 1) :: r else if N.ltb i j then (i, 1) :: l else (j, c) :: pend_add i r
  end.

(* ---- slot level: the connection array of one notifier ---- *)
Definition slot := option (list (N * N)).      (* None: no listener in this slot *)

(* the fan-out of __internal_notify: every occupied slot, whatever the occupancy pattern *)
Fixpoint fanout (i : N) (s : list slot) : list slot * N :=
  match s with
  | [] => ([], 0)
  | None :: r => let '(r', n) := fanout i r in (None :: r', n)
  | Some p :: r => let '(r', n) := fanout i r in (Some (pend_add i p) :: r', n + 1)
  end.

(* the variant that stops at the first empty slot (map_while over the slots): NOT the code *)
Fixpoint fanout_prefix (i : N) (s : list slot) : list slot * N :=
  match s with
  | [] => ([], 0)
  | None :: r => (None :: r, 0)
  | Some p :: r => let '(r', n) := fanout_prefix i r in (Some (pend_add i p) :: r', n + 1)
  end.

Definition occupied (s : list slot) : N := N.of_nat (length (filter (fun x => match x with Some _ => true | None => false end) s)).

(* ---- reference spec over listener handles (slot independent) ---- *)
Inductive pop := PCreateL (k : N) | PDropL (k : N) | PCreateN | PDropN | PNotify (i : N) | PWait (k : N).
Inductive pobs := POk | PErr | PSkip | PCount (n : N) | POob | PIds (l : list (N * N)).

Record pst := { p_maxl : N; p_idmax : N; p_ls : list (N * list (N * N)); p_n : bool }.

Fixpoint ls_find (k : N) (l : list (N * list (N * N))) : option (list (N * N)) :=
  match l with [] => None | (j, p) :: r => if N.eqb j k then Some p else ls_find k r end.
Fixpoint ls_remove (k : N) (l : list (N * list (N * N))) : list (N * list (N * N)) :=
  match l with [] => [] | (j, p) :: r => if N.eqb j k then r else (j, p) :: ls_remove k r end.
Fixpoint ls_set (k : N) (v : list (N * N)) (l : list (N * list (N * N))) : list (N * list (N * N)) :=
  match l with [] => [] | (j, p) :: r => if N.eqb j k then (j, v) :: r else (j, p) :: ls_set k v r end.

Definition set_ls (s : pst) (l : list (N * list (N * N))) : pst := {| p_maxl := p_maxl s; p_idmax := p_idmax s; p_ls := l; p_n := p_n s |}.
Definition set_n (s : pst) (b : bool) : pst := {| p_maxl := p_maxl s; p_idmax := p_idmax s; p_ls := p_ls s; p_n := b |}.

Definition pstep (s : pst) (o : pop) : pst * pobs :=
  match o with
  | PCreateL k =>
    match ls_find k (p_ls s) with
    | Some _ => (s, PSkip)
    | None => if N.ltb (lenN (p_ls s)) (p_maxl s) then (set_ls s (p_ls s ++ [(k, [])]), POk) else (s, PErr)
    end
  | PDropL k => match ls_find k (p_ls s) with Some _ => (set_ls s (ls_remove k (p_ls s)), POk) | None => (s, PSkip) end
  | PCreateN => if p_n s then (s, PSkip) else (set_n s true, POk)
  | PDropN => if p_n s then (set_n s false, POk) else (s, PSkip)
  | PNotify i =>
    if p_n s then
      if N.ltb (p_idmax s) i then (s, POob)
      else (set_ls s (map (fun kp => (fst kp, pend_add i (snd kp))) (p_ls s)), PCount (lenN (p_ls s)))
    else (s, PSkip)
  | PWait k => match ls_find k (p_ls s) with Some p => (set_ls s (ls_set k [] (p_ls s)), PIds p) | None => (s, PSkip) end
  end.

Definition pinit (maxl idmax : N) : pst := {| p_maxl := maxl; p_idmax := idmax; p_ls := []; p_n := false |}.
