(* C11 -- request-response ports of iceoryx2 at API-call granularity, shared connection state
   (channel-state word, submission / completion queues, borrow counters, reference counts) at
   the granularity of the individual accesses the calls make.  Self-contained (does not use
   Conn.v / Port.v).  Transcribed from, as the code is NOW:
     iceoryx2-cal/src/zero_copy_connection/mod.rs   ChannelState, set_channel_state,
                                                    set_disconnect_hint, has_disconnect_hint,
                                                    has_channel_state, is_channel_closed, close_channel
     iceoryx2-cal/src/zero_copy_connection/common.rs try_send / receive / release / reclaim /
                                                    acquire_used_offsets (one submission +
                                                    completion queue pair per channel)
     iceoryx2/src/port/client.rs                    loan_chunk, send_request, release_request,
                                                    next_request_id, force_update_connections
     iceoryx2/src/port/server.rs                    receive, force_update_connections
     iceoryx2/src/port/details/{sender,receiver}.rs allocate, deliver_offset(_to_connection),
                                                    retrieve_returned_chunks, remove_connection,
                                                    receive, release_offset, prepare_connection_removal
     iceoryx2/src/{request_mut,pending_response,active_request,response,response_mut}.rs
     iceoryx2/src/service/static_config/request_response.rs  required_amount_of_chunks_*
   What is NOT modelled (named in tools/claims/C11.json): the order in which a receiver polls
   its connections (slot-map key order; the model takes the order as a parameter `ord` and every
   theorem holds for every order), the expired-connection buffer capacity (128), blocking
   sends (both ports use DiscardData), the completion queue capacity, chunk addresses (a chunk
   is identified with the message it carries; only the number of chunks in use matters). *)
From V Require Import model.Base.
Open Scope N_scope.

(* ---------------------------------------------------------------------------------------- *)
(* zero_copy_connection/mod.rs: the channel-state word                                       *)
Definition TWO64 : N := 18446744073709551616.
Definition CH_OPEN : N := 0.
Definition CH_CLOSED : N := TWO64 - 1.                       (* u64::MAX *)
Definition HINT_BIT : N := 9223372036854775808.              (* 1 << 63 *)
Definition RID_MAX : N := 4611686018427387904.               (* ChannelState::max_value() = 2^62 *)

(* compare_exchange(expected, new): (new value, Ok? , value seen) *)
Definition cas (cur expected new : N) : N * bool := if N.eqb cur expected then (new, true) else (cur, false).

(* set_channel_state: CAS(CLOSED -> state) *)
Definition ch_set_state (cur st : N) : N * bool := cas cur CH_CLOSED st.
(* set_disconnect_hint: CAS(expected -> expected | HINT) *)
Definition ch_set_hint (cur expected : N) : N := fst (cas cur expected (N.lor expected HINT_BIT)).
(* has_disconnect_hint *)
Definition ch_has_hint (cur expected : N) : bool := N.eqb (N.lor expected HINT_BIT) cur.
(* has_channel_state: expected == state & !HINT *)
Definition ch_has_state (cur expected : N) : bool := N.eqb expected (N.ldiff cur HINT_BIT).
Definition ch_is_closed (cur : N) : bool := N.eqb cur CH_CLOSED.
(* close_channel: CAS(expected -> CLOSED); on failure with v == expected|HINT: CAS(v -> CLOSED) *)
Definition ch_close (cur expected : N) : N :=
  let '(v, ok) := cas cur expected CH_CLOSED in
  if ok then v else
  let g := N.lor expected HINT_BIT in
  if N.eqb cur g then fst (cas cur g CH_CLOSED) else cur.

(* ---------------------------------------------------------------------------------------- *)
Record cfg := mkCfg { MA : N; ML : N; RB : N; MB : N; MLR : N; MS : N; MC : N;
                      ovq : bool; ovr : bool; faf : bool; pre : N }.

(* static_config/request_response.rs *)
Definition nch (g : cfg) : N := MS g * (MA g + MA g) + ML g.      (* required_amount_of_chunks_per_client_data_segment *)
Definition nreq (g : cfg) : N := if N.eqb (pre g) 0 then nch g else N.max 1 (N.min (pre g) (nch g)).
Definition nresp (g : cfg) : N := MC g * (MA g + MA g) * (RB g + MB g + MLR g).
Definition cl_max_borrow (g : cfg) : N := ML g + MA g + MA g.     (* required_max_borrowed_chunks_per_client *)
Definition sv_max_borrow (g : cfg) : N := MLR g * MA g * MC g.    (* server.rs sender_max_borrowed_chunks *)

Record reqmsg := { q_id : N; q_cl : N; q_rid : N; q_ch : N; q_hid : N; q_stamp : N }.
Record rspmsg := { p_id : N; p_sv : N; p_rid : N; p_val : N; p_ocl : N; p_stamp : N }.

Record chan := { c_state : N; c_sub : list rspmsg; c_bor : list rspmsg; c_comp : list rspmsg }.

Inductive view := VNone | VActive | VRetained.
Definition view_on (v : view) : bool := match v with VNone => false | _ => true end.
Definition view_active (v : view) : bool := match v with VActive => true | _ => false end.
Definition view_retained (v : view) : bool := match v with VRetained => true | _ => false end.

(* one (client, server) pair: the request connection (channel 0) and the response connection *)
Record conn := { k_cl : N; k_sv : N; k_cv : view; k_svw : view;
                 k_rsub : list reqmsg; k_rbor : list reqmsg; k_rcomp : list reqmsg;
                 k_ch : list chan }.

Record client := { cl_inst : N; cl_obj : bool; cl_avail : list N; cl_ridc : N; cl_active : N;
                   cl_loans : N; cl_sloans : N; cl_rc : list (N * N) }.
Record server := { sv_inst : N; sv_obj : bool; sv_sloans : N; sv_rc : list (N * N);
                   sv_conns : list (option N) }.

Record loanrec := { ln_cl : N; ln_msg : reqmsg }.
Record pendrec := { pn_cl : N; pn_msg : reqmsg; pn_n : N }.
Record actrec := { ac_uid : N; ac_sv : N; ac_slot : N; ac_idx : option N; ac_msg : reqmsg;
                   ac_seq : N; ac_loans : N }.
Record resprec := { rs_cl : N; rs_sv : N; rs_ch : N; rs_msg : rspmsg }.
Record rloanrec := { rl_sv : N; rl_idx : option N; rl_ch : N; rl_msg : rspmsg; rl_act : N }.

Record state := {
  s_next : N; s_hid : N;
  s_cslot : list (option N); s_sslot : list (option N);
  s_creg : list (option N); s_sreg : list N;
  s_clients : list client; s_servers : list server; s_conns : list conn;
  s_loans : list loanrec; s_pends : list pendrec; s_acts : list actrec;
  s_resps : list resprec; s_rloans : list rloanrec;
  (* ghost *)
  s_rlog : list (pendrec * rspmsg);
  s_slog : list (N * reqmsg);
  s_idxlog : list (N * N) }.

Definition init (g : cfg) : state :=
  {| s_next := 0; s_hid := 0; s_cslot := [None; None]; s_sslot := [None; None];
     s_creg := repeat None (N.to_nat (MC g)); s_sreg := [];
     s_clients := []; s_servers := []; s_conns := [];
     s_loans := []; s_pends := []; s_acts := []; s_resps := []; s_rloans := [];
     s_rlog := []; s_slog := []; s_idxlog := [] |}.

(* --- record updates ----------------------------------------------------------------------- *)
Definition st_conns (s : state) (c : list conn) : state :=
  {| s_next := s_next s; s_hid := s_hid s; s_cslot := s_cslot s; s_sslot := s_sslot s; s_creg := s_creg s;
     s_sreg := s_sreg s; s_clients := s_clients s; s_servers := s_servers s; s_conns := c;
     s_loans := s_loans s; s_pends := s_pends s; s_acts := s_acts s; s_resps := s_resps s; s_rloans := s_rloans s;
     s_rlog := s_rlog s; s_slog := s_slog s; s_idxlog := s_idxlog s |}.
Definition st_clients (s : state) (c : list client) : state :=
  {| s_next := s_next s; s_hid := s_hid s; s_cslot := s_cslot s; s_sslot := s_sslot s; s_creg := s_creg s;
     s_sreg := s_sreg s; s_clients := c; s_servers := s_servers s; s_conns := s_conns s;
     s_loans := s_loans s; s_pends := s_pends s; s_acts := s_acts s; s_resps := s_resps s; s_rloans := s_rloans s;
     s_rlog := s_rlog s; s_slog := s_slog s; s_idxlog := s_idxlog s |}.
Definition st_servers (s : state) (c : list server) : state :=
  {| s_next := s_next s; s_hid := s_hid s; s_cslot := s_cslot s; s_sslot := s_sslot s; s_creg := s_creg s;
     s_sreg := s_sreg s; s_clients := s_clients s; s_servers := c; s_conns := s_conns s;
     s_loans := s_loans s; s_pends := s_pends s; s_acts := s_acts s; s_resps := s_resps s; s_rloans := s_rloans s;
     s_rlog := s_rlog s; s_slog := s_slog s; s_idxlog := s_idxlog s |}.
Definition st_next (s : state) (n : N) : state :=
  {| s_next := n; s_hid := s_hid s; s_cslot := s_cslot s; s_sslot := s_sslot s; s_creg := s_creg s;
     s_sreg := s_sreg s; s_clients := s_clients s; s_servers := s_servers s; s_conns := s_conns s;
     s_loans := s_loans s; s_pends := s_pends s; s_acts := s_acts s; s_resps := s_resps s; s_rloans := s_rloans s;
     s_rlog := s_rlog s; s_slog := s_slog s; s_idxlog := s_idxlog s |}.
Definition st_hid (s : state) (n : N) : state :=
  {| s_next := s_next s; s_hid := n; s_cslot := s_cslot s; s_sslot := s_sslot s; s_creg := s_creg s;
     s_sreg := s_sreg s; s_clients := s_clients s; s_servers := s_servers s; s_conns := s_conns s;
     s_loans := s_loans s; s_pends := s_pends s; s_acts := s_acts s; s_resps := s_resps s; s_rloans := s_rloans s;
     s_rlog := s_rlog s; s_slog := s_slog s; s_idxlog := s_idxlog s |}.
Definition st_objs (s : state) (lo : list loanrec) (pe : list pendrec) (ac : list actrec) (re : list resprec) (rl : list rloanrec) : state :=
  {| s_next := s_next s; s_hid := s_hid s; s_cslot := s_cslot s; s_sslot := s_sslot s; s_creg := s_creg s;
     s_sreg := s_sreg s; s_clients := s_clients s; s_servers := s_servers s; s_conns := s_conns s;
     s_loans := lo; s_pends := pe; s_acts := ac; s_resps := re; s_rloans := rl;
     s_rlog := s_rlog s; s_slog := s_slog s; s_idxlog := s_idxlog s |}.
Definition st_loans s x := st_objs s x (s_pends s) (s_acts s) (s_resps s) (s_rloans s).
Definition st_pends s x := st_objs s (s_loans s) x (s_acts s) (s_resps s) (s_rloans s).
Definition st_acts s x := st_objs s (s_loans s) (s_pends s) x (s_resps s) (s_rloans s).
Definition st_resps s x := st_objs s (s_loans s) (s_pends s) (s_acts s) x (s_rloans s).
Definition st_rloans s x := st_objs s (s_loans s) (s_pends s) (s_acts s) (s_resps s) x.
Definition st_reg (s : state) (cslot sslot : list (option N)) (creg : list (option N)) (sreg : list N) (idxlog : list (N * N)) : state :=
  {| s_next := s_next s; s_hid := s_hid s; s_cslot := cslot; s_sslot := sslot; s_creg := creg;
     s_sreg := sreg; s_clients := s_clients s; s_servers := s_servers s; s_conns := s_conns s;
     s_loans := s_loans s; s_pends := s_pends s; s_acts := s_acts s; s_resps := s_resps s; s_rloans := s_rloans s;
     s_rlog := s_rlog s; s_slog := s_slog s; s_idxlog := idxlog |}.
Definition st_logs (s : state) (rl : list (pendrec * rspmsg)) (sl : list (N * reqmsg)) : state :=
  {| s_next := s_next s; s_hid := s_hid s; s_cslot := s_cslot s; s_sslot := s_sslot s; s_creg := s_creg s;
     s_sreg := s_sreg s; s_clients := s_clients s; s_servers := s_servers s; s_conns := s_conns s;
     s_loans := s_loans s; s_pends := s_pends s; s_acts := s_acts s; s_resps := s_resps s; s_rloans := s_rloans s;
     s_rlog := rl; s_slog := sl; s_idxlog := s_idxlog s |}.

Definition fresh (s : state) : N * state := (s_next s, st_next s (s_next s + 1)).

(* --- small list helpers -------------------------------------------------------------------- *)
Fixpoint remove_nth {A} (n : nat) (l : list A) : list A :=
  match l, n with
  | [], _ => []
  | _ :: t, O => t
  | h :: t, S k => h :: remove_nth k t
  end.
Fixpoint memN (x : N) (l : list N) : bool :=
  match l with [] => false | h :: t => N.eqb h x || memN x t end.
Fixpoint first_free (l : list (option N)) (i : N) : option N :=
  match l with
  | [] => None
  | None :: _ => Some i
  | Some _ :: t => first_free t (i + 1)
  end.
Fixpoint index_of (x : N) (l : list (option N)) (i : N) : option N :=
  match l with
  | [] => None
  | Some y :: t => if N.eqb x y then Some i else index_of x t (i + 1)
  | None :: t => index_of x t (i + 1)
  end.

(* reference counts (segment_state.rs): msg id -> counter; entries with counter 0 are free chunks *)
Fixpoint rc_inc (t : list (N * N)) (id : N) : list (N * N) :=
  match t with
  | [] => [(id, 1)]
  | (i, n) :: r => if N.eqb i id then (i, n + 1) :: r else (i, n) :: rc_inc r id
  end.
Fixpoint rc_dec (t : list (N * N)) (id : N) : list (N * N) :=
  match t with
  | [] => []
  | (i, n) :: r => if N.eqb i id then (if N.leb n 1 then r else (i, n - 1) :: r) else (i, n) :: rc_dec r id
  end.
Definition rc_used (t : list (N * N)) : N := lenN t.

Definition get_client (s : state) (i : N) : option client := find (fun c => N.eqb (cl_inst c) i) (s_clients s).
Definition get_server (s : state) (i : N) : option server := find (fun c => N.eqb (sv_inst c) i) (s_servers s).
Definition upd_client (s : state) (i : N) (f : client -> client) : state :=
  st_clients s (map (fun c => if N.eqb (cl_inst c) i then f c else c) (s_clients s)).
Definition upd_server (s : state) (i : N) (f : server -> server) : state :=
  st_servers s (map (fun c => if N.eqb (sv_inst c) i then f c else c) (s_servers s)).
Definition is_key (k : conn) (cl sv : N) : bool := N.eqb (k_cl k) cl && N.eqb (k_sv k) sv.
Definition get_conn (s : state) (cl sv : N) : option conn := find (fun k => is_key k cl sv) (s_conns s).
Definition upd_conn (s : state) (cl sv : N) (f : conn -> conn) : state :=
  st_conns s (map (fun k => if is_key k cl sv then f k else k) (s_conns s)).
Definition upd_conns_of_client (s : state) (cl : N) (f : conn -> conn) : state :=
  st_conns s (map (fun k => if N.eqb (k_cl k) cl then f k else k) (s_conns s)).

Definition mk_client inst obj avail ridc active loans sloans rc : client :=
  {| cl_inst := inst; cl_obj := obj; cl_avail := avail; cl_ridc := ridc; cl_active := active;
     cl_loans := loans; cl_sloans := sloans; cl_rc := rc |}.
Definition cl_with_rc (c : client) rc := mk_client (cl_inst c) (cl_obj c) (cl_avail c) (cl_ridc c) (cl_active c) (cl_loans c) (cl_sloans c) rc.
Definition mk_server inst obj sloans rc conns : server :=
  {| sv_inst := inst; sv_obj := obj; sv_sloans := sloans; sv_rc := rc; sv_conns := conns |}.
Definition sv_with_rc (c : server) rc := mk_server (sv_inst c) (sv_obj c) (sv_sloans c) rc (sv_conns c).

Definition mk_conn cl sv cv svw rsub rbor rcomp ch : conn :=
  {| k_cl := cl; k_sv := sv; k_cv := cv; k_svw := svw; k_rsub := rsub; k_rbor := rbor; k_rcomp := rcomp; k_ch := ch |}.
Definition k_with_cv (k : conn) v := mk_conn (k_cl k) (k_sv k) v (k_svw k) (k_rsub k) (k_rbor k) (k_rcomp k) (k_ch k).
Definition k_with_svw (k : conn) v := mk_conn (k_cl k) (k_sv k) (k_cv k) v (k_rsub k) (k_rbor k) (k_rcomp k) (k_ch k).
Definition k_with_req (k : conn) rsub rbor rcomp := mk_conn (k_cl k) (k_sv k) (k_cv k) (k_svw k) rsub rbor rcomp (k_ch k).
Definition k_with_ch (k : conn) ch := mk_conn (k_cl k) (k_sv k) (k_cv k) (k_svw k) (k_rsub k) (k_rbor k) (k_rcomp k) ch.
Definition mk_chan st sub bor comp : chan := {| c_state := st; c_sub := sub; c_bor := bor; c_comp := comp |}.
Definition dchan : chan := mk_chan CH_CLOSED [] [] [].
Definition k_chan (k : conn) (c : N) : chan := nthN (k_ch k) c dchan.
Definition k_set_chan (k : conn) (c : N) (x : chan) : conn := k_with_ch k (updN (k_ch k) c x).
Definition k_map_state (k : conn) (c : N) (f : N -> N) : conn :=
  let x := k_chan k c in k_set_chan k c (mk_chan (f (c_state x)) (c_sub x) (c_bor x) (c_comp x)).

(* a new connection: response channels start CLOSED (client.rs / server.rs initial_channel_state) *)
Definition new_conn (g : cfg) (cl sv : N) : conn :=
  mk_conn cl sv VNone VNone [] [] [] (repeat dchan (N.to_nat (nch g))).
Definition ensure_conn (g : cfg) (s : state) (cl sv : N) : state :=
  match get_conn s cl sv with Some _ => s | None => st_conns s (s_conns s ++ [new_conn g cl sv]) end.

(* --- connection updates -------------------------------------------------------------------- *)
Definition rsp_ids (l : list rspmsg) : list N := map p_id l.
Definition req_ids (l : list reqmsg) : list N := map q_id l.
Definition chan_used (x : chan) : list N := rsp_ids (c_sub x) ++ rsp_ids (c_bor x) ++ rsp_ids (c_comp x).
Definition conn_rsp_used (k : conn) : list N := flat_map chan_used (k_ch k).
Definition conn_req_used (k : conn) : list N := req_ids (k_rsub k) ++ req_ids (k_rbor k) ++ req_ids (k_rcomp k).
Definition chan_has_data_or_borrows (x : chan) : bool :=
  negb (match c_sub x with [] => true | _ => false end) || negb (match c_bor x with [] => true | _ => false end).
Definition nonempty {A} (l : list A) : bool := match l with [] => false | _ => true end.

(* receiver.rs prepare_connection_removal on the client's response receiver *)
Definition client_detach (k : conn) : conn :=
  k_with_cv k (if existsb chan_has_data_or_borrows (k_ch k) then VRetained else VNone).
(* the same on the server's request receiver *)
Definition server_detach (k : conn) : conn :=
  k_with_svw k (if nonempty (k_rsub k) || nonempty (k_rbor k) then VRetained else VNone).

(* Client force_update_connections: drop the connections to servers that are no longer
   registered (sender.rs remove_connection releases every used chunk), attach to new ones *)
Definition client_sync (g : cfg) (s : state) (cl : N) : state :=
  let gone := filter (fun k => N.eqb (k_cl k) cl && view_active (k_cv k) && negb (memN (k_sv k) (s_sreg s))) (s_conns s) in
  let released := flat_map conn_req_used gone in
  let s1 := upd_client s cl (fun c => cl_with_rc c (fold_left rc_dec released (cl_rc c))) in
  let s2 := st_conns s1 (map (fun k => if N.eqb (k_cl k) cl && view_active (k_cv k) && negb (memN (k_sv k) (s_sreg s))
                                      then client_detach (k_with_req k [] [] []) else k) (s_conns s1)) in
  fold_left (fun st sv =>
               let st := ensure_conn g st cl sv in
               upd_conn st cl sv (fun k => if view_active (k_cv k) then k else k_with_cv k VActive))
            (s_sreg s) s2.

(* Server force_update_connections over the clients container, index by index *)
Definition server_sync_idx (g : cfg) (sv : N) (st : state) (ir : N * option N) : state :=
  let '(i, reg) := ir in
  match get_server st sv with
  | None => st
  | Some srv =>
    let cur := nthN (sv_conns srv) i None in
    let same := match cur, reg with
                | Some a, Some b => N.eqb a b
                | None, None => true
                | _, _ => false
                end in
    if same then st else
    let st1 := match cur with
               | None => st
               | Some old =>
                 match get_conn st old sv with
                 | None => st
                 | Some k =>
                   let st := upd_server st sv (fun c => sv_with_rc c (fold_left rc_dec (conn_rsp_used k) (sv_rc c))) in
                   upd_conn st old sv (fun k => server_detach (k_with_ch k (map (fun x => mk_chan (c_state x) [] [] []) (k_ch k))))
                 end
               end in
    let st2 := match reg with
               | None => st1
               | Some c => let st := ensure_conn g st1 c sv in upd_conn st c sv (fun k => k_with_svw k VActive)
               end in
    upd_server st2 sv (fun c => mk_server (sv_inst c) (sv_obj c) (sv_sloans c) (sv_rc c) (updN (sv_conns c) i reg))
  end.
Definition enum {A} (l : list A) : list (N * A) := combine (map N.of_nat (seq 0 (length l))) l.
Definition server_sync (g : cfg) (s : state) (sv : N) : state :=
  fold_left (server_sync_idx g sv) (enum (s_creg s)) s.

(* ports whose last owner is gone leave the dynamic config; their side of every connection is dropped *)
Definition client_refs (s : state) (cl : N) : bool :=
  existsb (fun l => N.eqb (ln_cl l) cl) (s_loans s) || existsb (fun p => N.eqb (pn_cl p) cl) (s_pends s)
  || existsb (fun r => N.eqb (rs_cl r) cl) (s_resps s).
Definition server_refs (s : state) (sv : N) : bool :=
  existsb (fun a => N.eqb (ac_sv a) sv) (s_acts s) || existsb (fun r => N.eqb (rl_sv r) sv) (s_rloans s).
Definition gc_client (s : state) (c : client) : state :=
  if cl_obj c || client_refs s (cl_inst c) then s else
  let cl := cl_inst c in
  let s := st_clients s (filter (fun x => negb (N.eqb (cl_inst x) cl)) (s_clients s)) in
  let s := upd_conns_of_client s cl (fun k => k_with_cv k VNone) in
  match index_of cl (s_creg s) 0 with
  | None => s
  | Some i => st_reg s (s_cslot s) (s_sslot s) (updN (s_creg s) i None) (s_sreg s) (s_idxlog s)
  end.
Definition gc_server (s : state) (c : server) : state :=
  if sv_obj c || server_refs s (sv_inst c) then s else
  let sv := sv_inst c in
  let s := st_servers s (filter (fun x => negb (N.eqb (sv_inst x) sv)) (s_servers s)) in
  let s := st_conns s (map (fun k => if N.eqb (k_sv k) sv then k_with_svw k VNone else k) (s_conns s)) in
  st_reg s (s_cslot s) (s_sslot s) (s_creg s) (filter (fun x => negb (N.eqb x sv)) (s_sreg s)) (s_idxlog s).
Definition gc (s : state) : state :=
  let s := fold_left gc_client (s_clients s) s in
  let s := fold_left gc_server (s_servers s) s in
  (* a connection that neither side holds any more is removed (its shared memory is unlinked) *)
  st_conns s (filter (fun k => view_on (k_cv k) || view_on (k_svw k)) (s_conns s)).

(* --- sender side: reclaim, allocate, try_send ------------------------------------------------ *)
(* sender.rs retrieve_returned_chunks on the client's request sender *)
Definition client_reclaim (s : state) (cl : N) : state :=
  let mine := filter (fun k => N.eqb (k_cl k) cl && view_active (k_cv k)) (s_conns s) in
  let ids := flat_map (fun k => req_ids (k_rcomp k)) mine in
  let s := upd_client s cl (fun c => cl_with_rc c (fold_left rc_dec ids (cl_rc c))) in
  st_conns s (map (fun k => if N.eqb (k_cl k) cl && view_active (k_cv k) then k_with_req k (k_rsub k) (k_rbor k) [] else k) (s_conns s)).
(* ... and on the server's response sender (connections in its vector, every channel) *)
Definition server_reclaim (s : state) (sv : N) : state :=
  let mine := filter (fun k => N.eqb (k_sv k) sv && view_active (k_svw k)) (s_conns s) in
  let ids := flat_map (fun k => flat_map (fun x => rsp_ids (c_comp x)) (k_ch k)) mine in
  let s := upd_server s sv (fun c => sv_with_rc c (fold_left rc_dec ids (sv_rc c))) in
  st_conns s (map (fun k => if N.eqb (k_sv k) sv && view_active (k_svw k)
                            then k_with_ch k (map (fun x => mk_chan (c_state x) (c_sub x) (c_bor x) []) (k_ch k)) else k) (s_conns s)).

Inductive err := EOom | EMaxLoans | EMaxActive | EMaxBorrows | EMaxClients | EMaxServers.

(* common.rs try_send on a queue of capacity cap: None = ReceiveBufferFull, Some (queue, evicted) *)
Definition try_send {A} (ovf : bool) (cap : N) (q : list A) (m : A) : option (list A * option A) :=
  if negb ovf && N.leb cap (lenN q) then None else
  if N.leb cap (lenN q) then
    match q with
    | [] => Some ([m], None)            (* capacity 0 cannot occur: the builder raises it to 1 *)
    | old :: t => Some (t ++ [m], Some old)
    end
  else Some (q ++ [m], None).

(* --- observations ------------------------------------------------------------------------------ *)
Inductive obs :=
| ONone | OOk | OOkN (n : N) | OLoan (hid ch : N) | OErr (e : err) | ORecvNone
| OResp (v : N) | OAct (hid rid ch : N) | OBool (b : bool) | OPanic
| OQh (r : obs) (h : option (option (bool * obs))).   (* send result + what the scripted backpressure handler saw *)

Inductive op :=
| Cc (i : N) | Cd (i : N) | Sc (i : N) | Sd (i : N)
| L (i : N) | S_ | Lx | Q (i : N) | Qd (i : N)
| Pr (k : N) | Pd (k : N) | Ph (k : N) | Rx (m : N)
| Sr (j : N) | Sh (j : N)
| As (a : N) | Al (a : N) | Aw | Ax | Ad (a : N).

(* --- client operations ------------------------------------------------------------------------- *)
(* Client::new: force_update_connections, then add_client_id (mpmc::Container over a
   RobustUniqueIndexSet: the lowest free index) *)
Definition client_create (g : cfg) (s : state) (slot : N) : state * obs :=
  match nthN (s_cslot s) slot None with
  | Some _ => (s, ONone)
  | None =>
    match first_free (s_creg s) 0 with
    | None => (s, OErr EMaxClients)
    | Some i =>
      let '(inst, s) := fresh s in
      let c := mk_client inst true (map N.of_nat (seq 0 (N.to_nat (nreq g)))) 0 0 0 0 [] in
      let s := st_clients s (s_clients s ++ [c]) in
      let s := client_sync g s inst in
      (st_reg s (updN (s_cslot s) slot (Some inst)) (s_sslot s) (updN (s_creg s) i (Some inst)) (s_sreg s)
              (s_idxlog s ++ [(inst, i)]), OOk)
    end
  end.
Definition client_drop (s : state) (slot : N) : state * obs :=
  match nthN (s_cslot s) slot None with
  | None => (s, ONone)
  | Some inst =>
    let s := upd_client s inst (fun c => mk_client (cl_inst c) false (cl_avail c) (cl_ridc c) (cl_active c) (cl_loans c) (cl_sloans c) (cl_rc c)) in
    (st_reg s (updN (s_cslot s) slot None) (s_sslot s) (s_creg s) (s_sreg s) (s_idxlog s), OOk)
  end.

(* Client::loan_chunk *)
Definition client_loan (g : cfg) (s : state) (cl : N) (hid : N) : state * res (sum err (reqmsg)) :=
  match get_client s cl with
  | None => (s, Panic)
  | Some c =>
    if N.eqb (ML g) (cl_loans c) then (s, Val (inl EMaxLoans)) else
    let s := client_reclaim s cl in
    match get_client s cl with
    | None => (s, Panic)
    | Some c =>
      if N.leb (cl_max_borrow g) (cl_sloans c) then (s, Val (inl EMaxLoans)) else
      if N.leb (nreq g) (rc_used (cl_rc c)) then (s, Val (inl EOom)) else
      match cl_avail c with
      | [] => (s, Panic)          (* fatal_panic: no more available response channels *)
      | ch :: av =>
        let '(id, s) := fresh s in
        let m := {| q_id := id; q_cl := cl; q_rid := cl_ridc c; q_ch := ch; q_hid := hid; q_stamp := 0 |} in
        let s := upd_client s cl (fun c => mk_client (cl_inst c) (cl_obj c) av (N.modulo (cl_ridc c + 1) RID_MAX) (cl_active c)
                                                     (cl_loans c + 1) (cl_sloans c + 1) (rc_inc (cl_rc c) id)) in
        (s, Val (inr m))
      end
    end
  end.

(* RequestMut::drop + ChunkMutInnerSharedState::drop: release_request(was_sample_sent), return_loan *)
Definition request_release (s : state) (m : reqmsg) (was_sent : bool) : state :=
  upd_client s (q_cl m) (fun c => mk_client (cl_inst c) (cl_obj c) (cl_avail c ++ [q_ch m]) (cl_ridc c) (cl_active c)
                                            (if was_sent then cl_loans c else cl_loans c - 1) (cl_sloans c - 1) (rc_dec (cl_rc c) (q_id m))).

(* ClientSharedState::send_request followed by RequestMut::send's bookkeeping *)
Definition deliver_request (g : cfg) (cl : N) (m : reqmsg) (acc : state * N) (k : conn) : state * N :=
  let '(s, n) := acc in
  match get_conn s cl (k_sv k) with
  | None => acc
  | Some k =>
    match try_send (ovq g) (MA g) (k_rsub k) m with
    | None => acc
    | Some (q, ev) =>
      let s := upd_conn s cl (k_sv k) (fun k => k_with_req k q (k_rbor k) (k_rcomp k)) in
      let s := upd_client s cl (fun c => cl_with_rc c (rc_inc (cl_rc c) (q_id m))) in
      let s := match ev with
               | None => s
               | Some old => upd_client s cl (fun c => cl_with_rc c (rc_dec (cl_rc c) (q_id old)))
               end in
      (s, n + 1)
    end
  end.
Definition client_send (g : cfg) (s : state) (m : reqmsg) : state * sum err pendrec :=
  let cl := q_cl m in
  match get_client s cl with
  | None => (s, inl EMaxActive)
  | Some c =>
    if N.leb (MA g) (cl_active c) then (request_release s m false, inl EMaxActive) else
    let s := client_sync g s cl in
    (* prepare_channel_to_receive_responses: every connection in the receiver's storage *)
    let s := st_conns s (map (fun k => if N.eqb (k_cl k) cl && view_on (k_cv k)
                                       then k_map_state k (q_ch m) (fun v => fst (ch_set_state v (q_rid m))) else k) (s_conns s)) in
    let s := upd_client s cl (fun c => mk_client (cl_inst c) (cl_obj c) (cl_avail c) (cl_ridc c) (cl_active c + 1) (cl_loans c) (cl_sloans c) (cl_rc c)) in
    let s := client_reclaim s cl in
    let '(stamp, s) := fresh s in
    let m := {| q_id := q_id m; q_cl := q_cl m; q_rid := q_rid m; q_ch := q_ch m; q_hid := q_hid m; q_stamp := stamp |} in
    let targets := filter (fun k => N.eqb (k_cl k) cl && view_active (k_cv k)) (s_conns s) in
    let '(s, n) := fold_left (deliver_request g cl m) targets (s, 0) in
    let s := upd_client s cl (fun c => mk_client (cl_inst c) (cl_obj c) (cl_avail c) (cl_ridc c) (cl_active c) (cl_loans c - 1) (cl_sloans c) (cl_rc c)) in
    (s, inr {| pn_cl := cl; pn_msg := m; pn_n := n |})
  end.

(* PendingResponse::drop: active_request_counter -= 1, close(), then the RequestMut drops *)
Definition pend_drop (s : state) (p : pendrec) : state :=
  let cl := pn_cl p in
  let m := pn_msg p in
  let s := upd_client s cl (fun c => mk_client (cl_inst c) (cl_obj c) (cl_avail c) (cl_ridc c) (cl_active c - 1) (cl_loans c) (cl_sloans c) (cl_rc c)) in
  let s := st_conns s (map (fun k => if N.eqb (k_cl k) cl && view_on (k_cv k)
                                     then k_map_state k (q_ch m) (fun v => ch_close v (q_rid m)) else k) (s_conns s)) in
  request_release s m true.

(* Receiver::release_offset on the client's response receiver (Response::drop) *)
Definition response_release (s : state) (cl sv ch : N) (m : rspmsg) : state :=
  upd_conn s cl sv (fun k =>
    if view_on (k_cv k) then
      let x := k_chan k ch in
      k_set_chan k ch (mk_chan (c_state x) (c_sub x) (filter (fun y => negb (N.eqb (p_id y) (p_id m))) (c_bor x)) (c_comp x ++ [m]))
    else k).

(* one round of Receiver::receive(channel) on the client's response receiver, connections
   polled in the order `ord` (server instances): first the to-be-removed ones, then all. *)
Inductive rcv1 := R1None | R1Err | R1Some (sv : N) (m : rspmsg).
Definition conns_in_order (s : state) (cl : N) (ord : list N) (p : conn -> bool) : list conn :=
  flat_map (fun sv => match get_conn s cl sv with Some k => if p k then [k] else [] | None => [] end) ord.

Fixpoint poll_retained (g : cfg) (s : state) (cl ch : N) (l : list conn) : state * rcv1 :=
  match l with
  | [] => (s, R1None)
  | k :: t =>
    let x := k_chan k ch in
    if N.eqb (lenN (c_bor x)) (MB g) then poll_retained g s cl ch t else
    match c_sub x with
    | m :: q =>
      (upd_conn s cl (k_sv k) (fun k => k_set_chan k ch (mk_chan (c_state x) q (c_bor x ++ [m]) (c_comp x))), R1Some (k_sv k) m)
    | [] =>
      (* receive returned None: the connection is removed if no channel has borrows AND no
         channel has data (fix: 9915d96; before, the has_data result of the scan was ignored and
         a response queued for a sibling PendingResponse was lost) *)
      let s := if existsb chan_has_data_or_borrows (k_ch k) then s else upd_conn s cl (k_sv k) (fun k => k_with_cv k VNone) in
      poll_retained g s cl ch t
    end
  end.
Fixpoint poll_all (g : cfg) (s : state) (cl ch : N) (l : list conn) (active : bool) (all_exceed : bool) : state * rcv1 :=
  match l with
  | [] => (s, if all_exceed && active then R1Err else R1None)
  | k :: t =>
    let x := k_chan k ch in
    match c_sub x with
    | [] => poll_all g s cl ch t active all_exceed
    | m :: q =>
      if N.leb (MB g) (lenN (c_bor x)) then poll_all g s cl ch t true all_exceed else
      (upd_conn s cl (k_sv k) (fun k => k_set_chan k ch (mk_chan (c_state x) q (c_bor x ++ [m]) (c_comp x))), R1Some (k_sv k) m)
    end
  end.
Definition client_rcv1 (g : cfg) (s : state) (cl ch : N) (ord : list N) : state * rcv1 :=
  let '(s, r) := poll_retained g s cl ch (conns_in_order s cl ord (fun k => view_retained (k_cv k))) in
  match r with
  | R1None => poll_all g s cl ch (conns_in_order s cl ord (fun k => view_on (k_cv k))) false true
  | _ => (s, r)
  end.

(* PendingResponse::receive: loop { receive_impl; drop the response if header.request_id differs } *)
Inductive prr := PRNone | PRErr | PRSome (sv : N) (m : rspmsg) | PRFuel.
Fixpoint pend_receive (fuel : nat) (g : cfg) (s : state) (p : pendrec) (ord : list N) : state * prr :=
  match fuel with
  | O => (s, PRFuel)
  | S f =>
    let cl := pn_cl p in
    let ch := q_ch (pn_msg p) in
    let s := client_sync g s cl in
    let '(s, r) := client_rcv1 g s cl ch ord in
    match r with
    | R1None => (s, PRNone)
    | R1Err => (s, PRErr)
    | R1Some sv m =>
      if N.eqb (p_rid m) (q_rid (pn_msg p)) then (s, PRSome sv m)
      else pend_receive f g (response_release s cl sv ch m) p ord
    end
  end.
Definition queued_total (s : state) : nat :=
  fold_left (fun n k => fold_left (fun n x => n + length (c_sub x))%nat (k_ch k) n) (s_conns s) 0%nat.
Definition rcv_fuel (s : state) : nat := S (S (queued_total s)).

(* PendingResponse::is_connected / has_response / set_disconnect_hint *)
Definition pend_connected (s : state) (p : pendrec) : bool :=
  existsb (fun k => N.eqb (k_cl k) (pn_cl p) && view_on (k_cv k) && ch_has_state (c_state (k_chan k (q_ch (pn_msg p)))) (q_rid (pn_msg p))) (s_conns s).
Definition pend_has_response (s : state) (p : pendrec) : bool :=
  existsb (fun k => N.eqb (k_cl k) (pn_cl p) && view_on (k_cv k) && nonempty (c_sub (k_chan k (q_ch (pn_msg p))))) (s_conns s).
Definition pend_hint (s : state) (p : pendrec) : state :=
  st_conns s (map (fun k => if N.eqb (k_cl k) (pn_cl p) && view_on (k_cv k)
                            then k_map_state k (q_ch (pn_msg p)) (fun v => ch_set_hint v (q_rid (pn_msg p))) else k) (s_conns s)).

(* --- server operations ------------------------------------------------------------------------- *)
Definition server_create (g : cfg) (s : state) (slot : N) : state * obs :=
  match nthN (s_sslot s) slot None with
  | Some _ => (s, ONone)
  | None =>
    if N.leb (MS g) (lenN (s_sreg s)) then (s, OErr EMaxServers) else
    let '(inst, s) := fresh s in
    let c := mk_server inst true 0 [] (repeat None (N.to_nat (MC g))) in
    let s := st_servers s (s_servers s ++ [c]) in
    let s := server_sync g s inst in
    (st_reg s (s_cslot s) (updN (s_sslot s) slot (Some inst)) (s_creg s) (s_sreg s ++ [inst]) (s_idxlog s), OOk)
  end.
Definition server_drop (s : state) (slot : N) : state * obs :=
  match nthN (s_sslot s) slot None with
  | None => (s, ONone)
  | Some inst =>
    let s := upd_server s inst (fun c => mk_server (sv_inst c) false (sv_sloans c) (sv_rc c) (sv_conns c)) in
    (st_reg s (s_cslot s) (updN (s_sslot s) slot None) (s_creg s) (s_sreg s) (s_idxlog s), OOk)
  end.

(* the connection an ActiveRequest / ResponseMut addresses: response_sender.connections[connection_id] *)
Definition act_conn (s : state) (sv : N) (idx : option N) : option conn :=
  match idx, get_server s sv with
  | Some i, Some srv => match nthN (sv_conns srv) i None with Some cl => get_conn s cl sv | None => None end
  | _, _ => None
  end.
Definition act_connected (s : state) (a : actrec) : bool :=
  match act_conn s (ac_sv a) (ac_idx a) with
  | Some k => ch_has_state (c_state (k_chan k (q_ch (ac_msg a)))) (q_rid (ac_msg a))
  | None => false
  end.
Definition act_has_hint (s : state) (a : actrec) : bool :=
  match act_conn s (ac_sv a) (ac_idx a) with
  | Some k => ch_has_hint (c_state (k_chan k (q_ch (ac_msg a)))) (q_rid (ac_msg a))
  | None => false
  end.
(* ActiveRequest::drop: release_offset on the request receiver, then finish() = close_channel *)
Definition act_drop (s : state) (a : actrec) : state :=
  let m := ac_msg a in
  let s := upd_conn s (q_cl m) (ac_sv a) (fun k =>
             if view_on (k_svw k) then k_with_req k (k_rsub k) (filter (fun y => negb (N.eqb (q_id y) (q_id m))) (k_rbor k)) (k_rcomp k ++ [m]) else k) in
  match act_conn s (ac_sv a) (ac_idx a) with
  | Some k => upd_conn s (k_cl k) (ac_sv a) (fun k => k_map_state k (q_ch m) (fun v => ch_close v (q_rid m)))
  | None => s
  end.

Inductive srv1 := S1None | S1Err | S1Some (cl : N) (m : reqmsg).
Definition sconns_in_order (s : state) (sv : N) (ord : list N) (p : conn -> bool) : list conn :=
  flat_map (fun cl => match get_conn s cl sv with Some k => if p k then [k] else [] | None => [] end) ord.
Fixpoint spoll_retained (g : cfg) (s : state) (sv : N) (l : list conn) : state * srv1 :=
  match l with
  | [] => (s, S1None)
  | k :: t =>
    if N.eqb (lenN (k_rbor k)) (MA g) then spoll_retained g s sv t else
    match k_rsub k with
    | m :: q => (upd_conn s (k_cl k) sv (fun k' => k_with_req k' q (k_rbor k ++ [m]) (k_rcomp k')), S1Some (k_cl k) m)
    | [] =>
      let s := if nonempty (k_rbor k) then s else upd_conn s (k_cl k) sv (fun k => k_with_svw k VNone) in
      spoll_retained g s sv t
    end
  end.
Fixpoint spoll_all (g : cfg) (s : state) (sv : N) (l : list conn) (active all_exceed : bool) : state * srv1 :=
  match l with
  | [] => (s, if all_exceed && active then S1Err else S1None)
  | k :: t =>
    match k_rsub k with
    | [] => spoll_all g s sv t active all_exceed
    | m :: q =>
      if N.leb (MA g) (lenN (k_rbor k)) then spoll_all g s sv t true all_exceed else
      (upd_conn s (k_cl k) sv (fun k' => k_with_req k' q (k_rbor k ++ [m]) (k_rcomp k')), S1Some (k_cl k) m)
    end
  end.
Definition server_rcv1 (g : cfg) (s : state) (sv : N) (ord : list N) : state * srv1 :=
  let '(s, r) := spoll_retained g s sv (sconns_in_order s sv ord (fun k => view_retained (k_svw k))) in
  match r with
  | S1None => spoll_all g s sv (sconns_in_order s sv ord (fun k => view_on (k_svw k))) false true
  | _ => (s, r)
  end.

(* Server::receive (typed payload) *)
Inductive srr := SRNone | SRErr | SRSome (a : actrec) | SRFuel.
Fixpoint server_receive (fuel : nat) (g : cfg) (s : state) (sv slot : N) (ord : list N) : state * srr :=
  match fuel with
  | O => (s, SRFuel)
  | S f =>
    let s := server_sync g s sv in
    let '(s, r) := server_rcv1 g s sv ord in
    match r with
    | S1None => (s, SRNone)
    | S1Err => (s, SRErr)
    | S1Some cl m =>
      let idx := match get_server s sv with Some srv => index_of cl (sv_conns srv) 0 | None => None end in
      match idx with
      | Some i =>
        let '(uid, s) := fresh s in
        let a := {| ac_uid := uid; ac_sv := sv; ac_slot := slot; ac_idx := Some i; ac_msg := m; ac_seq := 0; ac_loans := 0 |} in
        if negb (faf g) && negb (act_connected s a) then server_receive f g (act_drop s a) sv slot ord
        else (s, SRSome a)
      | None =>
        if faf g then
          let '(uid, s) := fresh s in
          (s, SRSome {| ac_uid := uid; ac_sv := sv; ac_slot := slot; ac_idx := None; ac_msg := m; ac_seq := 0; ac_loans := 0 |})
        else (* the client is gone: release_offset hands the request back (fix: 4ac3642) *)
          server_receive f g (upd_conn s cl sv (fun k =>
            if view_on (k_svw k) then k_with_req k (k_rsub k) (filter (fun y => negb (N.eqb (q_id y) (q_id m))) (k_rbor k)) (k_rcomp k ++ [m]) else k))
            sv slot ord
      end
    end
  end.
Definition rqueued_total (s : state) : nat := fold_left (fun n k => n + length (k_rsub k))%nat (s_conns s) 0%nat.
Definition srv_fuel (s : state) : nat := S (S (rqueued_total s)).

Definition server_has_requests (g : cfg) (s : state) (sv : N) : state * bool :=
  let s := server_sync g s sv in
  (s, existsb (fun k => N.eqb (k_sv k) sv && (if faf g then view_on (k_svw k) else view_active (k_svw k)) && nonempty (k_rsub k)) (s_conns s)).

Definition set_act_loans (s : state) (uid : N) (f : N -> N) : state :=
  st_acts s (map (fun a => if N.eqb (ac_uid a) uid
                           then {| ac_uid := ac_uid a; ac_sv := ac_sv a; ac_slot := ac_slot a; ac_idx := ac_idx a; ac_msg := ac_msg a;
                                   ac_seq := ac_seq a; ac_loans := f (ac_loans a) |} else a) (s_acts s)).
Definition bump_act_seq (s : state) (uid : N) : state :=
  st_acts s (map (fun a => if N.eqb (ac_uid a) uid
                           then {| ac_uid := ac_uid a; ac_sv := ac_sv a; ac_slot := ac_slot a; ac_idx := ac_idx a; ac_msg := ac_msg a;
                                   ac_seq := ac_seq a + 1; ac_loans := ac_loans a |} else a) (s_acts s)).

(* ActiveRequest::loan_chunk: increment_loan_counter first, then allocate; the counter is given
   back when allocate fails (fix: 99179a3) *)
Definition act_loan (g : cfg) (s : state) (a : actrec) (v : N) : state * sum err rloanrec :=
  if N.leb (MLR g) (ac_loans a) then (s, inl EMaxLoans) else
  let s := set_act_loans s (ac_uid a) (fun n => n + 1) in
  let sv := ac_sv a in
  let s := server_reclaim s sv in
  match get_server s sv with
  | None => (s, inl EOom)
  | Some srv =>
    if N.leb (sv_max_borrow g) (sv_sloans srv) then (set_act_loans s (ac_uid a) (fun n => n - 1), inl EMaxLoans) else
    if N.leb (nresp g) (rc_used (sv_rc srv)) then (set_act_loans s (ac_uid a) (fun n => n - 1), inl EOom) else
    let '(id, s) := fresh s in
    let m := {| p_id := id; p_sv := sv; p_rid := q_rid (ac_msg a); p_val := v; p_ocl := q_cl (ac_msg a); p_stamp := 0 |} in
    let s := upd_server s sv (fun c => mk_server (sv_inst c) (sv_obj c) (sv_sloans c + 1) (rc_inc (sv_rc c) id) (sv_conns c)) in
    (s, inr {| rl_sv := sv; rl_idx := ac_idx a; rl_ch := q_ch (ac_msg a); rl_msg := m; rl_act := ac_uid a |})
  end.
(* ResponseMut::drop + ChunkMutInnerSharedState::drop *)
Definition rloan_release (s : state) (r : rloanrec) : state :=
  let s := set_act_loans s (rl_act r) (fun n => n - 1) in
  upd_server s (rl_sv r) (fun c => mk_server (sv_inst c) (sv_obj c) (sv_sloans c - 1) (rc_dec (sv_rc c) (p_id (rl_msg r))) (sv_conns c)).
(* ResponseMut::send: update_connections, deliver_offset_to_connection (NO channel-state check) *)
Definition rloan_send (g : cfg) (s : state) (r : rloanrec) : state :=
  let sv := rl_sv r in
  let s := server_sync g s sv in
  let s :=
    match rl_idx r with
    | None => s
    | Some _ =>
      let s := server_reclaim s sv in
      match act_conn s sv (rl_idx r) with
      | None => s
      | Some k =>
        let '(stamp, s) := fresh s in
        let m0 := rl_msg r in
        let m := {| p_id := p_id m0; p_sv := sv; p_rid := p_rid m0; p_val := p_val m0; p_ocl := p_ocl m0; p_stamp := stamp |} in
        let x := k_chan k (rl_ch r) in
        match try_send (ovr g) (RB g) (c_sub x) m with
        | None => s
        | Some (q, ev) =>
          let s := upd_conn s (k_cl k) sv (fun k => let x := k_chan k (rl_ch r) in k_set_chan k (rl_ch r) (mk_chan (c_state x) q (c_bor x) (c_comp x))) in
          let s := upd_server s sv (fun c => sv_with_rc c (rc_inc (sv_rc c) (p_id m))) in
          match ev with
          | None => s
          | Some old => upd_server s sv (fun c => sv_with_rc c (rc_dec (sv_rc c) (p_id old)))
          end
        end
      end
    end in
  rloan_release s r.

(* --- the step function of the harness alphabet ------------------------------------------------ *)
Definition slot_inst (l : list (option N)) (i : N) : option N := nthN l i None.
Definition nth_opt {A} (l : list A) (k : N) : option A := nth_error l (N.to_nat k).

Definition do_q (g : cfg) (s : state) (i : N) (drop : bool) : state * obs :=
  match slot_inst (s_cslot s) i with
  | None => (s, ONone)
  | Some cl =>
    let hid := s_hid s in
    let s := st_hid s (hid + 1) in
    match client_loan g s cl hid with
    | (s, Panic) => (s, OPanic)
    | (s, Val (inl e)) => (s, OErr e)
    | (s, Val (inr m)) =>
      match client_send g s m with
      | (s, inl e) => (s, OErr e)
      | (s, inr p) => if drop then (pend_drop s p, OOkN (pn_n p)) else (st_pends s (s_pends s ++ [p]), OOkN (pn_n p))
      end
    end
  end.

Definition step (g : cfg) (ord : list N) (s : state) (o : op) : state * obs :=
  let '(s, ob) :=
    match o with
    | Cc i => client_create g s i
    | Cd i => client_drop s i
    | Sc j => server_create g s j
    | Sd j => server_drop s j
    | L i =>
      match slot_inst (s_cslot s) i with
      | None => (s, ONone)
      | Some cl =>
        let hid := s_hid s in
        let s := st_hid s (hid + 1) in
        match client_loan g s cl hid with
        | (s, Panic) => (s, OPanic)
        | (s, Val (inl e)) => (s, OErr e)
        | (s, Val (inr m)) => (st_loans s (s_loans s ++ [{| ln_cl := cl; ln_msg := m |}]), OLoan hid (q_ch m))
        end
      end
    | S_ =>
      match s_loans s with
      | [] => (s, ONone)
      | l :: t =>
        let s := st_loans s t in
        match client_send g s (ln_msg l) with
        | (s, inl e) => (s, OErr e)
        | (s, inr p) => (st_pends s (s_pends s ++ [p]), OOkN (pn_n p))
        end
      end
    | Lx =>
      match s_loans s with
      | [] => (s, ONone)
      | l :: t => (request_release (st_loans s t) (ln_msg l) false, OOk)
      end
    | Q i => do_q g s i false
    | Qd i => do_q g s i true
    | Pr k =>
      match nth_opt (s_pends s) k with
      | None => (s, ONone)
      | Some p =>
        match pend_receive (rcv_fuel s) g s p ord with
        | (s, PRNone) => (s, ORecvNone)
        | (s, PRErr) => (s, OErr EMaxBorrows)
        | (s, PRFuel) => (s, OPanic)
        | (s, PRSome sv m) =>
          let s := st_resps s (s_resps s ++ [{| rs_cl := pn_cl p; rs_sv := sv; rs_ch := q_ch (pn_msg p); rs_msg := m |}]) in
          (st_logs s (s_rlog s ++ [(p, m)]) (s_slog s), OResp (p_val m))
        end
      end
    | Pd k =>
      match nth_opt (s_pends s) k with
      | None => (s, ONone)
      | Some p => (pend_drop (st_pends s (remove_nth (N.to_nat k) (s_pends s))) p, OOk)
      end
    | Ph k =>
      match nth_opt (s_pends s) k with
      | None => (s, ONone)
      | Some p => (pend_hint s p, OOk)
      end
    | Rx m =>
      match nth_opt (s_resps s) m with
      | None => (s, ONone)
      | Some r => (response_release (st_resps s (remove_nth (N.to_nat m) (s_resps s))) (rs_cl r) (rs_sv r) (rs_ch r) (rs_msg r), OOk)
      end
    | Sr j =>
      match slot_inst (s_sslot s) j with
      | None => (s, ONone)
      | Some sv =>
        match server_receive (srv_fuel s) g s sv j ord with
        | (s, SRNone) => (s, ORecvNone)
        | (s, SRErr) => (s, OErr EMaxBorrows)
        | (s, SRFuel) => (s, OPanic)
        | (s, SRSome a) =>
          let s := st_acts s (s_acts s ++ [a]) in
          (st_logs s (s_rlog s) (s_slog s ++ [(sv, ac_msg a)]), OAct (q_hid (ac_msg a)) (q_rid (ac_msg a)) (q_ch (ac_msg a)))
        end
      end
    | Sh j =>
      match slot_inst (s_sslot s) j with
      | None => (s, ONone)
      | Some sv => let '(s, b) := server_has_requests g s sv in (s, OBool b)
      end
    | As a =>
      match nth_opt (s_acts s) a with
      | None => (s, ONone)
      | Some ar =>
        let v := q_hid (ac_msg ar) * 10000 + ac_slot ar * 1000 + ac_seq ar in
        let s := bump_act_seq s (ac_uid ar) in
        match act_loan g s ar v with
        | (s, inl e) => (s, OErr e)
        | (s, inr r) => (rloan_send g s r, OOk)
        end
      end
    | Al a =>
      match nth_opt (s_acts s) a with
      | None => (s, ONone)
      | Some ar =>
        let v := q_hid (ac_msg ar) * 10000 + ac_slot ar * 1000 + ac_seq ar in
        let s := bump_act_seq s (ac_uid ar) in
        match act_loan g s ar v with
        | (s, inl e) => (s, OErr e)
        | (s, inr r) => (st_rloans s (s_rloans s ++ [r]), OOk)
        end
      end
    | Aw =>
      match s_rloans s with
      | [] => (s, ONone)
      | r :: t => (rloan_send g (st_rloans s t) r, OOk)
      end
    | Ax =>
      match s_rloans s with
      | [] => (s, ONone)
      | r :: t => (rloan_release (st_rloans s t) r, OOk)
      end
    | Ad a =>
      match nth_opt (s_acts s) a with
      | None => (s, ONone)
      | Some ar => (act_drop (st_acts s (remove_nth (N.to_nat a) (s_acts s))) ar, OOk)
      end
    end in
  (gc s, ob).

(* ---- a send with a scripted backpressure handler (harness op `qh i j`) ----------------------------
   sender.rs deliver_offset_to_connection_impl with a handler: blocking_send; when the buffer of a
   connection is full (no overflow) and the receiver is attached, the handler runs -- here: the
   server in slot j polls (has_requests, receive) INSIDE the handler -- and answers "discard";
   blocking_send then ends with one more try_send.  send_request has opened the response channel
   BEFORE deliver_offset, so a server that polls at that point gets a connected ActiveRequest.
   `dord` = the order in which the connections are served (server instances). *)
Definition hscript := option (option (bool * obs)).
Definition run_handler (g : cfg) (ord : list N) (s : state) (j : N) : state * option (bool * obs) :=
  match slot_inst (s_sslot s) j with
  | None => (s, None)
  | Some sv =>
    let '(s, b) := server_has_requests g s sv in
    match server_receive (srv_fuel s) g s sv j ord with
    | (s, SRNone) => (s, Some (b, ORecvNone))
    | (s, SRErr) => (s, Some (b, OErr EMaxBorrows))
    | (s, SRFuel) => (s, Some (b, OPanic))
    | (s, SRSome a) =>
      let s := st_acts s (s_acts s ++ [a]) in
      (st_logs s (s_rlog s) (s_slog s ++ [(sv, ac_msg a)]), Some (b, OAct (q_hid (ac_msg a)) (q_rid (ac_msg a)) (q_ch (ac_msg a))))
    end
  end.
Definition push_request (g : cfg) (cl : N) (m : reqmsg) (s : state) (sv : N) : option state :=
  match get_conn s cl sv with
  | None => None
  | Some k =>
    match try_send (ovq g) (MA g) (k_rsub k) m with
    | None => None
    | Some (q, ev) =>
      let s := upd_conn s cl sv (fun k' => k_with_req k' q (k_rbor k') (k_rcomp k')) in
      let s := upd_client s cl (fun c => cl_with_rc c (rc_inc (cl_rc c) (q_id m))) in
      Some (match ev with
            | None => s
            | Some old => upd_client s cl (fun c => cl_with_rc c (rc_dec (cl_rc c) (q_id old)))
            end)
    end
  end.
Definition deliver_request_h (g : cfg) (ord : list N) (cl : N) (m : reqmsg) (j : N)
    (acc : state * N * bool * hscript) (sv : N) : state * N * bool * hscript :=
  let '(s, n, armed, hr) := acc in
  match get_conn s cl sv with
  | None => acc
  | Some k =>
    if negb (view_active (k_cv k)) then acc else
    match push_request g cl m s sv with
    | Some s' => (s', n + 1, armed, hr)
    | None =>
      (* stalled: the handler is called only while the receiver is attached *)
      if negb (view_on (k_svw k)) then acc else
      let '(s, armed, hr) :=
        if armed then let '(s, r) := run_handler g ord s j in (s, false, Some r) else (s, armed, hr) in
      match push_request g cl m s sv with
      | Some s' => (s', n + 1, armed, hr)
      | None => (s, n, armed, hr)
      end
    end
  end.
Definition client_send_h (g : cfg) (ord dord : list N) (s : state) (m : reqmsg) (j : N) : state * sum err pendrec * hscript :=
  let cl := q_cl m in
  match get_client s cl with
  | None => (s, inl EMaxActive, None)
  | Some c =>
    if N.leb (MA g) (cl_active c) then (request_release s m false, inl EMaxActive, None) else
    let s := client_sync g s cl in
    let s := st_conns s (map (fun k => if N.eqb (k_cl k) cl && view_on (k_cv k)
                                       then k_map_state k (q_ch m) (fun v => fst (ch_set_state v (q_rid m))) else k) (s_conns s)) in
    let s := upd_client s cl (fun c => mk_client (cl_inst c) (cl_obj c) (cl_avail c) (cl_ridc c) (cl_active c + 1) (cl_loans c) (cl_sloans c) (cl_rc c)) in
    let s := client_reclaim s cl in
    let '(stamp, s) := fresh s in
    let m := {| q_id := q_id m; q_cl := q_cl m; q_rid := q_rid m; q_ch := q_ch m; q_hid := q_hid m; q_stamp := stamp |} in
    let '(s, n, _, hr) := fold_left (deliver_request_h g ord cl m j) dord (s, 0, true, None) in
    let s := upd_client s cl (fun c => mk_client (cl_inst c) (cl_obj c) (cl_avail c) (cl_ridc c) (cl_active c) (cl_loans c - 1) (cl_sloans c) (cl_rc c)) in
    (s, inr {| pn_cl := cl; pn_msg := m; pn_n := n |}, hr)
  end.
Definition do_qh (g : cfg) (ord dord : list N) (s : state) (i j : N) : state * obs :=
  match slot_inst (s_cslot s) i with
  | None => (s, ONone)
  | Some cl =>
    let hid := s_hid s in
    let s := st_hid s (hid + 1) in
    match client_loan g s cl hid with
    | (s, Panic) => (s, OPanic)
    | (s, Val (inl e)) => (s, OQh (OErr e) None)
    | (s, Val (inr m)) =>
      match client_send_h g ord dord s m j with
      | (s, inl e, hr) => (s, OQh (OErr e) hr)
      | (s, inr p, hr) => (st_pends s (s_pends s ++ [p]), OQh (OOkN (pn_n p)) hr)
      end
    end
  end.
(* the alphabet of the correspondence runs = the 20 operations of `step` + the scripted send *)
Inductive opx := XOp (o : op) | XQh (i j : N).
Definition stepx (g : cfg) (ord dord : list N) (s : state) (x : opx) : state * obs :=
  match x with
  | XOp o => step g ord s o
  | XQh i j => let '(s, ob) := do_qh g ord dord s i j in (gc s, ob)
  end.
(* the hypothesis of the routing theorem (proofs/ReqResRoute.v), executable so that the driver
   can evaluate it on every history: the connection that response_sender.connections[idx]
   resolves to after update_connections belongs to the client whose request is answered *)
Definition send_okb (g : cfg) (s : state) (r : rloanrec) : bool :=
  match act_conn (server_reclaim (server_sync g s (rl_sv r)) (rl_sv r)) (rl_sv r) (rl_idx r) with
  | Some k => N.eqb (k_cl k) (p_ocl (rl_msg r))
  | None => true
  end.
Definition step_send_okb (g : cfg) (s : state) (o : op) : bool :=
  match o with
  | Aw => match s_rloans s with r :: t => send_okb g (st_rloans s t) r | [] => true end
  | As a => match nth_opt (s_acts s) a with
            | Some ar =>
              match act_loan g (bump_act_seq s (ac_uid ar)) ar (q_hid (ac_msg ar) * 10000 + ac_slot ar * 1000 + ac_seq ar) with
              | (s2, inr r) => send_okb g s2 r
              | _ => true
              end
            | None => true
            end
  | _ => true
  end.

(* executable form of the reference-count conservation clause (props c11_reqres_conservation_full),
   evaluated by the driver on every model state: the stored counter of every request chunk = 1 if a
   RequestMut / PendingResponse still holds it + the number of connections of the client that list
   it as used (queued, held by the server, or returned but not yet reclaimed) *)
Definition cons_count (s : state) (c : client) (id : N) : N :=
  (if existsb (fun l => N.eqb (q_id (ln_msg l)) id) (s_loans s) || existsb (fun p => N.eqb (q_id (pn_msg p)) id) (s_pends s) then 1 else 0)
  + lenN (filter (fun k => N.eqb (k_cl k) (cl_inst c) && view_active (k_cv k) && existsb (N.eqb id) (conn_req_used k)) (s_conns s)).
Definition cons_okb (s : state) : bool :=
  forallb (fun c => forallb (fun e => N.eqb (snd e) (cons_count s c (fst e))) (cl_rc c)) (s_clients s).

(* read-only digest printed by the harness after every operation *)
Definition digest_p (s : state) : list (N * bool * bool) :=
  map (fun p => (q_hid (pn_msg p), pend_connected s p, pend_has_response s p)) (s_pends s).
Definition digest_a (s : state) : list (N * N * bool * bool) :=
  map (fun a => (q_hid (ac_msg a), ac_slot a, act_connected s a, act_has_hint s a)) (s_acts s).

(* classification of a property violation (used by the driver only to name the class): the
   active request of request number `hid` currently addresses a connection of ANOTHER client;
   the last response handed out came from an active request of another client *)
Definition act_foreign (s : state) (hid : N) : bool :=
  existsb (fun a => N.eqb (q_hid (ac_msg a)) hid &&
                    match act_conn s (ac_sv a) (ac_idx a) with
                    | Some k => negb (N.eqb (k_cl k) (q_cl (ac_msg a)))
                    | None => false
                    end) (s_acts s).
Definition last_recv_foreign (s : state) : bool :=
  match rev (s_rlog s) with
  | (p, m) :: _ => negb (N.eqb (pn_cl p) (p_ocl m))
  | [] => false
  end.

(* peers whose polling order the driver has to choose *)
Fixpoint nodupN (l : list N) : list N :=
  match l with [] => [] | h :: t => if memN h t then nodupN t else h :: nodupN t end.
Definition client_peers (s : state) (k : N) : list N :=
  match nth_opt (s_pends s) k with
  | None => []
  | Some p => nodupN (map k_sv (filter (fun c => N.eqb (k_cl c) (pn_cl p) && view_on (k_cv c)) (s_conns s)) ++ s_sreg s)
  end.
Definition server_peers (s : state) (j : N) : list N :=
  match slot_inst (s_sslot s) j with
  | None => []
  | Some sv => nodupN (map k_cl (filter (fun c => N.eqb (k_sv c) sv && view_on (k_svw c)) (s_conns s)) ++
                       flat_map (fun r => match r with Some cl => [cl] | None => [] end) (s_creg s))
  end.

(* delivery order candidates of the scripted send: the client's active connections *)
Definition client_send_peers (s : state) (i : N) : list N :=
  match slot_inst (s_cslot s) i with
  | None => []
  | Some cl => nodupN (map k_sv (filter (fun c => N.eqb (k_cl c) cl && view_on (k_cv c)) (s_conns s)) ++ s_sreg s)
  end.

(* ---------------------------------------------------------------------------------------- *)
(* Reference specification = the oracle of the property, evaluated on observations only.
   Events: a response with payload (hid, slot, seq) was returned through the pending response
   of request number `pend`; an active request of request `hid` on server slot `slot` reported
   is_connected = b while the pending response of `hid` was / was not alive. *)
Record ospec := { o_last : list (N * N * N) (* (pend hid, slot) -> last seq + 1 *) }.
Definition ospec0 : ospec := {| o_last := [] |}.
Fixpoint o_get (l : list (N * N * N)) (h sl : N) : N :=
  match l with
  | [] => 0
  | (a, b, c) :: t => if N.eqb a h && N.eqb b sl then c else o_get t h sl
  end.
Fixpoint o_set (l : list (N * N * N)) (h sl v : N) : list (N * N * N) :=
  match l with
  | [] => [(h, sl, v)]
  | (a, b, c) :: t => if N.eqb a h && N.eqb b sl then (a, b, v) :: t else (a, b, c) :: o_set t h sl v
  end.
(* routing: the response answers the request of this pending response; order / at most once:
   sequence numbers per (pending response, server) strictly increase *)
Definition o_recv (o : ospec) (pend hid slot seq : N) : ospec * bool :=
  let ok := N.eqb pend hid && N.leb (o_get (o_last o) pend slot) seq in
  ({| o_last := o_set (o_last o) pend slot (seq + 1) |}, ok).
(* disconnect visibility: an active request is connected only while its pending response lives *)
Definition o_act_connected (pend_alive connected : bool) : bool := implb connected pend_alive.
