(* Shared prelude of the executable models: stdlib only. *)
From Coq Require Export List Arith NArith ZArith Bool Lia.
Export ListNotations.

Arguments N.add : simpl never.
Arguments N.sub : simpl never.
Arguments N.mul : simpl never.
Arguments N.modulo : simpl never.
Arguments N.div : simpl never.
Arguments N.eqb : simpl never.
Arguments N.ltb : simpl never.
Arguments N.leb : simpl never.

(* list update at a nat index; out of range leaves the list unchanged (callers guard) *)
Fixpoint upd {A} (l : list A) (i : nat) (x : A) : list A :=
  match l, i with
  | [], _ => []
  | _ :: t, O => x :: t
  | h :: t, S j => h :: upd t j x
  end.

Definition nthN {A} (l : list A) (i : N) (d : A) : A := nth (N.to_nat i) l d.
Definition updN {A} (l : list A) (i : N) (x : A) : list A := upd l (N.to_nat i) x.
Definition lenN {A} (l : list A) : N := N.of_nat (length l).

(* outcome of an operation of the real code: a value or a Rust panic *)
Inductive res (A : Type) := Val (a : A) | Panic.
Arguments Val {A} a.
Arguments Panic {A}.
