(* Step model of iceoryx2-bb/lock-free/src/mpmc/container.rs (Container<T>: add, remove, recover,
   update_state) together with the accesses of the RobustUniqueIndexSet it uses as slot allocator
   (robust_unique_index_set.rs: acquire, release, recover, increment_generation_counter, is_locked;
   ReleaseMode::Default only -- the four dynamic_config wrappers use nothing else) and of the three
   RelocatablePointer::as_ptr() distance loads.  One step = one gated shared-memory access.

     add(value, owner):
        cell_ptr.as_ptr()                                   load DIST[2] (Relaxed)
        cur := igen.load(Acquire)
        loop { if cur == MAX return Err(IsLocked)
               for n in 0..capacity { CAS cell[n] EMPTY -> owner (Relaxed/Relaxed): Ok => goto acquired, Err => continue }
               CAS igen cur -> cur (AcqRel/SeqCst): Ok => return Err(OutOfSpace); Err(v) => cur := v }
        acquired: if increment_generation_counter(Release) == MAX return Err(IsLocked)
        element_generation_counter_ptr.as_ptr()             load DIST[0]
        g := gen[n].load(Acquire)
        if g odd { CAS gen[n] g -> g+1 (AcqRel/Acquire), result ignored }
        data_ptr.as_ptr(); data[n].get(); write value       load DIST[1]; cell DATA[n]
        gen[n].fetch_add(1, Release)
        change.fetch_add(1, Release)
        data_ptr.as_ptr(); data[n].get()                    load DIST[1]; cell DATA[n]  (pointer for the return value only)
        return Ok(n)
     remove(handle = (i, owner)):
        element_generation_counter_ptr.as_ptr()             load DIST[0]
        g := gen[i].load(Acquire)
        cell_ptr.as_ptr()                                   load DIST[2]
        CAS cell[i] owner -> EMPTY (Relaxed/Relaxed): Err => return Err(NotOwned)
        increment_generation_counter(Release)
        CAS gen[i] g -> g+1 (Relaxed/Relaxed), result ignored
        change.fetch_add(1, Release); return Ok
     recover(dead, predicate):
        if igen.load(Relaxed) == MAX { result := Locked } else {
          cell_ptr.as_ptr()                                 load DIST[2]
          for n in 0..capacity {
            o := cell[n].load(Relaxed); if o == EMPTY continue
            element_generation_counter_ptr.as_ptr()         load DIST[0]
            if o != dead continue
            cur := gen[n].load(Acquire); v := cur
            loop { if cur odd { data_ptr.as_ptr(); data[n].get(); read contents
                                CAS gen[n] cur -> cur (AcqRel/Acquire): Err(x) => { v := x; cur := x; continue }
                                v := cur; keep := predicate(contents); break }
                   else { keep := true; break } }
            if keep && CAS cell[n] o -> EMPTY (Relaxed/Relaxed) ok {
               if v odd {                                   (v even: the owner died inside add before publishing)
                 element_generation_counter_ptr.as_ptr()    load DIST[0]
                 CAS gen[n] v -> v+1 (Relaxed/Relaxed), result ignored }
               if increment_generation_counter(Release) == MAX { result := Locked; goto end } } }
          result := igen.load(Relaxed) == MAX }
        end: change.fetch_add(1, Release); return result
     update_state(state):
        c := change.load(Acquire); if state.change == c return false
        state.change := c
        element_generation_counter_ptr.as_ptr()             load DIST[0]
        for i in 0..capacity {
          cur := gen[i].load(Acquire)
          loop { if cur == state.gen[i] break
                 state.gen[i] := cur
                 if cur odd { data_ptr.as_ptr(); data[i].get(); state.data[i] := copy }
                 CAS gen[i] cur -> cur (AcqRel/SeqCst): Ok => break; Err(v) => cur := v } }
        return true
     increment_generation_counter(ord):
        c := igen.load(Relaxed)
        loop { if c == MAX return MAX; CAS igen c -> c+1 (ord/Relaxed): Ok => return c+1; Err(v) => c := v }

   Locking: no ReleaseMode::Default operation ever stores MAX into igen and the 2^64 wrap-around
   of that counter is not modelled, so every `== MAX` test above is false and its branch
   (IsLocked / Locked results) is left out of the step function.

   Slot allocator: the owner cells ARE its sequential specification (cell[n] = EMPTY: free; a
   successful cell CAS is the atomic acquire / release of index n; acquire scans upwards and so
   takes the lowest index it finds free).  Its generation counter `igen` carries no information
   for the container (it is only ever compared with MAX, which no Default-mode operation writes);
   its accesses are steps solely so that the trace is the implementation's.  The concurrent
   properties of the index set itself are C09's.

   A payload is a number (the harness uses Pay{a: id, b: !id}); 0 = a slot that was never written.
   The whole payload is written / copied in the step of its data[n].get() (under the G1 gate the
   memcpy that follows the gated get() runs before the thread reaches its next gate).

   Threads.  Thread t acts for owner id 2 * 2^t * (2 epoch + 1); `CRec` recovers that owner (the thread
   plays "the owner died; somebody cleans up after it"), after which the thread has no handles and
   a fresh owner id.  A call with `fuse = Some k` is abandoned after k accesses (the owner died
   inside the call): a silent step back to Idle.  Each thread owns one ContainerState.

   Ghost (never read by a step): `clock` counts operation starts and completions; `published i`
   lists every (generation, payload) that an add made visible in slot i; `oplog` has one entry
   (slot, generation the slot has at least reached, value of the change counter after the
   operation's own increment, clock at completion) per completed add (its odd generation) and
   per slot emptied by a completed remove / recover (removed generation + 1); `settled i`: the owner of
   slot i has made sure its generation is even (or has completed its add) and nobody has released the
   index since; `pend` of a thread
   collects the entries of its running operation; `ustart`, `ulast`, `uprev` of a thread: clock
   at the start of its latest update_state, what it returned, the snapshot generations before it;
   `dirty`, `orph`, `dead` of a thread: see the record. *)
From V Require Import model.Base model.Conc model.Events.
Open Scope N_scope.

Definition MAX64 : N := 18446744073709551615.
Definition EMPTY : N := MAX64.

Definition fupd {A} (f : N -> A) (i : N) (x : A) : N -> A := fun j => if N.eqb j i then x else f j.

Inductive cop :=
| CAdd (v : N) (fz : option nat)
| CRem (j : nat) (fz : option nat)
| CRec (p : bool)
| CUpd.

(* who called increment_generation_counter *)
Inductive kinc :=
| KAdd (v n : N)
| KRem (i gn : N)
| KRec (n acc : N) (p : bool).

Inductive cpc :=
| Idle
(* add *)
| AddLoadIgen (v : N)
| AddScan (v cur n : N)
| AddFinal (v cur : N)
| IncLoad (k : kinc)
| IncCas (c : N) (k : kinc)
| AddDist0 (v n : N)
| AddLoadGen (v n : N)
| AddCasGen (v n g : N)
| AddDist1 (v n : N)
| AddWrite (v n : N)
| AddIncGen (v n : N)
| AddIncChange (v n : N)
| AddDist1b (n : N)
| AddRetCell (n : N)
(* remove *)
| RemLoadGen (i : N)
| RemDist2 (i gn : N)
| RemCasCell (i gn : N)
| RemCasGen (i gn : N)
| RemIncChange
(* recover *)
| RecDist2 (p : bool)
| RecLoadCell (n acc : N) (p : bool)
| RecPDist0 (n o acc : N) (p : bool)
| RecLoadGen (n acc : N) (p : bool)
| RecPDist1 (n cur acc : N) (p : bool)
| RecRead (n cur acc : N) (p : bool)
| RecValidate (n cur d acc : N) (p : bool)
| RecCasCell (n v acc : N) (p : bool)
| RecSDist0 (n v acc : N) (p : bool)
| RecCasGen (n v acc : N) (p : bool)
| RecEnd (acc : N)
| RecIncChange (acc : N) (locked : bool)
(* update_state *)
| UpdDist0
| UpdLoadGen (i : N)
| UpdDist1 (i cur : N)
| UpdCopy (i cur : N)
| UpdValidate (i cur : N).

Record clst := {
  prog : list cop; pc : cpc; fuse : option nat;
  arg : N;                            (* argument of the running call: payload id of add, handle number of remove *)
  epoch : N;
  handles : list (option N);          (* j-th handle obtained -> its slot, None once used / forgotten *)
  (* this thread's ContainerState *)
  rchange : N; rgen : N -> N; rdata : N -> N;
  (* ghost *)
  pend : list (N * N);
  ustart : N; ulast : bool; uprev : N -> N;
  dirty : bool;                       (* a call was abandoned under the current owner id, its recover has not completed *)
  orph : list N;                      (* slots this thread left inside the known window (index released, generation CAS owed) *)
  dead : list N                       (* epochs of this thread that were abandoned and recovered *)
}.

Record cgst := {
  cap : N; dist0 : N; dist1 : N; dist2 : N;
  cells : N -> N; igen : N;
  gens : N -> N; datas : N -> N; change : N;
  (* ghost *)
  clock : N;
  published : N -> list (N * N);
  oplog : list (N * N * N * N);
  settled : N -> bool
}.

Definition B_DIST : N := 0. Definition B_CELL : N := 1. Definition B_IGEN : N := 2.
Definition B_GEN : N := 3. Definition B_DATA : N := 4. Definition B_CHANGE : N := 5.

(* injective in (t, e), even (so never EMPTY) and non-zero *)
Definition owner_of (t : nat) (e : N) : N := 2 * (2 ^ N.of_nat t * (2 * e + 1)).
Definition odd (x : N) : bool := N.eqb (N.modulo x 2) 1.
Definition digit (d : N) : N := if andb (N.leb 1 d) (N.leb d 30) then d else 31.

(* ---- local state updates ---- *)
Definition set_pc (l : clst) (c : cpc) : clst :=
  {| prog := prog l; pc := c; fuse := fuse l; arg := arg l; epoch := epoch l; handles := handles l;
     rchange := rchange l; rgen := rgen l; rdata := rdata l; pend := pend l;
     ustart := ustart l; ulast := ulast l; uprev := uprev l; dirty := dirty l; orph := orph l; dead := dead l |}.
Definition set_fuse (l : clst) (f : option nat) : clst :=
  {| prog := prog l; pc := pc l; fuse := f; arg := arg l; epoch := epoch l; handles := handles l;
     rchange := rchange l; rgen := rgen l; rdata := rdata l; pend := pend l;
     ustart := ustart l; ulast := ulast l; uprev := uprev l; dirty := dirty l; orph := orph l; dead := dead l |}.
Definition set_prog (l : clst) (p : list cop) : clst :=
  {| prog := p; pc := pc l; fuse := fuse l; arg := arg l; epoch := epoch l; handles := handles l;
     rchange := rchange l; rgen := rgen l; rdata := rdata l; pend := pend l;
     ustart := ustart l; ulast := ulast l; uprev := uprev l; dirty := dirty l; orph := orph l; dead := dead l |}.
Definition set_handles (l : clst) (h : list (option N)) : clst :=
  {| prog := prog l; pc := pc l; fuse := fuse l; arg := arg l; epoch := epoch l; handles := h;
     rchange := rchange l; rgen := rgen l; rdata := rdata l; pend := pend l;
     ustart := ustart l; ulast := ulast l; uprev := uprev l; dirty := dirty l; orph := orph l; dead := dead l |}.
Definition set_pend (l : clst) (p : list (N * N)) : clst :=
  {| prog := prog l; pc := pc l; fuse := fuse l; arg := arg l; epoch := epoch l; handles := handles l;
     rchange := rchange l; rgen := rgen l; rdata := rdata l; pend := p;
     ustart := ustart l; ulast := ulast l; uprev := uprev l; dirty := dirty l; orph := orph l; dead := dead l |}.
Definition set_arg (l : clst) (a : N) : clst :=
  {| prog := prog l; pc := pc l; fuse := fuse l; arg := a; epoch := epoch l; handles := handles l;
     rchange := rchange l; rgen := rgen l; rdata := rdata l; pend := pend l;
     ustart := ustart l; ulast := ulast l; uprev := uprev l; dirty := dirty l; orph := orph l; dead := dead l |}.
Definition set_epoch (l : clst) (e : N) : clst :=
  {| prog := prog l; pc := pc l; fuse := fuse l; arg := arg l; epoch := e; handles := handles l;
     rchange := rchange l; rgen := rgen l; rdata := rdata l; pend := pend l;
     ustart := ustart l; ulast := ulast l; uprev := uprev l; dirty := dirty l; orph := orph l; dead := dead l |}.
Definition set_snap (l : clst) (c : N) (rg rd : N -> N) : clst :=
  {| prog := prog l; pc := pc l; fuse := fuse l; arg := arg l; epoch := epoch l; handles := handles l;
     rchange := c; rgen := rg; rdata := rd; pend := pend l;
     ustart := ustart l; ulast := ulast l; uprev := uprev l; dirty := dirty l; orph := orph l; dead := dead l |}.
Definition set_ughost (l : clst) (s : N) (r : bool) (pv : N -> N) : clst :=
  {| prog := prog l; pc := pc l; fuse := fuse l; arg := arg l; epoch := epoch l; handles := handles l;
     rchange := rchange l; rgen := rgen l; rdata := rdata l; pend := pend l;
     ustart := s; ulast := r; uprev := pv; dirty := dirty l; orph := orph l; dead := dead l |}.

Definition set_crash (l : clst) (d : bool) (o dd : list N) : clst :=
  {| prog := prog l; pc := pc l; fuse := fuse l; arg := arg l; epoch := epoch l; handles := handles l;
     rchange := rchange l; rgen := rgen l; rdata := rdata l; pend := pend l;
     ustart := ustart l; ulast := ulast l; uprev := uprev l; dirty := d; orph := o; dead := dd |}.

(* the operation ends (returns or is abandoned) *)
Definition done (l : clst) : clst := set_pend (set_fuse (set_pc l Idle) None) [].

(* the known window: remove() has released the index and still owes the generation CAS *)
Definition window_slot (p : cpc) : option N :=
  match p with
  | IncLoad (KRem i _) | IncCas _ (KRem i _) | RemCasGen i _ => Some i
  | _ => None
  end.
(* the call is abandoned: the owner is dead until its recover completes *)
Definition abandon (l : clst) : clst :=
  set_crash (done l) true (match window_slot (pc l) with Some i => i :: orph l | None => orph l end) (dead l).

(* ---- global state updates ---- *)
Definition set_cells (g : cgst) (c : N -> N) : cgst :=
  {| cap := cap g; dist0 := dist0 g; dist1 := dist1 g; dist2 := dist2 g; cells := c; igen := igen g;
     gens := gens g; datas := datas g; change := change g; clock := clock g; published := published g; oplog := oplog g; settled := settled g |}.
Definition set_igen (g : cgst) (x : N) : cgst :=
  {| cap := cap g; dist0 := dist0 g; dist1 := dist1 g; dist2 := dist2 g; cells := cells g; igen := x;
     gens := gens g; datas := datas g; change := change g; clock := clock g; published := published g; oplog := oplog g; settled := settled g |}.
Definition set_gens (g : cgst) (x : N -> N) : cgst :=
  {| cap := cap g; dist0 := dist0 g; dist1 := dist1 g; dist2 := dist2 g; cells := cells g; igen := igen g;
     gens := x; datas := datas g; change := change g; clock := clock g; published := published g; oplog := oplog g; settled := settled g |}.
Definition set_datas (g : cgst) (x : N -> N) : cgst :=
  {| cap := cap g; dist0 := dist0 g; dist1 := dist1 g; dist2 := dist2 g; cells := cells g; igen := igen g;
     gens := gens g; datas := x; change := change g; clock := clock g; published := published g; oplog := oplog g; settled := settled g |}.
Definition set_published (g : cgst) (x : N -> list (N * N)) : cgst :=
  {| cap := cap g; dist0 := dist0 g; dist1 := dist1 g; dist2 := dist2 g; cells := cells g; igen := igen g;
     gens := gens g; datas := datas g; change := change g; clock := clock g; published := x; oplog := oplog g; settled := settled g |}.
Definition set_settled (g : cgst) (i : N) (b : bool) : cgst :=
  {| cap := cap g; dist0 := dist0 g; dist1 := dist1 g; dist2 := dist2 g; cells := cells g; igen := igen g;
     gens := gens g; datas := datas g; change := change g; clock := clock g; published := published g; oplog := oplog g;
     settled := fupd (settled g) i b |}.
Definition tick (g : cgst) : cgst :=
  {| cap := cap g; dist0 := dist0 g; dist1 := dist1 g; dist2 := dist2 g; cells := cells g; igen := igen g;
     gens := gens g; datas := datas g; change := change g; clock := clock g + 1; published := published g; oplog := oplog g; settled := settled g |}.
(* the final change.fetch_add of a writer operation: completion; its pending entries are logged
   with the new counter value and the completion time *)
Definition complete (g : cgst) (pd : list (N * N)) : cgst :=
  {| cap := cap g; dist0 := dist0 g; dist1 := dist1 g; dist2 := dist2 g; cells := cells g; igen := igen g;
     gens := gens g; datas := datas g; change := change g + 1; clock := clock g + 1; published := published g;
     oplog := map (fun e => (fst e, snd e, change g + 1, clock g)) pd ++ oplog g; settled := settled g |}.

Definition rc (tag payload : N) : N := tag + 8 * payload.
Definition ret_add (l : clst) (res : N) : ev := ERet (rc 1 (res + 128 * arg l)).
Definition ret_rem (l : clst) (res : N) : ev := ERet (rc 2 (res + 128 * arg l)).
Definition ld (site base idx : N) (o : ord) (v : N) : ev := EAcc site base idx KLoad o o v 0 true.
Definition dist_ev (g : cgst) (k : N) : ev :=
  ld 1 B_DIST k Relaxed (match k with 0 => dist0 g | 1 => dist1 g | _ => dist2 g end).
Definition cell_ev (n : N) : ev := EAcc 2 B_DATA n KCell NotAtomic NotAtomic 0 0 true.
Definition cas_ev (site base idx : N) (o ofl : ord) (cur expect new : N) : ev :=
  EAcc site base idx KCas o ofl cur new (N.eqb cur expect).
Definition fadd_ev (site base idx : N) (old : N) : ev := EAcc site base idx KFetchAdd Release Release old (old + 1) true.

(* after increment_generation_counter returned (not MAX) *)
Definition rec_next (g : cgst) (n acc : N) (p : bool) : cpc :=
  if N.ltb n (cap g) then RecLoadCell n acc p else RecEnd acc.
Definition after_inc (g : cgst) (k : kinc) : cpc :=
  match k with
  | KAdd v n => AddDist0 v n
  | KRem i gn => RemCasGen i gn
  | KRec n acc p => rec_next g (n + 1) acc p
  end.
Definition add_next (g : cgst) (v cur n : N) : cpc :=
  if N.ltb n (cap g) then AddScan v cur n else AddFinal v cur.

Definition snap_code_from (rg rd : N -> N) : nat -> N -> N :=
  fix go (k : nat) (i : N) : N :=
    match k with
    | O => 0
    | S k' => (if odd (rg i) then digit (rd i) else 0) + 32 * go k' (i + 1)
    end.
Definition snap_code (c : N) (rg rd : N -> N) : N := snap_code_from rg rd (N.to_nat c) 0.

Definition upd_ret (g : cgst) (l : clst) (changed : bool) : ev :=
  ERet (rc 4 (bool_code changed + 2 * snap_code (cap g) (rgen l) (rdata l))).

(* end of update_state's scan at slot i: next slot or return true *)
Definition upd_next (g : cgst) (l : clst) (i : N) : cgst * clst * list ev -> cgst * clst * list ev :=
  fun '(g', l', es) =>
    if N.ltb (i + 1) (cap g) then (g', set_pc l' (UpdLoadGen (i + 1)), es)
    else (tick g', set_ughost (done l') (ustart l') true (uprev l'), es ++ [upd_ret g l' true]).

Definition step_acc (t : nat) (g : cgst) (l : clst) : option (cgst * clst * list ev) :=
  let me := owner_of t (epoch l) in
  match pc l with
  | Idle =>
    match prog l with
    | [] => None
    | CAdd v (Some O) :: p => Some (tick g, set_prog l p, [])
    | CAdd v fz :: p =>
      Some (tick g, set_pc (set_fuse (set_arg (set_prog l p) v) (option_map Nat.pred fz)) (AddLoadIgen v), [dist_ev g 2])
    | CRem j fz :: p =>
      match nth j (handles l) None with
      | None => Some (g, set_prog l p, [])
      | Some i =>
        let l' := set_arg (set_handles (set_prog l p) (upd (handles l) j None)) (N.of_nat j) in
        match fz with
        | Some O => Some (tick g, l', [])
        | _ => Some (tick g, set_pc (set_fuse l' (option_map Nat.pred fz)) (RemLoadGen i), [dist_ev g 0])
        end
      end
    | CRec pr :: p =>
      Some (tick g, set_pc (set_prog l p) (RecDist2 pr), [ld 16 B_IGEN 0 Relaxed (igen g)])
    | CUpd :: p =>
      let e := ld 50 B_CHANGE 0 Acquire (change g) in
      if N.eqb (rchange l) (change g)
      then Some (tick (tick g), set_ughost (set_prog l p) (clock g) false (rgen l), [e; upd_ret g l false])
      else Some (tick g, set_pc (set_ughost (set_snap (set_prog l p) (change g) (rgen l) (rdata l)) (clock g) (ulast l) (rgen l)) UpdDist0, [e])
    end
  (* ---------------- add ---------------- *)
  | AddLoadIgen v =>
    Some (g, set_pc l (add_next g v (igen g) 0), [ld 10 B_IGEN 0 Acquire (igen g)])
  | AddScan v cur n =>
    let e := cas_ev 11 B_CELL n Relaxed Relaxed (cells g n) EMPTY me in
    if N.eqb (cells g n) EMPTY
    then Some (set_cells g (fupd (cells g) n me), set_pc l (IncLoad (KAdd v n)), [e])
    else Some (g, set_pc l (add_next g v cur (n + 1)), [e])
  | AddFinal v cur =>
    let e := cas_ev 12 B_IGEN 0 AcqRel SeqCst (igen g) cur cur in
    if N.eqb (igen g) cur then Some (tick g, done l, [e; ret_add l 0])
    else Some (g, set_pc l (add_next g v (igen g) 0), [e])
  | IncLoad k =>
    Some (g, set_pc l (IncCas (igen g) k), [ld 13 B_IGEN 0 Relaxed (igen g)])
  | IncCas c k =>
    let e := cas_ev 14 B_IGEN 0 Release Relaxed (igen g) c (c + 1) in
    if N.eqb (igen g) c
    then Some (set_igen g (c + 1),
               set_pc l (after_inc g k), [e])
    else Some (g, set_pc l (IncCas (igen g) k), [e])
  | AddDist0 v n => Some (g, set_pc l (AddLoadGen v n), [dist_ev g 0])
  | AddLoadGen v n =>
    let e := ld 20 B_GEN n Acquire (gens g n) in
    if odd (gens g n) then Some (g, set_pc l (AddCasGen v n (gens g n)), [e])
    else Some (set_settled g n true, set_pc l (AddDist1 v n), [e])
  | AddCasGen v n x =>
    let e := cas_ev 21 B_GEN n AcqRel Acquire (gens g n) x (x + 1) in
    if N.eqb (gens g n) x then Some (set_settled (set_gens g (fupd (gens g) n (x + 1))) n true, set_pc l (AddDist1 v n), [e])
    else Some (set_settled g n true, set_pc l (AddDist1 v n), [e])
  | AddDist1 v n => Some (g, set_pc l (AddWrite v n), [dist_ev g 1])
  | AddWrite v n => Some (set_datas g (fupd (datas g) n v), set_pc l (AddIncGen v n), [cell_ev n])
  | AddIncGen v n =>
    let x := gens g n in
    Some (set_published (set_gens g (fupd (gens g) n (x + 1))) (fupd (published g) n (published g n ++ [(x + 1, v)])),
          set_pend (set_pc l (AddIncChange v n)) [(n, x + 1)],
          [fadd_ev 23 B_GEN n x])
  | AddIncChange v n =>
    Some (complete g (pend l), set_pend (set_pc l (AddDist1b n)) [], [fadd_ev 24 B_CHANGE 0 (change g)])
  | AddDist1b n => Some (g, set_pc l (AddRetCell n), [dist_ev g 1])
  | AddRetCell n =>
    Some (g, set_handles (done l) (handles l ++ [Some n]), [cell_ev n; ret_add l (1 + n)])
  (* ---------------- remove ---------------- *)
  | RemLoadGen i => Some (g, set_pc l (RemDist2 i (gens g i)), [ld 30 B_GEN i Acquire (gens g i)])
  | RemDist2 i gn => Some (g, set_pc l (RemCasCell i gn), [dist_ev g 2])
  | RemCasCell i gn =>
    let e := cas_ev 15 B_CELL i Relaxed Relaxed (cells g i) me EMPTY in
    if N.eqb (cells g i) me
    then Some (set_settled (set_cells g (fupd (cells g) i EMPTY)) i false, set_pc l (IncLoad (KRem i gn)), [e])
    else Some (tick g, done l, [e; ret_rem l 2])
  | RemCasGen i gn =>
    let e := cas_ev 31 B_GEN i Relaxed Relaxed (gens g i) gn (gn + 1) in
    let l' := set_pend (set_pc l RemIncChange) [(i, gn + 1)] in
    if N.eqb (gens g i) gn then Some (set_gens g (fupd (gens g) i (gn + 1)), l', [e])
    else Some (g, l', [e])
  | RemIncChange =>
    Some (complete g (pend l), done l, [fadd_ev 32 B_CHANGE 0 (change g); ret_rem l 0])
  (* ---------------- recover ---------------- *)
  | RecDist2 p => Some (g, set_pc l (rec_next g 0 0 p), [dist_ev g 2])
  | RecLoadCell n acc p =>
    let e := ld 17 B_CELL n Relaxed (cells g n) in
    if N.eqb (cells g n) EMPTY then Some (g, set_pc l (rec_next g (n + 1) acc p), [e])
    else Some (g, set_pc l (RecPDist0 n (cells g n) acc p), [e])
  | RecPDist0 n o acc p =>
    if N.eqb o me then Some (g, set_pc l (RecLoadGen n acc p), [dist_ev g 0])
    else Some (g, set_pc l (rec_next g (n + 1) acc p), [dist_ev g 0])
  | RecLoadGen n acc p =>
    let e := ld 40 B_GEN n Acquire (gens g n) in
    if odd (gens g n) then Some (g, set_pc l (RecPDist1 n (gens g n) acc p), [e])
    else Some (g, set_pc l (RecCasCell n (gens g n) acc p), [e])
  | RecPDist1 n cur acc p => Some (g, set_pc l (RecRead n cur acc p), [dist_ev g 1])
  | RecRead n cur acc p => Some (g, set_pc l (RecValidate n cur (datas g n) acc p), [cell_ev n])
  | RecValidate n cur d acc p =>
    let e := cas_ev 41 B_GEN n AcqRel Acquire (gens g n) cur cur in
    if N.eqb (gens g n) cur
    then (* predicate(contents) *)
         let acc' := acc * 32 + digit d in
         if p then Some (g, set_pc l (RecCasCell n cur acc' p), [e])
         else Some (g, set_pc l (rec_next g (n + 1) acc' p), [e])
    else if odd (gens g n) then Some (g, set_pc l (RecPDist1 n (gens g n) acc p), [e])
    else Some (g, set_pc l (RecCasCell n (gens g n) acc p), [e])
  | RecCasCell n v acc p =>
    let e := cas_ev 18 B_CELL n Relaxed Relaxed (cells g n) me EMPTY in
    if N.eqb (cells g n) me
    then Some (set_settled (set_cells g (fupd (cells g) n EMPTY)) n false,
               set_pc l (if odd v then RecSDist0 n v acc p else IncLoad (KRec n acc p)), [e])
    else Some (g, set_pc l (rec_next g (n + 1) acc p), [e])
  | RecSDist0 n v acc p => Some (g, set_pc l (RecCasGen n v acc p), [dist_ev g 0])
  | RecCasGen n v acc p =>
    let e := cas_ev 42 B_GEN n Relaxed Relaxed (gens g n) v (v + 1) in
    let l' := set_pend (set_pc l (IncLoad (KRec n acc p))) ((n, v + 1) :: pend l) in
    if N.eqb (gens g n) v then Some (set_gens g (fupd (gens g) n (v + 1)), l', [e])
    else Some (g, l', [e])
  | RecEnd acc =>
    Some (g, set_pc l (RecIncChange acc false), [ld 16 B_IGEN 0 Relaxed (igen g)])
  | RecIncChange acc locked =>
    Some (complete g (pend l),
          set_crash (set_epoch (set_handles (done l) (map (fun _ => None) (handles l))) (epoch l + 1))
                    false (orph l) (if dirty l then epoch l :: dead l else dead l),
          [fadd_ev 43 B_CHANGE 0 (change g); ERet (rc 3 (2 * acc + bool_code locked))])
  (* ---------------- update_state ---------------- *)
  | UpdDist0 =>
    if N.ltb 0 (cap g) then Some (g, set_pc l (UpdLoadGen 0), [dist_ev g 0])
    else Some (tick g, set_ughost (done l) (ustart l) true (uprev l), [dist_ev g 0; upd_ret g l true])
  | UpdLoadGen i =>
    let cur := gens g i in
    let e := ld 51 B_GEN i Acquire cur in
    if N.eqb cur (rgen l i) then Some (upd_next g l i (g, l, [e]))
    else let l' := set_snap l (rchange l) (fupd (rgen l) i cur) (rdata l) in
         if odd cur then Some (g, set_pc l' (UpdDist1 i cur), [e])
         else Some (g, set_pc l' (UpdValidate i cur), [e])
  | UpdDist1 i cur => Some (g, set_pc l (UpdCopy i cur), [dist_ev g 1])
  | UpdCopy i cur =>
    Some (g, set_pc (set_snap l (rchange l) (rgen l) (fupd (rdata l) i (datas g i))) (UpdValidate i cur), [cell_ev i])
  | UpdValidate i cur =>
    let now := gens g i in
    let e := cas_ev 52 B_GEN i AcqRel SeqCst now cur cur in
    if N.eqb now cur then Some (upd_next g l i (g, l, [e]))
    else (* cur := now; now <> state.gen[i] (= old cur): record, copy if odd, validate again *)
         let l' := set_snap l (rchange l) (fupd (rgen l) i now) (rdata l) in
         if odd now then Some (g, set_pc l' (UpdDist1 i now), [e])
         else Some (g, set_pc l' (UpdValidate i now), [e])
  end.

(* an abandoned call: the access the fuse forbids is not performed *)
Definition step (t : nat) (g : cgst) (l : clst) : option (cgst * clst * list ev) :=
  match fuse l with
  | Some O =>
    match pc l with
    | Idle => step_acc t g l            (* unreachable: the fuse is cleared whenever an operation ends *)
    | _ => Some (tick g, abandon l, [])
    end
  | Some (S k) =>
    match pc l with
    | Idle => step_acc t g l
    | _ => step_acc t g (set_fuse l (Some k))
    end
  | None => step_acc t g l
  end.

Definition g_init (c d0 d1 d2 : N) : cgst :=
  {| cap := c; dist0 := d0; dist1 := d1; dist2 := d2; cells := fun _ => EMPTY; igen := 0;
     gens := fun _ => 0; datas := fun _ => 0; change := 0; clock := 0; published := fun _ => []; oplog := []; settled := fun _ => false |}.
Definition l_init (p : list cop) : clst :=
  {| prog := p; pc := Idle; fuse := None; arg := 0; epoch := 0; handles := []; rchange := 0; rgen := fun _ => 0; rdata := fun _ => 0;
     pend := []; ustart := 0; ulast := false; uprev := fun _ => 0; dirty := false; orph := []; dead := [] |}.
Definition init (c d0 d1 d2 : N) (progs : nat -> list cop) : cfg cgst clst :=
  (g_init c d0 d1 d2, fun t => l_init (progs t)).

(* final observation: what a fresh reader lists, and the number of owned indices *)
Fixpoint count_owned (g : cgst) (k : nat) (i : N) : N :=
  match k with O => 0 | S k' => (if N.eqb (cells g i) EMPTY then 0 else 1) + count_owned g k' (i + 1) end.
(* get_state() = update_state on a zeroed state: returns at once while the change counter is 0 *)
Definition final_obs (g : cgst) : N * N :=
  (if N.eqb (change g) 0 then 0 else snap_code (cap g) (gens g) (datas g), count_owned g (N.to_nat (cap g)) 0).

(* programs without abandoned calls *)
Definition crash_free_op (o : cop) : bool :=
  match o with CAdd _ (Some _) => false | CRem _ (Some _) => false | _ => true end.
Definition crash_free (progs : nat -> list cop) : Prop := forall t, forallb crash_free_op (progs t) = true.

(* programs in which every abandoned call is immediately followed by the recover (predicate true)
   of the owner that died in it *)
Fixpoint crash_ok_prog (p : list cop) : bool :=
  match p with
  | [] => true
  | o :: r => (if crash_free_op o then true else match r with CRec true :: _ => true | _ => false end) && crash_ok_prog r
  end.
Definition crash_ok (progs : nat -> list cop) : Prop := forall t, crash_ok_prog (progs t) = true.
