(* Step model of iceoryx2-bb/posix/src/process_state.rs over model/Fs.v: one step = ONE libc
   call of one process (what the G2 gate stops at), in source order, with the branches on the
   results.  Processes are the threads of model/Conc.v; any number of them; a process executes
   a program (list of API operations) and can be killed before any of its calls.

   Files (roles): the state file `path`, `path_owner_lock`, `path_context`, in the directory
   R_DIR.  INIT_PERMISSION = 0200, guard_permissions = 0600, context permission = 0400.

     ProcessGuardBuilder::create   stat(dir) [Directory::does_exist; must exist: Directory::create is not modelled];
                                   per file context, state, owner_lock: open(O_RDWR|O_CREAT|O_EXCL, 0200), fchmod(0200)
                                   [FileBuilder::create = File::create + set_permission];
                                   write(context, unique process id); fcntl(state, F_SETLK, F_WRLCK)
                                   [try_lock; on failure fstat(state) (metadata(): nlink == 0 ?)];
                                   fchmod(owner_lock, 0600); fchmod(state, 0600); fchmod(context, 0400)  -- context LAST.
                                   Early return: the owned File locals are dropped in reverse declaration order,
                                   File::drop = remove(path) then close(fd).
     StateFiles::drop              for state, owner_lock, context: fchmod(0600), remove(path), close(fd)  [set_permission,
                                   remove_self = File::remove + drop of the descriptor]; results ignored (warn!).
     ProcessMonitor::state         tracker entry of this process ? -> its state, no call.  open(context, O_WRONLY):
                                   ok -> fstat, close, mode == 0200 ? Starting; ENOENT -> DoesNotExist; EACCES -> go on.
                                   open(context, O_RDONLY): ENOENT -> DoesNotExist; read id, close; own id -> Alive.
                                   open(owner_lock, O_WRONLY): ok -> F_GETLK, close, write-locked ? CleaningUp;
                                   ENOENT -> access(state): exists ? Err(CorruptedState) : CleaningUp.
                                   open(state, O_WRONLY): ENOENT -> CleaningUp; F_GETLK: write-locked -> close, Alive;
                                   else fstat (metadata): nlink == 0 ? CleaningUp : Dead; close.
     ProcessCleaner::new           state() must be Dead; open(context, O_RDONLY); [tracker]; open(owner_lock, O_WRONLY);
                                   open(state, O_WRONLY); F_GETLK(state): locked -> ProcessIsStillAlive;
                                   F_SETLK(owner_lock, F_WRLCK): ok -> owner of all three files;
                                   failure -> fstat(owner_lock): nlink == 0 ? DoesNotExist : OwnedByAnotherProcess.
                                   Early return: descriptors closed in reverse order (state, owner_lock, context).
     ProcessCleaner drop = StateFiles::drop;  abandon = close state, owner_lock, context (no removal).
   The in-process PROCESS_STATE_TRACKING map is the field `trk` (one path): Some Alive after a
   successful create in this process, removed by StateFiles::drop.  (ProcessCleaner::new inserts a
   CleaningUp entry with owned_by_process = false and its TrackerGuard removes it again at the end
   of the match arm -- TrackerGuard::drop, has_ownership = false, !owned_by_process -- so a
   cleaner leaves NO entry unless one existed; ProcessGuard::abandon, a testing API, is not modelled,
   hence an entry is never Dead here.) *)
From V Require Import model.Base model.Conc model.Fs.
Open Scope N_scope.

Definition R_CTX : N := 0.
Definition R_STATE : N := 1.
Definition R_OWNER : N := 2.
Definition R_DIR : N := 3.
Definition M_INIT : N := 128.   (* 0200 *)
Definition M_RW : N := 384.     (* 0600 *)
Definition M_CTX : N := 256.    (* 0400 *)

(* ---- events: what the gate logs, with paths mapped to roles ---- *)
Inductive callk :=
| KStat | KOpen (a : acc) (creat excl : bool) (mode : N) | KFchmod (mode : N) | KFstat | KRead | KWrite
| KSetlk (l : ltype) | KGetlk (l : ltype) | KRemove | KClose | KAccess.
Inductive cres :=
| ROk (v : N)                       (* return value: descriptor number, 0, bytes/values transferred *)
| RErr (e : errno)
| RStat (mode nlink : N)            (* fstat *)
| RLock (l : option ltype).         (* F_GETLK *)
Inductive pev := ECall (role : N) (k : callk) (r : cres) | ERet (op code : N) | ECrash.

(* operation and result codes *)
Definition OP_CREATE : N := 1.  Definition OP_DROP : N := 2.  Definition OP_STATE : N := 3.
Definition OP_CLEAN : N := 4.   Definition OP_CDROP : N := 5. Definition OP_CABANDON : N := 6.
Definition OP_EXIT : N := 7.
(* ProcessState / ProcessMonitorStateError *)
Definition VAlive : N := 1.     Definition VDead : N := 2.    Definition VDNE : N := 3.
Definition VStarting : N := 4.  Definition VCleaning : N := 5.
Definition VErrCorrupted : N := 10. Definition VErrReadId : N := 11. Definition VErrOpen : N := 12.
Definition VErrOther : N := 13. Definition VErrPerm : N := 14.
(* ProcessGuardCreateError: 0 = Ok *)
Definition G_AlreadyExists : N := 1. Definition G_ContractViolation : N := 2. Definition G_SystemCorrupted : N := 3.
Definition G_InsufficientPermissions : N := 4. Definition G_Other : N := 9.
(* ProcessCleanerCreateError: 0 = Ok *)
Definition K_StillAlive : N := 1.   Definition K_Initializing : N := 2. Definition K_BeingCleaned : N := 3.
Definition K_OwnedByAnother : N := 4. Definition K_DoesNotExist : N := 5. Definition K_UnableCtx : N := 6.
Definition K_UnableOwner : N := 7.  Definition K_UnableState : N := 8.  Definition K_StateErr : N := 9.
Definition K_LockState : N := 10.

Inductive pop := OCreate | ODrop | OState | OClean | OCDrop | OCAbandon | OExit.

Inductive pc :=
| Idle
| OutOfModel                                   (* a branch the model does not transcribe was taken *)
(* ProcessGuardBuilder::create; c s o = descriptors of context, state, owner_lock *)
| CStatDir | COpenCtx | CChmodCtx (c : N) | COpenState (c : N) | CChmodState (c s : N) | COpenOwner (c s : N)
| CChmodOwner (c s o : N) | CWrite (c s o : N) | CSetlk (c s o : N) | CSetlkFstat (c s o : N)
| CFinOwner (c s o : N) | CFinState (c s o : N) | CFinCtx (c s o : N)
(* early return / abandon: remaining locals (role, fd, owned); owned => remove(role) before close(fd) *)
| Unwind (op code : N) (rest : list (N * N * bool)) (removed : bool)
(* StateFiles::drop: remaining (role, fd); sub 0 fchmod, 1 remove, 2 close *)
| Drop (op : N) (rest : list (N * N)) (sub : N)
(* ProcessMonitor::state(); cl = called by ProcessCleaner::new; out = 0: go on, else the verdict *)
| MOpenCtxW (cl : bool) | MFstatCtx (cl : bool) (f : N) | MCloseCtxW (cl : bool) (f : N) (out : N)
| MOpenCtxR (cl : bool) | MReadCtx (cl : bool) (f : N) | MCloseCtxR (cl : bool) (f : N) (out : N)
| MOpenOwner (cl : bool) | MGetlkOwner (cl : bool) (f : N) | MCloseOwner (cl : bool) (f : N) (out : N)
| MAccessState (cl : bool) | MOpenState (cl : bool) | MGetlkState (cl : bool) (f : N) | MCloseState (cl : bool) (f : N) (out : N)
| MFstatState (cl : bool) (f : N)               (* only with nlink_check (fix a8f7c5d) *)
(* ProcessCleaner::new after state() = Dead *)
| XOpenCtx | XOpenOwner (c : N) | XOpenState (c o : N) | XGetlkSt (c o s : N) | XSetlkOw (c o s : N) | XSetlkFstat (c o s : N).

Record lst := mkL {
  prog : list pop; at_pc : pc;
  trk : option N;                       (* PROCESS_STATE_TRACKING entry of this process for the path *)
  gfd : option (N * N * N);             (* ProcessGuard held: descriptors of state, owner_lock, context *)
  cfd : option (N * N * N);             (* ProcessCleaner held *)
  crash_at : option nat;                (* the process is killed BEFORE its k-th call (k from 0) *)
  ncalls : nat;
  crashed : bool
}.

Definition set_pc (l : lst) (c : pc) : lst := mkL (prog l) c (trk l) (gfd l) (cfd l) (crash_at l) (ncalls l) (crashed l).
Definition set_all (l : lst) (p : list pop) (c : pc) (tr : option N) (g k : option (N * N * N)) : lst :=
  mkL p c tr g k (crash_at l) (ncalls l) (crashed l).
Definition crash_l (l : lst) : lst := mkL [] Idle (trk l) None None (crash_at l) (ncalls l) true.
Definition inc_calls (l : lst) : lst := mkL (prog l) (at_pc l) (trk l) (gfd l) (cfd l) (crash_at l) (S (ncalls l)) (crashed l).

Definition my_id (t : nat) : N := N.of_nat t + 1.      (* UniqueProcessId: never 0 *)

Definition res_n (r : fres N) : cres := match r with FOk v => ROk v | FErr e => RErr e end.

Definition clean_code (verdict : N) : N :=
  if N.eqb verdict VAlive then K_StillAlive
  else if N.eqb verdict VDNE then K_DoesNotExist
  else if N.eqb verdict VCleaning then K_BeingCleaned
  else if N.eqb verdict VStarting then K_Initializing
  else K_StateErr.

Definition create_code (e : errno) : N :=
  match e with EEXIST => G_AlreadyExists | EACCES => G_InsufficientPermissions | _ => G_Other end.

Section Step.
Variable priv : bool.     (* the processes run with CAP_DAC_OVERRIDE (root) *)
(* true = process_state.rs as it is since fix a8f7c5d (F3): state() re-checks with fstat
   (metadata().number_of_links()) that an unlocked state file is still linked; nlink = 0 means the
   owner is removing it in an orderly drop => CleaningUp instead of Dead.  false = the code before
   that repair (kept so that the former defect stays a checked statement: C07.c07_f3_before_repair) *)
Variable nlink_check : bool.

Definition T := option (fs * lst * list pev).
Definition go (s : fs) (l : lst) (c : pc) (e : list pev) : T := Some (s, set_pc l c, e).
(* the running operation returns *)
Definition fin (s : fs) (l : lst) (op code : N) (e : list pev) : T := Some (s, set_pc l Idle, e ++ [ERet op code]).

(* state() has its verdict *)
Definition mret (s : fs) (l : lst) (cl : bool) (v : N) (e : list pev) : T :=
  if cl then (if N.eqb v VDead then go s l XOpenCtx e else fin s l OP_CLEAN (clean_code v) e)
  else fin s l OP_STATE v e.

Definition unwind (s : fs) (l : lst) (op code : N) (rest : list (N * N * bool)) (e : list pev) : T :=
  match rest with [] => fin s l op code e | _ => go s l (Unwind op code rest false) e end.

Definition open_ev (role : N) (a : acc) (creat excl : bool) (mode : N) (r : fres N) : pev :=
  ECall role (KOpen a creat excl mode) (res_n r).

Definition raw_step (t : nat) (s : fs) (l : lst) : T :=
  match at_pc l with
  | OutOfModel => None
  | Idle =>
    match prog l with
    | [] => None
    | OCreate :: p =>
      match trk l with
      | Some _ => Some (s, set_all l p Idle (trk l) (gfd l) (cfd l), [ERet OP_CREATE G_AlreadyExists])
      | None => Some (s, set_all l p CStatDir None (gfd l) (cfd l), [])
      end
    | ODrop :: p =>
      match gfd l with
      | Some (fs_, fo, fc) => Some (s, set_all l p (Drop OP_DROP [(R_STATE, fs_); (R_OWNER, fo); (R_CTX, fc)] 0) (trk l) None (cfd l), [])
      | None => Some (s, set_all l p Idle (trk l) None (cfd l), [ERet OP_DROP 0])
      end
    | OCDrop :: p =>
      match cfd l with
      | Some (fs_, fo, fc) => Some (s, set_all l p (Drop OP_CDROP [(R_STATE, fs_); (R_OWNER, fo); (R_CTX, fc)] 0) (trk l) (gfd l) None, [])
      | None => Some (s, set_all l p Idle (trk l) (gfd l) None, [ERet OP_CDROP 0])
      end
    | OCAbandon :: p =>
      match cfd l with
      | Some (fs_, fo, fc) => Some (s, set_all l p (Unwind OP_CABANDON 0 [(R_STATE, fs_, false); (R_OWNER, fo, false); (R_CTX, fc, false)] false) (trk l) (gfd l) None, [])
      | None => Some (s, set_all l p Idle (trk l) (gfd l) None, [ERet OP_CABANDON 0])
      end
    | OState :: p =>
      match trk l with
      | Some v => Some (s, set_all l p Idle (trk l) (gfd l) (cfd l), [ERet OP_STATE v])
      | None => Some (s, set_all l p (MOpenCtxW false) None (gfd l) (cfd l), [])
      end
    | OClean :: p =>
      match trk l with
      | Some v =>
        if N.eqb v VDead then Some (s, set_all l p XOpenCtx (trk l) (gfd l) (cfd l), [])
        else Some (s, set_all l p Idle (trk l) (gfd l) (cfd l), [ERet OP_CLEAN (clean_code v)])
      | None => Some (s, set_all l p (MOpenCtxW true) None (gfd l) (cfd l), [])
      end
    | OExit :: p => Some (fs_crash t s, crash_l l, [ECrash])     (* _exit without dropping: the kernel closes everything *)
    end

  (* ---------------- ProcessGuardBuilder::create ---------------- *)
  | CStatDir =>
    if dir_exists R_DIR s then go s l COpenCtx [ECall R_DIR KStat (ROk 0)]
    else go s l OutOfModel [ECall R_DIR KStat (RErr ENOENT)]
  | COpenCtx =>
    let '(r, s') := fs_open priv t R_DIR R_CTX ARdWr true true M_INIT s in
    let e := [open_ev R_CTX ARdWr true true M_INIT r] in
    match r with
    | FOk c => go s' l (CChmodCtx c) e
    | FErr er => fin s' l OP_CREATE (create_code er) e
    end
  | CChmodCtx c =>
    let '(r, s') := fs_fchmod t c M_INIT s in
    match r with FOk _ => go s' l (COpenState c) [ECall R_CTX (KFchmod M_INIT) (res_n r)]
               | FErr _ => go s' l OutOfModel [ECall R_CTX (KFchmod M_INIT) (res_n r)] end
  | COpenState c =>
    let '(r, s') := fs_open priv t R_DIR R_STATE ARdWr true true M_INIT s in
    let e := [open_ev R_STATE ARdWr true true M_INIT r] in
    match r with
    | FOk f => go s' l (CChmodState c f) e
    | FErr er => unwind s' l OP_CREATE (create_code er) [(R_CTX, c, true)] e
    end
  | CChmodState c f =>
    let '(r, s') := fs_fchmod t f M_INIT s in
    match r with FOk _ => go s' l (COpenOwner c f) [ECall R_STATE (KFchmod M_INIT) (res_n r)]
               | FErr _ => go s' l OutOfModel [ECall R_STATE (KFchmod M_INIT) (res_n r)] end
  | COpenOwner c f =>
    let '(r, s') := fs_open priv t R_DIR R_OWNER ARdWr true true M_INIT s in
    let e := [open_ev R_OWNER ARdWr true true M_INIT r] in
    match r with
    | FOk o => go s' l (CChmodOwner c f o) e
    | FErr er => unwind s' l OP_CREATE (create_code er) [(R_STATE, f, true); (R_CTX, c, true)] e
    end
  | CChmodOwner c f o =>
    let '(r, s') := fs_fchmod t o M_INIT s in
    match r with FOk _ => go s' l (CWrite c f o) [ECall R_OWNER (KFchmod M_INIT) (res_n r)]
               | FErr _ => go s' l OutOfModel [ECall R_OWNER (KFchmod M_INIT) (res_n r)] end
  | CWrite c f o =>
    let '(r, s') := fs_write t c (my_id t) s in
    let e := [ECall R_CTX KWrite (res_n r)] in
    match r with
    | FOk _ => go s' l (CSetlk c f o) e
    | FErr _ => unwind s' l OP_CREATE G_Other [(R_OWNER, o, true); (R_STATE, f, true); (R_CTX, c, true)] e
    end
  | CSetlk c f o =>
    let '(r, s') := fs_setlk t f LWrite s in
    let e := [ECall R_STATE (KSetlk LWrite) (res_n r)] in
    match r with
    | FOk _ => go s' l (CFinOwner c f o) e
    | FErr _ => go s' l (CSetlkFstat c f o) e
    end
  | CSetlkFstat c f o =>
    let '(r, s') := fs_fstat t f s in
    let all := [(R_OWNER, o, true); (R_STATE, f, true); (R_CTX, c, true)] in
    match r with
    | FOk (m, nl, _) =>
      unwind s' l OP_CREATE (if N.eqb nl 0 then G_SystemCorrupted else G_ContractViolation) all [ECall R_STATE KFstat (RStat m nl)]
    | FErr er => unwind s' l OP_CREATE G_ContractViolation all [ECall R_STATE KFstat (RErr er)]
    end
  | CFinOwner c f o =>
    let '(r, s') := fs_fchmod t o M_RW s in
    let e := [ECall R_OWNER (KFchmod M_RW) (res_n r)] in
    match r with FOk _ => go s' l (CFinState c f o) e
               | FErr _ => unwind s' l OP_CREATE G_Other [(R_OWNER, o, true); (R_STATE, f, true); (R_CTX, c, true)] e end
  | CFinState c f o =>
    let '(r, s') := fs_fchmod t f M_RW s in
    let e := [ECall R_STATE (KFchmod M_RW) (res_n r)] in
    match r with FOk _ => go s' l (CFinCtx c f o) e
               | FErr _ => unwind s' l OP_CREATE G_Other [(R_OWNER, o, true); (R_STATE, f, true); (R_CTX, c, true)] e end
  | CFinCtx c f o =>
    let '(r, s') := fs_fchmod t c M_CTX s in
    let e := [ECall R_CTX (KFchmod M_CTX) (res_n r)] in
    match r with
    | FOk _ => Some (s', set_all l (prog l) Idle (Some VAlive) (Some (f, o, c)) (cfd l), e ++ [ERet OP_CREATE 0])
    | FErr _ => unwind s' l OP_CREATE G_Other [(R_OWNER, o, true); (R_STATE, f, true); (R_CTX, c, true)] e
    end

  (* ---------------- early return: drop of the File locals ---------------- *)
  | Unwind op code rest removed =>
    match rest with
    | [] => fin s l op code []
    | (role, f, owned) :: rest' =>
      if owned && negb removed then
        let '(r, s') := fs_unlink role s in
        go s' l (Unwind op code rest true) [ECall role KRemove (res_n r)]
      else
        let '(r, s') := fs_close t f s in
        unwind s' l op code rest' [ECall role KClose (res_n r)]
    end

  (* ---------------- StateFiles::drop ---------------- *)
  | Drop op rest sub =>
    match rest with
    | [] => Some (s, set_all l (prog l) Idle None (gfd l) (cfd l), [ERet op 0])
    | (role, f) :: rest' =>
      if N.eqb sub 0 then
        let '(r, s') := fs_fchmod t f M_RW s in go s' l (Drop op rest 1) [ECall role (KFchmod M_RW) (res_n r)]
      else if N.eqb sub 1 then
        let '(r, s') := fs_unlink role s in go s' l (Drop op rest 2) [ECall role KRemove (res_n r)]
      else
        let '(r, s') := fs_close t f s in
        match rest' with
        | [] => Some (s', set_all l (prog l) Idle None (gfd l) (cfd l), [ECall role KClose (res_n r); ERet op 0])
        | _ => go s' l (Drop op rest' 0) [ECall role KClose (res_n r)]
        end
    end

  (* ---------------- ProcessMonitor::state ---------------- *)
  | MOpenCtxW cl =>
    let '(r, s') := fs_open priv t R_DIR R_CTX AWr false false 0 s in
    let e := [open_ev R_CTX AWr false false 0 r] in
    match r with
    | FOk f => go s' l (MFstatCtx cl f) e
    | FErr ENOENT => mret s' l cl VDNE e
    | FErr EACCES => go s' l (MOpenCtxR cl) e
    | FErr _ => mret s' l cl VErrOpen e
    end
  | MFstatCtx cl f =>
    let '(r, s') := fs_fstat t f s in
    match r with
    | FOk (m, nl, _) => go s' l (MCloseCtxW cl f (if N.eqb m M_INIT then VStarting else 0)) [ECall R_CTX KFstat (RStat m nl)]
    | FErr er => go s' l (MCloseCtxW cl f VErrOther) [ECall R_CTX KFstat (RErr er)]
    end
  | MCloseCtxW cl f out =>
    let '(r, s') := fs_close t f s in
    let e := [ECall R_CTX KClose (res_n r)] in
    if N.eqb out 0 then go s' l (MOpenCtxR cl) e else mret s' l cl out e
  | MOpenCtxR cl =>
    let '(r, s') := fs_open priv t R_DIR R_CTX ARd false false 0 s in
    let e := [open_ev R_CTX ARd false false 0 r] in
    match r with
    | FOk f => go s' l (MReadCtx cl f) e
    | FErr ENOENT => mret s' l cl VDNE e
    | FErr EACCES => mret s' l cl VErrPerm e
    | FErr _ => mret s' l cl VErrOpen e
    end
  | MReadCtx cl f =>
    let '(r, s') := fs_read t f s in
    match r with
    | FOk (Some v) => go s' l (MCloseCtxR cl f (if N.eqb v (my_id t) then VAlive else 0)) [ECall R_CTX KRead (ROk 1)]
    | FOk None => go s' l (MCloseCtxR cl f VErrReadId) [ECall R_CTX KRead (ROk 0)]
    | FErr er => go s' l (MCloseCtxR cl f VErrReadId) [ECall R_CTX KRead (RErr er)]
    end
  | MCloseCtxR cl f out =>
    let '(r, s') := fs_close t f s in
    let e := [ECall R_CTX KClose (res_n r)] in
    if N.eqb out 0 then go s' l (MOpenOwner cl) e else mret s' l cl out e
  | MOpenOwner cl =>
    let '(r, s') := fs_open priv t R_DIR R_OWNER AWr false false 0 s in
    let e := [open_ev R_OWNER AWr false false 0 r] in
    match r with
    | FOk f => go s' l (MGetlkOwner cl f) e
    | FErr ENOENT => go s' l (MAccessState cl) e
    | FErr EACCES => mret s' l cl VErrPerm e
    | FErr _ => mret s' l cl VErrOpen e
    end
  | MGetlkOwner cl f =>
    let '(r, s') := fs_getlk t f LWrite s in
    match r with
    | FOk (Some (LWrite, _)) => go s' l (MCloseOwner cl f VCleaning) [ECall R_OWNER (KGetlk LWrite) (RLock (Some LWrite))]
    | FOk (Some (LRead, _)) => go s' l (MCloseOwner cl f 0) [ECall R_OWNER (KGetlk LWrite) (RLock (Some LRead))]
    | FOk None => go s' l (MCloseOwner cl f 0) [ECall R_OWNER (KGetlk LWrite) (RLock None)]
    | FErr er => go s' l (MCloseOwner cl f VErrOther) [ECall R_OWNER (KGetlk LWrite) (RErr er)]
    end
  | MCloseOwner cl f out =>
    let '(r, s') := fs_close t f s in
    let e := [ECall R_OWNER KClose (res_n r)] in
    if N.eqb out 0 then go s' l (MOpenState cl) e else mret s' l cl out e
  | MAccessState cl =>
    if fs_exists R_STATE s then mret s l cl VErrCorrupted [ECall R_STATE KAccess (ROk 0)]
    else mret s l cl VCleaning [ECall R_STATE KAccess (RErr ENOENT)]
  | MOpenState cl =>
    let '(r, s') := fs_open priv t R_DIR R_STATE AWr false false 0 s in
    let e := [open_ev R_STATE AWr false false 0 r] in
    match r with
    | FOk f => go s' l (MGetlkState cl f) e
    | FErr ENOENT => mret s' l cl VCleaning e
    | FErr EACCES => mret s' l cl VErrPerm e
    | FErr _ => mret s' l cl VErrOpen e
    end
  | MGetlkState cl f =>
    let '(r, s') := fs_getlk t f LWrite s in
    match r with
    | FOk (Some (LWrite, _)) => go s' l (MCloseState cl f VAlive) [ECall R_STATE (KGetlk LWrite) (RLock (Some LWrite))]
    | FOk (Some (LRead, _)) => go s' l (if nlink_check then MFstatState cl f else MCloseState cl f VDead) [ECall R_STATE (KGetlk LWrite) (RLock (Some LRead))]
    | FOk None => go s' l (if nlink_check then MFstatState cl f else MCloseState cl f VDead) [ECall R_STATE (KGetlk LWrite) (RLock None)]
    | FErr er => go s' l (MCloseState cl f VErrOther) [ECall R_STATE (KGetlk LWrite) (RErr er)]
    end
  | MFstatState cl f =>
    let '(r, s') := fs_fstat t f s in
    match r with
    | FOk (m, nl, _) => go s' l (MCloseState cl f (if N.eqb nl 0 then VCleaning else VDead)) [ECall R_STATE KFstat (RStat m nl)]
    | FErr er => go s' l (MCloseState cl f VDead) [ECall R_STATE KFstat (RErr er)]
    end
  | MCloseState cl f out =>
    let '(r, s') := fs_close t f s in
    mret s' l cl out [ECall R_STATE KClose (res_n r)]

  (* ---------------- ProcessCleaner::new, after state() = Dead ---------------- *)
  | XOpenCtx =>
    let '(r, s') := fs_open priv t R_DIR R_CTX ARd false false 0 s in
    let e := [open_ev R_CTX ARd false false 0 r] in
    match r with
    | FOk c =>
      match trk l with
      | None => go s' l (XOpenOwner c) e
      | Some v =>
        if N.eqb v VDead then go s' l (XOpenOwner c) e
        else unwind s' l OP_CLEAN (clean_code v) [(R_CTX, c, false)] e
      end
    | FErr ENOENT => fin s' l OP_CLEAN K_DoesNotExist e
    | FErr _ => fin s' l OP_CLEAN K_UnableCtx e
    end
  | XOpenOwner c =>
    let '(r, s') := fs_open priv t R_DIR R_OWNER AWr false false 0 s in
    let e := [open_ev R_OWNER AWr false false 0 r] in
    match r with
    | FOk o => go s' l (XOpenState c o) e
    | FErr ENOENT => unwind s' l OP_CLEAN K_BeingCleaned [(R_CTX, c, false)] e
    | FErr _ => unwind s' l OP_CLEAN K_UnableOwner [(R_CTX, c, false)] e
    end
  | XOpenState c o =>
    let '(r, s') := fs_open priv t R_DIR R_STATE AWr false false 0 s in
    let e := [open_ev R_STATE AWr false false 0 r] in
    match r with
    | FOk f => go s' l (XGetlkSt c o f) e
    | FErr ENOENT => unwind s' l OP_CLEAN K_BeingCleaned [(R_OWNER, o, false); (R_CTX, c, false)] e
    | FErr _ => unwind s' l OP_CLEAN K_UnableState [(R_OWNER, o, false); (R_CTX, c, false)] e
    end
  | XGetlkSt c o f =>
    let '(r, s') := fs_getlk t f LWrite s in
    let all := [(R_STATE, f, false); (R_OWNER, o, false); (R_CTX, c, false)] in
    match r with
    | FOk (Some (LWrite, _)) => unwind s' l OP_CLEAN K_StillAlive all [ECall R_STATE (KGetlk LWrite) (RLock (Some LWrite))]
    | FOk (Some (LRead, _)) => go s' l (XSetlkOw c o f) [ECall R_STATE (KGetlk LWrite) (RLock (Some LRead))]
    | FOk None => go s' l (XSetlkOw c o f) [ECall R_STATE (KGetlk LWrite) (RLock None)]
    | FErr er => unwind s' l OP_CLEAN K_LockState all [ECall R_STATE (KGetlk LWrite) (RErr er)]
    end
  | XSetlkOw c o f =>
    let '(r, s') := fs_setlk t o LWrite s in
    let e := [ECall R_OWNER (KSetlk LWrite) (res_n r)] in
    match r with
    | FOk _ => Some (s', set_all l (prog l) Idle (match trk l with Some _ => Some VCleaning | None => None end) (gfd l) (Some (f, o, c)),
                     e ++ [ERet OP_CLEAN 0])
    | FErr _ => go s' l (XSetlkFstat c o f) e
    end
  | XSetlkFstat c o f =>
    let '(r, s') := fs_fstat t o s in
    let all := [(R_STATE, f, false); (R_OWNER, o, false); (R_CTX, c, false)] in
    match r with
    | FOk (m, nl, _) =>
      unwind s' l OP_CLEAN (if N.eqb nl 0 then K_DoesNotExist else K_OwnedByAnother) all [ECall R_OWNER KFstat (RStat m nl)]
    | FErr er => unwind s' l OP_CLEAN K_OwnedByAnother all [ECall R_OWNER KFstat (RErr er)]
    end
  end.

Definition is_call (e : pev) : bool := match e with ECall _ _ _ => true | _ => false end.

(* a process that is killed stops for ever; its descriptors and locks are gone *)
Definition step (t : nat) (s : fs) (l : lst) : T :=
  if crashed l then None else
  match raw_step t s l with
  | None => None
  | Some (s', l', es) =>
    if existsb is_call es then
      if match crash_at l with Some k => Nat.eqb k (ncalls l) | None => false end
      then Some (fs_crash t s, crash_l l, [ECrash])
      else Some (s', inc_calls l', es)
    else Some (s', l', es)
  end.
End Step.

Definition l_init (p : list pop) (k : option nat) : lst := mkL p Idle None None None k O false.
Definition fs_init : fs := fs_empty [R_DIR].
Definition init (progs : nat -> list pop) (kills : nat -> option nat) : cfg fs lst :=
  (fs_init, fun t => l_init (progs t) (kills t)).
